/-
  Proofs.GoTieBech32 — the arithmetic kernel of internal/bech32, as TRANSLATED from
  the Go source (AgeModel/Extracted/Funcs.lean, regenerated on every run), computes
  what the hand-written model (AgeModel/Bech32.lean) computes — for ALL inputs.
-/
import AgeModel.GoSem
import AgeModel.Bech32
import AgeModel.Extracted.Funcs
import Proofs.Bech32Poly
namespace AgeModel
namespace GoTie
open Extracted

/-- the Go error value `convertBits` returns for each error class of the model -/
def cbErr : Bech32.Err → Option Go.Err
  | .badRange => some ⟨"bech32.convertBits", 0, []⟩
  | .badPaddingIllegal => some ⟨"bech32.convertBits", 1, []⟩
  | .badPaddingNonZero => some ⟨"bech32.convertBits", 2, []⟩
  | _ => some ⟨"unreachable", 0, []⟩

/-- what the translated `convertBits` returns, in terms of the model's result -/
def cbRes : Except Bech32.Err Bytes → Go.M (List UInt8 × Option Go.Err)
  | .ok r => .ok (r, none)
  | .error e => .ok ([], cbErr e)

theorem rangeUp05 : Go.rangeUp 0 5 = [0,1,2,3,4] := by decide

def feedU (top : UInt32) (i : Nat) (g : UInt32) (chk : UInt32) : UInt32 :=
  if (Go.shrU32 top i &&& 1) == 1 then chk ^^^ g else chk

theorem loop2_cons (top chk : UInt32) (i : Int) (rest : List Int) (g : UInt32) (hi : ¬ i < 0)
    (hg : Go.idx bech32_generator i = .ok g) :
    bech32_polymod_loop2 top (i :: rest) chk = bech32_polymod_loop2 top rest (feedU top i.toNat g chk) := by
  simp only [bech32_polymod_loop2, bind, Except.bind, Go.shiftCount, hi, if_false, hg, feedU]
  split <;> rfl

theorem polymod_loop2_eq (top chk : UInt32) :
    bech32_polymod_loop2 top [0,1,2,3,4] chk = .ok (.next
      (feedU top 4 705979059 (feedU top 3 1027748829 (feedU top 2 513874426 (feedU top 1 642813549 (feedU top 0 996825010 chk)))))) := by
  rw [loop2_cons top _ 0 _ 996825010 (by decide) rfl, loop2_cons top _ 1 _ 642813549 (by decide) rfl,
    loop2_cons top _ 2 _ 513874426 (by decide) rfl, loop2_cons top _ 3 _ 1027748829 (by decide) rfl,
    loop2_cons top _ 4 _ 705979059 (by decide) rfl]
  rfl

def stepU (chk : UInt32) (v : UInt8) : UInt32 :=
  let top := Go.shrU32 chk 25
  let c := Go.shlU32 (chk &&& (33554431 : UInt32)) 5 ^^^ v.toUInt32
  feedU top 4 705979059 (feedU top 3 1027748829 (feedU top 2 513874426 (feedU top 1 642813549 (feedU top 0 996825010 c))))

theorem polymod_loop1_eq : ∀ (vs : List UInt8) (chk : UInt32),
    bech32_polymod_loop1 vs chk = .ok (.next (vs.foldl stepU chk))
  | [], chk => rfl
  | v :: vs, chk => by
    simp only [bech32_polymod_loop1, bind, Except.bind, rangeUp05, polymod_loop2_eq, List.foldl_cons]
    exact polymod_loop1_eq vs _

theorem shrU32_toNat (x : UInt32) (n : Nat) : (Go.shrU32 x n).toNat = x.toNat >>> n := by
  simp only [Go.shrU32, UInt32.toNat_ofNat']
  apply Nat.mod_eq_of_lt
  exact Nat.lt_of_le_of_lt (Nat.shiftRight_le _ _) x.toNat_lt

theorem feedU_toNat (top : UInt32) (i : Nat) (g c : UInt32) :
    (feedU top i g c).toNat = Bech32.feed top.toNat i g.toNat c.toNat := by
  unfold feedU Bech32.feed
  have : ((Go.shrU32 top i &&& 1) == 1) = decide (top.toNat >>> i &&& 1 = 1) := by
    rw [Bool.eq_iff_iff]
    simp only [beq_iff_eq, decide_eq_true_eq, ← UInt32.toNat_inj, UInt32.toNat_and, shrU32_toNat]
    rfl
  rw [this]
  by_cases h : top.toNat >>> i &&& 1 = 1
  · simp only [h, decide_true, ↓reduceIte, UInt32.toNat_xor]
  · simp only [h, decide_false, Bool.false_eq_true, ↓reduceIte]

theorem stepU_toNat (chk : UInt32) (v : UInt8) : (stepU chk v).toNat = Bech32.polymodStep chk.toNat v := by
  simp only [stepU, Bech32.polymodStep, feedU_toNat, shrU32_toNat, UInt32.toNat_xor, UInt8.toNat_toUInt32]
  have : (Go.shlU32 (chk &&& 33554431) 5).toNat = (chk.toNat &&& 0x1ffffff) <<< 5 := by
    simp only [Go.shlU32, UInt32.toNat_ofNat', UInt32.toNat_and]
    have h : chk.toNat &&& 33554431 ≤ 33554431 := Nat.and_le_right
    have e : (33554431 : UInt32).toNat = 33554431 := rfl
    rw [e, Nat.shiftLeft_eq]
    omega
  rw [this]
  rfl

theorem foldl_stepU_toNat : ∀ (vs : List UInt8) (chk : UInt32),
    (vs.foldl stepU chk).toNat = vs.foldl Bech32.polymodStep chk.toNat
  | [], _ => rfl
  | v :: vs, chk => by
    rw [List.foldl_cons, List.foldl_cons, foldl_stepU_toNat vs, stepU_toNat]

theorem polymod_tie (vs : Bytes) : bech32_polymod vs = .ok (UInt32.ofNat (Bech32.polymod vs)) := by
  simp only [bech32_polymod, bind, Except.bind, pure, Except.pure, polymod_loop1_eq]
  congr 1
  apply UInt32.toNat_inj.mp
  rw [foldl_stepU_toNat, UInt32.toNat_ofNat']
  have := Bech32.polymod_lt vs
  unfold Bech32.polymod at *
  have e : (1 : UInt32).toNat = 1 := rfl
  rw [e]
  omega

/-! ## hrpExpand -/

theorem hx_loop1 : ∀ (xs ret : List UInt8),
    bech32_hrpExpand_loop1 xs ret = .ok (.next (ret ++ xs.map fun c => Go.shrU8 c 5))
  | [], ret => by simp [bech32_hrpExpand_loop1, pure, Except.pure]
  | x :: xs, ret => by
    simp only [bech32_hrpExpand_loop1, hx_loop1 xs, List.map_cons, List.append_assoc, List.singleton_append]

theorem hx_loop2 : ∀ (xs ret : List UInt8),
    bech32_hrpExpand_loop2 xs ret = .ok (.next (ret ++ xs.map fun c => c &&& 31))
  | [], ret => by simp [bech32_hrpExpand_loop2, pure, Except.pure]
  | x :: xs, ret => by
    simp only [bech32_hrpExpand_loop2, hx_loop2 xs, List.map_cons, List.append_assoc, List.singleton_append]

theorem shrU8_toNat (x : UInt8) (n : Nat) : (Go.shrU8 x n).toNat = x.toNat >>> n := by
  simp only [Go.shrU8, UInt8.toNat_ofNat']
  apply Nat.mod_eq_of_lt
  exact Nat.lt_of_le_of_lt (Nat.shiftRight_le _ _) x.toNat_lt

theorem shrU8_5 (c : UInt8) : Go.shrU8 c 5 = c >>> 5 := by
  apply UInt8.toNat_inj.mp
  rw [shrU8_toNat, UInt8.toNat_shiftRight]
  rfl

theorem lowerByte_eq : Go.lowerByte = Bech32.lowerByte := rfl

theorem hrpExpand_tie (hrp : Bytes) (h : Go.isAscii hrp = true) :
    bech32_hrpExpand hrp = .ok (Bech32.hrpExpand hrp) := by
  simp only [bech32_hrpExpand, bind, Except.bind, pure, Except.pure, hx_loop1, hx_loop2, Go.strings_ToLower, h,
    if_true, Bech32.hrpExpand, Bech32.toLower, lowerByte_eq, List.nil_append, shrU8_5]

theorem verifyChecksum_tie (hrp data : Bytes) (h : Go.isAscii hrp = true) :
    bech32_verifyChecksum hrp data = .ok (Bech32.verifyChecksum hrp data) := by
  simp only [bech32_verifyChecksum, bind, Except.bind, pure, Except.pure, hrpExpand_tie hrp h, polymod_tie,
    Bech32.verifyChecksum]
  congr 1
  have := Bech32.polymod_lt (Bech32.hrpExpand hrp ++ data)
  rw [Bool.eq_iff_iff]
  simp only [beq_iff_eq, ← UInt32.toNat_inj, UInt32.toNat_ofNat']
  have e : (1 : UInt32).toNat = 1 := rfl
  rw [e]
  omega

/-! ## createChecksum -/

theorem emitU (a : UInt32) (k : Nat) (m : UInt8) :
    (Go.shrU32 a k).toUInt8 &&& m = ((a.toNat >>> k) % 256 &&& m.toNat).toUInt8 := by
  apply UInt8.toNat_inj.mp
  simp only [UInt8.toNat_and, UInt32.toNat_toUInt8, shrU32_toNat, Nat.toUInt8, UInt8.toNat_ofNat']
  have h1 : (a.toNat >>> k) % 256 &&& m.toNat ≤ m.toNat := Nat.and_le_right
  have h2 := m.toNat_lt
  have e : (2 : Nat) ^ 8 = 256 := rfl
  rw [e]
  omega

theorem cc_loop1_cons (m : UInt32) (p : Int) (rest : List Int) (ret : List UInt8) (k : Nat)
    (hk : Go.shiftCount (5 * (5 - p)) = .ok k) (hp : 0 ≤ p ∧ p.toNat < ret.length) :
    bech32_createChecksum_loop1 m (p :: rest) ret =
      bech32_createChecksum_loop1 m rest (ret.set p.toNat ((Go.shrU32 m k).toUInt8 &&& 31)) := by
  simp only [bech32_createChecksum_loop1, bind, Except.bind, hk, Go.set, hp, and_self, if_true]

theorem cc_loop1_eq (m : UInt32) :
    bech32_createChecksum_loop1 m [0, 1, 2, 3, 4, 5] [0, 0, 0, 0, 0, 0] = .ok (.next
      [(Go.shrU32 m 25).toUInt8 &&& 31, (Go.shrU32 m 20).toUInt8 &&& 31, (Go.shrU32 m 15).toUInt8 &&& 31,
       (Go.shrU32 m 10).toUInt8 &&& 31, (Go.shrU32 m 5).toUInt8 &&& 31, (Go.shrU32 m 0).toUInt8 &&& 31]) := by
  rw [cc_loop1_cons m 0 _ _ 25 rfl (by simp), cc_loop1_cons m 1 _ _ 20 rfl (by simp),
    cc_loop1_cons m 2 _ _ 15 rfl (by simp), cc_loop1_cons m 3 _ _ 10 rfl (by simp),
    cc_loop1_cons m 4 _ _ 5 rfl (by simp), cc_loop1_cons m 5 _ _ 0 rfl (by simp)]
  rfl

theorem rangeUp06 : Go.rangeUp 0 (Go.len ([0, 0, 0, 0, 0, 0] : List UInt8)) = [0,1,2,3,4,5] := by decide

theorem createChecksum_tie (hrp data : Bytes) (h : Go.isAscii hrp = true) :
    bech32_createChecksum hrp data = .ok (Bech32.createChecksum hrp data) := by
  have hmk : Go.makeList (0 : UInt8) 6 = .ok [0, 0, 0, 0, 0, 0] := rfl
  simp only [bech32_createChecksum, bind, Except.bind, pure, Except.pure, hrpExpand_tie hrp h, polymod_tie,
    hmk, rangeUp06, cc_loop1_eq, emitU, Bech32.createChecksum, List.map_cons, List.map_nil]
  have hlt := Bech32.polymod_lt (Bech32.hrpExpand hrp ++ data ++ [0, 0, 0, 0, 0, 0])
  have hm : (UInt32.ofNat (Bech32.polymod (Bech32.hrpExpand hrp ++ data ++ [0, 0, 0, 0, 0, 0])) ^^^ 1).toNat =
      Bech32.polymod (Bech32.hrpExpand hrp ++ data ++ [0, 0, 0, 0, 0, 0]) ^^^ 1 := by
    rw [UInt32.toNat_xor, UInt32.toNat_ofNat', Nat.mod_eq_of_lt (by omega)]
    rfl
  rw [hm]
  rfl

/-! ## convertBits -/

theorem cb_loop2_succ (t : UInt8) (acc : UInt32) (m : UInt8) (fuel : Nat) (ret : List UInt8) (bits : UInt8) :
    bech32_convertBits_loop2 t acc m (fuel + 1) ret bits =
      if bits ≥ t then
        bech32_convertBits_loop2 t acc m fuel (ret ++ [((Go.shrU32 acc (bits - t).toNat).toUInt8 &&& m)]) (bits - t)
      else .ok (.next (ret, bits)) := by
  simp only [bech32_convertBits_loop2, pure, Except.pure]
  by_cases h : bits ≥ t <;> simp [h]

theorem cb_loop2_eq (t : UInt8) (acc : UInt32) (m : UInt8) (ht : 1 ≤ t.toNat) :
    ∀ (fuelG fuelM : Nat) (ret : List UInt8) (bits : UInt8), bits.toNat < fuelG → bits.toNat ≤ fuelM →
      ∃ b : UInt8, b.toNat = (Bech32.drain acc.toNat t.toNat m.toNat fuelM bits.toNat ret).1 ∧ b.toNat < t.toNat ∧
        bech32_convertBits_loop2 t acc m fuelG ret bits =
          .ok (.next ((Bech32.drain acc.toNat t.toNat m.toNat fuelM bits.toNat ret).2, b))
  | 0, _, _, _, h, _ => by omega
  | fuelG + 1, fuelM, ret, bits, hG, hM => by
    rw [cb_loop2_succ]
    by_cases hb : bits ≥ t
    · have hb' : bits.toNat ≥ t.toNat := UInt8.le_iff_toNat_le.mp hb
      have hsub : (bits - t).toNat = bits.toNat - t.toNat := UInt8.toNat_sub_of_le _ _ hb
      obtain ⟨fuelM', rfl⟩ : ∃ k, fuelM = k + 1 := ⟨fuelM - 1, by omega⟩
      obtain ⟨b, h1, h2, h3⟩ := cb_loop2_eq t acc m ht fuelG fuelM'
        (ret ++ [((Go.shrU32 acc (bits - t).toNat).toUInt8 &&& m)]) (bits - t) (by omega) (by omega)
      refine ⟨b, ?_, h2, ?_⟩
      · rw [h1, Bech32.drain, if_pos hb', hsub, emitU]
      · rw [if_pos hb, h3, Bech32.drain, if_pos hb', hsub, emitU]
    · have hb' : ¬ bits.toNat ≥ t.toNat := fun h => hb (UInt8.le_iff_toNat_le.mpr h)
      have hd : Bech32.drain acc.toNat t.toNat m.toNat fuelM bits.toNat ret = (bits.toNat, ret) := by
        cases fuelM with
        | zero => rfl
        | succ k => rw [Bech32.drain, if_neg hb']
      refine ⟨bits, ?_, by omega, ?_⟩
      · rw [hd]
      · rw [if_neg hb, hd]

theorem shlU32_or_toNat (acc : UInt32) (n : Nat) (v : UInt8) :
    (Go.shlU32 acc n ||| v.toUInt32).toNat = (acc.toNat <<< n ||| v.toNat) % 2 ^ 32 := by
  rw [UInt32.toNat_or, UInt8.toNat_toUInt32, Nat.or_mod_two_pow, Go.shlU32, UInt32.toNat_ofNat']
  have := v.toNat_lt
  have e : (4294967296 : Nat) = 2 ^ 32 := rfl
  rw [e, Nat.mod_mod, Nat.mod_eq_of_lt (a := v.toNat) (by omega)]

theorem cb_loop1_eq (f t m : UInt8) (ht : 1 ≤ t.toNat) (hft : f.toNat + t.toNat ≤ 256) :
    ∀ (data : List UInt8) (k : Int) (ret : List UInt8) (acc : UInt32) (bits : UInt8), bits.toNat < t.toNat →
      (Bech32.cbLoop f.toNat t.toNat m.toNat data acc.toNat bits.toNat ret = .error .badRange ∧
        bech32_convertBits_loop1 f t m data k ret acc bits =
          .ok (.ret ([], some ⟨"bech32.convertBits", 0, []⟩))) ∨
      ∃ (acc' : UInt32) (bits' : UInt8) (r : List UInt8),
        Bech32.cbLoop f.toNat t.toNat m.toNat data acc.toNat bits.toNat ret = .ok (acc'.toNat, bits'.toNat, r) ∧
        bits'.toNat < t.toNat ∧
        bech32_convertBits_loop1 f t m data k ret acc bits = .ok (.next (r, acc', bits'))
  | [], k, ret, acc, bits, hb => Or.inr ⟨acc, bits, ret, rfl, hb, rfl⟩
  | v :: rest, k, ret, acc, bits, hb => by
    simp only [bech32_convertBits_loop1, bind, Except.bind, pure, Except.pure, Bech32.cbLoop]
    have hne : (Go.shrU8 v f.toNat != 0) = true ↔ v.toNat >>> f.toNat ≠ 0 := by
      rw [bne_iff_ne, Ne, ← UInt8.toNat_inj, shrU8_toNat]
      rfl
    by_cases hr : v.toNat >>> f.toNat ≠ 0
    · rw [if_pos (hne.mpr hr), if_pos hr]
      exact Or.inl ⟨rfl, rfl⟩
    · rw [if_neg (fun h => hr (hne.mp h)), if_neg hr]
      have hadd : (bits + f).toNat = bits.toNat + f.toNat := by
        rw [UInt8.toNat_add]
        apply Nat.mod_eq_of_lt
        omega
      obtain ⟨b, h1, h2, h3⟩ := cb_loop2_eq t (Go.shlU32 acc f.toNat ||| v.toUInt32) m ht ((bits + f).toNat + 1)
        (bits + f).toNat ret (bits + f) (by omega) (by omega)
      rw [h3]
      simp only []
      rw [shlU32_or_toNat, hadd] at h1 h3 ⊢
      have ih := cb_loop1_eq f t m ht hft rest (k + 1)
        (Bech32.drain ((acc.toNat <<< f.toNat ||| v.toNat) % 2 ^ 32) t.toNat m.toNat (bits.toNat + f.toNat)
          (bits.toNat + f.toNat) ret).2 (Go.shlU32 acc f.toNat ||| v.toUInt32) b h2
      rw [shlU32_or_toNat, h1] at ih
      exact ih

theorem padU (a : UInt32) (n : Nat) (m : UInt8) :
    (Go.shlU32 a n).toUInt8 &&& m = ((a.toNat <<< n) % 2 ^ 32 % 256 &&& m.toNat).toUInt8 := by
  apply UInt8.toNat_inj.mp
  simp only [UInt8.toNat_and, UInt32.toNat_toUInt8, Go.shlU32, UInt32.toNat_ofNat', Nat.toUInt8, UInt8.toNat_ofNat']
  have h1 : (a.toNat <<< n) % 2 ^ 32 % 256 &&& m.toNat ≤ m.toNat := Nat.and_le_right
  have h2 := m.toNat_lt
  have e : (2 : Nat) ^ 8 = 256 := rfl
  have e2 : (4294967296 : Nat) = 2 ^ 32 := rfl
  rw [e, e2, Nat.mod_mod]
  omega

theorem toUInt8_bne_zero (x : Nat) (hx : x < 256) : (x.toUInt8 != 0) = true ↔ x ≠ 0 := by
  rw [bne_iff_ne, Ne, ← UInt8.toNat_inj, Nat.toUInt8, UInt8.toNat_ofNat']
  have e : (2 : Nat) ^ 8 = 256 := rfl
  have e0 : (0 : UInt8).toNat = 0 := rfl
  rw [e, e0, Nat.mod_eq_of_lt hx]

theorem convertBits_tie_gen (data : Bytes) (f t : UInt8) (pad : Bool) (ht : 1 ≤ t.toNat)
    (hft : f.toNat + t.toNat ≤ 256) (hm : (Go.shlU8 1 t.toNat - 1).toNat = (1 <<< t.toNat - 1) % 256) :
    bech32_convertBits data f t pad = cbRes (Bech32.convertBits data f.toNat t.toNat pad) := by
  have e32 : (0 : UInt32).toNat = 0 := rfl
  have e8 : (0 : UInt8).toNat = 0 := rfl
  have hl := cb_loop1_eq f t (Go.shlU8 1 t.toNat - 1) ht hft data 0 [] 0 0 (by rw [e8]; omega)
  rw [e32, e8, hm] at hl
  simp only [bech32_convertBits, bind, Except.bind, pure, Except.pure, Bech32.convertBits]
  rcases hl with ⟨hc, hl⟩ | ⟨acc', bits', r, hc, hb, hl⟩
  · rw [hc, hl]
    rfl
  · rw [hc, hl]
    simp only [padU, hm]
    have hsub : (t - bits').toNat = t.toNat - bits'.toNat :=
      UInt8.toNat_sub_of_le _ _ (UInt8.le_iff_toNat_le.mpr (by omega))
    rw [hsub]
    cases pad with
    | true =>
      simp only [if_true]
      have hgt : bits' > 0 ↔ bits'.toNat > 0 := by
        rw [GT.gt, UInt8.lt_iff_toNat_lt, e8]
      by_cases hp : bits'.toNat > 0
      · rw [if_pos (decide_eq_true (hgt.mpr hp)), if_pos hp]
        rfl
      · rw [if_neg (by simpa [hgt] using hp), if_neg hp]
        rfl
    | false =>
      simp only [Bool.false_eq_true, if_false]
      have hge : bits' ≥ f ↔ bits'.toNat ≥ f.toNat := UInt8.le_iff_toNat_le
      by_cases hp : bits'.toNat ≥ f.toNat
      · rw [if_pos (decide_eq_true (hge.mpr hp)), if_pos hp]
        rfl
      · rw [if_neg (by simpa [hge] using hp), if_neg hp]
        have hlt : acc'.toNat <<< (t.toNat - bits'.toNat) % 2 ^ 32 % 256 &&& (1 <<< t.toNat - 1) % 256 < 256 :=
          Nat.lt_of_le_of_lt Nat.and_le_right (Nat.mod_lt _ (by decide))
        by_cases hz : acc'.toNat <<< (t.toNat - bits'.toNat) % 2 ^ 32 % 256 &&& (1 <<< t.toNat - 1) % 256 ≠ 0
        · rw [if_pos ((toUInt8_bne_zero _ hlt).mpr hz), if_pos hz]
          rfl
        · rw [if_neg (fun h => hz ((toUInt8_bne_zero _ hlt).mp h)), if_neg hz]
          rfl

/-- the two call sites of `convertBits`: (8, 5, pad) in Encode and (5, 8, no pad) in Decode -/
theorem convertBits_tie_8_5 (data : Bytes) :
    bech32_convertBits data 8 5 true = cbRes (Bech32.convertBits data 8 5 true) :=
  convertBits_tie_gen data 8 5 true (by decide) (by decide) (by decide)

theorem convertBits_tie_5_8 (data : Bytes) :
    bech32_convertBits data 5 8 false = cbRes (Bech32.convertBits data 5 8 false) :=
  convertBits_tie_gen data 5 8 false (by decide) (by decide) (by decide)
end GoTie
end AgeModel
