/-
  Proofs.Bech32Distance — assembling the kernel computations into the code fact:
  no non-zero error pattern of weight ≤ 4 within 58 symbols has zero syndrome.
-/
import Proofs.Bech32Pairs0
import Proofs.Bech32Pairs1
import Proofs.Bech32Pairs2
import Proofs.Bech32Pairs3
import Proofs.Bech32Scalar
import Proofs.Bech32Typo
namespace AgeModel
namespace Bech32

theorem pairsAll_tbl : PairsAll PF tbl := by
  apply pairsAll_of_chunks PF tbl 0
  intro k hk
  have h0 := pairs_chunk_0
  have h1 := pairs_chunk_1
  have h2 := pairs_chunk_2
  have h3 := pairs_chunk_3
  simp only [chunk, insertRows_eq] at h0 h1 h2 h3
  have : k = 0 ∨ k = 1 ∨ k = 2 ∨ k = 3 := by omega
  rcases this with rfl | rfl | rfl | rfl
  · exact h0
  · exact h1
  · exact h2
  · exact h3

theorem fact4' : Fact4' := by
  intro p q r y z hr hrq hqp hp hy1 hy hz1 hz
  obtain ⟨hq', hrowq⟩ := row_eq (p := q) (by omega) (by omega)
  obtain ⟨hp', hrowp⟩ := row_eq (p := p) (by omega) hp
  obtain ⟨hr', hmemr⟩ := entry_mem (p := r) (x := z) hr (by omega) hz1 hz
  have ha : Lpow q y ∈ tbl[q - 1] := by
    rw [hrowq]; exact List.mem_map.mpr ⟨y, (mem_xs y).mpr ⟨hy1, hy⟩, rfl⟩
  have hb : tbl[p - 1] = Lpow p 1 :: (xs.tail.map (Lpow p)) := by
    rw [hrowp]; rfl
  have habs := pairsAll_get PF tbl pairsAll_tbl (q - 1) (p - 1) (by omega) hp' _ ha _ _ hb
  have hfind := (entry_facts (p := r) (x := z) hr (by omega) hz1 hz).2
  have hbit : PF.testBit (pre (Lpow r z >>> 5)) = true :=
    insRows_mem tbl 0 _ _ (List.getElem_mem hr') hmemr
  have hne : (Lpow q y ^^^ Lpow p 1) >>> 5 ≠ Lpow r z >>> 5 := by
    intro he
    rw [he] at habs
    have := absent_spec habs hbit
    rw [hfind] at this
    cases this
  have := shift_ne_xor_ge hne
  rw [Nat.xor_comm (Lpow q y)] at this
  exact this

theorem fact4 : Fact4 := fact4_of_normalised fact4'

/-- no non-zero error pattern of weight ≤ 4 over 5-bit symbols within 58
    positions has zero syndrome (the BIP 173 design guarantee, for the lengths
    native age strings have) -/
theorem noLowWeight4 : NoLowWeight 4 :=
  noLowWeight_of_facts 4 (Nat.le_refl _) fact2 (fun _ => fact3) (fun _ => fact4)

end Bech32
end AgeModel
