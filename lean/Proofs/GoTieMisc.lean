/-
  Proofs.GoTieMisc — small functions TRANSLATED from the Go source
  (AgeModel/Extracted/Funcs.lean, regenerated on every run) compute what the
  hand-written model computes, for ALL inputs: the rune loops over strings,
  stream's nonce arithmetic, format's string predicates, the plugin-name check,
  age.slicesEqual.
-/
import AgeModel.GoSem
import AgeModel.Stream
import AgeModel.Format
import AgeModel.Keys
import AgeModel.Extracted.Funcs
import Proofs.Nonce
namespace AgeModel
namespace GoTie
open Extracted

/-! ## ranging over the runes of a string -/

theorem u8_lt_128 (b : UInt8) : (b < 0x80) ↔ b.toNat < 128 := UInt8.lt_iff_toNat_lt

theorem decodeRune_ascii (b : UInt8) (rest : List UInt8) (h : b.toNat < 0x80) :
    Go.decodeRune (b :: rest) = (Int.ofNat b.toNat, 1) := by
  simp only [Go.decodeRune, h, if_true]

theorem decodeRune_width (l : List UInt8) : 1 ≤ (Go.decodeRune l).2 := by
  unfold Go.decodeRune
  split
  · exact Nat.le_refl _
  · dsimp only
    repeat' split
    all_goals first | decide | (dsimp only; omega)

theorem decodeRune_nonascii (b : UInt8) (rest : List UInt8) (h : 0x80 ≤ b.toNat) :
    0x80 ≤ (Go.decodeRune (b :: rest)).1 := by
  have hb := b.toNat_lt
  simp only [Go.decodeRune]
  repeat' split
  all_goals first
    | decide
    | omega
    | (simp only [Int.ofNat_eq_natCast]; omega)

theorem runesFrom_any (P : Int → Bool) (Q : UInt8 → Bool)
    (h1 : ∀ b : UInt8, b.toNat < 128 → P (Int.ofNat b.toNat) = Q b)
    (h2 : ∀ b : UInt8, 128 ≤ b.toNat → Q b = true)
    (h3 : ∀ r : Int, 128 ≤ r → P r = true) :
    ∀ (fuel off : Nat) (s : List UInt8), s.length ≤ fuel →
      (Go.runesFrom fuel off s).any (fun p => P p.2) = s.any Q := by
  intro fuel
  induction fuel with
  | zero =>
    intro off s hs
    have : s = [] := List.eq_nil_of_length_eq_zero (Nat.le_zero.mp hs)
    subst this; rfl
  | succ fuel ih =>
    intro off s hs
    cases s with
    | nil => rfl
    | cons b rest =>
      simp only [Go.runesFrom, List.any_cons]
      by_cases hb : b.toNat < 128
      · rw [decodeRune_ascii b rest hb]
        simp only [List.drop_succ_cons, List.drop_zero]
        rw [ih (off + 1) rest (by simpa using hs), h1 b hb]
      · have hb' : 128 ≤ b.toNat := Nat.le_of_not_lt hb
        rw [h3 _ (decodeRune_nonascii b rest hb'), h2 b hb']
        simp only [Bool.true_or]

theorem runes_any (P : Int → Bool) (Q : UInt8 → Bool)
    (h1 : ∀ b : UInt8, b.toNat < 128 → P (Int.ofNat b.toNat) = Q b)
    (h2 : ∀ b : UInt8, 128 ≤ b.toNat → Q b = true)
    (h3 : ∀ r : Int, 128 ≤ r → P r = true) (s : List UInt8) :
    (Go.runes s).any (fun p => P p.2) = s.any Q :=
  runesFrom_any P Q h1 h2 h3 s.length 0 s (Nat.le_refl _)

/-- the test `c < 33 || c > 126` finds a rune iff it finds a byte -/
theorem runes_any_bad (s : Bytes) :
    (Go.runes s).any (fun p => decide (p.2 < 33) || decide (p.2 > 126)) = s.any (fun b => b < 33 || b > 126) := by
  refine runes_any (fun r => decide (r < 33) || decide (r > 126)) (fun b => b < 33 || b > 126) ?_ ?_ ?_ s
  · intro b hb
    simp only [UInt8.lt_iff_toNat_lt, gt_iff_lt, Int.ofNat_eq_natCast]
    congr 1
    · simp only [decide_eq_decide]; show _ ↔ b.toNat < 33; omega
    · simp only [decide_eq_decide]; show _ ↔ 126 < b.toNat; omega
  · intro b hb
    simp only [UInt8.lt_iff_toNat_lt, gt_iff_lt, Bool.or_eq_true, decide_eq_true_eq]
    right; show 126 < b.toNat; omega
  · intro r hr
    simp only [Bool.or_eq_true, decide_eq_true_eq]
    omega

theorem runesFrom_ascii : ∀ (fuel off : Nat) (s : List UInt8), s.length ≤ fuel → Go.isAscii s = true →
    Go.runesFrom fuel off s =
      (List.range' off s.length).zipWith (fun i b => (Int.ofNat i, Int.ofNat b.toNat)) s := by
  intro fuel
  induction fuel with
  | zero =>
    intro off s hs _
    have : s = [] := List.eq_nil_of_length_eq_zero (Nat.le_zero.mp hs)
    subst this; rfl
  | succ fuel ih =>
    intro off s hs ha
    cases s with
    | nil => rfl
    | cons b rest =>
      simp only [Go.isAscii, List.all_cons, Bool.and_eq_true, decide_eq_true_eq] at ha
      have hb : b.toNat < 128 := UInt8.lt_iff_toNat_lt.mp ha.1
      simp only [Go.runesFrom, List.length_cons, List.range'_succ, List.zipWith_cons_cons]
      rw [decodeRune_ascii b rest hb]
      simp only [List.drop_succ_cons, List.drop_zero]
      rw [ih (off + 1) rest (by simpa using hs) ha.2]

/-- on an ASCII string the runes are the bytes, at their own offsets -/
theorem runes_ascii (s : Bytes) (h : Go.isAscii s = true) :
    Go.runes s = (List.range s.length).zipWith (fun i b => (Int.ofNat i, Int.ofNat b.toNat)) s := by
  rw [List.range_eq_range']
  exact runesFrom_ascii s.length 0 s (Nat.le_refl _) h

/-- every rune that starts at a non-ASCII byte is itself ≥ 0x80 -/
theorem runes_all_ascii_iff (s : Bytes) :
    (Go.runes s).all (fun p => decide (0 ≤ p.2 ∧ p.2 < 128)) = Go.isAscii s := by
  have := runes_any (fun r => !decide (0 ≤ r ∧ r < 128)) (fun b => !decide (b < 0x80)) ?_ ?_ ?_ s
  · unfold Go.isAscii
    rw [List.all_eq_not_any_not, List.all_eq_not_any_not (l := s)]
    exact congrArg (!·) this
  · intro b hb
    show (!decide (0 ≤ Int.ofNat b.toNat ∧ Int.ofNat b.toNat < 128)) = !decide (b < 0x80)
    have e1 : decide (b < 0x80) = true := decide_eq_true ((u8_lt_128 b).mpr hb)
    have e2 : decide (0 ≤ Int.ofNat b.toNat ∧ Int.ofNat b.toNat < 128) = true :=
      decide_eq_true ⟨Int.natCast_nonneg _, by simp only [Int.ofNat_eq_natCast]; omega⟩
    rw [e1, e2]
  · intro b hb
    simp only [u8_lt_128, Bool.not_eq_true', decide_eq_false_iff_not]
    omega
  · intro r hr
    simp only [Bool.not_eq_true', decide_eq_false_iff_not]
    omega

/-! ## internal/stream: the nonce is an 88-bit big-endian counter and a flag byte -/

/-- `[n-1, n-2, …, 0]` -/
def downFrom : Nat → List Int
  | 0 => []
  | n + 1 => Int.ofNat n :: downFrom n

theorem idx_append_mid {α : Type} (p : List α) (x : α) (q : List α) (n : Nat) (hn : p.length = n) :
    Go.idx (p ++ x :: q) (Int.ofNat n) = .ok x := by
  subst hn
  simp [Go.idx]

theorem set_append_mid {α : Type} (p : List α) (x y : α) (q : List α) (n : Nat) (hn : p.length = n) :
    Go.set (p ++ x :: q) (Int.ofNat n) y = .ok (p ++ y :: q) := by
  subst hn
  simp [Go.set]

theorem toUInt8_succ (m : Nat) : m.toUInt8 + 1 = (m + 1).toUInt8 := by
  apply UInt8.toNat_inj.mp
  simp [Nat.toUInt8]

theorem incNonce_loop : ∀ (n i : Nat) (suffix : Bytes), i + 1 < 256 ^ n →
    stream_incNonce_loop1 (downFrom n) (be n i ++ suffix) = .ok (.next (be n (i + 1) ++ suffix))
  | 0, i, suffix, h => by simp at h
  | n + 1, i, suffix, h => by
    have hlen := be_length n (i / 256)
    simp only [downFrom, be, stream_incNonce_loop1, List.append_assoc, List.singleton_append,
      idx_append_mid _ _ _ n hlen, set_append_mid _ _ _ _ n hlen, bind, Except.bind, pure, Except.pure]
    rw [toUInt8_succ]
    by_cases hc : i % 256 = 255
    · have h0 : (i % 256 + 1).toUInt8 = 0 := by rw [hc]; rfl
      have hq : i / 256 + 1 < 256 ^ n := by rw [Nat.pow_succ] at h; omega
      have hn : n ≠ 0 := by intro h0; subst h0; simp at hq
      have e1 : (i + 1) / 256 = i / 256 + 1 := by omega
      have e2 : (i + 1) % 256 = 0 := by omega
      rw [h0, e1, e2]
      have hn' : (Int.ofNat n == 0) = false := by
        simp only [Int.ofNat_eq_natCast, beq_eq_false_iff_ne, ne_eq]; omega
      simp only [bne_self_eq_false, Bool.false_eq_true, if_false, hn']
      exact incNonce_loop n (i / 256) _ hq
    · have h0 : ((i % 256 + 1).toUInt8 != 0) = true := by
        simp only [bne_iff_ne, ne_eq]
        intro hh
        have := congrArg UInt8.toNat hh
        simp [Nat.toUInt8] at this
        omega
      have e1 : (i + 1) / 256 = i / 256 := by omega
      have e2 : (i + 1) % 256 = i % 256 + 1 := by omega
      rw [e1, e2]
      simp only [h0, if_true]

theorem rangeDown_10_0 : Go.rangeDown 10 0 = downFrom 11 := by decide

theorem incNonce_tie (i : Nat) (last : Bool) (h : i + 1 < 2 ^ 88) :
    stream_incNonce (Stream.nonce i last) = .ok (Stream.nonce (i + 1) last) := by
  have h' : i + 1 < 256 ^ 11 := by
    have e : (256 : Nat) ^ 11 = 2 ^ 88 := by decide
    rw [e]; exact h
  simp only [stream_incNonce, rangeDown_10_0, Stream.nonce, incNonce_loop 11 i _ h', bind, Except.bind,
    pure, Except.pure]

/-- the explicit panic of `incNonce` is exactly the wrap of the 88-bit counter -/
theorem incNonce_wrap (last : Bool) :
    stream_incNonce (Stream.nonce (2 ^ 88 - 1) last) = .error (.panic 0) := by
  cases last <;> rfl

theorem setLastChunkFlag_tie (i : Nat) (last : Bool) :
    stream_setLastChunkFlag (Stream.nonce i last) = .ok (Stream.nonce i true) := by
  show (Go.set (be 11 i ++ [if last then 1 else 0]) (Int.ofNat 11) 1 >>= fun n => pure n) = _
  rw [set_append_mid _ _ _ _ 11 (be_length 11 i)]
  rfl

theorem nonceIsZero_tie (i : Nat) (last : Bool) (h : i < 2 ^ 88) :
    stream_nonceIsZero (Stream.nonce i last) = .ok (decide (i = 0 ∧ last = false)) := by
  have e : List.replicate 12 (0 : UInt8) = Stream.nonce 0 false := by decide
  simp only [stream_nonceIsZero, pure, Except.pure, e]
  congr 1
  by_cases hz : i = 0 ∧ last = false
  · rw [hz.1, hz.2]; simp
  · rw [decide_eq_false hz]
    apply beq_eq_false_iff_ne.mpr
    intro hh
    exact hz (Stream.nonce_inj i 0 last false h (by decide) hh)

/-! ## internal/format -/
theorem isValidString_loop (rs : List (Int × Int)) :
    format_isValidString_loop1 rs =
      .ok (if rs.any (fun p => decide (p.2 < 33) || decide (p.2 > 126)) then .ret false else .next ()) := by
  induction rs with
  | nil => rfl
  | cons p rest ih =>
    simp only [format_isValidString_loop1, List.any_cons]
    by_cases hp : (decide (p.2 < 33) || decide (p.2 > 126)) = true
    · simp only [hp, if_true, Bool.true_or]; rfl
    · have hp' := Bool.eq_false_iff.mpr hp
      simp only [hp', Bool.false_or, ih, Bool.false_eq_true, if_false]

theorem isValidString_tie (s : Bytes) : format_isValidString s = .ok (Format.validString s) := by
  cases s with
  | nil => rfl
  | cons b rest =>
    have hl : (Go.len (b :: rest) == (0 : Int)) = false := by
      simp only [Go.len, List.length_cons, Int.ofNat_eq_natCast, beq_eq_false_iff_ne, ne_eq]; omega
    simp only [format_isValidString, hl, isValidString_loop, runes_any_bad, bind, Except.bind, pure,
      Except.pure, Bool.false_eq_true, if_false]
    have hv : Format.validString (b :: rest) = !(b :: rest).any (fun b => b < 33 || b > 126) := by
      simp only [Format.validString, List.isEmpty_cons, Bool.not_false, Bool.true_and,
        List.all_eq_not_any_not]
      congr 2
      funext c
      have h1 : decide (c < 33) = !decide (33 ≤ c.toNat) := by
        rw [← decide_not]; simp only [decide_eq_decide, UInt8.lt_iff_toNat_lt]; show c.toNat < 33 ↔ _; omega
      have h2 : decide (c > 126) = !decide (c.toNat ≤ 126) := by
        rw [← decide_not]; simp only [decide_eq_decide, gt_iff_lt, UInt8.lt_iff_toNat_lt]; show 126 < c.toNat ↔ _; omega
      rw [h1, h2, Bool.not_and]
    rw [hv]
    cases (b :: rest).any (fun b => b < 33 || b > 126) <;> rfl

theorem splitByte_splitSp : ∀ (l acc : Bytes),
    ∃ h t, Format.splitSp l = h :: t ∧ Go.splitByte 32 acc l = (acc.reverse ++ h) :: t
  | [], acc => ⟨[], [], rfl, by simp [Go.splitByte]⟩
  | c :: cs, acc => by
    by_cases hc : c = 32
    · obtain ⟨h, t, e1, e2⟩ := splitByte_splitSp cs []
      refine ⟨[], h :: t, ?_, ?_⟩
      · simp only [Format.splitSp, Format.sp, hc, if_true, e1]
      · simp only [Go.splitByte, hc, if_true, e2, List.reverse_nil, List.nil_append, List.append_nil]
    · obtain ⟨h, t, e1, e2⟩ := splitByte_splitSp cs (c :: acc)
      refine ⟨c :: h, t, ?_, ?_⟩
      · simp only [Format.splitSp, Format.sp, hc, if_false, e1]
      · simp only [Go.splitByte, hc, if_false, e2, List.reverse_cons, List.append_assoc,
          List.singleton_append]

/-- `splitArgs` on a line as `ReadBytes('\n')` returns it (terminator included): first token, remaining tokens -/
theorem splitArgs_tie (l : Bytes) :
    format_splitArgs (l ++ [Format.nl]) =
      .ok (match Format.splitSp l with
           | h :: t => (h, t)
           | [] => ([], [])) := by
  have ht : Go.strings_TrimSuffix (l ++ [Format.nl]) [10] = l := by
    have : ([10] : List UInt8).isSuffixOf (l ++ [Format.nl]) = true := by
      simp [Format.nl]
    simp only [Go.strings_TrimSuffix, this, if_true, List.length_append, List.length_cons,
      List.length_nil, Nat.add_sub_cancel, List.take_left']
  obtain ⟨h, t, e1, e2⟩ := splitByte_splitSp l []
  simp only [format_splitArgs, ht, Go.strings_Split1, e1, e2, List.reverse_nil, List.nil_append]
  simp only [bind, Except.bind, Go.idx, Int.lt_irrefl, ↓reduceIte, Int.toNat_zero,
    List.length_cons, Nat.zero_lt_succ, getElem?_pos, List.getElem_cons_zero, Go.slice, Int.zero_le_ofNat, Go.len,
    Int.ofNat_eq_natCast, Int.natCast_add, Int.cast_ofNat_Int, Std.le_refl, and_true, true_and, Int.toNat_one,
    Int.toNat_natCast_add_one, List.take_succ_cons, List.take_length, List.drop_succ_cons, List.drop_zero, pure,
    Except.pure]
  have : (1 : Int) ≤ ↑t.length + 1 := by omega
  rw [if_pos this]

/-! ## plugin.validPluginName, age.slicesEqual -/

theorem findIdxInt_nonneg {α : Type} (p : α → Bool) : ∀ l : List α, (0 ≤ Go.findIdxInt p l) ↔ l.any p = true
  | [] => by simp [Go.findIdxInt]
  | x :: xs => by
    have ih := findIdxInt_nonneg p xs
    simp only [Go.findIdxInt, List.any_cons, Bool.or_eq_true]
    by_cases hx : p x = true
    · simp [hx]
    · simp only [hx, Bool.false_eq_true, if_false, false_or, ← ih]
      split <;> omega

theorem containsRune_ascii (a : List UInt8) (b : UInt8) (hb : b.toNat < 128) :
    Go.strings_ContainsRune a (Int.ofNat b.toNat) = a.contains b := by
  have hr : (0 : Int) ≤ Int.ofNat b.toNat ∧ Int.ofNat b.toNat < 0x80 := by
    simp only [Int.ofNat_eq_natCast]; omega
  simp only [Go.strings_ContainsRune, Go.strings_IndexRune, hr, and_self, if_true, ge_iff_le]
  rw [Bool.eq_iff_iff, decide_eq_true_iff, findIdxInt_nonneg, List.any_eq_true, List.contains_iff_mem]
  constructor
  · rintro ⟨c, hc, e⟩
    have : c = b := by
      apply UInt8.toNat_inj.mp
      have e' : (c.toNat : Int) = (b.toNat : Int) := by simpa using e
      omega
    exact this ▸ hc
  · intro h
    exact ⟨b, h, by simp⟩

theorem containsRune_nonascii (a : List UInt8) (ha : Go.isAscii a = true) (r : Int) (hr : 128 ≤ r) :
    Go.strings_ContainsRune a r = false := by
  have : ¬ (0 ≤ r ∧ r < 0x80) := by omega
  simp only [Go.strings_ContainsRune, Go.strings_IndexRune, this, if_false, ha, if_true]
  decide

theorem validPluginName_loop (allowed : List UInt8) (rs : List (Int × Int)) :
    plugin_validPluginName_loop1 allowed rs =
      .ok (if rs.any (fun p => !Go.strings_ContainsRune allowed p.2) then .ret false else .next ()) := by
  induction rs with
  | nil => rfl
  | cons p rest ih =>
    simp only [plugin_validPluginName_loop1, List.any_cons]
    by_cases hp : (!Go.strings_ContainsRune allowed p.2) = true
    · simp only [hp, if_true, Bool.true_or]; rfl
    · have hp' := Bool.eq_false_iff.mpr hp
      simp only [hp', Bool.false_or, ih, Bool.false_eq_true, if_false]

theorem allowed_ascii : Go.isAscii Keys.allowed = true := by decide

theorem allowed_lt : ∀ b : UInt8, 128 ≤ b.toNat → Keys.allowed.contains b = false := by
  intro b hb
  rw [Bool.eq_false_iff]
  intro h
  have hm := List.contains_iff_mem.mp h
  have := List.all_eq_true.mp allowed_ascii b hm
  have := (u8_lt_128 b).mp (of_decide_eq_true this)
  omega

theorem validPluginName_tie (n : Bytes) : plugin_validPluginName n = .ok (Keys.validPluginName n) := by
  cases n with
  | nil => rfl
  | cons b rest =>
    have hl : ((b :: rest) == ([] : List UInt8)) = false := rfl
    have hany := runes_any (fun r => !Go.strings_ContainsRune Keys.allowed r)
      (fun b => !Keys.allowed.contains b)
      (fun b hb => by simp only [containsRune_ascii Keys.allowed b hb])
      (fun b hb => by simp only [allowed_lt b hb, Bool.not_false])
      (fun r hr => by simp only [containsRune_nonascii Keys.allowed allowed_ascii r hr, Bool.not_false])
      (b :: rest)
    have hv : Keys.validPluginName (b :: rest) = !(b :: rest).any (fun b => !Keys.allowed.contains b) := by
      simp only [Keys.validPluginName, reduceCtorEq, if_false, List.all_eq_not_any_not]
    rw [hv, ← hany]
    simp only [plugin_validPluginName, hl, validPluginName_loop, bind, Except.bind, pure,
      Except.pure, Bool.false_eq_true, if_false]
    unfold Keys.allowed
    generalize List.any _ _ = x
    cases x <;> rfl

theorem idx_ofNat {α : Type} (a : List α) (i : Nat) (h : i < a.length) :
    Go.idx a (Int.ofNat i) = .ok a[i] := by
  simp [Go.idx, h]

theorem slicesEqual_loop (s1 s2 : List Bytes) : ∀ (is : List Nat),
    (∀ i ∈ is, i < s1.length ∧ i < s2.length) →
    age_slicesEqual_loop1 s1 s2 (is.map Int.ofNat) =
      .ok (if is.all (fun i => s1[i]? == s2[i]?) then .next () else .ret false)
  | [], _ => rfl
  | i :: rest, h => by
    have hi := h i (List.mem_cons_self ..)
    have ih := slicesEqual_loop s1 s2 rest (fun j hj => h j (List.mem_cons_of_mem _ hj))
    simp only [List.map_cons, age_slicesEqual_loop1, idx_ofNat s1 i hi.1, idx_ofNat s2 i hi.2,
      bind, Except.bind, pure, Except.pure, List.all_cons, List.getElem?_eq_getElem hi.1,
      List.getElem?_eq_getElem hi.2, ih]
    by_cases he : s1[i] = s2[i]
    · simp [he]
    · simp [he]

theorem rangeUp_0 (n : Nat) : Go.rangeUp 0 (Int.ofNat n) = (List.range n).map Int.ofNat := by
  simp [Go.rangeUp]

theorem slicesEqual_tie (a b : List Bytes) : age_slicesEqual a b = .ok (decide (a = b)) := by
  by_cases hl : a.length = b.length
  · have hl' : (Int.ofNat a.length != Int.ofNat b.length) = false := by
      rw [hl]; exact bne_self_eq_false _
    have hloop := slicesEqual_loop a b (List.range a.length)
      (fun i hi => by have := List.mem_range.mp hi; omega)
    simp only [age_slicesEqual, Go.len, hl', rangeUp_0, hloop, bind, Except.bind, pure, Except.pure,
      Bool.false_eq_true, if_false]
    by_cases hab : a = b
    · subst hab
      simp
    · have : (List.range a.length).all (fun i => a[i]? == b[i]?) = false := by
        rw [Bool.eq_false_iff]
        intro hall
        apply hab
        apply List.ext_getElem? 
        intro i
        by_cases hi : i < a.length
        · have := List.all_eq_true.mp hall i (List.mem_range.mpr hi)
          simpa using this
        · rw [List.getElem?_eq_none (by omega), List.getElem?_eq_none (by omega)]
      simp [this, hab]
  · have hl' : (Go.len a != Go.len b) = true := by
      simp only [Go.len, Int.ofNat_eq_natCast, bne_iff_ne, ne_eq]; omega
    have hab : a ≠ b := fun h => hl (by rw [h])
    simp [age_slicesEqual, hl', hab, pure, Except.pure]

end GoTie
end AgeModel
