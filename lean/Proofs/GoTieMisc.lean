/-
  Proofs.GoTieMisc — umbrella for the small translated functions (kept for older importers):
  Proofs.GoTieRunes, GoTieNonce, GoTieFmtStr, GoTiePlugName, GoTieSlicesEq.
-/
import Proofs.GoTieRunes
import Proofs.GoTieNonce
import Proofs.GoTieFmtStr
import Proofs.GoTiePlugName
import Proofs.GoTieSlicesEq
