/-
  Proofs.GoTieScryptCtor — the passphrase constructors and the work-factor setters of scrypt.go,
  translated on every run: the passphrase stored is the string given, byte for byte (nothing is
  trimmed, folded or normalised), the empty passphrase is the only one refused, the defaults are 18
  and 22, and the setters accept exactly 1 … 30 (anything else reaches their panic).
-/
import AgeModel.GoSem
import AgeModel.Extracted.Funcs
namespace AgeModel
namespace GoTie
open Extracted

theorem newScryptRecipient_tie (pw : Bytes) :
    age_NewScryptRecipient pw =
      .ok (if pw = [] then (⟨[], 0⟩, some ⟨"age.NewScryptRecipient", 0, []⟩) else (⟨pw, 18⟩, none)) := by
  cases pw with
  | nil => rfl
  | cons a as =>
    have h : (Go.len (a :: as) == (0 : Int)) = false := by
      have : Go.len (a :: as) ≠ 0 := by
        simp only [Go.len, List.length_cons, Int.ofNat_eq_natCast, Int.natCast_add]
        have h0 : (0 : Int) ≤ (as.length : Int) := Int.natCast_nonneg _
        omega
      simpa using this
    simp only [age_NewScryptRecipient, h, bind, Except.bind, pure, Except.pure]
    rfl

theorem newScryptIdentity_tie (pw : Bytes) :
    age_NewScryptIdentity pw =
      .ok (if pw = [] then (⟨[], 0⟩, some ⟨"age.NewScryptIdentity", 0, []⟩) else (⟨pw, 22⟩, none)) := by
  cases pw with
  | nil => rfl
  | cons a as =>
    have h : (Go.len (a :: as) == (0 : Int)) = false := by
      have : Go.len (a :: as) ≠ 0 := by
        simp only [Go.len, List.length_cons, Int.ofNat_eq_natCast, Int.natCast_add]
        have h0 : (0 : Int) ≤ (as.length : Int) := Int.natCast_nonneg _
        omega
      simpa using this
    simp only [age_NewScryptIdentity, h, bind, Except.bind, pure, Except.pure]
    rfl

theorem setWorkFactor_tie (r : age_ScryptRecipient) (logN : Int) :
    age_ScryptRecipient_SetWorkFactor r logN =
      if 1 ≤ logN ∧ logN ≤ 30 then .ok { r with workFactor := logN } else .error (.panic 0) := by
  unfold age_ScryptRecipient_SetWorkFactor
  by_cases h : 1 ≤ logN ∧ logN ≤ 30
  · have hb : (decide (logN > 30) || decide (logN < 1)) = false := by simp; omega
    simp only [hb, h, and_self, if_true, bind, Except.bind, pure, Except.pure]
    rfl
  · have hb : (decide (logN > 30) || decide (logN < 1)) = true := by simp; omega
    simp only [hb, h, if_false, if_true, bind, Except.bind]
    rfl

theorem setMaxWorkFactor_tie (i : age_ScryptIdentity) (logN : Int) :
    age_ScryptIdentity_SetMaxWorkFactor i logN =
      if 1 ≤ logN ∧ logN ≤ 30 then .ok { i with maxWorkFactor := logN } else .error (.panic 0) := by
  unfold age_ScryptIdentity_SetMaxWorkFactor
  by_cases h : 1 ≤ logN ∧ logN ≤ 30
  · have hb : (decide (logN > 30) || decide (logN < 1)) = false := by simp; omega
    simp only [hb, h, and_self, if_true, bind, Except.bind, pure, Except.pure]
    rfl
  · have hb : (decide (logN > 30) || decide (logN < 1)) = true := by simp; omega
    simp only [hb, h, if_false, if_true, bind, Except.bind]
    rfl

end GoTie
end AgeModel
