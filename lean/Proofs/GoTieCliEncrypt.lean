/-
  Proofs.GoTieCliEncrypt — `encrypt` of cmd/age/age.go, as it stands in the source.

  Translated on every run with everything outside the function as ONE explicit state (the "world":
  the output, the armor writer wrapped around it and the stream writer `age.Encrypt` returns are
  handles into it — `funcSpec.world`), `errorf` as an exit site, and the armor writer's `Close`, which
  the source defers INSIDE `if withArmor`, run at the end exactly when that branch was taken (a flag
  set where the `defer` stands). The theorems fix the order of effects of `age -e` and that EVERY
  failure — of `age.Encrypt`, of the copy, of the stream writer's `Close`, of the armor writer's
  `Close` — ends the process with a non-zero status: the function returns (and `main` goes on to
  exit 0) only if all of them reported success, in that order.
-/
import AgeModel.GoSem
import AgeModel.Extracted.Funcs
namespace AgeModel
namespace GoTie
open Extracted

section
variable {ζ ρ τ : Type} (nilZ : ζ) (NW : ζ → τ → Go.M (ζ × τ))
  (Enc : ζ → List ρ → τ → Go.M (ζ × Option Go.Err × τ))
  (Cp : ζ → Bytes → τ → Go.M (Int × Option Go.Err × τ))
  (Cl : ζ → τ → Go.M (Option Go.Err × τ))

/-- what follows once the destination is settled: encrypt, copy, close the stream writer, then (armored) close the
    armor writer `a?` -/
def encryptTail (recs : List ρ) (inp : Bytes) (dst : ζ) (a? : Option ζ) (t1 : τ) : Go.M τ := do
  let e ← Enc dst recs t1
  if (e.2.1 != none) = true then .error (.panic 1000)
  else do
    let c ← Cp e.1 inp e.2.2
    if (c.2.1 != none) = true then .error (.panic 1001)
    else do
      let k ← Cl e.1 c.2.2
      if (k.1 != none) = true then .error (.panic 1002)
      else match a? with
        | none => pure k.2
        | some a => do
          let k2 ← Cl a k.2
          if (k2.1 != none) = true then .error (.panic 1003) else pure k2.2

theorem cli_encrypt_tie (recs : List ρ) (inp : Bytes) (out : ζ) (armor : Bool) (t0 : τ) :
    main_encrypt nilZ NW Enc Cp Cl recs inp out armor t0 =
      if armor = true then (do
        let r ← NW out t0
        encryptTail Enc Cp Cl recs inp r.1 (some r.1) r.2)
      else encryptTail Enc Cp Cl recs inp out none t0 := by
  cases armor
  · simp only [main_encrypt, encryptTail, bind, Except.bind, pure, Except.pure, Bool.false_eq_true, if_false]
    cases h1 : Enc out recs t0 with
    | error f => rfl
    | ok e =>
      simp only []
      by_cases he : (e.2.1 != none) = true
      · simp [he]; rfl
      · simp only [he, if_false]
        cases h2 : Cp e.1 inp e.2.2 with
        | error f => rfl
        | ok c =>
          simp only []
          by_cases hc : (c.2.1 != none) = true
          · simp [hc]; rfl
          · simp only [hc, if_false]
            cases h3 : Cl e.1 c.2.2 with
            | error f => rfl
            | ok k =>
              simp only []
              by_cases hk : (k.1 != none) = true
              · simp [hk]; rfl
              · simp [hk]
  · simp only [main_encrypt, encryptTail, bind, Except.bind, pure, Except.pure, if_true]
    cases h0 : NW out t0 with
    | error f => rfl
    | ok r =>
      simp only []
      cases h1 : Enc r.1 recs r.2 with
      | error f => rfl
      | ok e =>
        simp only []
        by_cases he : (e.2.1 != none) = true
        · simp [he]; rfl
        · simp only [he, if_false]
          cases h2 : Cp e.1 inp e.2.2 with
          | error f => rfl
          | ok c =>
            simp only []
            by_cases hc : (c.2.1 != none) = true
            · simp [hc]; rfl
            · simp only [hc, if_false]
              cases h3 : Cl e.1 c.2.2 with
              | error f => rfl
              | ok k =>
                simp only []
                by_cases hk : (k.1 != none) = true
                · simp [hk]; rfl
                · simp only [hk, if_false]
                  cases h4 : Cl r.1 k.2 with
                  | error f => rfl
                  | ok k2 =>
                    simp only []
                    by_cases hk2 : (k2.1 != none) = true
                    · simp [hk2]; rfl
                    · simp [hk2]

/-- the tail returns exactly when every step reported success, in order -/
theorem encryptTail_ok_iff (recs : List ρ) (inp : Bytes) (dst : ζ) (a? : Option ζ) (t1 t' : τ) :
    encryptTail Enc Cp Cl recs inp dst a? t1 = .ok t' ↔
      ∃ w t2 n t3 t4, Enc dst recs t1 = .ok (w, none, t2) ∧ Cp w inp t2 = .ok (n, none, t3) ∧
        Cl w t3 = .ok (none, t4) ∧
        match a? with
        | none => t' = t4
        | some a => Cl a t4 = .ok (none, t') := by
  constructor
  · intro H
    unfold encryptTail at H
    simp only [bind, Except.bind, pure, Except.pure] at H
    cases h1 : Enc dst recs t1 with
    | error f => simp [h1] at H
    | ok e =>
      obtain ⟨w, ee, t2⟩ := e
      cases ee with
      | some x => simp [h1] at H
      | none =>
        simp only [h1, bne_self_eq_false, Bool.false_eq_true, if_false] at H
        cases h2 : Cp w inp t2 with
        | error f => simp [h2] at H
        | ok c =>
          obtain ⟨n, ce, t3⟩ := c
          cases ce with
          | some x => simp [h2] at H
          | none =>
            simp only [h2, bne_self_eq_false, Bool.false_eq_true, if_false] at H
            cases h3 : Cl w t3 with
            | error f => simp [h3] at H
            | ok k =>
              obtain ⟨ke, t4⟩ := k
              cases ke with
              | some x => simp [h3] at H
              | none =>
                simp only [h3, bne_self_eq_false, Bool.false_eq_true, if_false] at H
                refine ⟨w, t2, n, t3, t4, rfl, h2, h3, ?_⟩
                cases a? with
                | none =>
                  simp only [Except.ok.injEq] at H
                  exact H.symm
                | some a =>
                  simp only [] at H
                  cases h4 : Cl a t4 with
                  | error f => simp [h4] at H
                  | ok k2 =>
                    obtain ⟨k2e, t5⟩ := k2
                    cases k2e with
                    | some x => simp [h4] at H
                    | none =>
                      simp only [h4, bne_self_eq_false, Bool.false_eq_true, if_false, Except.ok.injEq] at H
                      subst H
                      exact h4
  · rintro ⟨w, t2, n, t3, t4, h1, h2, h3, h4⟩
    unfold encryptTail
    cases a? with
    | none =>
      simp only [] at h4
      subst h4
      simp [bind, Except.bind, pure, Except.pure, h1, h2, h3]
    | some a =>
      simp only [] at h4
      simp [bind, Except.bind, pure, Except.pure, h1, h2, h3, h4]

/-- `encrypt` returns — and only then can `age -e` exit 0 — exactly when the armor writer (if any) was set up and
    `age.Encrypt`, the copy of the whole input, the stream writer's `Close` and, last, the armor writer's `Close` all
    reported success; any failure is an exit site (status 1), and after it nothing further is done -/
theorem cli_encrypt_returns_iff (recs : List ρ) (inp : Bytes) (out : ζ) (armor : Bool) (t0 t' : τ) :
    main_encrypt nilZ NW Enc Cp Cl recs inp out armor t0 = .ok t' ↔
      ∃ dst t1, (if armor = true then NW out t0 = .ok (dst, t1) else dst = out ∧ t1 = t0) ∧
        ∃ w t2 n t3 t4, Enc dst recs t1 = .ok (w, none, t2) ∧ Cp w inp t2 = .ok (n, none, t3) ∧
          Cl w t3 = .ok (none, t4) ∧
          if armor = true then Cl dst t4 = .ok (none, t') else t' = t4 := by
  rw [cli_encrypt_tie]
  cases armor
  · simp only [Bool.false_eq_true, if_false, encryptTail_ok_iff]
    constructor
    · rintro ⟨w, t2, n, t3, t4, h⟩; exact ⟨out, t0, ⟨rfl, rfl⟩, w, t2, n, t3, t4, h⟩
    · rintro ⟨dst, t1, ⟨rfl, rfl⟩, w, t2, n, t3, t4, h⟩; exact ⟨w, t2, n, t3, t4, h⟩
  · simp only [if_true, bind, Except.bind]
    cases h0 : NW out t0 with
    | error f => simp
    | ok r =>
      simp only [encryptTail_ok_iff]
      constructor
      · rintro ⟨w, t2, n, t3, t4, h⟩; exact ⟨r.1, r.2, rfl, w, t2, n, t3, t4, h⟩
      · rintro ⟨dst, t1, hr, w, t2, n, t3, t4, h⟩
        simp only [Except.ok.injEq] at hr
        subst hr
        exact ⟨w, t2, n, t3, t4, h⟩

end

/-- the hypotheses of `cli_encrypt_returns_iff` are met by a world in which everything succeeds, and by one in which the
    armor writer's `Close` fails (exit site 3) -/
example : main_encrypt () (fun z t => .ok (z, t)) (fun z _ t => .ok (z, none, t)) (fun _ _ t => .ok (0, none, t))
    (fun _ t => .ok (none, t + 1)) ([] : List Unit) [] () true (0 : Nat) = .ok 2 := rfl
example : main_encrypt (0 : Nat) (fun _ t => .ok (1, t)) (fun _ _ t => .ok (2, none, t)) (fun _ _ t => .ok (0, none, t))
    (fun z (t : Nat) => .ok (if z = 1 then some ⟨"armor close", 0, []⟩ else none, t)) ([] : List Unit) [] 0 true (0 : Nat) =
      .error (.panic 1003) := by
  simp [main_encrypt, bind, Except.bind, pure, Except.pure, throw, throwThe, MonadExceptOf.throw]

end GoTie
end AgeModel
