/-
  Proofs.Totality — the fuel-bounded loops of the model never run out of fuel
  (so "fuel" is never an observable outcome) and never reach an explicit panic.
-/
import Proofs.StreamReaderTop
import Proofs.FormatTop
namespace AgeModel

namespace Stream

/-- with fuel beyond the input length the Spec reader never reports `fuel`, and it never panics -/
theorem decFrom_outcome (A : AEAD) (C : Nat) (hE : 0 < C + A.T) (k : Bytes) (sf : Bool) :
    ∀ (fuel i : Nat) (c : Bytes), c.length < fuel →
      (decFrom A C k sf i c fuel).2 ≠ .fuel ∧ ∀ n, (decFrom A C k sf i c fuel).2 ≠ .panic n := by
  intro fuel
  induction fuel with
  | zero => intro i c h; omega
  | succ fuel ih =>
    intro i c h
    unfold decFrom
    simp only
    split
    · split
      · simp
      · split
        · simp
        · split
          · simp
          · split <;> simp
    · split
      · exact ih (i+1) (c.drop (C + A.T)) (by rw [List.length_drop]; omega)
      · split
        · split
          · split <;> simp
          · simp
        · simp

end Stream

namespace Format

/-- the body-line loop never runs out of fuel when given more fuel than input bytes -/
theorem readBody_no_fuel : ∀ (fuel : Nat) (r acc : Bytes), r.length < fuel → readBody fuel r acc ≠ .error .fuel := by
  intro fuel
  induction fuel with
  | zero => intro r acc h; omega
  | succ fuel ih =>
    intro r acc h
    unfold readBody
    split
    · simp
    · rename_i l r' htl
      have := takeLine_len htl
      split
      · simp
      · split
        · simp
        · split
          · simp
          · exact ih r' _ (by omega)

theorem readStanza_no_fuel (r : Bytes) : readStanza r ≠ .error .fuel := by
  unfold readStanza
  split
  · simp
  · rename_i l r' htl
    split
    · split
      · have := readBody_no_fuel (r'.length + 1) r' [] (by omega)
        split
        · rename_i e he; intro hc; simp only [Except.error.injEq] at hc; subst hc; exact this he
        · simp
      · simp
    · simp

theorem readStanza_len {r r' : Bytes} {s : Stanza} (h : readStanza r = .ok (s, r')) : r'.length < r.length := by
  have := (readStanza_canon h).1
  rw [this]
  have := marshalStanza_length_pos s
  simp only [List.length_append]; omega

theorem readFooter_no_fuel (r : Bytes) : readFooter r ≠ .error .fuel := by
  unfold readFooter
  split
  · simp
  · split
    · split
      · split
        · split <;> simp
        · simp
      · simp
    · simp

theorem readStanzas_no_fuel : ∀ (fuel : Nat) (r : Bytes) (acc : List Stanza), r.length < fuel →
    readStanzas fuel r acc ≠ .error .fuel := by
  intro fuel
  induction fuel with
  | zero => intro r acc h; omega
  | succ fuel ih =>
    intro r acc h
    unfold readStanzas
    split
    · simp
    · split
      · split
        · rename_i e he; intro hc; simp only [Except.error.injEq] at hc; subst hc; exact readFooter_no_fuel r he
        · simp
      · split
        · rename_i e he; intro hc; simp only [Except.error.injEq] at hc; subst hc; exact readStanza_no_fuel r he
        · rename_i s r' hs
          exact ih r' _ (by have := readStanza_len hs; omega)

/-- **The header parser is total and its fuel is always sufficient**: on every byte
    string it returns a header with the unread rest, or one of the format errors. -/
theorem parse_no_fuel (b : Bytes) : parse b ≠ .error .fuel := by
  unfold parse
  split
  · simp
  · split
    · exact readStanzas_no_fuel _ _ _ (by omega)
    · simp

end Format
end AgeModel
