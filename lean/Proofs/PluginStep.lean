/-
  Facts about `UI.handle`, `recipientStep` and `identityStep` (one message, any state).
-/
import Proofs.PluginRun
namespace AgeModel
namespace Plugin

variable {σ : Type}

/-! ## ClientUI.handle -/

theorem handle_msg (ui : UI σ) (dec : String → Option Bytes) (st : σ) (m : Stanza) (hm : m.type = "msg") :
    ui.handle dec st m =
      match ui.display with
      | none => .reply st failS
      | some f => .reply (f st m.body).1 (if (f st m.body).2 then okS else failS) := by
  unfold UI.handle
  simp only [hm, if_true]
  rfl

theorem handle_request (ui : UI σ) (dec : String → Option Bytes) (st : σ) (m : Stanza)
    (hm : m.type = "request-secret" ∨ m.type = "request-public") :
    ui.handle dec st m =
      match ui.request with
      | none => .reply st failS
      | some f =>
        match (f st m.body (decide (m.type = "request-secret"))).2 with
        | none => .reply (f st m.body (decide (m.type = "request-secret"))).1 failS
        | some v => .reply (f st m.body (decide (m.type = "request-secret"))).1 (okBody v) := by
  unfold UI.handle
  have h1 : m.type ≠ "msg" := by
    cases hm with
    | inl h => rw [h]; decide
    | inr h => rw [h]; decide
  simp only [h1, if_false, hm, if_true]
  rfl

theorem handle_confirm_argcount (ui : UI σ) (dec : String → Option Bytes) (st : σ) (m : Stanza)
    (hm : m.type = "confirm") (hn : m.args.length ≠ 1 ∧ m.args.length ≠ 2) :
    ui.handle dec st m = .fatal := by
  unfold UI.handle
  have h1 : ¬ ("confirm" = "msg") := by decide
  have h2 : ¬ ("confirm" = "request-secret" ∨ "confirm" = "request-public") := by decide
  simp only [hm, h1, h2, if_false]
  rw [if_pos hn]
  simp only [if_true]

theorem handle_confirm_absent (ui : UI σ) (dec : String → Option Bytes) (st : σ) (m : Stanza)
    (hm : m.type = "confirm") (hn : m.args.length = 1 ∨ m.args.length = 2) (hc : ui.confirm = none) :
    ui.handle dec st m = .reply st failS := by
  unfold UI.handle
  have h1 : ¬ ("confirm" = "msg") := by decide
  have h2 : ¬ ("confirm" = "request-secret" ∨ "confirm" = "request-public") := by decide
  have h3 : ¬ (m.args.length ≠ 1 ∧ m.args.length ≠ 2) := by omega
  simp only [hm, h1, h2, if_false]
  rw [if_neg h3]
  simp only [hc, if_true]

theorem handle_confirm1 (ui : UI σ) (dec : String → Option Bytes) (st : σ) (m : Stanza)
    (hm : m.type = "confirm") (y : String) (ha : m.args = [y])
    (f : σ → Bytes → Bytes → Bytes → σ × Option Bool) (hc : ui.confirm = some f) :
    ui.handle dec st m =
      match dec y with
      | none => .fatal
      | some yes =>
        match (f st m.body yes []).2 with
        | none => .reply (f st m.body yes []).1 failS
        | some c => .reply (f st m.body yes []).1 (okChoice c) := by
  unfold UI.handle
  have h1 : ¬ ("confirm" = "msg") := by decide
  have h2 : ¬ ("confirm" = "request-secret" ∨ "confirm" = "request-public") := by decide
  simp [hm, h1, ha, hc]
  rfl

theorem handle_confirm2 (ui : UI σ) (dec : String → Option Bytes) (st : σ) (m : Stanza)
    (hm : m.type = "confirm") (y n : String) (ha : m.args = [y, n])
    (f : σ → Bytes → Bytes → Bytes → σ × Option Bool) (hc : ui.confirm = some f) :
    ui.handle dec st m =
      match dec y with
      | none => .fatal
      | some yes =>
        match dec n with
        | none => .fatal
        | some no =>
          match (f st m.body yes no).2 with
          | none => .reply (f st m.body yes no).1 failS
          | some c => .reply (f st m.body yes no).1 (okChoice c) := by
  unfold UI.handle
  have h1 : ¬ ("confirm" = "msg") := by decide
  have h2 : ¬ ("confirm" = "request-secret" ∨ "confirm" = "request-public") := by decide
  simp [hm, h1, ha, hc]
  rfl

theorem handle_unknown (ui : UI σ) (dec : String → Option Bytes) (st : σ) (m : Stanza)
    (hm : m.type ∉ uiCommands) : ui.handle dec st m = .unknown := by
  unfold UI.handle
  simp only [uiCommands, List.mem_cons, List.not_mem_nil, or_false, not_or] at hm
  obtain ⟨h1, h2, h3, h4⟩ := hm
  simp only [h1, h2, h3, h4, if_false, or_self]

/-- every reply `handle` writes is an `ok` or a `fail` stanza -/
theorem handle_reply_type (ui : UI σ) (dec : String → Option Bytes) (st st' : σ) (m r : Stanza)
    (h : ui.handle dec st m = .reply st' r) : r.type = "ok" ∨ r.type = "fail" := by
  unfold UI.handle at h
  repeat' split at h
  all_goals try (simp only [] at h)
  repeat' split at h
  all_goals (try cases h)
  all_goals first
    | exact Or.inl rfl
    | exact Or.inr rfl
    | (split <;> first | exact Or.inl rfl | exact Or.inr rfl)

theorem handle_known_ne_unknown (ui : UI σ) (dec : String → Option Bytes) (st : σ) (m : Stanza)
    (hm : m.type ∈ uiCommands) : ui.handle dec st m ≠ .unknown := by
  simp only [uiCommands, List.mem_cons, List.not_mem_nil, or_false] at hm
  unfold UI.handle
  repeat' split
  all_goals try (simp only [])
  repeat' split
  all_goals first
    | (intro hc; cases hc; done)
    | (exfalso; simp_all; done)

/-! ## recipientStep -/

theorem recipientStep_noEndHalt (ui : UI σ) (dec : String → Option Bytes) :
    NoEndHalt (recipientStep ui dec) := by
  intro s m rs res h e
  unfold recipientStep at h
  repeat' split at h
  all_goals (try cases h)
  all_goals first
    | (intro hc; cases hc; done)
    | (split <;> intro hc <;> cases hc)

/-- anything but `done` can only make the wrap return a hard error -/
theorem recipientStep_hardHalt (ui : UI σ) (dec : String → Option Bytes) (s : RState σ) (m : Stanza)
    (rs : List Stanza) (res : Except ClientErr RResult) (hm : m.type ≠ "done")
    (h : recipientStep ui dec s m = .halt rs res) : Hard res := by
  unfold recipientStep at h
  repeat' split at h
  all_goals (try cases h)
  all_goals first
    | exact hard_protocol
    | exact hard_pluginError _
    | (exfalso; apply hm; assumption)

theorem recipientStep_halt_replies (ui : UI σ) (dec : String → Option Bytes) (s : RState σ) (m : Stanza)
    (rs : List Stanza) (res : Except ClientErr RResult)
    (h : recipientStep ui dec s m = .halt rs res) :
    (rs = [] ∧ ∀ t, res ≠ .error (.pluginError t)) ∨
    (rs = [okS] ∧ res = .error (.pluginError m.body) ∧ m.type = "error") := by
  unfold recipientStep at h
  repeat' split at h
  all_goals (try cases h)
  all_goals first
    | (refine Or.inr ⟨rfl, rfl, ?_⟩; assumption)
    | (refine Or.inl ⟨rfl, ?_⟩; intro t hc; cases hc; done)
    | (refine Or.inl ⟨rfl, ?_⟩; intro t; split <;> (intro hc; cases hc))

theorem recipientStep_badIndex (ui : UI σ) (dec : String → Option Bytes) (s : RState σ) (m : Stanza)
    (hm : m.type = "recipient-stanza") (hi : ∀ idx rest, m.args = idx :: rest → atoi idx ≠ some 0) :
    recipientStep ui dec s m = .halt [] (.error .protocol) := by
  unfold recipientStep
  simp only [hm, if_true]
  split
  · rename_i idx ty as heq
    have hne := hi idx _ heq
    split
    · rfl
    · rename_i n hn
      have : n ≠ 0 := by
        intro h0; subst h0; exact hne hn
      rw [if_pos this]
  · rfl

theorem recipientStep_accept (ui : UI σ) (dec : String → Option Bytes) (s : RState σ) (m : Stanza)
    (hm : m.type = "recipient-stanza") (idx ty : String) (as : List String)
    (ha : m.args = idx :: ty :: as) (hi : atoi idx = some 0) :
    recipientStep ui dec s m = .next { s with stanzas := s.stanzas ++ [⟨ty, as, m.body⟩] } okS := by
  unfold recipientStep
  simp only [hm, if_true, ha, hi]
  rfl

theorem recipientStep_labels_dup (ui : UI σ) (dec : String → Option Bytes) (s : RState σ) (m : Stanza)
    (hm : m.type = "labels") (hl : s.labels ≠ none) :
    recipientStep ui dec s m = .halt [] (.error .protocol) := by
  unfold recipientStep
  have h1 : ¬ ("labels" = "recipient-stanza") := by decide
  simp only [hm, h1, if_false, if_true]
  split
  · rfl
  · rename_i h; exact absurd h hl

theorem recipientStep_labels_first (ui : UI σ) (dec : String → Option Bytes) (s : RState σ) (m : Stanza)
    (hm : m.type = "labels") (hl : s.labels = none) :
    recipientStep ui dec s m = .next { s with labels := some m.args } okS := by
  unfold recipientStep
  have h1 : ¬ ("labels" = "recipient-stanza") := by decide
  simp only [hm, h1, if_false, if_true, hl]

theorem recipientStep_error (ui : UI σ) (dec : String → Option Bytes) (s : RState σ) (m : Stanza)
    (hm : m.type = "error") :
    recipientStep ui dec s m = .halt [okS] (.error (.pluginError m.body)) := by
  unfold recipientStep
  have h1 : ¬ ("error" = "recipient-stanza") := by decide
  have h2 : ¬ ("error" = "labels") := by decide
  simp only [hm, h1, h2, if_false, if_true]

theorem recipientStep_done (ui : UI σ) (dec : String → Option Bytes) (s : RState σ) (m : Stanza)
    (hm : m.type = "done") :
    recipientStep ui dec s m =
      .halt [] (if s.stanzas = [] then .error .noStanzas else .ok (s.stanzas, s.labels)) := by
  unfold recipientStep
  have h1 : ¬ ("done" = "recipient-stanza") := by decide
  have h2 : ¬ ("done" = "labels") := by decide
  have h3 : ¬ ("done" = "error") := by decide
  simp only [hm, h1, h2, h3, if_false, if_true]

/-- every other type is passed to `ClientUI.handle` -/
theorem recipientStep_handle (ui : UI σ) (dec : String → Option Bytes) (s : RState σ) (m : Stanza)
    (h1 : m.type ≠ "recipient-stanza") (h2 : m.type ≠ "labels") (h3 : m.type ≠ "error") (h4 : m.type ≠ "done") :
    recipientStep ui dec s m =
      match ui.handle dec s.ui m with
      | .reply st r => .next { s with ui := st } r
      | .fatal => .halt [] (.error .protocol)
      | .unknown => .next s unsupportedS := by
  unfold recipientStep
  simp only [h1, h2, h3, h4, if_false]
  rfl

theorem recipientStep_unknown (ui : UI σ) (dec : String → Option Bytes) (s : RState σ) (m : Stanza)
    (hm : m.type ∉ recipientCommands) : recipientStep ui dec s m = .next s unsupportedS := by
  simp only [recipientCommands, uiCommands, List.cons_append, List.nil_append, List.mem_cons,
    List.not_mem_nil, or_false, not_or] at hm
  obtain ⟨h1, h2, h3, h4, h5, h6, h7, h8⟩ := hm
  rw [recipientStep_handle ui dec s m h1 h2 h3 h4, handle_unknown]
  simp only [uiCommands, List.mem_cons, List.not_mem_nil, or_false, not_or]
  exact ⟨h5, h6, h7, h8⟩

theorem unsupported_ne_of_type {r : Stanza} (h : r.type = "ok" ∨ r.type = "fail") : r ≠ unsupportedS := by
  intro hr
  subst hr
  cases h with
  | inl h => exact absurd h (by decide)
  | inr h => exact absurd h (by decide)

theorem recipientStep_known_reply (ui : UI σ) (dec : String → Option Bytes) (s s' : RState σ) (m r : Stanza)
    (hm : m.type ∈ recipientCommands) (h : recipientStep ui dec s m = .next s' r) : r ≠ unsupportedS := by
  by_cases h1 : m.type = "recipient-stanza"
  · unfold recipientStep at h
    simp only [h1, if_true] at h
    repeat' split at h
    all_goals (try cases h)
    all_goals exact unsupported_ne_of_type (Or.inl rfl)
  by_cases h2 : m.type = "labels"
  · unfold recipientStep at h
    simp only [h2, if_true] at h
    repeat' split at h
    all_goals (try cases h)
    all_goals exact unsupported_ne_of_type (Or.inl rfl)
  by_cases h3 : m.type = "error"
  · rw [recipientStep_error ui dec s m h3] at h; cases h
  by_cases h4 : m.type = "done"
  · rw [recipientStep_done ui dec s m h4] at h; cases h
  have hu : m.type ∈ uiCommands := by
    simp only [recipientCommands, List.cons_append, List.nil_append, List.mem_cons] at hm
    rcases hm with hm | hm | hm | hm | hm
    · exact absurd hm h1
    · exact absurd hm h2
    · exact absurd hm h3
    · exact absurd hm h4
    · exact hm
  rw [recipientStep_handle ui dec s m h1 h2 h3 h4] at h
  split at h
  · rename_i st r' hh
    cases h
    exact unsupported_ne_of_type (handle_reply_type ui dec _ _ _ _ hh)
  · cases h
  · rename_i hh
    exact absurd hh (handle_known_ne_unknown ui dec s.ui m hu)

theorem recipientStep_halt_no_unsupported (ui : UI σ) (dec : String → Option Bytes) (s : RState σ) (m : Stanza)
    (rs : List Stanza) (res : Except ClientErr RResult)
    (h : recipientStep ui dec s m = .halt rs res) : unsupportedS ∉ rs := by
  rcases recipientStep_halt_replies ui dec s m rs res h with ⟨h, _⟩ | ⟨h, _, _⟩
  · subst h; simp
  · subst h
    simp only [List.mem_singleton]
    exact fun hc => absurd hc.symm (unsupported_ne_of_type (Or.inl rfl))

/-- once a `labels` stanza has been accepted, `labels` stays set -/
theorem recipientStep_labels_inv (ui : UI σ) (dec : String → Option Bytes) (s s' : RState σ) (m r : Stanza)
    (hl : s.labels ≠ none) (h : recipientStep ui dec s m = .next s' r) : s'.labels ≠ none := by
  unfold recipientStep at h
  repeat' split at h
  all_goals (try cases h)
  all_goals first
    | exact hl
    | (simp; done)
    | (rename_i hn; exact absurd hn hl)

/-- a continuing step on anything but `recipient-stanza` leaves the collected stanzas alone -/
theorem recipientStep_stanzas_other (ui : UI σ) (dec : String → Option Bytes) (s s' : RState σ) (m r : Stanza)
    (hm : m.type ≠ "recipient-stanza") (h : recipientStep ui dec s m = .next s' r) :
    s'.stanzas = s.stanzas := by
  unfold recipientStep at h
  simp only [hm, if_false] at h
  repeat' split at h
  all_goals (try cases h)
  all_goals rfl

/-- a continuing step on anything but `labels` leaves `labels` alone -/
theorem recipientStep_labels_other (ui : UI σ) (dec : String → Option Bytes) (s s' : RState σ) (m r : Stanza)
    (hm : m.type ≠ "labels") (h : recipientStep ui dec s m = .next s' r) :
    s'.labels = s.labels := by
  unfold recipientStep at h
  simp only [hm, if_false] at h
  repeat' split at h
  all_goals (try cases h)
  all_goals rfl

/-! ## identityStep -/

theorem identityStep_noEndHalt (ui : UI σ) (dec : String → Option Bytes) :
    NoEndHalt (identityStep ui dec) := by
  intro s m rs res h e
  unfold identityStep at h
  repeat' split at h
  all_goals (try cases h)
  all_goals first
    | (intro hc; cases hc; done)
    | (split <;> intro hc <;> cases hc)

theorem identityStep_hardHalt (ui : UI σ) (dec : String → Option Bytes) (s : IState σ) (m : Stanza)
    (rs : List Stanza) (res : Except ClientErr Bytes) (hm : m.type ≠ "done")
    (h : identityStep ui dec s m = .halt rs res) : Hard res := by
  unfold identityStep at h
  repeat' split at h
  all_goals (try cases h)
  all_goals first
    | exact hard_protocol
    | exact hard_pluginError _
    | (exfalso; apply hm; assumption)

theorem identityStep_halt_replies (ui : UI σ) (dec : String → Option Bytes) (s : IState σ) (m : Stanza)
    (rs : List Stanza) (res : Except ClientErr Bytes)
    (h : identityStep ui dec s m = .halt rs res) :
    (rs = [] ∧ ∀ t, res ≠ .error (.pluginError t)) ∨
    (rs = [okS] ∧ res = .error (.pluginError m.body) ∧ m.type = "error") := by
  unfold identityStep at h
  repeat' split at h
  all_goals (try cases h)
  all_goals first
    | (refine Or.inr ⟨rfl, rfl, ?_⟩; assumption)
    | (refine Or.inl ⟨rfl, ?_⟩; intro t hc; cases hc; done)
    | (refine Or.inl ⟨rfl, ?_⟩; intro t; split <;> (intro hc; cases hc))

theorem identityStep_badIndex (ui : UI σ) (dec : String → Option Bytes) (s : IState σ) (m : Stanza)
    (hm : m.type = "file-key") (hi : ∀ idx rest, m.args = idx :: rest → atoi idx ≠ some 0) :
    identityStep ui dec s m = .halt [] (.error .protocol) := by
  unfold identityStep
  simp only [hm, if_true]
  split
  · rename_i idx heq
    have hne := hi idx _ heq
    split
    · rfl
    · rename_i n hn
      have : n ≠ 0 := by
        intro h0; subst h0; exact hne hn
      rw [if_pos this]
  · rfl

theorem identityStep_argcount (ui : UI σ) (dec : String → Option Bytes) (s : IState σ) (m : Stanza)
    (hm : m.type = "file-key") (ha : m.args.length ≠ 1) :
    identityStep ui dec s m = .halt [] (.error .protocol) := by
  unfold identityStep
  simp only [hm, if_true]
  split
  · rename_i idx heq
    rw [heq] at ha
    exact absurd rfl ha
  · rfl

theorem identityStep_dup (ui : UI σ) (dec : String → Option Bytes) (s : IState σ) (m : Stanza)
    (hm : m.type = "file-key") (hg : s.got = true) :
    identityStep ui dec s m = .halt [] (.error .protocol) := by
  unfold identityStep
  simp only [hm, if_true, hg]
  repeat' split
  all_goals rfl

theorem identityStep_accept (ui : UI σ) (dec : String → Option Bytes) (s : IState σ) (m : Stanza)
    (hm : m.type = "file-key") (idx : String) (ha : m.args = [idx]) (hi : atoi idx = some 0)
    (hg : s.got = false) :
    identityStep ui dec s m = .next { s with got := true, fileKey := m.body } okS := by
  unfold identityStep
  simp only [hm, if_true, ha, hi, hg]
  rfl

/-- a continuing step on `file-key` sets `gotFileKey` (and it was not set before) -/
theorem identityStep_filekey_next (ui : UI σ) (dec : String → Option Bytes) (s s' : IState σ) (m r : Stanza)
    (hm : m.type = "file-key") (h : identityStep ui dec s m = .next s' r) :
    s.got = false ∧ s'.got = true ∧ s'.fileKey = m.body ∧ s'.ui = s.ui ∧ r = okS := by
  unfold identityStep at h
  simp only [hm, if_true] at h
  repeat' split at h
  all_goals (try cases h)
  rename_i hg
  refine ⟨?_, rfl, rfl, rfl, rfl⟩
  cases hs : s.got with
  | false => rfl
  | true => exact absurd hs hg

theorem identityStep_error (ui : UI σ) (dec : String → Option Bytes) (s : IState σ) (m : Stanza)
    (hm : m.type = "error") :
    identityStep ui dec s m = .halt [okS] (.error (.pluginError m.body)) := by
  unfold identityStep
  have h1 : ¬ ("error" = "file-key") := by decide
  simp only [hm, h1, if_false, if_true]

theorem identityStep_done (ui : UI σ) (dec : String → Option Bytes) (s : IState σ) (m : Stanza)
    (hm : m.type = "done") :
    identityStep ui dec s m =
      .halt [] (if s.fileKey = [] then .error .incorrectIdentity else .ok s.fileKey) := by
  unfold identityStep
  have h1 : ¬ ("done" = "file-key") := by decide
  have h3 : ¬ ("done" = "error") := by decide
  simp only [hm, h1, h3, if_false, if_true]

theorem identityStep_handle (ui : UI σ) (dec : String → Option Bytes) (s : IState σ) (m : Stanza)
    (h1 : m.type ≠ "file-key") (h3 : m.type ≠ "error") (h4 : m.type ≠ "done") :
    identityStep ui dec s m =
      match ui.handle dec s.ui m with
      | .reply st r => .next { s with ui := st } r
      | .fatal => .halt [] (.error .protocol)
      | .unknown => .next s unsupportedS := by
  unfold identityStep
  simp only [h1, h3, h4, if_false]
  rfl

theorem identityStep_unknown (ui : UI σ) (dec : String → Option Bytes) (s : IState σ) (m : Stanza)
    (hm : m.type ∉ identityCommands) : identityStep ui dec s m = .next s unsupportedS := by
  simp only [identityCommands, uiCommands, List.cons_append, List.nil_append, List.mem_cons,
    List.not_mem_nil, or_false, not_or] at hm
  obtain ⟨h1, h3, h4, h5, h6, h7, h8⟩ := hm
  rw [identityStep_handle ui dec s m h1 h3 h4, handle_unknown]
  simp only [uiCommands, List.mem_cons, List.not_mem_nil, or_false, not_or]
  exact ⟨h5, h6, h7, h8⟩

theorem identityStep_known_reply (ui : UI σ) (dec : String → Option Bytes) (s s' : IState σ) (m r : Stanza)
    (hm : m.type ∈ identityCommands) (h : identityStep ui dec s m = .next s' r) : r ≠ unsupportedS := by
  by_cases h1 : m.type = "file-key"
  · rw [(identityStep_filekey_next ui dec s s' m r h1 h).2.2.2.2]
    exact unsupported_ne_of_type (Or.inl rfl)
  by_cases h3 : m.type = "error"
  · rw [identityStep_error ui dec s m h3] at h; cases h
  by_cases h4 : m.type = "done"
  · rw [identityStep_done ui dec s m h4] at h; cases h
  have hu : m.type ∈ uiCommands := by
    simp only [identityCommands, List.cons_append, List.nil_append, List.mem_cons] at hm
    rcases hm with hm | hm | hm | hm
    · exact absurd hm h1
    · exact absurd hm h3
    · exact absurd hm h4
    · exact hm
  rw [identityStep_handle ui dec s m h1 h3 h4] at h
  split at h
  · rename_i st r' hh
    cases h
    exact unsupported_ne_of_type (handle_reply_type ui dec _ _ _ _ hh)
  · cases h
  · rename_i hh
    exact absurd hh (handle_known_ne_unknown ui dec s.ui m hu)

theorem identityStep_halt_no_unsupported (ui : UI σ) (dec : String → Option Bytes) (s : IState σ) (m : Stanza)
    (rs : List Stanza) (res : Except ClientErr Bytes)
    (h : identityStep ui dec s m = .halt rs res) : unsupportedS ∉ rs := by
  rcases identityStep_halt_replies ui dec s m rs res h with ⟨h, _⟩ | ⟨h, _, _⟩
  · subst h; simp
  · subst h
    simp only [List.mem_singleton]
    exact fun hc => absurd hc.symm (unsupported_ne_of_type (Or.inl rfl))

/-- `gotFileKey` is never reset -/
theorem identityStep_got_inv (ui : UI σ) (dec : String → Option Bytes) (s s' : IState σ) (m r : Stanza)
    (hg : s.got = true) (h : identityStep ui dec s m = .next s' r) : s'.got = true := by
  unfold identityStep at h
  repeat' split at h
  all_goals (try cases h)
  all_goals first
    | exact hg
    | rfl

/-- a continuing step on anything but `file-key` leaves the key state alone -/
theorem identityStep_key_other (ui : UI σ) (dec : String → Option Bytes) (s s' : IState σ) (m r : Stanza)
    (hm : m.type ≠ "file-key") (h : identityStep ui dec s m = .next s' r) :
    s'.got = s.got ∧ s'.fileKey = s.fileKey := by
  unfold identityStep at h
  simp only [hm, if_false] at h
  repeat' split at h
  all_goals (try cases h)
  all_goals exact ⟨rfl, rfl⟩

/-! ## more about `handle` -/

theorem handle_fatal_confirm (ui : UI σ) (dec : String → Option Bytes) (st : σ) (m : Stanza)
    (h : ui.handle dec st m = .fatal) : m.type = "confirm" := by
  unfold UI.handle at h
  repeat' split at h
  all_goals try (simp only [] at h)
  repeat' split at h
  all_goals (try cases h)
  all_goals assumption

/-- a `confirm` whose argument count is right but one of whose arguments does
    not decode is fatal when (and only when) there is a Confirm callback -/
theorem handle_confirm_undecodable (ui : UI σ) (dec : String → Option Bytes) (st : σ) (m : Stanza)
    (hm : m.type = "confirm") (hn : m.args.length = 1 ∨ m.args.length = 2)
    (f : σ → Bytes → Bytes → Bytes → σ × Option Bool) (hc : ui.confirm = some f)
    (hbad : ∃ a ∈ m.args, dec a = none) : ui.handle dec st m = .fatal := by
  obtain ⟨a, ha, hda⟩ := hbad
  match hargs : m.args with
  | [] => rw [hargs] at hn; simp at hn
  | [y] =>
    rw [hargs] at ha
    simp only [List.mem_singleton] at ha
    subst ha
    rw [handle_confirm1 ui dec st m hm a hargs f hc, hda]
  | [y, n] =>
    rw [handle_confirm2 ui dec st m hm y n hargs f hc]
    rw [hargs] at ha
    simp only [List.mem_cons, List.not_mem_nil, or_false] at ha
    cases ha with
    | inl h => subst h; rw [hda]
    | inr h =>
      subst h
      cases hy : dec y with
      | none => rfl
      | some yes => simp only [hda]
  | _ :: _ :: _ :: _ => rw [hargs] at hn; simp at hn

/-! ## the user-interface commands in the two machines -/

theorem recipientStep_ui (ui : UI σ) (dec : String → Option Bytes) (s : RState σ) (m : Stanza)
    (hm : m.type ∈ uiCommands) :
    recipientStep ui dec s m =
      match ui.handle dec s.ui m with
      | .reply st r => .next { s with ui := st } r
      | .fatal => .halt [] (.error .protocol)
      | .unknown => .next s unsupportedS := by
  simp only [uiCommands, List.mem_cons, List.not_mem_nil, or_false] at hm
  apply recipientStep_handle <;> (rcases hm with h | h | h | h <;> (rw [h]; decide))

theorem identityStep_ui (ui : UI σ) (dec : String → Option Bytes) (s : IState σ) (m : Stanza)
    (hm : m.type ∈ uiCommands) :
    identityStep ui dec s m =
      match ui.handle dec s.ui m with
      | .reply st r => .next { s with ui := st } r
      | .fatal => .halt [] (.error .protocol)
      | .unknown => .next s unsupportedS := by
  simp only [uiCommands, List.mem_cons, List.not_mem_nil, or_false] at hm
  apply identityStep_handle <;> (rcases hm with h | h | h | h <;> (rw [h]; decide))

theorem recipientStep_harmless (ui : UI σ) (dec : String → Option Bytes) (s : RState σ) (m : Stanza)
    (hm : harmless m.type) : ∃ s' r, recipientStep ui dec s m = .next s' r := by
  simp only [harmless, List.mem_cons, List.not_mem_nil, or_false, not_or] at hm
  obtain ⟨h1, h2, _, h3, h4, h5⟩ := hm
  rw [recipientStep_handle ui dec s m h1 h2 h3 h4]
  cases hh : ui.handle dec s.ui m with
  | reply st r => exact ⟨_, _, rfl⟩
  | fatal => exact absurd (handle_fatal_confirm ui dec s.ui m hh) h5
  | unknown => exact ⟨_, _, rfl⟩

theorem identityStep_harmless (ui : UI σ) (dec : String → Option Bytes) (s : IState σ) (m : Stanza)
    (hm : harmless m.type) : ∃ s' r, identityStep ui dec s m = .next s' r := by
  simp only [harmless, List.mem_cons, List.not_mem_nil, or_false, not_or] at hm
  obtain ⟨_, _, h1, h3, h4, h5⟩ := hm
  rw [identityStep_handle ui dec s m h1 h3 h4]
  cases hh : ui.handle dec s.ui m with
  | reply st r => exact ⟨_, _, rfl⟩
  | fatal => exact absurd (handle_fatal_confirm ui dec s.ui m hh) h5
  | unknown => exact ⟨_, _, rfl⟩

/-! ## continuing steps on the machines' own commands -/

theorem recipientStep_rs_next (ui : UI σ) (dec : String → Option Bytes) (s s' : RState σ) (m r : Stanza)
    (hm : m.type = "recipient-stanza") (h : recipientStep ui dec s m = .next s' r) :
    ∃ idx ty as, m.args = idx :: ty :: as ∧ atoi idx = some 0 ∧
      s' = { s with stanzas := s.stanzas ++ [⟨ty, as, m.body⟩] } ∧ r = okS := by
  unfold recipientStep at h
  simp only [hm, if_true] at h
  split at h
  · rename_i idx ty as heq
    split at h
    · cases h
    · rename_i n hn
      split at h
      · cases h
      · rename_i h0
        cases h
        have : n = 0 := by
          cases Decidable.em (n = 0) with
          | inl h => exact h
          | inr h => exact absurd h h0
        subst this
        exact ⟨idx, ty, as, heq, hn, rfl, rfl⟩
  · cases h

theorem recipientStep_labels_next (ui : UI σ) (dec : String → Option Bytes) (s s' : RState σ) (m r : Stanza)
    (hm : m.type = "labels") (h : recipientStep ui dec s m = .next s' r) :
    s.labels = none ∧ s' = { s with labels := some m.args } ∧ r = okS := by
  cases hl : s.labels with
  | some l =>
    rw [recipientStep_labels_dup ui dec s m hm (by rw [hl]; simp)] at h
    cases h
  | none =>
    rw [recipientStep_labels_first ui dec s m hm hl] at h
    cases h
    exact ⟨rfl, rfl, rfl⟩

end Plugin
end AgeModel
