/-
  Proofs.Bech32Scalar — the checksum is linear over GF(32), not only over GF(2).

  `A` multiplies each of the six 5-bit lanes of a 30-bit state by the primitive
  element α of GF(32) = GF(2)[α]/(α⁵+α³+1).  `A` is XOR-linear and commutes with
  the state transition `L`; every symbol 1..31 is sent to 1 by some power of `A`.
  Hence in a relation  Lpow p x ^^^ Lpow q y ^^^ Lpow r z = w  one may assume
  x = 1, which divides the weight-4 computation by 31.

  Nothing here is assumed about fields: commutation with `L` is checked on the 30
  basis vectors by the kernel and extended by linearity.
-/
import Proofs.Bech32Syndrome
namespace AgeModel
namespace Bech32

/-- bits 0..3 of every lane -/
def mLow4 : Nat := 0x1EF7BDEF
/-- bit 0 of every lane -/
def mBit0 : Nat := 0x2108421

/-- lane-wise multiplication by α: shift each lane left by one; a lane whose top
    bit was set gets α⁵ = α³ + 1 (binary 01001) added -/
def A (s : Nat) : Nat :=
  ((s &&& mLow4) <<< 1) ^^^ ((((s >>> 4) &&& mBit0) <<< 3) ^^^ ((s >>> 4) &&& mBit0))

theorem A_lin (a b : Nat) : A (a ^^^ b) = A a ^^^ A b := by
  unfold A
  rw [Nat.and_xor_distrib_right, Nat.shiftLeft_xor_distrib, Nat.shiftRight_xor_distrib,
    Nat.and_xor_distrib_right, Nat.shiftLeft_xor_distrib]
  ac_rfl

theorem A_zero : A 0 = 0 := by decide

theorem A_lt (s : Nat) : A s < 2 ^ 30 := by
  unfold A
  have h1 : s &&& mLow4 ≤ mLow4 := Nat.and_le_right
  have h2 : (s >>> 4) &&& mBit0 ≤ mBit0 := Nat.and_le_right
  apply Nat.xor_lt_two_pow
  · rw [Nat.shiftLeft_eq]
    simp only [mLow4] at h1 ⊢
    omega
  · apply Nat.xor_lt_two_pow
    · rw [Nat.shiftLeft_eq]
      simp only [mBit0] at h2 ⊢
      omega
    · simp only [mBit0] at h2 ⊢
      omega

/-! ## linear maps on 30-bit states are determined by the basis -/

theorem shl_xor (s v n : Nat) (hv : v < 2 ^ n) : s <<< n ^^^ v = s * 2 ^ n + v := by
  have h1 := Nat.shiftLeft_add_eq_or_of_lt (i := n) (b := v) hv s
  have h2 : s <<< n ^^^ v = s <<< n ||| v := by
    apply Nat.eq_of_testBit_eq
    intro i
    rw [Nat.testBit_xor, Nat.testBit_or, Nat.testBit_shiftLeft]
    by_cases hi : i ≥ n
    · have : v.testBit i = false := by
        apply Nat.testBit_lt_two_pow
        exact Nat.lt_of_lt_of_le hv (Nat.pow_le_pow_right (n := 2) (by decide) hi)
      simp [this]
    · simp [hi]
  rw [h2, ← h1, Nat.shiftLeft_eq]

theorem lin_ext (f g : Nat → Nat)
    (hf : ∀ a b, a < 2 ^ 30 → b < 2 ^ 30 → f (a ^^^ b) = f a ^^^ f b)
    (hg : ∀ a b, a < 2 ^ 30 → b < 2 ^ 30 → g (a ^^^ b) = g a ^^^ g b)
    (h0 : f 0 = g 0) (hb : ∀ i, i < 30 → f (2 ^ i) = g (2 ^ i)) :
    ∀ n, n ≤ 30 → ∀ s, s < 2 ^ n → f s = g s
  | 0, _, s, hs => by
    have : s = 0 := by simpa using hs
    rw [this, h0]
  | n + 1, hn, s, hs => by
    have ih := lin_ext f g hf hg h0 hb n (by omega)
    have hpos : 0 < 2 ^ n := Nat.two_pow_pos n
    have hlo : s % 2 ^ n < 2 ^ n := Nat.mod_lt _ hpos
    have hle : 2 ^ n ≤ 2 ^ 29 := Nat.pow_le_pow_right (by decide) (by omega)
    by_cases hs' : s < 2 ^ n
    · exact ih s hs'
    · have hhi : s / 2 ^ n = 1 := by
        have h1 : s / 2 ^ n < 2 := by
          apply Nat.div_lt_of_lt_mul
          rw [Nat.pow_succ] at hs; omega
        have h2 : 0 < s / 2 ^ n := Nat.div_pos (by omega) hpos
        omega
      have hsplit : s = 2 ^ n ^^^ s % 2 ^ n := by
        have := shl_xor 1 (s % 2 ^ n) n hlo
        rw [Nat.one_shiftLeft, Nat.one_mul] at this
        rw [this]
        have := Nat.div_add_mod s (2 ^ n)
        rw [hhi, Nat.mul_one] at this
        exact this.symm
      have e29 : (2 : Nat) ^ 30 = 2 * 2 ^ 29 := by decide
      rw [hsplit, hf _ _ (by omega) (by omega), hg _ _ (by omega) (by omega), hb n (by omega),
        ih _ hlo]

/-! ## A commutes with L -/

theorem AL_basis : ∀ i : Fin 30, A (L (2 ^ i.val)) = L (A (2 ^ i.val)) := by decide +kernel

theorem A_L {s : Nat} (hs : s < 2 ^ 30) : A (L s) = L (A s) := by
  apply lin_ext (fun s => A (L s)) (fun s => L (A s)) _ _ _ _ 30 (Nat.le_refl _) s hs
  · intro a b ha hb
    simp only [L_lin ha hb, A_lin]
  · intro a b _ _
    simp only [A_lin, L_lin (A_lt a) (A_lt b)]
  · decide
  · intro i hi
    exact AL_basis ⟨i, hi⟩

def Apow : Nat → Nat → Nat
  | 0, s => s
  | i + 1, s => A (Apow i s)

theorem Apow_lt : ∀ (i : Nat) {s : Nat}, s < 2 ^ 30 → Apow i s < 2 ^ 30
  | 0, _, h => h
  | _ + 1, _, _ => A_lt _

theorem Apow_lin : ∀ (i a b : Nat), Apow i (a ^^^ b) = Apow i a ^^^ Apow i b
  | 0, _, _ => rfl
  | i + 1, a, b => by simp only [Apow, Apow_lin i a b, A_lin]

theorem A_Lpow : ∀ (k : Nat) {s : Nat}, s < 2 ^ 30 → A (Lpow k s) = Lpow k (A s)
  | 0, _, _ => rfl
  | k + 1, s, hs => by
    rw [Lpow, A_L (Lpow_lt k hs), A_Lpow k hs, Lpow]

theorem Apow_Lpow : ∀ (i k : Nat) {s : Nat}, s < 2 ^ 30 → Apow i (Lpow k s) = Lpow k (Apow i s)
  | 0, _, _, _ => rfl
  | i + 1, k, s, hs => by
    rw [Apow, Apow_Lpow i k hs, A_Lpow k (Apow_lt i hs), Apow]

/-! ## symbols -/

/-- on single symbols: A keeps symbols symbols and non-zero ones non-zero -/
theorem A_sym : ∀ v : Fin 32, A v.val < 32 ∧ (v.val ≠ 0 → A v.val ≠ 0) := by decide +kernel

theorem Apow_sym : ∀ (i : Nat) {v : Nat}, v < 32 → Apow i v < 32 ∧ (v ≠ 0 → Apow i v ≠ 0)
  | 0, _, h => ⟨h, id⟩
  | i + 1, v, h => by
    obtain ⟨h1, h2⟩ := Apow_sym i h
    have := A_sym ⟨Apow i v, h1⟩
    exact ⟨this.1, fun hv => this.2 (h2 hv)⟩

/-- some power of A (below 31) sends a given non-zero symbol to 1 -/
def toOne (x : Nat) : Bool := (List.range 31).any fun i => Apow i x == 1

theorem toOne_all : ∀ x : Fin 32, x.val ≠ 0 → toOne x.val = true := by decide +kernel

theorem exists_Apow_one {x : Nat} (h1 : 1 ≤ x) (h : x < 32) : ∃ i, Apow i x = 1 := by
  have := toOne_all ⟨x, h⟩ (by simp; omega)
  simp only [toOne, List.any_eq_true, beq_iff_eq] at this
  obtain ⟨i, _, hi⟩ := this
  exact ⟨i, hi⟩

/-- the weight-4 fact with the first symbol normalised to 1 -/
def Fact4' : Prop := ∀ p q r y z, 1 ≤ r → r < q → q < p → p ≤ 57 → 1 ≤ y → y < 32 → 1 ≤ z → z < 32 →
    32 ≤ Lpow p 1 ^^^ Lpow q y ^^^ Lpow r z

theorem fact4_of_normalised (h : Fact4') : Fact4 := by
  intro p q r x y z hr hrq hqp hp hx1 hx hy1 hy hz1 hz
  apply Nat.le_of_not_lt
  intro hlt
  obtain ⟨i, hi⟩ := exists_Apow_one hx1 hx
  have lx := lt30_of_lt32 hx
  have ly := lt30_of_lt32 hy
  have lz := lt30_of_lt32 hz
  obtain ⟨hy', hy0⟩ := Apow_sym i hy
  obtain ⟨hz', hz0⟩ := Apow_sym i hz
  obtain ⟨hw', _⟩ := Apow_sym i hlt
  rw [Apow_lin, Apow_lin, Apow_Lpow i p lx, Apow_Lpow i q ly, Apow_Lpow i r lz, hi] at hw'
  have := h p q r (Apow i y) (Apow i z) hr hrq hqp hp
    (by have := hy0 (by omega); omega) hy' (by have := hz0 (by omega); omega) hz'
  omega

end Bech32
end AgeModel
