/-
  Proofs.GoTieWitnessB — the assumption structures of the "translated code = model" theorems about
  armor, header marshalling, the plugin client and the CLI's recipients file are SATISFIABLE: each is
  inhabited, so no theorem that assumes one of them is vacuous.
-/
import Proofs.GoTieArmorR
import Proofs.GoTieArmorW
import Proofs.GoTieArmorRT
import Proofs.GoTieMarshal
import Proofs.GoTiePluginUI
import Proofs.GoTiePluginBase
import Proofs.GoTieCliKeyFile
import Proofs.B64Std
namespace AgeModel
namespace GoTie
open Extracted

/-! ## helpers -/

/-- a strictly decoded line is no longer than Go's `DecodedLen` of it -/
theorem decStd_len (line b : Bytes) (h : B64.decStd line = some b) : b.length ≤ line.length / 4 * 3 := by
  have := B64.encStd_decStd line b h
  subst this
  rw [B64.encStd_length]; omega

/-- the string whose UTF-8 bytes these are (the empty string when they are not UTF-8): a COMPUTABLE left
    inverse of `bs` -/
def unbs (b : Bytes) : String :=
  match String.fromUTF8? b.toByteArray with
  | some s => s
  | none => ""

theorem toByteArray_toList (a : ByteArray) : a.toList.toByteArray = a := by
  rw [ba_toList]
  apply ByteArray.ext
  simp

theorem unbs_bs (s : String) : unbs (bs s) = s := by
  simp only [unbs, bs, String.toUTF8_eq_toByteArray, toByteArray_toList, String.fromUTF8?, s.isValidUTF8, dif_pos]
  exact String.toByteArray_inj.mp rfl

theorem map_unbs_bs (l : List String) : (l.map bs).map unbs = l := by
  simp [List.map_map, Function.comp_def, unbs_bs]

/-- left inverse of `goFS` -/
def unFS (f : format_Stanza) : Plugin.Stanza := ⟨unbs f.Type_, f.Args.map unbs, f.Body⟩

theorem unFS_goFS (m : Plugin.Stanza) : unFS (goFS m) = m := by
  obtain ⟨t, a, b⟩ := m
  simp only [unFS, goFS, unbs_bs, map_unbs_bs]

/-! ## the witnesses -/

/-- strict standard base64 as the model has it -/
def B64DecEnv.witness : B64DecEnv where
  Dec line := .ok ((B64.decStd line).getD [],
    match B64.decStd line with | some _ => none | none => some ⟨"base64.CorruptInputError", 0, []⟩)
  eDec := ⟨"base64.CorruptInputError", 0, []⟩
  hDec line := by
    refine ⟨(B64.decStd line).getD [], rfl, ?_, ?_⟩
    · cases h : B64.decStd line with
      | none => simp
      | some b => simpa using decStd_len line b h
    · intro b h; rw [h]; rfl
  hne := by simp [Go.io_EOF]

/-- the premises of `code_armor_roundtrip` hold of the canonical writer environment, this decoder, the fresh
    encoder state and the empty destination, for every input and every long enough list of read sizes — e.g.
    reads of one byte each -/
theorem code_armor_roundtrip_premises (ps : List Bytes) :
    (ArmorWEnv.canonical.absI ([], false) = [] ∧ ArmorWEnv.canonical.absO ([], false) = [] ∧
      ArmorWEnv.canonical.isOpen ([], false)) ∧ ArmorWEnv.canonical.absD [] = [] ∧
    ∃ sizes : List Nat, (∀ s ∈ sizes, 0 < s) ∧
      ps.flatten.length + (Armor.armor ps.flatten).length + 2 < sizes.length := by
  refine ⟨ArmorWEnv.canonical_fresh, rfl,
    List.replicate (ps.flatten.length + (Armor.armor ps.flatten).length + 3) 1, ?_, ?_⟩
  · intro s hs
    rw [List.eq_of_mem_replicate hs]; decide
  · rw [List.length_replicate]; omega

/-- header marshalling: a destination that is the list of bytes written; an encoder that buffers its input
    and writes the wrapped raw base64 when it is closed -/
def MarshalEnv.witness : MarshalEnv Bytes Unit Bytes where
  absD d := d
  W d b := .ok (Int.ofNat b.length, none, d ++ b)
  hW d b := ⟨d ++ b, rfl, rfl⟩
  b64 := ()
  New _ d := .ok ([], d)
  Wr ww p d := .ok (Int.ofNat p.length, none, ww ++ p, d)
  Cl ww d := .ok (none, ww, d ++ Format.wrap (B64.encRaw ww))
  hEnc d body := ⟨[], d, rfl, rfl, Int.ofNat body.length, body, d, rfl, body, d ++ Format.wrap (B64.encRaw body), rfl, rfl⟩
  Enc _ m := .ok (B64.encRaw m)
  hE _ := rfl

/-- the plugin connection is the list of stanzas written; `format.DecodeString` is the model's strict raw
    base64 on the bytes of the string -/
def UIEnv.witness : UIEnv (List Plugin.Stanza) where
  absC c := c
  W c t args := .ok (none, c ++ [⟨unbs t, args.map unbs, []⟩])
  hW c t args := ⟨c ++ [⟨t, args, []⟩], by rw [unbs_bs, map_unbs_bs], rfl⟩
  WB c t body := .ok (none, c ++ [⟨unbs t, [], body⟩])
  hWB c t body := ⟨c ++ [⟨t, [], body⟩], by rw [unbs_bs], rfl⟩
  dec y := B64.decRaw (bs y)
  D b := .ok (match B64.decRaw b with | some v => (v, none) | none => ([], some ⟨"format.DecodeString", 0, []⟩))
  eD := ⟨"format.DecodeString", 0, []⟩
  hD _ := rfl

/-- a plugin environment for ANY UI, decoder, script and starting UI state -/
noncomputable def PluginEnv.witness {S : Type} (ui : Plugin.UI S) (dec : String → Option Bytes) (script : Plugin.Conv) (st0 : S) :
    PluginEnv S (List Plugin.Stanza × Plugin.End) Unit (List Plugin.Stanza × S) where
  ui := ui
  dec := dec
  absC c := c.1
  uiOf c := c.2
  absS sr := sr
  u := ()
  name := bs "age-plugin-witness"
  c0 := ([], st0)
  st0 := st0
  script := script
  eEnd e := match e with
    | .eof => ⟨"io.ErrUnexpectedEOF", 0, []⟩
    | .malformed => ⟨"format.ReadStanza", 0, []⟩
  eH := ⟨"plugin.(*ClientUI).handle", 0, []⟩
  Open _ _ := .ok (([], st0), none)
  hOpen _ := rfl
  h0 := ⟨rfl, rfl⟩
  W c t args := .ok (none, (c.1 ++ [⟨unbs t, args.map unbs, []⟩], c.2))
  hW c t args := ⟨(c.1 ++ [⟨t, args, []⟩], c.2), by rw [unbs_bs, map_unbs_bs], rfl, rfl⟩
  WB c t body := .ok (none, (c.1 ++ [⟨unbs t, [], body⟩], c.2))
  hWB c t body := ⟨(c.1 ++ [⟨t, [], body⟩], c.2), by rw [unbs_bs], rfl, rfl⟩
  M f c := .ok (none, (c.1 ++ [unFS f], c.2))
  hM c m := ⟨(c.1 ++ [m], c.2), by rw [unFS_goFS], rfl, rfl⟩
  Close _ := .ok none
  hClose _ := ⟨none, rfl⟩
  New _ := .ok (script.msgs, script.fin)
  hNew _ := ⟨(script.msgs, script.fin), rfl, rfl⟩
  rem sr := sr.1.length
  hRem _ := rfl
  Rd _ _ sr := match sr with
    | ([], e) => .ok (⟨[], [], []⟩, some (match e with
        | .eof => ⟨"io.ErrUnexpectedEOF", 0, []⟩
        | .malformed => ⟨"format.ReadStanza", 0, []⟩), ([], e))
    | (m :: rest, e) => .ok (goFS m, none, (rest, e))
  hRd sr := by
    obtain ⟨l, e⟩ := sr
    cases l with
    | nil => exact ⟨_, rfl, rfl⟩
    | cons m rest => exact ⟨_, rfl, rfl, rfl, rfl⟩
  Hd _ _ c f := match ui.handle dec c.2 (unFS f) with
    | .reply st r => .ok (true, none, (c.1 ++ [r], st))
    | .fatal => .ok (true, some ⟨"plugin.(*ClientUI).handle", 0, []⟩, c)
    | .unknown => .ok (false, none, c)
  hHd c m := by
    rw [unFS_goFS]
    cases h : ui.handle dec c.2 m with
    | reply st r => exact ⟨_, rfl, rfl, rfl, rfl, rfl⟩
    | fatal => exact ⟨_, rfl, rfl, rfl, rfl, rfl⟩
    | unknown => exact ⟨_, rfl, rfl, rfl, rfl, rfl⟩

theorem PluginEnv.witness_ui {S : Type} (ui : Plugin.UI S) (dec : String → Option Bytes) (script : Plugin.Conv) (st0 : S) :
    (PluginEnv.witness ui dec script st0).ui = ui ∧ (PluginEnv.witness ui dec script st0).dec = dec ∧
    (PluginEnv.witness ui dec script st0).script = script ∧ (PluginEnv.witness ui dec script st0).st0 = st0 :=
  ⟨rfl, rfl, rfl, rfl⟩

/-- a recipients-file environment for ANY key-type sniffer and validity predicate -/
def RecFileEnv.witness (sniff : Bytes → Option Bytes) (valid : Bytes → Bool) : RecFileEnv Unit Unit (List Nat) where
  P l := .ok ((), if l.isEmpty then some ⟨"main.parseRecipient", 0, []⟩ else none)
  hP _ := ⟨_, rfl⟩
  K l := .ok (match sniff l with
              | some t => (t, true)
              | none => ([], false))
  sniff := sniff
  hK _ := rfl
  A l := .ok ((), [], [], [], if valid l then none else some ⟨"ssh.ParseAuthorizedKey", 0, []⟩)
  valid := valid
  hA l := ⟨_, rfl, by cases valid l <;> rfl⟩
  W t _ ints := .ok (t ++ ints.map Int.toNat)
  absT t := t
  hW t n := ⟨t ++ [n], rfl, rfl⟩

theorem RecFileEnv.witness_fields (sniff : Bytes → Option Bytes) (valid : Bytes → Bool) :
    (RecFileEnv.witness sniff valid).sniff = sniff ∧ (RecFileEnv.witness sniff valid).valid = valid :=
  ⟨rfl, rfl⟩

end GoTie
end AgeModel
