/-
  Proofs.GoTieCodec — bech32.Encode / bech32.Decode and the four plugin key-string
  functions, as TRANSLATED from the Go source (AgeModel/Extracted/Funcs.lean,
  regenerated on every run), compute what the hand-written models
  (AgeModel/Bech32.lean, AgeModel/Keys.lean) compute — for ALL byte strings,
  including non-ASCII ones (the translated code ranges over RUNES and calls
  strings.ToLower, whose behaviour beyond ASCII is an opaque constant: the
  theorems show it is never reached with a non-ASCII argument).
-/
import AgeModel.GoSem
import AgeModel.Bech32
import AgeModel.Keys
import AgeModel.Extracted.Funcs
import Proofs.Bech32Codec
import Proofs.GoTieBech32
import Proofs.GoTieRunes
namespace AgeModel
namespace GoTie
open Extracted

theorem ascii_of_noBad_b : ∀ c : UInt8, Bech32.badByte c = false → c < 0x80 := by
  apply Bech32.forall_u8; decide +kernel

theorem isAscii_of_noBad (s : Bytes) (h : Bech32.hasBadByte s = false) : Go.isAscii s = true := by
  simp only [Bech32.hasBadByte, List.any_eq_false] at h
  simp only [Go.isAscii, List.all_eq_true, decide_eq_true_eq]
  intro b hb
  exact ascii_of_noBad_b b (by simpa using h b hb)

theorem toLower_ascii (s : Bytes) (h : Go.isAscii s = true) : Go.strings_ToLower s = Bech32.toLower s := by
  simp only [Go.strings_ToLower, h, if_true]; rfl

theorem toUpper_ascii (s : Bytes) (h : Go.isAscii s = true) : Go.strings_ToUpper s = Bech32.toUpper s := by
  simp only [Go.strings_ToUpper, h, if_true]; rfl

theorem runes_any_bad' (s : Bytes) :
    (Go.runes s).any (fun p => decide (p.2 < 33) || decide (p.2 > 126)) = Bech32.hasBadByte s :=
  runes_any_bad s

theorem Decode_loop1_eq (rs : List (Int × Int)) :
    bech32_Decode_loop1 rs = .ok (if rs.any (fun p => decide (p.2 < 33) || decide (p.2 > 126)) = true
      then .ret ([], [], some ⟨"bech32.Decode", 0, []⟩) else .next ()) := by
  induction rs with
  | nil => rfl
  | cons p rs ih =>
    simp only [bech32_Decode_loop1, List.any_cons]
    by_cases h : (decide (p.2 < 33) || decide (p.2 > 126)) = true
    · simp only [h, if_true, Bool.true_or]; rfl
    · simp only [h, Bool.false_or]; exact ih

theorem Decode_loop2_eq (rs : List (Int × Int)) :
    bech32_Decode_loop2 rs = .ok (if rs.any (fun p => decide (p.2 < 33) || decide (p.2 > 126)) = true
      then .ret ([], [], some ⟨"bech32.Decode", 3, []⟩) else .next ()) := by
  induction rs with
  | nil => rfl
  | cons p rs ih =>
    simp only [bech32_Decode_loop2, List.any_cons]
    by_cases h : (decide (p.2 < 33) || decide (p.2 > 126)) = true
    · simp only [h, if_true, Bool.true_or]; rfl
    · simp only [h, Bool.false_or]; exact ih

theorem Encode_loop1_eq (rs : List (Int × Int)) :
    bech32_Encode_loop1 rs = .ok (if rs.any (fun p => decide (p.2 < 33) || decide (p.2 > 126)) = true
      then .ret ([], some ⟨"bech32.Encode", 1, []⟩) else .next ()) := by
  induction rs with
  | nil => rfl
  | cons p rs ih =>
    simp only [bech32_Encode_loop1, List.any_cons]
    by_cases h : (decide (p.2 < 33) || decide (p.2 > 126)) = true
    · simp only [h, if_true, Bool.true_or]; rfl
    · simp only [h, Bool.false_or]; exact ih

/-! lastIndex -/
theorem lastIndexFrom_eq (c : UInt8) : ∀ (s : Bytes) (off : Nat),
    Go.lastIndexFrom [c] off s =
      match Bech32.lastIndex c s with
      | some i => Int.ofNat (off + i)
      | none => -1
  | [], off => rfl
  | x :: xs, off => by
    simp only [Go.lastIndexFrom, Bech32.lastIndex, lastIndexFrom_eq c xs (off + 1)]
    cases h : Bech32.lastIndex c xs with
    | some i =>
      simp only []
      rw [if_pos (by simp only [Int.ofNat_eq_natCast]; omega)]
      simp only [Int.ofNat_eq_natCast]; congr 1; omega
    | none =>
      simp only []
      rw [if_neg (by omega)]
      by_cases hx : x = c
      · subst hx; simp
      · have : ¬ c = x := fun e => hx e.symm
        simp [hx, this]

theorem lastIndex_eq (s : Bytes) :
    Go.strings_LastIndex s [0x31] =
      match Bech32.lastIndex 0x31 s with
      | some i => Int.ofNat i
      | none => -1 := by
  simp only [Go.strings_LastIndex]
  rw [if_neg (by simp), lastIndexFrom_eq]
  cases Bech32.lastIndex 0x31 s <;> simp


/-- `strings.IndexRune(charset, c)` on a byte: the model's `charsetIdx` -/
theorem indexRune_b : ∀ b : UInt8,
    (match Bech32.charsetIdx b with
     | some p => decide (Go.strings_IndexRune bech32_charset (Int.ofNat b.toNat) = Int.ofNat p.toNat)
     | none => decide (Go.strings_IndexRune bech32_charset (Int.ofNat b.toNat) = -1)) = true := by
  apply Bech32.forall_u8; decide +kernel

theorem intToU8_b : ∀ p : UInt8, Go.intToU8 (Int.ofNat p.toNat) = p := by
  apply Bech32.forall_u8; decide +kernel

theorem indexRune_some (b p : UInt8) (h : Bech32.charsetIdx b = some p) :
    Go.strings_IndexRune bech32_charset (Int.ofNat b.toNat) = Int.ofNat p.toNat := by
  have := indexRune_b b
  rw [h] at this
  simpa using this

theorem indexRune_none (b : UInt8) (h : Bech32.charsetIdx b = none) :
    Go.strings_IndexRune bech32_charset (Int.ofNat b.toNat) = -1 := by
  have := indexRune_b b
  rw [h] at this
  simpa using this

theorem Decode_loop3_eq : ∀ (rs : List (Int × Int)) (bs : Bytes) (data : Bytes),
    rs.map (·.2) = bs.map (fun b => Int.ofNat b.toNat) →
    bech32_Decode_loop3 rs data = .ok (match Bech32.mapOpt Bech32.charsetIdx bs with
      | some l => .next (data ++ l)
      | none => .ret ([], [], some ⟨"bech32.Decode", 4, []⟩))
  | [], [], data, _ => by simp [bech32_Decode_loop3, Bech32.mapOpt]; rfl
  | [], _ :: _, _, h => by simp at h
  | _ :: _, [], _, h => by simp at h
  | r :: rs, b :: bs, data, h => by
    simp only [List.map_cons, List.cons.injEq] at h
    obtain ⟨h1, h2⟩ := h
    simp only [bech32_Decode_loop3, Bech32.mapOpt, h1]
    cases hc : Bech32.charsetIdx b with
    | none =>
      simp only [indexRune_none b hc]
      rfl
    | some p =>
      simp only [indexRune_some b p hc, intToU8_b]
      have hne : (Int.ofNat p.toNat == (-1 : Int)) = false := by
        simp only [beq_eq_false_iff_ne, Int.ofNat_eq_natCast]; omega
      simp only [hne]
      show bech32_Decode_loop3 rs (data ++ [p]) = _
      rw [Decode_loop3_eq rs bs (data ++ [p]) h2]
      cases Bech32.mapOpt Bech32.charsetIdx bs <;> simp

theorem zipWith_snd {α β γ : Type} (g : β → γ) : ∀ (l : List α) (s : List β), s.length ≤ l.length →
    List.zipWith (fun _ b => g b) l s = s.map g
  | _, [], _ => by simp
  | [], _ :: _, h => by simp at h
  | _ :: l, b :: s, h => by
    simp only [List.zipWith_cons_cons, List.map_cons, zipWith_snd g l s (by simpa using h)]

theorem runes_ascii_snd (s : Bytes) (h : Go.isAscii s = true) :
    (Go.runes s).map (·.2) = s.map (fun b => Int.ofNat b.toNat) := by
  rw [runes_ascii s h, List.map_zipWith]
  exact zipWith_snd _ _ _ (by simp)

/-! Encode loops -/
theorem charset_eq : bech32_charset = Bech32.charset := by decide

theorem idx_charset (p : UInt8) :
    Go.idx bech32_charset (Go.u8ToInt p) = match Bech32.charsetAt p with
      | some c => .ok c
      | none => .error .index := by
  simp only [Go.idx, Go.u8ToInt, Bech32.charsetAt, charset_eq]
  rw [if_neg (by simp only [Int.ofNat_eq_natCast]; omega)]
  simp only [Int.ofNat_eq_natCast, Int.toNat_natCast]
  cases Bech32.charset[p.toNat]? <;> rfl

theorem Encode_loop2_eq : ∀ (vs ret : Bytes),
    bech32_Encode_loop2 vs ret = match Bech32.mapOpt Bech32.charsetAt vs with
      | some cs => .ok (.next (ret ++ cs))
      | none => .error .index
  | [], ret => by simp [bech32_Encode_loop2, Bech32.mapOpt]; rfl
  | v :: vs, ret => by
    simp only [bech32_Encode_loop2, Bech32.mapOpt, idx_charset, bind, Except.bind]
    cases hc : Bech32.charsetAt v with
    | none => rfl
    | some c =>
      simp only []
      rw [Encode_loop2_eq vs (ret ++ [c])]
      cases Bech32.mapOpt Bech32.charsetAt vs <;> simp

theorem Encode_loop3_eq : ∀ (vs ret : Bytes),
    bech32_Encode_loop3 vs ret = match Bech32.mapOpt Bech32.charsetAt vs with
      | some cs => .ok (.next (ret ++ cs))
      | none => .error .index
  | [], ret => by simp [bech32_Encode_loop3, Bech32.mapOpt]; rfl
  | v :: vs, ret => by
    simp only [bech32_Encode_loop3, Bech32.mapOpt, idx_charset, bind, Except.bind]
    cases hc : Bech32.charsetAt v with
    | none => rfl
    | some c =>
      simp only []
      rw [Encode_loop3_eq vs (ret ++ [c])]
      cases Bech32.mapOpt Bech32.charsetAt vs <;> simp

theorem slice_ofNat {α : Type} (a : List α) (lo hi : Nat) (h1 : lo ≤ hi) (h2 : hi ≤ a.length) :
    Go.slice a (Int.ofNat lo) (Int.ofNat hi) = .ok ((a.take hi).drop lo) := by
  simp only [Go.slice]
  rw [if_pos (by simp only [Int.ofNat_eq_natCast]; omega)]
  simp only [Int.ofNat_eq_natCast, Int.toNat_natCast]


/-- the Go error value `bech32.Decode` returns for each error class of the model -/
def decErr : Bech32.Err → Option Go.Err
  | .badChar => some ⟨"bech32.Decode", 0, []⟩
  | .mixedCase => some ⟨"bech32.Decode", 1, []⟩
  | .badSeparator => some ⟨"bech32.Decode", 2, []⟩
  | .badHrpChar => some ⟨"bech32.Decode", 3, []⟩
  | .badDataChar => some ⟨"bech32.Decode", 4, []⟩
  | .badChecksum => some ⟨"bech32.Decode", 5, []⟩
  | e => cbErr e

def encErr : Bech32.Err → Option Go.Err
  | .badHrpEmpty => some ⟨"bech32.Encode", 0, []⟩
  | .badHrpChar => some ⟨"bech32.Encode", 1, []⟩
  | .mixedCase => some ⟨"bech32.Encode", 2, []⟩
  | e => cbErr e

theorem sepTest (pos : Nat) (s : Bytes) :
    ((decide (Int.ofNat pos < 1) || decide (Int.ofNat pos + 7 > Go.len s)) = true) ↔
      (pos < 1 ∨ pos + 7 > s.length) := by
  rw [Bool.or_eq_true, decide_eq_true_iff, decide_eq_true_iff]
  simp only [Go.len, Int.ofNat_eq_natCast]
  omega

theorem hasBadByte_take (s : Bytes) (n : Nat) (h : Bech32.hasBadByte s = false) :
    Bech32.hasBadByte (s.take n) = false := by
  simp only [Bech32.hasBadByte, List.any_eq_false] at h ⊢
  exact fun x hx => h x (List.mem_of_mem_take hx)

theorem hasBadByte_drop (s : Bytes) (n : Nat) (h : Bech32.hasBadByte s = false) :
    Bech32.hasBadByte (s.drop n) = false := by
  simp only [Bech32.hasBadByte, List.any_eq_false] at h ⊢
  exact fun x hx => h x (List.mem_of_mem_drop hx)

theorem decode_tie (s : Bytes) :
    bech32_Decode s = .ok (match Bech32.decode s with
      | .ok (h, d) => (h, d, none)
      | .error e => ([], [], decErr e)) := by
  unfold bech32_Decode
  simp only [bind, Except.bind, pure, Except.pure]
  rw [Decode_loop1_eq, runes_any_bad']
  unfold Bech32.decode
  by_cases hb : Bech32.hasBadByte s = true
  · simp only [hb, if_true]; rfl
  have hb' : Bech32.hasBadByte s = false := by simpa using hb
  have ha := isAscii_of_noBad s hb'
  simp only [hb', Bool.false_eq_true, if_false]
  rw [toLower_ascii s ha, toUpper_ascii s ha]
  by_cases hm : Bech32.toLower s ≠ s ∧ Bech32.toUpper s ≠ s
  · rw [if_pos hm, if_pos (by simpa using hm)]; rfl
  rw [if_neg hm, if_neg (by simpa using hm)]
  rw [lastIndex_eq]
  cases hp : Bech32.lastIndex 0x31 s with
  | none =>
    simp only []
    rw [if_pos (by simp)]
    rfl
  | some pos =>
    simp only []
    by_cases hs : pos < 1 ∨ pos + 7 > s.length
    · rw [if_pos hs, if_pos ((sepTest pos s).mpr hs)]
      rfl
    rw [if_neg hs, if_neg (fun h => hs ((sepTest pos s).mp h))]
    have e0 : Go.slice s 0 (Int.ofNat pos) = .ok (s.take pos) :=
      slice_ofNat s 0 pos (by omega) (by omega)
    have e1 : Go.slice (Bech32.toLower s) (Int.ofNat pos + 1) (Go.len (Bech32.toLower s))
        = .ok ((Bech32.toLower s).drop (pos + 1)) := by
      have := slice_ofNat (Bech32.toLower s) (pos + 1) (Bech32.toLower s).length
        (by simp only [Bech32.toLower_length]; omega) (Nat.le_refl _)
      rw [List.take_length] at this
      exact this
    rw [e0, e1]
    simp only []
    rw [Decode_loop2_eq, runes_any_bad']
    have hbh : Bech32.hasBadByte (s.take pos) = false := hasBadByte_take s pos hb'
    simp only [hbh, Bool.false_eq_true, if_false]
    have hbd : Bech32.hasBadByte ((Bech32.toLower s).drop (pos + 1)) = false :=
      hasBadByte_drop _ _ (by rw [Bech32.hasBadByte_toLower]; exact hb')
    rw [Decode_loop3_eq _ _ [] (runes_ascii_snd _ (isAscii_of_noBad _ hbd))]
    cases hd : Bech32.mapOpt Bech32.charsetIdx ((Bech32.toLower s).drop (pos + 1)) with
    | none => rfl
    | some data =>
      simp only [List.nil_append]
      rw [verifyChecksum_tie _ _ (isAscii_of_noBad _ hbh)]
      simp only []
      by_cases hv : (!Bech32.verifyChecksum (s.take pos) data) = true
      · rw [if_pos hv, if_pos hv]; rfl
      rw [if_neg hv, if_neg hv]
      have hlen := Bech32.mapOpt_length _ _ _ hd
      have hlen' : 6 ≤ data.length := by
        rw [hlen, List.length_drop, Bech32.toLower_length]; omega
      have e2 : Go.slice data 0 (Go.len data - 6) = .ok (data.take (data.length - 6)) := by
        have e : Go.len data - 6 = Int.ofNat (data.length - 6) := by
          simp only [Go.len, Int.ofNat_eq_natCast]; omega
        rw [e]
        exact slice_ofNat data 0 (data.length - 6) (by omega) (by omega)
      rw [e2]
      simp only []
      rw [convertBits_tie_5_8]
      cases hc : Bech32.convertBits (data.take (data.length - 6)) 5 8 false with
      | ok bytes => rfl
      | error e =>
        rcases Bech32.convertBits_5_8_err _ e hc with rfl | rfl | rfl <;> rfl

theorem lenTest (s : Bytes) : (decide (Go.len s < 1) = true) ↔ s.length < 1 := by
  rw [decide_eq_true_iff]
  simp only [Go.len, Int.ofNat_eq_natCast]
  omega

theorem encode_tie (hrp data : Bytes) :
    bech32_Encode hrp data = .ok (match Bech32.encode hrp data with
      | .ok s => (s, none)
      | .error e => ([], encErr e)) := by
  unfold bech32_Encode
  simp only [bind, Except.bind, pure, Except.pure]
  obtain ⟨d5, k, h1, _, h3, _⟩ := Bech32.convertBits_8_5 data
  rw [convertBits_tie_8_5, h1]
  unfold Bech32.encode
  rw [h1]
  simp only [cbRes]
  rw [if_neg (by decide)]
  by_cases hl : hrp.length < 1
  · rw [if_pos hl, if_pos ((lenTest hrp).mpr hl)]; rfl
  rw [if_neg hl, if_neg (fun h => hl ((lenTest hrp).mp h))]
  rw [Encode_loop1_eq, runes_any_bad']
  by_cases hb : Bech32.hasBadByte hrp = true
  · simp only [hb, if_true]; rfl
  have hb' : Bech32.hasBadByte hrp = false := by simpa using hb
  have ha := isAscii_of_noBad hrp hb'
  simp only [hb', Bool.false_eq_true, if_false]
  rw [toLower_ascii hrp ha, toUpper_ascii hrp ha]
  by_cases hm : Bech32.toUpper hrp ≠ hrp ∧ Bech32.toLower hrp ≠ hrp
  · rw [if_pos hm, if_pos (by simpa using hm)]; rfl
  rw [if_neg hm, if_neg (by simpa using hm)]
  obtain ⟨cs1, a1, _, a3, _, _⟩ := Bech32.chars_of_syms d5 h3
  obtain ⟨cs2, b1, _, b3, _, _⟩ := Bech32.chars_of_syms _ (Bech32.createChecksum_lt (Bech32.toLower hrp) d5)
  have hbl : Bech32.hasBadByte (Bech32.toLower hrp) = false := by
    rw [Bech32.hasBadByte_toLower]; exact hb'
  rw [Encode_loop2_eq, a1]
  simp only []
  rw [createChecksum_tie _ _ (isAscii_of_noBad _ hbl)]
  simp only []
  rw [Encode_loop3_eq, b1]
  simp only []
  rw [Bech32.mapOpt_append _ _ _ _ _ a1 b1]
  simp only [List.nil_append, List.append_assoc]
  by_cases hlo : (Bech32.toLower hrp == hrp) = true
  · rw [if_pos hlo, if_pos hlo]
  · rw [if_neg hlo, if_neg hlo]
    rw [toUpper_ascii]
    apply isAscii_of_noBad
    simp only [Bech32.hasBadByte_append, hbl, a3, b3, Bool.or_false]
    rfl

theorem encode_fst (hrp data : Bytes) :
    (match Bech32.encode hrp data with
      | .ok s => (s, (none : Option Go.Err))
      | .error e => ([], encErr e)).1 = Keys.encodeOrEmpty hrp data := by
  unfold Keys.encodeOrEmpty
  cases Bech32.encode hrp data <;> rfl

theorem decErr_ne_none (e : Bech32.Err) : (decErr e != none) = true := by
  cases e <;> rfl

end GoTie
end AgeModel
