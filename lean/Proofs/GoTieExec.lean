/-
  Proofs.GoTieExec — which program the plugin client starts, as it stands in the source.

  The first part of `openClientConnection` (plugin/client.go) — the formation of the program name,
  the path-separator test and the `exec.Command` call — is TRANSLATED on every run (`funcSpec.stopAt`:
  the pipes, the environment and `cmd.Start` are outside the fragment). `testOnlyPluginPath` is
  declared without a value and assigned only in test files: it is "". `exec.Command`
  (`golang.org/x/sys/execabs`) is a parameter. `exec_tie`: for a name containing '/', no command is
  built at all (the constructor may fault when called); otherwise THE command is
  `age-plugin-NAME --age-plugin=PROTOCOL` — the model's `openClientCommand` / `execPath`.
-/
import AgeModel.GoSem
import AgeModel.Keys
import AgeModel.Extracted.Funcs
import Proofs.GoTiePlugName
namespace AgeModel
namespace GoTie
open Extracted Keys

theorem exec_tie {κ χ : Type} (J : List Bytes → Go.M Bytes) (nilχ : χ) (Cmd : Bytes → List Bytes → Go.M χ)
    (SP : χ → Go.M (κ × Option Go.Err)) (name proto : Bytes) :
    plugin_openClientConnection J nilχ Cmd SP name proto =
      match openClientCommand ⟨name, []⟩ with
      | .error _ => .ok (nilχ, some ⟨"plugin.openClientConnection", 0, []⟩)
      | .ok path => (do
          let cmd ← Cmd path [([45, 45, 97, 103, 101, 45, 112, 108, 117, 103, 105, 110, 61] : Bytes) ++ proto]
          let t ← SP cmd
          pure (cmd, t.2)) := by
  have hc : Go.strings_ContainsRune name (47 : Int) = name.contains (0x2f : UInt8) :=
    containsRune_ascii name 0x2f (by decide)
  unfold plugin_openClientConnection openClientCommand execPath pfxExec
  have ht : (plugin_testOnlyPluginPath != ([] : List UInt8)) = false := rfl
  simp only [ht, hc, bind, Except.bind, pure, Except.pure, Bool.false_eq_true, if_false]
  cases name.contains (0x2f : UInt8) with
  | true => rfl
  | false =>
    simp only [Bool.false_eq_true, if_false]
    first
      | done
      | (cases Cmd _ _ with
         | error e => rfl
         | ok cmd => cases SP cmd <;> rfl)

/-- a name with a path separator starts nothing -/
theorem exec_refuses_separator {κ χ : Type} (J : List Bytes → Go.M Bytes) (nilχ : χ)
    (SP : χ → Go.M (κ × Option Go.Err)) (name proto : Bytes) (h : name.contains (0x2f : UInt8) = true) :
    plugin_openClientConnection J nilχ (fun _ _ => .error (.panic 99)) SP name proto =
      .ok (nilχ, some ⟨"plugin.openClientConnection", 0, []⟩) := by
  rw [exec_tie]
  unfold openClientCommand
  simp only [h, if_true]

end GoTie
end AgeModel
