/-
  Proofs.GoTiePluginR — see Proofs.GoTiePluginBase.
-/
import Proofs.GoTiePluginBase
namespace AgeModel
namespace GoTie
open Extracted Plugin

/-! helper lemmas live in their own namespace (the identity-side file has its own) -/
namespace PluginR

variable {S σ υ χ : Type}

theorem lit_rs : ([114, 101, 99, 105, 112, 105, 101, 110, 116, 45, 115, 116, 97, 110, 122, 97] : List UInt8) = bs "recipient-stanza" := by decide +kernel
theorem lit_labels : ([108, 97, 98, 101, 108, 115] : List UInt8) = bs "labels" := by decide +kernel
theorem lit_error : ([101, 114, 114, 111, 114] : List UInt8) = bs "error" := by decide +kernel
theorem lit_done : ([100, 111, 110, 101] : List UInt8) = bs "done" := by decide +kernel
theorem lit_ok : ([111, 107] : List UInt8) = bs "ok" := by decide +kernel
theorem lit_unsupported : ([117, 110, 115, 117, 112, 112, 111, 114, 116, 101, 100] : List UInt8) = bs "unsupported" := by decide +kernel
theorem lit_addr : ([97, 100, 100, 45, 114, 101, 99, 105, 112, 105, 101, 110, 116] : List UInt8) = bs "add-recipient" := by decide +kernel
theorem lit_addi : ([97, 100, 100, 45, 105, 100, 101, 110, 116, 105, 116, 121] : List UInt8) = bs "add-identity" := by decide +kernel
theorem lit_wfk : ([119, 114, 97, 112, 45, 102, 105, 108, 101, 45, 107, 101, 121] : List UInt8) = bs "wrap-file-key" := by decide +kernel
theorem lit_ext : ([101, 120, 116, 101, 110, 115, 105, 111, 110, 45, 108, 97, 98, 101, 108, 115] : List UInt8) = bs "extension-labels" := by decide +kernel

theorem bs_beq_true {a b : String} (h : a = b) : (bs a == bs b) = true := by
  subst h; simp
theorem bs_beq_false {a b : String} (h : a ≠ b) : (bs a == bs b) = false := by
  have : bs a ≠ bs b := fun h' => h (bs_inj.mp h')
  simp [this]

theorem len_eq {α} (l : List α) : Go.len l = (l.length : Int) := rfl
theorem len_lt2 {α} (l : List α) (h : l.length < 2) : decide (Go.len l < 2) = true := by
  rw [len_eq]; apply decide_eq_true; omega
theorem len_nlt2 {α} (a b : α) (l : List α) : decide (Go.len (a :: b :: l) < 2) = false := by
  rw [len_eq]; apply decide_eq_false; simp only [List.length_cons]; omega
theorem idx0 {α} (a : α) (l : List α) : Go.idx (a :: l) 0 = .ok a := rfl
theorem idx1 {α} (a b : α) (l : List α) : Go.idx (a :: b :: l) 1 = .ok b := rfl
theorem slice2 {α} (a b : α) (l : List α) : Go.slice (a :: b :: l) 2 (Go.len (a :: b :: l)) = .ok l := by
  have h : (0:Int) ≤ 2 ∧ (2:Int) ≤ Go.len (a :: b :: l) ∧ Go.len (a :: b :: l) ≤ Int.ofNat (a :: b :: l).length := by
    simp only [len_eq, Int.ofNat_eq_natCast, List.length_cons]; omega
  have h2 : (Go.len (a :: b :: l)).toNat = (a :: b :: l).length := by
    simp only [len_eq, Int.toNat_natCast]
  simp only [Go.slice, h, and_self, if_true, h2, List.take_length]
  rfl

abbrev rLoop (E : PluginEnv S σ υ χ) (enc : Bytes) (idm : Bool) :=
  plugin_Recipient_WrapWithLabels_loop1 E.W E.Close E.Rd E.Hd ⟨E.name, enc, E.u, idm⟩

abbrev rSite (k : Nat) : Go.Err := ⟨"plugin.(*Recipient).WrapWithLabels", k, []⟩

section steps
variable (E : PluginEnv S σ υ χ) (enc : Bytes) (idm : Bool) (fuel : Nat) (stanzas : List age_Stanza)
  (labels : Option (List Bytes)) (err : Option Go.Err) (conn : χ) (sr sr' : σ) (m : Plugin.Stanza) (e : Option Go.Err)

theorem step_end (out) (g)
    (hRd : E.Rd E.u E.name sr = .ok out) (hg : out.2.1 = some g) (hC : E.Close conn = .ok e) :
    rLoop E enc idm (fuel+1) stanzas labels err conn sr = .ok (.ret ([], none, some g, some conn)) := by
  simp only [rLoop, plugin_Recipient_WrapWithLabels_loop1, hRd, bind, Except.bind, hg, hC, pure, Except.pure]
  simp

theorem step_rs_short
    (hRd : E.Rd E.u E.name sr = .ok (goFS m, none, sr'))
    (h1 : (bs m.type == bs "recipient-stanza") = true) (hlen : m.args.length < 2)
    (hC : E.Close conn = .ok e) :
    rLoop E enc idm (fuel+1) stanzas labels err conn sr = .ok (.ret ([], none, some (rSite 1), some conn)) := by
  have hl : decide (Go.len (m.args.map bs) < 2) = true := len_lt2 _ (by simpa using hlen)
  simp only [rLoop, plugin_Recipient_WrapWithLabels_loop1, hRd, bind, Except.bind, hC, pure, Except.pure, goFS,
    lit_rs, h1, hl]
  simp

theorem step_rs_badidx (i t : String) (as : List String)
    (hRd : E.Rd E.u E.name sr = .ok (goFS m, none, sr'))
    (h1 : (bs m.type == bs "recipient-stanza") = true) (hargs : m.args = i :: t :: as)
    (hi : (Go.strconv_Atoi (bs i)).2 ≠ none)
    (hC : E.Close conn = .ok e) :
    rLoop E enc idm (fuel+1) stanzas labels err conn sr = .ok (.ret ([], none, some (rSite 2), some conn)) := by
  have hi' : ((Go.strconv_Atoi (bs i)).2 != none) = true := by simpa using hi
  simp only [rLoop, plugin_Recipient_WrapWithLabels_loop1, hRd, bind, Except.bind, hC, pure, Except.pure, goFS,
    lit_rs, h1, hargs, List.map_cons, len_nlt2, idx0, hi']
  simp

theorem step_rs_nonzero (i t : String) (as : List String) (n : Int)
    (hRd : E.Rd E.u E.name sr = .ok (goFS m, none, sr'))
    (h1 : (bs m.type == bs "recipient-stanza") = true) (hargs : m.args = i :: t :: as)
    (hi : Go.strconv_Atoi (bs i) = (n, none)) (hn : n ≠ 0)
    (hC : E.Close conn = .ok e) :
    rLoop E enc idm (fuel+1) stanzas labels err conn sr = .ok (.ret ([], none, some (rSite 3), some conn)) := by
  have hn' : (n != 0) = true := by simpa using hn
  simp only [rLoop, plugin_Recipient_WrapWithLabels_loop1, hRd, bind, Except.bind, hC, pure, Except.pure, goFS,
    lit_rs, h1, hargs, List.map_cons, len_nlt2, idx0, hi, hn']
  simp

theorem step_rs_ok (i t : String) (as : List String) (c' : χ)
    (hRd : E.Rd E.u E.name sr = .ok (goFS m, none, sr'))
    (h1 : (bs m.type == bs "recipient-stanza") = true) (hargs : m.args = i :: t :: as)
    (hi : Go.strconv_Atoi (bs i) = (0, none))
    (hW : E.W conn (bs "ok") [] = .ok (none, c')) :
    rLoop E enc idm (fuel+1) stanzas labels err conn sr =
      rLoop E enc idm fuel (stanzas ++ [goAS ⟨t, as, m.body⟩]) labels err c' sr' := by
  simp only [rLoop, plugin_Recipient_WrapWithLabels_loop1, hRd, bind, Except.bind, pure, Except.pure, goFS,
    lit_rs, lit_ok, h1, hargs, List.map_cons, len_nlt2, idx0, idx1, slice2, hi, hW, goAS]
  simp

theorem step_labels_rep (l : List Bytes)
    (hRd : E.Rd E.u E.name sr = .ok (goFS m, none, sr'))
    (h1 : (bs m.type == bs "recipient-stanza") = false) (h2 : (bs m.type == bs "labels") = true)
    (hC : E.Close conn = .ok e) :
    rLoop E enc idm (fuel+1) stanzas (some l) err conn sr = .ok (.ret ([], none, some (rSite 4), some conn)) := by
  simp only [rLoop, plugin_Recipient_WrapWithLabels_loop1, hRd, bind, Except.bind, hC, pure, Except.pure, goFS,
    lit_rs, lit_labels, h1, h2]
  simp

theorem step_labels_ok (c' : χ)
    (hRd : E.Rd E.u E.name sr = .ok (goFS m, none, sr'))
    (h1 : (bs m.type == bs "recipient-stanza") = false) (h2 : (bs m.type == bs "labels") = true)
    (hW : E.W conn (bs "ok") [] = .ok (none, c')) :
    rLoop E enc idm (fuel+1) stanzas none err conn sr =
      rLoop E enc idm fuel stanzas (some (m.args.map bs)) err c' sr' := by
  simp only [rLoop, plugin_Recipient_WrapWithLabels_loop1, hRd, bind, Except.bind, pure, Except.pure, goFS,
    lit_rs, lit_labels, lit_ok, h1, h2, hW]
  simp

theorem step_error (c' : χ)
    (hRd : E.Rd E.u E.name sr = .ok (goFS m, none, sr'))
    (h1 : (bs m.type == bs "recipient-stanza") = false) (h2 : (bs m.type == bs "labels") = false)
    (h3 : (bs m.type == bs "error") = true)
    (hW : E.W conn (bs "ok") [] = .ok (none, c')) (hC : E.Close c' = .ok e) :
    rLoop E enc idm (fuel+1) stanzas labels err conn sr = .ok (.ret ([], none, some (rSite 5), some c')) := by
  simp only [rLoop, plugin_Recipient_WrapWithLabels_loop1, hRd, bind, Except.bind, pure, Except.pure, goFS,
    lit_rs, lit_labels, lit_error, lit_ok, h1, h2, h3, hW, hC]
  simp

theorem step_done
    (hRd : E.Rd E.u E.name sr = .ok (goFS m, none, sr'))
    (h1 : (bs m.type == bs "recipient-stanza") = false) (h2 : (bs m.type == bs "labels") = false)
    (h3 : (bs m.type == bs "error") = false) (h4 : (bs m.type == bs "done") = true) :
    rLoop E enc idm (fuel+1) stanzas labels err conn sr = .ok (.next (stanzas, labels, err, conn, sr')) := by
  simp only [rLoop, plugin_Recipient_WrapWithLabels_loop1, hRd, bind, Except.bind, pure, Except.pure, goFS,
    lit_rs, lit_labels, lit_error, lit_done, h1, h2, h3, h4]
  simp

theorem step_hd_fatal (out) (g)
    (hRd : E.Rd E.u E.name sr = .ok (goFS m, none, sr'))
    (h1 : (bs m.type == bs "recipient-stanza") = false) (h2 : (bs m.type == bs "labels") = false)
    (h3 : (bs m.type == bs "error") = false) (h4 : (bs m.type == bs "done") = false)
    (hH : E.Hd E.u E.name conn (goFS m) = .ok out) (hg : out.2.1 = some g) (hC : E.Close out.2.2 = .ok e) :
    rLoop E enc idm (fuel+1) stanzas labels err conn sr = .ok (.ret ([], none, some g, some out.2.2)) := by
  have hH' : E.Hd E.u E.name conn ⟨bs m.type, m.args.map bs, m.body⟩ = .ok out := hH
  simp only [rLoop, plugin_Recipient_WrapWithLabels_loop1, hRd, bind, Except.bind, pure, Except.pure, goFS,
    lit_rs, lit_labels, lit_error, lit_done, h1, h2, h3, h4, hH', hg, hC]
  simp

theorem step_hd_reply (out)
    (hRd : E.Rd E.u E.name sr = .ok (goFS m, none, sr'))
    (h1 : (bs m.type == bs "recipient-stanza") = false) (h2 : (bs m.type == bs "labels") = false)
    (h3 : (bs m.type == bs "error") = false) (h4 : (bs m.type == bs "done") = false)
    (hH : E.Hd E.u E.name conn (goFS m) = .ok out) (hg : out.2.1 = none) (ho : out.1 = true) :
    rLoop E enc idm (fuel+1) stanzas labels err conn sr = rLoop E enc idm fuel stanzas labels err out.2.2 sr' := by
  have hH' : E.Hd E.u E.name conn ⟨bs m.type, m.args.map bs, m.body⟩ = .ok out := hH
  simp only [rLoop, plugin_Recipient_WrapWithLabels_loop1, hRd, bind, Except.bind, pure, Except.pure, goFS,
    lit_rs, lit_labels, lit_error, lit_done, h1, h2, h3, h4, hH', hg, ho]
  simp

theorem step_hd_unknown (out) (c' : χ)
    (hRd : E.Rd E.u E.name sr = .ok (goFS m, none, sr'))
    (h1 : (bs m.type == bs "recipient-stanza") = false) (h2 : (bs m.type == bs "labels") = false)
    (h3 : (bs m.type == bs "error") = false) (h4 : (bs m.type == bs "done") = false)
    (hH : E.Hd E.u E.name conn (goFS m) = .ok out) (hg : out.2.1 = none) (ho : out.1 = false)
    (hW : E.W out.2.2 (bs "unsupported") [] = .ok (none, c')) :
    rLoop E enc idm (fuel+1) stanzas labels err conn sr = rLoop E enc idm fuel stanzas labels err c' sr' := by
  have hH' : E.Hd E.u E.name conn ⟨bs m.type, m.args.map bs, m.body⟩ = .ok out := hH
  simp only [rLoop, plugin_Recipient_WrapWithLabels_loop1, hRd, bind, Except.bind, pure, Except.pure, goFS,
    lit_rs, lit_labels, lit_error, lit_done, lit_unsupported, h1, h2, h3, h4, hH', hg, ho, hW]
  simp

end steps

/-! ## the model's loop -/

theorem run_next {S α : Type} (step : S → Plugin.Stanza → Step S α) (s s' : S) (m r) (rest : List Plugin.Stanza) (e : End)
    (h : step s m = .next s' r) :
    run step s (m :: rest) e = ⟨(run step s' rest e).state, r :: (run step s' rest e).replies, (run step s' rest e).result⟩ := by
  simp only [run, h]

theorem run_halt {S α : Type} (step : S → Plugin.Stanza → Step S α) (s : S) (m rs res) (rest : List Plugin.Stanza) (e : End)
    (h : step s m = .halt rs res) :
    run step s (m :: rest) e = ⟨s, rs, res⟩ := by
  simp only [run, h]

/-- what the Go loop returns, against the model's trace `t` started in connection state `c0` -/
def RPost (E : PluginEnv S σ υ χ) (c0 : χ) (err0 : Option Go.Err) (t : Trace (RState S) RResult)
    (out : Go.M (Go.Loop ((List age_Stanza) × (Option (List Bytes)) × (Option Go.Err) × χ × σ)
      ((List age_Stanza) × (Option (List Bytes)) × (Option Go.Err) × (Option χ)))) : Prop :=
  ∃ c', E.absC c' = E.absC c0 ++ t.replies ∧ E.uiOf c' = t.state.ui ∧
    ((∃ sr', out = .ok (.next (t.state.stanzas.map goAS, t.state.labels.map (·.map bs), err0, c', sr')) ∧
        t.result = (if t.state.stanzas = [] then .error .noStanzas else .ok (t.state.stanzas, t.state.labels))) ∨
     (∃ e g, out = .ok (.ret ([], none, g, some c')) ∧ t.result = .error e ∧ rErrRel E e g))

theorem RPost_cons (E : PluginEnv S σ υ χ) (c0 c1 : χ) (err0) (t : Trace (RState S) RResult) (r out)
    (h1 : E.absC c1 = E.absC c0 ++ [r]) (h : RPost E c1 err0 t out) :
    RPost E c0 err0 ⟨t.state, r :: t.replies, t.result⟩ out := by
  obtain ⟨c', ha, hu, h⟩ := h
  refine ⟨c', ?_, hu, h⟩
  rw [ha, h1, List.append_assoc]; rfl

theorem RPost_halt_err (E : PluginEnv S σ υ χ) (c0 c' : χ) (err0) (s : RState S) (rs e g)
    (ha : E.absC c' = E.absC c0 ++ rs) (hu : E.uiOf c' = s.ui) (hr : rErrRel E e g) :
    RPost E c0 err0 ⟨s, rs, .error e⟩ (.ok (.ret ([], none, g, some c'))) :=
  ⟨c', ha, hu, Or.inr ⟨e, g, rfl, rfl, hr⟩⟩

theorem rel_site (E : PluginEnv S σ υ χ) (k : Nat) (hk : k ∈ [1, 2, 3, 4]) :
    rErrRel E .protocol (some (rSite k)) := Or.inr ⟨k, hk, rfl⟩

/-- the loop lemma for one script -/
def LoopOK (E : PluginEnv S σ υ χ) (enc : Bytes) (idm : Bool) (fin : End) (msgs : List Plugin.Stanza) : Prop :=
  ∀ (fuel : Nat) (s : RState S) (conn : χ) (sr : σ) (err : Option Go.Err),
    msgs.length < fuel → E.absS sr = (msgs, fin) → E.uiOf conn = s.ui →
    RPost E conn err (run (recipientStep E.ui E.dec) s msgs fin)
      (rLoop E enc idm fuel (s.stanzas.map goAS) (s.labels.map (·.map bs)) err conn sr)

section cases
variable (E : PluginEnv S σ υ χ) (enc : Bytes) (idm : Bool) (fin : End) (m : Plugin.Stanza) (rest : List Plugin.Stanza)
  (IH : LoopOK E enc idm fin rest) (fuel : Nat) (s : RState S) (conn : χ) (sr sr' : σ) (err : Option Go.Err)
  (hf : rest.length < fuel) (hRd : E.Rd E.u E.name sr = .ok (goFS m, none, sr')) (hS : E.absS sr' = (rest, fin))
  (hU : E.uiOf conn = s.ui)
include IH hf hRd hS hU

theorem case_rs (t1 : m.type = "recipient-stanza") :
    RPost E conn err (run (recipientStep E.ui E.dec) s (m :: rest) fin)
      (rLoop E enc idm (fuel+1) (s.stanzas.map goAS) (s.labels.map (·.map bs)) err conn sr) := by
  have h1 := bs_beq_true t1
  obtain ⟨e, hC⟩ := E.hClose conn
  rcases hargs : m.args with _ | ⟨i, _ | ⟨t, as⟩⟩
  · have hstep : recipientStep E.ui E.dec s m = .halt [] (.error .protocol) := by
      simp [recipientStep, t1, hargs]
    rw [run_halt _ _ _ _ _ _ _ hstep,
      step_rs_short E enc idm fuel _ _ err conn sr sr' m e hRd h1 (by simp [hargs]) hC]
    exact RPost_halt_err E conn conn err s [] _ _ (by simp) hU (rel_site E 1 (by simp))
  · have hstep : recipientStep E.ui E.dec s m = .halt [] (.error .protocol) := by
      simp [recipientStep, t1, hargs]
    rw [run_halt _ _ _ _ _ _ _ hstep,
      step_rs_short E enc idm fuel _ _ err conn sr sr' m e hRd h1 (by simp [hargs]) hC]
    exact RPost_halt_err E conn conn err s [] _ _ (by simp) hU (rel_site E 1 (by simp))
  · cases hat : atoi i with
    | none =>
      have hstep : recipientStep E.ui E.dec s m = .halt [] (.error .protocol) := by
        simp [recipientStep, t1, hargs, hat]
      rw [run_halt _ _ _ _ _ _ _ hstep,
        step_rs_badidx E enc idm fuel _ _ err conn sr sr' m e i t as hRd h1 hargs (atoi_none i hat) hC]
      exact RPost_halt_err E conn conn err s [] _ _ (by simp) hU (rel_site E 2 (by simp))
    | some n =>
      have hi := atoi_some i n hat
      by_cases hn : n = 0
      · subst hn
        obtain ⟨c', hW, ha, hu⟩ := E.hW conn "ok" []
        have hstep : recipientStep E.ui E.dec s m =
            .next { s with stanzas := s.stanzas ++ [⟨t, as, m.body⟩] } okS := by
          simp [recipientStep, t1, hargs, hat]
        rw [run_next _ _ _ _ _ _ _ hstep,
          step_rs_ok E enc idm fuel _ _ err conn sr sr' m i t as c' hRd h1 hargs hi hW]
        have := IH fuel { s with stanzas := s.stanzas ++ [⟨t, as, m.body⟩] } c' sr' err hf hS (hu.trans hU)
        simp only [List.map_append, List.map_cons, List.map_nil] at this
        exact RPost_cons E conn c' err _ okS _ ha this
      · have hstep : recipientStep E.ui E.dec s m = .halt [] (.error .protocol) := by
          simp [recipientStep, t1, hargs, hat, hn]
        rw [run_halt _ _ _ _ _ _ _ hstep,
          step_rs_nonzero E enc idm fuel _ _ err conn sr sr' m e i t as n hRd h1 hargs hi hn hC]
        exact RPost_halt_err E conn conn err s [] _ _ (by simp) hU (rel_site E 3 (by simp))

theorem case_labels (t1 : m.type ≠ "recipient-stanza") (t2 : m.type = "labels") :
    RPost E conn err (run (recipientStep E.ui E.dec) s (m :: rest) fin)
      (rLoop E enc idm (fuel+1) (s.stanzas.map goAS) (s.labels.map (·.map bs)) err conn sr) := by
  have h1 := bs_beq_false t1
  have h2 := bs_beq_true t2
  cases hl : s.labels with
  | some l =>
    obtain ⟨e, hC⟩ := E.hClose conn
    have hstep : recipientStep E.ui E.dec s m = .halt [] (.error .protocol) := by
      simp [recipientStep, t2, hl]
    rw [run_halt _ _ _ _ _ _ _ hstep]
    simp only [Option.map_some]
    rw [step_labels_rep E enc idm fuel _ err conn sr sr' m e _ hRd h1 h2 hC]
    exact RPost_halt_err E conn conn err s [] _ _ (by simp) hU (rel_site E 4 (by simp))
  | none =>
    obtain ⟨c', hW, ha, hu⟩ := E.hW conn "ok" []
    have hstep : recipientStep E.ui E.dec s m = .next { s with labels := some m.args } okS := by
      simp [recipientStep, t2, hl]
    rw [run_next _ _ _ _ _ _ _ hstep]
    simp only [Option.map_none]
    rw [step_labels_ok E enc idm fuel _ err conn sr sr' m c' hRd h1 h2 hW]
    have := IH fuel { s with labels := some m.args } c' sr' err hf hS (hu.trans hU)
    simp only [Option.map_some] at this
    exact RPost_cons E conn c' err _ okS _ ha this

omit IH hf hS in
theorem case_error (t1 : m.type ≠ "recipient-stanza") (t2 : m.type ≠ "labels") (t3 : m.type = "error") :
    RPost E conn err (run (recipientStep E.ui E.dec) s (m :: rest) fin)
      (rLoop E enc idm (fuel+1) (s.stanzas.map goAS) (s.labels.map (·.map bs)) err conn sr) := by
  have h1 := bs_beq_false t1
  have h2 := bs_beq_false t2
  have h3 := bs_beq_true t3
  obtain ⟨c', hW, ha, hu⟩ := E.hW conn "ok" []
  obtain ⟨e, hC⟩ := E.hClose c'
  have hstep : recipientStep E.ui E.dec s m = .halt [okS] (.error (.pluginError m.body)) := by
    simp [recipientStep, t3]
  rw [run_halt _ _ _ _ _ _ _ hstep,
    step_error E enc idm fuel _ _ err conn sr sr' m e c' hRd h1 h2 h3 hW hC]
  exact RPost_halt_err E conn c' err s [okS] _ _ ha (hu.trans hU) rfl

omit IH hf hS in
theorem case_done (t1 : m.type ≠ "recipient-stanza") (t2 : m.type ≠ "labels") (t3 : m.type ≠ "error")
    (t4 : m.type = "done") :
    RPost E conn err (run (recipientStep E.ui E.dec) s (m :: rest) fin)
      (rLoop E enc idm (fuel+1) (s.stanzas.map goAS) (s.labels.map (·.map bs)) err conn sr) := by
  have h1 := bs_beq_false t1
  have h2 := bs_beq_false t2
  have h3 := bs_beq_false t3
  have h4 := bs_beq_true t4
  have hstep : recipientStep E.ui E.dec s m =
      .halt [] (if s.stanzas = [] then .error .noStanzas else .ok (s.stanzas, s.labels)) := by
    simp [recipientStep, t4]
  rw [run_halt _ _ _ _ _ _ _ hstep,
    step_done E enc idm fuel _ _ err conn sr sr' m hRd h1 h2 h3 h4]
  exact ⟨conn, by simp, hU, Or.inl ⟨sr', rfl, rfl⟩⟩

theorem case_default (t1 : m.type ≠ "recipient-stanza") (t2 : m.type ≠ "labels") (t3 : m.type ≠ "error")
    (t4 : m.type ≠ "done") :
    RPost E conn err (run (recipientStep E.ui E.dec) s (m :: rest) fin)
      (rLoop E enc idm (fuel+1) (s.stanzas.map goAS) (s.labels.map (·.map bs)) err conn sr) := by
  have h1 := bs_beq_false t1
  have h2 := bs_beq_false t2
  have h3 := bs_beq_false t3
  have h4 := bs_beq_false t4
  obtain ⟨out, hH, hm⟩ := E.hHd conn m
  rw [hU] at hm
  cases hh : E.ui.handle E.dec s.ui m with
  | reply st r =>
    rw [hh] at hm
    obtain ⟨ho, hg, ha, hu⟩ := hm
    have hstep : recipientStep E.ui E.dec s m = .next { s with ui := st } r := by
      simp [recipientStep, t1, t2, t3, t4, hh]
    rw [run_next _ _ _ _ _ _ _ hstep,
      step_hd_reply E enc idm fuel _ _ err conn sr sr' m out hRd h1 h2 h3 h4 hH hg ho]
    have := IH fuel { s with ui := st } out.2.2 sr' err hf hS hu
    exact RPost_cons E conn out.2.2 err _ r _ ha this
  | fatal =>
    rw [hh] at hm
    obtain ⟨ho, hg, ha, hu⟩ := hm
    obtain ⟨e, hC⟩ := E.hClose out.2.2
    have hstep : recipientStep E.ui E.dec s m = .halt [] (.error .protocol) := by
      simp [recipientStep, t1, t2, t3, t4, hh]
    rw [run_halt _ _ _ _ _ _ _ hstep,
      step_hd_fatal E enc idm fuel _ _ err conn sr sr' m e out E.eH hRd h1 h2 h3 h4 hH hg hC]
    exact RPost_halt_err E conn out.2.2 err s [] _ _ (by simp [ha]) hu (Or.inl rfl)
  | unknown =>
    rw [hh] at hm
    obtain ⟨ho, hg, ha, hu⟩ := hm
    obtain ⟨c', hW, ha', hu'⟩ := E.hW out.2.2 "unsupported" []
    have hstep : recipientStep E.ui E.dec s m = .next s unsupportedS := by
      simp [recipientStep, t1, t2, t3, t4, hh]
    rw [run_next _ _ _ _ _ _ _ hstep,
      step_hd_unknown E enc idm fuel _ _ err conn sr sr' m out c' hRd h1 h2 h3 h4 hH hg ho hW]
    have := IH fuel s c' sr' err hf hS (hu'.trans hu)
    exact RPost_cons E conn c' err _ unsupportedS _ (by rw [ha', ha]; rfl) this

end cases

theorem loop_spec (E : PluginEnv S σ υ χ) (enc : Bytes) (idm : Bool) (fin : End) (msgs : List Plugin.Stanza) :
    LoopOK E enc idm fin msgs := by
  induction msgs with
  | nil =>
    intro fuel s conn sr err hf hS hU
    obtain ⟨fuel, rfl⟩ : ∃ k, fuel = k + 1 := ⟨fuel - 1, by omega⟩
    obtain ⟨out, hRd, hm⟩ := E.hRd sr
    rw [hS] at hm
    obtain ⟨e, hC⟩ := E.hClose conn
    rw [step_end E enc idm fuel _ _ err conn sr e out (E.eEnd fin) hRd hm hC]
    exact RPost_halt_err E conn conn err s [] _ _ (by simp) hU rfl
  | cons m rest ih =>
    intro fuel s conn sr err hf hS hU
    obtain ⟨fuel, rfl⟩ : ∃ k, fuel = k + 1 := ⟨fuel - 1, by omega⟩
    have hf' : rest.length < fuel := by simp only [List.length_cons] at hf; omega
    obtain ⟨out, hRd, hm⟩ := E.hRd sr
    rw [hS] at hm
    obtain ⟨o1, o2, sr'⟩ := out
    obtain ⟨h1, h2, hS'⟩ := hm
    simp only at h1 h2 hS'
    subst h1 h2
    by_cases t1 : m.type = "recipient-stanza"
    · exact case_rs E enc idm fin m rest ih fuel s conn sr sr' err hf' hRd hS' hU t1
    by_cases t2 : m.type = "labels"
    · exact case_labels E enc idm fin m rest ih fuel s conn sr sr' err hf' hRd hS' hU t1 t2
    by_cases t3 : m.type = "error"
    · exact case_error E enc idm fin m rest fuel s conn sr sr' err hRd hU t1 t2 t3
    by_cases t4 : m.type = "done"
    · exact case_done E enc idm fin m rest fuel s conn sr sr' err hRd hU t1 t2 t3 t4
    · exact case_default E enc idm fin m rest ih fuel s conn sr sr' err hf' hRd hS' hU t1 t2 t3 t4

/-! ## the whole function -/

section whole
variable (E : PluginEnv S σ υ χ) (identityMode : Bool) (encoding grease : String) (fileKey : Bytes)
  (c1 c2 c3 c4 c5 : χ) (sr : σ)
  (hW1 : E.W E.c0 (bs (if identityMode then "add-identity" else "add-recipient")) [bs encoding] = .ok (none, c1))
  (hW2 : E.W c1 (bs grease) [] = .ok (none, c2))
  (hW3 : E.WB c2 (bs "wrap-file-key") fileKey = .ok (none, c3))
  (hW4 : E.W c3 (bs "extension-labels") [] = .ok (none, c4))
  (hW5 : E.W c4 (bs "done") [] = .ok (none, c5))
  (hN : E.New c5 = .ok sr)
include hW1 hW2 hW3 hW4 hW5 hN

theorem whole_ret (v)
    (hout : rLoop E (bs encoding) identityMode (E.rem sr + 1) [] none none c5 sr = .ok (.ret v)) :
    plugin_Recipient_WrapWithLabels E.Open E.W E.Close (bs grease) E.WB E.New E.Rd E.Hd E.rem
      ⟨E.name, bs encoding, E.u, identityMode⟩ fileKey = .ok v := by
  cases identityMode <;>
  · simp only [Bool.false_eq_true, if_false, if_true] at hW1
    simp only [rLoop] at hout
    simp only [plugin_Recipient_WrapWithLabels, bind, Except.bind, pure, Except.pure, E.hOpen,
      lit_addr, lit_addi, lit_wfk, lit_ext, lit_done, bne_self_eq_false, Bool.false_eq_true, if_false, if_true,
      hW1, hW2, hW3, hW4, hW5, hN, hout]

theorem whole_next_nil (labels err conn' sr' e) (hC : E.Close conn' = .ok e)
    (hout : rLoop E (bs encoding) identityMode (E.rem sr + 1) [] none none c5 sr =
      .ok (.next ([], labels, err, conn', sr'))) :
    plugin_Recipient_WrapWithLabels E.Open E.W E.Close (bs grease) E.WB E.New E.Rd E.Hd E.rem
      ⟨E.name, bs encoding, E.u, identityMode⟩ fileKey = .ok ([], none, some (rSite 6), some conn') := by
  have hz : (Go.len ([] : List age_Stanza) == 0) = true := rfl
  cases identityMode <;>
  · simp only [Bool.false_eq_true, if_false, if_true] at hW1
    simp only [rLoop] at hout
    simp only [plugin_Recipient_WrapWithLabels, bind, Except.bind, pure, Except.pure, E.hOpen,
      lit_addr, lit_addi, lit_wfk, lit_ext, lit_done, bne_self_eq_false, Bool.false_eq_true, if_false, if_true,
      hW1, hW2, hW3, hW4, hW5, hN, hout, hz, hC]
    simp

theorem whole_next_cons (a l labels err conn' sr' e) (hC : E.Close conn' = .ok e)
    (hout : rLoop E (bs encoding) identityMode (E.rem sr + 1) [] none none c5 sr =
      .ok (.next (a :: l, labels, err, conn', sr'))) :
    plugin_Recipient_WrapWithLabels E.Open E.W E.Close (bs grease) E.WB E.New E.Rd E.Hd E.rem
      ⟨E.name, bs encoding, E.u, identityMode⟩ fileKey = .ok (a :: l, labels, none, some conn') := by
  have hz : (Go.len (a :: l) == 0) = false := by
    rw [len_eq]; simp only [List.length_cons, beq_eq_false_iff_ne, ne_eq]; omega
  cases identityMode <;>
  · simp only [Bool.false_eq_true, if_false, if_true] at hW1
    simp only [rLoop] at hout
    simp only [plugin_Recipient_WrapWithLabels, bind, Except.bind, pure, Except.pure, E.hOpen,
      lit_addr, lit_addi, lit_wfk, lit_ext, lit_done, bne_self_eq_false, Bool.false_eq_true, if_false, if_true,
      hW1, hW2, hW3, hW4, hW5, hN, hout, hz, hC]

end whole

end PluginR

open PluginR in
theorem recipient_client_tie {S σ υ χ : Type} (E : PluginEnv S σ υ χ)
    (identityMode : Bool) (encoding grease : String) (fileKey : Bytes) :
    ∃ (res : List age_Stanza × Option (List Bytes) × Option Go.Err) (c : χ), plugin_Recipient_WrapWithLabels E.Open E.W E.Close (bs grease) E.WB E.New E.Rd E.Hd E.rem
        ⟨E.name, bs encoding, E.u, identityMode⟩ fileKey = .ok (res.1, res.2.1, res.2.2, some c) ∧
      let o := recipientClient E.ui E.dec E.st0 identityMode encoding fileKey grease E.script
      E.absC c = o.phase1 ++ o.replies ∧ E.uiOf c = o.ui ∧
      match o.result with
      | .ok (ss, ls) => res.1 = ss.map goAS ∧ res.2.1 = ls.map (·.map bs) ∧ res.2.2 = none
      | .error e => res.1 = [] ∧ res.2.1 = none ∧ rErrRel E e res.2.2 := by
  obtain ⟨c1, hW1, ha1, hu1⟩ := E.hW E.c0 (if identityMode then "add-identity" else "add-recipient") [encoding]
  obtain ⟨c2, hW2, ha2, hu2⟩ := E.hW c1 grease []
  obtain ⟨c3, hW3, ha3, hu3⟩ := E.hWB c2 "wrap-file-key" fileKey
  obtain ⟨c4, hW4, ha4, hu4⟩ := E.hW c3 "extension-labels" []
  obtain ⟨c5, hW5, ha5, hu5⟩ := E.hW c4 "done" []
  obtain ⟨sr, hN, hS⟩ := E.hNew c5
  have hA : E.absC c5 = recipientPhase1 identityMode encoding fileKey grease := by
    rw [ha5, ha4, ha3, ha2, ha1, E.h0.1]; rfl
  have hU : E.uiOf c5 = E.st0 := by
    rw [hu5, hu4, hu3, hu2, hu1, E.h0.2]
  have hpost := loop_spec E (bs encoding) identityMode E.script.fin E.script.msgs (E.rem sr + 1)
    ⟨E.st0, [], none⟩ c5 sr none (by rw [E.hRem, hS]; exact Nat.lt_succ_self _) hS hU
  simp only [recipientClient]
  generalize run (recipientStep E.ui E.dec) ⟨E.st0, [], none⟩ E.script.msgs E.script.fin = t at hpost ⊢
  obtain ⟨c', ha, hu, hcase⟩ := hpost
  rw [hA] at ha
  simp only [List.map_nil, Option.map_none] at hcase
  rcases hcase with ⟨sr', hout, hres⟩ | ⟨e, g, hout, hres, hrel⟩
  · obtain ⟨e, hC⟩ := E.hClose c'
    cases hst : t.state.stanzas with
    | nil =>
      rw [hst] at hout hres
      rw [if_pos rfl] at hres
      refine ⟨([], none, some (rSite 6)), c', ?_, ha, hu, ?_⟩
      · exact whole_next_nil E identityMode encoding grease fileKey c1 c2 c3 c4 c5 sr hW1 hW2 hW3 hW4 hW5 hN
          _ _ c' sr' e hC hout
      · rw [hres]
        exact ⟨rfl, rfl, rfl⟩
    | cons a l =>
      rw [hst] at hout hres
      rw [if_neg (List.cons_ne_nil a l)] at hres
      refine ⟨((a :: l).map goAS, t.state.labels.map (·.map bs), none), c', ?_, ha, hu, ?_⟩
      · exact whole_next_cons E identityMode encoding grease fileKey c1 c2 c3 c4 c5 sr hW1 hW2 hW3 hW4 hW5 hN
          _ _ _ _ c' sr' e hC hout
      · rw [hres]
        exact ⟨rfl, rfl, rfl⟩
  · refine ⟨([], none, g), c', ?_, ha, hu, ?_⟩
    · exact whole_ret E identityMode encoding grease fileKey c1 c2 c3 c4 c5 sr hW1 hW2 hW3 hW4 hW5 hN _ hout
    · rw [hres]
      exact ⟨rfl, rfl, hrel⟩

end GoTie
end AgeModel
