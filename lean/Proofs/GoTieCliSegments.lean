/-
  Proofs.GoTieCliSegments — "the copy loops are modelled as one write", proved for the model of
  `age` (AgeModel/Cli.lean), and with it the refinement of the translated `encrypt`.

  `io.Copy`, the STREAM writer and the armor writer issue many non-empty writes and stop at the
  first error; `Cli.execute` hands the whole ciphertext to the destination at once. `writeSegs` is
  the segment-by-segment writer; `writeSegs_flatten` shows that for EVERY destination of the model
  (standard output, the buffer used when standard output is a terminal, the lazily opened file) it
  leaves the process in a state that is observably the one the single write leaves — same files,
  same bytes on standard output, same opener state, same success. `cli_encrypt_refines`: with the
  four steps of the translated `encrypt` read as segment writers, it returns exactly when
  `Cli.execute` reaches `finish`, observably in the model's final state, and otherwise ends the
  process at the exit site of the first step whose write failed (and at no other fault), the model's
  result being observably the state that step's segment writer stopped in, with status 1.
-/
import AgeModel.Cli
import Proofs.CliKeygen
import Proofs.GoTieCliEncrypt
namespace AgeModel
namespace GoTie
open Extracted Cli

/-- write the segments one after the other (never an empty write), stop at the first failure -/
def writeSegs (dest : Dest) : Proc → List Bytes → Proc × Bool
  | p, [] => (p, true)
  | p, s :: ss =>
    let r := p.writeNE dest s
    if r.2 then writeSegs dest r.1 ss else (r.1, false)

/-- what can be observed of a process state -/
structure ObsEq (p q : Proc) : Prop where
  get : ∀ u, p.w.get u = q.w.get u
  cwd : p.w.cwd = q.w.cwd
  fsize : p.w.fsize = q.w.fsize
  umask : p.w.umask = q.w.umask
  stdinTerminal : p.w.stdinTerminal = q.w.stdinTerminal
  stdout : p.w.stdout = q.w.stdout
  closeFails : p.w.closeFails = q.w.closeFails
  emitted : p.emitted = q.emitted
  buf : p.buf = q.buf
  lz : p.lz = q.lz

/-- what can be observed of the result of a run -/
structure ResObsEq (r s : Result) : Prop where
  exit : r.exit = s.exit
  stdout : r.stdout = s.stdout
  get : ∀ u, r.world.get u = s.world.get u

/-- the capacity invariants of every reachable state: what standard output has taken is within its capacity, an opened
    regular file is within the size limit -/
structure SegInv (p : Proc) : Prop where
  out : ∀ c, p.w.stdout = .limited (some c) → p.emitted.length ≤ c
  file : ∀ t c0 m L, p.lz = .opened t → p.w.get t = .file c0 m → p.w.fsize = some L → c0.length ≤ L


/-! ### observational equality -/

theorem ObsEq.refl' (p : Proc) : ObsEq p p :=
  ⟨fun _ => rfl, rfl, rfl, rfl, rfl, rfl, rfl, rfl, rfl, rfl⟩

theorem ObsEq.symm' {p q : Proc} (h : ObsEq p q) : ObsEq q p :=
  ⟨fun u => (h.get u).symm, h.cwd.symm, h.fsize.symm, h.umask.symm, h.stdinTerminal.symm, h.stdout.symm,
    h.closeFails.symm, h.emitted.symm, h.buf.symm, h.lz.symm⟩

theorem ObsEq.trans' {p q r : Proc} (h : ObsEq p q) (k : ObsEq q r) : ObsEq p r :=
  ⟨fun u => (h.get u).trans (k.get u), h.cwd.trans k.cwd, h.fsize.trans k.fsize, h.umask.trans k.umask,
    h.stdinTerminal.trans k.stdinTerminal, h.stdout.trans k.stdout, h.closeFails.trans k.closeFails,
    h.emitted.trans k.emitted, h.buf.trans k.buf, h.lz.trans k.lz⟩

/-! ### two writes = one write, observably -/

/-- the shape of the claim: after `r1 = write a`, if it succeeded the second write `r2` is the single write `r12`,
    else `r1` already is -/
def TwoAsOne (r1 r2 r12 : Proc × Bool) : Prop :=
  if r1.2 then ObsEq r2.1 r12.1 ∧ r2.2 = r12.2 else ObsEq r1.1 r12.1 ∧ r12.2 = false

theorem writeFile_two (p : Proc) (t : Path) (a b : Bytes) :
    TwoAsOne (p.writeFile t a) ((p.writeFile t a).1.writeFile t b) (p.writeFile t (a ++ b)) := by
  unfold TwoAsOne
  cases hg : p.w.get t with
  | file c m =>
    cases hok : (accept p.w.fsize c.length a).2 with
    | true =>
      have hl := accept_ok _ _ _ hok
      simp only [Proc.writeFile, hg, hok, hl, if_true, World.get_set_same, World.set_fsize,
        accept_append_ok _ _ _ _ hok, List.length_append]
      refine ⟨⟨?_, rfl, rfl, rfl, rfl, rfl, rfl, rfl, rfl, rfl⟩, trivial⟩
      intro u
      simp only [World.get_set, List.append_assoc]
      split <;> rfl
    | false =>
      simp only [Proc.writeFile, hg, hok, Bool.false_eq_true, if_false, accept_append_fail _ _ _ _ hok]
      exact ⟨ObsEq.refl' _, trivial⟩
  | absent => simp only [Proc.writeFile, hg, Bool.false_eq_true, if_false]; exact ⟨ObsEq.refl' _, trivial⟩
  | dir => simp only [Proc.writeFile, hg, Bool.false_eq_true, if_false]; exact ⟨ObsEq.refl' _, trivial⟩
  | devFull => simp only [Proc.writeFile, hg, Bool.false_eq_true, if_false]; exact ⟨ObsEq.refl' _, trivial⟩

theorem writeFile_lz (p : Proc) (t : Path) (d : Bytes) : (p.writeFile t d).1.lz = p.lz := by
  unfold Proc.writeFile
  split <;> rfl

theorem writeStdout_two (p : Proc) (a b : Bytes) :
    TwoAsOne (p.writeStdout a) ((p.writeStdout a).1.writeStdout b) (p.writeStdout (a ++ b)) := by
  unfold TwoAsOne
  cases hso : p.w.stdout with
  | terminal =>
    simp only [Proc.writeStdout, hso, if_true, List.append_assoc]
    exact ⟨ObsEq.refl' _, trivial⟩
  | devFull =>
    simp only [Proc.writeStdout, hso, Bool.false_eq_true, if_false]
    exact ⟨ObsEq.refl' _, trivial⟩
  | limited cap =>
    cases hok : (accept cap p.emitted.length a).2 with
    | true =>
      have hl := accept_ok _ _ _ hok
      simp only [Proc.writeStdout, hso, hok, hl, if_true, accept_append_ok _ _ _ _ hok, List.length_append,
        List.append_assoc]
      exact ⟨ObsEq.refl' _, trivial⟩
    | false =>
      simp only [Proc.writeStdout, hso, hok, Bool.false_eq_true, if_false, accept_append_fail _ _ _ _ hok]
      exact ⟨ObsEq.refl' _, trivial⟩

theorem write_two (dest : Dest) (p : Proc) (a b : Bytes) :
    TwoAsOne (p.write dest a) ((p.write dest a).1.write dest b) (p.write dest (a ++ b)) := by
  cases dest with
  | stdout => exact writeStdout_two p a b
  | buffered =>
    simp only [TwoAsOne, Proc.write, if_true, List.append_assoc]
    exact ⟨ObsEq.refl' _, trivial⟩
  | lazy name =>
    cases hlz : p.lz with
    | failed =>
      simp only [TwoAsOne, Proc.write, hlz, Bool.false_eq_true, if_false]
      exact ⟨ObsEq.refl' _, trivial⟩
    | opened t =>
      have h2 := writeFile_two p t a b
      have hl := writeFile_lz p t a
      rw [hlz] at hl
      simp only [Proc.write, hlz, hl]
      exact h2
    | unopened =>
      cases hc : create p.w name with
      | none =>
        simp only [TwoAsOne, Proc.write, hlz, hc, Bool.false_eq_true, if_false]
        exact ⟨ObsEq.refl' _, trivial⟩
      | some wt =>
        obtain ⟨w', t⟩ := wt
        have h2 := writeFile_two ({ p with w := w', lz := .opened t } : Proc) t a b
        have hl := writeFile_lz ({ p with w := w', lz := .opened t } : Proc) t a
        simp only [Proc.write, hlz, hc, hl]
        exact h2

theorem writeNE_two (dest : Dest) (p : Proc) (a b : Bytes) :
    TwoAsOne (p.writeNE dest a) ((p.writeNE dest a).1.writeNE dest b) (p.writeNE dest (a ++ b)) := by
  by_cases ha : a = []
  · subst ha
    simp only [TwoAsOne, Proc.writeNE, if_true, List.nil_append]
    exact ⟨ObsEq.refl' _, trivial⟩
  · by_cases hb : b = []
    · subst hb
      simp only [TwoAsOne, Proc.writeNE, ha, if_false, if_true, List.append_nil]
      split
      · rename_i h
        exact ⟨ObsEq.refl' _, h.symm⟩
      · rename_i h
        exact ⟨ObsEq.refl' _, by simpa using h⟩
    · have hab : a ++ b ≠ [] := by simp [ha]
      simp only [Proc.writeNE, ha, hb, hab, if_false]
      exact write_two dest p a b


/-! ### the invariants -/

theorem accept_len_le (c n : Nat) (d : Bytes) (hn : n ≤ c) : n + (accept (some c) n d).1.length ≤ c := by
  simp only [accept]
  split
  · assumption
  · simp only [List.length_take]; omega

theorem writeStdout_inv (p : Proc) (d : Bytes) (h : SegInv p) : SegInv (p.writeStdout d).1 := by
  cases hso : p.w.stdout with
  | terminal =>
    simp only [Proc.writeStdout, hso]
    exact ⟨fun c hc => by simp [hso] at hc, h.file⟩
  | devFull =>
    simp only [Proc.writeStdout, hso]
    exact h
  | limited cap =>
    simp only [Proc.writeStdout, hso]
    refine ⟨?_, h.file⟩
    intro c hc
    simp only [hso, Stdout.limited.injEq] at hc
    subst hc
    have := accept_len_le c p.emitted.length d (h.out c hso)
    simp only [List.length_append]
    exact this

theorem writeFile_inv (p : Proc) (t : Path) (d : Bytes) (h : SegInv p) (hl : p.lz = .opened t) :
    SegInv (p.writeFile t d).1 := by
  cases hg : p.w.get t with
  | file c m =>
    simp only [Proc.writeFile, hg]
    refine ⟨h.out, ?_⟩
    intro t' c0 m' L hl' hg' hf
    simp only [hl, Lazy.opened.injEq] at hl'
    subst hl'
    simp only [World.get_set_same, Node.file.injEq] at hg'
    simp only [World.set_fsize] at hf
    have hb := h.file t c m L hl hg hf
    rw [← hg'.1, hf, List.length_append]
    exact accept_len_le L c.length d hb
  | absent => simp only [Proc.writeFile, hg]; exact h
  | dir => simp only [Proc.writeFile, hg]; exact h
  | devFull => simp only [Proc.writeFile, hg]; exact h

theorem write_inv (dest : Dest) (p : Proc) (d : Bytes) (h : SegInv p) : SegInv (p.write dest d).1 := by
  cases dest with
  | stdout => exact writeStdout_inv p d h
  | buffered => exact ⟨h.out, h.file⟩
  | lazy name =>
    cases hlz : p.lz with
    | failed => simp only [Proc.write, hlz]; exact h
    | opened t => simp only [Proc.write, hlz]; exact writeFile_inv p t d h hlz
    | unopened =>
      cases hc : create p.w name with
      | none =>
        simp only [Proc.write, hlz, hc]
        exact ⟨h.out, fun t c0 m L hl => by simp at hl⟩
      | some wt =>
        obtain ⟨w', t⟩ := wt
        simp only [Proc.write, hlz, hc]
        apply writeFile_inv _ _ _ _ rfl
        obtain ⟨_, hcs⟩ := create_some _ _ _ _ hc
        have hso : w'.stdout = p.w.stdout := by
          rcases hcs with ⟨_, e⟩ | ⟨_, _, _, e⟩ | ⟨_, e⟩ <;> rw [e] <;> rfl
        refine ⟨fun c hc' => h.out c (by rw [← hso]; exact hc'), ?_⟩
        intro t' c0 m L hl' hg' hf
        simp only [Lazy.opened.injEq] at hl'
        subst hl'
        simp only at hg'
        rcases hcs with ⟨_, e⟩ | ⟨_, _, _, e⟩ | ⟨e1, e⟩
        · rw [e, World.get_set_same] at hg'
          simp only [Node.file.injEq] at hg'
          rw [← hg'.1]; exact Nat.zero_le _
        · rw [e, World.get_set_same] at hg'
          simp only [Node.file.injEq] at hg'
          rw [← hg'.1]; exact Nat.zero_le _
        · rw [e, e1] at hg'
          exact Node.noConfusion hg'

theorem writeNE_inv (dest : Dest) (p : Proc) (d : Bytes) (h : SegInv p) : SegInv (p.writeNE dest d).1 := by
  unfold Proc.writeNE
  split
  · exact h
  · exact write_inv dest p d h

/-- a fresh process satisfies them when standard output has taken nothing yet -/
theorem segInv_fresh (w : World) : SegInv ({ w := w } : Proc) := by
  refine ⟨fun c _ => Nat.zero_le _, ?_⟩
  intro t c0 m L hl
  exact Lazy.noConfusion hl

theorem writeSegs_append (dest : Dest) (a b : List Bytes) (p : Proc) :
    writeSegs dest p (a ++ b) =
      (let r := writeSegs dest p a
       if r.2 then writeSegs dest r.1 b else (r.1, false)) := by
  induction a generalizing p with
  | nil => simp only [List.nil_append, writeSegs, if_true]
  | cons s ss ih =>
    simp only [List.cons_append, writeSegs]
    by_cases hf : (p.writeNE dest s).2 = true
    · simp only [hf, if_true]; exact ih _
    · simp only [hf, if_false, Bool.false_eq_true]

/-- the invariants are kept by writing -/
theorem writeSegs_inv (dest : Dest) (segs : List Bytes) (p : Proc) (h : SegInv p) : SegInv (writeSegs dest p segs).1 := by
  induction segs generalizing p with
  | nil => exact h
  | cons s ss ih =>
    simp only [writeSegs]
    have h1 := writeNE_inv dest p s h
    cases hf : (p.writeNE dest s).2 with
    | true => simp only [if_true]; exact ih _ h1
    | false => simp only [Bool.false_eq_true, if_false]; exact h1

/-- segment by segment = at once, observably, for every destination -/
theorem writeSegs_flatten (dest : Dest) (segs : List Bytes) (p : Proc) (h : SegInv p) :
    ObsEq (writeSegs dest p segs).1 (p.writeNE dest segs.flatten).1 ∧
      (writeSegs dest p segs).2 = (p.writeNE dest segs.flatten).2 := by
  induction segs generalizing p with
  | nil => exact ⟨ObsEq.refl' _, rfl⟩
  | cons s ss ih =>
    have h1 := writeNE_inv dest p s h
    have h2 := writeNE_two dest p s ss.flatten
    have h3 := ih (p.writeNE dest s).1 h1
    simp only [writeSegs, List.flatten_cons]
    unfold TwoAsOne at h2
    cases hf : (p.writeNE dest s).2 with
    | true =>
      simp only [hf, if_true] at h2 ⊢
      exact ⟨h3.1.trans' h2.1, h3.2.trans h2.2⟩
    | false =>
      simp only [hf, Bool.false_eq_true, if_false] at h2 ⊢
      exact ⟨h2.1, h2.2.symm⟩


theorem writeStdout_obs (p q : Proc) (d : Bytes) (h : ObsEq p q) :
    ObsEq (p.writeStdout d).1 (q.writeStdout d).1 := by
  have hs := h.stdout
  have he := h.emitted
  cases hso : q.w.stdout with
  | terminal =>
    rw [hso] at hs
    simp only [Proc.writeStdout, hs, hso]
    exact ⟨h.get, h.cwd, h.fsize, h.umask, h.stdinTerminal, h.stdout, h.closeFails, by simp [he], h.buf, h.lz⟩
  | devFull =>
    rw [hso] at hs
    simp only [Proc.writeStdout, hs, hso]
    exact h
  | limited cap =>
    rw [hso] at hs
    simp only [Proc.writeStdout, hs, hso]
    exact ⟨h.get, h.cwd, h.fsize, h.umask, h.stdinTerminal, h.stdout, h.closeFails, by simp [he], h.buf, h.lz⟩

/-- `finish` sees only what can be observed -/
theorem finish_obs (dest : Dest) (p q : Proc) (h : ObsEq p q) : ResObsEq (p.finish dest) (q.finish dest) := by
  cases dest with
  | stdout => exact ⟨rfl, h.emitted, h.get⟩
  | buffered =>
    simp only [Proc.finish, Proc.result]
    have hb := h.buf
    have := writeStdout_obs p q p.buf h
    rw [← hb]
    exact ⟨rfl, this.emitted, this.get⟩
  | lazy name =>
    have hl := h.lz
    have hc := h.closeFails
    cases hq : q.lz with
    | opened t =>
      rw [hq] at hl
      simp only [Proc.finish, hl, hq, Proc.result, hc]
      exact ⟨rfl, h.emitted, h.get⟩
    | failed =>
      rw [hq] at hl
      simp only [Proc.finish, hl, hq, Proc.result]
      exact ⟨rfl, h.emitted, h.get⟩
    | unopened =>
      rw [hq] at hl
      simp only [Proc.finish, hl, hq, Proc.result]
      exact ⟨rfl, h.emitted, h.get⟩

/-! ## the translated `encrypt` -/

/-- a step of `encrypt` that writes the given segments to the destination; the error it reports -/
def segStep (eW : Go.Err) (dest : Dest) (segs : List Bytes) (p : Proc) : Option Go.Err × Proc :=
  let r := writeSegs dest p segs
  (if r.2 then none else some eW, r.1)

/-- the four steps read in the model. Handles: 0 the output, 1 the armor writer, 2 the stream writer. `age.Encrypt` writes
    `s1` (header, nonce), `io.Copy` `s2` (full chunks), the stream writer's `Close` `s3` (the last chunk), the armor
    writer's `Close` `s4` (what is left of the last line, the END line). -/
def mNW (_out : Nat) (p : Proc) : Go.M (Nat × Proc) := .ok (1, p)
def mEnc {ρ : Type} (eW : Go.Err) (dest : Dest) (s1 : List Bytes) (_dst : Nat) (_recs : List ρ) (p : Proc) : Go.M (Nat × Option Go.Err × Proc) :=
  .ok (2, (segStep eW dest s1 p).1, (segStep eW dest s1 p).2)
def mCp (eW : Go.Err) (dest : Dest) (s2 : List Bytes) (_w : Nat) (_inp : Bytes) (p : Proc) : Go.M (Int × Option Go.Err × Proc) :=
  .ok (0, (segStep eW dest s2 p).1, (segStep eW dest s2 p).2)
def mCl (eW : Go.Err) (dest : Dest) (s3 s4 : List Bytes) (h : Nat) (p : Proc) : Go.M (Option Go.Err × Proc) :=
  .ok (segStep eW dest (if h = 1 then s4 else s3) p)


/-- the model's `execute` on the whole ciphertext against the segment writer from the fresh process -/
theorem execute_enc_segs (dest : Dest) (S : List Bytes) (w : World) :
    ((writeSegs dest ({ w := w } : Proc) S).2 = true →
      ResObsEq (execute dest (.enc S.flatten) w) ((writeSegs dest ({ w := w } : Proc) S).1.finish dest)) ∧
    ((writeSegs dest ({ w := w } : Proc) S).2 = false → (execute dest (.enc S.flatten) w).exit = 1) := by
  have hf := writeSegs_flatten dest S ({ w := w } : Proc) (segInv_fresh w)
  constructor
  · intro ht
    have h2 : (({ w := w } : Proc).writeNE dest S.flatten).2 = true := by rw [← hf.2]; exact ht
    simp only [execute, h2, Bool.not_true, Bool.false_eq_true, if_false]
    exact finish_obs dest _ _ hf.1.symm'
  · intro hfalse
    have h2 : (({ w := w } : Proc).writeNE dest S.flatten).2 = false := by rw [← hf.2]; exact hfalse
    simp only [execute, h2, Bool.not_false, if_true, Proc.result]

/-- `result` sees only what can be observed -/
theorem result_obs (p q : Proc) (c : Nat) (h : ObsEq p q) : ResObsEq (p.result c) (q.result c) :=
  ⟨rfl, h.emitted, h.get⟩

/-- the same in one piece, and with the state the model is left in when a write fails: observably the state the segment
    writer stopped in, with status 1 -/
theorem execute_enc_segs_res (dest : Dest) (S : List Bytes) (w : World) :
    ResObsEq (execute dest (.enc S.flatten) w)
      (if (writeSegs dest ({ w := w } : Proc) S).2 = true then (writeSegs dest ({ w := w } : Proc) S).1.finish dest
       else (writeSegs dest ({ w := w } : Proc) S).1.result 1) := by
  have hf := writeSegs_flatten dest S ({ w := w } : Proc) (segInv_fresh w)
  cases hb : (writeSegs dest ({ w := w } : Proc) S).2 with
  | true =>
    have h2 : (({ w := w } : Proc).writeNE dest S.flatten).2 = true := by rw [← hf.2]; exact hb
    simp only [execute, h2, Bool.not_true, Bool.false_eq_true, if_false, if_true]
    exact finish_obs dest _ _ hf.1.symm'
  | false =>
    have h2 : (({ w := w } : Proc).writeNE dest S.flatten).2 = false := by rw [← hf.2]; exact hb
    simp only [execute, h2, Bool.not_false, if_true, Bool.false_eq_true, if_false]
    exact result_obs _ _ 1 hf.1.symm'

/-- The translated `encrypt` against `Cli.execute`, outcome by outcome. `r1 … r4` are the segment writers of the four
    writing steps, each from the state the one before left: `age.Encrypt` (`s1`), `io.Copy` (`s2`), the stream writer's
    `Close` (`s3`), the armor writer's `Close` (`s4`, reached only with `-a`).
    * it RETURNS only if every step that is run succeeded, with exactly the state the last of them left (`r4.1` armored,
      `r3.1` otherwise), and the model's result is observably `finish` of that state;
    * otherwise the fault is one of the four exit sites of `encrypt` and nothing else (no index fault, no other panic
      number), and the site names the step: site 0 (`errorf` after `age.Encrypt`) exactly when `s1` could not be written,
      site 1 (after `io.Copy`) when `s1` was and `s2` could not, site 2 (after the stream writer's `Close`) when `s1`,
      `s2` were and `s3` could not, site 3 (after the armor writer's `Close`, only with `-a`) when `s1`, `s2`, `s3` were
      and `s4` could not; in each case the model's result is observably the state in which that segment writer stopped
      — everything written so far, up to and including what the destination took of the failing write — with status 1.
    (`armor.NewWriter` writes nothing and reports no error in the source; `mNW` cannot fail.) -/
theorem cli_encrypt_refines {ρ : Type} (eW : Go.Err) (dest : Dest) (s1 s2 s3 s4 : List Bytes) (recs : List ρ) (inp : Bytes)
    (armor : Bool) (w : World) :
    let ct := (s1 ++ s2 ++ s3 ++ (if armor then s4 else [])).flatten
    let r1 := writeSegs dest ({ w := w } : Proc) s1
    let r2 := writeSegs dest r1.1 s2
    let r3 := writeSegs dest r2.1 s3
    let r4 := writeSegs dest r3.1 s4
    match main_encrypt (0 : Nat) mNW (mEnc eW dest s1) (mCp eW dest s2) (mCl eW dest s3 s4) recs inp 0 armor ({ w := w } : Proc) with
    | .ok p' =>
      r1.2 = true ∧ r2.2 = true ∧ r3.2 = true ∧ (armor = true → r4.2 = true) ∧ p' = (if armor then r4.1 else r3.1) ∧
        ResObsEq (execute dest (.enc ct) w) (p'.finish dest)
    | .error f =>
      (f = .panic 1000 ∧ r1.2 = false ∧ ResObsEq (execute dest (.enc ct) w) (r1.1.result 1)) ∨
      (f = .panic 1001 ∧ r1.2 = true ∧ r2.2 = false ∧ ResObsEq (execute dest (.enc ct) w) (r2.1.result 1)) ∨
      (f = .panic 1002 ∧ r1.2 = true ∧ r2.2 = true ∧ r3.2 = false ∧
        ResObsEq (execute dest (.enc ct) w) (r3.1.result 1)) ∨
      (f = .panic 1003 ∧ armor = true ∧ r1.2 = true ∧ r2.2 = true ∧ r3.2 = true ∧ r4.2 = false ∧
        ResObsEq (execute dest (.enc ct) w) (r4.1.result 1)) := by
  intro ct
  dsimp only
  rw [cli_encrypt_tie]
  have e23 : (if (2 : Nat) = 1 then s4 else s3) = s3 := by simp
  cases armor with
  | false =>
    have key := execute_enc_segs_res dest (s1 ++ s2 ++ s3) w
    have hct : ct = (s1 ++ s2 ++ s3).flatten := by simp [ct]
    rw [hct]
    simp only [writeSegs_append] at key
    simp only [Bool.false_eq_true, if_false, encryptTail, mEnc, mCp, mCl, segStep, bind, Except.bind, pure,
      Except.pure, e23]
    generalize writeSegs dest { w := w } s1 = x1 at key ⊢
    obtain ⟨p1, b1⟩ := x1
    cases b1 with
    | false => simpa using key
    | true =>
      simp only [if_true] at key ⊢
      generalize writeSegs dest p1 s2 = x2 at key ⊢
      obtain ⟨p2, b2⟩ := x2
      cases b2 with
      | false => simpa using key
      | true =>
        simp only [if_true] at key ⊢
        generalize writeSegs dest p2 s3 = x3 at key ⊢
        obtain ⟨p3, b3⟩ := x3
        cases b3 with
        | false => simpa using key
        | true => simpa using key
  | true =>
    have key := execute_enc_segs_res dest (s1 ++ s2 ++ s3 ++ s4) w
    have hct : ct = (s1 ++ s2 ++ s3 ++ s4).flatten := by simp [ct]
    rw [hct]
    simp only [writeSegs_append] at key
    simp only [if_true, mNW, encryptTail, mEnc, mCp, mCl, segStep, bind, Except.bind, pure,
      Except.pure, e23]
    generalize writeSegs dest { w := w } s1 = x1 at key ⊢
    obtain ⟨p1, b1⟩ := x1
    cases b1 with
    | false => simpa using key
    | true =>
      simp only [if_true] at key ⊢
      generalize writeSegs dest p1 s2 = x2 at key ⊢
      obtain ⟨p2, b2⟩ := x2
      cases b2 with
      | false => simpa using key
      | true =>
        simp only [if_true] at key ⊢
        generalize writeSegs dest p2 s3 = x3 at key ⊢
        obtain ⟨p3, b3⟩ := x3
        cases b3 with
        | false => simpa using key
        | true =>
          simp only [if_true] at key ⊢
          generalize writeSegs dest p3 s4 = x4 at key ⊢
          obtain ⟨p4, b4⟩ := x4
          cases b4 with
          | false => simpa using key
          | true => simpa using key

end GoTie
end AgeModel
