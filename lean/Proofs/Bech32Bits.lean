/-
  Proofs.Bech32Bits — `convertBits` against a bit-list specification.

  `bitsBE w n` is the big-endian list of the low `w` bits of `n`; `flatBits w l`
  concatenates the `w`-bit expansions of the elements of `l`.  The loop of
  `convertBits` maintains
      flatBits tobits ret ++ bitsBE bits acc = flatBits frombits (consumed input)
  from which both directions of `convertBits_inverse` follow.
-/
import AgeModel.Bech32
namespace AgeModel
namespace Bech32

/-! ## bit lists -/

def bitsBE : Nat → Nat → List Bool
  | 0, _ => []
  | w + 1, n => bitsBE w (n / 2) ++ [decide (n % 2 = 1)]

theorem bitsBE_length : ∀ (w n : Nat), (bitsBE w n).length = w
  | 0, _ => rfl
  | w + 1, n => by simp [bitsBE, bitsBE_length w]

theorem bitsBE_split (a : Nat) : ∀ (b n : Nat), bitsBE (a + b) n = bitsBE a (n / 2 ^ b) ++ bitsBE b n
  | 0, n => by simp [bitsBE]
  | b + 1, n => by
    have ih := bitsBE_split a b (n / 2)
    have : n / 2 / 2 ^ b = n / 2 ^ (b + 1) := by
      rw [Nat.div_div_eq_div_mul, Nat.pow_succ, Nat.mul_comm]
    rw [← Nat.add_assoc]
    simp only [bitsBE, ih, this, List.append_assoc]

theorem bitsBE_mod : ∀ (w n : Nat), bitsBE w (n % 2 ^ w) = bitsBE w n
  | 0, _ => rfl
  | w + 1, n => by
    have h := Nat.mod_mul (x := n) (a := 2) (b := 2 ^ w)
    have e : 2 ^ (w + 1) = 2 * 2 ^ w := by rw [Nat.pow_succ, Nat.mul_comm]
    have hA : n % 2 < 2 := Nat.mod_lt _ (by decide)
    have h1 : n % 2 ^ (w + 1) / 2 = n / 2 % 2 ^ w := by rw [e, h]; omega
    have h2 : n % 2 ^ (w + 1) % 2 = n % 2 := by rw [e, h]; omega
    simp only [bitsBE, h1, h2, bitsBE_mod w (n / 2)]

theorem bitsBE_congr {w n m : Nat} (h : n % 2 ^ w = m % 2 ^ w) : bitsBE w n = bitsBE w m := by
  rw [← bitsBE_mod w n, ← bitsBE_mod w m, h]

theorem bitsBE_inj : ∀ (w n m : Nat), bitsBE w n = bitsBE w m → n % 2 ^ w = m % 2 ^ w
  | 0, _, _, _ => by simp [Nat.mod_one]
  | w + 1, n, m, h => by
    simp only [bitsBE] at h
    have hl : (bitsBE w (n / 2)).length = (bitsBE w (m / 2)).length := by simp [bitsBE_length]
    obtain ⟨h1, h2⟩ := List.append_inj h hl
    have ih := bitsBE_inj w _ _ h1
    have e : 2 ^ (w + 1) = 2 * 2 ^ w := by rw [Nat.pow_succ, Nat.mul_comm]
    rw [e, Nat.mod_mul, Nat.mod_mul, ih]
    have hn : n % 2 < 2 := Nat.mod_lt _ (by decide)
    have hm : m % 2 < 2 := Nat.mod_lt _ (by decide)
    simp only [List.cons.injEq, and_true, decide_eq_decide] at h2
    have : n % 2 = m % 2 := by omega
    rw [this]

theorem bitsBE_zero : ∀ (w : Nat), bitsBE w 0 = List.replicate w false
  | 0 => rfl
  | w + 1 => by
    simp only [bitsBE, Nat.zero_div, bitsBE_zero w]
    rw [List.replicate_succ']
    simp

theorem bitsBE_mul_pow (k x : Nat) : bitsBE k (x * 2 ^ k) = List.replicate k false := by
  rw [← bitsBE_zero k]
  apply bitsBE_congr
  simp

/-- shifting left by `k` appends `k` zero bits -/
theorem bitsBE_shift (a k x : Nat) : bitsBE (a + k) (x * 2 ^ k) = bitsBE a x ++ List.replicate k false := by
  rw [bitsBE_split, bitsBE_mul_pow, Nat.mul_div_cancel _ (Nat.two_pow_pos k)]

def flatBits (w : Nat) (l : Bytes) : List Bool := l.flatMap fun v => bitsBE w v.toNat

@[simp] theorem flatBits_nil (w : Nat) : flatBits w [] = [] := rfl
@[simp] theorem flatBits_cons (w : Nat) (v : UInt8) (l : Bytes) :
    flatBits w (v :: l) = bitsBE w v.toNat ++ flatBits w l := by simp [flatBits]
theorem flatBits_append (w : Nat) (a b : Bytes) : flatBits w (a ++ b) = flatBits w a ++ flatBits w b := by
  simp [flatBits]

theorem flatBits_length (w : Nat) : ∀ l : Bytes, (flatBits w l).length = w * l.length
  | [] => by simp
  | v :: l => by
    simp only [flatBits_cons, List.length_append, bitsBE_length, flatBits_length w l, List.length_cons]
    rw [Nat.mul_succ]; omega

theorem toNat_inj_of_mod {w : Nat} {a b : UInt8} (ha : a.toNat < 2 ^ w) (hb : b.toNat < 2 ^ w)
    (h : a.toNat % 2 ^ w = b.toNat % 2 ^ w) : a = b := by
  rw [Nat.mod_eq_of_lt ha, Nat.mod_eq_of_lt hb] at h
  exact UInt8.toNat_inj.mp h

theorem flatBits_inj (w : Nat) : ∀ (a b : Bytes), (∀ x ∈ a, x.toNat < 2 ^ w) → (∀ x ∈ b, x.toNat < 2 ^ w) →
    a.length = b.length → flatBits w a = flatBits w b → a = b
  | [], [], _, _, _, _ => rfl
  | [], _ :: _, _, _, hl, _ => by simp at hl
  | _ :: _, [], _, _, hl, _ => by simp at hl
  | x :: a, y :: b, ha, hb, hl, h => by
    simp only [flatBits_cons] at h
    obtain ⟨h1, h2⟩ := List.append_inj h (by simp [bitsBE_length])
    have hxy : x = y := toNat_inj_of_mod (ha x (by simp)) (hb y (by simp)) (bitsBE_inj w _ _ h1)
    have := flatBits_inj w a b (fun z hz => ha z (by simp [hz])) (fun z hz => hb z (by simp [hz]))
      (by simpa using hl) h2
    rw [hxy, this]

/-! ## the emitted symbol -/

/-- `byte(x) & maxv` is `x mod 2^t` for `t ≤ 8` -/
theorem mask_eq_mod {t : Nat} (ht : t ≤ 8) (x : Nat) : x % 256 &&& (1 <<< t - 1) % 256 = x % 2 ^ t := by
  have h256 : (256 : Nat) = 2 ^ 8 := by decide
  have hle : 2 ^ t ≤ 2 ^ 8 := Nat.pow_le_pow_right (by decide) ht
  have hpos : 0 < 2 ^ t := Nat.two_pow_pos t
  have e : (2 ^ t - 1) % 256 = 2 ^ t - 1 := Nat.mod_eq_of_lt (by omega)
  rw [Nat.one_shiftLeft, e, Nat.and_two_pow_sub_one_eq_mod, h256,
    Nat.mod_mod_of_dvd _ (Nat.pow_dvd_pow 2 ht)]

theorem emit_toNat {t maxv : Nat} (ht : t ≤ 8) (hm : ∀ x, x % 256 &&& maxv = x % 2 ^ t) (x : Nat) :
    ((x % 256 &&& maxv).toUInt8).toNat = x % 2 ^ t := by
  rw [hm]
  have hle : 2 ^ t ≤ 2 ^ 8 := Nat.pow_le_pow_right (by decide) ht
  have : x % 2 ^ t < 2 ^ t := Nat.mod_lt _ (Nat.two_pow_pos t)
  simp only [Nat.toUInt8, UInt8.toNat_ofNat']
  exact Nat.mod_eq_of_lt (by omega)

/-! ## the inner loop -/

theorem drain_spec {t maxv : Nat} (ht1 : 1 ≤ t) (ht : t ≤ 8) (hm : ∀ x, x % 256 &&& maxv = x % 2 ^ t) (acc : Nat) :
    ∀ (fuel bits : Nat) (ret : Bytes), bits ≤ fuel →
      ∃ new, (drain acc t maxv fuel bits ret).2 = ret ++ new ∧
        (drain acc t maxv fuel bits ret).1 < t ∧
        (∀ x ∈ new, x.toNat < 2 ^ t) ∧
        flatBits t new ++ bitsBE (drain acc t maxv fuel bits ret).1 acc = bitsBE bits acc
  | 0, bits, ret, h => by
    have : bits = 0 := by omega
    subst this
    exact ⟨[], by simp [drain], by simp [drain]; omega, by simp, by simp [drain]⟩
  | fuel + 1, bits, ret, h => by
    by_cases hb : bits ≥ t
    · obtain ⟨new, h1, h2, h3, h4⟩ := drain_spec ht1 ht hm acc fuel (bits - t)
        (ret ++ [((acc >>> (bits - t)) % 256 &&& maxv).toUInt8]) (by omega)
      refine ⟨((acc >>> (bits - t)) % 256 &&& maxv).toUInt8 :: new, ?_, ?_, ?_, ?_⟩
      · simp only [drain, hb, if_true, h1, List.append_assoc, List.singleton_append]
      · simpa only [drain, hb, if_true] using h2
      · intro x hx
        rcases List.mem_cons.mp hx with rfl | hx
        · rw [emit_toNat ht hm]; exact Nat.mod_lt _ (Nat.two_pow_pos t)
        · exact h3 x hx
      · simp only [drain, hb, if_true, flatBits_cons, List.append_assoc, h4]
        rw [emit_toNat ht hm, bitsBE_mod, Nat.shiftRight_eq_div_pow]
        have : bits = t + (bits - t) := by omega
        conv => rhs; rw [this]
        rw [bitsBE_split]
    · refine ⟨[], ?_, ?_, ?_, ?_⟩
      · simp [drain, hb]
      · simp only [drain, hb, if_false]; omega
      · simp
      · simp [drain, hb]

/-! ## the outer loop -/

theorem range_ok_iff (f : Nat) (v : UInt8) : v.toNat >>> f ≠ 0 ↔ ¬ v.toNat < 2 ^ f := by
  rw [Nat.shiftRight_eq_div_pow, Ne, Nat.div_eq_zero_iff]
  have : 0 < 2 ^ f := Nat.two_pow_pos f
  omega

theorem step_bits {f bits acc : Nat} {v : UInt8} (hv : v.toNat < 2 ^ f) (hb : bits + f ≤ 32) :
    bitsBE (bits + f) ((acc <<< f ||| v.toNat) % 2 ^ 32) = bitsBE bits acc ++ bitsBE f v.toNat := by
  have hpos : 0 < 2 ^ f := Nat.two_pow_pos f
  rw [← Nat.shiftLeft_add_eq_or_of_lt hv, Nat.shiftLeft_eq]
  have h1 : bitsBE (bits + f) ((acc * 2 ^ f + v.toNat) % 2 ^ 32) = bitsBE (bits + f) (acc * 2 ^ f + v.toNat) := by
    apply bitsBE_congr
    exact Nat.mod_mod_of_dvd _ (Nat.pow_dvd_pow 2 hb)
  rw [h1, bitsBE_split]
  have h2 : (acc * 2 ^ f + v.toNat) / 2 ^ f = acc := by
    rw [Nat.mul_comm, Nat.mul_add_div hpos, Nat.div_eq_of_lt hv, Nat.add_zero]
  have h3 : bitsBE f (acc * 2 ^ f + v.toNat) = bitsBE f v.toNat := by
    apply bitsBE_congr
    rw [Nat.mul_comm, Nat.mul_add_mod]
  rw [h2, h3]

theorem cbLoop_spec {f t maxv : Nat} (ht1 : 1 ≤ t) (ht : t ≤ 8) (hft : t + f ≤ 33)
    (hm : ∀ x, x % 256 &&& maxv = x % 2 ^ t) :
    ∀ (data : Bytes) (acc bits : Nat) (ret : Bytes), bits < t → (∀ v ∈ data, v.toNat < 2 ^ f) →
      ∃ acc' bits' new, cbLoop f t maxv data acc bits ret = .ok (acc', bits', ret ++ new) ∧ bits' < t ∧
        (∀ x ∈ new, x.toNat < 2 ^ t) ∧
        flatBits t new ++ bitsBE bits' acc' = bitsBE bits acc ++ flatBits f data
  | [], acc, bits, ret, hb, _ => ⟨acc, bits, [], by simp [cbLoop], hb, by simp, by simp⟩
  | v :: rest, acc, bits, ret, hb, hall => by
    have hv : v.toNat < 2 ^ f := hall v (by simp)
    have hr : ¬ (v.toNat >>> f ≠ 0) := by rw [range_ok_iff]; omega
    obtain ⟨new1, d1, d2, d3, d4⟩ := drain_spec ht1 ht hm ((acc <<< f ||| v.toNat) % 2 ^ 32) (bits + f) (bits + f) ret
      (Nat.le_refl _)
    obtain ⟨acc', bits', new2, c1, c2, c3, c4⟩ := cbLoop_spec ht1 ht hft hm rest ((acc <<< f ||| v.toNat) % 2 ^ 32)
      (drain ((acc <<< f ||| v.toNat) % 2 ^ 32) t maxv (bits + f) (bits + f) ret).1
      (drain ((acc <<< f ||| v.toNat) % 2 ^ 32) t maxv (bits + f) (bits + f) ret).2 d2
      (fun x hx => hall x (by simp [hx]))
    refine ⟨acc', bits', new1 ++ new2, ?_, c2, ?_, ?_⟩
    · simp only [cbLoop]
      rw [if_neg hr, c1, d1, List.append_assoc]
    · intro x hx
      rcases List.mem_append.mp hx with hx | hx
      · exact d3 x hx
      · exact c3 x hx
    · rw [flatBits_append, List.append_assoc, c4, ← List.append_assoc, d4, step_bits hv (by omega)]
      simp

theorem cbLoop_ok_range {f t maxv : Nat} :
    ∀ (data : Bytes) (acc bits : Nat) (ret : Bytes) r, cbLoop f t maxv data acc bits ret = .ok r →
      ∀ v ∈ data, v.toNat < 2 ^ f
  | [], _, _, _, _, _ => by simp
  | v :: rest, acc, bits, ret, r, h => by
    simp only [cbLoop] at h
    by_cases hr : v.toNat >>> f ≠ 0
    · rw [if_pos hr] at h; cases h
    · rw [if_neg hr] at h
      have ih := cbLoop_ok_range rest _ _ _ r h
      intro x hx
      rcases List.mem_cons.mp hx with rfl | hx
      · rw [range_ok_iff] at hr; omega
      · exact ih x hx

theorem cbLoop_err {f t maxv : Nat} :
    ∀ (data : Bytes) (acc bits : Nat) (ret : Bytes) e, cbLoop f t maxv data acc bits ret = .error e → e = .badRange
  | [], _, _, _, _, h => by simp [cbLoop] at h
  | v :: rest, acc, bits, ret, e, h => by
    simp only [cbLoop] at h
    by_cases hr : v.toNat >>> f ≠ 0
    · rw [if_pos hr] at h; cases h; rfl
    · rw [if_neg hr] at h
      exact cbLoop_err rest _ _ _ e h

/-! ## convertBits -/

theorem convertBits_of_loop {data : Bytes} {f t : Nat} {pad : Bool} {acc bits : Nat} {ret : Bytes}
    (h : cbLoop f t ((1 <<< t - 1) % 256) data 0 0 [] = .ok (acc, bits, ret)) :
    convertBits data f t pad =
      if pad then
        if bits > 0 then .ok (ret ++ [((acc <<< (t - bits)) % 2 ^ 32 % 256 &&& (1 <<< t - 1) % 256).toUInt8])
        else .ok ret
      else if bits ≥ f then .error .badPaddingIllegal
      else if (acc <<< (t - bits)) % 2 ^ 32 % 256 &&& (1 <<< t - 1) % 256 ≠ 0 then .error .badPaddingNonZero
      else .ok ret := by
  simp only [convertBits, h]

/-- the final, left-aligned partial group: `byte(acc<<(tobits-bits)) & maxv` -/
theorem pad_toNat {t bits : Nat} (ht : t ≤ 8) (hb : bits ≤ t) (acc : Nat) :
    (acc <<< (t - bits)) % 2 ^ 32 % 256 &&& (1 <<< t - 1) % 256 = (acc * 2 ^ (t - bits)) % 2 ^ t := by
  rw [mask_eq_mod ht, Nat.shiftLeft_eq, Nat.mod_mod_of_dvd _ (Nat.pow_dvd_pow 2 (by omega : t ≤ 32))]

theorem pad_bits {t bits : Nat} (hb : bits ≤ t) (acc : Nat) :
    bitsBE t ((acc * 2 ^ (t - bits)) % 2 ^ t) = bitsBE bits acc ++ List.replicate (t - bits) false := by
  rw [bitsBE_mod]
  have := bitsBE_shift bits (t - bits) acc
  rw [show bits + (t - bits) = t from by omega] at this
  exact this

/-- 8→5 with padding never fails; its output is the input bit string followed
    by fewer than 5 zero bits -/
theorem convertBits_8_5 (data : Bytes) :
    ∃ out k, convertBits data 8 5 true = .ok out ∧ k < 5 ∧ (∀ x ∈ out, x.toNat < 2 ^ 5) ∧
      flatBits 5 out = flatBits 8 data ++ List.replicate k false := by
  obtain ⟨acc, bits, new, c1, c2, c3, c4⟩ := cbLoop_spec (f := 8) (t := 5) (by decide) (by decide) (by decide)
    (mask_eq_mod (by decide)) data 0 0 [] (by decide) (fun v _ => v.toNat_lt)
  simp only [List.nil_append, bitsBE, List.nil_append] at c1 c4
  rw [convertBits_of_loop c1]
  by_cases hb : bits > 0
  · refine ⟨_, 5 - bits, by rw [if_pos rfl, if_pos hb], by omega, ?_, ?_⟩
    · intro x hx
      rcases List.mem_append.mp hx with hx | hx
      · exact c3 x hx
      · rw [List.mem_singleton] at hx
        subst hx
        rw [emit_toNat (t := 5) (by decide) (mask_eq_mod (by decide))]
        exact Nat.mod_lt _ (by decide)
    · rw [flatBits_append, flatBits_cons, flatBits_nil, List.append_nil,
        emit_toNat (t := 5) (by decide) (mask_eq_mod (by decide)), bitsBE_mod,
        bitsBE_congr (w := 5) (n := acc <<< (5 - bits) % 2 ^ 32) (m := acc <<< (5 - bits))
          (Nat.mod_mod_of_dvd _ (by decide)), Nat.shiftLeft_eq]
      have := pad_bits (t := 5) (bits := bits) (by omega) acc
      rw [bitsBE_mod] at this
      rw [this, ← List.append_assoc, c4]
  · have : bits = 0 := by omega
    subst this
    refine ⟨_, 0, by simp, by decide, c3, ?_⟩
    simpa [bitsBE] using c4

/-- 5→8 without padding succeeds exactly on symbol strings (all < 32) whose
    bits are a whole number of bytes followed by fewer than 5 zero bits -/
theorem convertBits_5_8_iff (d5 bytes : Bytes) :
    convertBits d5 5 8 false = .ok bytes ↔
      (∀ v ∈ d5, v.toNat < 2 ^ 5) ∧ ∃ k, k < 5 ∧ flatBits 5 d5 = flatBits 8 bytes ++ List.replicate k false := by
  constructor
  · intro h
    -- the loop succeeded
    have hloop : ∃ r, cbLoop 5 8 ((1 <<< 8 - 1) % 256) d5 0 0 [] = .ok r := by
      cases hc : cbLoop 5 8 ((1 <<< 8 - 1) % 256) d5 0 0 [] with
      | ok r => exact ⟨r, rfl⟩
      | error e => revert h; simp only [convertBits, hc]; intro h; cases h
    obtain ⟨r, hr⟩ := hloop
    have hall := cbLoop_ok_range d5 0 0 [] r hr
    obtain ⟨acc, bits, new, c1, c2, c3, c4⟩ := cbLoop_spec (f := 5) (t := 8) (by decide) (by decide) (by decide)
      (mask_eq_mod (by decide)) d5 0 0 [] (by decide) hall
    simp only [List.nil_append, bitsBE] at c1 c4
    rw [convertBits_of_loop c1] at h
    simp only [Bool.false_eq_true, if_false] at h
    by_cases hb : bits ≥ 5
    · rw [if_pos hb] at h; cases h
    · rw [if_neg hb] at h
      rw [pad_toNat (by decide) (by omega)] at h
      by_cases hp : (acc * 2 ^ (8 - bits)) % 2 ^ 8 ≠ 0
      · rw [if_pos hp] at h; cases h
      · rw [if_neg hp] at h
        cases h
        refine ⟨hall, bits, by omega, ?_⟩
        have hz : (acc * 2 ^ (8 - bits)) % 2 ^ 8 = 0 := by omega
        have hp := pad_bits (t := 8) (bits := bits) (by omega) acc
        rw [hz, bitsBE_zero] at hp
        have hsplit : List.replicate 8 false = List.replicate bits false ++ List.replicate (8 - bits) false := by
          rw [List.replicate_append_replicate]; congr 1; omega
        rw [hsplit] at hp
        obtain ⟨hp1, _⟩ := List.append_inj hp (by simp [bitsBE_length])
        rw [← c4, ← hp1]
  · rintro ⟨hall, k, hk, hbits⟩
    obtain ⟨acc, bits, new, c1, c2, c3, c4⟩ := cbLoop_spec (f := 5) (t := 8) (by decide) (by decide) (by decide)
      (mask_eq_mod (by decide)) d5 0 0 [] (by decide) hall
    simp only [List.nil_append, bitsBE] at c1 c4
    rw [hbits] at c4
    have hlen := congrArg List.length c4
    simp only [List.length_append, flatBits_length, bitsBE_length, List.length_replicate] at hlen
    have hbk : bits = k := by omega
    have hnl : new.length = bytes.length := by omega
    subst hbk
    obtain ⟨h1, h2⟩ := List.append_inj c4 (by simp [flatBits_length, hnl])
    have hnew : new = bytes := flatBits_inj 8 new bytes c3 (fun x _ => x.toNat_lt) hnl h1
    rw [convertBits_of_loop c1]
    simp only [Bool.false_eq_true, if_false]
    rw [if_neg (by omega), pad_toNat (by decide) (by omega)]
    have hz : (acc * 2 ^ (8 - bits)) % 2 ^ 8 = 0 := by
      have hp := pad_bits (t := 8) (bits := bits) (by omega) acc
      rw [h2, List.replicate_append_replicate] at hp
      have h8 : bits + (8 - bits) = 8 := by omega
      rw [h8, ← bitsBE_zero 8] at hp
      have := bitsBE_inj 8 _ _ hp
      simpa using this
    rw [if_neg (by omega), hnew]

/-- which errors 5→8 can yield -/
theorem convertBits_5_8_err (d5 : Bytes) (e : Err) (h : convertBits d5 5 8 false = .error e) :
    e = .badRange ∨ e = .badPaddingIllegal ∨ e = .badPaddingNonZero := by
  cases hc : cbLoop 5 8 ((1 <<< 8 - 1) % 256) d5 0 0 [] with
  | error e' =>
    have := cbLoop_err _ _ _ _ _ hc
    simp only [convertBits, hc] at h
    cases h
    exact Or.inl this
  | ok r =>
    obtain ⟨acc, bits, ret⟩ := r
    rw [convertBits_of_loop hc] at h
    simp only [Bool.false_eq_true, if_false] at h
    split at h
    · cases h; exact Or.inr (Or.inl rfl)
    · split at h
      · cases h; exact Or.inr (Or.inr rfl)
      · cases h

/-- the three outcomes of 5→8 on symbols < 32, by the number of left-over bits
    `5·n mod 8` and their value (the last `5·n mod 8` bits of the bit string) -/
theorem convertBits_5_8_cases (d5 : Bytes) (hall : ∀ v ∈ d5, v.toNat < 2 ^ 5) :
    (5 * d5.length % 8 ≥ 5 → convertBits d5 5 8 false = .error .badPaddingIllegal) ∧
    (5 * d5.length % 8 < 5 → (flatBits 5 d5).drop (5 * d5.length - 5 * d5.length % 8) ≠
        List.replicate (5 * d5.length % 8) false → convertBits d5 5 8 false = .error .badPaddingNonZero) := by
  obtain ⟨acc, bits, new, c1, c2, c3, c4⟩ := cbLoop_spec (f := 5) (t := 8) (by decide) (by decide) (by decide)
    (mask_eq_mod (by decide)) d5 0 0 [] (by decide) hall
  simp only [List.nil_append, bitsBE] at c1 c4
  have hlen := congrArg List.length c4
  simp only [List.length_append, flatBits_length, bitsBE_length] at hlen
  have hbits : bits = 5 * d5.length % 8 := by omega
  rw [convertBits_of_loop c1]
  simp only [Bool.false_eq_true, if_false]
  constructor
  · intro h
    rw [if_pos (by omega)]
  · intro h hne
    rw [if_neg (by omega), pad_toNat (by decide) (by omega)]
    have hdrop : (flatBits 5 d5).drop (5 * d5.length - 5 * d5.length % 8) = bitsBE bits acc := by
      rw [← c4]
      have : 5 * d5.length - 5 * d5.length % 8 = (flatBits 8 new).length := by
        rw [flatBits_length]; omega
      rw [this, List.drop_left]
    rw [hdrop, ← hbits] at hne
    have hnz : (acc * 2 ^ (8 - bits)) % 2 ^ 8 ≠ 0 := by
      intro hz
      apply hne
      have hp := pad_bits (t := 8) (bits := bits) (by omega) acc
      rw [hz, bitsBE_zero] at hp
      have hsplit : List.replicate 8 false = List.replicate bits false ++ List.replicate (8 - bits) false := by
        rw [List.replicate_append_replicate]; congr 1; omega
      rw [hsplit] at hp
      exact (List.append_inj hp (by simp [bitsBE_length])).1.symm
    rw [if_pos hnz]

/-- `convertBits_inverse`, direction encode-then-decode -/
theorem convertBits_8_5_8 (data out : Bytes) (h : convertBits data 8 5 true = .ok out) :
    convertBits out 5 8 false = .ok data := by
  obtain ⟨out', k, h1, hk, hlt, hbits⟩ := convertBits_8_5 data
  rw [h] at h1
  cases h1
  exact (convertBits_5_8_iff out data).mpr ⟨hlt, k, hk, hbits⟩

/-- `convertBits_inverse`, direction decode-then-encode -/
theorem convertBits_5_8_5 (d5 bytes : Bytes) (h : convertBits d5 5 8 false = .ok bytes) :
    convertBits bytes 8 5 true = .ok d5 := by
  obtain ⟨hall, k, hk, hbits⟩ := (convertBits_5_8_iff d5 bytes).mp h
  obtain ⟨out, k', h1, hk', hlt, hbits'⟩ := convertBits_8_5 bytes
  have hl1 := congrArg List.length hbits
  have hl2 := congrArg List.length hbits'
  simp only [List.length_append, flatBits_length, List.length_replicate] at hl1 hl2
  have hkk : k = k' := by omega
  have hlen : out.length = d5.length := by omega
  subst hkk
  have : out = d5 := flatBits_inj 5 out d5 hlt hall hlen (by rw [hbits, hbits'])
  rw [h1, this]

/-- length of the 5-bit expansion -/
theorem convertBits_8_5_length (data out : Bytes) (h : convertBits data 8 5 true = .ok out) :
    out.length = (8 * data.length + 4) / 5 := by
  obtain ⟨out', k, h1, hk, _, hbits⟩ := convertBits_8_5 data
  rw [h] at h1
  cases h1
  have hl := congrArg List.length hbits
  simp only [List.length_append, flatBits_length, List.length_replicate] at hl
  omega

theorem convertBits_5_8_length (d5 bytes : Bytes) (h : convertBits d5 5 8 false = .ok bytes) :
    bytes.length = 5 * d5.length / 8 ∧ 5 * d5.length % 8 < 5 := by
  obtain ⟨_, k, hk, hbits⟩ := (convertBits_5_8_iff d5 bytes).mp h
  have hl := congrArg List.length hbits
  simp only [List.length_append, flatBits_length, List.length_replicate] at hl
  have e : 5 * d5.length = 8 * bytes.length + k := hl
  rw [e, Nat.mul_add_mod, Nat.mul_add_div (by decide), Nat.mod_eq_of_lt (by omega), Nat.div_eq_of_lt (by omega)]
  exact ⟨by omega, hk⟩

end Bech32
end AgeModel
