/-
  Proofs.Bech32Syndrome — the checksum as a linear code.

  `L` is injective on 30-bit states; the fold of `polymodStep` from state `s`
  over a string `e` is `Lpow |e| s ^^^ synSum e`, where `synSum e` is the XOR
  over the non-zero positions of `e` of `Lpow (distance from the end) symbol`.
  So a substitution pattern `e` goes undetected iff `synSum e = 0`.  Three
  finite facts about the table `Lpow p x` (p = 1..57, x = 1..31), established
  by kernel computation in Proofs/Bech32Tables.lean, exclude that for every
  non-zero pattern of weight ≤ 4 and length ≤ 58.
-/
import Proofs.Bech32Poly
namespace AgeModel
namespace Bech32

/-! ## xor on Nat -/

theorem xor_cancel_right {a b c : Nat} (h : a ^^^ c = b ^^^ c) : a = b := by
  have := congrArg (· ^^^ c) h
  simp only [Nat.xor_assoc, Nat.xor_self, Nat.xor_zero] at this
  exact this

theorem xor_eq_zero {a b : Nat} (h : a ^^^ b = 0) : a = b := by
  apply xor_cancel_right (c := b)
  rw [h, Nat.xor_self]

theorem xor_lt_32_shift {a b : Nat} (h : a ^^^ b < 32) : a >>> 5 = b >>> 5 := by
  apply xor_eq_zero
  rw [← Nat.shiftRight_xor_distrib, Nat.shiftRight_eq_div_pow]
  exact Nat.div_eq_of_lt h

theorem shift_ne_xor_ge {a b : Nat} (h : a >>> 5 ≠ b >>> 5) : 32 ≤ a ^^^ b := by
  apply Nat.le_of_not_lt
  intro hlt
  exact h (xor_lt_32_shift hlt)

/-! ## L is injective -/

def g5 (top : Nat) : Nat := G top % 32

theorem g5_inj_fin : ∀ a : Fin 32, ∀ b : Fin 32, g5 a.val = g5 b.val → a = b := by decide +kernel

theorem L_low (s : Nat) : L s % 32 = g5 (s >>> 25) := by
  unfold L g5
  have e : (32 : Nat) = 2 ^ 5 := by decide
  rw [e, Nat.xor_mod_two_pow, Nat.shiftLeft_eq, Nat.mul_mod_left, Nat.zero_xor]

theorem L_inj {s t : Nat} (hs : s < 2 ^ 30) (ht : t < 2 ^ 30) (h : L s = L t) : s = t := by
  have h1 : g5 (s >>> 25) = g5 (t >>> 25) := by rw [← L_low, ← L_low, h]
  have htop : s >>> 25 = t >>> 25 := by
    have := g5_inj_fin ⟨s >>> 25, top_lt hs⟩ ⟨t >>> 25, top_lt ht⟩ h1
    exact congrArg Fin.val this
  unfold L at h
  rw [htop] at h
  have h2 := xor_cancel_right h
  rw [Nat.shiftLeft_eq, Nat.shiftLeft_eq] at h2
  have h3 := Nat.eq_of_mul_eq_mul_right (by decide : 0 < 2 ^ 5) h2
  have e : (0x1ffffff : Nat) = 2 ^ 25 - 1 := by decide
  rw [e, Nat.and_two_pow_sub_one_eq_mod, Nat.and_two_pow_sub_one_eq_mod] at h3
  rw [Nat.shiftRight_eq_div_pow, Nat.shiftRight_eq_div_pow] at htop
  have a1 := Nat.div_add_mod s (2 ^ 25)
  have a2 := Nat.div_add_mod t (2 ^ 25)
  rw [← a1, ← a2, htop, h3]

/-! ## powers of L -/

def Lpow : Nat → Nat → Nat
  | 0, x => x
  | k + 1, x => L (Lpow k x)

theorem Lpow_lt : ∀ (k : Nat) {x : Nat}, x < 2 ^ 30 → Lpow k x < 2 ^ 30
  | 0, _, h => h
  | _ + 1, _, _ => L_lt _

theorem Lpow_zero : ∀ k, Lpow k 0 = 0
  | 0 => rfl
  | k + 1 => by rw [Lpow, Lpow_zero k, L_zero]

theorem Lpow_lin : ∀ (k : Nat) {a b : Nat}, a < 2 ^ 30 → b < 2 ^ 30 → Lpow k (a ^^^ b) = Lpow k a ^^^ Lpow k b
  | 0, _, _, _, _ => rfl
  | k + 1, a, b, ha, hb => by
    rw [Lpow, Lpow, Lpow, Lpow_lin k ha hb, L_lin (Lpow_lt k ha) (Lpow_lt k hb)]

theorem Lpow_add : ∀ (j k x : Nat), Lpow (j + k) x = Lpow j (Lpow k x)
  | 0, k, x => by rw [Nat.zero_add]; rfl
  | j + 1, k, x => by
    rw [Nat.add_right_comm, Lpow, Lpow_add j k x]; rfl

theorem Lpow_succ' (k x : Nat) : Lpow (k + 1) x = Lpow k (L x) := Lpow_add k 1 x

theorem Lpow_inj : ∀ (k : Nat) {s t : Nat}, s < 2 ^ 30 → t < 2 ^ 30 → Lpow k s = Lpow k t → s = t
  | 0, _, _, _, _, h => h
  | k + 1, _, _, hs, ht, h => by
    rw [Lpow, Lpow] at h
    exact Lpow_inj k hs ht (L_inj (Lpow_lt k hs) (Lpow_lt k ht) h)

/-! ## the syndrome of a pattern -/

def synSum : Bytes → Nat
  | [] => 0
  | v :: rest => Lpow rest.length v.toNat ^^^ synSum rest

theorem u8_lt30 (v : UInt8) : v.toNat < 2 ^ 30 := by
  have := v.toNat_lt
  omega

theorem synSum_lt : ∀ e : Bytes, synSum e < 2 ^ 30
  | [] => by decide
  | v :: rest => Nat.xor_lt_two_pow (Lpow_lt _ (u8_lt30 v)) (synSum_lt rest)

theorem foldl_eq_synSum : ∀ (e : Bytes) {s : Nat}, s < 2 ^ 30 →
    e.foldl polymodStep s = Lpow e.length s ^^^ synSum e
  | [], s, _ => by simp [Lpow, synSum]
  | v :: rest, s, hs => by
    rw [List.foldl_cons, foldl_eq_synSum rest (polymodStep_lt s v), polymodStep_eq,
      Lpow_lin _ (L_lt s) (u8_lt30 v), List.length_cons, Lpow_succ', synSum, Nat.xor_assoc]

/-- the non-zero positions of a pattern: (distance from the end, symbol), nearest to the start first -/
def terms : Bytes → List (Nat × Nat)
  | [] => []
  | v :: rest => if v = 0 then terms rest else (rest.length, v.toNat) :: terms rest

def termSum : List (Nat × Nat) → Nat
  | [] => 0
  | (k, x) :: ts => Lpow k x ^^^ termSum ts

theorem synSum_eq_termSum : ∀ e : Bytes, synSum e = termSum (terms e)
  | [] => rfl
  | v :: rest => by
    by_cases hv : v = 0
    · subst hv
      simp only [synSum, terms, if_true]
      rw [show (0 : UInt8).toNat = 0 from rfl, Lpow_zero, Nat.zero_xor, synSum_eq_termSum rest]
    · simp only [synSum, terms, hv, if_false, termSum, synSum_eq_termSum rest]

/-- exponents strictly decrease and stay below `n`; symbols are in 1..31 -/
def TermsOK : Nat → List (Nat × Nat) → Prop
  | _, [] => True
  | n, (k, x) :: ts => k < n ∧ 1 ≤ x ∧ x < 32 ∧ TermsOK k ts

theorem TermsOK_mono : ∀ {n m : Nat} (ts : List (Nat × Nat)), n ≤ m → TermsOK n ts → TermsOK m ts
  | _, _, [], _, _ => trivial
  | _, _, (_, _) :: _, hnm, ⟨h1, h2, h3, h4⟩ => ⟨Nat.lt_of_lt_of_le h1 hnm, h2, h3, h4⟩

theorem terms_ok : ∀ (e : Bytes), (∀ v ∈ e, v.toNat < 32) → TermsOK e.length (terms e)
  | [], _ => trivial
  | v :: rest, h => by
    have ih := terms_ok rest (fun x hx => h x (by simp [hx]))
    by_cases hv : v = 0
    · simp only [terms, hv, if_true, List.length_cons]
      exact TermsOK_mono _ (Nat.le_succ _) ih
    · simp only [terms, hv, if_false, List.length_cons]
      refine ⟨Nat.lt_succ_self _, ?_, h v (by simp), ih⟩
      have : v.toNat ≠ 0 := fun h0 => hv (UInt8.toNat_inj.mp h0)
      omega

/-- number of non-zero symbols -/
def weight (e : Bytes) : Nat := e.countP (· != 0)

theorem terms_length : ∀ e : Bytes, (terms e).length = weight e
  | [] => rfl
  | v :: rest => by
    have ih := terms_length rest
    simp only [weight] at ih
    by_cases hv : v = 0
    · subst hv
      simp only [terms, if_true, weight, List.countP_cons, ih]
      rfl
    · have hb : (v != 0) = true := by simp [hv]
      simp only [terms, hv, if_false, weight, List.countP_cons, List.length_cons, ih, hb, if_true]

theorem terms_nil : ∀ e : Bytes, terms e = [] → ∀ v ∈ e, v = 0
  | [], _ => by simp
  | v :: rest, h => by
    by_cases hv : v = 0
    · simp only [terms, hv, if_true] at h
      intro x hx
      rcases List.mem_cons.mp hx with rfl | hx
      · exact hv
      · exact terms_nil rest h x hx
    · simp [terms, hv] at h

/-! ## the three finite facts and what follows from them -/

/-- the facts about the table `Lpow p x`, p in 1..57, x in 1..31, that exclude
    zero syndromes of weight 2, 3 and 4 respectively -/
def Fact2 : Prop := ∀ p x, 1 ≤ p → p ≤ 57 → 1 ≤ x → x < 32 → 32 ≤ Lpow p x
def Fact3 : Prop := ∀ p q x y, 1 ≤ q → q < p → p ≤ 57 → 1 ≤ x → x < 32 → 1 ≤ y → y < 32 → 32 ≤ Lpow p x ^^^ Lpow q y
def Fact4 : Prop := ∀ p q r x y z, 1 ≤ r → r < q → q < p → p ≤ 57 → 1 ≤ x → x < 32 → 1 ≤ y → y < 32 → 1 ≤ z → z < 32 →
    32 ≤ Lpow p x ^^^ Lpow q y ^^^ Lpow r z

theorem lt30_of_lt32 {x : Nat} (h : x < 32) : x < 2 ^ 30 := by omega

/-- peel the smallest exponent off: `Lpow a x = Lpow d (Lpow (a-d) x)` -/
theorem Lpow_split {a d : Nat} (h : d ≤ a) (x : Nat) : Lpow a x = Lpow d (Lpow (a - d) x) := by
  rw [← Lpow_add]; congr 1; omega

/-- no non-zero pattern of weight ≤ W ≤ 4 within 58 symbols has zero syndrome -/
theorem termSum_ne_zero (W : Nat) (hW : W ≤ 4) (F2 : Fact2) (F3 : 3 ≤ W → Fact3) (F4 : 4 ≤ W → Fact4)
    (ts : List (Nat × Nat)) (hok : TermsOK 58 ts) (hne : ts ≠ []) (hlen : ts.length ≤ W) : termSum ts ≠ 0 := by
  match ts, hok, hne, hlen with
  | [(a, x)], ⟨_, hx1, hx2, _⟩, _, _ =>
    intro h
    simp only [termSum, Nat.xor_zero] at h
    have := Lpow_inj a (lt30_of_lt32 hx2) (by decide : 0 < 2 ^ 30) (by rw [h, Lpow_zero])
    omega
  | [(a, x), (b, y)], ⟨ha, hx1, hx2, hb, hy1, hy2, _⟩, _, _ =>
    intro h
    simp only [termSum, Nat.xor_zero] at h
    have h1 := xor_eq_zero h
    rw [Lpow_split (Nat.le_of_lt hb) x] at h1
    have h2 := Lpow_inj b (Lpow_lt _ (lt30_of_lt32 hx2)) (lt30_of_lt32 hy2) h1
    have := F2 (a - b) x (by omega) (by omega) hx1 hx2
    omega
  | [(a, x), (b, y), (c, z)], ⟨ha, hx1, hx2, hb, hy1, hy2, hc, hz1, hz2, _⟩, _, hl =>
    have F := F3 (by simp only [List.length_cons, List.length_nil] at hl; omega)
    intro h
    simp only [termSum, Nat.xor_zero] at h
    rw [Lpow_split (show c ≤ a by omega) x, Lpow_split (Nat.le_of_lt hc) y,
      ← Lpow_lin c (Lpow_lt _ (lt30_of_lt32 hy2)) (lt30_of_lt32 hz2),
      ← Lpow_lin c (Lpow_lt _ (lt30_of_lt32 hx2))
        (Nat.xor_lt_two_pow (Lpow_lt _ (lt30_of_lt32 hy2)) (lt30_of_lt32 hz2))] at h
    have h2 := Lpow_inj c (Nat.xor_lt_two_pow (Lpow_lt _ (lt30_of_lt32 hx2))
      (Nat.xor_lt_two_pow (Lpow_lt _ (lt30_of_lt32 hy2)) (lt30_of_lt32 hz2))) (by decide : 0 < 2 ^ 30)
      (by rw [h, Lpow_zero])
    rw [← Nat.xor_assoc] at h2
    have h3 := xor_eq_zero h2
    have := F (a - c) (b - c) x y (by omega) (by omega) (by omega) hx1 hx2 hy1 hy2
    omega
  | [(a, x), (b, y), (c, z), (d, w)], ⟨ha, hx1, hx2, hb, hy1, hy2, hc, hz1, hz2, hd, hw1, hw2, _⟩, _, hl =>
    have F := F4 (by simp only [List.length_cons, List.length_nil] at hl; omega)
    intro h
    simp only [termSum, Nat.xor_zero] at h
    have lx := Lpow_lt (a - d) (lt30_of_lt32 hx2)
    have ly := Lpow_lt (b - d) (lt30_of_lt32 hy2)
    have lz := Lpow_lt (c - d) (lt30_of_lt32 hz2)
    have lw := lt30_of_lt32 hw2
    rw [Lpow_split (show d ≤ a by omega) x, Lpow_split (show d ≤ b by omega) y, Lpow_split (Nat.le_of_lt hd) z,
      ← Lpow_lin d lz lw, ← Lpow_lin d ly (Nat.xor_lt_two_pow lz lw),
      ← Lpow_lin d lx (Nat.xor_lt_two_pow ly (Nat.xor_lt_two_pow lz lw))] at h
    have h2 := Lpow_inj d (Nat.xor_lt_two_pow lx (Nat.xor_lt_two_pow ly (Nat.xor_lt_two_pow lz lw)))
      (by decide : 0 < 2 ^ 30) (by rw [h, Lpow_zero])
    rw [← Nat.xor_assoc, ← Nat.xor_assoc] at h2
    have h3 := xor_eq_zero h2
    have := F (a - d) (b - d) (c - d) x y z (by omega) (by omega) (by omega) (by omega) hx1 hx2 hy1 hy2 hz1 hz2
    omega
  | _ :: _ :: _ :: _ :: _ :: _, _, _, hl =>
    exfalso
    simp only [List.length_cons] at hl
    omega

/-- a non-zero pattern of length ≤ 58, symbols < 32 and weight ≤ W has a non-zero syndrome -/
theorem synSum_ne_zero (W : Nat) (hW : W ≤ 4) (F2 : Fact2) (F3 : 3 ≤ W → Fact3) (F4 : 4 ≤ W → Fact4)
    (e : Bytes) (hlen : e.length ≤ 58) (h32 : ∀ v ∈ e, v.toNat < 32) (hw : weight e ≤ W) (hnz : ∃ v ∈ e, v ≠ 0) :
    synSum e ≠ 0 := by
  rw [synSum_eq_termSum]
  apply termSum_ne_zero W hW F2 F3 F4
  · exact TermsOK_mono _ hlen (terms_ok e h32)
  · intro h
    obtain ⟨v, hv, hv0⟩ := hnz
    exact hv0 (terms_nil e h v hv)
  · rw [terms_length]; exact hw

end Bech32
end AgeModel
