/-
  Proofs.GoTieStreamRT — the STREAM round trip stated about the two translated ends.

  `streamWrites` pushes a sequence of writes through the TRANSLATED `(*stream.Writer).Write`;
  `streamReads` calls the TRANSLATED `(*stream.Reader).Read` with buffers of the given sizes and
  collects what each call copied, until the first reported error. `code_stream_roundtrip`: whatever
  sequence of writes goes through the translated writer (then `Close`) into an empty destination
  that takes every write, the translated reader over the destination's bytes returns exactly the
  concatenated input and then io.EOF — for every input, every split into writes, and every sequence
  of positive `Read` sizes long enough to reach the end. It composes the two simulations
  (`writer_write_tie`, `writer_close_tie`, `reader_read_tie`) with the model's `writer_refines_spec`,
  `reader_refines_spec` and `stream_roundtrip`.
-/
import Proofs.GoTieStreamR
import Proofs.GoTieStreamW
import Props.C01
import Props.C12
import Props.C02
import Proofs.GoTieStreamNew
namespace AgeModel
namespace GoTie
open Extracted Stream

/-- the writes, one after the other; stops at the first error -/
def streamWrites {α δ : Type} {A : AEAD} {k : Bytes} {S : DstSpec} (E : AeadEnv α A k) (D : DstEnv δ S) :
    stream_Writer α δ → List Bytes → Go.M (Option Go.Err × stream_Writer α δ)
  | w, [] => .ok (none, w)
  | w, p :: ps => do
    let r ← stream_Writer_Write E.seal_ D.write w p
    if r.2.1 != none then pure (r.2.1, r.2.2) else streamWrites E D r.2.2 ps

/-- `Read` called with buffers of the given sizes; the bytes each call copied, up to the first error -/
def streamReads {α : Type} {A : AEAD} {k : Bytes} (E : AeadEnv α A k) :
    stream_Reader α → List Nat → Go.M (stream_Reader α × Bytes × Option Go.Err)
  | g, [] => .ok (g, [], none)
  | g, n :: ns => do
    let res ← stream_Reader_Read E.over E.open_ g (List.replicate n 0)
    match res.2.1 with
    | some e => pure (res.2.2.1, res.2.2.2.take res.1.toNat, some e)
    | none => do
      let t ← streamReads E res.2.2.1 ns
      pure (t.1, res.2.2.2.take res.1.toNat ++ t.2.1, t.2.2)

set_option linter.ambiguousOpen false

/-! ## reader side -/

/-- `readChunk` never increases counter + bytes still to come -/
theorem readChunk_mono (A : AEAD) (C L : Nat) (hE : 0 < C + A.T) (k : Bytes) (r : Reader) :
    (r.readChunk A C L k).1.ctr + (r.readChunk A C L k).1.src.data.length ≤ r.ctr + r.src.data.length := by
  have hd : (r.src.data.drop (C + A.T)).length ≤ r.src.data.length := by rw [List.length_drop]; omega
  have hd1 : (r.src.data.take (C + A.T)).length ≠ 0 → (r.src.data.drop (C + A.T)).length + 1 ≤ r.src.data.length := by
    rw [List.length_take, List.length_drop]; omega
  unfold Reader.readChunk
  split
  · exact Nat.le_refl _
  · simp only
    split
    · exact Nat.add_le_add_left hd _
    · split
      · exact Nat.add_le_add_left hd _
      · rename_i hn0
        split
        · exact Nat.add_le_add_left hd _
        · split
          · exact Nat.add_le_add_left hd _
          · split
            · exact Nat.add_le_add_left hd _
            · have := hd1 hn0
              simp only
              omega

theorem probe_mono (r : Reader) : r.probe.ctr + r.probe.src.data.length ≤ r.ctr + r.src.data.length := by
  unfold Reader.probe
  split
  · rename_i b rest h; rw [h]; simp only [List.length_cons]; omega
  · rename_i h; rw [h]; exact Nat.le_refl _

/-- `Read` never increases counter + bytes still to come -/
theorem read_mono (A : AEAD) (C L : Nat) (hE : 0 < C + A.T) (k : Bytes) (r : Reader) (n : Nat) :
    (r.read A C L k n).1.ctr + (r.read A C L k n).1.src.data.length ≤ r.ctr + r.src.data.length := by
  have hrc := readChunk_mono A C L hE k r
  unfold Reader.read
  split
  · exact Nat.le_refl _
  · split
    · exact Nat.le_refl _
    · split
      · exact Nat.le_refl _
      · generalize r.readChunk A C L k = rc at hrc
        obtain ⟨r1, x⟩ := rc
        cases x with
        | error e => exact hrc
        | ok last =>
          cases last with
          | false => exact hrc
          | true =>
            simp only [if_true]
            exact Nat.le_trans (probe_mono _) hrc

theorem read_bounded (A : AEAD) (C L L' : Nat) (hE : 0 < C + A.T) (k : Bytes) (r : Reader) (n : Nat)
    (hb : r.Bounded L') : (r.read A C L k n).1.Bounded L' := by
  unfold Reader.Bounded at hb ⊢
  exact Nat.lt_of_le_of_lt (read_mono A C L hE k r n) hb

/-- the translated reader, driven call by call, yields what the model's reader machine yields: any sizes, and the
    final states are related -/
theorem streamReads_tie {α : Type} (A : AEAD) (k : Bytes) (E : AeadEnv α A k) : ∀ (sizes : List Nat)
    (g : stream_Reader α) (m : Stream.Reader), RRel g m → m.Bounded (2 ^ 88 - 1) →
    ∃ g' ge, streamReads E g sizes = .ok (g', (m.drain A 65536 (2 ^ 88) k sizes).2.1, ge) ∧
      rdErrRel ge (m.drain A 65536 (2 ^ 88) k sizes).2.2 ∧ RRel g' (m.drain A 65536 (2 ^ 88) k sizes).1
  | [], g, m, h, _ => ⟨g, none, rfl, rfl, h⟩
  | n :: ns, g, m, h, hb => by
    have hctr : m.ctr + 1 < 2 ^ 88 := by unfold Reader.Bounded at hb; omega
    obtain ⟨res, hres, h1, h3, h4, h2⟩ := reader_read_tie A k E g m h hctr (List.replicate n 0)
    have hb' := read_bounded A 65536 (2 ^ 88) (2 ^ 88 - 1) (by omega) k m n hb
    simp only [List.length_replicate] at h1 h2 h3 h4
    have htake : res.2.2.2.take res.1.toNat = (m.read A 65536 (2 ^ 88) k n).2.1 := by
      rw [h1, h2]; simp
    generalize hm : m.read A 65536 (2 ^ 88) k n = mr at h1 h2 h3 h4 htake hb'
    obtain ⟨r1, out, e⟩ := mr
    cases e with
    | some e =>
      have hne := rdErrRel_ne _ e h3
      cases hge : res.2.1 with
      | none => rw [hge] at hne; exact absurd hne (by decide)
      | some ge =>
        refine ⟨res.2.2.1, some ge, ?_, ?_, ?_⟩
        · simp only [streamReads, hres, bind, Except.bind, hge, pure, Except.pure, Reader.drain, hm, htake]
        · simp only [Reader.drain, hm]; rw [← hge]; exact h3
        · simp only [Reader.drain, hm]; exact h4
    | none =>
      have hge : res.2.1 = none := h3
      obtain ⟨g', ge, hd, he, hr⟩ := streamReads_tie A k E ns res.2.2.1 r1 h4 hb'
      refine ⟨g', ge, ?_, ?_, ?_⟩
      · simp only [streamReads, hres, bind, Except.bind, hge, pure, Except.pure, Reader.drain, hm, htake, hd]
      · simp only [Reader.drain, hm]; exact he
      · simp only [Reader.drain, hm]; exact hr

/-! ## writer side -/

theorem write_no_dstErr {S : DstSpec} (hS : S.NeverFails) (A : AEAD) (C L : Nat) (k : Bytes) (m m' : Writer S)
    (p : Bytes) (n : Nat) (he : m.err = none) : m.write A C L k p ≠ (m', n, some .dstErr) := by
  intro hwr
  unfold Writer.write at hwr
  rw [he] at hwr
  simp only at hwr
  split at hwr
  · simp at hwr
  · split at hwr
    · rename_i w2 e2 hfill
      simp only [Prod.mk.injEq, Option.some.injEq] at hwr
      obtain ⟨_, _, he2⟩ := hwr
      subst he2
      exact fill_no_dstErr hS A C L k _ _ _ _ hfill
    · simp at hwr

theorem close_no_dstErr {S : DstSpec} (hS : S.NeverFails) (A : AEAD) (C L : Nat) (k : Bytes) (m m' : Writer S)
    (he : m.err = none) : m.close A C L k ≠ (m', some .dstErr) := by
  intro hc
  unfold Writer.close at hc
  rw [he] at hc
  simp only at hc
  split at hc
  · rename_i w2 e2 hfl
    simp only [Prod.mk.injEq, Option.some.injEq] at hc
    obtain ⟨_, he2⟩ := hc
    subst he2
    exact flush_no_dstErr hS A C L k _ _ _ hfl
  · simp at hc

/-- the translated writer, driven call by call into a destination that never fails, reports no error
    and stays related to a model writer that satisfies the model's invariant for the bytes written -/
theorem streamWrites_tie {α δ : Type} {S : DstSpec} (hS : S.NeverFails) (A : AEAD) (k : Bytes) (E : AeadEnv α A k)
    (D : DstEnv δ S) (acc0 : Bytes) : ∀ (ps : List Bytes) (w : stream_Writer α δ) (m : Writer S) (pt : Bytes),
    WRel D w m → WInv A 65536 k acc0 m pt → pt.length + ps.flatten.length < 2 ^ 64 →
    ∃ w1 m1, streamWrites E D w ps = .ok (none, w1) ∧ WRel D w1 m1 ∧ WInv A 65536 k acc0 m1 (pt ++ ps.flatten)
  | [], w, m, pt, h, hinv, _ => ⟨w, m, rfl, h, by simpa using hinv⟩
  | p :: ps, w, m, pt, h, hinv, hlen => by
    simp only [List.flatten_cons, List.length_append] at hlen
    have hc : m.ctr * 65536 + m.buf.length = pt.length := hinv.2.2.1
    obtain ⟨res, hres, h1, h2, h3⟩ := writer_write_tie A k E D w m h p (by omega)
    generalize hm : m.write A 65536 (2 ^ 88) k p = mw at h1 h2 h3
    obtain ⟨m1, n, e⟩ := mw
    cases e with
    | some e =>
      exfalso
      cases (write_err A 65536 (2 ^ 88) (by decide) k acc0 m m1 pt p n e hinv hm).2.2 with
      | inl hd => subst hd; exact write_no_dstErr hS A 65536 (2 ^ 88) k m m1 p n hinv.1 hm
      | inr hp => omega
    | none =>
      obtain ⟨hinv1, _⟩ := write_ok A 65536 (2 ^ 88) (by decide) k acc0 m m1 pt p n hinv hm
      have hge : res.2.1 = none := h2
      obtain ⟨w1, m2, hw, hr, hi⟩ := streamWrites_tie hS A k E D acc0 ps res.2.2 m1 (pt ++ p) h3 hinv1
        (by rw [List.length_append]; omega)
      refine ⟨w1, m2, ?_, hr, by simpa using hi⟩
      simp only [streamWrites, hres, bind, Except.bind, hge, bne_self_eq_false, Bool.false_eq_true, if_false, hw]

/-- `Close` after such a run: no error, and the destination holds the payload the spec prescribes -/
theorem streamClose_tie {α δ : Type} {S : DstSpec} (hS : S.NeverFails) (A : AEAD) (k : Bytes) (E : AeadEnv α A k)
    (D : DstEnv δ S) (acc0 : Bytes) (w : stream_Writer α δ) (m : Writer S) (pt : Bytes)
    (h : WRel D w m) (hinv : WInv A 65536 k acc0 m pt) (hlen : pt.length < 2 ^ 64) :
    ∃ w2, stream_Writer_Close E.seal_ D.write w = .ok (none, w2) ∧
      (D.absD w2.dst).acc = acc0 ++ encrypt A 65536 k pt := by
  have hc : m.ctr * 65536 + m.buf.length = pt.length := hinv.2.2.1
  obtain ⟨res, hres, h1, _, h2, _⟩ := writer_close_tie A k E D w m h (by omega)
  generalize hm : m.close A 65536 (2 ^ 88) k = mc at h1 h2
  obtain ⟨m1, e⟩ := mc
  cases e with
  | some e =>
    exfalso
    cases (close_err A 65536 (2 ^ 88) k acc0 m m1 pt e hinv hm).2 with
    | inl hd => subst hd; exact close_no_dstErr hS A 65536 (2 ^ 88) k m m1 hinv.1 hm
    | inr hp => omega
  | none =>
    have hge : res.1 = none := h1
    have hd := h2 rfl
    obtain ⟨r1, w2⟩ := res
    simp only at hge hd
    subst hge
    refine ⟨w2, hres, ?_⟩
    rw [hd]
    exact (close_ok A 65536 (2 ^ 88) k acc0 m m1 pt hinv hm).1

/-- length of the payload: 16 bytes per chunk on top of the plaintext -/
theorem enc_length_le (A : AEAD) (k : Bytes) (hSeal : ∀ n p, (A.sealF k n p).length = p.length + 16) :
    ∀ (f : Nat) (i : Nat) (p : Bytes), p.length ≤ f →
      (enc A 65536 k i p).length ≤ p.length + (p.length / 65536 + 1) * 16 := by
  intro f
  induction f with
  | zero =>
    intro i p h
    rw [enc_short A 65536 k i p (by omega), hSeal]; omega
  | succ f ih =>
    intro i p h
    by_cases hs : p.length ≤ 65536
    · rw [enc_short A 65536 k i p hs, hSeal]; omega
    · rw [enc_long A 65536 (by decide) k i p (by omega), List.length_append, hSeal]
      have hd : (p.drop 65536).length = p.length - 65536 := List.length_drop
      have ht : (p.take 65536).length = 65536 := by rw [List.length_take]; omega
      have := ih (i + 1) (p.drop 65536) (by omega)
      rw [hd] at this
      omega

/-- **STREAM round trip, about the code** -/
theorem code_stream_roundtrip {α δ : Type} (A : AEAD) (hA : A.Correct) (hN : A.NonceSep) (k : Bytes) (E : AeadEnv α A k)
    (D : DstEnv δ DstSpec.perfect) (a : α) (dst : δ) (hd : (D.absD dst).acc = []) (ps : List Bytes)
    (hlen : ps.flatten.length < 2 ^ 64) (sizes : List Nat) (hpos : ∀ s ∈ sizes, 0 < s)
    (hlong : ps.flatten.length + (encrypt A 65536 k ps.flatten).length + 1 < sizes.length) :
    ∃ w1 w2 r', streamWrites E D ⟨a, dst, 0, 0, List.replicate 65552 0, List.replicate 12 0, none⟩ ps = .ok (none, w1) ∧
      stream_Writer_Close E.seal_ D.write w1 = .ok (none, w2) ∧
      streamReads E ⟨a, ⟨(D.absD w2.dst).acc, false⟩, 0, 0, List.replicate 65552 0, none, List.replicate 12 0⟩ sizes =
        .ok (r', ps.flatten, Go.io_EOF) := by
  obtain ⟨w1, m1, hw, hr, hi⟩ := streamWrites_tie DstSpec.perfect_neverFails A k E D (D.absD dst).acc ps _ _ []
    (newWriter_rel D a dst) (WInv_new A 65536 k (D.absD dst)) (by simpa using hlen)
  rw [List.nil_append] at hi
  obtain ⟨w2, hc, hacc⟩ := streamClose_tie DstSpec.perfect_neverFails A k E D (D.absD dst).acc w1 m1 ps.flatten hr hi hlen
  rw [hd, List.nil_append] at hacc
  have hrt := Props.C01.stream_roundtrip A hA hN 65536 (by decide) k ps.flatten
  have hdec : dec A 65536 k false 0 (encrypt A 65536 k ps.flatten) = (ps.flatten, .eof) := hrt
  have hcl : (encrypt A 65536 k ps.flatten).length < 2 ^ 88 - 1 := by
    have := enc_length_le A k E.hSealLen _ 0 ps.flatten (Nat.le_refl _)
    rw [← encrypt_eq_enc] at this
    omega
  obtain ⟨r', hdr⟩ := Props.C12.reader_refines_spec A 65536 (2 ^ 88) (by omega) k (encrypt A 65536 k ps.flatten) false
    (by omega) sizes hpos (by rw [hdec]; exact hlong)
  rw [hdec] at hdr
  have hb : (Reader.new ⟨encrypt A 65536 k ps.flatten, false⟩).Bounded (2 ^ 88 - 1) := by
    unfold Reader.Bounded; simp only [Reader.new]; omega
  obtain ⟨g', ge, hsr, he, _⟩ := streamReads_tie A k E sizes _ _ (reader_new_rel a (encrypt A 65536 k ps.flatten) false) hb
  rw [hdr] at hsr he
  simp only [rdErrRel, rdErr] at he
  subst he
  exact ⟨w1, w2, g', hw, hc, by rw [hacc]; exact hsr⟩

/-- the reading half on its own: the translated reader over the canonical encryption of `pt` returns `pt`, then io.EOF -/
theorem code_stream_read_back {α : Type} (A : AEAD) (hA : A.Correct) (hN : A.NonceSep) (k : Bytes) (E : AeadEnv α A k) (a : α)
    (pt : Bytes) (hlen : pt.length < 2 ^ 64) (sizes : List Nat) (hpos : ∀ s ∈ sizes, 0 < s)
    (hlong : pt.length + (encrypt A 65536 k pt).length + 1 < sizes.length) :
    ∃ r', streamReads E ⟨a, ⟨encrypt A 65536 k pt, false⟩, 0, 0, List.replicate 65552 0, none, List.replicate 12 0⟩ sizes =
      .ok (r', pt, Go.io_EOF) := by
  have hrt := Props.C01.stream_roundtrip A hA hN 65536 (by decide) k pt
  have hdec : dec A 65536 k false 0 (encrypt A 65536 k pt) = (pt, .eof) := hrt
  have hcl : (encrypt A 65536 k pt).length < 2 ^ 88 - 1 := by
    have := enc_length_le A k E.hSealLen _ 0 pt (Nat.le_refl _)
    rw [← encrypt_eq_enc] at this
    omega
  obtain ⟨r', hdr⟩ := Props.C12.reader_refines_spec A 65536 (2 ^ 88) (by omega) k (encrypt A 65536 k pt) false
    (by omega) sizes hpos (by rw [hdec]; exact hlong)
  rw [hdec] at hdr
  have hb : (Reader.new ⟨encrypt A 65536 k pt, false⟩).Bounded (2 ^ 88 - 1) := by
    unfold Reader.Bounded; simp only [Reader.new]; omega
  obtain ⟨g', ge, hsr, he, _⟩ := streamReads_tie A k E sizes _ _ (reader_new_rel a (encrypt A 65536 k pt) false) hb
  rw [hdr] at hsr he
  simp only [rdErrRel, rdErr] at he
  subst he
  exact ⟨g', hsr⟩

/-- an outcome whose Go error is io.EOF is the clean end -/
theorem rdErrRel_eof (o : Outcome) (h : rdErrRel Go.io_EOF (some o)) : o = .eof := by
  cases o <;> simp [rdErrRel, rdErr, Go.io_EOF, Go.io_ErrUnexpectedEOF, Go.io_srcErr] at h ⊢

/-- **exactly one payload per plaintext, about the code** (C02): whatever bytes `c` are presented as the payload, if
    the translated reader — called with any sequence of positive buffer sizes long enough to reach the end — has
    released `out` and then reports io.EOF, then `c` IS the canonical encryption of `out` under that key: re-split,
    re-flagged, reordered, truncated, extended or otherwise altered payloads never end cleanly. Needs only the
    functional laws of the AEAD. -/
theorem code_accepts_only_own_chunking {α : Type} (A : AEAD) (hA : A.Correct) (k : Bytes) (E : AeadEnv α A k) (a : α)
    (c : Bytes) (hc : c.length < 2 ^ 88 - 1) (sizes : List Nat) (hpos : ∀ s ∈ sizes, 0 < s)
    (hlong : (decrypt A 65536 k c).1.length + c.length + 1 < sizes.length) (g' : stream_Reader α) (out : Bytes)
    (h : streamReads E ⟨a, ⟨c, false⟩, 0, 0, List.replicate 65552 0, none, List.replicate 12 0⟩ sizes = .ok (g', out, Go.io_EOF)) :
    c = encrypt A 65536 k out := by
  have hdd : dec A 65536 k false 0 c = decrypt A 65536 k c := rfl
  obtain ⟨r', hdr⟩ := Props.C12.reader_refines_spec A 65536 (2 ^ 88) (by omega) k c false (by omega) sizes hpos
    (by rw [hdd]; exact hlong)
  have hb : (Reader.new ⟨c, false⟩).Bounded (2 ^ 88 - 1) := by
    unfold Reader.Bounded; simp only [Reader.new]; omega
  obtain ⟨g'', ge, hsr, he, _⟩ := streamReads_tie A k E sizes _ _ (reader_new_rel a c false) hb
  rw [hdr] at hsr he
  rw [h] at hsr
  simp only [Except.ok.injEq, Prod.mk.injEq] at hsr
  obtain ⟨_, hout, hge⟩ := hsr
  rw [← hge] at he
  have heof := rdErrRel_eof _ he
  rw [hdd] at hout heof
  exact Props.C02.accepts_only_own_chunking A hA 65536 (by decide) k c out (by rw [hout, ← heof])

end GoTie
end AgeModel
