/-
  Proofs.FileWrite — the Impl-layer Encrypt (+ Writer) writes exactly the Spec file.
-/
import Proofs.FileDecrypt
import Props.C12
namespace AgeModel
open Format Stream

/-- what a successful `Encrypt` call has established and written -/
theorem encryptInit_ok {S : DstSpec} (P : Prims) (tape : Bytes) (rs : List Recipient) (segs : List Nat) (d d2 : Dst S)
    (w : Stream.Writer S) (k t' : Bytes)
    (h : encryptInit P tape rs segs d = (.ok (w, k, t'), d2)) :
    ∃ fk stanzas t nonce, encryptHeader P tape rs = .ok (fk, stanzas, t) ∧ draw streamNonceSize t = some (nonce, t') ∧
      d2.acc = d.acc ++ marshal { stanzas := stanzas, mac := headerMAC P fk stanzas } ++ nonce ∧
      k = streamKey P fk nonce ∧ w = Stream.Writer.new d2 := by
  unfold encryptInit at h
  split at h
  · simp at h
  · rename_i fk stanzas t hh
    simp only at h
    split at h
    · simp at h
    · rename_i d1 hwa
      split at h
      · simp at h
      · rename_i nonce t2 hd
        split at h
        · simp at h
        · rename_i d3 hwn
          simp only [Prod.mk.injEq, Except.ok.injEq] at h
          obtain ⟨⟨rfl, rfl, rfl⟩, rfl⟩ := h
          refine ⟨fk, stanzas, t, nonce, hh, hd, ?_, rfl, rfl⟩
          rw [Dst.write_ok hwn, writeAll_ok _ _ _ hwa, segmentBy_flatten]

/-- with a destination that never fails, Encrypt succeeds whenever the header can be built and the tape suffices -/
theorem encryptInit_neverFails {S : DstSpec} (hS : S.NeverFails) (P : Prims) (tape : Bytes) (rs : List Recipient)
    (segs : List Nat) (d : Dst S) (fk : Bytes) (stanzas : List Stanza) (t nonce t' : Bytes)
    (hh : encryptHeader P tape rs = .ok (fk, stanzas, t)) (hd : draw streamNonceSize t = some (nonce, t')) :
    ∃ w d2, encryptInit P tape rs segs d = (.ok (w, streamKey P fk nonce, t'), d2) := by
  unfold encryptInit
  rw [hh]
  simp only
  have h1 := writeAll_neverFails hS (segmentBy segs (marshal { stanzas := stanzas, mac := headerMAC P fk stanzas })) d
  generalize hwa : writeAll d _ = r at h1
  obtain ⟨d1, ok⟩ := r
  simp only at h1; subst h1
  simp only [hd]
  have h2 := Dst.write_neverFails hS d1 nonce
  generalize hwn : d1.write nonce = r2 at h2
  obtain ⟨d2, ok2⟩ := r2
  simp only at h2; subst h2
  exact ⟨_, _, rfl⟩

end AgeModel
