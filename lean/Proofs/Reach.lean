/-
  Proofs.Reach — a run in which every call reported success performed only
  successful destination writes. `Reach d d'`: `d'` is reached from `d` by
  successful writes alone; any property of destinations that successful writes
  preserve therefore transfers from the start to the end of such a run.  This is
  what lets one writer (the armor writer) be the destination of another (the
  STREAM writer under Encrypt).
-/
import Proofs.FileWrite
namespace AgeModel
open Format Stream

variable {S : DstSpec}

inductive Reach : Dst S → Dst S → Prop
  | refl (d : Dst S) : Reach d d
  | step {d d1 d' : Dst S} (b : Bytes) : d.write b = (d1, true) → Reach d1 d' → Reach d d'

theorem Reach.trans {a b c : Dst S} (h1 : Reach a b) (h2 : Reach b c) : Reach a c := by
  induction h1 with
  | refl _ => exact h2
  | step bb hw _ ih => exact .step bb hw (ih h2)

theorem Reach.one {d d1 : Dst S} {b : Bytes} (h : d.write b = (d1, true)) : Reach d d1 := .step b h (.refl _)

/-- invariants preserved by successful writes transfer along `Reach` -/
theorem Reach.transfer {I : Dst S → Prop} (hI : ∀ d b d', I d → d.write b = (d', true) → I d')
    {d d' : Dst S} (h : Reach d d') (h0 : I d) : I d' := by
  induction h with
  | refl _ => exact h0
  | step b hw _ ih => exact ih (hI _ b _ h0 hw)

theorem writeAll_reach : ∀ (ps : List Bytes) (d d' : Dst S), writeAll d ps = (d', true) → Reach d d' := by
  intro ps
  induction ps with
  | nil => intro d d' h; simp only [writeAll, Prod.mk.injEq, and_true] at h; subst h; exact .refl _
  | cons p ps ih =>
    intro d d' h
    unfold writeAll at h
    split at h
    · rename_i d1 hw
      exact .step p hw (ih d1 d' h)
    · simp at h

theorem encryptInit_reach (P : Prims) (tape : Bytes) (rs : List Recipient) (segs : List Nat) (d d2 : Dst S)
    (w : Stream.Writer S) (k t' : Bytes) (h : encryptInit P tape rs segs d = (.ok (w, k, t'), d2)) : Reach d d2 := by
  unfold encryptInit at h
  split at h
  · simp at h
  · simp only at h
    split at h
    · simp at h
    · rename_i d1 hwa
      split at h
      · simp at h
      · split at h
        · simp at h
        · rename_i d3 hwn
          simp only [Prod.mk.injEq, Except.ok.injEq] at h
          obtain ⟨_, rfl⟩ := h
          exact (writeAll_reach _ _ _ hwa).trans (Reach.one hwn)

theorem flush_reach (A : AEAD) (C L : Nat) (k : Bytes) (w w' : Writer S) (last : Bool)
    (h : w.flush A C L k last = (w', none)) : Reach w.dst w'.dst := by
  unfold Writer.flush at h
  split at h
  · simp at h
  · generalize hw : w.dst.write (A.sealF k (nonce w.ctr last) w.buf) = r at h
    obtain ⟨d', ok⟩ := r
    simp only at h
    split at h
    · simp at h
    · simp only [Prod.mk.injEq] at h
      obtain ⟨hw', hok⟩ := h
      cases ok with
      | false => simp at hok
      | true => subst hw'; exact Reach.one hw

theorem fill_reach (A : AEAD) (C L : Nat) (k : Bytes) : ∀ (fuel : Nat) (w w' : Writer S) (p : Bytes),
    w.fill A C L k p fuel = (w', none) → Reach w.dst w'.dst := by
  intro fuel
  induction fuel with
  | zero => intro w w' p h; simp [Writer.fill] at h
  | succ fuel ih =>
    intro w w' p h
    unfold Writer.fill at h
    split at h
    · simp only [Prod.mk.injEq, and_true] at h; subst h; exact .refl _
    · simp only at h
      split at h
      · split at h
        · simp at h
        · rename_i w2 hf
          have h1 := flush_reach A C L k _ w2 false hf
          exact Reach.trans h1 (ih w2 w' _ h)
      · have h1 := ih _ w' _ h
        exact h1

theorem write_reach (A : AEAD) (C L : Nat) (k : Bytes) (w w' : Writer S) (p : Bytes) (n : Nat)
    (h : w.write A C L k p = (w', n, none)) : Reach w.dst w'.dst := by
  unfold Writer.write at h
  split at h
  · simp at h
  · split at h
    · simp only [Prod.mk.injEq, and_true] at h; obtain ⟨rfl, _⟩ := h; exact .refl _
    · split at h
      · simp at h
      · rename_i w2 hf
        simp only [Prod.mk.injEq, and_true] at h
        obtain ⟨rfl, _⟩ := h
        exact fill_reach A C L k _ w w2 p hf

theorem close_reach (A : AEAD) (C L : Nat) (k : Bytes) (w w' : Writer S)
    (h : w.close A C L k = (w', none)) : Reach w.dst w'.dst := by
  unfold Writer.close at h
  split at h
  · simp at h
  · split at h
    · simp at h
    · rename_i w2 hf
      simp only [Prod.mk.injEq, and_true] at h
      subst h
      exact flush_reach A C L k w w2 true hf

theorem run_reach (A : AEAD) (C L : Nat) (k : Bytes) : ∀ (ops : List WOp) (w : Writer S),
    (∀ r ∈ (w.run A C L k ops).2, r.2 = none) → Reach w.dst (w.run A C L k ops).1.dst := by
  intro ops
  induction ops with
  | nil => intro w _; exact .refl _
  | cons op ops ih =>
    intro w hall
    unfold Writer.run at hall ⊢
    generalize hs : w.step A C L k op = r1 at hall ⊢
    obtain ⟨w1, r⟩ := r1
    generalize hr : w1.run A C L k ops = r2 at hall ⊢
    obtain ⟨w2, rs⟩ := r2
    simp only at hall ⊢
    have hr0 : r.2 = none := hall r (by simp)
    have hrest : ∀ x ∈ (w1.run A C L k ops).2, x.2 = none := by
      intro x hx; exact hall x (by simp [hx])
    have h2 := ih w1 hrest
    rw [hr] at h2
    simp only at h2
    rw [hr]
    simp only
    refine Reach.trans ?_ h2
    cases op with
    | write p =>
      unfold Writer.step at hs
      generalize hw : w.write A C L k p = rw at hs
      obtain ⟨w', n, e⟩ := rw
      simp only [Prod.mk.injEq] at hs
      obtain ⟨hs1, hs2⟩ := hs
      rw [← hs2] at hr0
      rw [hw] at hr0 hs1
      simp only at hr0 hs1
      subst hr0 hs1
      exact write_reach A C L k w w' p n hw
    | close =>
      unfold Writer.step at hs
      generalize hw : w.close A C L k = rw at hs
      obtain ⟨w', e⟩ := rw
      simp only [Prod.mk.injEq] at hs
      obtain ⟨hs1, hs2⟩ := hs
      rw [← hs2] at hr0
      simp only at hr0
      subst hr0 hs1
      exact close_reach A C L k w w' hw

end AgeModel
