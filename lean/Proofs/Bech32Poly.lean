/-
  Proofs.Bech32Poly — algebra of `polymod`.

  `polymodStep chk v = L chk ^^^ v` with `L` XOR-linear on 30-bit states, hence
  the fold is XOR-linear jointly in (start state, input list).  From that:
  the checksum `createChecksum` appends is the unique 6-symbol suffix that
  makes `verifyChecksum` true.
-/
import AgeModel.Bech32
import Proofs.Bech32Bits
namespace AgeModel
namespace Bech32

/-- the generator contribution selected by the 5 bits of `top` -/
def G (top : Nat) : Nat :=
  feed top 4 0x2a1462b3 (feed top 3 0x3d4233dd (feed top 2 0x1ea119fa (feed top 1 0x26508e6d (feed top 0 0x3b6a57b2 0))))

/-- the state transition without input -/
def L (chk : Nat) : Nat := ((chk &&& 0x1ffffff) <<< 5) ^^^ G (chk >>> 25)

theorem feed_eq (top i g c : Nat) : feed top i g c = c ^^^ feed top i g 0 := by
  unfold feed; split <;> simp

theorem polymodStep_eq (chk : Nat) (v : UInt8) : polymodStep chk v = L chk ^^^ v.toNat := by
  simp only [polymodStep, L, G]
  rw [feed_eq _ 4, feed_eq _ 3, feed_eq _ 2, feed_eq _ 1, feed_eq _ 0]
  conv => rhs; rw [feed_eq _ 4, feed_eq _ 3, feed_eq _ 2, feed_eq _ 1]
  ac_rfl

theorem G_lin_fin : ∀ a : Fin 32, ∀ b : Fin 32, G (a.val ^^^ b.val) = G a.val ^^^ G b.val := by
  decide +kernel

theorem G_lin {a b : Nat} (ha : a < 32) (hb : b < 32) : G (a ^^^ b) = G a ^^^ G b :=
  G_lin_fin ⟨a, ha⟩ ⟨b, hb⟩

theorem G_lt (top : Nat) : G top < 2 ^ 30 := by
  unfold G feed
  repeat' split
  all_goals decide

theorem top_lt {a : Nat} (ha : a < 2 ^ 30) : a >>> 25 < 32 := by
  rw [Nat.shiftRight_eq_div_pow]
  apply Nat.div_lt_of_lt_mul
  exact ha

theorem L_lt (chk : Nat) : L chk < 2 ^ 30 := by
  unfold L
  apply Nat.xor_lt_two_pow _ (G_lt _)
  rw [Nat.shiftLeft_eq]
  have : chk &&& 0x1ffffff < 2 ^ 25 := by
    have := Nat.and_two_pow_sub_one_eq_mod chk 25
    have h2 : (2 : Nat) ^ 25 - 1 = 0x1ffffff := by decide
    rw [h2] at this
    rw [this]
    exact Nat.mod_lt _ (by decide)
  have e : (2 : Nat) ^ 30 = 2 ^ 25 * 2 ^ 5 := by decide
  rw [e]
  exact Nat.mul_lt_mul_of_pos_right this (by decide)

theorem L_lin {a b : Nat} (ha : a < 2 ^ 30) (hb : b < 2 ^ 30) : L (a ^^^ b) = L a ^^^ L b := by
  unfold L
  rw [Nat.and_xor_distrib_right, Nat.shiftLeft_xor_distrib, Nat.shiftRight_xor_distrib,
    G_lin (top_lt ha) (top_lt hb)]
  ac_rfl

theorem L_zero : L 0 = 0 := by decide

theorem polymodStep_lt (chk : Nat) (v : UInt8) : polymodStep chk v < 2 ^ 30 := by
  rw [polymodStep_eq]
  apply Nat.xor_lt_two_pow (L_lt _)
  have := v.toNat_lt
  omega

/-- one step is XOR-linear jointly in state and input -/
theorem polymodStep_lin {a b : Nat} (ha : a < 2 ^ 30) (hb : b < 2 ^ 30) (x y : UInt8) :
    polymodStep (a ^^^ b) (x ^^^ y) = polymodStep a x ^^^ polymodStep b y := by
  rw [polymodStep_eq, polymodStep_eq, polymodStep_eq, L_lin ha hb, UInt8.toNat_xor]
  ac_rfl

theorem foldl_polymodStep_lt {s : Nat} (hs : s < 2 ^ 30) : ∀ (vs : Bytes), vs.foldl polymodStep s < 2 ^ 30
  | [] => hs
  | v :: vs => by
    rw [List.foldl_cons]
    exact foldl_polymodStep_lt (polymodStep_lt s v) vs

theorem polymod_lt (vs : Bytes) : polymod vs < 2 ^ 30 :=
  foldl_polymodStep_lt (by decide) vs

/-- symbol-wise XOR of two strings -/
def xorBytes (x y : Bytes) : Bytes := List.zipWith (· ^^^ ·) x y

/-- the fold is XOR-linear jointly in the start state and the input -/
theorem foldl_polymodStep_lin : ∀ (x y : Bytes) (a b : Nat), x.length = y.length → a < 2 ^ 30 → b < 2 ^ 30 →
    (xorBytes x y).foldl polymodStep (a ^^^ b) = x.foldl polymodStep a ^^^ y.foldl polymodStep b
  | [], [], _, _, _, _, _ => rfl
  | [], _ :: _, _, _, h, _, _ => by simp at h
  | _ :: _, [], _, _, h, _, _ => by simp at h
  | u :: x, v :: y, a, b, h, ha, hb => by
    simp only [xorBytes, List.zipWith_cons_cons, List.foldl_cons]
    rw [polymodStep_lin ha hb]
    exact foldl_polymodStep_lin x y _ _ (by simpa using h) (polymodStep_lt _ _) (polymodStep_lt _ _)

/-! ## small states: the six checksum positions -/

theorem shl5_xor (s v : Nat) (hv : v < 32) : s <<< 5 ^^^ v = s * 32 + v := by
  have h1 := Nat.shiftLeft_add_eq_or_of_lt (i := 5) (b := v) hv s
  have h2 : s <<< 5 ^^^ v = s <<< 5 ||| v := by
    apply Nat.eq_of_testBit_eq
    intro i
    rw [Nat.testBit_xor, Nat.testBit_or, Nat.testBit_shiftLeft]
    by_cases hi : i ≥ 5
    · have : v.testBit i = false := by
        apply Nat.testBit_lt_two_pow
        exact Nat.lt_of_lt_of_le hv (Nat.pow_le_pow_right (n := 2) (by decide) hi)
      simp [this]
    · simp [hi]
  rw [h2, ← h1, Nat.shiftLeft_eq]

theorem polymodStep_small {s : Nat} (hs : s < 2 ^ 25) (v : UInt8) (hv : v.toNat < 32) :
    polymodStep s v = s * 32 + v.toNat := by
  rw [polymodStep_eq, L]
  have h1 : s >>> 25 = 0 := by rw [Nat.shiftRight_eq_div_pow]; exact Nat.div_eq_of_lt hs
  have h2 : s &&& 0x1ffffff = s := by
    have := Nat.and_two_pow_sub_one_eq_mod s 25
    have h2 : (2 : Nat) ^ 25 - 1 = 0x1ffffff := by decide
    rw [h2] at this
    rw [this, Nat.mod_eq_of_lt hs]
  have h3 : G 0 = 0 := by decide
  rw [h1, h2, h3, Nat.xor_zero, shl5_xor _ _ hv]

/-- six symbols read as a base-32 number -/
def pack6 (c0 c1 c2 c3 c4 c5 : Nat) : Nat := ((((c0 * 32 + c1) * 32 + c2) * 32 + c3) * 32 + c4) * 32 + c5

theorem foldl_zero_six (c0 c1 c2 c3 c4 c5 : UInt8) (h0 : c0.toNat < 32) (h1 : c1.toNat < 32) (h2 : c2.toNat < 32)
    (h3 : c3.toNat < 32) (h4 : c4.toNat < 32) (h5 : c5.toNat < 32) :
    [c0, c1, c2, c3, c4, c5].foldl polymodStep 0 =
      pack6 c0.toNat c1.toNat c2.toNat c3.toNat c4.toNat c5.toNat := by
  simp only [List.foldl_cons, List.foldl_nil, pack6]
  rw [polymodStep_small (by decide) c0 h0, polymodStep_small (by omega) c1 h1, polymodStep_small (by omega) c2 h2,
    polymodStep_small (by omega) c3 h3, polymodStep_small (by omega) c4 h4, polymodStep_small (by omega) c5 h5]
  omega

/-- appending six symbols instead of six zeros XORs their packed value into the result -/
theorem foldl_append_six (s : Nat) (hs : s < 2 ^ 30) (c0 c1 c2 c3 c4 c5 : UInt8) (h0 : c0.toNat < 32) (h1 : c1.toNat < 32)
    (h2 : c2.toNat < 32) (h3 : c3.toNat < 32) (h4 : c4.toNat < 32) (h5 : c5.toNat < 32) :
    [c0, c1, c2, c3, c4, c5].foldl polymodStep s =
      ([0, 0, 0, 0, 0, 0] : Bytes).foldl polymodStep s ^^^ pack6 c0.toNat c1.toNat c2.toNat c3.toNat c4.toNat c5.toNat := by
  have h := foldl_polymodStep_lin [0, 0, 0, 0, 0, 0] [c0, c1, c2, c3, c4, c5] s 0 rfl hs (by decide)
  rw [foldl_zero_six c0 c1 c2 c3 c4 c5 h0 h1 h2 h3 h4 h5] at h
  rw [← h]
  simp [xorBytes]

theorem pack6_digits (m : Nat) (h : m < 2 ^ 30) :
    pack6 (m / 2 ^ 25 % 32) (m / 2 ^ 20 % 32) (m / 2 ^ 15 % 32) (m / 2 ^ 10 % 32) (m / 2 ^ 5 % 32) (m / 2 ^ 0 % 32) = m := by
  unfold pack6; omega

theorem digits_pack6 (c0 c1 c2 c3 c4 c5 : Nat) (h0 : c0 < 32) (h1 : c1 < 32) (h2 : c2 < 32) (h3 : c3 < 32)
    (h4 : c4 < 32) (h5 : c5 < 32) :
    pack6 c0 c1 c2 c3 c4 c5 / 2 ^ 25 % 32 = c0 ∧ pack6 c0 c1 c2 c3 c4 c5 / 2 ^ 20 % 32 = c1 ∧
    pack6 c0 c1 c2 c3 c4 c5 / 2 ^ 15 % 32 = c2 ∧ pack6 c0 c1 c2 c3 c4 c5 / 2 ^ 10 % 32 = c3 ∧
    pack6 c0 c1 c2 c3 c4 c5 / 2 ^ 5 % 32 = c4 ∧ pack6 c0 c1 c2 c3 c4 c5 / 2 ^ 0 % 32 = c5 := by
  unfold pack6; omega

theorem length_six {α : Type} (l : List α) (h : l.length = 6) : ∃ a b c d e f, l = [a, b, c, d, e, f] := by
  match l, h with
  | [a, b, c, d, e, f], _ => exact ⟨a, b, c, d, e, f, rfl⟩

theorem mask31 (x : Nat) : x % 256 &&& 31 = x % 32 := mask_eq_mod (t := 5) (by decide) x

theorem digit_toNat (x : Nat) : ((x % 256 &&& 31).toUInt8).toNat = x % 32 := by
  rw [mask31]
  have : x % 32 < 32 := Nat.mod_lt _ (by decide)
  simp only [Nat.toUInt8, UInt8.toNat_ofNat']
  omega

/-- `createChecksum` in terms of the state before the six zeros -/
theorem createChecksum_eq (hrp data : Bytes) :
    createChecksum hrp data =
      let m := ([0, 0, 0, 0, 0, 0] : Bytes).foldl polymodStep (polymod (hrpExpand hrp ++ data)) ^^^ 1
      [((m >>> 25) % 256 &&& 31).toUInt8, ((m >>> 20) % 256 &&& 31).toUInt8, ((m >>> 15) % 256 &&& 31).toUInt8,
       ((m >>> 10) % 256 &&& 31).toUInt8, ((m >>> 5) % 256 &&& 31).toUInt8, ((m >>> 0) % 256 &&& 31).toUInt8] := by
  simp only [createChecksum, polymod, List.foldl_append, List.map_cons, List.map_nil]

theorem createChecksum_length (hrp data : Bytes) : (createChecksum hrp data).length = 6 := by
  simp [createChecksum]

theorem createChecksum_lt (hrp data : Bytes) : ∀ x ∈ createChecksum hrp data, x.toNat < 32 := by
  intro x hx
  simp only [createChecksum, List.map_cons, List.map_nil] at hx
  have hd : ∀ y, ((y % 256 &&& 31).toUInt8).toNat < 32 := by
    intro y; rw [digit_toNat]; exact Nat.mod_lt _ (by decide)
  simp only [List.mem_cons, List.not_mem_nil, or_false] at hx
  rcases hx with rfl | rfl | rfl | rfl | rfl | rfl <;> exact hd _

/-- the appended checksum verifies -/
theorem verify_createChecksum (hrp data : Bytes) :
    verifyChecksum hrp (data ++ createChecksum hrp data) = true := by
  have hS := polymod_lt (hrpExpand hrp ++ data)
  rw [createChecksum_eq]
  generalize hm : ([0, 0, 0, 0, 0, 0] : Bytes).foldl polymodStep (polymod (hrpExpand hrp ++ data)) = z
  have hz : z < 2 ^ 30 := by rw [← hm]; exact foldl_polymodStep_lt hS _
  have hm1 : z ^^^ 1 < 2 ^ 30 := Nat.xor_lt_two_pow hz (by decide)
  simp only [verifyChecksum, polymod, ← List.append_assoc, beq_iff_eq]
  rw [List.foldl_append]
  have hd : ∀ y, ((y % 256 &&& 31).toUInt8).toNat < 32 := by
    intro y; rw [digit_toNat]; exact Nat.mod_lt _ (by decide)
  have := foldl_append_six (polymod (hrpExpand hrp ++ data)) hS _ _ _ _ _ _ (hd ((z ^^^ 1) >>> 25)) (hd ((z ^^^ 1) >>> 20))
    (hd ((z ^^^ 1) >>> 15)) (hd ((z ^^^ 1) >>> 10)) (hd ((z ^^^ 1) >>> 5)) (hd ((z ^^^ 1) >>> 0))
  simp only [polymod] at this hm
  rw [this, hm]
  simp only [digit_toNat, Nat.shiftRight_eq_div_pow]
  rw [pack6_digits _ hm1, ← Nat.xor_assoc, Nat.xor_self, Nat.zero_xor]

/-- a checksum that verifies is the one `createChecksum` computes -/
theorem verify_unique (hrp data c : Bytes) (hlen : c.length = 6) (hlt : ∀ x ∈ c, x.toNat < 32)
    (hv : verifyChecksum hrp (data ++ c) = true) : c = createChecksum hrp data := by
  obtain ⟨c0, c1, c2, c3, c4, c5, rfl⟩ := length_six c hlen
  have hS := polymod_lt (hrpExpand hrp ++ data)
  rw [createChecksum_eq]
  generalize hm : ([0, 0, 0, 0, 0, 0] : Bytes).foldl polymodStep (polymod (hrpExpand hrp ++ data)) = z
  have hz : z < 2 ^ 30 := by rw [← hm]; exact foldl_polymodStep_lt hS _
  simp only [verifyChecksum, polymod, ← List.append_assoc, beq_iff_eq] at hv
  rw [List.foldl_append] at hv
  have h0 := hlt c0 (by simp)
  have h1 := hlt c1 (by simp)
  have h2 := hlt c2 (by simp)
  have h3 := hlt c3 (by simp)
  have h4 := hlt c4 (by simp)
  have h5 := hlt c5 (by simp)
  have := foldl_append_six (polymod (hrpExpand hrp ++ data)) hS c0 c1 c2 c3 c4 c5 h0 h1 h2 h3 h4 h5
  simp only [polymod] at this hm
  rw [this, hm] at hv
  -- z ^^^ pack = 1  →  z ^^^ 1 = pack
  have hp : z ^^^ 1 = pack6 c0.toNat c1.toNat c2.toNat c3.toNat c4.toNat c5.toNat := by
    rw [← hv, ← Nat.xor_assoc, Nat.xor_self, Nat.zero_xor]
  simp only []
  rw [hp]
  have hd := digits_pack6 c0.toNat c1.toNat c2.toNat c3.toNat c4.toNat c5.toNat h0 h1 h2 h3 h4 h5
  simp only [Nat.shiftRight_eq_div_pow]
  obtain ⟨d0, d1, d2, d3, d4, d5⟩ := hd
  simp only [List.cons.injEq, and_true]
  refine ⟨?_, ?_, ?_, ?_, ?_, ?_⟩ <;> apply UInt8.toNat_inj.mp <;> rw [digit_toNat] <;> omega

end Bech32
end AgeModel
