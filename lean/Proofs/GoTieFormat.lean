/-
  Proofs.GoTieFormat — the stanza reader of the header parser, as it stands in the source.

  `(*StanzaReader).ReadStanza` (internal/format/format.go) is TRANSLATED on every run
  (AgeModel/Extracted/Funcs.lean): the sticky error with its `defer`, the two
  `bufio.Reader.ReadBytes` calls, the opening-line checks through `splitArgs` and
  `isValidString` (themselves translated), the body-line loop. `format.DecodeString` is
  kept abstract and assumed to be the model's `decodeString` (hypothesis `hD`; the model's
  strict base64 is tied to Go's by the C07 correspondence). For EVERY input the translated
  function returns what the model's `Format.readStanza` returns: the same stanza and the
  same unread remainder, or an error — and an error is remembered (sticky).
-/
import AgeModel.GoSem
import AgeModel.Format
import AgeModel.Extracted.Funcs
import Proofs.GoTieFmtStr
import Proofs.GoTieLines
namespace AgeModel
namespace GoTie
open Extracted

theorem loop1_eq (line : Bytes) : ∀ (args : List Bytes) (r : format_StanzaReader) (s : format_Stanza) (err : Option Go.Err),
    format_StanzaReader_ReadStanza_loop1 line args r s err =
      .ok (if args.all Format.validString then .next (r, s, err)
           else .ret (({ Type_ := [], Args := [], Body := [] } : format_Stanza),
                  some (Go.Err.mk "format.(*StanzaReader).ReadStanza" 3 []),
                  { r with err := some (Go.Err.mk "format.(*StanzaReader).ReadStanza" 3 []) }))
  | [], r, s, err => rfl
  | a :: rest, r, s, err => by
    simp only [format_StanzaReader_ReadStanza_loop1, isValidString_tie, bind, Except.bind, List.all_cons]
    by_cases hv : Format.validString a = true
    · simp only [hv, Bool.not_true, Bool.false_eq_true, if_false, Bool.true_and]
      exact loop1_eq line rest r s err
    · have hv' := Bool.eq_false_iff.mpr hv
      simp only [hv', Bool.not_false, if_true, Bool.false_and, Bool.false_eq_true, if_false]; rfl

theorem loop2_eq (D : Bytes → Go.M (Bytes × Option Go.Err)) (eD : Go.Err) (hD : DecodeIsModel D eD) :
    ∀ (fuel : Nat) (r : format_StanzaReader) (s : format_Stanza) (err : Option Go.Err),
    (∀ body rest, Format.readBody fuel r.r s.Body = .ok (body, rest) →
       format_StanzaReader_ReadStanza_loop2 D fuel r s err =
         .ok (.ret ({ s with Body := body }, none, ⟨rest, none⟩))) ∧
    (∀ e, Format.readBody fuel r.r s.Body = .error e → e ≠ .fuel →
       ∃ res, format_StanzaReader_ReadStanza_loop2 D fuel r s err = .ok (.ret res) ∧
         res.2.1 ≠ none ∧ res.2.2.err = res.2.1)
  | 0, r, s, err => by
    constructor
    · intro body rest h; simp [Format.readBody] at h
    · intro e h hne; simp only [Format.readBody, Except.error.injEq] at h; exact absurd h.symm hne
  | fuel + 1, r, s, err => by
    have ih := loop2_eq D eD hD fuel
    cases htl : Format.takeLine r.r with
    | none =>
      simp only [Format.readBody, htl, format_StanzaReader_ReadStanza_loop2, readBytes_none _ htl,
        Go.ioEOF, some_bne_none, if_true]
      constructor
      · intro body rest h; cases h
      · intro e h hne
        exact ⟨_, rfl, by simp, rfl⟩
    | some p =>
      obtain ⟨l, r'⟩ := p
      simp only [Format.readBody, htl, format_StanzaReader_ReadStanza_loop2, readBytes_some _ _ _ htl,
        none_bne_none, Bool.false_eq_true, if_false, trimSuffix_nl, hD l, bind, Except.bind]
      cases hd : Format.decodeString l with
      | none =>
        simp only [some_bne_none, if_true]
        constructor
        · intro body rest h; cases h
        · intro e h hne
          split
          · exact ⟨_, rfl, by simp, rfl⟩
          · exact ⟨_, rfl, by simp, rfl⟩
      | some d =>
        simp only [none_bne_none, Bool.false_eq_true, if_false]
        have hg : (Go.len d > 48) ↔ d.length > 48 := by
          simp only [Go.len, Int.ofNat_eq_natCast]; omega
        have hl : (Go.len d < 48) ↔ d.length < 48 := by
          simp only [Go.len, Int.ofNat_eq_natCast]; omega
        simp only [decide_eq_true_eq, hg, hl]
        by_cases h1 : d.length > 48
        · simp only [h1, if_true]
          constructor
          · intro body rest h; cases h
          · intro e h hne
            exact ⟨_, rfl, by simp, rfl⟩
        · simp only [h1, if_false]
          by_cases h2 : d.length < 48
          · simp only [h2, if_true]
            constructor
            · intro body rest h
              simp only [Except.ok.injEq, Prod.mk.injEq] at h
              rw [← h.1, ← h.2]; rfl
            · intro e h hne; cases h
          · simp only [h2, if_false]
            exact ih ⟨r', r.err⟩ { Type_ := s.Type_, Args := s.Args, Body := s.Body ++ d } err

theorem readBody_no_fuel : ∀ (fuel : Nat) (rd acc : Bytes), rd.length < fuel →
    Format.readBody fuel rd acc ≠ .error .fuel
  | 0, rd, acc, h => by omega
  | fuel + 1, rd, acc, h => by
    simp only [Format.readBody]
    cases htl : Format.takeLine rd with
    | none => simp
    | some p =>
      obtain ⟨l, r'⟩ := p
      have hlen := takeLine_length rd l r' htl
      simp only []
      cases Format.decodeString l with
      | none => simp
      | some d =>
        simp only []
        split
        · simp
        · split
          · simp
          · exact readBody_no_fuel fuel r' (acc ++ d) (by omega)

theorem splitSp_head_prefix : ∀ (l h : Bytes) (t : List Bytes), Format.splitSp l = h :: t → h.isPrefixOf l = true
  | [], h, t, e => by
    simp only [Format.splitSp, List.cons.injEq] at e
    rw [← e.1]; rfl
  | c :: cs, h, t, e => by
    by_cases hc : c = Format.sp
    · simp only [Format.splitSp, hc, if_true, List.cons.injEq] at e
      rw [← e.1]; rfl
    · simp only [Format.splitSp, hc, if_false] at e
      cases hs : Format.splitSp cs with
      | nil =>
        rw [hs] at e
        simp only [List.cons.injEq] at e
        rw [← e.1]; simp
      | cons h' t' =>
        rw [hs] at e
        simp only [List.cons.injEq] at e
        rw [← e.1]
        have := splitSp_head_prefix cs h' t' hs
        simp [this]

theorem hasPrefix_of_split (l : Bytes) (t : List Bytes) (e : Format.splitSp l = Format.stanzaPrefix :: t) :
    Go.strings_HasPrefix (l ++ [Format.nl]) format_stanzaPrefix = true := by
  have h := splitSp_head_prefix l _ t e
  simp only [Go.strings_HasPrefix]
  rw [List.isPrefixOf_iff_prefix] at h ⊢
  exact List.IsPrefix.trans h (List.prefix_append _ _)

theorem splitSp_ne_nil (l : Bytes) : ∃ h t, Format.splitSp l = h :: t := by
  obtain ⟨h, t, e, _⟩ := splitByte_splitSp l []
  exact ⟨h, t, e⟩

theorem readStanza_tie (D : Bytes → Go.M (Bytes × Option Go.Err)) (eD : Go.Err) (hD : DecodeIsModel D eD)
    (input : Bytes) :
    ∃ res, format_StanzaReader_ReadStanza D ⟨input, none⟩ = .ok res ∧
      match Format.readStanza input with
      | .ok (st, rest) => res = (toGoFStanza st, none, ⟨rest, none⟩)
      | .error _ => res.2.1 ≠ none ∧ res.2.2.err = res.2.1 := by
  cases htl : Format.takeLine input with
  | none =>
    simp only [format_StanzaReader_ReadStanza, none_bne_none, Bool.false_eq_true, if_false,
      readBytes_none _ htl, Go.ioEOF, some_bne_none, if_true, Format.readStanza, htl]
    exact ⟨_, rfl, by simp, rfl⟩
  | some p =>
    obtain ⟨l, r'⟩ := p
    simp only [format_StanzaReader_ReadStanza, none_bne_none, Bool.false_eq_true, if_false,
      readBytes_some _ _ _ htl, Format.readStanza, htl]
    obtain ⟨h, t, hs⟩ := splitSp_ne_nil l
    by_cases hp : h = Format.stanzaPrefix
    · subst hp
      simp only [hasPrefix_of_split l t hs, Bool.not_true, Bool.false_eq_true, if_false, splitArgs_tie, hs,
        bind, Except.bind]
      cases t with
      | nil =>
        have : (([45, 62] : List UInt8) != format_stanzaPrefix || decide (Go.len ([] : List Bytes) < 1)) = true := by decide
        simp only [Format.stanzaPrefix, this, if_true]
        exact ⟨_, rfl, by simp, rfl⟩
      | cons t0 args =>
        have hc : (Format.stanzaPrefix != format_stanzaPrefix || decide (Go.len (t0 :: args) < 1)) = false := by
          have : ¬ (Go.len (t0 :: args) < 1) := by
            simp only [Go.len, List.length_cons, Int.ofNat_eq_natCast]; omega
          simp only [this, decide_false, Bool.or_false]; decide
        have hidx : Go.idx (t0 :: args) 0 = .ok t0 := rfl
        have hsl : Go.slice (t0 :: args) 1 (Go.len (t0 :: args)) = .ok args := by
          have h1 : (0 : Int) ≤ 1 ∧ (1 : Int) ≤ Go.len (t0 :: args) ∧ Go.len (t0 :: args) ≤ Int.ofNat (t0 :: args).length := by
            simp only [Go.len, List.length_cons, Int.ofNat_eq_natCast]; omega
          simp only [Go.slice, h1, and_self, if_true]
          simp [Go.len]
        simp only [hc, Bool.false_eq_true, if_false, loop1_eq, true_and]
        by_cases hv : (t0 :: args).all Format.validString = true
        · simp only [hv, if_true, hidx, hsl]
          have hfuel : (Go.len r').toNat + 1 = r'.length + 1 := by simp [Go.len]
          rw [hfuel]
          have h2 := loop2_eq D eD hD (r'.length + 1) ⟨r', none⟩ ⟨t0, args, []⟩ none
          cases hb : Format.readBody (r'.length + 1) r' [] with
          | ok br =>
            obtain ⟨body, r''⟩ := br
            simp only [h2.1 body r'' hb]
            exact ⟨_, rfl, rfl⟩
          | error e =>
            have hne : e ≠ .fuel := by
              intro he; subst he
              exact readBody_no_fuel _ r' [] (Nat.lt_succ_self _) hb
            obtain ⟨res, e1, e2, e3⟩ := h2.2 e hb hne
            simp only [e1]
            exact ⟨_, rfl, e2, e3⟩
        · simp only [hv]
          exact ⟨_, rfl, by simp, rfl⟩
    · have hne : (h != format_stanzaPrefix) = true := by
        simp only [bne_iff_ne, ne_eq]; exact hp
      simp only [hs, splitArgs_tie, bind, Except.bind, hne, Bool.true_or, if_true]
      cases hpre : Go.strings_HasPrefix (l ++ [Format.nl]) format_stanzaPrefix with
      | false =>
        simp only [Bool.not_false, if_true]
        refine ⟨_, rfl, ?_⟩
        cases t with
        | nil => exact ⟨by simp, rfl⟩
        | cons t0 args => simp [hp]
      | true =>
        simp only [Bool.not_true, Bool.false_eq_true, if_false]
        refine ⟨_, rfl, ?_⟩
        cases t with
        | nil => exact ⟨by simp, rfl⟩
        | cons t0 args => simp [hp]

/-- read errors are unrecoverable: once an error was returned, every later call returns it, reading nothing -/
theorem readStanza_sticky (D : Bytes → Go.M (Bytes × Option Go.Err)) (rd : Bytes) (e : Go.Err) :
    format_StanzaReader_ReadStanza D ⟨rd, some e⟩ =
      .ok (({ Type_ := [], Args := [], Body := [] } : format_Stanza), some e, ⟨rd, some e⟩) := by
  simp only [format_StanzaReader_ReadStanza, some_bne_none, if_true]; rfl

/-! ## format.Parse

The whole header parser: intro line, the `Peek`/`ReadStanza` loop, the closing line with the
MAC. Translated up to the point where the Go code hands the unread input back (the tail that
unwinds bufio's read-ahead is outside the fragment: in the value semantics used here the
payload IS the unread remainder `rr`, which is what the model returns; that the real tail
delivers exactly those bytes is checked by the correspondence, suites C07/C12). The stanza
reader `sr` is built around the same reader `rr` (funcSpec.alias keeps the two in step). -/

def toGoHeader (h : Format.Header) : format_Header := ⟨h.stanzas.map toGoFStanza, h.mac⟩

theorem readBody_length : ∀ (fuel : Nat) (rd acc body rest : Bytes),
    Format.readBody fuel rd acc = .ok (body, rest) → rest.length < rd.length
  | 0, rd, acc, body, rest, h => by simp [Format.readBody] at h
  | fuel + 1, rd, acc, body, rest, h => by
    simp only [Format.readBody] at h
    cases htl : Format.takeLine rd with
    | none => rw [htl] at h; cases h
    | some p =>
      obtain ⟨l, r'⟩ := p
      have hlen := takeLine_length rd l r' htl
      rw [htl] at h
      simp only [] at h
      cases hd : Format.decodeString l with
      | none => rw [hd] at h; cases h
      | some d =>
        rw [hd] at h
        simp only [] at h
        split at h
        · cases h
        · split at h
          · simp only [Except.ok.injEq, Prod.mk.injEq] at h
            rw [← h.2]; exact hlen
          · have := readBody_length fuel r' (acc ++ d) body rest h
            omega

theorem readStanza_length (r r' : Bytes) (s : Format.Stanza) (h : Format.readStanza r = .ok (s, r')) :
    r'.length < r.length := by
  simp only [Format.readStanza] at h
  cases htl : Format.takeLine r with
  | none => rw [htl] at h; cases h
  | some p =>
    obtain ⟨l, r1⟩ := p
    have hlen := takeLine_length r l r1 htl
    rw [htl] at h
    simp only [] at h
    split at h
    · split at h
      · cases hb : Format.readBody (r1.length + 1) r1 [] with
        | error e => rw [hb] at h; cases h
        | ok br =>
          obtain ⟨body, r''⟩ := br
          rw [hb] at h
          simp only [Except.ok.injEq, Prod.mk.injEq] at h
          have := readBody_length _ _ _ _ _ hb
          rw [← h.2]; omega
      · cases h
    · cases h

theorem readStanza_no_fuel (r : Bytes) : Format.readStanza r ≠ .error .fuel := by
  simp only [Format.readStanza]
  cases htl : Format.takeLine r with
  | none => simp
  | some p =>
    obtain ⟨l, r1⟩ := p
    simp only []
    split
    · split
      · cases hb : Format.readBody (r1.length + 1) r1 [] with
        | error e =>
          simp only [ne_eq, Except.error.injEq]
          intro he; subst he
          exact readBody_no_fuel _ r1 [] (Nat.lt_succ_self _) hb
        | ok br => simp
      · simp
    · simp

theorem readFooter_no_fuel (r : Bytes) : Format.readFooter r ≠ .error .fuel := by
  simp only [Format.readFooter]
  repeat' split
  all_goals simp

theorem readStanzas_no_fuel : ∀ (fuel : Nat) (r : Bytes) (acc : List Format.Stanza), r.length < fuel →
    Format.readStanzas fuel r acc ≠ .error .fuel
  | 0, r, acc, h => by omega
  | fuel + 1, r, acc, h => by
    simp only [Format.readStanzas]
    split
    · simp
    · split
      · cases hf : Format.readFooter r with
        | error e =>
          simp only [ne_eq, Except.error.injEq]
          intro he; subst he; exact readFooter_no_fuel r hf
        | ok p => simp
      · cases hs : Format.readStanza r with
        | error e =>
          simp only [ne_eq, Except.error.injEq]
          intro he; subst he; exact readStanza_no_fuel r hs
        | ok p =>
          obtain ⟨s, r'⟩ := p
          have := readStanza_length r r' s hs
          exact readStanzas_no_fuel fuel r' (s :: acc) (by omega)

theorem peek3 (rr : Bytes) : Go.bufio_Peek rr (Go.len format_footerPrefix) =
    if rr.length < 3 then (rr, Go.ioEOF) else (rr.take 3, none) := by
  have : (Go.len format_footerPrefix).toNat = 3 := rfl
  simp only [Go.bufio_Peek, this]
  by_cases h : rr.length < 3
  · have h' : ¬ 3 ≤ rr.length := by omega
    simp only [h, h', if_true, if_false]
  · have h' : 3 ≤ rr.length := by omega
    simp only [h, h', if_true, if_false]

theorem hfp : (Format.footerPrefix == format_footerPrefix) = true := by decide

theorem parse_loop_eq (D : Bytes → Go.M (Bytes × Option Go.Err)) (eD : Go.Err) (hD : DecodeIsModel D eD) :
    ∀ (fuel : Nat) (h : format_Header) (rr x : Bytes) (acc : List Format.Stanza),
    h.Recipients = acc.reverse.map toGoFStanza →
    (∀ hd rest, Format.readStanzas fuel rr acc = .ok (hd, rest) →
       ∃ sr', format_Parse_loop1 D fuel h rr ⟨x, none⟩ = .ok (.next (toGoHeader hd, rest, sr'))) ∧
    (∀ e, Format.readStanzas fuel rr acc = .error e → e ≠ .fuel →
       ∃ res, format_Parse_loop1 D fuel h rr ⟨x, none⟩ = .ok (.ret res) ∧ res.2.2 ≠ none)
  | 0, h, rr, x, acc, hh => by
    constructor
    · intro hd rest h; simp [Format.readStanzas] at h
    · intro e h hne; simp only [Format.readStanzas, Except.error.injEq] at h; exact absurd h.symm hne
  | fuel + 1, h, rr, x, acc, hh => by
    have ih := parse_loop_eq D eD hD fuel
    simp only [Format.readStanzas, format_Parse_loop1, peek3]
    by_cases h3 : rr.length < 3
    · simp only [h3, if_true, Go.ioEOF, some_bne_none]
      constructor
      · intro hd rest h; cases h
      · intro e h hne; exact ⟨_, rfl, by simp⟩
    · simp only [h3, if_false, none_bne_none, Bool.false_eq_true, Go.bytes_Equal]
      by_cases hf : rr.take 3 = Format.footerPrefix
      · have hf' : (rr.take 3 == format_footerPrefix) = true := by
          simp only [beq_iff_eq]; exact hf
        simp only [hf, hfp, if_true, Format.readFooter]
        cases htl : Format.takeLine rr with
        | none =>
          simp only [readBytes_none _ htl, Go.ioEOF, some_bne_none, if_true]
          constructor
          · intro hd rest h; cases h
          · intro e h hne; exact ⟨_, rfl, by simp⟩
        | some p =>
          obtain ⟨l, r'⟩ := p
          simp only [readBytes_some _ _ _ htl, none_bne_none, Bool.false_eq_true, if_false, splitArgs_tie,
            bind, Except.bind]
          obtain ⟨h0, t, hs⟩ := splitSp_ne_nil l
          simp only [hs]
          have hlen : ∀ (a b : Bytes) (t' : List Bytes), (Go.len (a :: b :: t') != 1) = true := by
            intro a b t'
            simp only [bne_iff_ne, Go.len, List.length_cons, Int.ofNat_eq_natCast, ne_eq]; omega
          match t with
          | [] =>
            have : (Go.len ([] : List Bytes) != 1) = true := by decide
            simp only [this, Bool.or_true, if_true]
            constructor
            · intro hd rest h; cases h
            · intro e h hne; exact ⟨_, rfl, by simp⟩
          | a :: b :: t' =>
            simp only [hlen, Bool.or_true, if_true]
            constructor
            · intro hd rest h; cases h
            · intro e h hne; exact ⟨_, rfl, by simp⟩
          | [m] =>
            have h1 : (Go.len [m] != 1) = false := rfl
            have hidx : Go.idx [m] 0 = .ok m := rfl
            by_cases hp : h0 = Format.footerPrefix
            · subst hp
              have hne : (Format.footerPrefix != format_footerPrefix) = false := by decide
              simp only [h1, hne, Bool.or_false, Bool.false_eq_true, if_false, if_true, hidx, hD m]
              cases hd : Format.decodeString m with
              | none =>
                simp only [some_bne_none, Bool.true_or, if_true]
                constructor
                · intro hd rest h; cases h
                · intro e h hne; exact ⟨_, rfl, by simp⟩
              | some mac =>
                simp only [none_bne_none, Bool.false_or]
                by_cases h32 : mac.length = 32
                · have hb : (Go.len mac != 32) = false := by
                    simp only [bne_eq_false_iff_eq, Go.len, Int.ofNat_eq_natCast]; omega
                  simp only [h32, hb, if_true, Bool.false_eq_true, if_false]
                  constructor
                  · intro hd rest hq
                    simp only [Except.ok.injEq, Prod.mk.injEq] at hq
                    refine ⟨⟨x, none⟩, ?_⟩
                    rw [← hq.1, ← hq.2, hh]; rfl
                  · intro e h hne; cases h
                · have hb : (Go.len mac != 32) = true := by
                    simp only [bne_iff_ne, Go.len, Int.ofNat_eq_natCast, ne_eq]; omega
                  simp only [h32, hb, if_true, if_false]
                  constructor
                  · intro hd rest h; cases h
                  · intro e h hne; exact ⟨_, rfl, by simp⟩
            · have hne : (h0 != format_footerPrefix) = true := by
                simp only [bne_iff_ne, ne_eq]; exact hp
              simp only [hne, Bool.true_or, if_true, hp, if_false]
              constructor
              · intro hd rest h; cases h
              · intro e h hne; exact ⟨_, rfl, by simp⟩
      · have hf' : (rr.take 3 == format_footerPrefix) = false := by
          simp only [beq_eq_false_iff_ne, ne_eq]; exact hf
        simp only [hf, hf', if_false, Bool.false_eq_true, bind, Except.bind]
        obtain ⟨res, hres, hm⟩ := readStanza_tie D eD hD rr
        rw [hres]
        cases hs : Format.readStanza rr with
        | error e0 =>
          rw [hs] at hm
          simp only [] at hm
          have hb : (res.2.1 != none) = true := by simp only [bne_iff_ne]; exact hm.1
          simp only [hb, if_true]
          constructor
          · intro hd rest h; cases h
          · intro e h hne; exact ⟨_, rfl, by simp⟩
        | ok p =>
          obtain ⟨st, r'⟩ := p
          rw [hs] at hm
          simp only [] at hm
          subst hm
          simp only [none_bne_none, Bool.false_eq_true, if_false]
          exact ih _ r' r' (st :: acc) (by simp only [hh, List.reverse_cons, List.map_append, List.map_cons, List.map_nil])

theorem parse_tie (D : Bytes → Go.M (Bytes × Option Go.Err)) (eD : Go.Err) (hD : DecodeIsModel D eD)
    (input : Bytes) :
    ∃ res, format_Parse D input = .ok res ∧
      match Format.parse input with
      | .ok (h, rest) => res = (toGoHeader h, rest, none)
      | .error _ => res.2.2 ≠ none := by
  cases htl : Format.takeLine input with
  | none =>
    simp only [format_Parse, Format.parse, htl, readBytes_none _ htl, Go.ioEOF, some_bne_none, if_true]
    exact ⟨_, rfl, by simp⟩
  | some p =>
    obtain ⟨l, r⟩ := p
    simp only [format_Parse, Format.parse, htl, readBytes_some _ _ _ htl, none_bne_none, Bool.false_eq_true,
      if_false]
    by_cases hi : l ++ [Format.nl] = Format.intro
    · have hlit : (Format.intro != ([97, 103, 101, 45, 101, 110, 99, 114, 121, 112, 116, 105, 111, 110, 46, 111, 114, 103, 47, 118, 49, 10] : List UInt8)) = false := by decide
      simp only [hi, hlit, Bool.false_eq_true, if_false, if_true, format_NewStanzaReader, bind, Except.bind,
        pure, Except.pure]
      have hfuel : (Go.len r).toNat + 1 = r.length + 1 := by simp [Go.len]
      rw [hfuel]
      have h2 := parse_loop_eq D eD hD (r.length + 1) ⟨[], []⟩ r r [] rfl
      cases hb : Format.readStanzas (r.length + 1) r [] with
      | ok p =>
        obtain ⟨hd, rest⟩ := p
        obtain ⟨sr', e1⟩ := h2.1 hd rest hb
        simp only [e1]
        exact ⟨_, rfl, rfl⟩
      | error e =>
        have hne : e ≠ .fuel := by
          intro he; subst he
          exact readStanzas_no_fuel _ r [] (Nat.lt_succ_self _) hb
        obtain ⟨res, e1, e2⟩ := h2.2 e hb hne
        simp only [e1]
        exact ⟨_, rfl, e2⟩
    · have hb0 : (l ++ [Format.nl] != Format.intro) = true := by
        simp only [bne_iff_ne, ne_eq]; exact hi
      have hb : (l ++ [Format.nl] != ([97, 103, 101, 45, 101, 110, 99, 114, 121, 112, 116, 105, 111, 110, 46, 111, 114, 103, 47, 118, 49, 10] : List UInt8)) = true := hb0
      simp only [hb, hi, if_true, if_false]
      exact ⟨_, rfl, by simp⟩

end GoTie
end AgeModel

