/-
  Proofs.GoTieGenerate — `age.GenerateX25519Identity` (x25519.go), translated on every run with
  crypto/rand as a tape: the secret key is EXACTLY the next 32 bytes of the random source, nothing
  else is drawn, and the public key is the scalar multiplication of that secret with the base point.
-/
import AgeModel.GoSem
import AgeModel.File
import AgeModel.Extracted.Funcs
import Proofs.GoTieTape
import Proofs.GoTieKeys
namespace AgeModel
namespace GoTie
open Extracted

theorem writeAt32g (b : Bytes) (h : b.length = 32) : Go.writeAt (List.replicate 32 0) 0 b = b := by
  simp [Go.writeAt, h]

theorem generate_tie (eRand : Go.Err) (X : Bytes → Bytes → Go.M (Bytes × Option Go.Err)) (bp tape : Bytes) :
    age_GenerateX25519Identity (tapeRead eRand) X bp tape =
      match draw 32 tape with
      | none => .ok (⟨[], []⟩, some ⟨"age.GenerateX25519Identity", 0, []⟩, tape)
      | some (sk, t) =>
        match X sk bp with
        | .ok r => .ok (⟨sk, r.1⟩, none, t)
        | .error e => .error e := by
  have hmk : Go.makeList (0 : UInt8) 32 = .ok (List.replicate 32 0) := rfl
  have hlen : Go.len (List.replicate 32 (0 : UInt8)) = Int.ofNat 32 := by simp [Go.len]
  unfold age_GenerateX25519Identity
  simp only [hmk, hlen, bind, Except.bind, pure, Except.pure]
  cases hd : draw 32 tape with
  | none =>
    simp only [tapeRead_none eRand hd]
    rfl
  | some st =>
    obtain ⟨sk, t⟩ := st
    have hl := draw_length hd
    simp only [tapeRead_some eRand hd, writeAt32g sk hl, keys_newIdentity, hl]
    cases X sk bp <;> rfl

end GoTie
end AgeModel
