/-
  Proofs.GoTiePluginI — see Proofs.GoTiePluginBase.

  `(*Identity).Unwrap`: phase 1 (`phase1_spec`), one lemma per outcome of an iteration of the read loop
  (`l2_*`, in the order of the Go `switch`), the loop by induction on the script (`l2_spec`), the theorem.
-/
import Proofs.GoTiePluginBase
namespace AgeModel
namespace GoTie
open Extracted Plugin

section
variable {S σ υ χ : Type} (E : PluginEnv S σ υ χ)

theorem bs_fileKey : bs "file-key" = [102, 105, 108, 101, 45, 107, 101, 121] := by decide +kernel
theorem bs_error : bs "error" = [101, 114, 114, 111, 114] := by decide +kernel
theorem bs_done : bs "done" = [100, 111, 110, 101] := by decide +kernel
theorem bs_ok : bs "ok" = [111, 107] := by decide +kernel
theorem bs_unsupported : bs "unsupported" = [117, 110, 115, 117, 112, 112, 111, 114, 116, 101, 100] := by decide +kernel

theorem rd_nil (sr : σ) (fin : End) (h : E.absS sr = ([], fin)) :
    ∃ out, E.Rd E.u E.name sr = .ok out ∧ out.2.1 = some (E.eEnd fin) := by
  obtain ⟨out, ho, hm⟩ := E.hRd sr
  rw [h] at hm
  exact ⟨out, ho, hm⟩

theorem rd_cons (sr : σ) (m : Plugin.Stanza) (rest) (fin : End) (h : E.absS sr = (m :: rest, fin)) :
    ∃ sr', E.Rd E.u E.name sr = .ok (goFS m, none, sr') ∧ E.absS sr' = (rest, fin) := by
  obtain ⟨⟨o1, o2, o3⟩, ho, hm⟩ := E.hRd sr
  rw [h] at hm
  obtain ⟨h1, h2, h3⟩ := hm
  simp only at h1 h2 h3
  subst h1 h2
  exact ⟨o3, ho, h3⟩

theorem w0 (c : χ) (t : String) (lit : Bytes) (hl : bs t = lit) :
    ∃ c', E.W c lit [] = .ok (none, c') ∧ E.absC c' = E.absC c ++ [⟨t, [], []⟩] ∧ E.uiOf c' = E.uiOf c := by
  subst hl
  exact E.hW c t []

abbrev L2 (enc : Bytes) := plugin_Identity_Unwrap_loop2 E.W E.Close E.Rd E.Hd ⟨E.name, enc, E.u⟩

theorem l2_end (enc fuel fk err conn sr got fin) (h : E.absS sr = ([], fin)) :
    L2 E enc (fuel+1) fk err conn sr got = .ok (.ret ([], some (E.eEnd fin), some conn)) := by
  obtain ⟨out, ho, he⟩ := rd_nil E sr fin h
  obtain ⟨ce, hc⟩ := E.hClose conn
  rw [L2, plugin_Identity_Unwrap_loop2]
  simp [ho, he, hc, bind, Except.bind, pure, Except.pure]

theorem l2_fk_args (enc fuel fk err conn sr got fin m rest) (h : E.absS sr = (m :: rest, fin))
    (ht : m.type = "file-key") (ha : m.args.length ≠ 1) :
    L2 E enc (fuel+1) fk err conn sr got = .ok (.ret ([], some ⟨"plugin.(*Identity).Unwrap", 1, []⟩, some conn)) := by
  obtain ⟨sr', ho, _⟩ := rd_cons E sr m rest fin h
  obtain ⟨ce, hc⟩ := E.hClose conn
  have ha' : ¬ ((m.args.length : Int) = 1) := by omega
  rw [L2, plugin_Identity_Unwrap_loop2]
  simp [ho, hc, bind, Except.bind, pure, Except.pure, goFS, ht, bs_fileKey, Go.len, ha']

theorem idx0 (a : Bytes) : Go.idx [a] 0 = .ok a := by rfl

theorem l2_fk_atoi (enc fuel fk err conn sr got fin m rest idx) (h : E.absS sr = (m :: rest, fin))
    (ht : m.type = "file-key") (ha : m.args = [idx]) (hn : Plugin.atoi idx = none) :
    L2 E enc (fuel+1) fk err conn sr got = .ok (.ret ([], some ⟨"plugin.(*Identity).Unwrap", 2, []⟩, some conn)) := by
  obtain ⟨sr', ho, _⟩ := rd_cons E sr m rest fin h
  obtain ⟨ce, hc⟩ := E.hClose conn
  have hn' := atoi_none idx hn
  rw [L2, plugin_Identity_Unwrap_loop2]
  simp [ho, hc, bind, Except.bind, pure, Except.pure, goFS, ht, bs_fileKey, Go.len, ha, idx0, hn']

theorem l2_fk_n (enc fuel fk err conn sr got fin m rest idx n) (h : E.absS sr = (m :: rest, fin))
    (ht : m.type = "file-key") (ha : m.args = [idx]) (hn : Plugin.atoi idx = some n) (h0 : n ≠ 0) :
    L2 E enc (fuel+1) fk err conn sr got = .ok (.ret ([], some ⟨"plugin.(*Identity).Unwrap", 3, []⟩, some conn)) := by
  obtain ⟨sr', ho, _⟩ := rd_cons E sr m rest fin h
  obtain ⟨ce, hc⟩ := E.hClose conn
  have hn' := atoi_some idx n hn
  rw [L2, plugin_Identity_Unwrap_loop2]
  simp [ho, hc, bind, Except.bind, pure, Except.pure, goFS, ht, bs_fileKey, Go.len, ha, idx0, hn', h0]

theorem l2_fk_dup (enc fuel fk err conn sr fin m rest idx) (h : E.absS sr = (m :: rest, fin))
    (ht : m.type = "file-key") (ha : m.args = [idx]) (hn : Plugin.atoi idx = some 0) :
    L2 E enc (fuel+1) fk err conn sr true = .ok (.ret ([], some ⟨"plugin.(*Identity).Unwrap", 4, []⟩, some conn)) := by
  obtain ⟨sr', ho, _⟩ := rd_cons E sr m rest fin h
  obtain ⟨ce, hc⟩ := E.hClose conn
  have hn' := atoi_some idx 0 hn
  rw [L2, plugin_Identity_Unwrap_loop2]
  simp [ho, hc, bind, Except.bind, pure, Except.pure, goFS, ht, bs_fileKey, Go.len, ha, idx0, hn']

theorem l2_fk_ok (enc fuel fk err conn sr fin m rest idx) (h : E.absS sr = (m :: rest, fin))
    (ht : m.type = "file-key") (ha : m.args = [idx]) (hn : Plugin.atoi idx = some 0) :
    ∃ conn' sr', E.absC conn' = E.absC conn ++ [okS] ∧ E.uiOf conn' = E.uiOf conn ∧ E.absS sr' = (rest, fin) ∧
      L2 E enc (fuel+1) fk err conn sr false = L2 E enc fuel m.body err conn' sr' true := by
  obtain ⟨sr', ho, hs⟩ := rd_cons E sr m rest fin h
  obtain ⟨conn', hw, hc1, hc2⟩ := w0 E conn "ok" _ bs_ok
  have hn' := atoi_some idx 0 hn
  refine ⟨conn', sr', hc1, hc2, hs, ?_⟩
  rw [L2, plugin_Identity_Unwrap_loop2]
  simp [ho, hw, bind, Except.bind, goFS, ht, bs_fileKey, Go.len, ha, idx0, hn']

theorem l2_error (enc fuel fk err conn sr got fin m rest) (h : E.absS sr = (m :: rest, fin))
    (ht : m.type = "error") :
    ∃ conn', E.absC conn' = E.absC conn ++ [okS] ∧ E.uiOf conn' = E.uiOf conn ∧
      L2 E enc (fuel+1) fk err conn sr got = .ok (.ret ([], some ⟨"plugin.(*Identity).Unwrap", 5, []⟩, some conn')) := by
  obtain ⟨sr', ho, hs⟩ := rd_cons E sr m rest fin h
  obtain ⟨conn', hw, hc1, hc2⟩ := w0 E conn "ok" _ bs_ok
  obtain ⟨ce, hc⟩ := E.hClose conn'
  refine ⟨conn', hc1, hc2, ?_⟩
  rw [L2, plugin_Identity_Unwrap_loop2]
  simp [ho, hw, hc, bind, Except.bind, pure, Except.pure, goFS, ht, bs_error]

theorem l2_done (enc fuel fk err conn sr got fin m rest) (h : E.absS sr = (m :: rest, fin))
    (ht : m.type = "done") :
    ∃ sr', L2 E enc (fuel+1) fk err conn sr got = .ok (.next (fk, err, conn, sr', got)) := by
  obtain ⟨sr', ho, hs⟩ := rd_cons E sr m rest fin h
  refine ⟨sr', ?_⟩
  rw [L2, plugin_Identity_Unwrap_loop2]
  simp [ho, bind, Except.bind, pure, Except.pure, goFS, ht, bs_done]

theorem l2_reply (enc fuel fk err conn sr got fin m rest st r) (h : E.absS sr = (m :: rest, fin))
    (h1 : m.type ≠ "file-key") (h2 : m.type ≠ "error") (h3 : m.type ≠ "done")
    (hh : E.ui.handle E.dec (E.uiOf conn) m = .reply st r) :
    ∃ conn' sr', E.absC conn' = E.absC conn ++ [r] ∧ E.uiOf conn' = st ∧ E.absS sr' = (rest, fin) ∧
      L2 E enc (fuel+1) fk err conn sr got = L2 E enc fuel fk err conn' sr' got := by
  obtain ⟨sr', ho, hs⟩ := rd_cons E sr m rest fin h
  obtain ⟨⟨o1, o2, o3⟩, hd, hm⟩ := E.hHd conn m
  rw [hh] at hm
  obtain ⟨e1, e2, e3, e4⟩ := hm
  simp only at e1 e2 e3 e4
  subst e1 e2
  refine ⟨o3, sr', e3, e4, hs, ?_⟩
  have t1 : bs m.type ≠ bs "file-key" := fun c => h1 (bs_inj.1 c)
  have t2 : bs m.type ≠ bs "error" := fun c => h2 (bs_inj.1 c)
  have t3 : bs m.type ≠ bs "done" := fun c => h3 (bs_inj.1 c)
  rw [bs_fileKey] at t1; rw [bs_error] at t2; rw [bs_done] at t3
  rw [L2, plugin_Identity_Unwrap_loop2]
  have hd' : E.Hd E.u E.name conn ⟨bs m.type, m.args.map bs, m.body⟩ = .ok (true, none, o3) := hd
  simp [ho, hd', bind, Except.bind, goFS, t1, t2, t3]

theorem l2_fatal (enc fuel fk err conn sr got fin m rest) (h : E.absS sr = (m :: rest, fin))
    (h1 : m.type ≠ "file-key") (h2 : m.type ≠ "error") (h3 : m.type ≠ "done")
    (hh : E.ui.handle E.dec (E.uiOf conn) m = .fatal) :
    ∃ conn', E.absC conn' = E.absC conn ∧ E.uiOf conn' = E.uiOf conn ∧
      L2 E enc (fuel+1) fk err conn sr got = .ok (.ret ([], some E.eH, some conn')) := by
  obtain ⟨sr', ho, hs⟩ := rd_cons E sr m rest fin h
  obtain ⟨⟨o1, o2, o3⟩, hd, hm⟩ := E.hHd conn m
  rw [hh] at hm
  obtain ⟨e1, e2, e3, e4⟩ := hm
  simp only at e1 e2 e3 e4
  subst e1 e2
  obtain ⟨ce, hc⟩ := E.hClose o3
  refine ⟨o3, e3, e4, ?_⟩
  have t1 : bs m.type ≠ bs "file-key" := fun c => h1 (bs_inj.1 c)
  have t2 : bs m.type ≠ bs "error" := fun c => h2 (bs_inj.1 c)
  have t3 : bs m.type ≠ bs "done" := fun c => h3 (bs_inj.1 c)
  rw [bs_fileKey] at t1; rw [bs_error] at t2; rw [bs_done] at t3
  rw [L2, plugin_Identity_Unwrap_loop2]
  have hd' : E.Hd E.u E.name conn ⟨bs m.type, m.args.map bs, m.body⟩ = .ok (true, some E.eH, o3) := hd
  simp [ho, hd', hc, bind, Except.bind, pure, Except.pure, goFS, t1, t2, t3]

theorem l2_unknown (enc fuel fk err conn sr got fin m rest) (h : E.absS sr = (m :: rest, fin))
    (h1 : m.type ≠ "file-key") (h2 : m.type ≠ "error") (h3 : m.type ≠ "done")
    (hh : E.ui.handle E.dec (E.uiOf conn) m = .unknown) :
    ∃ conn' sr', E.absC conn' = E.absC conn ++ [unsupportedS] ∧ E.uiOf conn' = E.uiOf conn ∧ E.absS sr' = (rest, fin) ∧
      L2 E enc (fuel+1) fk err conn sr got = L2 E enc fuel fk err conn' sr' got := by
  obtain ⟨sr', ho, hs⟩ := rd_cons E sr m rest fin h
  obtain ⟨⟨o1, o2, o3⟩, hd, hm⟩ := E.hHd conn m
  rw [hh] at hm
  obtain ⟨e1, e2, e3, e4⟩ := hm
  simp only at e1 e2 e3 e4
  subst e1 e2
  obtain ⟨conn', hw, hc1, hc2⟩ := w0 E o3 "unsupported" _ bs_unsupported
  refine ⟨conn', sr', by rw [hc1, e3]; rfl, by rw [hc2, e4], hs, ?_⟩
  have t1 : bs m.type ≠ bs "file-key" := fun c => h1 (bs_inj.1 c)
  have t2 : bs m.type ≠ bs "error" := fun c => h2 (bs_inj.1 c)
  have t3 : bs m.type ≠ bs "done" := fun c => h3 (bs_inj.1 c)
  rw [bs_fileKey] at t1; rw [bs_error] at t2; rw [bs_done] at t3
  rw [L2, plugin_Identity_Unwrap_loop2]
  have hd' : E.Hd E.u E.name conn ⟨bs m.type, m.args.map bs, m.body⟩ = .ok (false, none, o3) := hd
  simp [ho, hd', hw, bind, Except.bind, goFS, t1, t2, t3]

def I2Post (conn : χ) (err0 : Option Go.Err) (t : Trace (IState S) Bytes) :
    Go.Loop (List UInt8 × Option Go.Err × χ × σ × Bool) (List UInt8 × Option Go.Err × Option χ) → Prop
  | .next (fk, err, c', _, _) => err = err0 ∧ E.absC c' = E.absC conn ++ t.replies ∧ E.uiOf c' = t.state.ui ∧
      t.result = (if fk = [] then .error .incorrectIdentity else .ok fk)
  | .ret (fk, g, oc) => fk = [] ∧ ∃ c' e, oc = some c' ∧ E.absC c' = E.absC conn ++ t.replies ∧
      E.uiOf c' = t.state.ui ∧ t.result = .error e ∧ iErrRel E e g

theorem post_ret (conn c' : χ) (err0 : Option Go.Err) (e g rs) (s : IState S)
    (h1 : E.absC c' = E.absC conn ++ rs) (h2 : E.uiOf c' = s.ui) (h3 : iErrRel E e g) :
    I2Post (σ := σ) E conn err0 ⟨s, rs, .error e⟩ (.ret ([], g, some c')) :=
  ⟨rfl, c', e, rfl, h1, h2, rfl, h3⟩

theorem post_cons (conn conn1 : χ) (err0 : Option Go.Err) (t : Trace (IState S) Bytes) (r : Plugin.Stanza) (x)
    (h1 : E.absC conn1 = E.absC conn ++ [r]) (h : I2Post (σ := σ) E conn1 err0 t x) :
    I2Post E conn err0 ⟨t.state, r :: t.replies, t.result⟩ x := by
  match x, h with
  | .next (fk, err, c', _, _), ⟨a, b, c, d⟩ =>
    exact ⟨a, by rw [b, h1, List.append_assoc]; rfl, c, d⟩
  | .ret (fk, g, oc), ⟨a, c', e, b1, b2, b3, b4, b5⟩ =>
    exact ⟨a, c', e, b1, by rw [b2, h1, List.append_assoc]; rfl, b3, b4, b5⟩

theorem iErr_site (k : Nat) (hk : k ∈ [1, 2, 3, 4]) :
    iErrRel E .protocol (some ⟨"plugin.(*Identity).Unwrap", k, []⟩) := Or.inr ⟨k, hk, rfl⟩

theorem l2_spec (enc : Bytes) (msgs : List Plugin.Stanza) : ∀ (fin : End) (fuel : Nat) (fk : Bytes) (err : Option Go.Err)
    (conn : χ) (sr : σ) (got : Bool), E.absS sr = (msgs, fin) → msgs.length < fuel →
    ∃ r, L2 E enc fuel fk err conn sr got = .ok r ∧
      I2Post E conn err (run (identityStep E.ui E.dec) ⟨E.uiOf conn, got, fk⟩ msgs fin) r := by
  induction msgs with
  | nil =>
    intro fin fuel fk err conn sr got habs hfuel
    obtain ⟨f, rfl⟩ : ∃ f, fuel = f + 1 := ⟨fuel - 1, by simp at hfuel; omega⟩
    refine ⟨_, l2_end E enc f fk err conn sr got fin habs, ?_⟩
    simp only [run]
    exact post_ret E conn conn err _ _ [] _ (by simp) rfl rfl
  | cons m rest ih =>
    intro fin fuel fk err conn sr got habs hfuel
    obtain ⟨f, rfl⟩ : ∃ f, fuel = f + 1 := ⟨fuel - 1, by simp at hfuel; omega⟩
    have hf : rest.length < f := by simp at hfuel; omega
    by_cases h1 : m.type = "file-key"
    · have hproto : ∀ k, k ∈ [1, 2, 3, 4] →
          identityStep E.ui E.dec ⟨E.uiOf conn, got, fk⟩ m = .halt [] (.error .protocol) →
          I2Post (σ := σ) E conn err (run (identityStep E.ui E.dec) ⟨E.uiOf conn, got, fk⟩ (m :: rest) fin)
            (.ret ([], some ⟨"plugin.(*Identity).Unwrap", k, []⟩, some conn)) := by
        intro k hk hstep
        simp only [run, hstep]
        exact post_ret E conn conn err _ _ [] _ (by simp) rfl (iErr_site E k hk)
      rcases hargs : m.args with _ | ⟨idx, _ | ⟨b, l⟩⟩
      · exact ⟨_, l2_fk_args E enc f fk err conn sr got fin m rest habs h1 (by simp [hargs]),
          hproto 1 (by decide) (by simp [identityStep, h1, hargs])⟩
      · cases hn : Plugin.atoi idx with
        | none =>
          exact ⟨_, l2_fk_atoi E enc f fk err conn sr got fin m rest idx habs h1 hargs hn,
            hproto 2 (by decide) (by simp [identityStep, h1, hargs, hn])⟩
        | some n =>
          by_cases h0 : n = 0
          · subst h0
            cases got with
            | true =>
              exact ⟨_, l2_fk_dup E enc f fk err conn sr fin m rest idx habs h1 hargs hn,
                hproto 4 (by decide) (by simp [identityStep, h1, hargs, hn])⟩
            | false =>
              obtain ⟨conn', sr', a1, a2, a3, a4⟩ := l2_fk_ok E enc f fk err conn sr fin m rest idx habs h1 hargs hn
              obtain ⟨r, hr, hp⟩ := ih fin f m.body err conn' sr' true a3 hf
              refine ⟨r, by rw [a4]; exact hr, ?_⟩
              have hstep : identityStep E.ui E.dec ⟨E.uiOf conn, false, fk⟩ m = .next ⟨E.uiOf conn, true, m.body⟩ okS := by
                simp [identityStep, h1, hargs, hn]
              simp only [run, hstep]
              rw [a2] at hp
              exact post_cons E conn conn' err _ okS r a1 hp
          · exact ⟨_, l2_fk_n E enc f fk err conn sr got fin m rest idx n habs h1 hargs hn h0,
              hproto 3 (by decide) (by simp [identityStep, h1, hargs, hn, h0])⟩
      · exact ⟨_, l2_fk_args E enc f fk err conn sr got fin m rest habs h1 (by simp [hargs]),
          hproto 1 (by decide) (by simp [identityStep, h1, hargs])⟩
    · by_cases h2 : m.type = "error"
      · obtain ⟨conn', a1, a2, a3⟩ := l2_error E enc f fk err conn sr got fin m rest habs h2
        refine ⟨_, a3, ?_⟩
        have hstep : identityStep E.ui E.dec ⟨E.uiOf conn, got, fk⟩ m = .halt [okS] (.error (.pluginError m.body)) := by
          simp [identityStep, h2]
        simp only [run, hstep]
        exact post_ret E conn conn' err _ _ [okS] _ a1 a2 rfl
      · by_cases h3 : m.type = "done"
        · obtain ⟨sr', a1⟩ := l2_done E enc f fk err conn sr got fin m rest habs h3
          refine ⟨_, a1, ?_⟩
          have hstep : identityStep E.ui E.dec ⟨E.uiOf conn, got, fk⟩ m =
              .halt [] (if fk = [] then .error .incorrectIdentity else .ok fk) := by
            simp [identityStep, h3]
          simp only [run, hstep]
          exact ⟨rfl, by simp, rfl, rfl⟩
        · cases hh : E.ui.handle E.dec (E.uiOf conn) m with
          | reply st rp =>
            obtain ⟨conn', sr', a1, a2, a3, a4⟩ := l2_reply E enc f fk err conn sr got fin m rest st rp habs h1 h2 h3 hh
            obtain ⟨r, hr, hp⟩ := ih fin f fk err conn' sr' got a3 hf
            refine ⟨r, by rw [a4]; exact hr, ?_⟩
            have hstep : identityStep E.ui E.dec ⟨E.uiOf conn, got, fk⟩ m = .next ⟨st, got, fk⟩ rp := by
              simp [identityStep, h1, h2, h3, hh]
            simp only [run, hstep]
            rw [a2] at hp
            exact post_cons E conn conn' err _ rp r a1 hp
          | fatal =>
            obtain ⟨conn', a1, a2, a3⟩ := l2_fatal E enc f fk err conn sr got fin m rest habs h1 h2 h3 hh
            refine ⟨_, a3, ?_⟩
            have hstep : identityStep E.ui E.dec ⟨E.uiOf conn, got, fk⟩ m = .halt [] (.error .protocol) := by
              simp [identityStep, h1, h2, h3, hh]
            simp only [run, hstep]
            exact post_ret E conn conn' err _ _ [] _ (by simp [a1]) a2 (Or.inl rfl)
          | unknown =>
            obtain ⟨conn', sr', a1, a2, a3, a4⟩ := l2_unknown E enc f fk err conn sr got fin m rest habs h1 h2 h3 hh
            obtain ⟨r, hr, hp⟩ := ih fin f fk err conn' sr' got a3 hf
            refine ⟨r, by rw [a4]; exact hr, ?_⟩
            have hstep : identityStep E.ui E.dec ⟨E.uiOf conn, got, fk⟩ m = .next ⟨E.uiOf conn, got, fk⟩ unsupportedS := by
              simp [identityStep, h1, h2, h3, hh]
            simp only [run, hstep]
            rw [a2] at hp
            exact post_cons E conn conn' err _ unsupportedS r a1 hp

theorem bs_rstanza : bs "recipient-stanza" = [114, 101, 99, 105, 112, 105, 101, 110, 116, 45, 115, 116, 97, 110, 122, 97] := by
  decide +kernel
theorem bs_zero : bs "0" = [48] := by decide +kernel
theorem bs_addIdentity : bs "add-identity" = [97, 100, 100, 45, 105, 100, 101, 110, 116, 105, 116, 121] := by
  decide +kernel

def wrapRS (rs : Plugin.Stanza) : Plugin.Stanza := ⟨"recipient-stanza", "0" :: rs.type :: rs.args, rs.body⟩

theorem l1_spec (enc : Bytes) (stanzas : List Plugin.Stanza) : ∀ (fk : Bytes) (err : Option Go.Err) (conn : χ),
    ∃ conn', plugin_Identity_Unwrap_loop1 E.Close E.M ⟨E.name, enc, E.u⟩ (stanzas.map goAS) fk err conn =
        .ok (.next (fk, err, conn')) ∧
      E.absC conn' = E.absC conn ++ stanzas.map wrapRS ∧ E.uiOf conn' = E.uiOf conn := by
  induction stanzas with
  | nil => intro fk err conn; exact ⟨conn, rfl, by simp, rfl⟩
  | cons rs rest ih =>
    intro fk err conn
    obtain ⟨c1, hm, a1, a2⟩ := E.hM conn (wrapRS rs)
    obtain ⟨c2, hl, b1, b2⟩ := ih fk err c1
    refine ⟨c2, ?_, by rw [b1, a1]; simp, by rw [b2, a2]⟩
    have hm' : E.M ⟨[114, 101, 99, 105, 112, 105, 101, 110, 116, 45, 115, 116, 97, 110, 122, 97],
        [48] :: bs rs.type :: rs.args.map bs, rs.body⟩ conn = .ok (none, c1) := by
      rw [← hm, ← bs_rstanza, ← bs_zero]; rfl
    rw [List.map_cons, plugin_Identity_Unwrap_loop1]
    simp [goAS, hm', hl, bind, Except.bind]

theorem phase1_spec (encoding grease : String) (stanzas : List Plugin.Stanza) :
    ∃ (c1 c2 c3 c4 : χ) (sr : σ),
      E.W E.c0 [97, 100, 100, 45, 105, 100, 101, 110, 116, 105, 116, 121] [bs encoding] = .ok (none, c1) ∧
      E.W c1 (bs grease) [] = .ok (none, c2) ∧
      plugin_Identity_Unwrap_loop1 E.Close E.M ⟨E.name, bs encoding, E.u⟩ (stanzas.map goAS) [] none c2 =
        .ok (.next ([], none, c3)) ∧
      E.W c3 [100, 111, 110, 101] [] = .ok (none, c4) ∧
      E.New c4 = .ok sr ∧ E.absS sr = (E.script.msgs, E.script.fin) ∧
      E.absC c4 = identityPhase1 encoding stanzas grease ∧ E.uiOf c4 = E.st0 := by
  obtain ⟨hc0a, hc0u⟩ := E.h0
  obtain ⟨c1, hw1, a1, u1⟩ := E.hW E.c0 "add-identity" [encoding]
  rw [bs_addIdentity] at hw1
  obtain ⟨c2, hw2, a2, u2⟩ := E.hW c1 grease []
  obtain ⟨c3, hl1, a3, u3⟩ := l1_spec E (bs encoding) stanzas [] none c2
  obtain ⟨c4, hw4, a4, u4⟩ := w0 E c3 "done" _ bs_done
  obtain ⟨sr, hnew, hsr⟩ := E.hNew c4
  refine ⟨c1, c2, c3, c4, sr, hw1, hw2, hl1, hw4, hnew, hsr, ?_, by rw [u4, u3, u2, u1, hc0u]⟩
  rw [a4, a3, a2, a1, hc0a]
  simp [identityPhase1, doneS, wrapRS]

end

theorem identity_client_tie {S σ υ χ : Type} (E : PluginEnv S σ υ χ)
    (encoding grease : String) (stanzas : List Plugin.Stanza) :
    ∃ (res : Bytes × Option Go.Err) (c : χ), plugin_Identity_Unwrap E.Open E.W E.Close (bs grease) E.M E.New E.Rd E.Hd E.rem
        ⟨E.name, bs encoding, E.u⟩ (stanzas.map goAS) = .ok (res.1, res.2, some c) ∧
      let o := identityClient E.ui E.dec E.st0 encoding stanzas grease E.script
      E.absC c = o.phase1 ++ o.replies ∧ E.uiOf c = o.ui ∧
      match o.result with
      | .ok k => res.1 = k ∧ res.2 = none
      | .error e => res.1 = [] ∧ iErrRel E e res.2 := by
  obtain ⟨c1, c2, c3, c4, sr, hw1, hw2, hl1, hw4, hnew, hsr, a4, u4⟩ := phase1_spec E encoding grease stanzas
  obtain ⟨r, hr, hp⟩ := l2_spec E (bs encoding) E.script.msgs E.script.fin (E.rem sr + 1) [] none c4 sr false hsr
    (by rw [E.hRem, hsr]; simp)
  rw [u4] at hp
  have hopen := E.hOpen [105, 100, 101, 110, 116, 105, 116, 121, 45, 118, 49]
  match r, hr, hp with
  | .next (fk, err, c5, sr5, got5), hr, ⟨e1, e2, e3, e4⟩ =>
    obtain ⟨ce, hcl⟩ := E.hClose c5
    subst e1
    by_cases hfk : fk = []
    · subst hfk
      refine ⟨([], age_ErrIncorrectIdentity), c5, ?_, ?_⟩
      · unfold plugin_Identity_Unwrap
        simp [hopen, hw1, hw2, hl1, hw4, hnew, hr, hcl, bind, Except.bind, pure, Except.pure, age_ErrIncorrectIdentity]
      · simp only [identityClient]
        rw [e4]
        exact ⟨by rw [e2, a4], e3, by simp [iErrRel]⟩
    · refine ⟨(fk, none), c5, ?_, ?_⟩
      · unfold plugin_Identity_Unwrap
        simp [hopen, hw1, hw2, hl1, hw4, hnew, hr, hcl, bind, Except.bind, pure, Except.pure, hfk]
      · simp only [identityClient]
        rw [e4, if_neg hfk]
        exact ⟨by rw [e2, a4], e3, by simp⟩
  | .ret (fk, g, oc), hr, ⟨e1, c5, e, e2, e3, e4, e5, e6⟩ =>
    subst e1 e2
    refine ⟨([], g), c5, ?_, ?_⟩
    · unfold plugin_Identity_Unwrap
      simp [hopen, hw1, hw2, hl1, hw4, hnew, hr, bind, Except.bind, pure, Except.pure]
    · simp only [identityClient]
      rw [e5]
      exact ⟨by rw [e3, a4], e4, by simpa using e6⟩

end GoTie
end AgeModel
