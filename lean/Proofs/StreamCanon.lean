/-
  Proofs.StreamCanon — for a key exactly one byte string decrypts cleanly to a
  given plaintext (uniqueness of the accepted chunking).
-/
import Proofs.StreamSpec
namespace AgeModel
namespace Stream

theorem open_len (A : AEAD) (hA : A.Correct) {k n c p} (h : A.openF k n c = some p) :
    c.length = p.length + A.T := by
  have := hA.open_unique k n c p h
  rw [this, hA.seal_len]

theorem own_chunking_aux (A : AEAD) (hA : A.Correct) (C : Nat) (hC : 0 < C) (k : Bytes) :
    ∀ (fuel : Nat) (i : Nat) (c out : Bytes) (fuel' : Nat),
      decFrom A C k false i c fuel = (out, .eof) → out.length < fuel' →
      c = encFrom A C k i out fuel' ∧ (i = 0 ∨ out ≠ []) := by
  intro fuel
  induction fuel with
  | zero => intro i c out f' h; simp [decFrom] at h
  | succ fuel ih =>
    intro i c out fuel' h hf'
    have hT := hA.T_pos
    match fuel' with
    | 0 => omega
    | fuel'+1 =>
    unfold decFrom at h
    simp only [Bool.false_eq_true, if_false] at h
    split at h
    · -- short read
      rename_i hshort
      split at h
      · simp at h
      · split at h
        · simp at h
        · rename_i hlen0 hnot
          split at h
          · rename_i p hopen
            simp only [Prod.mk.injEq, and_true] at h
            subst h
            have hl := open_len A hA hopen
            have hu := hA.open_unique _ _ _ _ hopen
            unfold encFrom
            have : p.length ≤ C := by omega
            simp only [this, if_true]
            refine ⟨hu, ?_⟩
            by_cases hi : i = 0
            · exact Or.inl hi
            · right; intro hp
              apply hnot
              refine ⟨hi, ?_⟩
              rw [hl, hp]; simp
          · simp at h
    · rename_i hfull
      split at h
      · rename_i p hopen
        -- non-final full chunk
        generalize hr : decFrom A C k false (i + 1) (List.drop (C + A.T) c) fuel = r at h
        obtain ⟨q, o⟩ := r
        simp only [Prod.mk.injEq] at h
        obtain ⟨hout, ho⟩ := h
        subst ho
        have hl := open_len A hA hopen
        have hu := hA.open_unique _ _ _ _ hopen
        have htl : (c.take (C + A.T)).length = C + A.T := by rw [List.length_take]; omega
        have hpl : p.length = C := by omega
        subst hout
        have hq : q.length < fuel' := by rw [List.length_append] at hf'; omega
        obtain ⟨hrest, hne⟩ := ih (i+1) _ q fuel' hr hq
        have hqne : q ≠ [] := by
          cases hne with
          | inl h => omega
          | inr h => exact h
        have hqpos : 0 < q.length := List.length_pos_iff.mpr hqne
        unfold encFrom
        have hgt : ¬ (p ++ q).length ≤ C := by simp; omega
        simp only [hgt, if_false]
        have h1 : (p ++ q).take C = p := by
          rw [List.take_append_of_le_length (by omega)]; exact List.take_of_length_le (by omega)
        have h2 : (p ++ q).drop C = q := by
          rw [List.drop_append_of_le_length (by omega)]
          have : List.drop C p = [] := List.drop_of_length_le (by omega)
          simp [this]
        rw [h1, h2, ← hu, ← hrest, List.take_append_drop]
        refine ⟨rfl, Or.inr ?_⟩
        intro h; simp at h; exact hqne h.2
      · split at h
        · rename_i hnone p hopen
          split at h
          · rename_i hdrop
            simp only [Prod.mk.injEq, and_true] at h
            subst h
            have hl := open_len A hA hopen
            have hu := hA.open_unique _ _ _ _ hopen
            have htl : (c.take (C + A.T)).length = C + A.T := by rw [List.length_take]; omega
            have hpl : p.length = C := by omega
            have hc : c.take (C + A.T) = c := by
              apply List.take_of_length_le
              have := List.length_drop (i := C + A.T) (l := c)
              omega
            unfold encFrom
            have : p.length ≤ C := by omega
            simp only [this, if_true]
            refine ⟨by rw [← hu, hc], Or.inr ?_⟩
            intro h; subst h; simp at hpl; omega
          · simp at h
        · simp at h

theorem accepts_only_own_chunking (A : AEAD) (hA : A.Correct) (C : Nat) (hC : 0 < C) (k c out : Bytes)
    (h : decrypt A C k c = (out, .eof)) : c = encrypt A C k out := by
  unfold decrypt at h
  exact (own_chunking_aux A hA C hC k _ 0 c out _ h (by omega)).1

end Stream
end AgeModel
