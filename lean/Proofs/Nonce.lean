/-
  Proofs.Nonce — the chunk nonce is injective in (counter, flag) for counters below 2^88.
-/
import AgeModel.Stream
namespace AgeModel

theorem ofBe_append_single : ∀ (l : Bytes) (x : UInt8), ofBe (l ++ [x]) = ofBe l * 256 + x.toNat
  | [], x => by simp [ofBe]
  | y :: ys, x => by
    simp only [List.cons_append, ofBe, List.length_append, List.length_cons, List.length_nil, ofBe_append_single ys x]
    rw [Nat.pow_succ, Nat.add_mul, Nat.mul_assoc]
    omega

theorem ofBe_be : ∀ (w n : Nat), ofBe (be w n) = n % 256 ^ w
  | 0, n => by simp [be, ofBe, Nat.mod_one]
  | w+1, n => by
    simp only [be, ofBe_append_single, ofBe_be w (n / 256)]
    have h : (n % 256).toUInt8.toNat = n % 256 := by
      simp [Nat.toUInt8, UInt8.ofNat, UInt8.toNat]
    rw [h, Nat.pow_succ, Nat.mul_comm (256 ^ w) 256, Nat.mod_mul]
    omega

theorem be_inj (w a b : Nat) (ha : a < 256 ^ w) (hb : b < 256 ^ w) (h : be w a = be w b) : a = b := by
  have := congrArg ofBe h
  rw [ofBe_be, ofBe_be, Nat.mod_eq_of_lt ha, Nat.mod_eq_of_lt hb] at this
  exact this

namespace Stream

theorem nonce_inj (i j : Nat) (f g : Bool) (hi : i < 2 ^ 88) (hj : j < 2 ^ 88) (h : nonce i f = nonce j g) :
    i = j ∧ f = g := by
  unfold nonce at h
  have hl : (be 11 i).length = (be 11 j).length := by rw [be_length, be_length]
  have := List.append_inj h hl
  have e : (256 : Nat) ^ 11 = 2 ^ 88 := by decide
  refine ⟨be_inj 11 i j (by rw [e]; exact hi) (by rw [e]; exact hj) this.1, ?_⟩
  have h2 := this.2
  simp only [List.cons.injEq, and_true] at h2
  cases f <;> cases g <;> simp_all

end Stream
end AgeModel
