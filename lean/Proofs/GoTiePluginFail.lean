/-
  Proofs.GoTiePluginFail — the two client methods when the plugin cannot be reached.

  `recipient_client_tie` / `identity_client_tie` assume (`PluginEnv`) that the plugin starts and that
  every write to it succeeds. Here are the paths they leave out, for EVERY behaviour of the other
  callees: when `openClientConnection` fails, the translated `(*Recipient).WrapWithLabels` /
  `(*Identity).Unwrap` return their own error at once — nothing is written to the plugin, no UI
  callback runs, no stanza / file key is returned; when the FIRST write (`add-recipient` /
  `add-identity`) fails, they close the connection and return that write's error with nothing else.
-/
import AgeModel.Extracted.Funcs
namespace AgeModel
namespace GoTie
open Extracted

section
variable {σ υ χ : Type} (Open : Bytes → Bytes → Go.M (χ × Option Go.Err))
  (W : χ → Bytes → List Bytes → Go.M (Option Go.Err × χ)) (Close : χ → Go.M (Option Go.Err)) (grease : Bytes)
  (WB : χ → Bytes → Bytes → Go.M (Option Go.Err × χ)) (M : format_Stanza → χ → Go.M (Option Go.Err × χ))
  (New : χ → Go.M σ) (Rd : υ → Bytes → σ → Go.M (format_Stanza × Option Go.Err × σ))
  (Hd : υ → Bytes → χ → format_Stanza → Go.M (Bool × Option Go.Err × χ)) (rem : σ → Nat)

/-- the plugin cannot be started: `WrapWithLabels` returns error site 0, no stanzas, no labels -/
theorem recipient_open_fails (r : plugin_Recipient υ) (fk : Bytes) (c : χ) (e : Go.Err)
    (hO : Open r.name "recipient-v1".toUTF8.toList = .ok (c, some e)) :
    plugin_Recipient_WrapWithLabels Open W Close grease WB New Rd Hd rem r fk =
      .ok ([], none, some ⟨"plugin.(*Recipient).WrapWithLabels", 0, []⟩, some c) := by
  have hp : ("recipient-v1".toUTF8.toList : Bytes) = [114, 101, 99, 105, 112, 105, 101, 110, 116, 45, 118, 49] := by decide +kernel
  rw [hp] at hO
  simp [plugin_Recipient_WrapWithLabels, hO, bind, Except.bind, pure, Except.pure]

/-- the plugin cannot be started: `Unwrap` returns error site 0 and no key -/
theorem identity_open_fails (i : plugin_Identity υ) (ss : List age_Stanza) (c : χ) (e : Go.Err)
    (hO : Open i.name "identity-v1".toUTF8.toList = .ok (c, some e)) :
    plugin_Identity_Unwrap Open W Close grease M New Rd Hd rem i ss =
      .ok ([], some ⟨"plugin.(*Identity).Unwrap", 0, []⟩, some c) := by
  have hp : ("identity-v1".toUTF8.toList : Bytes) = [105, 100, 101, 110, 116, 105, 116, 121, 45, 118, 49] := by decide +kernel
  rw [hp] at hO
  simp [plugin_Identity_Unwrap, hO, bind, Except.bind, pure, Except.pure]

/-- the first write fails: the connection is closed and that error is returned, with nothing else -/
theorem recipient_first_write_fails (r : plugin_Recipient υ) (fk : Bytes) (c c' : χ) (e : Go.Err) (ce : Option Go.Err)
    (hO : Open r.name "recipient-v1".toUTF8.toList = .ok (c, none))
    (hW : W c (if r.identity then "add-identity".toUTF8.toList else "add-recipient".toUTF8.toList) [r.encoding] = .ok (some e, c'))
    (hC : Close c' = .ok ce) :
    plugin_Recipient_WrapWithLabels Open W Close grease WB New Rd Hd rem r fk = .ok ([], none, some e, some c') := by
  have hp : ("recipient-v1".toUTF8.toList : Bytes) = [114, 101, 99, 105, 112, 105, 101, 110, 116, 45, 118, 49] := by decide +kernel
  have h1 : ("add-identity".toUTF8.toList : Bytes) = [97, 100, 100, 45, 105, 100, 101, 110, 116, 105, 116, 121] := by decide +kernel
  have h2 : ("add-recipient".toUTF8.toList : Bytes) = [97, 100, 100, 45, 114, 101, 99, 105, 112, 105, 101, 110, 116] := by decide +kernel
  rw [hp] at hO
  rw [h1, h2] at hW
  cases hid : r.identity <;> simp [hid] at hW <;>
    simp [plugin_Recipient_WrapWithLabels, hO, hid, hW, hC, bind, Except.bind, pure, Except.pure]

theorem identity_first_write_fails (i : plugin_Identity υ) (ss : List age_Stanza) (c c' : χ) (e : Go.Err) (ce : Option Go.Err)
    (hO : Open i.name "identity-v1".toUTF8.toList = .ok (c, none))
    (hW : W c "add-identity".toUTF8.toList [i.encoding] = .ok (some e, c'))
    (hC : Close c' = .ok ce) :
    plugin_Identity_Unwrap Open W Close grease M New Rd Hd rem i ss = .ok ([], some e, some c') := by
  have hp : ("identity-v1".toUTF8.toList : Bytes) = [105, 100, 101, 110, 116, 105, 116, 121, 45, 118, 49] := by decide +kernel
  have h1 : ("add-identity".toUTF8.toList : Bytes) = [97, 100, 100, 45, 105, 100, 101, 110, 116, 105, 116, 121] := by decide +kernel
  rw [hp] at hO
  rw [h1] at hW
  simp [plugin_Identity_Unwrap, hO, hW, hC, bind, Except.bind, pure, Except.pure]

end
end GoTie
end AgeModel
