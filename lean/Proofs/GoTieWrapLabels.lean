/-
  Proofs.GoTieWrapLabels — `age.wrapWithLabels` (age.go), translated on every run: a recipient that
  also implements `RecipientWithLabels` is asked for its stanzas AND labels; any other recipient is
  asked for its stanzas and counts as having NO labels (the empty list) — which is what the label
  rule of `Encrypt` then compares.
-/
import AgeModel.GoSem
import AgeModel.Extracted.Funcs
namespace AgeModel
namespace GoTie
open Extracted

theorem wrapWithLabels_tie {ρ : Type} (impl : ρ → Bool)
    (WL : ρ → Bytes → Go.M (List age_Stanza × List Bytes × Option Go.Err))
    (W : ρ → Bytes → Go.M (List age_Stanza × Option Go.Err)) (r : ρ) (fk : Bytes) :
    age_wrapWithLabels impl WL W r fk =
      if impl r = true then WL r fk
      else (W r fk).map (fun t => (t.1, [], t.2)) := by
  unfold age_wrapWithLabels
  simp only [bind, Except.bind, pure, Except.pure]
  cases impl r with
  | true =>
    simp only [if_true]
    cases WL r fk <;> rfl
  | false =>
    simp only [Bool.false_eq_true, if_false]
    cases W r fk <;> rfl

end GoTie
end AgeModel
