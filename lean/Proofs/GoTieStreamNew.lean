/-
  Proofs.GoTieStreamNew — `stream.NewReader` and `stream.NewWriter`, translated on every run
  (`chacha20poly1305.New` is a parameter): with a key the AEAD accepts they build exactly the initial
  states from which `reader_read_tie` / `writer_write_tie` start (empty windows at the start of a
  zeroed buffer, counter 0, no error), related to the model's `Reader.new` / `Writer.new`; with a
  key it refuses they return its error and no usable value.
-/
import AgeModel.GoSem
import AgeModel.Stream
import AgeModel.Extracted.Funcs
import Proofs.GoTieStreamW
namespace AgeModel
namespace GoTie
open Extracted Stream

theorem newReader_tie {α : Type} (New : Bytes → Go.M (α × Option Go.Err)) (nilα a : α) (key : Bytes)
    (hNew : New key = .ok (a, none)) (src : Go.Src) :
    stream_NewReader New nilα key src =
      .ok (⟨a, src, 0, 0, List.replicate 65552 0, none, List.replicate 12 0⟩, none) := by
  simp only [stream_NewReader, hNew, bind, Except.bind, pure, Except.pure]
  rfl

theorem newReader_refused {α : Type} (New : Bytes → Go.M (α × Option Go.Err)) (nilα a : α) (key : Bytes) (e : Go.Err)
    (hNew : New key = .ok (a, some e)) (src : Go.Src) :
    ∃ r, stream_NewReader New nilα key src = .ok (r, some e) := by
  simp only [stream_NewReader, hNew, bind, Except.bind, pure, Except.pure]
  exact ⟨_, rfl⟩

/-- the reader `NewReader` builds is related to the model's fresh reader -/
theorem newReader_rel {α : Type} (New : Bytes → Go.M (α × Option Go.Err)) (nilα a : α) (key : Bytes)
    (hNew : New key = .ok (a, none)) (data : Bytes) (fail : Bool) :
    ∃ g, stream_NewReader New nilα key ⟨data, fail⟩ = .ok (g, none) ∧ RRel g (Reader.new ⟨data, fail⟩) :=
  ⟨_, newReader_tie New nilα a key hNew ⟨data, fail⟩, reader_new_rel a data fail⟩

theorem newWriter_tie {α δ : Type} (New : Bytes → Go.M (α × Option Go.Err)) (nilα a : α) (nilδ : δ) (key : Bytes)
    (hNew : New key = .ok (a, none)) (dst : δ) :
    stream_NewWriter New nilα nilδ key dst =
      .ok (⟨a, dst, 0, 0, List.replicate 65552 0, List.replicate 12 0, none⟩, none) := by
  simp only [stream_NewWriter, hNew, bind, Except.bind, pure, Except.pure]
  rfl

theorem newWriter_refused {α δ : Type} (New : Bytes → Go.M (α × Option Go.Err)) (nilα a : α) (nilδ : δ) (key : Bytes) (e : Go.Err)
    (hNew : New key = .ok (a, some e)) (dst : δ) :
    ∃ w, stream_NewWriter New nilα nilδ key dst = .ok (w, some e) := by
  simp only [stream_NewWriter, hNew, bind, Except.bind, pure, Except.pure]
  exact ⟨_, rfl⟩

/-- the writer `NewWriter` builds is related to the model's fresh writer on the same destination -/
theorem newWriter_rel {α δ : Type} {S : DstSpec} (D : DstEnv δ S) (a : α) (dst : δ) :
    WRel D (⟨a, dst, 0, 0, List.replicate 65552 0, List.replicate 12 0, none⟩ : stream_Writer α δ) (Writer.new (D.absD dst)) := by
  refine ⟨List.length_replicate, rfl, ⟨Int.le_refl 0, (by decide : (0 : Int) ≤ 65536)⟩, ?_, rfl, ?_, fun _ => ?_⟩
  · show ([] : Bytes) = (List.replicate 65552 (0 : UInt8)).take (0 : Int).toNat
    rw [Int.toNat_zero, List.take_zero]
  · simp [wrErrRel, Writer.new]
  · show List.replicate 12 (0 : UInt8) = nonce 0 false
    decide

end GoTie
end AgeModel
