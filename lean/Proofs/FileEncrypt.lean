/-
  Proofs.FileEncrypt — structure of what Encrypt's recipient loop produces.
-/
import Proofs.File
namespace AgeModel
open Format Stream

theorem draw_spec {n : Nat} {t a r : Bytes} (h : draw n t = some (a, r)) : a.length = n ∧ t = a ++ r := by
  unfold draw at h
  split at h
  · simp only [Option.some.injEq, Prod.mk.injEq] at h
    obtain ⟨rfl, rfl⟩ := h
    exact ⟨by rw [List.length_take]; omega, (List.take_append_drop n t).symm⟩
  · simp at h

/-- a recipient all of whose successful wraps (of a 16-byte file key) are well-formed stanzas -/
def Recipient.ProducesWF (P : Prims) (r : Recipient) : Prop :=
  ∀ fk tape ss l t, fk.length = fileKeySize → wrapOne P r fk tape = .ok (some (ss, l), t) → ∀ s ∈ ss, s.WF

theorem producesWF_x25519 (P : Prims) (hP : P.Correct) (pub : Bytes) : (Recipient.x25519 pub).ProducesWF P := by
  intro fk tape ss l t _ h s hs
  unfold wrapOne at h
  simp only at h
  split at h
  · simp at h
  · rename_i eph t1 hd
    simp only [Except.ok.injEq, Prod.mk.injEq] at h
    obtain ⟨h1, _⟩ := h
    cases hw : wrapX25519 P pub eph fk with
    | none => simp [hw] at h1
    | some st =>
      simp only [hw, Option.map_some, Option.some.injEq, Prod.mk.injEq] at h1
      obtain ⟨rfl, _⟩ := h1
      simp only [List.mem_singleton] at hs; subst hs
      exact wrapX25519_wf P hP pub eph fk _ hw

theorem producesWF_sshEd (P : Prims) (hP : P.Correct) (wire mont : Bytes) : (Recipient.sshEd wire mont).ProducesWF P := by
  intro fk tape ss l t _ h s hs
  unfold wrapOne at h
  simp only at h
  split at h
  · simp at h
  · rename_i eph t1 hd
    simp only [Except.ok.injEq, Prod.mk.injEq] at h
    obtain ⟨h1, _⟩ := h
    cases hw : wrapSshEd P wire mont eph fk with
    | none => simp [hw] at h1
    | some st =>
      simp only [hw, Option.map_some, Option.some.injEq, Prod.mk.injEq] at h1
      obtain ⟨rfl, _⟩ := h1
      simp only [List.mem_singleton] at hs; subst hs
      exact wrapSshEd_wf P hP wire mont eph fk _ hw

theorem producesWF_sshRsa (P : Prims) (hP : P.Correct) (wire pub : Bytes) : (Recipient.sshRsa wire pub).ProducesWF P := by
  intro fk tape ss l t _ h s hs
  unfold wrapOne at h
  simp only at h
  split at h
  · simp at h
  · rename_i seed t1 hd
    simp only [Except.ok.injEq, Prod.mk.injEq] at h
    obtain ⟨h1, _⟩ := h
    cases hw : wrapSshRsa P wire pub seed fk with
    | none => simp [hw] at h1
    | some st =>
      simp only [hw, Option.map_some, Option.some.injEq, Prod.mk.injEq] at h1
      obtain ⟨rfl, _⟩ := h1
      simp only [List.mem_singleton] at hs; subst hs
      exact wrapSshRsa_wf P hP wire pub seed fk _ hw

theorem producesWF_scrypt (P : Prims) (pw : Bytes) (logN : Nat) (h1 : 1 ≤ logN) (h30 : logN ≤ 30) :
    (Recipient.scrypt pw logN).ProducesWF P := by
  intro fk tape ss l t _ h s hs
  unfold wrapOne at h
  simp only at h
  split at h
  · simp at h
  · rename_i salt t1 hd
    split at h
    · simp at h
    · simp only [Except.ok.injEq, Prod.mk.injEq, Option.some.injEq] at h
      obtain ⟨⟨rfl, _⟩, _⟩ := h
      simp only [List.mem_singleton] at hs; subst hs
      exact wrapScrypt_wf P pw salt fk logN h1 h30 (draw_spec hd).1

/-- the loop only ever extends the accumulated stanza list, by the stanzas each recipient returned -/
theorem wrapAll_wf (P : Prims) (fk : Bytes) (hfk : fk.length = fileKeySize) :
    ∀ (rs : List Recipient) (i : Nat) (tape : Bytes) (acc : List Stanza) (labels : Option (List Bytes))
      (st : List Stanza) (t' : Bytes),
      (∀ r ∈ rs, r.ProducesWF P) → (∀ s ∈ acc, s.WF) →
      wrapAll P fk rs i tape acc labels = .ok (st, t') → ∀ s ∈ st, s.WF := by
  intro rs
  induction rs with
  | nil =>
    intro i tape acc labels st t' _ hacc h
    simp only [wrapAll, Except.ok.injEq, Prod.mk.injEq] at h
    obtain ⟨rfl, _⟩ := h; exact hacc
  | cons r rs ih =>
    intro i tape acc labels st t' hrs hacc h
    unfold wrapAll at h
    split at h
    · simp at h
    · simp at h
    · rename_i ss l tape' hw
      have hss := hrs r (by simp) fk tape ss l tape' hfk hw
      have hacc' : ∀ s ∈ acc ++ ss, s.WF := by
        intro s hs; rcases List.mem_append.mp hs with hs | hs
        · exact hacc s hs
        · exact hss s hs
      simp only at h
      split at h
      · exact ih _ _ _ _ _ _ (fun x hx => hrs x (by simp [hx])) hacc' h
      · split at h
        · exact ih _ _ _ _ _ _ (fun x hx => hrs x (by simp [hx])) hacc' h
        · simp at h

/-- the loop only appends to the accumulated list, and everything it appends was returned by
    some recipient of the list -/
theorem wrapAll_appends (P : Prims) (fk : Bytes) :
    ∀ (rs : List Recipient) (i : Nat) (tape : Bytes) (acc : List Stanza) (labels : Option (List Bytes))
      (st : List Stanza) (t' : Bytes), wrapAll P fk rs i tape acc labels = .ok (st, t') →
      ∃ rest, st = acc ++ rest ∧
        ∀ s ∈ rest, ∃ r ∈ rs, ∃ tp ss l t, wrapOne P r fk tp = .ok (some (ss, l), t) ∧ s ∈ ss := by
  intro rs
  induction rs with
  | nil =>
    intro i tape acc labels st t' h
    simp only [wrapAll, Except.ok.injEq, Prod.mk.injEq] at h
    exact ⟨[], by simp [h.1], by simp⟩
  | cons r rs ih =>
    intro i tape acc labels st t' h
    unfold wrapAll at h
    split at h
    · simp at h
    · simp at h
    · rename_i ss l tape' hw
      simp only at h
      have hrec : ∀ labels', wrapAll P fk rs (i+1) tape' (acc ++ ss) labels' = .ok (st, t') →
          ∃ rest, st = acc ++ rest ∧
            ∀ s ∈ rest, ∃ r' ∈ r :: rs, ∃ tp ss l t, wrapOne P r' fk tp = .ok (some (ss, l), t) ∧ s ∈ ss := by
        intro labels' h'
        obtain ⟨rest, hr, hmem⟩ := ih _ _ _ _ _ _ h'
        refine ⟨ss ++ rest, by rw [hr]; simp, ?_⟩
        intro s hs
        rcases List.mem_append.mp hs with hs | hs
        · exact ⟨r, by simp, tape, ss, l, tape', hw, hs⟩
        · obtain ⟨r', hr', rest'⟩ := hmem s hs
          exact ⟨r', by simp [hr'], rest'⟩
      split at h
      · exact hrec _ h
      · split at h
        · exact hrec _ h
        · simp at h

/-- where in the header the stanzas of recipient number `rs1.length` end up:
    after stanzas that all come from the recipients listed before it -/
theorem wrapAll_split (P : Prims) (fk : Bytes) :
    ∀ (rs1 : List Recipient) (r : Recipient) (rs2 : List Recipient) (i : Nat) (tape : Bytes) (acc : List Stanza)
      (labels : Option (List Bytes)) (st : List Stanza) (t' : Bytes),
      wrapAll P fk (rs1 ++ r :: rs2) i tape acc labels = .ok (st, t') →
      ∃ before after ss l tapeR tapeR', st = acc ++ before ++ ss ++ after ∧
        wrapOne P r fk tapeR = .ok (some (ss, l), tapeR') ∧
        ∀ s ∈ before, ∃ r' ∈ rs1, ∃ tp ss' l' t, wrapOne P r' fk tp = .ok (some (ss', l'), t) ∧ s ∈ ss' := by
  intro rs1
  induction rs1 with
  | nil =>
    intro r rs2 i tape acc labels st t' h
    simp only [List.nil_append] at h
    unfold wrapAll at h
    split at h
    · simp at h
    · simp at h
    · rename_i ss l tape' hw
      simp only at h
      have hrec : ∀ labels', wrapAll P fk rs2 (i+1) tape' (acc ++ ss) labels' = .ok (st, t') →
          ∃ before after ss0 l0 tapeR tapeR', st = acc ++ before ++ ss0 ++ after ∧
            wrapOne P r fk tapeR = .ok (some (ss0, l0), tapeR') ∧
            ∀ s ∈ before, ∃ r' ∈ ([] : List Recipient), ∃ tp ss' l' t, wrapOne P r' fk tp = .ok (some (ss', l'), t) ∧ s ∈ ss' := by
        intro labels' h'
        obtain ⟨rest, hr, _⟩ := wrapAll_appends P fk _ _ _ _ _ _ _ h'
        exact ⟨[], rest, ss, l, tape, tape', by rw [hr]; simp, hw, by simp⟩
      split at h
      · exact hrec _ h
      · split at h
        · exact hrec _ h
        · simp at h
  | cons r1 rs1 ih =>
    intro r rs2 i tape acc labels st t' h
    simp only [List.cons_append] at h
    unfold wrapAll at h
    split at h
    · simp at h
    · simp at h
    · rename_i ss1 l1 tape1 hw1
      simp only at h
      have hrec : ∀ labels', wrapAll P fk (rs1 ++ r :: rs2) (i+1) tape1 (acc ++ ss1) labels' = .ok (st, t') →
          ∃ before after ss l tapeR tapeR', st = acc ++ before ++ ss ++ after ∧
            wrapOne P r fk tapeR = .ok (some (ss, l), tapeR') ∧
            ∀ s ∈ before, ∃ r' ∈ r1 :: rs1, ∃ tp ss' l' t, wrapOne P r' fk tp = .ok (some (ss', l'), t) ∧ s ∈ ss' := by
        intro labels' h'
        obtain ⟨before, after, ss, l, tR, tR', hst, hw, hb⟩ := ih r rs2 (i+1) tape1 (acc ++ ss1) labels' st t' h'
        refine ⟨ss1 ++ before, after, ss, l, tR, tR', by rw [hst]; simp, hw, ?_⟩
        intro s hs
        rcases List.mem_append.mp hs with hs | hs
        · exact ⟨r1, by simp, tape, ss1, l1, tape1, hw1, hs⟩
        · obtain ⟨r', hr', rest'⟩ := hb s hs
          exact ⟨r', by simp [hr'], rest'⟩
      split at h
      · exact hrec _ h
      · split at h
        · exact hrec _ h
        · simp at h

theorem encryptHeader_fk {P : Prims} {tape : Bytes} {rs : List Recipient} {fk : Bytes} {st : List Stanza} {t' : Bytes}
    (h : encryptHeader P tape rs = .ok (fk, st, t')) :
    fk.length = fileKeySize ∧ ∃ t, draw fileKeySize tape = some (fk, t) ∧ wrapAll P fk rs 0 t [] none = .ok (st, t') := by
  unfold encryptHeader at h
  split at h
  · simp at h
  · split at h
    · simp at h
    · rename_i fk0 t hd
      split at h
      · simp at h
      · rename_i st0 t0 hw
        simp only [Except.ok.injEq, Prod.mk.injEq] at h
        obtain ⟨rfl, rfl, rfl⟩ := h
        exact ⟨(draw_spec hd).1, t, hd, hw⟩

end AgeModel
