/-
  Proofs.GoTieArmorR — the de-armoring reader, as it stands in the source.

  `(*armoredReader).Read` of armor/armor.go — with its two closures `getLine` and `drainTrailing`
  (translated as two more methods of the receiver) and `setErr` — is TRANSLATED on every run
  (AgeModel/Extracted/Funcs.lean): `unread` is a view into the struct's own `buf`, the
  `bufio.Reader` is the bytes it will deliver (a source that ends cleanly), `bytes.TrimSpace`
  emptiness is `Go.bytes_allSpace`, and `base64.StdEncoding.Strict().Decode` is a PARAMETER.
  `armor_read_tie` is a SIMULATION with the model's reader machine `Armor.AReader.read1`
  (W = 1024, non-failing source): from related states one `Read(p)` on each side copies the same
  bytes into the caller's buffer, reports corresponding errors (nil / io.EOF / *armor.Error) and
  leaves related states — so `Props.C08`'s reader theorems are about the reader in the source.
-/
import AgeModel.GoSem
import AgeModel.Armor
import AgeModel.Extracted.Funcs
import Proofs.GoTieLines
import Proofs.GoTieArmorSpace
namespace AgeModel
namespace GoTie
open Extracted Armor

/-- what is assumed of `base64.StdEncoding.Strict().Decode(dst, line)`: it returns; when the line is
    strict canonical padded base64 it writes exactly the decoded bytes and reports nil; otherwise it
    reports an error that is not io.EOF, having written no more than `DecodedLen(len(line))` bytes -/
structure B64DecEnv where
  Dec : Bytes → Go.M (Bytes × Option Go.Err)
  eDec : Go.Err
  hDec : ∀ line, ∃ w, Dec line = .ok (w, match B64.decStd line with | some _ => none | none => some eDec) ∧
    w.length ≤ line.length / 4 * 3 ∧ (∀ b, B64.decStd line = some b → w = b)
  hne : some eDec ≠ Go.io_EOF

/-- the three things `Read` can report -/
def aErrRel : Option AOut → Option Go.Err → Prop
  | none, g => g = none
  | some .eof, g => g = Go.io_EOF
  | some .err, g => g = some ⟨"armor.Error", 0, []⟩

/-- related states: same `started`, the window `unread` of `buf` holds the model's unread bytes,
    corresponding sticky errors, and — while no error is recorded — the same text still to read -/
structure ARel (g : armor_armoredReader) (m : AReader) : Prop where
  started : g.started = m.started
  buflen : g.buf.length = 48
  lo : 0 ≤ g.unread_lo
  lohi : g.unread_lo ≤ g.unread_hi
  hi : g.unread_hi ≤ 48
  unread : (g.buf.drop g.unread_lo.toNat).take (g.unread_hi - g.unread_lo).toNat = m.unread
  err : aErrRel m.err g.err
  rest : m.err = none → g.r = m.rest

set_option linter.unusedSimpArgs false
set_option linter.unusedVariables false

/-! ## the helpers: getLine, setErr, drainTrailing -/

theorem takeLine_no_nl : ∀ (rd l rest : Bytes), Format.takeLine rd = some (l, rest) → (10:UInt8) ∉ l
  | [], _, _, h => by simp [Format.takeLine] at h
  | c :: cs, l, rest, h => by
    by_cases hc : c = Format.nl
    · simp only [Format.takeLine, hc, if_true, Option.some.injEq, Prod.mk.injEq] at h
      rw [← h.1]; simp
    · simp only [Format.takeLine, hc, if_false] at h
      cases h' : Format.takeLine cs with
      | none => rw [h'] at h; cases h
      | some q =>
        obtain ⟨l', r'⟩ := q
        rw [h'] at h
        simp only [Option.some.injEq, Prod.mk.injEq] at h
        have := takeLine_no_nl cs l' r' h'
        rw [← h.1]
        intro hm
        rcases List.mem_cons.mp hm with e | e
        · exact hc e.symm
        · exact this e

theorem takeLine_none_no_nl : ∀ (rd : Bytes), Format.takeLine rd = none → (10:UInt8) ∉ rd
  | [], _ => by simp
  | c :: cs, h => by
    by_cases hc : c = Format.nl
    · simp [Format.takeLine, hc] at h
    · simp only [Format.takeLine, hc, if_false] at h
      cases h' : Format.takeLine cs with
      | none =>
        have := takeLine_none_no_nl cs h'
        intro hm
        rcases List.mem_cons.mp hm with e | e
        · exact hc e.symm
        · exact this e
      | some q => rw [h'] at h; cases h

theorem trimSuffix_no_nl (l : Bytes) (h : (10:UInt8) ∉ l) : Go.strings_TrimSuffix l [10] = l := by
  unfold Go.strings_TrimSuffix
  split
  · rename_i hs
    have := List.isSuffixOf_iff_suffix.mp hs
    exact absurd (this.subset (List.mem_singleton.mpr rfl)) h
  · rfl

theorem trimSuffix_cr (l : Bytes) : Go.strings_TrimSuffix l [13] = trimCR l := by
  rcases List.eq_nil_or_concat l with rfl | ⟨L, b, rfl⟩
  · rfl
  · rw [List.concat_eq_append]
    unfold Go.strings_TrimSuffix trimCR
    rw [List.getLast?_concat]
    by_cases hb : b = Format.cr
    · subst hb
      have : ([13] : List UInt8).isSuffixOf (L ++ [Format.cr]) = true := by simp [Format.cr]
      simp only [this, if_true, List.length_append, List.length_cons, List.length_nil, Nat.add_sub_cancel,
        List.take_left', List.dropLast_concat]
    · have : ¬ ([13] : List UInt8).isSuffixOf (L ++ [b]) = true := by
        intro hs
        have := List.isSuffixOf_iff_suffix.mp hs
        simp at this
        exact hb this.symm
      simp only [this, if_false, hb, Bool.false_eq_true]


def armorErr : Option Go.Err := some ⟨"armor.Error", 0, []⟩

theorem getLine_go_none (g : armor_armoredReader) (h : Armor.getLine false g.r = none) :
    armor_armoredReader_Read_getLine g = .ok ([], Go.io_ErrUnexpectedEOF, { g with r := [] }) := by
  have hr : g.r = [] := by
    cases hgr : g.r with
    | nil => rfl
    | cons c cs =>
      rw [hgr] at h
      simp only [Armor.getLine] at h
      cases ht : Format.takeLine (c :: cs) with
      | none => rw [ht] at h; simp at h
      | some q => rw [ht] at h; simp at h
  simp only [armor_armoredReader_Read_getLine, hr]
  rfl

theorem getLine_go_some (g : armor_armoredReader) (line rest : Bytes) (h : Armor.getLine false g.r = some (line, rest)) :
    armor_armoredReader_Read_getLine g = .ok (line, none, { g with r := rest }) := by
  cases hgr : g.r with
  | nil => rw [hgr] at h; simp [Armor.getLine] at h
  | cons c cs =>
    rw [hgr] at h
    simp only [Armor.getLine] at h
    cases ht : Format.takeLine (c :: cs) with
    | none =>
      rw [ht] at h
      simp only [Bool.false_eq_true, if_false, Option.some.injEq, Prod.mk.injEq] at h
      have hnl := takeLine_none_no_nl _ ht
      simp only [armor_armoredReader_Read_getLine, hgr, readBytes_none _ ht]
      simp only [Go.ioEOF, Go.io_EOF, Go.len, trimSuffix_no_nl _ hnl, trimSuffix_cr, h.1, ← h.2]
      rfl
    | some q =>
      obtain ⟨l, r⟩ := q
      rw [ht] at h
      simp only [Option.some.injEq, Prod.mk.injEq] at h
      simp only [armor_armoredReader_Read_getLine, hgr, readBytes_some _ _ _ ht]
      simp only [trimSuffix_nl, trimSuffix_cr, h.1, ← h.2]
      rfl

theorem getLine_length (t line rest : Bytes) (h : Armor.getLine false t = some (line, rest)) : rest.length < t.length := by
  cases t with
  | nil => simp [Armor.getLine] at h
  | cons c cs =>
    simp only [Armor.getLine] at h
    cases ht : Format.takeLine (c :: cs) with
    | none =>
      rw [ht] at h
      simp only [Bool.false_eq_true, if_false, Option.some.injEq, Prod.mk.injEq] at h
      rw [← h.2]; simp
    | some q =>
      obtain ⟨l, r⟩ := q
      rw [ht] at h
      simp only [Option.some.injEq, Prod.mk.injEq] at h
      rw [← h.2]; exact takeLine_length _ _ _ ht

theorem setErr_eof (g : armor_armoredReader) :
    armor_armoredReader_setErr g Go.io_EOF = .ok (Go.io_EOF, { g with err := Go.io_EOF }) := rfl

theorem setErr_ne (g : armor_armoredReader) (e : Option Go.Err) (h : e ≠ Go.io_EOF) :
    armor_armoredReader_setErr g e = .ok (armorErr, { g with err := armorErr }) := by
  have : (e != Go.io_EOF) = true := by simpa using h
  simp only [armor_armoredReader_setErr, this, if_true]
  rfl

theorem drain_unfold (g : armor_armoredReader) :
    armor_armoredReader_Read_drainTrailing g = .ok (
      (if allSpace (g.r.take 1024) = true then
        (if (g.r.take 1024).length = 1024 then some (Go.Err.mk "armor.(*armoredReader).Read_drainTrailing" 1 []) else Go.io_EOF)
       else some (Go.Err.mk "armor.(*armoredReader).Read_drainTrailing" 0 [])), { g with r := g.r.drop 1024 }) := by
  simp only [armor_armoredReader_Read_drainTrailing, Go.io_ReadAllLimit, none_bne_none, Bool.false_eq_true, if_false,
    allSpace_eq, Int.reduceToNat, Go.len]
  by_cases hs : allSpace (g.r.take 1024) = true
  · by_cases hl : (g.r.take 1024).length = 1024
    · simp only [hs, hl]; rfl
    · have : ¬ Int.ofNat (g.r.take 1024).length = 1024 := by simp only [Int.ofNat_eq_natCast]; omega
      simp only [hs, hl, if_false, if_true, beq_iff_eq, this, Bool.not_true, Bool.false_eq_true]; rfl
  · simp only [hs, if_false, Bool.not_false, Bool.not_eq_true] at hs ⊢
    simp only [hs, Bool.not_false, if_true, Bool.false_eq_true, if_false]; rfl

theorem drain_go_ok (g : armor_armoredReader) (h : drainOK 1024 false g.r = true) :
    armor_armoredReader_Read_drainTrailing g = .ok (Go.io_EOF, { g with r := g.r.drop 1024 }) := by
  rw [drain_unfold]
  simp only [drainOK, Bool.false_eq_true, false_and, if_false, Bool.decide_and, Bool.and_eq_true, decide_eq_true_eq, ne_eq] at h
  simp only [h.1, if_true, h.2, if_false]

theorem drain_go_bad (g : armor_armoredReader) (h : drainOK 1024 false g.r = false) :
    ∃ e, armor_armoredReader_Read_drainTrailing g = .ok (e, { g with r := g.r.drop 1024 }) ∧ e ≠ Go.io_EOF := by
  rw [drain_unfold]
  refine ⟨_, rfl, ?_⟩
  by_cases hs : allSpace (g.r.take 1024) = true
  · by_cases hl : (g.r.take 1024).length = 1024
    · simp only [hs, hl, if_true]; decide
    · simp [drainOK, hs, hl] at h
      simp at hl; omega
  · simp only [hs, Bool.false_eq_true, if_false]; decide


/-! ## the loop `for !r.started` -/

theorem loop1_started (p : Bytes) (fuel : Nat) (g : armor_armoredReader) (rw : Int) (h : g.started = true) :
    armor_armoredReader_Read_loop1 p (fuel + 1) g rw = .ok (.next (g, rw)) := by
  simp only [armor_armoredReader_Read_loop1, h, Bool.not_true, Bool.not_false, if_true]
  rfl

theorem armorErr_ne : armorErr ≠ none := by decide
theorem unexp_ne_none : (Go.io_ErrUnexpectedEOF != none) = true := by decide
theorem unexp_ne_eof : Go.io_ErrUnexpectedEOF ≠ Go.io_EOF := by decide
theorem site_ne_eof (n : Nat) : (some (Go.Err.mk "armor.(*armoredReader).Read" n []) : Option Go.Err) ≠ Go.io_EOF := by
  intro h; injection h with h; injection h with h1 h2 h3; revert h1; decide

theorem hdr_eq : ([45, 45, 45, 45, 45, 66, 69, 71, 73, 78, 32, 65, 71, 69, 32, 69, 78, 67, 82, 89, 80, 84, 69, 68, 32, 70, 73, 76, 69, 45, 45, 45, 45, 45] : List UInt8) = Armor.header := rfl
theorem ftr_eq : ([45, 45, 45, 45, 45, 69, 78, 68, 32, 65, 71, 69, 32, 69, 78, 67, 82, 89, 80, 84, 69, 68, 32, 70, 73, 76, 69, 45, 45, 45, 45, 45] : List UInt8) = Armor.footer := rfl

theorem loop1_go (p : Bytes) (lo hi : Int) (buf : Bytes) (err : Option Go.Err) : ∀ (fuel : Nat) (r : Bytes) (rem : Nat), r.length < fuel →
    ∃ out, armor_armoredReader_Read_loop1 p fuel ⟨r, false, lo, hi, buf, err⟩ (Int.ofNat rem) = .ok out ∧
      match readLeading 1024 false fuel r rem with
      | some rest => ∃ rw, out = .next (⟨rest, true, lo, hi, buf, err⟩, rw)
      | none => ∃ r', out = .ret (0, armorErr, ⟨r', false, lo, hi, buf, armorErr⟩, p)
  | 0, r, rem, hf => by omega
  | fuel + 1, r, rem, hf => by
    cases hgl : Armor.getLine false r with
    | none =>
      refine ⟨_, by
        simp only [armor_armoredReader_Read_loop1, Bool.not_false, Bool.not_true, Bool.false_eq_true, if_false,
          getLine_go_none ⟨r, false, lo, hi, buf, err⟩ hgl, bind, Except.bind, unexp_ne_none, if_true, setErr_ne _ _ unexp_ne_eof, pure, Except.pure]
        rfl, ?_⟩
      simp only [readLeading, hgl]
      exact ⟨_, rfl⟩
    | some q =>
      obtain ⟨line, rest⟩ := q
      have hlen := getLine_length _ _ _ hgl
      by_cases hsp : allSpace line = true
      · by_cases hw : rem + line.length + 1 > 1024
        · have hd : decide (Int.ofNat rem + (Go.len line + 1) > 1024) = true := by
            apply decide_eq_true; simp only [Go.len, Int.ofNat_eq_natCast]; omega
          refine ⟨_, by
            simp only [armor_armoredReader_Read_loop1, Bool.not_false, Bool.not_true, Bool.false_eq_true, if_false,
              getLine_go_some ⟨r, false, lo, hi, buf, err⟩ _ _ hgl, bind, Except.bind, none_bne_none, allSpace_eq, hsp, hd,
              if_true, setErr_ne _ _ (site_ne_eof 0), pure, Except.pure]
            rfl, ?_⟩
          simp only [readLeading, hgl, hsp, hw, if_true]
          exact ⟨_, rfl⟩
        · have hd : decide (Int.ofNat rem + (Go.len line + 1) > 1024) = false := by
            apply decide_eq_false; simp only [Go.len, Int.ofNat_eq_natCast]; omega
          have he : Int.ofNat rem + (Go.len line + 1) = Int.ofNat (rem + line.length + 1) := by
            simp only [Go.len, Int.ofNat_eq_natCast]; omega
          have hd' : decide (Int.ofNat (rem + line.length + 1) > 1024) = false := by rw [← he]; exact hd
          obtain ⟨out, ho, hm⟩ := loop1_go p lo hi buf err fuel rest (rem + line.length + 1) (by omega)
          refine ⟨out, by
            simp only [armor_armoredReader_Read_loop1, Bool.not_false, Bool.not_true, Bool.false_eq_true, if_false,
              getLine_go_some ⟨r, false, lo, hi, buf, err⟩ _ _ hgl, bind, Except.bind, none_bne_none, allSpace_eq, hsp, hd,
              if_true, pure, Except.pure, he, hd', ho], ?_⟩
          simp only [readLeading, hgl, hsp, hw, if_true, if_false]
          exact hm
      · by_cases hh : line = header
        · have hsp' : allSpace line = false := Bool.eq_false_iff.mpr hsp
          have hb : (line != header) = false := by rw [hh]; exact bne_self_eq_false _
          obtain ⟨f', rfl⟩ : ∃ f', fuel = f' + 1 := ⟨fuel - 1, by omega⟩
          refine ⟨_, by
            simp only [armor_armoredReader_Read_loop1, Bool.not_false, Bool.not_true, Bool.false_eq_true, if_false,
              getLine_go_some ⟨r, false, lo, hi, buf, err⟩ _ _ hgl, bind, Except.bind, none_bne_none, allSpace_eq, hsp',
              hdr_eq, hb, if_true, pure, Except.pure]
            rfl, ?_⟩
          simp only [readLeading, hgl, hsp', hh, if_true, if_false, Bool.false_eq_true]
          exact ⟨_, rfl⟩
        · have hsp' : allSpace line = false := Bool.eq_false_iff.mpr hsp
          have hb : (line != header) = true := by simpa using hh
          refine ⟨_, by
            simp only [armor_armoredReader_Read_loop1, Bool.not_false, Bool.not_true, Bool.false_eq_true, if_false,
              getLine_go_some ⟨r, false, lo, hi, buf, err⟩ _ _ hgl, bind, Except.bind, none_bne_none, allSpace_eq, hsp',
              hdr_eq, hb, if_true, setErr_ne _ _ (site_ne_eof 1), pure, Except.pure]
            rfl, ?_⟩
          simp only [readLeading, hgl, hsp', hh, if_true, if_false, Bool.false_eq_true]
          exact ⟨_, rfl⟩


/-! ## `Read` in three pieces: the copy, the loop, the body -/

theorem writeAt_zero' (b d : Bytes) : Go.writeAt b 0 d = d ++ b.drop d.length := by
  simp [Go.writeAt]

/-- the copy at both ends of `Read`: `n := copy(p, r.unread); r.unread = r.unread[n:]; return n, nil` -/
def copyOut (r : armor_armoredReader) (p : Bytes) : Go.M (Int × (Option Go.Err) × armor_armoredReader × (List UInt8)) := do
  let t__25 := (← Go.slice (r).buf (r).unread_lo (r).unread_hi)
  let t__26 : Int := min (Go.len p) (Go.len t__25)
  let t__27 ← Go.reslice (r).unread_lo (Go.len (r).buf) t__26 ((r).unread_hi - (r).unread_lo)
  return (t__26, none, { r with unread_lo := t__27.1, unread_hi := t__27.2 }, Go.writeAt p (0 : Int) (t__25.take t__26.toNat))

/-- `Read` after the leading loop -/
def armorBody (base64_StdStrict_Decode : (List UInt8) → Go.M ((List UInt8) × (Option Go.Err))) (r : armor_armoredReader) (p : (List UInt8)) : Go.M (Int × (Option Go.Err) × armor_armoredReader × (List UInt8)) := do
  let mut r := r
  let mut p := p
  let t__9 := (← armor_armoredReader_Read_getLine r)
  r := t__9.2.2
  let mut line_2 : (List UInt8) := t__9.1
  let mut err_2 : (Option Go.Err) := t__9.2.1
  if (err_2 != none) then
    let t__10 := (← armor_armoredReader_setErr r err_2)
    r := t__10.2
    return ((0 : Int), t__10.1, r, p)
  if (line_2 == ([45, 45, 45, 45, 45, 69, 78, 68, 32, 65, 71, 69, 32, 69, 78, 67, 82, 89, 80, 84, 69, 68, 32, 70, 73, 76, 69, 45, 45, 45, 45, 45] : List UInt8)) then
    let t__11 := (← armor_armoredReader_Read_drainTrailing r)
    r := t__11.2
    let t__12 := (← armor_armoredReader_setErr r t__11.1)
    r := t__12.2
    return ((0 : Int), t__12.1, r, p)
  if (decide ((Go.len line_2) > (64 : Int))) then
    let t__13 := (← armor_armoredReader_setErr r (some (Go.Err.mk "armor.(*armoredReader).Read" 2 [])))
    r := t__13.2
    return ((0 : Int), t__13.1, r, p)
  if ((Go.len line_2) == (0 : Int)) then
    let t__14 := (← armor_armoredReader_setErr r (some (Go.Err.mk "armor.(*armoredReader).Read" 3 [])))
    r := t__14.2
    return ((0 : Int), t__14.1, r, p)
  if (Go.bytes_ContainsAny line_2 ([13, 10] : List UInt8)) then
    let t__15 := (← armor_armoredReader_setErr r (some (Go.Err.mk "armor.(*armoredReader).Read" 4 [])))
    r := t__15.2
    return ((0 : Int), t__15.1, r, p)
  let t__16 ← Go.reslice (0 : Int) (Go.len (r).buf) (0 : Int) (Go.len (r).buf)
  r := { r with unread_lo := t__16.1, unread_hi := t__16.2 }
  let t__17 ← base64_StdStrict_Decode line_2
  if (Go.len t__17.1) > ((r).unread_hi - (r).unread_lo) then throw Go.Fault.index
  r := { r with buf := (Go.writeAt (r).buf (r).unread_lo t__17.1) }
  let mut n_2 : Int := (Go.len t__17.1)
  err_2 := t__17.2
  if (err_2 != none) then
    r := { r with unread_lo := (0 : Int), unread_hi := (0 : Int) }
    let t__18 := (← armor_armoredReader_setErr r err_2)
    r := t__18.2
    return ((0 : Int), t__18.1, r, p)
  let t__19 ← Go.reslice (r).unread_lo (Go.len (r).buf) (0 : Int) n_2
  r := { r with unread_lo := t__19.1, unread_hi := t__19.2 }
  if (decide (n_2 < (48 : Int))) then
    let t__20 := (← armor_armoredReader_Read_getLine r)
    r := t__20.2.2
    let mut line_3 : (List UInt8) := t__20.1
    let mut err_3 : (Option Go.Err) := t__20.2.1
    if (err_3 != none) then
      r := { r with unread_lo := (0 : Int), unread_hi := (0 : Int) }
      let t__21 := (← armor_armoredReader_setErr r err_3)
      r := t__21.2
      return ((0 : Int), t__21.1, r, p)
    if (line_3 != ([45, 45, 45, 45, 45, 69, 78, 68, 32, 65, 71, 69, 32, 69, 78, 67, 82, 89, 80, 84, 69, 68, 32, 70, 73, 76, 69, 45, 45, 45, 45, 45] : List UInt8)) then
      r := { r with unread_lo := (0 : Int), unread_hi := (0 : Int) }
      let t__22 := (← armor_armoredReader_setErr r (some (Go.Err.mk "armor.(*armoredReader).Read" 5 [])))
      r := t__22.2
      return ((0 : Int), t__22.1, r, p)
    let t__23 := (← armor_armoredReader_Read_drainTrailing r)
    r := t__23.2
    let t__24 := (← armor_armoredReader_setErr r t__23.1)
    r := t__24.2
    let _ := t__24.1
  copyOut r p

theorem read_unfold (D : (List UInt8) → Go.M ((List UInt8) × (Option Go.Err))) (r : armor_armoredReader) (p : Bytes) :
    armor_armoredReader_Read D r p =
      (if (decide (((r).unread_hi - (r).unread_lo) > (0 : Int))) then copyOut r p
      else if ((r).err != none) then pure ((0 : Int), (r).err, r, p)
      else do
        let t__8 ← armor_armoredReader_Read_loop1 p ((Go.len (r).r).toNat + 1) r 0
        match t__8 with
        | .ret v__ => pure v__
        | .next (r', _) => armorBody D r' p) := by
  rfl

theorem toNat_ofNat' (n : Nat) : (Int.ofNat n).toNat = n := rfl

theorem drop_min (u : Bytes) (n : Nat) : u.drop (min n u.length) = u.drop n := by
  by_cases h : n ≤ u.length
  · rw [Nat.min_eq_left h]
  · rw [Nat.min_eq_right (by omega), List.drop_length, List.drop_of_length_le (by omega)]

theorem take_min (u : Bytes) (n : Nat) : u.take (min n u.length) = u.take n := by
  by_cases h : n ≤ u.length
  · rw [Nat.min_eq_left h]
  · rw [Nat.min_eq_right (by omega), List.take_length, List.take_of_length_le (by omega)]

theorem copyOut_go (g : armor_armoredReader) (u p : Bytes) (hbuf : g.buf.length = 48)
    (h0 : 0 ≤ g.unread_lo) (h1 : g.unread_lo ≤ g.unread_hi) (h2 : g.unread_hi ≤ 48)
    (hu : (g.buf.drop g.unread_lo.toNat).take (g.unread_hi - g.unread_lo).toNat = u) :
    ∃ lo' hi', copyOut g p = .ok (Int.ofNat (u.take p.length).length, none, { g with unread_lo := lo', unread_hi := hi' },
        u.take p.length ++ p.drop (u.take p.length).length) ∧
      0 ≤ lo' ∧ lo' ≤ hi' ∧ hi' ≤ 48 ∧ (g.buf.drop lo'.toNat).take (hi' - lo').toNat = u.drop p.length := by
  have hul : u.length = (g.unread_hi - g.unread_lo).toNat := by
    rw [← hu, List.length_take, List.length_drop, hbuf]; omega
  have hb : 0 ≤ g.unread_lo ∧ g.unread_lo ≤ g.unread_hi ∧ g.unread_hi ≤ Int.ofNat g.buf.length := by
    rw [hbuf]; exact ⟨h0, h1, h2⟩
  have hs : Go.slice g.buf g.unread_lo g.unread_hi = .ok u := by
    unfold Go.slice; rw [if_pos hb, List.drop_take, ← hu]
    congr 2; omega
  have hn : (u.take p.length).length = min p.length u.length := List.length_take
  have hmin : min (Go.len p) (Go.len u) = Int.ofNat (min p.length u.length) := by
    simp only [Go.len, Int.ofNat_eq_natCast]; omega
  have hc : 0 ≤ Int.ofNat (min p.length u.length) ∧ Int.ofNat (min p.length u.length) ≤ g.unread_hi - g.unread_lo ∧
      g.unread_lo + (g.unread_hi - g.unread_lo) ≤ Go.len g.buf := by
    simp only [Go.len, hbuf, Int.ofNat_eq_natCast]; omega
  have hr : Go.reslice g.unread_lo (Go.len g.buf) (Int.ofNat (min p.length u.length)) (g.unread_hi - g.unread_lo) =
      .ok (g.unread_lo + Int.ofNat (min p.length u.length), g.unread_lo + (g.unread_hi - g.unread_lo)) := by
    unfold Go.reslice; rw [if_pos hc]
  refine ⟨_, _, by
    simp only [copyOut, hs, bind, Except.bind, hmin, hr, pure, Except.pure, writeAt_zero', toNat_ofNat', take_min, hn]
    rfl, ?_, ?_, ?_, ?_⟩
  · simp only [Int.ofNat_eq_natCast]; omega
  · simp only [Int.ofNat_eq_natCast]; omega
  · omega
  · have e1 : (g.unread_lo + Int.ofNat (min p.length u.length)).toNat = g.unread_lo.toNat + min p.length u.length := by
      simp only [Int.ofNat_eq_natCast]; omega
    have e2 : (g.unread_lo + (g.unread_hi - g.unread_lo) - (g.unread_lo + Int.ofNat (min p.length u.length))).toNat
        = (g.unread_hi - g.unread_lo).toNat - min p.length u.length := by
      simp only [Int.ofNat_eq_natCast]; omega
    rw [e1, e2, ← drop_min u p.length]
    generalize min p.length u.length = k
    rw [← hu, List.drop_take, List.drop_drop]


/-! ## the body, branch by branch -/

theorem containsAny_eq (line : Bytes) :
    Go.bytes_ContainsAny line [13, 10] = line.any (fun c => c = Format.cr || c = Format.nl) := by
  unfold Go.bytes_ContainsAny
  congr 1
  funext c
  by_cases h1 : c = 13 <;> by_cases h2 : c = 10 <;> simp [h1, h2, Format.cr, Format.nl]

theorem body_none (D : Bytes → Go.M (Bytes × Option Go.Err)) (r : Bytes) (lo hi : Int) (buf p : Bytes)
    (hgl : getLine false r = none) :
    armorBody D ⟨r, true, lo, hi, buf, none⟩ p = .ok (0, armorErr, ⟨[], true, lo, hi, buf, armorErr⟩, p) := by
  simp only [armorBody, getLine_go_none ⟨r, true, lo, hi, buf, none⟩ hgl, bind, Except.bind, unexp_ne_none, if_true,
    setErr_ne _ _ unexp_ne_eof, pure, Except.pure]

theorem body_footer (D : Bytes → Go.M (Bytes × Option Go.Err)) (r : Bytes) (lo hi : Int) (buf p : Bytes) (rest1 : Bytes)
    (hgl : getLine false r = some (footer, rest1)) :
    armorBody D ⟨r, true, lo, hi, buf, none⟩ p =
      .ok (0, (if drainOK 1024 false rest1 then Go.io_EOF else armorErr),
        ⟨rest1.drop 1024, true, lo, hi, buf, (if drainOK 1024 false rest1 then Go.io_EOF else armorErr)⟩, p) := by
  have hb : (footer == footer) = true := beq_self_eq_true _
  cases hd : drainOK 1024 false rest1 with
  | true =>
    simp only [armorBody, getLine_go_some ⟨r, true, lo, hi, buf, none⟩ _ _ hgl, bind, Except.bind, none_bne_none,
      Bool.false_eq_true, if_false, ftr_eq, hb, if_true, drain_go_ok ⟨rest1, true, lo, hi, buf, none⟩ hd, setErr_eof, pure, Except.pure]
  | false =>
    obtain ⟨e, he, hne⟩ := drain_go_bad ⟨rest1, true, lo, hi, buf, none⟩ hd
    simp only [armorBody, getLine_go_some ⟨r, true, lo, hi, buf, none⟩ _ _ hgl, bind, Except.bind, none_bne_none,
      Bool.false_eq_true, if_false, ftr_eq, hb, if_true, he, setErr_ne _ _ hne, pure, Except.pure]

theorem body_long (D : Bytes → Go.M (Bytes × Option Go.Err)) (r : Bytes) (lo hi : Int) (buf p : Bytes) (line rest1 : Bytes)
    (hgl : getLine false r = some (line, rest1)) (hnf : (line == footer) = false)
    (h64 : decide (Go.len line > 64) = true) :
    armorBody D ⟨r, true, lo, hi, buf, none⟩ p = .ok (0, armorErr, ⟨rest1, true, lo, hi, buf, armorErr⟩, p) := by
  simp only [armorBody, getLine_go_some ⟨r, true, lo, hi, buf, none⟩ _ _ hgl, bind, Except.bind, none_bne_none,
    Bool.false_eq_true, if_false, ftr_eq, hnf, h64, if_true, setErr_ne _ _ (site_ne_eof 2), pure, Except.pure]

theorem body_empty (D : Bytes → Go.M (Bytes × Option Go.Err)) (r : Bytes) (lo hi : Int) (buf p : Bytes) (line rest1 : Bytes)
    (hgl : getLine false r = some (line, rest1)) (hnf : (line == footer) = false)
    (h64 : decide (Go.len line > 64) = false) (h0 : (Go.len line == 0) = true) :
    armorBody D ⟨r, true, lo, hi, buf, none⟩ p = .ok (0, armorErr, ⟨rest1, true, lo, hi, buf, armorErr⟩, p) := by
  simp only [armorBody, getLine_go_some ⟨r, true, lo, hi, buf, none⟩ _ _ hgl, bind, Except.bind, none_bne_none,
    Bool.false_eq_true, if_false, ftr_eq, hnf, h64, h0, if_true, setErr_ne _ _ (site_ne_eof 3), pure, Except.pure]

theorem body_crlf (D : Bytes → Go.M (Bytes × Option Go.Err)) (r : Bytes) (lo hi : Int) (buf p : Bytes) (line rest1 : Bytes)
    (hgl : getLine false r = some (line, rest1)) (hnf : (line == footer) = false)
    (h64 : decide (Go.len line > 64) = false) (h0 : (Go.len line == 0) = false)
    (hca : Go.bytes_ContainsAny line [13, 10] = true) :
    armorBody D ⟨r, true, lo, hi, buf, none⟩ p = .ok (0, armorErr, ⟨rest1, true, lo, hi, buf, armorErr⟩, p) := by
  simp only [armorBody, getLine_go_some ⟨r, true, lo, hi, buf, none⟩ _ _ hgl, bind, Except.bind, none_bne_none,
    Bool.false_eq_true, if_false, ftr_eq, hnf, h64, h0, hca, if_true, setErr_ne _ _ (site_ne_eof 4), pure, Except.pure]

theorem reslice_full (buf : Bytes) (h : buf.length = 48) : Go.reslice 0 (Go.len buf) 0 (Go.len buf) = .ok (0, 48) := by
  simp only [Go.reslice, Go.len, h]; rfl

theorem reslice_zero' (c n : Int) (h0 : 0 ≤ n) (hc : n ≤ c) : Go.reslice 0 c 0 n = .ok (0, n) := by
  have : (0:Int) ≤ 0 ∧ 0 ≤ n ∧ 0 + n ≤ c := by omega
  unfold Go.reslice
  rw [if_pos this, Int.zero_add, Int.zero_add]

theorem wz_length' (b d : Bytes) (h : d.length ≤ b.length) : (d ++ b.drop d.length).length = b.length := by
  rw [List.length_append, List.length_drop]; omega

theorem body_decerr (D : Bytes → Go.M (Bytes × Option Go.Err)) (r : Bytes) (lo hi : Int) (buf p : Bytes) (line rest1 : Bytes)
    (hgl : getLine false r = some (line, rest1)) (hnf : (line == footer) = false)
    (h64 : decide (Go.len line > 64) = false) (h0 : (Go.len line == 0) = false)
    (hca : Go.bytes_ContainsAny line [13, 10] = false) (hbuf : buf.length = 48)
    (w : Bytes) (e : Go.Err) (hD : D line = .ok (w, some e)) (hw : w.length ≤ 48) (hne : some e ≠ Go.io_EOF) :
    armorBody D ⟨r, true, lo, hi, buf, none⟩ p =
      .ok (0, armorErr, ⟨rest1, true, 0, 0, w ++ buf.drop w.length, armorErr⟩, p) := by
  have hg : ¬ (Go.len w > 48 - 0) := by simp only [Go.len, Int.ofNat_eq_natCast]; omega
  simp only [armorBody, getLine_go_some ⟨r, true, lo, hi, buf, none⟩ _ _ hgl, bind, Except.bind, none_bne_none,
    Bool.false_eq_true, if_false, ftr_eq, hnf, h64, h0, hca, reslice_full buf hbuf, hD, hg, writeAt_zero',
    some_bne_none, if_true, setErr_ne _ _ hne, pure, Except.pure]

theorem body_full (D : Bytes → Go.M (Bytes × Option Go.Err)) (r : Bytes) (lo hi : Int) (buf p : Bytes) (line rest1 : Bytes)
    (hgl : getLine false r = some (line, rest1)) (hnf : (line == footer) = false)
    (h64 : decide (Go.len line > 64) = false) (h0 : (Go.len line == 0) = false)
    (hca : Go.bytes_ContainsAny line [13, 10] = false) (hbuf : buf.length = 48)
    (b : Bytes) (hD : D line = .ok (b, none)) (hw : b.length ≤ 48) (hfull : ¬ b.length < 48) :
    armorBody D ⟨r, true, lo, hi, buf, none⟩ p =
      copyOut ⟨rest1, true, 0, Go.len b, b ++ buf.drop b.length, none⟩ p := by
  have hg : ¬ (Go.len b > 48 - 0) := by simp only [Go.len, Int.ofNat_eq_natCast]; omega
  have hrs : Go.reslice 0 (Go.len (b ++ buf.drop b.length)) 0 (Go.len b) = .ok (0, Go.len b) :=
    reslice_zero' _ _ (by simp only [Go.len, Int.ofNat_eq_natCast]; omega)
      (by simp only [Go.len, wz_length' buf b (by omega), Int.ofNat_eq_natCast]; omega)
  have hlt : decide (Go.len b < 48) = false := by
    apply decide_eq_false; simp only [Go.len, Int.ofNat_eq_natCast]; omega
  simp only [armorBody, getLine_go_some ⟨r, true, lo, hi, buf, none⟩ _ _ hgl, bind, Except.bind, none_bne_none,
    Bool.false_eq_true, if_false, ftr_eq, hnf, h64, h0, hca, reslice_full buf hbuf, hD, hg, writeAt_zero',
    hrs, hlt, pure, Except.pure]

theorem body_short_none (D : Bytes → Go.M (Bytes × Option Go.Err)) (r : Bytes) (lo hi : Int) (buf p : Bytes) (line rest1 : Bytes)
    (hgl : getLine false r = some (line, rest1)) (hnf : (line == footer) = false)
    (h64 : decide (Go.len line > 64) = false) (h0 : (Go.len line == 0) = false)
    (hca : Go.bytes_ContainsAny line [13, 10] = false) (hbuf : buf.length = 48)
    (b : Bytes) (hD : D line = .ok (b, none)) (hshort : b.length < 48)
    (hgl2 : getLine false rest1 = none) :
    armorBody D ⟨r, true, lo, hi, buf, none⟩ p =
      .ok (0, armorErr, ⟨[], true, 0, 0, b ++ buf.drop b.length, armorErr⟩, p) := by
  have hg : ¬ (Go.len b > 48 - 0) := by simp only [Go.len, Int.ofNat_eq_natCast]; omega
  have hrs : Go.reslice 0 (Go.len (b ++ buf.drop b.length)) 0 (Go.len b) = .ok (0, Go.len b) :=
    reslice_zero' _ _ (by simp only [Go.len, Int.ofNat_eq_natCast]; omega)
      (by simp only [Go.len, wz_length' buf b (by omega), Int.ofNat_eq_natCast]; omega)
  have hlt : decide (Go.len b < 48) = true := by
    apply decide_eq_true; simp only [Go.len, Int.ofNat_eq_natCast]; omega
  simp only [armorBody, getLine_go_some ⟨r, true, lo, hi, buf, none⟩ _ _ hgl, bind, Except.bind, none_bne_none,
    Bool.false_eq_true, if_false, ftr_eq, hnf, h64, h0, hca, reslice_full buf hbuf, hD, hg, writeAt_zero',
    hrs, hlt, if_true, getLine_go_none ⟨rest1, true, 0, Go.len b, b ++ buf.drop b.length, none⟩ hgl2,
    unexp_ne_none, setErr_ne _ _ unexp_ne_eof, pure, Except.pure]

theorem body_short_bad (D : Bytes → Go.M (Bytes × Option Go.Err)) (r : Bytes) (lo hi : Int) (buf p : Bytes) (line rest1 : Bytes)
    (hgl : getLine false r = some (line, rest1)) (hnf : (line == footer) = false)
    (h64 : decide (Go.len line > 64) = false) (h0 : (Go.len line == 0) = false)
    (hca : Go.bytes_ContainsAny line [13, 10] = false) (hbuf : buf.length = 48)
    (b : Bytes) (hD : D line = .ok (b, none)) (hshort : b.length < 48)
    (l2 rest2 : Bytes) (hgl2 : getLine false rest1 = some (l2, rest2)) (hl2 : (l2 != footer) = true) :
    armorBody D ⟨r, true, lo, hi, buf, none⟩ p =
      .ok (0, armorErr, ⟨rest2, true, 0, 0, b ++ buf.drop b.length, armorErr⟩, p) := by
  have hg : ¬ (Go.len b > 48 - 0) := by simp only [Go.len, Int.ofNat_eq_natCast]; omega
  have hrs : Go.reslice 0 (Go.len (b ++ buf.drop b.length)) 0 (Go.len b) = .ok (0, Go.len b) :=
    reslice_zero' _ _ (by simp only [Go.len, Int.ofNat_eq_natCast]; omega)
      (by simp only [Go.len, wz_length' buf b (by omega), Int.ofNat_eq_natCast]; omega)
  have hlt : decide (Go.len b < 48) = true := by
    apply decide_eq_true; simp only [Go.len, Int.ofNat_eq_natCast]; omega
  simp only [armorBody, getLine_go_some ⟨r, true, lo, hi, buf, none⟩ _ _ hgl, bind, Except.bind, none_bne_none,
    Bool.false_eq_true, if_false, ftr_eq, hnf, h64, h0, hca, reslice_full buf hbuf, hD, hg, writeAt_zero',
    hrs, hlt, if_true, getLine_go_some ⟨rest1, true, 0, Go.len b, b ++ buf.drop b.length, none⟩ _ _ hgl2,
    hl2, setErr_ne _ _ (site_ne_eof 5), pure, Except.pure]

theorem body_short_footer (D : Bytes → Go.M (Bytes × Option Go.Err)) (r : Bytes) (lo hi : Int) (buf p : Bytes) (line rest1 : Bytes)
    (hgl : getLine false r = some (line, rest1)) (hnf : (line == footer) = false)
    (h64 : decide (Go.len line > 64) = false) (h0 : (Go.len line == 0) = false)
    (hca : Go.bytes_ContainsAny line [13, 10] = false) (hbuf : buf.length = 48)
    (b : Bytes) (hD : D line = .ok (b, none)) (hshort : b.length < 48)
    (rest2 : Bytes) (hgl2 : getLine false rest1 = some (footer, rest2)) :
    armorBody D ⟨r, true, lo, hi, buf, none⟩ p =
      copyOut ⟨rest2.drop 1024, true, 0, Go.len b, b ++ buf.drop b.length,
        (if drainOK 1024 false rest2 then Go.io_EOF else armorErr)⟩ p := by
  have hg : ¬ (Go.len b > 48 - 0) := by simp only [Go.len, Int.ofNat_eq_natCast]; omega
  have hrs : Go.reslice 0 (Go.len (b ++ buf.drop b.length)) 0 (Go.len b) = .ok (0, Go.len b) :=
    reslice_zero' _ _ (by simp only [Go.len, Int.ofNat_eq_natCast]; omega)
      (by simp only [Go.len, wz_length' buf b (by omega), Int.ofNat_eq_natCast]; omega)
  have hlt : decide (Go.len b < 48) = true := by
    apply decide_eq_true; simp only [Go.len, Int.ofNat_eq_natCast]; omega
  have hl2 : (footer != footer) = false := bne_self_eq_false _
  cases hd : drainOK 1024 false rest2 with
  | true =>
    simp only [armorBody, getLine_go_some ⟨r, true, lo, hi, buf, none⟩ _ _ hgl, bind, Except.bind, none_bne_none,
      Bool.false_eq_true, if_false, ftr_eq, hnf, h64, h0, hca, reslice_full buf hbuf, hD, hg, writeAt_zero',
      hrs, hlt, if_true, getLine_go_some ⟨rest1, true, 0, Go.len b, b ++ buf.drop b.length, none⟩ _ _ hgl2,
      hl2, drain_go_ok ⟨rest2, true, 0, Go.len b, b ++ buf.drop b.length, none⟩ hd, setErr_eof, pure, Except.pure]
  | false =>
    obtain ⟨e, he, hne⟩ := drain_go_bad ⟨rest2, true, 0, Go.len b, b ++ buf.drop b.length, none⟩ hd
    simp only [armorBody, getLine_go_some ⟨r, true, lo, hi, buf, none⟩ _ _ hgl, bind, Except.bind, none_bne_none,
      Bool.false_eq_true, if_false, ftr_eq, hnf, h64, h0, hca, reslice_full buf hbuf, hD, hg, writeAt_zero',
      hrs, hlt, if_true, getLine_go_some ⟨rest1, true, 0, Go.len b, b ++ buf.drop b.length, none⟩ _ _ hgl2,
      hl2, he, setErr_ne _ _ hne, pure, Except.pure]


/-! ## the model's `read1`, branch by branch; the body against it -/

/-- what `armor_read_tie` says of one result -/
def Post (p : Bytes) (res : Int × Option Go.Err × armor_armoredReader × Bytes) (mr : AReader × Bytes × Option AOut) : Prop :=
  res.1 = Int.ofNat mr.2.1.length ∧ res.2.2.2 = mr.2.1 ++ p.drop mr.2.1.length ∧ aErrRel mr.2.2 res.2.1 ∧ ARel res.2.2.1 mr.1

theorem apost_err (p r' : Bytes) (st : Bool) (lo hi : Int) (buf t' : Bytes) (removed : Nat) (e : AOut) (ge : Option Go.Err)
    (hbuf : buf.length = 48) (h0 : 0 ≤ lo) (h1 : lo ≤ hi) (h2 : hi ≤ 48)
    (hv : (buf.drop lo.toNat).take (hi - lo).toNat = []) (he : aErrRel (some e) ge) :
    Post p (0, ge, ⟨r', st, lo, hi, buf, ge⟩, p) (⟨st, [], some e, t', removed⟩, [], some e) :=
  ⟨rfl, rfl, he, ⟨rfl, hbuf, h0, h1, h2, hv, he, fun h => by cases h⟩⟩

theorem post_copy (p r' buf b t' : Bytes) (removed : Nat) (me : Option AOut) (ge : Option Go.Err)
    (hbuf : buf.length = 48) (hb : b.length ≤ 48) (he : aErrRel me ge) (hr : me = none → r' = t') :
    ∃ res, copyOut ⟨r', true, 0, Go.len b, b ++ buf.drop b.length, ge⟩ p = .ok res ∧
      Post p res (⟨true, b.drop p.length, me, t', removed⟩, b.take p.length, none) := by
  have hl : (b ++ buf.drop b.length).length = 48 := by rw [wz_length' buf b (by omega)]; exact hbuf
  obtain ⟨lo', hi', hc, c0, c1, c2, c3⟩ := copyOut_go ⟨r', true, 0, Go.len b, b ++ buf.drop b.length, ge⟩ b p hl
    (Int.le_refl _) (by simp only [Go.len, Int.ofNat_eq_natCast]; omega) (by simp only [Go.len, Int.ofNat_eq_natCast]; omega)
    (by simp [Go.len])
  exact ⟨_, hc, rfl, rfl, rfl, ⟨rfl, hl, c0, c1, c2, c3, he, hr⟩⟩

theorem m_none (t : Bytes) (removed n : Nat) (hgl : getLine false t = none) :
    (⟨true, [], none, t, removed⟩ : AReader).read1 1024 false n = (⟨true, [], some .err, t, removed⟩, [], some .err) := by
  simp only [AReader.read1, List.length_nil, gt_iff_lt, Nat.lt_irrefl, if_false, if_true, hgl]

theorem m_bad (t line rest1 : Bytes) (removed n : Nat) (hgl : getLine false t = some (line, rest1))
    (hc : classifyLine line = .bad) :
    (⟨true, [], none, t, removed⟩ : AReader).read1 1024 false n = (⟨true, [], some .err, rest1, removed⟩, [], some .err) := by
  simp only [AReader.read1, List.length_nil, gt_iff_lt, Nat.lt_irrefl, if_false, if_true, hgl, hc]

theorem m_footer (t line rest1 : Bytes) (removed n : Nat) (hgl : getLine false t = some (line, rest1))
    (hc : classifyLine line = .footer) :
    (⟨true, [], none, t, removed⟩ : AReader).read1 1024 false n =
      (⟨true, [], some (if drainOK 1024 false rest1 then AOut.eof else AOut.err), [], removed⟩, [],
        some (if drainOK 1024 false rest1 then AOut.eof else AOut.err)) := by
  simp only [AReader.read1, List.length_nil, gt_iff_lt, Nat.lt_irrefl, if_false, if_true, hgl, hc]

theorem m_full (t line rest1 b : Bytes) (removed n : Nat) (hgl : getLine false t = some (line, rest1))
    (hc : classifyLine line = .data b) (hfull : ¬ b.length < 48) :
    (⟨true, [], none, t, removed⟩ : AReader).read1 1024 false n =
      (⟨true, b.drop n, none, rest1, removed⟩, b.take n, none) := by
  simp only [AReader.read1, List.length_nil, gt_iff_lt, Nat.lt_irrefl, if_false, if_true, hgl, hc, hfull]

theorem m_short_none (t line rest1 b : Bytes) (removed n : Nat) (hgl : getLine false t = some (line, rest1))
    (hc : classifyLine line = .data b) (hshort : b.length < 48) (hgl2 : getLine false rest1 = none) :
    (⟨true, [], none, t, removed⟩ : AReader).read1 1024 false n =
      (⟨true, [], some .err, [], removed⟩, [], some .err) := by
  simp only [AReader.read1, List.length_nil, gt_iff_lt, Nat.lt_irrefl, if_false, if_true, hgl, hc, hshort, hgl2]

theorem m_short_bad (t line rest1 b l2 rest2 : Bytes) (removed n : Nat) (hgl : getLine false t = some (line, rest1))
    (hc : classifyLine line = .data b) (hshort : b.length < 48) (hgl2 : getLine false rest1 = some (l2, rest2))
    (hl2 : l2 ≠ footer) :
    (⟨true, [], none, t, removed⟩ : AReader).read1 1024 false n =
      (⟨true, [], some .err, rest2, removed⟩, [], some .err) := by
  simp only [AReader.read1, List.length_nil, gt_iff_lt, Nat.lt_irrefl, if_false, if_true, hgl, hc, hshort, hgl2, hl2]

theorem m_short_footer (t line rest1 b rest2 : Bytes) (removed n : Nat) (hgl : getLine false t = some (line, rest1))
    (hc : classifyLine line = .data b) (hshort : b.length < 48) (hgl2 : getLine false rest1 = some (footer, rest2)) :
    (⟨true, [], none, t, removed⟩ : AReader).read1 1024 false n =
      (⟨true, b.drop n, some (if drainOK 1024 false rest2 then AOut.eof else AOut.err), [], removed⟩, b.take n, none) := by
  simp only [AReader.read1, List.length_nil, gt_iff_lt, Nat.lt_irrefl, if_false, if_true, hgl, hc, hshort, hgl2]

theorem aErrRel_drain (d : Bool) :
    aErrRel (some (if d = true then AOut.eof else AOut.err)) (if d = true then Go.io_EOF else armorErr) := by
  cases d <;> rfl

theorem body_tie (E : B64DecEnv) (r : Bytes) (lo hi : Int) (buf p : Bytes) (removed : Nat)
    (hbuf : buf.length = 48) (hlo : 0 ≤ lo) (hlh : lo ≤ hi) (hhi : hi ≤ 48)
    (hv : (buf.drop lo.toNat).take (hi - lo).toNat = []) :
    ∃ res, armorBody E.Dec ⟨r, true, lo, hi, buf, none⟩ p = .ok res ∧
      Post p res ((⟨true, [], none, r, removed⟩ : AReader).read1 1024 false p.length) := by
  cases hgl : getLine false r with
  | none =>
    rw [m_none r removed _ hgl]
    exact ⟨_, body_none E.Dec r lo hi buf p hgl, apost_err p _ true lo hi buf r removed .err _ hbuf hlo hlh hhi hv rfl⟩
  | some q =>
    obtain ⟨line, rest1⟩ := q
    by_cases hf : line = footer
    · subst hf
      have hc : classifyLine footer = .footer := by simp only [classifyLine, if_true]
      rw [m_footer r _ rest1 removed _ hgl hc]
      exact ⟨_, body_footer E.Dec r lo hi buf p rest1 hgl,
        apost_err p _ true lo hi buf [] removed _ _ hbuf hlo hlh hhi hv (aErrRel_drain _)⟩
    · have hnf : (line == footer) = false := by simpa using hf
      by_cases h64 : line.length > 64
      · have hc : classifyLine line = .bad := by simp [classifyLine, hf, h64]
        rw [m_bad r _ rest1 removed _ hgl hc]
        exact ⟨_, body_long E.Dec r lo hi buf p line rest1 hgl hnf
            (by apply decide_eq_true; simp only [Go.len, Int.ofNat_eq_natCast]; omega),
          apost_err p _ true lo hi buf rest1 removed .err _ hbuf hlo hlh hhi hv rfl⟩
      · have g64 : decide (Go.len line > 64) = false := by
          apply decide_eq_false; simp only [Go.len, Int.ofNat_eq_natCast]; omega
        by_cases hz : line.length = 0
        · have hc : classifyLine line = .bad := by simp [classifyLine, hf, h64, hz]
          rw [m_bad r _ rest1 removed _ hgl hc]
          exact ⟨_, body_empty E.Dec r lo hi buf p line rest1 hgl hnf g64
              (by simp only [Go.len, hz]; rfl),
            apost_err p _ true lo hi buf rest1 removed .err _ hbuf hlo hlh hhi hv rfl⟩
        · have gz : (Go.len line == 0) = false := by
            simp only [Go.len, Int.ofNat_eq_natCast, beq_eq_false_iff_ne, ne_eq]; omega
          by_cases hca : line.any (fun c => c = Format.cr || c = Format.nl) = true
          · have hc : classifyLine line = .bad := by simp [classifyLine, hf, h64, hz, hca]
            rw [m_bad r _ rest1 removed _ hgl hc]
            exact ⟨_, body_crlf E.Dec r lo hi buf p line rest1 hgl hnf g64 gz (by rw [containsAny_eq]; exact hca),
              apost_err p _ true lo hi buf rest1 removed .err _ hbuf hlo hlh hhi hv rfl⟩
          · have gca : Go.bytes_ContainsAny line [13, 10] = false := by
              rw [containsAny_eq]; exact Bool.eq_false_iff.mpr hca
            obtain ⟨w, hD, hwl, hwb⟩ := E.hDec line
            have hw48 : w.length ≤ 48 := by omega
            cases hdec : B64.decStd line with
            | none =>
              have hc : classifyLine line = .bad := by simp [classifyLine, hf, h64, hz, hca, hdec]
              rw [hdec] at hD
              rw [m_bad r _ rest1 removed _ hgl hc]
              exact ⟨_, body_decerr E.Dec r lo hi buf p line rest1 hgl hnf g64 gz gca hbuf w E.eDec hD hw48 E.hne,
                apost_err p _ true 0 0 _ rest1 removed .err _ (by rw [wz_length' buf w (by omega)]; exact hbuf)
                  (Int.le_refl _) (Int.le_refl _) (by omega) rfl rfl⟩
            | some b =>
              have hc : classifyLine line = .data b := by simp [classifyLine, hf, h64, hz, hca, hdec]
              have hwb' := hwb b hdec
              rw [hdec] at hD
              subst hwb'
              by_cases hshort : w.length < 48
              · have hbl : (w ++ buf.drop w.length).length = 48 := by rw [wz_length' buf w (by omega)]; exact hbuf
                cases hgl2 : getLine false rest1 with
                | none =>
                  rw [m_short_none r _ rest1 w removed _ hgl hc hshort hgl2]
                  exact ⟨_, body_short_none E.Dec r lo hi buf p line rest1 hgl hnf g64 gz gca hbuf w hD hshort hgl2,
                    apost_err p _ true 0 0 _ [] removed .err _ hbl (Int.le_refl _) (Int.le_refl _) (by omega) rfl rfl⟩
                | some q2 =>
                  obtain ⟨l2, rest2⟩ := q2
                  by_cases hl2 : l2 = footer
                  · subst hl2
                    rw [m_short_footer r _ rest1 w rest2 removed _ hgl hc hshort hgl2,
                      body_short_footer E.Dec r lo hi buf p line rest1 hgl hnf g64 gz gca hbuf w hD hshort rest2 hgl2]
                    exact post_copy p _ buf w [] removed _ _ hbuf hw48 (aErrRel_drain _)
                      (fun h => by cases hd : drainOK 1024 false rest2 <;> rw [hd] at h <;> cases h)
                  · rw [m_short_bad r _ rest1 w l2 rest2 removed _ hgl hc hshort hgl2 hl2]
                    exact ⟨_, body_short_bad E.Dec r lo hi buf p line rest1 hgl hnf g64 gz gca hbuf w hD hshort l2 rest2 hgl2
                        (by simpa using hl2),
                      apost_err p _ true 0 0 _ rest2 removed .err _ hbl (Int.le_refl _) (Int.le_refl _) (by omega) rfl rfl⟩
              · rw [m_full r _ rest1 w removed _ hgl hc hshort,
                  body_full E.Dec r lo hi buf p line rest1 hgl hnf g64 gz gca hbuf w hD hw48 hshort]
                exact post_copy p rest1 buf w rest1 removed none none hbuf hw48 rfl (fun _ => rfl)


/-! ## one `Read` -/

theorem m_lead (t rest : Bytes) (removed n : Nat) (h : readLeading 1024 false (t.length + 1) t 0 = some rest) :
    (⟨false, [], none, t, removed⟩ : AReader).read1 1024 false n =
      (⟨true, [], none, rest, removed⟩ : AReader).read1 1024 false n := by
  simp only [AReader.read1, List.length_nil, gt_iff_lt, Nat.lt_irrefl, if_false, if_true, h, Bool.false_eq_true]

theorem m_lead_none (t : Bytes) (removed n : Nat) (h : readLeading 1024 false (t.length + 1) t 0 = none) :
    (⟨false, [], none, t, removed⟩ : AReader).read1 1024 false n = (⟨false, [], some .err, t, removed⟩, [], some .err) := by
  simp only [AReader.read1, List.length_nil, gt_iff_lt, Nat.lt_irrefl, if_false, if_true, h, Bool.false_eq_true]

theorem aErrRel_ne (e : AOut) (g : Option Go.Err) (h : aErrRel (some e) g) : (g != none) = true := by
  cases e <;> (rw [show g = _ from h]; rfl)

theorem read_post (E : B64DecEnv) (g : armor_armoredReader) (m : AReader) (h : ARel g m) (p : Bytes) :
    ∃ res, armor_armoredReader_Read E.Dec g p = .ok res ∧ Post p res (m.read1 1024 false p.length) := by
  obtain ⟨r, st, lo, hi, buf, err⟩ := g
  obtain ⟨mst, mu, me, mrest, mrem⟩ := m
  obtain ⟨hst, hbuf, hlo, hlh, hhi, hu, herr, hrest⟩ := h
  simp only at hst hbuf hlo hlh hhi hu herr hrest
  subst hst
  have hul : mu.length = (hi - lo).toNat := by
    rw [← hu, List.length_take, List.length_drop, hbuf]; omega
  rw [read_unfold]
  by_cases hpos : mu.length > 0
  · have hgt : decide (hi - lo > 0) = true := by apply decide_eq_true; omega
    obtain ⟨lo', hi', hc, c0, c1, c2, c3⟩ := copyOut_go ⟨r, st, lo, hi, buf, err⟩ mu p hbuf hlo hlh hhi hu
    simp only [hgt, if_true]
    refine ⟨_, hc, ?_⟩
    simp only [AReader.read1, hpos, if_true]
    exact ⟨rfl, rfl, rfl, ⟨rfl, hbuf, c0, c1, c2, c3, herr, hrest⟩⟩
  · have hle : decide (hi - lo > 0) = false := by apply decide_eq_false; omega
    have hmu : mu = [] := List.eq_nil_of_length_eq_zero (by omega)
    subst hmu
    simp only [hle, Bool.false_eq_true, if_false]
    cases me with
    | some e =>
      have hne := aErrRel_ne e err herr
      simp only [hne, if_true]
      refine ⟨_, rfl, ?_⟩
      simp only [AReader.read1, List.length_nil, gt_iff_lt, Nat.lt_irrefl, if_false]
      exact ⟨rfl, rfl, herr, ⟨rfl, hbuf, hlo, hlh, hhi, hu, herr, hrest⟩⟩
    | none =>
      have herr' : err = none := herr
      subst herr'
      have hr' : r = mrest := hrest rfl
      subst hr'
      simp only [none_bne_none, Bool.false_eq_true, if_false]
      cases st with
      | true =>
        obtain ⟨res, hb, hp⟩ := body_tie E r lo hi buf p mrem hbuf hlo hlh hhi hu
        refine ⟨res, ?_, hp⟩
        simp only [loop1_started p _ ⟨r, true, lo, hi, buf, none⟩ 0 rfl, bind, Except.bind, hb]
      | false =>
        obtain ⟨out, ho, hm⟩ := loop1_go p lo hi buf none (r.length + 1) r 0 (by omega)
        have ho' : armor_armoredReader_Read_loop1 p ((Go.len r).toNat + 1) ⟨r, false, lo, hi, buf, none⟩ 0 = .ok out := ho
        cases hrl : readLeading 1024 false (r.length + 1) r 0 with
        | none =>
          rw [hrl] at hm
          obtain ⟨r', hout⟩ := hm
          subst hout
          rw [m_lead_none r mrem _ hrl]
          refine ⟨_, by simp only [ho', bind, Except.bind]; rfl, ?_⟩
          exact apost_err p r' false lo hi buf r mrem .err _ hbuf hlo hlh hhi hu rfl
        | some rest =>
          rw [hrl] at hm
          obtain ⟨rw', hout⟩ := hm
          subst hout
          rw [m_lead r rest mrem _ hrl]
          obtain ⟨res, hb, hp⟩ := body_tie E rest lo hi buf p mrem hbuf hlo hlh hhi hu
          exact ⟨res, by simp only [ho', bind, Except.bind, hb], hp⟩



/-- a fresh reader on each side -/
theorem armor_new_rel (t : Bytes) :
    ARel ⟨t, false, 0, 0, List.replicate 48 0, none⟩ (AReader.new t) :=
  ⟨rfl, List.length_replicate, Int.le_refl _, Int.le_refl _, (by decide : (0 : Int) ≤ 48), rfl, rfl, fun _ => rfl⟩

/-- one `Read(p)` -/
theorem armor_read_tie (E : B64DecEnv) (g : armor_armoredReader) (m : AReader) (h : ARel g m) (p : Bytes) :
    ∃ res, armor_armoredReader_Read E.Dec g p = .ok res ∧
      res.1 = Int.ofNat (m.read1 1024 false p.length).2.1.length ∧
      res.2.2.2 = (m.read1 1024 false p.length).2.1 ++ p.drop (m.read1 1024 false p.length).2.1.length ∧
      aErrRel (m.read1 1024 false p.length).2.2 res.2.1 ∧
      ARel res.2.2.1 (m.read1 1024 false p.length).1 := by
  obtain ⟨res, hres, h1, h2, h3, h4⟩ := read_post E g m h p
  exact ⟨res, hres, h1, h2, h3, h4⟩

/-- the reader returns from every related state, whatever it is given: no index or slice fault,
    no exhausted fuel, no panic -/
theorem armor_read_returns (E : B64DecEnv) (g : armor_armoredReader) (m : AReader) (h : ARel g m) (p : Bytes) :
    ∃ res, armor_armoredReader_Read E.Dec g p = .ok res := by
  obtain ⟨res, hres, _⟩ := armor_read_tie E g m h p
  exact ⟨res, hres⟩

end GoTie
end AgeModel
