/-
  Proofs.TapeLayout — WHERE in the random tape each recipient's wrap runs.

  Encrypt draws the 16 bytes of the file key, then each recipient, in list order, draws `drawSize r` bytes.
  So the wrap of the recipient standing after `pre` runs on `tape.drop (16 + (pre.map drawSize).sum)`.
  The lemmas of Proofs/FileLabels say that every recipient wrapped on SOME tape; the ones here say on which.
-/
import Proofs.FileLabels
namespace AgeModel
open Format

/-- bytes of the random tape each kind of recipient consumes -/
def drawSize : Recipient → Nat
  | .x25519 _ => 32 | .scrypt _ _ => 32 | .sshEd _ _ => 32 | .sshRsa _ _ => 32 | .custom _ _ => 0

/-- one recipient: a successful wrap consumed exactly the next `drawSize r` bytes
    of the tape and nothing else -/
theorem wrapOne_consumes (P : Prims) (r : Recipient) (fk tape : Bytes) (res : Option (List Stanza × List Bytes)) (t : Bytes)
    (h : wrapOne P r fk tape = .ok (res, t)) : ∃ used, tape = used ++ t ∧ used.length = drawSize r := by
  unfold wrapOne at h
  cases r with
  | x25519 pub =>
    simp only at h
    split at h
    · simp at h
    · rename_i eph t1 hd
      simp only [Except.ok.injEq, Prod.mk.injEq] at h
      obtain ⟨_, rfl⟩ := h
      exact ⟨eph, (draw_spec hd).2, (draw_spec hd).1⟩
  | scrypt pw n =>
    simp only at h
    split at h
    · simp at h
    · rename_i salt t1 hd
      split at h
      · simp at h
      · rename_i lab t2 hd2
        simp only [Except.ok.injEq, Prod.mk.injEq] at h
        obtain ⟨_, rfl⟩ := h
        refine ⟨salt ++ lab, by rw [(draw_spec hd).2, (draw_spec hd2).2]; simp, ?_⟩
        rw [List.length_append, (draw_spec hd).1, (draw_spec hd2).1]; rfl
  | sshEd w m =>
    simp only at h
    split at h
    · simp at h
    · rename_i eph t1 hd
      simp only [Except.ok.injEq, Prod.mk.injEq] at h
      obtain ⟨_, rfl⟩ := h
      exact ⟨eph, (draw_spec hd).2, (draw_spec hd).1⟩
  | sshRsa w p =>
    simp only at h
    split at h
    · simp at h
    · rename_i seed t1 hd
      simp only [Except.ok.injEq, Prod.mk.injEq] at h
      obtain ⟨_, rfl⟩ := h
      exact ⟨seed, (draw_spec hd).2, (draw_spec hd).1⟩
  | custom w l =>
    simp only [Except.ok.injEq, Prod.mk.injEq] at h
    obtain ⟨_, rfl⟩ := h
    exact ⟨[], by simp, rfl⟩

/-- the tape a successful wrap hands on is the tape it was given less its first `drawSize r` bytes -/
theorem wrapOne_rest (P : Prims) (r : Recipient) (fk tape : Bytes) (res : Option (List Stanza × List Bytes)) (t : Bytes)
    (h : wrapOne P r fk tape = .ok (res, t)) : t = tape.drop (drawSize r) := by
  obtain ⟨used, hu, hl⟩ := wrapOne_consumes P r fk tape res t h
  rw [hu, List.drop_left' hl]

/-- a draw hands on the tape less what it drew -/
theorem draw_rest {n : Nat} {t a r : Bytes} (h : draw n t = some (a, r)) : a = t.take n ∧ r = t.drop n := by
  unfold draw at h
  split at h
  · simp only [Option.some.injEq, Prod.mk.injEq] at h
    exact ⟨h.1.symm, h.2.symm⟩
  · simp at h

/-- **The recipient loop, located.** If the loop, started on the tape `tp`, runs to its end, then there is ONE sorted label
    list `l0` (the one already fixed on entry, if any) such that every recipient of the list — taken at its own place
    `rs = pre ++ r :: post` — wrapped successfully on `tp` less what the recipients before it consumed, and declared
    labels that sort to `l0`. -/
theorem wrapAll_located (P : Prims) (fk : Bytes) :
    ∀ (rs : List Recipient) (i : Nat) (tp : Bytes) (acc : List Stanza) (lb : Option (List Bytes)) (st : List Stanza) (t : Bytes),
      wrapAll P fk rs i tp acc lb = .ok (st, t) →
      ∃ l0 : List Bytes, (∀ x, lb = some x → l0 = x) ∧
        ∀ (pre : List Recipient) (r : Recipient) (post : List Recipient), rs = pre ++ r :: post →
          ∃ ss l t1, wrapOne P r fk (tp.drop (pre.map drawSize).sum) = .ok (some (ss, l), t1) ∧ sortLabels l = l0 := by
  intro rs
  induction rs with
  | nil =>
    intro i tp acc lb st t _
    refine ⟨lb.getD [], ?_, ?_⟩
    · intro x hx; rw [hx]; rfl
    · intro pre r post h
      exact absurd h (by simp)
  | cons r0 rs ih =>
    intro i tp acc lb st t h
    unfold wrapAll at h
    split at h
    · simp at h
    · simp at h
    · rename_i ss0 l0 tp' hw0
      simp only at h
      have htp' : tp' = tp.drop (drawSize r0) := wrapOne_rest P r0 fk tp _ tp' hw0
      -- in both branches the loop goes on with the sorted labels of `r0` fixed
      have hgo : wrapAll P fk rs (i+1) tp' (acc ++ ss0) (some (sortLabels l0)) = .ok (st, t) ∧
          (∀ x, lb = some x → sortLabels l0 = x) := by
        split at h
        · exact ⟨h, by intro x hx; simp at hx⟩
        · rename_i x
          split at h
          · rename_i heq
            subst heq
            exact ⟨h, by intro y hy; simp only [Option.some.injEq] at hy; exact hy⟩
          · simp at h
      obtain ⟨hrec, hlb⟩ := hgo
      obtain ⟨l1, hl1, hall⟩ := ih _ _ _ _ _ _ hrec
      have hl1' : l1 = sortLabels l0 := hl1 _ rfl
      subst hl1'
      refine ⟨sortLabels l0, hlb, ?_⟩
      intro pre r post hsplit
      cases pre with
      | nil =>
        simp only [List.nil_append, List.cons.injEq] at hsplit
        obtain ⟨rfl, _⟩ := hsplit
        exact ⟨ss0, l0, tp', by simpa using hw0, rfl⟩
      | cons p pre' =>
        simp only [List.cons_append, List.cons.injEq] at hsplit
        obtain ⟨rfl, hrs⟩ := hsplit
        obtain ⟨ss, l, t1, hw, hl⟩ := hall pre' r post hrs
        refine ⟨ss, l, t1, ?_, hl⟩
        rw [htp', List.drop_drop] at hw
        simpa [Nat.add_comm] using hw

/-- **Encrypt's header phase, located.** If Encrypt gets as far as a header, every recipient — taken at its own place
    `rs = pre ++ r :: post` — wrapped successfully on the REAL tape less the 16 bytes of the file key and less what the
    recipients before it consumed, and all the label lists, sorted, are one and the same list. -/
theorem encryptHeader_located (P : Prims) (tape : Bytes) (rs : List Recipient) (fk : Bytes) (st : List Stanza) (t : Bytes)
    (h : encryptHeader P tape rs = .ok (fk, st, t)) :
    ∃ l0 : List Bytes, ∀ (pre : List Recipient) (r : Recipient) (post : List Recipient), rs = pre ++ r :: post →
      ∃ ss l t1, wrapOne P r fk (tape.drop (16 + (pre.map drawSize).sum)) = .ok (some (ss, l), t1) ∧ sortLabels l = l0 := by
  obtain ⟨_, t0, hd0, hw⟩ := encryptHeader_fk h
  have ht0 : t0 = tape.drop 16 := (draw_rest hd0).2
  obtain ⟨l0, _, hall⟩ := wrapAll_located P fk rs 0 t0 [] none st t hw
  refine ⟨l0, ?_⟩
  intro pre r post hsplit
  obtain ⟨ss, l, t1, hw1, hl⟩ := hall pre r post hsplit
  rw [ht0, List.drop_drop] at hw1
  exact ⟨ss, l, t1, hw1, hl⟩

/-- the label a passphrase recipient declares is the hex of bytes 16..31 of the tape it was given -/
theorem wrapOne_label_scrypt_located (P : Prims) (pw : Bytes) (n : Nat) (fk tape : Bytes) (ss : List Stanza) (l : List Bytes) (t : Bytes)
    (h : wrapOne P (.scrypt pw n) fk tape = .ok (some (ss, l), t)) : l = [hexLower ((tape.drop 16).take 16)] := by
  obtain ⟨salt, lab, e, hs, hlab, hl⟩ := wrapOne_labels_scrypt P pw n fk tape ss l t h
  rw [hl, e, List.append_assoc, List.drop_left' hs, List.take_left' hlab]

/-! ### `hexLower` loses nothing -/

/-- one lowercase hexadecimal digit -/
def hexNibble (n : Nat) : UInt8 := if n < 10 then (48 + n).toUInt8 else (87 + n).toUInt8

theorem hexLower_cons (x : UInt8) (xs : Bytes) :
    hexLower (x :: xs) = hexNibble (x.toNat / 16) :: hexNibble (x.toNat % 16) :: hexLower xs := rfl

theorem hexNibble_inj : ∀ n < 16, ∀ m < 16, hexNibble n = hexNibble m → n = m := by decide

/-- two byte strings with the same lowercase hex are the same byte string -/
theorem hexLower_inj : ∀ (a b : Bytes), hexLower a = hexLower b → a = b := by
  intro a
  induction a with
  | nil =>
    intro b h
    cases b with
    | nil => rfl
    | cons y ys => rw [hexLower_cons] at h; exact absurd h (by simp [hexLower])
  | cons x xs ih =>
    intro b h
    cases b with
    | nil => rw [hexLower_cons] at h; exact absurd h (by simp [hexLower])
    | cons y ys =>
      rw [hexLower_cons, hexLower_cons] at h
      simp only [List.cons.injEq] at h
      obtain ⟨h1, h2, h3⟩ := h
      have hx := x.toNat_lt
      have hy := y.toNat_lt
      have e1 := hexNibble_inj _ (by omega) _ (by omega) h1
      have e2 := hexNibble_inj _ (Nat.mod_lt _ (by decide)) _ (Nat.mod_lt _ (by decide)) h2
      have exy : x = y := UInt8.toNat_inj.mp (by omega)
      rw [exy, ih ys h3]

end AgeModel
