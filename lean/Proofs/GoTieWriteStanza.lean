/-
  Proofs.GoTieWriteStanza — `plugin.writeStanza` / `writeStanzaWithBody` (plugin/client.go), translated
  on every run on top of the translated `Stanza.Marshal`: what the client writes to the plugin for a
  message of type `t` is the canonical serialisation of the stanza `t args…` with an empty body,
  resp. of `t` with the given body and no arguments (assumptions on destination and encoder as in
  `MarshalEnv`).
-/
import Proofs.GoTieMarshal
namespace AgeModel
namespace GoTie
open Extracted

theorem writeStanza_tie {δ ε ω : Type} (E : MarshalEnv δ ε ω) (t : Bytes) (args : List Bytes) (d : δ) :
    ∃ d', plugin_writeStanza E.W E.b64 E.New E.Wr E.Cl d t args = .ok (none, d') ∧
      E.absD d' = E.absD d ++ Format.marshalStanza ⟨t, args, []⟩ := by
  obtain ⟨d', h, ha⟩ := stanza_marshal_tie E ⟨t, args, []⟩ d
  refine ⟨d', ?_, ha⟩
  simp only [plugin_writeStanza, bind, Except.bind, pure, Except.pure]
  have : (⟨t, args, []⟩ : format_Stanza) = toGoFStanza ⟨t, args, []⟩ := rfl
  rw [this, h]

theorem writeStanzaWithBody_tie {δ ε ω : Type} (E : MarshalEnv δ ε ω) (t body : Bytes) (d : δ) :
    ∃ d', plugin_writeStanzaWithBody E.W E.b64 E.New E.Wr E.Cl d t body = .ok (none, d') ∧
      E.absD d' = E.absD d ++ Format.marshalStanza ⟨t, [], body⟩ := by
  obtain ⟨d', h, ha⟩ := stanza_marshal_tie E ⟨t, [], body⟩ d
  refine ⟨d', ?_, ha⟩
  simp only [plugin_writeStanzaWithBody, bind, Except.bind, pure, Except.pure]
  have : (⟨t, [], body⟩ : format_Stanza) = toGoFStanza ⟨t, [], body⟩ := rfl
  rw [this, h]

end GoTie
end AgeModel
