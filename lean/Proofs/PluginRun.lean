/-
  Generic lemmas about the read loop `Plugin.run` (any step function).
-/
import AgeModel.Plugin
namespace AgeModel
namespace Plugin

variable {S α : Type}

theorem Hard.not_ok {res : Except ClientErr α} (h : Hard res) (v : α) : res ≠ .ok v := by
  obtain ⟨err, rfl, _⟩ := h; intro h; cases h

theorem Hard.not_incorrect {res : Except ClientErr α} (h : Hard res) : res ≠ .error .incorrectIdentity := by
  obtain ⟨err, rfl, he⟩ := h; intro h; cases h; exact he

theorem Hard.not_noStanzas {res : Except ClientErr α} (h : Hard res) : res ≠ .error .noStanzas := by
  obtain ⟨err, rfl, he⟩ := h; intro h; cases h; exact he

theorem hard_protocol : Hard (.error .protocol : Except ClientErr α) := ⟨_, rfl, trivial⟩
theorem hard_ended (e : End) : Hard (.error (.ended e) : Except ClientErr α) := ⟨_, rfl, trivial⟩
theorem hard_pluginError (t : Bytes) : Hard (.error (.pluginError t) : Except ClientErr α) := ⟨_, rfl, trivial⟩

/-- a step never returns the "read failed" error itself -/
def NoEndHalt (step : S → Stanza → Step S α) : Prop :=
  ∀ s m rs res, step s m = .halt rs res → ∀ e, res ≠ .error (.ended e)

theorem run_nil (step : S → Stanza → Step S α) (s : S) (e : End) :
    run step s [] e = ⟨s, [], .error (.ended e)⟩ := rfl

theorem run_cons_next {step : S → Stanza → Step S α} {s s' : S} {m : Stanza} {r : Stanza}
    (h : step s m = .next s' r) (rest : List Stanza) (e : End) :
    run step s (m :: rest) e =
      ⟨(run step s' rest e).state, r :: (run step s' rest e).replies, (run step s' rest e).result⟩ := by
  simp only [run, h]

theorem run_cons_halt {step : S → Stanza → Step S α} {s : S} {m : Stanza} {rs : List Stanza}
    {res : Except ClientErr α} (h : step s m = .halt rs res) (rest : List Stanza) (e : End) :
    run step s (m :: rest) e = ⟨s, rs, res⟩ := by
  simp only [run, h]

/-- If the client is still listening after `pre` (its run over `pre` alone ends
    with "read failed"), then the run over `pre ++ rest` is the run over `pre`
    followed by the run over `rest` from the state reached. -/
theorem run_append_of_listening {step : S → Stanza → Step S α} (hne : NoEndHalt step)
    (s : S) (pre : List Stanza) (e : End)
    (h : (run step s pre e).result = .error (.ended e)) (rest : List Stanza) (e' : End) :
    run step s (pre ++ rest) e' =
      ⟨(run step (run step s pre e).state rest e').state,
       (run step s pre e).replies ++ (run step (run step s pre e).state rest e').replies,
       (run step (run step s pre e).state rest e').result⟩ := by
  induction pre generalizing s with
  | nil => simp [run]
  | cons m pre ih =>
    cases hs : step s m with
    | next s' r =>
      rw [run_cons_next hs] at h
      simp only [List.cons_append, run_cons_next hs]
      rw [ih s' h]
    | halt rs res =>
      rw [run_cons_halt hs] at h
      exact absurd h (hne s m rs res hs e)

/-- listening does not depend on how the stream would have ended -/
theorem listening_any_end {step : S → Stanza → Step S α} (hne : NoEndHalt step)
    (s : S) (pre : List Stanza) (e e' : End)
    (h : (run step s pre e).result = .error (.ended e)) :
    (run step s pre e').result = .error (.ended e') ∧
    (run step s pre e').state = (run step s pre e).state ∧
    (run step s pre e').replies = (run step s pre e).replies := by
  have := run_append_of_listening hne s pre e h [] e'
  simp only [List.append_nil, run_nil] at this
  rw [this]
  simp

/-- a property of the state that every continuing step on a message satisfying
    `Q` preserves holds at the end of a conversation of such messages -/
theorem run_state_inv {step : S → Stanza → Step S α} (P : S → Prop) (Q : Stanza → Prop)
    (hP : ∀ s m s' r, Q m → P s → step s m = .next s' r → P s')
    (s : S) (hs : P s) (msgs : List Stanza) (hall : ∀ m ∈ msgs, Q m) (e : End) :
    P (run step s msgs e).state := by
  induction msgs generalizing s with
  | nil => exact hs
  | cons m rest ih =>
    have hm := hall m List.mem_cons_self
    have hrest : ∀ x ∈ rest, Q x := fun x hx => hall x (List.mem_cons_of_mem _ hx)
    cases h : step s m with
    | next s' r => rw [run_cons_next h]; exact ih s' (hP s m s' r hm hs h) hrest
    | halt rs res => rw [run_cons_halt h]; exact hs

/-- if the client is listening after `pre ++ rest` it was listening after `pre` -/
theorem listening_prefix {step : S → Stanza → Step S α}
    (s : S) (pre rest : List Stanza) (e : End)
    (h : (run step s (pre ++ rest) e).result = .error (.ended e)) :
    (run step s pre e).result = .error (.ended e) := by
  induction pre generalizing s with
  | nil => rfl
  | cons m pre ih =>
    cases hs : step s m with
    | next s' r =>
      simp only [List.cons_append, run_cons_next hs] at h
      rw [run_cons_next hs]
      exact ih s' h
    | halt rs res =>
      simp only [List.cons_append, run_cons_halt hs] at h
      rw [run_cons_halt hs]
      exact h

/-- messages that make the step function continue in every state are all
    answered, and the client is still listening afterwards -/
theorem run_all_next {step : S → Stanza → Step S α} (Q : Stanza → Prop)
    (hQ : ∀ s m, Q m → ∃ s' r, step s m = .next s' r)
    (s : S) (msgs : List Stanza) (hall : ∀ m ∈ msgs, Q m) (e : End) :
    (run step s msgs e).result = .error (.ended e) ∧ (run step s msgs e).replies.length = msgs.length := by
  induction msgs generalizing s with
  | nil => exact ⟨rfl, rfl⟩
  | cons m rest ih =>
    obtain ⟨s', r, h⟩ := hQ s m (hall m List.mem_cons_self)
    rw [run_cons_next h]
    have := ih s' (fun x hx => hall x (List.mem_cons_of_mem _ hx))
    exact ⟨this.1, by simp [this.2]⟩

/-- the plugin's error text is returned only for an `error` message that the
    loop reached while still listening, whose acknowledgement `ok` is then the
    last thing written: the converse of `run_halt_when_listening` for `error` -/
theorem run_pluginError {step : S → Stanza → Step S α}
    (hH : ∀ s m rs res, step s m = .halt rs res →
      (∀ t, res ≠ .error (.pluginError t)) ∨ (rs = [okS] ∧ res = .error (.pluginError m.body) ∧ m.type = "error"))
    (s : S) (msgs : List Stanza) (e : End) (t : Bytes)
    (h : (run step s msgs e).result = .error (.pluginError t)) :
    ∃ pre m post, msgs = pre ++ m :: post ∧ m.type = "error" ∧ m.body = t ∧
      ∀ e₀, (run step s pre e₀).result = .error (.ended e₀) ∧
        (run step s msgs e).replies = (run step s pre e₀).replies ++ [okS] := by
  induction msgs generalizing s with
  | nil => simp [run] at h
  | cons m rest ih =>
    cases hs : step s m with
    | next s' r =>
      rw [run_cons_next hs] at h ⊢
      obtain ⟨pre, x, post, hsplit, hxt, hxb, hl⟩ := ih s' h
      refine ⟨m :: pre, x, post, by rw [hsplit]; rfl, hxt, hxb, fun e₀ => ?_⟩
      rw [run_cons_next hs]
      exact ⟨(hl e₀).1, by simp only [(hl e₀).2, List.cons_append]⟩
    | halt rs res =>
      rw [run_cons_halt hs] at h ⊢
      simp only at h
      cases hH s m rs res hs with
      | inl hno => exact absurd h (hno t)
      | inr hyes =>
        obtain ⟨hrs, hres, hty⟩ := hyes
        rw [hres] at h
        cases h
        exact ⟨[], m, rest, rfl, hty, rfl, fun e₀ => ⟨rfl, by simp [hrs, run_nil]⟩⟩

/-- Over a prefix, the run either halts at one of its messages (in a state
    satisfying the invariant) or passes through it into a state satisfying the
    invariant. -/
theorem run_prefix {step : S → Stanza → Step S α} (P : S → Prop)
    (hP : ∀ s m s' r, P s → step s m = .next s' r → P s')
    (s : S) (hs : P s) (pre rest : List Stanza) (e : End) :
    (∃ x ∈ pre, ∃ sx rs res, P sx ∧ step sx x = .halt rs res ∧ (run step s (pre ++ rest) e).result = res) ∨
    (∃ s' rs, P s' ∧ run step s (pre ++ rest) e =
        ⟨(run step s' rest e).state, rs ++ (run step s' rest e).replies, (run step s' rest e).result⟩) := by
  induction pre generalizing s with
  | nil => exact Or.inr ⟨s, [], hs, by simp⟩
  | cons m pre ih =>
    cases h : step s m with
    | next s' r =>
      simp only [List.cons_append, run_cons_next h]
      cases ih s' (hP s m s' r hs h) with
      | inl hA =>
        obtain ⟨x, hx, sx, rs, res, hpx, hstep, hres⟩ := hA
        exact Or.inl ⟨x, List.mem_cons_of_mem _ hx, sx, rs, res, hpx, hstep, hres⟩
      | inr hB =>
        obtain ⟨s'', rs, hp, heq⟩ := hB
        refine Or.inr ⟨s'', r :: rs, hp, ?_⟩
        rw [heq]
        simp
    | halt rs res =>
      refine Or.inl ⟨m, List.mem_cons_self, s, rs, res, hs, h, ?_⟩
      simp only [List.cons_append, run_cons_halt h]

/-- if no message of the conversation can make the loop return anything but a
    hard error, the result is a hard error -/
theorem run_hard {step : S → Stanza → Step S α} (Q : Stanza → Prop)
    (hQ : ∀ s m rs res, Q m → step s m = .halt rs res → Hard res)
    (s : S) (msgs : List Stanza) (e : End) (hall : ∀ m ∈ msgs, Q m) :
    Hard (run step s msgs e).result := by
  induction msgs generalizing s with
  | nil => exact hard_ended e
  | cons m rest ih =>
    have hm := hall m List.mem_cons_self
    have hrest : ∀ x ∈ rest, Q x := fun x hx => hall x (List.mem_cons_of_mem _ hx)
    cases h : step s m with
    | next s' r => rw [run_cons_next h]; exact ih s' hrest
    | halt rs res => rw [run_cons_halt h]; exact hQ s m rs res hm h

/-- A message `m` on which the step function returns `(rs, res)` in every state
    satisfying the invariant, placed after a prefix none of whose messages can
    return anything but a hard error: the run's result is `res` or a hard error. -/
theorem run_halt_after_prefix {step : S → Stanza → Step S α} (P : S → Prop)
    (hP : ∀ s m s' r, P s → step s m = .next s' r → P s')
    (Q : Stanza → Prop) (hQ : ∀ s m rs res, Q m → step s m = .halt rs res → Hard res)
    (s : S) (hs : P s) (pre : List Stanza) (m : Stanza) (post : List Stanza) (e : End)
    (hpre : ∀ x ∈ pre, Q x) (rs : List Stanza) (res : Except ClientErr α)
    (hm : ∀ sx, P sx → step sx m = .halt rs res) :
    Hard (run step s (pre ++ m :: post) e).result ∨ (run step s (pre ++ m :: post) e).result = res := by
  cases run_prefix P hP s hs pre (m :: post) e with
  | inl hA =>
    obtain ⟨x, hx, sx, rs', res', _, hstep, hres⟩ := hA
    exact Or.inl (hres ▸ hQ sx x rs' res' (hpre x hx) hstep)
  | inr hB =>
    obtain ⟨s', rs', hp, heq⟩ := hB
    refine Or.inr ?_
    rw [heq, run_cons_halt (hm s' hp)]

/-- the same message when the client is known to be listening: exact outcome -/
theorem run_halt_when_listening {step : S → Stanza → Step S α} (hne : NoEndHalt step)
    (s : S) (pre : List Stanza) (e : End) (h : (run step s pre e).result = .error (.ended e))
    (m : Stanza) (post : List Stanza) (e' : End) (rs : List Stanza) (res : Except ClientErr α)
    (hm : step (run step s pre e).state m = .halt rs res) :
    run step s (pre ++ m :: post) e' = ⟨(run step s pre e).state, (run step s pre e).replies ++ rs, res⟩ := by
  rw [run_append_of_listening hne s pre e h, run_cons_halt hm]

theorem run_next_when_listening {step : S → Stanza → Step S α} (hne : NoEndHalt step)
    (s : S) (pre : List Stanza) (e : End) (h : (run step s pre e).result = .error (.ended e))
    (m : Stanza) (e' : End) (s' : S) (r : Stanza)
    (hm : step (run step s pre e).state m = .next s' r) :
    run step s (pre ++ [m]) e' = ⟨s', (run step s pre e).replies ++ [r], .error (.ended e')⟩ := by
  rw [run_append_of_listening hne s pre e h, run_cons_next hm, run_nil]

/-- A message that makes the loop return `(rs, res)` (a hard error) in every
    state satisfying an invariant: (a) after any prefix without a message that
    can return something else than a hard error, the result is a hard error;
    (b) when the client is listening after the prefix, the outcome is exactly
    the prefix's replies followed by `rs`, and `res`. -/
theorem run_fatal_message {step : S → Stanza → Step S α} (hne : NoEndHalt step)
    (P : S → Prop) (hP : ∀ s m s' r, P s → step s m = .next s' r → P s')
    (Q : Stanza → Prop) (hQ : ∀ s m rs res, Q m → step s m = .halt rs res → Hard res)
    (s : S) (hs : P s) (pre : List Stanza) (m : Stanza) (post : List Stanza) (e : End)
    (rs : List Stanza) (res : Except ClientErr α) (hres : Hard res)
    (hm : ∀ sx, P sx → step sx m = .halt rs res) :
    ((∀ x ∈ pre, Q x) → Hard (run step s (pre ++ m :: post) e).result) ∧
    (∀ e₀, (run step s pre e₀).result = .error (.ended e₀) →
      run step s (pre ++ m :: post) e =
        ⟨(run step s pre e₀).state, (run step s pre e₀).replies ++ rs, res⟩) := by
  constructor
  · intro hpre
    cases run_halt_after_prefix P hP Q hQ s hs pre m post e hpre rs res hm with
    | inl h => exact h
    | inr h => rw [h]; exact hres
  · intro e₀ hl
    have hp : P (run step s pre e₀).state :=
      run_state_inv P (fun _ => True) (fun s m s' r _ hp h => hP s m s' r hp h) s hs pre (fun _ _ => trivial) e₀
    exact run_halt_when_listening hne s pre e₀ hl m post e rs res (hm _ hp)

/-- The "repeated message" pattern: once `m1` has been accepted the invariant
    `P` holds for good, and under `P` the message `m2` makes the loop return the
    hard error `(rs, res)`. -/
theorem run_second_message {step : S → Stanza → Step S α} (hne : NoEndHalt step)
    (P : S → Prop) (hP : ∀ s m s' r, P s → step s m = .next s' r → P s')
    (Q : Stanza → Prop) (hQ : ∀ s m rs res, Q m → step s m = .halt rs res → Hard res)
    (s : S) (pre : List Stanza) (m1 : Stanza) (mid : List Stanza) (m2 : Stanza) (post : List Stanza) (e : End)
    (hm1 : ∀ sx s' r, step sx m1 = .next s' r → P s') (hq1 : Q m1)
    (rs : List Stanza) (res : Except ClientErr α) (hres : Hard res)
    (hm2 : ∀ sx, P sx → step sx m2 = .halt rs res) :
    ((∀ x ∈ pre, Q x) → (∀ x ∈ mid, Q x) → Hard (run step s (pre ++ m1 :: (mid ++ m2 :: post)) e).result) ∧
    (∀ e₀, (run step s (pre ++ m1 :: mid) e₀).result = .error (.ended e₀) →
      run step s (pre ++ m1 :: (mid ++ m2 :: post)) e =
        ⟨(run step s (pre ++ m1 :: mid) e₀).state, (run step s (pre ++ m1 :: mid) e₀).replies ++ rs, res⟩) := by
  constructor
  · intro hpre hmid
    cases run_prefix (fun _ => True) (fun _ _ _ _ _ _ => trivial) s trivial pre (m1 :: (mid ++ m2 :: post)) e with
    | inl hA =>
      obtain ⟨x, hx, sx, rs', res', _, hstep, hr⟩ := hA
      exact hr ▸ hQ sx x rs' res' (hpre x hx) hstep
    | inr hB =>
      obtain ⟨s', rs', _, heq⟩ := hB
      rw [heq]
      cases h1 : step s' m1 with
      | halt rs1 res1 =>
        rw [run_cons_halt h1]
        exact hQ s' m1 rs1 res1 hq1 h1
      | next s1 r1 =>
        rw [run_cons_next h1]
        exact ((run_fatal_message hne P hP Q hQ s1 (hm1 s' s1 r1 h1) mid m2 post e rs res hres hm2).1 hmid)
  · intro e₀ hl
    have hlpre := listening_prefix s pre (m1 :: mid) e₀ hl
    have happ := run_append_of_listening hne s pre e₀ hlpre (m1 :: mid) e₀
    have hp : P (run step s (pre ++ m1 :: mid) e₀).state := by
      rw [happ] at hl ⊢
      cases h1 : step (run step s pre e₀).state m1 with
      | halt rs1 res1 =>
        rw [run_cons_halt h1] at hl
        exact absurd hl (hne _ m1 rs1 res1 h1 e₀)
      | next s1 r1 =>
        rw [run_cons_next h1]
        exact run_state_inv P (fun _ => True) (fun s m s' r _ hp h => hP s m s' r hp h) s1
          (hm1 _ s1 r1 h1) mid (fun _ _ => trivial) e₀
    have hassoc : pre ++ m1 :: (mid ++ m2 :: post) = (pre ++ m1 :: mid) ++ m2 :: post := by simp
    rw [hassoc]
    exact run_halt_when_listening hne s (pre ++ m1 :: mid) e₀ hl m2 post e rs res (hm2 _ hp)

/-- Deleting from the conversation messages that the step function answers
    with a fixed reply `u` without changing the state (while no other message
    is ever answered with `u`) deletes exactly the replies `u`. -/
theorem run_filter {step : S → Stanza → Step S α} (keep : Stanza → Bool) (u : Stanza)
    (hskip : ∀ s m, keep m = false → step s m = .next s u)
    (hkeep : ∀ s m s' r, keep m = true → step s m = .next s' r → r ≠ u)
    (hhalt : ∀ s m rs res, step s m = .halt rs res → u ∉ rs)
    (s : S) (msgs : List Stanza) (e : End) :
    (run step s (msgs.filter keep) e).replies = (run step s msgs e).replies.filter (fun r => decide (r ≠ u)) ∧
    (run step s (msgs.filter keep) e).result = (run step s msgs e).result ∧
    (run step s (msgs.filter keep) e).state = (run step s msgs e).state := by
  induction msgs generalizing s with
  | nil => simp [run]
  | cons m rest ih =>
    cases hk : keep m with
    | false =>
      have hs := hskip s m hk
      rw [List.filter_cons_of_neg (by simp [hk]), run_cons_next hs]
      obtain ⟨h1, h2, h3⟩ := ih s
      refine ⟨?_, h2, h3⟩
      rw [h1]
      simp
    | true =>
      rw [List.filter_cons_of_pos (by simp [hk])]
      cases h : step s m with
      | next s' r =>
        rw [run_cons_next h, run_cons_next h]
        obtain ⟨h1, h2, h3⟩ := ih s'
        refine ⟨?_, h2, h3⟩
        have hr := hkeep s m s' r hk h
        simp only [h1]
        rw [List.filter_cons_of_pos (by simpa using hr)]
      | halt rs res =>
        rw [run_cons_halt h, run_cons_halt h]
        refine ⟨?_, rfl, rfl⟩
        have hu := hhalt s m rs res h
        simp only
        rw [List.filter_eq_self.mpr]
        intro a ha
        have : a ≠ u := fun hau => hu (hau ▸ ha)
        simpa using this

end Plugin
end AgeModel
