/-
  Helper lemmas for the EncryptedSSHIdentity model.
-/
import AgeModel.SshEnc
namespace AgeModel
namespace SshEnc

variable {R : Type}

/-- the scan ends in a match iff the first stanza that is not passed over has the tag -/
theorem scan_matched_iff (cfg : Config R) : ∀ ss : List Stanza,
    scanStanzas cfg ss = .matched ↔
      ∃ pre s post, ss = pre ++ s :: post ∧ (∀ s' ∈ pre, passedOver cfg s') ∧ isMatch cfg s := by
  intro ss
  induction ss with
  | nil => simp [scanStanzas]
  | cons x xs ih =>
    by_cases ht : x.type = cfg.keyType
    · cases ha : x.args with
      | nil =>
        simp only [scanStanzas, ht, ne_eq, not_true_eq_false, if_false, ha]
        constructor
        · intro h; cases h
        · rintro ⟨pre, s, post, hls, hpre, hm⟩
          exfalso
          cases pre with
          | nil =>
            simp only [List.nil_append, List.cons.injEq] at hls
            obtain ⟨hx, _⟩ := hls
            subst hx
            have := hm.2
            rw [ha] at this
            simp at this
          | cons p pre =>
            simp only [List.cons_append, List.cons.injEq] at hls
            obtain ⟨hx, _⟩ := hls
            subst hx
            rcases hpre x (by simp) with h | ⟨a, h, _⟩
            · exact h ht
            · rw [ha] at h; simp at h
      | cons a as =>
        by_cases hat : a = cfg.tag
        · simp only [scanStanzas, ht, ne_eq, not_true_eq_false, if_false, ha, hat, true_iff]
          exact ⟨[], x, xs, rfl, by simp, ht, by simp [ha, hat]⟩
        · simp only [scanStanzas, ht, ne_eq, not_true_eq_false, if_false, ha, hat, not_false_eq_true,
            if_true]
          rw [ih]
          constructor
          · rintro ⟨pre, s, post, hls, hpre, hm⟩
            refine ⟨x :: pre, s, post, by simp [hls], ?_, hm⟩
            intro s' hs'
            rcases List.mem_cons.mp hs' with h | h
            · subst h; exact Or.inr ⟨a, by simp [ha], hat⟩
            · exact hpre s' h
          · rintro ⟨pre, s, post, hls, hpre, hm⟩
            cases pre with
            | nil =>
              exfalso
              simp only [List.nil_append, List.cons.injEq] at hls
              obtain ⟨hx, _⟩ := hls
              subst hx
              have := hm.2
              rw [ha] at this
              simp only [List.head?_cons, Option.some.injEq] at this
              exact hat this
            | cons p pre =>
              simp only [List.cons_append, List.cons.injEq] at hls
              exact ⟨pre, s, post, hls.2, fun s' hs' => hpre s' (by simp [hs']), hm⟩
    · simp only [scanStanzas, ne_eq, ht, not_false_eq_true, if_true]
      rw [ih]
      constructor
      · rintro ⟨pre, s, post, hls, hpre, hm⟩
        refine ⟨x :: pre, s, post, by simp [hls], ?_, hm⟩
        intro s' hs'
        rcases List.mem_cons.mp hs' with h | h
        · subst h; exact Or.inl ht
        · exact hpre s' h
      · rintro ⟨pre, s, post, hls, hpre, hm⟩
        cases pre with
        | nil =>
          exfalso
          simp only [List.nil_append, List.cons.injEq] at hls
          obtain ⟨hx, _⟩ := hls
          subst hx
          exact ht hm.1
        | cons p pre =>
          simp only [List.cons_append, List.cons.injEq] at hls
          exact ⟨pre, s, post, hls.2, fun s' hs' => hpre s' (by simp [hs']), hm⟩

/-- the scan ends in "malformed" iff the first stanza that is not passed over
    has the declared type and no argument -/
theorem scan_malformed_iff (cfg : Config R) : ∀ ss : List Stanza,
    scanStanzas cfg ss = .malformed ↔
      ∃ pre s post, ss = pre ++ s :: post ∧ (∀ s' ∈ pre, passedOver cfg s') ∧
        s.type = cfg.keyType ∧ s.args = [] := by
  intro ss
  induction ss with
  | nil => simp [scanStanzas]
  | cons x xs ih =>
    -- a passed-over head can be prepended to / stripped from a decomposition
    have shift : passedOver cfg x →
        ((∃ pre s post, xs = pre ++ s :: post ∧ (∀ s' ∈ pre, passedOver cfg s') ∧
            s.type = cfg.keyType ∧ s.args = []) ↔
         (∃ pre s post, x :: xs = pre ++ s :: post ∧ (∀ s' ∈ pre, passedOver cfg s') ∧
            s.type = cfg.keyType ∧ s.args = [])) := by
      intro hx
      constructor
      · rintro ⟨pre, s, post, hls, hpre, hm⟩
        refine ⟨x :: pre, s, post, by simp [hls], ?_, hm⟩
        intro s' hs'
        rcases List.mem_cons.mp hs' with h | h
        · subst h; exact hx
        · exact hpre s' h
      · rintro ⟨pre, s, post, hls, hpre, hm⟩
        cases pre with
        | nil =>
          exfalso
          simp only [List.nil_append, List.cons.injEq] at hls
          obtain ⟨hxs, _⟩ := hls
          subst hxs
          rcases hx with h | ⟨a, h, _⟩
          · exact h hm.1
          · rw [hm.2] at h; simp at h
        | cons p pre =>
          simp only [List.cons_append, List.cons.injEq] at hls
          exact ⟨pre, s, post, hls.2, fun s' hs' => hpre s' (by simp [hs']), hm⟩
    by_cases ht : x.type = cfg.keyType
    · cases ha : x.args with
      | nil =>
        simp only [scanStanzas, ht, ne_eq, not_true_eq_false, if_false, ha, true_iff]
        exact ⟨[], x, xs, rfl, by simp, ht, ha⟩
      | cons a as =>
        by_cases hat : a = cfg.tag
        · simp only [scanStanzas, ht, ne_eq, not_true_eq_false, if_false, ha, hat]
          constructor
          · intro h; cases h
          · rintro ⟨pre, s, post, hls, hpre, hm⟩
            exfalso
            cases pre with
            | nil =>
              simp only [List.nil_append, List.cons.injEq] at hls
              obtain ⟨hxs, _⟩ := hls
              subst hxs
              rw [hm.2] at ha; cases ha
            | cons p pre =>
              simp only [List.cons_append, List.cons.injEq] at hls
              obtain ⟨hxs, _⟩ := hls
              subst hxs
              rcases hpre x (by simp) with h | ⟨b, h, hb⟩
              · exact h ht
              · rw [ha] at h
                simp only [List.head?_cons, Option.some.injEq] at h
                exact hb (h ▸ hat)
        · simp only [scanStanzas, ht, ne_eq, not_true_eq_false, if_false, ha, hat, not_false_eq_true,
            if_true]
          rw [ih]
          exact shift (Or.inr ⟨a, by simp [ha], hat⟩)
    · simp only [scanStanzas, ne_eq, ht, not_false_eq_true, if_true]
      rw [ih]
      exact shift (Or.inl ht)

/-- every step leaves the state alone or unlocks it with the declared key after a
    validated prompt -/
theorem step_state (cfg : Config R) (st : State) (ss : List Stanza) (a : Option Passphrase) :
    (step cfg st ss a).1 = st ∨
    (st.cached = none ∧ scanStanzas cfg ss = .matched ∧
      (∃ p, a = some p ∧ cfg.openFile p = some (.key cfg.declared)) ∧
      (step cfg st ss a).1 = ⟨some cfg.declared⟩ ∧
      (step cfg st ss a).2.prompted = true ∧
      (step cfg st ss a).2.result = .delegated (cfg.innerUnwrap cfg.declared ss)) := by
  unfold step
  cases hc : st.cached with
  | some k => simp
  | none =>
    simp only
    cases hs : scanStanzas cfg ss with
    | malformed => simp
    | noMatch => simp
    | matched =>
      simp only
      cases a with
      | none => simp
      | some p =>
        simp only
        cases ho : cfg.openFile p with
        | none => simp
        | some o =>
          cases o with
          | otherType => simp
          | invalidKey => simp
          | key k =>
            simp only
            by_cases hk : k = cfg.declared
            · subst hk
              simp only [ne_eq, not_true_eq_false, if_false]
              refine Or.inr ⟨?_, ?_, ⟨p, rfl, ho⟩, ?_, ?_, ?_⟩ <;> first | rfl | trivial
            · simp [hk]

theorem run_cons (cfg : Config R) (st : State) (c : Call) (cs : List Call) :
    run cfg st (c :: cs) =
      ((run cfg (step cfg st c.1 c.2).1 cs).1, (step cfg st c.1 c.2).2 :: (run cfg (step cfg st c.1 c.2).1 cs).2) := rfl

/-- where a cached key comes from: the state at the end of a history holds key `k`
    only if it held it at the start, or it was locked at the start, `k` is the
    declared key and the history splits at its FIRST unlocking call `c`: every
    call before `c` left the state as it was (locked), `c`'s stanzas end the scan
    in a match, its scripted answer opens the key file to the declared key pair,
    the output of `c` (at its position in the trace) says "prompted" and carries
    the plain identity's result, and the state after `c` holds the declared key. -/
theorem run_cached_source (cfg : Config R) (k : KeyId) : ∀ (h : List Call) (st : State),
    (run cfg st h).1.cached = some k →
    st.cached = some k ∨
    (k = cfg.declared ∧ st.cached = none ∧
      ∃ h1 c h2, h = h1 ++ c :: h2 ∧ (run cfg st h1).1 = st ∧
        scanStanzas cfg c.1 = .matched ∧
        (∃ p, c.2 = some p ∧ cfg.openFile p = some (.key cfg.declared)) ∧
        (∃ o, (run cfg st h).2[h1.length]? = some o ∧ o.prompted = true ∧
          o.result = .delegated (cfg.innerUnwrap cfg.declared c.1)) ∧
        (run cfg st (h1 ++ [c])).1 = ⟨some cfg.declared⟩) := by
  intro h
  induction h with
  | nil => intro st hst; exact Or.inl hst
  | cons c cs ih =>
    intro st hst
    rw [run_cons] at hst
    rcases step_state cfg st c.1 c.2 with h2 | ⟨hlocked, hm, hp, h4, h5, h6⟩
    · rw [h2] at hst
      rcases ih st hst with h1 | ⟨hkd, hl, h1, c', h2', hsplit, hrun, hm', hp', ⟨o, ho, hop, hor⟩, hafter⟩
      · exact Or.inl h1
      · refine Or.inr ⟨hkd, hl, c :: h1, c', h2', by rw [hsplit]; rfl, ?_, hm', hp', ⟨o, ?_, hop, hor⟩, ?_⟩
        · rw [run_cons, h2]; exact hrun
        · rw [run_cons, h2]
          simpa using ho
        · rw [List.cons_append, run_cons, h2]; exact hafter
    · rw [h4] at hst
      have hk : k = cfg.declared := by
        rcases ih _ hst with h1 | ⟨_, hl, _⟩
        · simp only [Option.some.injEq] at h1; exact h1.symm
        · cases hl
      refine Or.inr ⟨hk, hlocked, [], c, cs, rfl, rfl, hm, hp, ⟨(step cfg st c.1 c.2).2, ?_, h5, h6⟩, ?_⟩
      · rw [run_cons]; rfl
      · rw [List.nil_append, run_cons, h4]; rfl

end SshEnc
end AgeModel
