/-
  Helper lemmas for the EncryptedSSHIdentity model.
-/
import AgeModel.SshEnc
namespace AgeModel
namespace SshEnc

variable {R : Type}

/-- the scan ends in a match iff the first stanza that is not passed over has the tag -/
theorem scan_matched_iff (cfg : Config R) : ∀ ss : List Stanza,
    scanStanzas cfg ss = .matched ↔
      ∃ pre s post, ss = pre ++ s :: post ∧ (∀ s' ∈ pre, passedOver cfg s') ∧ isMatch cfg s := by
  intro ss
  induction ss with
  | nil => simp [scanStanzas]
  | cons x xs ih =>
    by_cases ht : x.type = cfg.keyType
    · cases ha : x.args with
      | nil =>
        simp only [scanStanzas, ht, ne_eq, not_true_eq_false, if_false, ha]
        constructor
        · intro h; cases h
        · rintro ⟨pre, s, post, hls, hpre, hm⟩
          exfalso
          cases pre with
          | nil =>
            simp only [List.nil_append, List.cons.injEq] at hls
            obtain ⟨hx, _⟩ := hls
            subst hx
            have := hm.2
            rw [ha] at this
            simp at this
          | cons p pre =>
            simp only [List.cons_append, List.cons.injEq] at hls
            obtain ⟨hx, _⟩ := hls
            subst hx
            rcases hpre x (by simp) with h | ⟨a, h, _⟩
            · exact h ht
            · rw [ha] at h; simp at h
      | cons a as =>
        by_cases hat : a = cfg.tag
        · simp only [scanStanzas, ht, ne_eq, not_true_eq_false, if_false, ha, hat, true_iff]
          exact ⟨[], x, xs, rfl, by simp, ht, by simp [ha, hat]⟩
        · simp only [scanStanzas, ht, ne_eq, not_true_eq_false, if_false, ha, hat, not_false_eq_true,
            if_true]
          rw [ih]
          constructor
          · rintro ⟨pre, s, post, hls, hpre, hm⟩
            refine ⟨x :: pre, s, post, by simp [hls], ?_, hm⟩
            intro s' hs'
            rcases List.mem_cons.mp hs' with h | h
            · subst h; exact Or.inr ⟨a, by simp [ha], hat⟩
            · exact hpre s' h
          · rintro ⟨pre, s, post, hls, hpre, hm⟩
            cases pre with
            | nil =>
              exfalso
              simp only [List.nil_append, List.cons.injEq] at hls
              obtain ⟨hx, _⟩ := hls
              subst hx
              have := hm.2
              rw [ha] at this
              simp only [List.head?_cons, Option.some.injEq] at this
              exact hat this
            | cons p pre =>
              simp only [List.cons_append, List.cons.injEq] at hls
              exact ⟨pre, s, post, hls.2, fun s' hs' => hpre s' (by simp [hs']), hm⟩
    · simp only [scanStanzas, ne_eq, ht, not_false_eq_true, if_true]
      rw [ih]
      constructor
      · rintro ⟨pre, s, post, hls, hpre, hm⟩
        refine ⟨x :: pre, s, post, by simp [hls], ?_, hm⟩
        intro s' hs'
        rcases List.mem_cons.mp hs' with h | h
        · subst h; exact Or.inl ht
        · exact hpre s' h
      · rintro ⟨pre, s, post, hls, hpre, hm⟩
        cases pre with
        | nil =>
          exfalso
          simp only [List.nil_append, List.cons.injEq] at hls
          obtain ⟨hx, _⟩ := hls
          subst hx
          exact ht hm.1
        | cons p pre =>
          simp only [List.cons_append, List.cons.injEq] at hls
          exact ⟨pre, s, post, hls.2, fun s' hs' => hpre s' (by simp [hs']), hm⟩

/-- the scan ends in "malformed" iff the first stanza that is not passed over
    has the declared type and no argument -/
theorem scan_malformed_iff (cfg : Config R) : ∀ ss : List Stanza,
    scanStanzas cfg ss = .malformed ↔
      ∃ pre s post, ss = pre ++ s :: post ∧ (∀ s' ∈ pre, passedOver cfg s') ∧
        s.type = cfg.keyType ∧ s.args = [] := by
  intro ss
  induction ss with
  | nil => simp [scanStanzas]
  | cons x xs ih =>
    -- a passed-over head can be prepended to / stripped from a decomposition
    have shift : passedOver cfg x →
        ((∃ pre s post, xs = pre ++ s :: post ∧ (∀ s' ∈ pre, passedOver cfg s') ∧
            s.type = cfg.keyType ∧ s.args = []) ↔
         (∃ pre s post, x :: xs = pre ++ s :: post ∧ (∀ s' ∈ pre, passedOver cfg s') ∧
            s.type = cfg.keyType ∧ s.args = [])) := by
      intro hx
      constructor
      · rintro ⟨pre, s, post, hls, hpre, hm⟩
        refine ⟨x :: pre, s, post, by simp [hls], ?_, hm⟩
        intro s' hs'
        rcases List.mem_cons.mp hs' with h | h
        · subst h; exact hx
        · exact hpre s' h
      · rintro ⟨pre, s, post, hls, hpre, hm⟩
        cases pre with
        | nil =>
          exfalso
          simp only [List.nil_append, List.cons.injEq] at hls
          obtain ⟨hxs, _⟩ := hls
          subst hxs
          rcases hx with h | ⟨a, h, _⟩
          · exact h hm.1
          · rw [hm.2] at h; simp at h
        | cons p pre =>
          simp only [List.cons_append, List.cons.injEq] at hls
          exact ⟨pre, s, post, hls.2, fun s' hs' => hpre s' (by simp [hs']), hm⟩
    by_cases ht : x.type = cfg.keyType
    · cases ha : x.args with
      | nil =>
        simp only [scanStanzas, ht, ne_eq, not_true_eq_false, if_false, ha, true_iff]
        exact ⟨[], x, xs, rfl, by simp, ht, ha⟩
      | cons a as =>
        by_cases hat : a = cfg.tag
        · simp only [scanStanzas, ht, ne_eq, not_true_eq_false, if_false, ha, hat]
          constructor
          · intro h; cases h
          · rintro ⟨pre, s, post, hls, hpre, hm⟩
            exfalso
            cases pre with
            | nil =>
              simp only [List.nil_append, List.cons.injEq] at hls
              obtain ⟨hxs, _⟩ := hls
              subst hxs
              rw [hm.2] at ha; cases ha
            | cons p pre =>
              simp only [List.cons_append, List.cons.injEq] at hls
              obtain ⟨hxs, _⟩ := hls
              subst hxs
              rcases hpre x (by simp) with h | ⟨b, h, hb⟩
              · exact h ht
              · rw [ha] at h
                simp only [List.head?_cons, Option.some.injEq] at h
                exact hb (h ▸ hat)
        · simp only [scanStanzas, ht, ne_eq, not_true_eq_false, if_false, ha, hat, not_false_eq_true,
            if_true]
          rw [ih]
          exact shift (Or.inr ⟨a, by simp [ha], hat⟩)
    · simp only [scanStanzas, ne_eq, ht, not_false_eq_true, if_true]
      rw [ih]
      exact shift (Or.inl ht)

/-- every step leaves the state alone or unlocks it with the declared key after a
    validated prompt -/
theorem step_state (cfg : Config R) (st : State) (ss : List Stanza) (a : Option Passphrase) :
    (step cfg st ss a).1 = st ∨
    (st.cached = none ∧ scanStanzas cfg ss = .matched ∧
      (∃ p, a = some p ∧ cfg.openFile p = some (.key cfg.declared)) ∧
      (step cfg st ss a).1 = ⟨some cfg.declared⟩ ∧
      (step cfg st ss a).2.prompted = true ∧
      (step cfg st ss a).2.result = .delegated (cfg.innerUnwrap cfg.declared ss)) := by
  unfold step
  cases hc : st.cached with
  | some k => simp
  | none =>
    simp only
    cases hs : scanStanzas cfg ss with
    | malformed => simp
    | noMatch => simp
    | matched =>
      simp only
      cases a with
      | none => simp
      | some p =>
        simp only
        cases ho : cfg.openFile p with
        | none => simp
        | some o =>
          cases o with
          | otherType => simp
          | invalidKey => simp
          | key k =>
            simp only
            by_cases hk : k = cfg.declared
            · subst hk
              simp only [ne_eq, not_true_eq_false, if_false]
              refine Or.inr ⟨?_, ?_, ⟨p, rfl, ho⟩, ?_, ?_, ?_⟩ <;> first | rfl | trivial
            · simp [hk]

end SshEnc
end AgeModel
