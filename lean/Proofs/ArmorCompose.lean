/-
  Proofs.ArmorCompose — the armor writer as the destination of another writer
  (Encrypt + the STREAM writer): what the armor writer has accepted so far is
  always what its own invariant speaks about.
-/
import Proofs.Reach
import Proofs.ArmorWrite
namespace AgeModel
open Format Stream Armor

/-- The armor writer over a destination `S'`, seen as a destination: its state is
    the writer, a call is `Write(b)`; `segF` decides how the text a call emits is
    split into writes to `S'` (theorems hold for every `segF`). A failing call is
    reported as "failed, nothing accepted" (how many bytes a failing armored
    Write reports is not used by any theorem). -/
def armorDst (S' : DstSpec) (segF : AWriter S' → Bytes → List Nat) : DstSpec where
  σ := AWriter S'
  step := fun a _ b =>
    match a.write b (segF a b) with
    | (a', none) => (a', none)
    | (a', some _) => (a', some 0)

variable {S' : DstSpec} {segF : AWriter S' → Bytes → List Nat}

/-- the invariant of the armor writer, for the bytes it has accepted as a destination -/
def ArmorDstInv (acc0 : Bytes) (d : Dst (armorDst S' segF)) : Prop := AInv acc0 d.st d.acc

theorem armorDstInv_write (acc0 : Bytes) (d d' : Dst (armorDst S' segF)) (b : Bytes)
    (hI : ArmorDstInv acc0 d) (h : d.write b = (d', true)) : ArmorDstInv acc0 d' := by
  unfold Dst.write at h
  simp only [armorDst] at h
  generalize hw : AWriter.write d.st b (segF d.st b) = r at h
  obtain ⟨a', e⟩ := r
  cases e with
  | none =>
    injection h with h1 _
    rw [← h1]
    exact awrite_ok acc0 d.st a' d.acc b _ hI hw
  | some e =>
    injection h with _ h2
    exact absurd h2 (by decide)

/-- a fresh armor writer over `d'`, as a destination that has accepted nothing -/
def armorDst.fresh (d' : Dst S') : Dst (armorDst S' segF) := { acc := [], st := AWriter.new d' }

theorem armorDstInv_fresh (d' : Dst S') : ArmorDstInv d'.acc (armorDst.fresh (segF := segF) d') := AInv_new d'

end AgeModel
