/-
  Proofs.GoTieLazy — `lazyOpener` of cmd/age/age.go, as it stands in the source.

  `(*lazyOpener).Write` and `.Close` are TRANSLATED on every run; `os.Create`, `(*os.File).Write`
  and `.Close` are parameters, a nil `*os.File` is an abstract predicate. The theorems give the
  three-state machine of the model (`Cli.Lazy`: unopened / opened / failed) on the source text:
  the output file is created by the FIRST `Write` and by nothing else — `Close` has no access to
  `os.Create` at all, a `Write` on an opened or failed opener returns without calling it (it is
  handed an `os.Create` that FAULTS when called) — a failed creation is remembered and reported by
  every later `Write`, and `Close` on an opener that never wrote closes nothing.
-/
import AgeModel.GoSem
import AgeModel.Extracted.Funcs
namespace AgeModel
namespace GoTie
open Extracted

/-- the first write: create, then (if that worked) write -/
theorem lazy_write_unopened {φ : Type} (isNil : φ → Bool) (Create : Bytes → Go.M (φ × Option Go.Err))
    (FW : φ → Bytes → Go.M (Int × Option Go.Err)) (name : Bytes) (f : φ) (hf : isNil f = true) (p : Bytes) :
    main_lazyOpener_Write isNil Create FW ⟨name, f, none⟩ p =
      (do let t ← Create name
          if (t.2 != none) = true then pure (0, t.2, ⟨name, t.1, t.2⟩)
          else do
            let r ← FW t.1 p
            pure (r.1, r.2, ⟨name, t.1, t.2⟩)) := by
  simp only [main_lazyOpener_Write, hf, bind, Except.bind, pure, Except.pure, beq_self_eq_true, Bool.and_self, if_true]
  first
    | done
    | (cases Create name with
       | error e => rfl
       | ok t =>
         obtain ⟨f', e'⟩ := t
         cases e' with
         | some x => rfl
         | none => first | rfl | (simp only []; cases FW f' p <;> rfl))

/-- a write on an opened file: no creation (the creation function may fault when called) -/
theorem lazy_write_opened {φ : Type} (isNil : φ → Bool) (FW : φ → Bytes → Go.M (Int × Option Go.Err))
    (name : Bytes) (f : φ) (hf : isNil f = false) (p : Bytes) :
    main_lazyOpener_Write isNil (fun _ => .error (.panic 99)) FW ⟨name, f, none⟩ p =
      (do let r ← FW f p
          pure (r.1, r.2, ⟨name, f, none⟩)) := by
  simp only [main_lazyOpener_Write, hf, bind, Except.bind, pure, Except.pure, Bool.false_and, Bool.false_eq_true, if_false, bne_self_eq_false]
  first
    | (cases FW f p <;> rfl)
    | skip

/-- a write after a failed creation: the remembered error, no second attempt, no write -/
theorem lazy_write_failed {φ : Type} (isNil : φ → Bool) (name : Bytes) (f : φ) (e : Go.Err) (p : Bytes) :
    main_lazyOpener_Write isNil (fun _ => .error (.panic 99)) (fun _ _ => .error (.panic 98)) ⟨name, f, some e⟩ p =
      .ok (0, some e, ⟨name, f, some e⟩) := by
  simp [main_lazyOpener_Write, bind, Except.bind, pure, Except.pure]

/-- Close: nothing to close unless a file was opened -/
theorem lazy_close {φ : Type} (isNil : φ → Bool) (FC : φ → Go.M (Option Go.Err)) (name : Bytes) (f : φ) (err : Option Go.Err) :
    main_lazyOpener_Close isNil FC ⟨name, f, err⟩ = if isNil f = true then .ok none else FC f := by
  simp only [main_lazyOpener_Close, bind, Except.bind, pure, Except.pure]
  cases isNil f with
  | true => rfl
  | false =>
    simp only [Bool.not_false, if_true, Bool.false_eq_true, if_false]
    first
      | (cases FC f <;> rfl)
      | skip

end GoTie
end AgeModel
