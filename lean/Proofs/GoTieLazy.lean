/-
  Proofs.GoTieLazy — `lazyOpener` of cmd/age/age.go, as it stands in the source.

  `(*lazyOpener).Write` and `.Close` are TRANSLATED on every run with everything outside them as one
  explicit state (`funcSpec.world`); `os.Create`, `(*os.File).Write` and `.Close` are parameters, a
  nil `*os.File` is an abstract predicate. The theorems give the three-state machine of the model
  (`Cli.Lazy`: unopened / opened / failed) on the source text: the output file is created by the
  FIRST `Write` and by nothing else — `Close` has no access to `os.Create` at all, a `Write` on an
  opened or failed opener returns without calling it (it is handed an `os.Create` that FAULTS when
  called) — a failed creation is remembered and reported by every later `Write`, and `Close` on an
  opener that never wrote closes nothing. And `lazy_write_refines`: read in the model's world, the
  translated `Write` IS `Cli.Proc.write (.lazy name)`.
-/
import AgeModel.GoSem
import AgeModel.Cli
import AgeModel.Extracted.Funcs
namespace AgeModel
namespace GoTie
open Extracted

section
variable {τ φ : Type} (isNil : φ → Bool) (Create : Bytes → τ → Go.M (φ × Option Go.Err × τ))
  (FW : φ → Bytes → τ → Go.M (Int × Option Go.Err × τ)) (FC : φ → τ → Go.M (Option Go.Err × τ))

/-- the first write: create, then (if that worked) write -/
theorem lazy_write_unopened (name : Bytes) (f : φ) (hf : isNil f = true) (p : Bytes) (t0 : τ) :
    main_lazyOpener_Write isNil Create FW ⟨name, f, none⟩ p t0 =
      (do let t ← Create name t0
          if (t.2.1 != none) = true then pure (0, t.2.1, ⟨name, t.1, t.2.1⟩, t.2.2)
          else do
            let r ← FW t.1 p t.2.2
            pure (r.1, r.2.1, ⟨name, t.1, t.2.1⟩, r.2.2)) := by
  simp only [main_lazyOpener_Write, hf, bind, Except.bind, pure, Except.pure, beq_self_eq_true, Bool.and_self, if_true]
  first
  | done
  | cases Create name t0 with
    | error e => rfl
    | ok t =>
      obtain ⟨f', e', t1⟩ := t
      cases e' with
      | some x => rfl
      | none =>
        first
          | rfl
          | (simp only [bne_self_eq_false, Bool.false_eq_true, if_false]; first | done | (cases FW f' p t1 <;> rfl))

/-- a write on an opened file: no creation (the creation function may fault when called) -/
theorem lazy_write_opened (name : Bytes) (f : φ) (hf : isNil f = false) (p : Bytes) (t0 : τ) :
    main_lazyOpener_Write isNil (fun _ _ => .error (.panic 99)) FW ⟨name, f, none⟩ p t0 =
      (do let r ← FW f p t0
          pure (r.1, r.2.1, ⟨name, f, none⟩, r.2.2)) := by
  simp only [main_lazyOpener_Write, hf, bind, Except.bind, pure, Except.pure, Bool.false_and, Bool.false_eq_true, if_false, bne_self_eq_false]
  first
    | done
    | (cases FW f p t0 <;> rfl)

/-- a write after a failed creation: the remembered error, no second attempt, no write, the world untouched -/
theorem lazy_write_failed (name : Bytes) (f : φ) (e : Go.Err) (p : Bytes) (t0 : τ) :
    main_lazyOpener_Write isNil (fun _ _ => .error (.panic 99)) (fun _ _ _ => .error (.panic 98)) ⟨name, f, some e⟩ p t0 =
      .ok (0, some e, ⟨name, f, some e⟩, t0) := by
  simp [main_lazyOpener_Write, bind, Except.bind, pure, Except.pure]

/-- Close: nothing to close unless a file was opened -/
theorem lazy_close (name : Bytes) (f : φ) (err : Option Go.Err) (t0 : τ) :
    main_lazyOpener_Close isNil FC ⟨name, f, err⟩ t0 = if isNil f = true then .ok (none, t0) else FC f t0 := by
  simp only [main_lazyOpener_Close, bind, Except.bind, pure, Except.pure]
  cases isNil f with
  | true => rfl
  | false =>
    simp only [Bool.not_false, if_true, Bool.false_eq_true, if_false]
    cases FC f t0 <;> rfl
end

/-! ## In the model's world -/

open Cli

/-- `os.Create` in the model: `Cli.create` (a file handle is the path it was opened at; nil = none) -/
def mCreate (eC : Go.Err) (name : Bytes) (w : World) : Go.M (Option Path × Option Go.Err × World) :=
  match create w name with
  | none => .ok (none, some eC, w)
  | some (w', t) => .ok (some t, none, w')

/-- `(*os.File).Write` in the model: `Proc.writeFile` -/
def mFileWrite (eW : Go.Err) (f : Option Path) (d : Bytes) (w : World) : Go.M (Int × Option Go.Err × World) :=
  match f with
  | none => .error .index        -- a nil file is never written to (shown below)
  | some t =>
    let r := ({ w := w } : Proc).writeFile t d
    .ok (0, if r.2 then none else some eW, r.1.w)

/-- the model's opener state that a Go opener stands for -/
def lzOf (l : main_lazyOpener (Option Path)) : Lazy :=
  if l.err.isSome then .failed else match l.f with
    | some t => .opened t
    | none => .unopened

/-- the translated `Write`, run in the model's world, is the model's `Proc.write (.lazy name)`: same world, same opener
    state, same success — whenever the opener is in a state it can reach (a remembered error goes with no file) -/
theorem lazy_write_refines (eC eW : Go.Err) (l : main_lazyOpener (Option Path)) (d : Bytes) (p : Proc)
    (hp : p.lz = lzOf l) :
    ∃ n e l' w', main_lazyOpener_Write Option.isNone (mCreate eC) (mFileWrite eW) l d p.w = .ok (n, e, l', w') ∧
      ((Proc.write (.lazy l.name) p d).1.w = w' ∧ (Proc.write (.lazy l.name) p d).1.lz = lzOf l' ∧
        (Proc.write (.lazy l.name) p d).2 = e.isNone) := by
  obtain ⟨name, f, err⟩ := l
  cases err with
  | some e0 =>
    refine ⟨0, some e0, ⟨name, f, some e0⟩, p.w, ?_, ?_⟩
    · simp [main_lazyOpener_Write, bind, Except.bind, pure, Except.pure]
    · have : p.lz = .failed := by simpa [lzOf] using hp
      simp [Proc.write, this, lzOf]
  | none =>
    cases f with
    | some t =>
      have hl : p.lz = .opened t := by simpa [lzOf] using hp
      refine ⟨0, (if (Proc.writeFile ({ w := p.w } : Proc) t d).2 then none else some eW), ⟨name, some t, none⟩,
        (Proc.writeFile ({ w := p.w } : Proc) t d).1.w, ?_, ?_⟩
      · simp only [main_lazyOpener_Write, mFileWrite, Option.isNone, bind, Except.bind, pure, Except.pure, Bool.false_and,
          Bool.false_eq_true, if_false, bne_self_eq_false]
        first | rfl | done
      · simp only [Proc.write, hl, lzOf, Option.isSome, Bool.false_eq_true, if_false]
        have hw : (Proc.writeFile p t d).1.w = (Proc.writeFile ({ w := p.w } : Proc) t d).1.w ∧
            (Proc.writeFile p t d).2 = (Proc.writeFile ({ w := p.w } : Proc) t d).2 ∧ (Proc.writeFile p t d).1.lz = p.lz := by
          simp only [Proc.writeFile]; cases p.w.get t <;> simp
        refine ⟨hw.1, by rw [hw.2.2, hl], ?_⟩
        rw [hw.2.1]; cases (Proc.writeFile ({ w := p.w } : Proc) t d).2 <;> rfl
    | none =>
      have hl : p.lz = .unopened := by simpa [lzOf] using hp
      cases hc : create p.w name with
      | none =>
        refine ⟨0, some eC, ⟨name, none, some eC⟩, p.w, ?_, ?_⟩
        · simp [main_lazyOpener_Write, mCreate, hc, Option.isNone, bind, Except.bind, pure, Except.pure]
        · simp [Proc.write, hl, hc, lzOf]
      | some r =>
        obtain ⟨w1, t⟩ := r
        refine ⟨0, (if (Proc.writeFile ({ w := w1 } : Proc) t d).2 then none else some eW), ⟨name, some t, none⟩,
          (Proc.writeFile ({ w := w1 } : Proc) t d).1.w, ?_, ?_⟩
        · simp only [main_lazyOpener_Write, mCreate, mFileWrite, hc, Option.isNone, bind, Except.bind, pure, Except.pure,
            beq_self_eq_true, Bool.and_self, if_true, bne_self_eq_false, Bool.false_eq_true, if_false]
          first | rfl | done
        · simp only [Proc.write, hl, hc, lzOf, Option.isSome, Bool.false_eq_true, if_false]
          have hw : (Proc.writeFile ({ p with w := w1, lz := .opened t } : Proc) t d).1.w = (Proc.writeFile ({ w := w1 } : Proc) t d).1.w ∧
              (Proc.writeFile ({ p with w := w1, lz := .opened t } : Proc) t d).2 = (Proc.writeFile ({ w := w1 } : Proc) t d).2 ∧
              (Proc.writeFile ({ p with w := w1, lz := .opened t } : Proc) t d).1.lz = .opened t := by
            simp only [Proc.writeFile]; cases w1.get t <;> simp
          refine ⟨hw.1, hw.2.2, ?_⟩
          rw [hw.2.1]; cases (Proc.writeFile ({ w := w1 } : Proc) t d).2 <;> rfl

end GoTie
end AgeModel
