/-
  Proofs.Bech32Codec — `encode` / `decode` as wholes.

  `decode_assembled` : what `decode` does on a string put together from an HRP,
                       the separator and a data part (used for the round trip and
                       for the padding rejections);
  `decode_ok_iff`-style destructuring `decode_ok` : everything `decode` has
                       checked when it succeeds;
  `encode_ok` / `encode_of_valid` : the shape of `encode`'s result;
  `decode_encode`, `encode_decode` : the two round trips.
-/
import Proofs.Bech32Poly
namespace AgeModel
namespace Bech32

/-! ## finite facts about bytes -/

theorem forall_u8 (P : UInt8 → Prop) (h : ∀ n : Fin 256, P (UInt8.ofNat n.val)) : ∀ c, P c := by
  intro c
  have := h ⟨c.toNat, c.toNat_lt⟩
  simpa using this

theorem byte_facts : ∀ c : UInt8,
    lowerByte (lowerByte c) = lowerByte c ∧ upperByte (upperByte c) = upperByte c ∧
    upperByte (lowerByte c) = upperByte c ∧ lowerByte (upperByte c) = lowerByte c ∧
    badByte (lowerByte c) = badByte c ∧ badByte (upperByte c) = badByte c ∧
    (lowerByte c = 0x31 ↔ c = 0x31) ∧ (upperByte c = 0x31 ↔ c = 0x31) ∧
    (lowerByte c = c ∨ upperByte c = c) := by
  apply forall_u8; decide +kernel

/-- every symbol < 32 has a character, which is lower case, printable, not the
    separator, and maps back to the symbol -/
theorem sym_facts_b : ∀ p : UInt8, p.toNat < 32 →
    (charsetAt p).any (fun c => lowerByte c == c && badByte c == false && c != 0x31 && charsetIdx c == some p) = true := by
  apply forall_u8; decide +kernel

theorem sym_facts (p : UInt8) (hp : p.toNat < 32) :
    ∃ c, charsetAt p = some c ∧ lowerByte c = c ∧ badByte c = false ∧ c ≠ 0x31 ∧ charsetIdx c = some p := by
  have := sym_facts_b p hp
  cases hc : charsetAt p with
  | none => simp [hc] at this
  | some c =>
    simp only [hc, Option.any_some, Bool.and_eq_true, beq_iff_eq, bne_iff_ne] at this
    exact ⟨c, rfl, this.1.1.1, this.1.1.2, this.1.2, this.2⟩

theorem idx_facts_b : ∀ c : UInt8,
    (charsetIdx c).all (fun p => decide (p.toNat < 32) && charsetAt p == some c) = true := by
  apply forall_u8; decide +kernel

theorem idx_facts (c p : UInt8) (h : charsetIdx c = some p) : p.toNat < 32 ∧ charsetAt p = some c := by
  have := idx_facts_b c
  simp only [h, Option.all_some, Bool.and_eq_true, decide_eq_true_eq, beq_iff_eq] at this
  exact this

/-! ## strings -/

theorem toLower_append (a b : Bytes) : toLower (a ++ b) = toLower a ++ toLower b := by simp [toLower]
theorem toUpper_append (a b : Bytes) : toUpper (a ++ b) = toUpper a ++ toUpper b := by simp [toUpper]
@[simp] theorem toLower_length (a : Bytes) : (toLower a).length = a.length := by simp [toLower]
@[simp] theorem toUpper_length (a : Bytes) : (toUpper a).length = a.length := by simp [toUpper]
theorem toLower_cons (c : UInt8) (a : Bytes) : toLower (c :: a) = lowerByte c :: toLower a := rfl
theorem toUpper_cons (c : UInt8) (a : Bytes) : toUpper (c :: a) = upperByte c :: toUpper a := rfl

theorem toLower_idem (a : Bytes) : toLower (toLower a) = toLower a := by
  simp only [toLower, List.map_map]
  apply List.map_congr_left
  intro c _
  exact (byte_facts c).1

theorem toUpper_idem (a : Bytes) : toUpper (toUpper a) = toUpper a := by
  simp only [toUpper, List.map_map]
  apply List.map_congr_left
  intro c _
  exact (byte_facts c).2.1

theorem toUpper_toLower (a : Bytes) : toUpper (toLower a) = toUpper a := by
  simp only [toUpper, toLower, List.map_map]
  apply List.map_congr_left
  intro c _
  exact (byte_facts c).2.2.1

theorem toLower_toUpper (a : Bytes) : toLower (toUpper a) = toLower a := by
  simp only [toUpper, toLower, List.map_map]
  apply List.map_congr_left
  intro c _
  exact (byte_facts c).2.2.2.1

theorem hasBadByte_append (a b : Bytes) : hasBadByte (a ++ b) = (hasBadByte a || hasBadByte b) := by
  simp [hasBadByte]

theorem hasBadByte_toLower (a : Bytes) : hasBadByte (toLower a) = hasBadByte a := by
  induction a with
  | nil => rfl
  | cons c a ih =>
    simp only [hasBadByte, toLower, List.map_cons, List.any_cons] at ih ⊢
    rw [ih, (byte_facts c).2.2.2.2.1]

theorem hasBadByte_toUpper (a : Bytes) : hasBadByte (toUpper a) = hasBadByte a := by
  induction a with
  | nil => rfl
  | cons c a ih =>
    simp only [hasBadByte, toUpper, List.map_cons, List.any_cons] at ih ⊢
    rw [ih, (byte_facts c).2.2.2.2.2.1]

theorem sep_mem_toLower (a : Bytes) : (0x31 : UInt8) ∈ toLower a ↔ (0x31 : UInt8) ∈ a := by
  induction a with
  | nil => simp [toLower]
  | cons c a ih =>
    simp only [toLower_cons, List.mem_cons, ih]
    have := (byte_facts c).2.2.2.2.2.2.1
    constructor
    · rintro (h | h)
      · exact Or.inl (this.mp h.symm).symm
      · exact Or.inr h
    · rintro (h | h)
      · exact Or.inl (this.mpr h.symm).symm
      · exact Or.inr h

theorem sep_mem_toUpper (a : Bytes) : (0x31 : UInt8) ∈ toUpper a ↔ (0x31 : UInt8) ∈ a := by
  induction a with
  | nil => simp [toUpper]
  | cons c a ih =>
    simp only [toUpper_cons, List.mem_cons, ih]
    have := (byte_facts c).2.2.2.2.2.2.2.1
    constructor
    · rintro (h | h)
      · exact Or.inl (this.mp h.symm).symm
      · exact Or.inr h
    · rintro (h | h)
      · exact Or.inl (this.mpr h.symm).symm
      · exact Or.inr h

/-- a string that is neither all-lower nor all-upper has a part with the same defect or two parts
    with opposite defects; what we need: parts of an unmixed string are unmixed -/
theorem unmixed_left {a b : Bytes} (h : toLower (a ++ b) = a ++ b ∨ toUpper (a ++ b) = a ++ b) :
    toLower a = a ∨ toUpper a = a := by
  rcases h with h | h
  · left
    rw [toLower_append] at h
    exact (List.append_inj h (by simp)).1
  · right
    rw [toUpper_append] at h
    exact (List.append_inj h (by simp)).1

theorem lower_left {a b : Bytes} (h : toLower (a ++ b) = a ++ b) : toLower a = a := by
  rw [toLower_append] at h
  exact (List.append_inj h (by simp)).1

theorem lower_right {a b : Bytes} (h : toLower (a ++ b) = a ++ b) : toLower b = b := by
  rw [toLower_append] at h
  exact (List.append_inj h (by simp)).2

theorem upper_left {a b : Bytes} (h : toUpper (a ++ b) = a ++ b) : toUpper a = a := by
  rw [toUpper_append] at h
  exact (List.append_inj h (by simp)).1

theorem upper_right {a b : Bytes} (h : toUpper (a ++ b) = a ++ b) : toUpper b = b := by
  rw [toUpper_append] at h
  exact (List.append_inj h (by simp)).2

/-! ## lastIndex -/

theorem lastIndex_none {c : UInt8} : ∀ {s : Bytes}, lastIndex c s = none ↔ c ∉ s
  | [] => by simp [lastIndex]
  | x :: xs => by
    have ih := @lastIndex_none c xs
    simp only [lastIndex, List.mem_cons, not_or]
    cases h : lastIndex c xs with
    | some i =>
      have : ¬ (c ∉ xs) := fun hn => by rw [ih.mpr hn] at h; cases h
      simp [this]
    | none =>
      have := ih.mp h
      by_cases hx : x = c
      · simp [hx]
      · simp only [hx, if_false, this, not_false_eq_true, and_true, true_iff]
        exact fun e => hx e.symm

theorem lastIndex_append (c : UInt8) : ∀ (a b : Bytes), c ∉ b → lastIndex c (a ++ c :: b) = some a.length
  | [], b, h => by
    simp only [List.nil_append, lastIndex, lastIndex_none.mpr h, if_true, List.length_nil]
  | x :: a, b, h => by
    simp only [List.cons_append, lastIndex, lastIndex_append c a b h, List.length_cons]

theorem lastIndex_some {c : UInt8} : ∀ {s : Bytes} {p : Nat}, lastIndex c s = some p →
    p < s.length ∧ s = s.take p ++ c :: s.drop (p + 1) ∧ c ∉ s.drop (p + 1)
  | [], p, h => by simp [lastIndex] at h
  | x :: xs, p, h => by
    simp only [lastIndex] at h
    cases hx : lastIndex c xs with
    | some i =>
      rw [hx] at h
      simp only [Option.some.injEq] at h
      subst h
      obtain ⟨h1, h2, h3⟩ := lastIndex_some hx
      refine ⟨by simp; omega, ?_, ?_⟩
      · simp only [List.take_succ_cons, List.drop_succ_cons, List.cons_append]
        rw [← h2]
      · simpa using h3
    | none =>
      rw [hx] at h
      by_cases hc : x = c
      · simp only [hc, if_true, Option.some.injEq] at h
        subst h
        subst hc
        exact ⟨by simp, by simp, by simpa using lastIndex_none.mp hx⟩
      · simp [hc] at h

/-! ## mapOpt -/

theorem mapOpt_append {α β : Type} (f : α → Option β) : ∀ (a b : List α) (ra rb : List β),
    mapOpt f a = some ra → mapOpt f b = some rb → mapOpt f (a ++ b) = some (ra ++ rb)
  | [], b, ra, rb, ha, hb => by
    simp only [mapOpt, Option.some.injEq] at ha
    subst ha
    simpa using hb
  | x :: a, b, ra, rb, ha, hb => by
    simp only [mapOpt] at ha
    cases hx : f x with
    | none => simp [hx] at ha
    | some y =>
      cases hr : mapOpt f a with
      | none => simp [hx, hr] at ha
      | some r =>
        simp only [hx, hr, Option.some.injEq] at ha
        subst ha
        simp only [List.cons_append, mapOpt, hx, mapOpt_append f a b r rb hr hb]

theorem mapOpt_length {α β : Type} (f : α → Option β) : ∀ (a : List α) (r : List β), mapOpt f a = some r → r.length = a.length
  | [], r, h => by simp only [mapOpt, Option.some.injEq] at h; subst h; rfl
  | x :: a, r, h => by
    simp only [mapOpt] at h
    cases hx : f x with
    | none => simp [hx] at h
    | some y =>
      cases hr : mapOpt f a with
      | none => simp [hx, hr] at h
      | some r' =>
        simp only [hx, hr, Option.some.injEq] at h
        subst h
        simp [mapOpt_length f a r' hr]

/-- the characters of a symbol string -/
theorem chars_of_syms : ∀ (l : Bytes), (∀ x ∈ l, x.toNat < 32) →
    ∃ cs, mapOpt charsetAt l = some cs ∧ toLower cs = cs ∧ hasBadByte cs = false ∧ (0x31 : UInt8) ∉ cs ∧
      mapOpt charsetIdx cs = some l
  | [], _ => ⟨[], rfl, rfl, rfl, by simp, rfl⟩
  | p :: l, h => by
    obtain ⟨cs, h1, h2, h3, h4, h5⟩ := chars_of_syms l (fun x hx => h x (by simp [hx]))
    obtain ⟨c, hc, p1, p2, p3, p4⟩ := sym_facts p (h p (by simp))
    · refine ⟨c :: cs, by simp [mapOpt, hc, h1], by simp [toLower_cons, p1, h2], ?_, ?_, by simp [mapOpt, p4, h5]⟩
      · simp only [hasBadByte, List.any_cons, p2, Bool.false_or] at h3 ⊢
        exact h3
      · simp only [List.mem_cons, not_or]
        exact ⟨fun e => p3 e.symm, h4⟩

/-- the symbols of a character string -/
theorem syms_of_chars : ∀ (cs l : Bytes), mapOpt charsetIdx cs = some l →
    (∀ x ∈ l, x.toNat < 32) ∧ mapOpt charsetAt l = some cs
  | [], l, h => by
    simp only [mapOpt, Option.some.injEq] at h
    subst h
    exact ⟨by simp, rfl⟩
  | c :: cs, l, h => by
    simp only [mapOpt] at h
    cases hp : charsetIdx c with
    | none => simp [hp] at h
    | some p =>
      cases hr : mapOpt charsetIdx cs with
      | none => simp [hp, hr] at h
      | some r =>
        simp only [hp, hr, Option.some.injEq] at h
        subst h
        have hc := idx_facts c p hp
        obtain ⟨ih1, ih2⟩ := syms_of_chars cs r hr
        refine ⟨?_, by simp [mapOpt, hc.2, ih2]⟩
        intro x hx
        rcases List.mem_cons.mp hx with rfl | hx
        · exact hc.1
        · exact ih1 x hx

theorem mapOpt_inj_chars (l cs cs' : Bytes) (h : mapOpt charsetAt l = some cs) (h' : mapOpt charsetAt l = some cs') :
    cs = cs' := by rw [h] at h'; cases h'; rfl

/-! ## hrpExpand ignores case -/

theorem hrpExpand_toLower (hrp : Bytes) : hrpExpand (toLower hrp) = hrpExpand hrp := by
  simp only [hrpExpand, toLower_idem]

theorem hrpExpand_toUpper (hrp : Bytes) : hrpExpand (toUpper hrp) = hrpExpand hrp := by
  simp only [hrpExpand, toLower_toUpper]

theorem createChecksum_toLower (hrp d : Bytes) : createChecksum (toLower hrp) d = createChecksum hrp d := by
  simp only [createChecksum, hrpExpand_toLower]

theorem verifyChecksum_toLower (hrp d : Bytes) : verifyChecksum (toLower hrp) d = verifyChecksum hrp d := by
  simp only [verifyChecksum, hrpExpand_toLower]

/-! ## decode on an assembled string -/

theorem drop_len_succ {α : Type} : ∀ (a : List α) (x : α) (b : List α) (n : Nat), n = a.length →
    (a ++ x :: b).drop (n + 1) = b
  | [], _, _, _, h => by subst h; rfl
  | y :: a, x, b, n, h => by
    subst h
    simp only [List.cons_append, List.length_cons, List.drop_succ_cons]
    exact drop_len_succ a x b _ rfl

/-- `decode` on `H ++ "1" ++ D` where `D` is a well-formed data part for the
    symbols `d5` followed by their checksum -/
theorem decode_assembled (H D d5 : Bytes) (hH : H ≠ []) (hHb : hasBadByte H = false) (hDb : hasBadByte D = false)
    (hD1 : (0x31 : UInt8) ∉ D)
    (hcase : toLower (H ++ 0x31 :: D) = H ++ 0x31 :: D ∨ toUpper (H ++ 0x31 :: D) = H ++ 0x31 :: D)
    (hidx : mapOpt charsetIdx (toLower D) = some (d5 ++ createChecksum H d5)) :
    decode (H ++ 0x31 :: D) =
      match convertBits d5 5 8 false with
      | .error e => .error e
      | .ok b => .ok (H, b) := by
  have hbad : hasBadByte (H ++ 0x31 :: D) = false := by
    rw [hasBadByte_append, hHb]
    simp only [hasBadByte, List.any_cons, Bool.false_or] at hDb ⊢
    rw [hDb]; decide
  have hmixed : ¬ (toLower (H ++ 0x31 :: D) ≠ H ++ 0x31 :: D ∧ toUpper (H ++ 0x31 :: D) ≠ H ++ 0x31 :: D) := by
    rcases hcase with h | h
    · exact fun hh => hh.1 h
    · exact fun hh => hh.2 h
  have hlen := mapOpt_length _ _ _ hidx
  simp only [List.length_append, createChecksum_length, toLower_length] at hlen
  have hpos : ¬ (H.length < 1 ∨ H.length + 7 > (H ++ 0x31 :: D).length) := by
    have : 0 < H.length := List.length_pos_iff.mpr hH
    simp only [List.length_append, List.length_cons]
    omega
  have htake : (H ++ 0x31 :: D).take H.length = H := by simp
  have hdrop : (toLower (H ++ 0x31 :: D)).drop (H.length + 1) = toLower D := by
    rw [toLower_append, toLower_cons]
    exact drop_len_succ _ _ _ _ (by simp)
  have hver : verifyChecksum H (d5 ++ createChecksum H d5) = true := verify_createChecksum H d5
  have htk : (d5 ++ createChecksum H d5).take ((d5 ++ createChecksum H d5).length - 6) = d5 := by
    simp [createChecksum_length]
  unfold decode
  rw [hbad]
  simp only [Bool.false_eq_true, if_false]
  rw [if_neg hmixed, lastIndex_append _ _ _ hD1]
  simp only []
  rw [if_neg hpos, htake, hHb]
  simp only [Bool.false_eq_true, if_false]
  rw [hdrop, hidx]
  simp only [hver, Bool.not_true, Bool.false_eq_true, if_false, htk]
  rfl

/-! ## what a successful decode has checked -/

theorem decode_ok {s hrp bytes : Bytes} (h : decode s = .ok (hrp, bytes)) :
    ∃ D d5, s = hrp ++ 0x31 :: D ∧ hrp ≠ [] ∧ hasBadByte s = false ∧ (toLower s = s ∨ toUpper s = s) ∧
      (0x31 : UInt8) ∉ D ∧ (∀ x ∈ d5, x.toNat < 32) ∧
      mapOpt charsetIdx (toLower D) = some (d5 ++ createChecksum hrp d5) ∧
      convertBits d5 5 8 false = .ok bytes := by
  unfold decode at h
  by_cases hbad : hasBadByte s = true
  · rw [if_pos hbad] at h; cases h
  rw [if_neg hbad] at h
  by_cases hmix : toLower s ≠ s ∧ toUpper s ≠ s
  · rw [if_pos hmix] at h; cases h
  rw [if_neg hmix] at h
  cases hli : lastIndex 0x31 s with
  | none => rw [hli] at h; cases h
  | some pos =>
    rw [hli] at h
    simp only [] at h
    by_cases hpos : pos < 1 ∨ pos + 7 > s.length
    · rw [if_pos hpos] at h; cases h
    rw [if_neg hpos] at h
    by_cases hb2 : hasBadByte (s.take pos) = true
    · rw [if_pos hb2] at h; cases h
    rw [if_neg hb2] at h
    cases hm : mapOpt charsetIdx ((toLower s).drop (pos + 1)) with
    | none => rw [hm] at h; cases h
    | some data =>
      rw [hm] at h
      simp only [] at h
      by_cases hv : verifyChecksum (s.take pos) data = true
      · simp only [hv, Bool.not_true, Bool.false_eq_true, if_false] at h
        cases hcb : convertBits (data.take (data.length - 6)) 5 8 false with
        | error e => rw [hcb] at h; cases h
        | ok b =>
          rw [hcb] at h
          simp only [Except.ok.injEq, Prod.mk.injEq] at h
          obtain ⟨h1, h2⟩ := h
          subst h1 h2
          obtain ⟨l1, l2, l3⟩ := lastIndex_some hli
          have hdl : (toLower s).drop (pos + 1) = toLower (s.drop (pos + 1)) := by
            simp [toLower, List.map_drop]
          rw [hdl] at hm
          have hlen := mapOpt_length _ _ _ hm
          simp only [toLower_length, List.length_drop] at hlen
          have hsplit : data = data.take (data.length - 6) ++ data.drop (data.length - 6) :=
            (List.take_append_drop _ _).symm
          have hsyms := (syms_of_chars _ _ hm).1
          have hc : data.drop (data.length - 6) = createChecksum (s.take pos) (data.take (data.length - 6)) := by
            apply verify_unique
            · simp only [List.length_drop]; omega
            · intro x hx; exact hsyms x (List.mem_of_mem_drop hx)
            · rw [← hsplit]; exact hv
          refine ⟨s.drop (pos + 1), data.take (data.length - 6), l2, ?_, by simpa using hbad, ?_, l3, ?_, ?_, hcb⟩
          · intro he
            have : (s.take pos).length = 0 := by rw [he]; rfl
            simp only [List.length_take] at this
            omega
          · by_cases hl : toLower s = s
            · exact Or.inl hl
            · by_cases hu : toUpper s = s
              · exact Or.inr hu
              · exact absurd ⟨hl, hu⟩ hmix
          · intro x hx; exact hsyms x (List.mem_of_mem_take hx)
          · rw [← hc, ← hsplit]; exact hm
      · simp only [hv, Bool.not_false, if_true] at h
        cases h

/-! ## encode -/

/-- the string `encode` assembles before the final case decision -/
theorem encode_ok {hrp data s : Bytes} (h : encode hrp data = .ok s) :
    ∃ d5 cs, convertBits data 8 5 true = .ok d5 ∧ hrp ≠ [] ∧ hasBadByte hrp = false ∧
      (toUpper hrp = hrp ∨ toLower hrp = hrp) ∧
      mapOpt charsetAt (d5 ++ createChecksum hrp d5) = some cs ∧
      s = if toLower hrp = hrp then toLower hrp ++ 0x31 :: cs else toUpper (toLower hrp ++ 0x31 :: cs) := by
  unfold encode at h
  cases hcb : convertBits data 8 5 true with
  | error e => rw [hcb] at h; cases h
  | ok d5 =>
    rw [hcb] at h
    simp only [] at h
    by_cases hl : hrp.length < 1
    · rw [if_pos hl] at h; cases h
    rw [if_neg hl] at h
    by_cases hb : hasBadByte hrp = true
    · rw [if_pos hb] at h; cases h
    rw [if_neg hb] at h
    by_cases hm : toUpper hrp ≠ hrp ∧ toLower hrp ≠ hrp
    · rw [if_pos hm] at h; cases h
    rw [if_neg hm] at h
    rw [createChecksum_toLower] at h
    cases hc : mapOpt charsetAt (d5 ++ createChecksum hrp d5) with
    | none => rw [hc] at h; cases h
    | some cs =>
      rw [hc] at h
      simp only [beq_iff_eq, List.append_assoc, List.singleton_append] at h
      refine ⟨d5, cs, rfl, ?_, by simpa using hb, ?_, hc, ?_⟩
      · intro he; rw [he] at hl; simp at hl
      · by_cases hu : toUpper hrp = hrp
        · exact Or.inl hu
        · by_cases hlo : toLower hrp = hrp
          · exact Or.inr hlo
          · exact absurd ⟨hu, hlo⟩ hm
      · by_cases hlo : toLower hrp = hrp
        · rw [if_pos hlo] at h ⊢; cases h; rfl
        · rw [if_neg hlo] at h ⊢; cases h; rfl

/-- `encode` succeeds on every non-empty, printable, unmixed HRP (never the index panic) -/
theorem encode_of_valid (hrp data : Bytes) (hne : hrp ≠ []) (hb : hasBadByte hrp = false)
    (hcase : toUpper hrp = hrp ∨ toLower hrp = hrp) :
    ∃ d5 cs, convertBits data 8 5 true = .ok d5 ∧ (∀ x ∈ d5, x.toNat < 32) ∧
      mapOpt charsetAt (d5 ++ createChecksum hrp d5) = some cs ∧ toLower cs = cs ∧ hasBadByte cs = false ∧
      (0x31 : UInt8) ∉ cs ∧ mapOpt charsetIdx cs = some (d5 ++ createChecksum hrp d5) ∧
      encode hrp data =
        .ok (if toLower hrp = hrp then toLower hrp ++ 0x31 :: cs else toUpper (toLower hrp ++ 0x31 :: cs)) := by
  obtain ⟨d5, k, h1, _, h3, _⟩ := convertBits_8_5 data
  have hall : ∀ x ∈ d5 ++ createChecksum hrp d5, x.toNat < 32 := by
    intro x hx
    rcases List.mem_append.mp hx with hx | hx
    · exact h3 x hx
    · exact createChecksum_lt _ _ x hx
  obtain ⟨cs, c1, c2, c3, c4, c5⟩ := chars_of_syms _ hall
  refine ⟨d5, cs, h1, h3, c1, c2, c3, c4, c5, ?_⟩
  unfold encode
  rw [h1]
  simp only []
  have hl : ¬ hrp.length < 1 := by
    have : 0 < hrp.length := List.length_pos_iff.mpr hne
    omega
  have hm : ¬ (toUpper hrp ≠ hrp ∧ toLower hrp ≠ hrp) := by
    rcases hcase with h | h
    · exact fun hh => hh.1 h
    · exact fun hh => hh.2 h
  rw [if_neg hl, hb]
  simp only [Bool.false_eq_true, if_false]
  rw [if_neg hm, createChecksum_toLower, c1]
  simp only [beq_iff_eq, List.append_assoc, List.singleton_append]
  by_cases hlo : toLower hrp = hrp
  · rw [if_pos hlo, if_pos hlo]
  · rw [if_neg hlo, if_neg hlo]

/-- the index panic is unreachable -/
theorem encode_no_panic (hrp data : Bytes) : encode hrp data ≠ .error .indexPanic := by
  intro h
  unfold encode at h
  cases hcb : convertBits data 8 5 true with
  | error e =>
    rw [hcb] at h
    obtain ⟨d5, k, h1, _⟩ := convertBits_8_5 data
    rw [h1] at hcb; cases hcb
  | ok d5 =>
    rw [hcb] at h
    simp only [] at h
    by_cases hl : hrp.length < 1
    · rw [if_pos hl] at h; cases h
    rw [if_neg hl] at h
    by_cases hb : hasBadByte hrp = true
    · rw [if_pos hb] at h; cases h
    rw [if_neg hb] at h
    by_cases hm : toUpper hrp ≠ hrp ∧ toLower hrp ≠ hrp
    · rw [if_pos hm] at h; cases h
    rw [if_neg hm] at h
    obtain ⟨d5', k, h1, _, h3, _⟩ := convertBits_8_5 data
    rw [hcb] at h1; cases h1
    have hall : ∀ x ∈ d5 ++ createChecksum (toLower hrp) d5, x.toNat < 32 := by
      intro x hx
      rcases List.mem_append.mp hx with hx | hx
      · exact h3 x hx
      · exact createChecksum_lt _ _ x hx
    obtain ⟨cs, c1, _⟩ := chars_of_syms _ hall
    rw [c1] at h
    simp only [] at h
    split at h <;> cases h

/-! ## round trips -/

/-- `Decode(Encode(hrp, data)) = (hrp, data)` -/
theorem decode_encode {hrp data s : Bytes} (h : encode hrp data = .ok s) : decode s = .ok (hrp, data) := by
  obtain ⟨d5, cs, e1, e2, e3, e4, e5, e6⟩ := encode_ok h
  obtain ⟨d5', cs', v1, v2, v3, v4, v5, v6, v7, _⟩ := encode_of_valid hrp data e2 e3 e4
  rw [e1] at v1; cases v1
  rw [e5] at v3; cases v3
  have hback := convertBits_8_5_8 data d5 e1
  by_cases hlo : toLower hrp = hrp
  · rw [if_pos hlo, hlo] at e6
    subst e6
    have := decode_assembled hrp cs d5 e2 e3 v5 v6
      (Or.inl (by rw [toLower_append, toLower_cons, hlo, v4]; rfl)) (by rw [v4]; exact v7)
    rw [this, hback]
  · rw [if_neg hlo] at e6
    have hup : toUpper hrp = hrp := by
      rcases e4 with h | h
      · exact h
      · exact absurd h hlo
    have hs : s = hrp ++ 0x31 :: toUpper cs := by
      rw [e6, toUpper_append, toUpper_cons, toUpper_toLower, hup]; rfl
    subst hs
    have := decode_assembled hrp (toUpper cs) d5 e2 e3 (by rw [hasBadByte_toUpper]; exact v5)
      (by rw [sep_mem_toUpper]; exact v6)
      (Or.inr (by rw [toUpper_append, toUpper_cons, hup, toUpper_idem]; rfl))
      (by rw [toLower_toUpper, v4]; exact v7)
    rw [this, hback]

/-- `Encode(Decode(s)) = s`, provided the case of `s` can be recovered from the
    HRP: an upper-case string whose HRP has no letters re-encodes in lower case -/
theorem encode_decode {s hrp data : Bytes} (h : decode s = .ok (hrp, data)) (hcase : toLower hrp = hrp → toLower s = s) :
    encode hrp data = .ok s := by
  obtain ⟨D, d5, d1, d2, d3, d4, d5', d6, d7, d8⟩ := decode_ok h
  have hb : hasBadByte hrp = false := by
    rw [d1, hasBadByte_append] at d3
    simp only [Bool.or_eq_false_iff] at d3
    exact d3.1
  have hun : toUpper hrp = hrp ∨ toLower hrp = hrp := by
    rw [d1] at d4
    rcases unmixed_left d4 with h | h
    · exact Or.inr h
    · exact Or.inl h
  obtain ⟨e5, cs, v1, v2, v3, v4, v5, v6, v7, v8⟩ := encode_of_valid hrp data d2 hb hun
  have hfwd := convertBits_5_8_5 d5 data d8
  rw [hfwd] at v1; cases v1
  -- the characters are determined by the symbols
  have hcs : toLower D = cs := by
    have := (syms_of_chars _ _ d7).2
    rw [v3] at this; cases this; rfl
  rw [v8]
  by_cases hlo : toLower hrp = hrp
  · rw [if_pos hlo, hlo]
    have hs := hcase hlo
    rw [d1] at hs
    have hD : toLower D = D := by
      have := lower_right hs
      rw [toLower_cons] at this
      exact (List.cons.inj this).2
    rw [d1, ← hcs, hD]
  · rw [if_neg hlo]
    have hup : toUpper s = s := by
      rcases d4 with h | h
      · rw [d1] at h; exact absurd (lower_left h) hlo
      · exact h
    rw [d1] at hup
    have hD : toUpper D = D := by
      have := upper_right hup
      rw [toUpper_cons] at this
      exact (List.cons.inj this).2
    have hH : toUpper hrp = hrp := upper_left hup
    rw [toUpper_append, toUpper_cons, toUpper_toLower, hH, ← hcs, toUpper_toLower, hD, d1]
    rfl

end Bech32
end AgeModel
