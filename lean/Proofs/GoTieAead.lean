/-
  Proofs.GoTieAead — `aeadEncrypt` / `aeadDecrypt` of package age (primitives.go) and of agessh
  (agessh/agessh.go), as they stand in the source.

  Translated on every run with ChaCha20-Poly1305 abstract (`chacha20poly1305.New` and the `Seal` /
  `Open` / `Overhead` methods of the `cipher.AEAD` it returns). What the source adds to the
  primitive is what the theorems fix: the nonce is twelve zero bytes, nothing is passed as
  additional data, and — in package age only — the ciphertext must be exactly `size + 16` bytes long
  BEFORE it is opened (`errIncorrectCiphertextSize`, which the callers turn into a fatal error
  rather than "incorrect identity"). These are the `hA` / `Seal` assumptions of `ScryptEnv` /
  `NativeEnv` / the SSH environments, now derived from the translated wrappers.
-/
import AgeModel.Extracted.Funcs
import AgeModel.Recipients
namespace AgeModel
namespace GoTie
open Extracted

/-- ChaCha20-Poly1305 as `golang.org/x/crypto` offers it: `New` accepts 32-byte keys only; the AEAD it
    returns seals and opens under that key; its overhead is 16 -/
structure WrapAeadEnv (α : Type) (P : Prims) where
  New : Bytes → Go.M (α × Option Go.Err)
  over : α → Go.M Int
  open_ : α → Bytes → Bytes → Bytes → Go.M (Bytes × Option Go.Err)
  seal_ : α → Bytes → Bytes → Bytes → Go.M Bytes
  nilA : α
  eKey : Go.Err
  eAuth : Go.Err
  hT : P.aead.T = 16
  hNew : ∀ k : Bytes, k.length = 32 → ∃ a, New k = .ok (a, none) ∧ over a = .ok 16 ∧
    (∀ n c, open_ a n c [] = .ok (match P.aead.openF k n c with
                                   | some p => (p, none)
                                   | none => ([], some eAuth))) ∧
    ∀ n p, seal_ a n p [] = .ok (P.aead.sealF k n p)
  hNewBad : ∀ k : Bytes, k.length ≠ 32 → New k = .ok (nilA, some eKey)

/-- the assumptions are satisfiable for every `P` whose tag is 16 bytes: the AEAD handle is the key itself -/
def WrapAeadEnv.canonical (P : Prims) (hT : P.aead.T = 16) : WrapAeadEnv Bytes P where
  New k := .ok (if k.length = 32 then (k, none) else ([], some ⟨"chacha20poly1305: bad key length", 0, []⟩))
  over _ := .ok 16
  open_ a n c _ := .ok (match P.aead.openF a n c with
                        | some p => (p, none)
                        | none => ([], some ⟨"chacha20poly1305: message authentication failed", 0, []⟩))
  seal_ a n p _ := .ok (P.aead.sealF a n p)
  nilA := []
  eKey := ⟨"chacha20poly1305: bad key length", 0, []⟩
  eAuth := ⟨"chacha20poly1305: message authentication failed", 0, []⟩
  hT := hT
  hNew k hk := ⟨k, by simp [hk], rfl, fun _ _ => rfl, fun _ _ => rfl⟩
  hNewBad k hk := by simp [hk]

namespace Aead

theorem makeZero12 : (Go.makeList (0 : UInt8) (12 : Int)) = .ok zeroNonce := by
  simp [Go.makeList, zeroNonce]

end Aead

variable {α : Type} {P : Prims}

/-- `aeadEncrypt` of package age: ChaCha20-Poly1305 under the given key, zero nonce, no additional data -/
theorem aeadEncrypt_tie (E : WrapAeadEnv α P) (k pt : Bytes) (hk : k.length = 32) :
    age_aeadEncrypt E.New E.seal_ k pt = .ok (P.wrapSeal k pt, none) := by
  obtain ⟨a, hN, _, _, hS⟩ := E.hNew k hk
  simp [age_aeadEncrypt, hN, Aead.makeZero12, hS, Prims.wrapSeal, bind, Except.bind, pure, Except.pure]

theorem aeadEncrypt_badKey (E : WrapAeadEnv α P) (k pt : Bytes) (hk : k.length ≠ 32) :
    age_aeadEncrypt E.New E.seal_ k pt = .ok ([], some E.eKey) := by
  simp [age_aeadEncrypt, E.hNewBad k hk, bind, Except.bind, pure, Except.pure]

/-- `aeadDecrypt` of package age: the length is checked first, then the ciphertext is opened under the zero
    nonce — the model's `aeadDecryptSized` -/
theorem aeadDecrypt_tie (E : WrapAeadEnv α P) (k ct : Bytes) (size : Nat) (hk : k.length = 32) :
    age_aeadDecrypt E.New E.over E.open_ k size ct = .ok (match aeadDecryptSized P k size ct with
      | .key fk => (fk, none)
      | .fatal => ([], age_errIncorrectCiphertextSize)
      | .incorrect => ([], some E.eAuth)) := by
  obtain ⟨a, hN, hO, hOp, _⟩ := E.hNew k hk
  unfold aeadDecryptSized
  by_cases hl : ct.length = size + P.aead.T
  · have h1 : ((Go.len ct) != ((size : Int) + 16)) = false := by
      simp only [Go.len, hl, E.hT]; simp
    simp only [age_aeadDecrypt, hN, hO, h1, Aead.makeZero12, hOp, bind, Except.bind, pure, Except.pure]
    simp only [hl, ne_eq, not_true_eq_false, if_false, Prims.wrapOpen]
    cases P.aead.openF k zeroNonce ct <;> simp [Go.nilOnErr]
  · have h1 : ((Go.len ct) != ((size : Int) + 16)) = true := by
      rw [E.hT] at hl
      simp only [Go.len]; simp; omega
    simp only [age_aeadDecrypt, hN, hO, h1, bind, Except.bind, pure, Except.pure]
    simp [hl]

theorem aeadDecrypt_badKey (E : WrapAeadEnv α P) (k ct : Bytes) (size : Int) (hk : k.length ≠ 32) :
    age_aeadDecrypt E.New E.over E.open_ k size ct = .ok ([], some E.eKey) := by
  simp [age_aeadDecrypt, E.hNewBad k hk, bind, Except.bind, pure, Except.pure]

/-- `aeadEncrypt` of agessh: the same wrapper -/
theorem ssh_aeadEncrypt_tie (E : WrapAeadEnv α P) (k pt : Bytes) (hk : k.length = 32) :
    agessh_aeadEncrypt E.New E.seal_ k pt = .ok (P.wrapSeal k pt, none) := by
  obtain ⟨a, hN, _, _, hS⟩ := E.hNew k hk
  simp [agessh_aeadEncrypt, hN, Aead.makeZero12, hS, Prims.wrapSeal, bind, Except.bind, pure, Except.pure]

/-- `aeadDecrypt` of agessh: NO length check — whatever opens under the zero nonce is returned (the
    callers check the length of the file key afterwards) -/
theorem ssh_aeadDecrypt_tie (E : WrapAeadEnv α P) (k ct : Bytes) (hk : k.length = 32) :
    agessh_aeadDecrypt E.New E.open_ k ct = .ok (match P.wrapOpen k ct with
      | some fk => (fk, none)
      | none => ([], some E.eAuth)) := by
  obtain ⟨a, hN, _, hOp, _⟩ := E.hNew k hk
  simp only [agessh_aeadDecrypt, hN, Aead.makeZero12, hOp, bind, Except.bind, pure, Except.pure, Prims.wrapOpen]
  cases P.aead.openF k zeroNonce ct <;> simp [Go.nilOnErr]

end GoTie
end AgeModel
