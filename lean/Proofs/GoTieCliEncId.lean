/-
  Proofs.GoTieCliEncId — cmd/age's passphrase-protected identity file, as it stands in the source.

  `(*EncryptedIdentity).Unwrap` (cmd/age/encrypted_keys.go) is TRANSLATED on every run; its
  `decrypt` (age.Decrypt of the file with the lazy passphrase identity, then parseIdentities), the
  `Unwrap` of the identities inside and `errors.Is` are parameters; `identities` is a field whose
  being nil ("not decrypted yet") differs from being empty. The theorems give the model's
  `EncId.unwrap`: once the identities are cached `decrypt` is NOT called again (it may fault when
  called) — so the passphrase is asked for at most once per identity value — a failed `decrypt` is
  returned and caches nothing, the cached identities are tried in order up to the first that does
  not answer "incorrect identity", and the "no match" warning is given exactly when all of them do.
-/
import AgeModel.GoSem
import AgeModel.CliIdent
import AgeModel.Extracted.Funcs
import Proofs.GoTieUnwrap
namespace AgeModel
namespace GoTie
open Extracted CliIdent

/-- the identities inside behave as model identities -/
def IdsAre (P : Prims) {ι : Type} (idOf : ι → Identity) (U : ι → List age_Stanza → Go.M (Bytes × Option Go.Err)) : Prop :=
  ∀ i ss, ∃ r, U i (ss.map toGoStanza) = .ok r ∧ resClass r = (idOf i).unwrap P ss

/-- the loop over the cached identities -/
theorem encid_loop (P : Prims) {ι : Type} (idOf : ι → Identity) (U : ι → List age_Stanza → Go.M (Bytes × Option Go.Err))
    (hU : IdsAre P idOf U) (i : main_EncryptedIdentity ι) (ss : List Format.Stanza) (ids : List ι) :
    ∀ (fk : Bytes) (err : Option Go.Err),
    ∃ l, main_EncryptedIdentity_Unwrap_loop1 U errorsIsEq i (ss.map toGoStanza) ids fk err = .ok l ∧
      match l with
      | .next _ => tryAll P ss (ids.map idOf) = .incorrect
      | .ret v => v.2.2 = i ∧ resClass (v.1, v.2.1) = tryAll P ss (ids.map idOf) ∧
          tryAll P ss (ids.map idOf) ≠ .incorrect := by
  induction ids with
  | nil => intro fk err; exact ⟨.next (fk, err), rfl, rfl⟩
  | cons a ids ih =>
    intro fk err
    obtain ⟨r, hr, hc⟩ := hU a ss
    obtain ⟨l, hl, hl'⟩ := ih r.1 r.2
    simp only [List.map_cons, main_EncryptedIdentity_Unwrap_loop1, hr, errorsIsEq, bind, Except.bind, pure, Except.pure, tryAll]
    rw [← hc]
    by_cases h1 : r.2 = age_ErrIncorrectIdentity
    · have hc1 : resClass r = .incorrect := by
        simp [resClass, h1, age_ErrIncorrectIdentity]
      have hb : (r.2 == age_ErrIncorrectIdentity) = true := by simp [h1]
      simp only [hb, if_true, hl, hc1]
      exact ⟨l, rfl, hl'⟩
    · have hb : (r.2 == age_ErrIncorrectIdentity) = false := by simpa using h1
      simp only [hb, Bool.false_eq_true, if_false]
      by_cases h2 : r.2 = none
      · have hc2 : resClass r = .key r.1 := by simp [resClass, h2]
        have hb2 : (r.2 != none) = false := by simp [h2]
        simp only [hb2, Bool.false_eq_true, if_false, hc2]
        exact ⟨_, rfl, rfl, by simp [resClass], by simp⟩
      · have hc2 : resClass r = .fatal := by simp [resClass, h1, h2]
        have hb2 : (r.2 != none) = true := by simpa using h2
        simp only [hb2, if_true, hc2]
        exact ⟨_, rfl, rfl, by simp [resClass, h1, h2], by simp⟩

/-- identities cached: no decryption, the identities in order; the value is unchanged -/
theorem encid_cached_tie (P : Prims) {ι : Type} (idOf : ι → Identity) (U : ι → List age_Stanza → Go.M (Bytes × Option Go.Err))
    (hU : IdsAre P idOf U) (c : Bytes) (pp : Go.M (Bytes × Option Go.Err)) (ids : List ι) (ss : List Format.Stanza) :
    ∃ r, main_EncryptedIdentity_Unwrap (fun _ => .error (.panic 97)) U errorsIsEq ⟨c, pp, .ok (), some ids⟩ (ss.map toGoStanza) =
        .ok (r.1, r.2, ⟨c, pp, .ok (), some ids⟩) ∧
      resClass r = tryAll P ss (ids.map idOf) := by
  obtain ⟨l, hl, hl'⟩ := encid_loop P idOf U hU ⟨c, pp, .ok (), some ids⟩ ss ids [] none
  simp only [main_EncryptedIdentity_Unwrap, Option.isNone_some, Bool.false_eq_true, if_false, Option.getD_some, hl,
    bind, Except.bind, pure, Except.pure]
  cases l with
  | next x =>
    cases x
    refine ⟨([], age_ErrIncorrectIdentity), rfl, ?_⟩
    rw [hl']; simp [resClass, age_ErrIncorrectIdentity]
  | ret v =>
    obtain ⟨h1, h2, _⟩ := hl'
    refine ⟨(v.1, v.2.1), ?_, h2⟩
    rw [← h1]

/-- the warning is not given when some identity answers something other than "incorrect identity" -/
theorem encid_cached_no_warning (P : Prims) {ι : Type} (idOf : ι → Identity) (U : ι → List age_Stanza → Go.M (Bytes × Option Go.Err))
    (hU : IdsAre P idOf U) (c : Bytes) (pp : Go.M (Bytes × Option Go.Err)) (ids : List ι) (ss : List Format.Stanza)
    (h : tryAll P ss (ids.map idOf) ≠ .incorrect) :
    ∃ r, main_EncryptedIdentity_Unwrap (fun _ => .error (.panic 97)) U errorsIsEq ⟨c, pp, .error (.panic 98), some ids⟩ (ss.map toGoStanza) =
        .ok (r.1, r.2, ⟨c, pp, .error (.panic 98), some ids⟩) ∧
      resClass r = tryAll P ss (ids.map idOf) := by
  obtain ⟨l, hl, hl'⟩ := encid_loop P idOf U hU ⟨c, pp, .error (.panic 98), some ids⟩ ss ids [] none
  simp only [main_EncryptedIdentity_Unwrap, Option.isNone_some, Bool.false_eq_true, if_false, Option.getD_some, hl,
    bind, Except.bind, pure, Except.pure]
  cases l with
  | next x => exact absurd hl' h
  | ret v =>
    obtain ⟨h1, h2, _⟩ := hl'
    refine ⟨(v.1, v.2.1), ?_, h2⟩
    rw [← h1]

/-- … and it IS given when all of them answer "incorrect identity" (a warning that faults shows) -/
theorem encid_cached_warning (P : Prims) {ι : Type} (idOf : ι → Identity) (U : ι → List age_Stanza → Go.M (Bytes × Option Go.Err))
    (hU : IdsAre P idOf U) (c : Bytes) (pp : Go.M (Bytes × Option Go.Err)) (ids : List ι) (ss : List Format.Stanza)
    (h : tryAll P ss (ids.map idOf) = .incorrect) :
    main_EncryptedIdentity_Unwrap (fun _ => .error (.panic 97)) U errorsIsEq ⟨c, pp, .error (.panic 98), some ids⟩ (ss.map toGoStanza) =
      .error (.panic 98) := by
  obtain ⟨l, hl, hl'⟩ := encid_loop P idOf U hU ⟨c, pp, .error (.panic 98), some ids⟩ ss ids [] none
  simp only [main_EncryptedIdentity_Unwrap, Option.isNone_some, Bool.false_eq_true, if_false, Option.getD_some, hl,
    bind, Except.bind, pure, Except.pure]
  cases l with
  | next x => cases x; rfl
  | ret v => exact absurd h hl'.2.2

/-- nothing cached: `decrypt` runs (once); when it succeeds the call continues as with the cache it left -/
theorem encid_fresh_ok {ι : Type} (U : ι → List age_Stanza → Go.M (Bytes × Option Go.Err))
    (Dc : main_EncryptedIdentity ι → Go.M (Option Go.Err × main_EncryptedIdentity ι))
    (i i' : main_EncryptedIdentity ι) (hi : i.identities = none) (hD : Dc i = .ok (none, i'))
    (ids : List ι) (hi' : i'.identities = some ids) (ss : List age_Stanza) :
    main_EncryptedIdentity_Unwrap Dc U errorsIsEq i ss =
      main_EncryptedIdentity_Unwrap (fun _ => .error (.panic 97)) U errorsIsEq i' ss := by
  have hn : ((none : Option Go.Err) != none) = false := by simp
  simp only [main_EncryptedIdentity_Unwrap, hi, hi', hD, Option.isNone_none, Option.isNone_some, if_true,
    Bool.false_eq_true, if_false, hn, bind, Except.bind, pure, Except.pure]

/-- … and when it fails its error is returned as it is, the inner identities are not consulted, no warning -/
theorem encid_fresh_fail {ι : Type}
    (Dc : main_EncryptedIdentity ι → Go.M (Option Go.Err × main_EncryptedIdentity ι))
    (i i' : main_EncryptedIdentity ι) (hi : i.identities = none) (e : Go.Err) (hD : Dc i = .ok (some e, i'))
    (ss : List age_Stanza) :
    main_EncryptedIdentity_Unwrap Dc (fun _ _ => .error (.panic 96)) errorsIsEq i ss = .ok ([], some e, i') := by
  have hn : ((some e : Option Go.Err) != none) = true := by simp
  simp only [main_EncryptedIdentity_Unwrap, hi, hD, Option.isNone_none, if_true, hn,
    bind, Except.bind, pure, Except.pure]

end GoTie
end AgeModel
