/-
  Proofs.ToyPrims — the hypothesis structures are satisfiable: a toy primitive
  suite (no security whatsoever) meets `AEAD.Correct`, `AEAD.NonceSep` and
  `Prims.Correct`, so no theorem assuming them is vacuous. `AEAD.toy16` / `Prims.toy16`: the same with the
  16-byte tag of ChaCha20-Poly1305, for the assumption structures that fix the tag length.
-/
import AgeModel.Prims
namespace AgeModel

theorem toyTag_length (n : Bytes) : (toyTag n).length = 12 := by
  unfold toyTag; rw [List.length_take, List.length_append, List.length_replicate]; omega

theorem toyTag_inj (n n' : Bytes) (h : n.length = 12) (h' : n'.length = 12) (e : toyTag n = toyTag n') : n = n' := by
  unfold toyTag at e
  rw [List.take_append_of_le_length (by omega), List.take_append_of_le_length (by omega),
      List.take_of_length_le (by omega), List.take_of_length_le (by omega)] at e
  exact e

theorem AEAD.toy_correct : AEAD.toy.Correct where
  T_pos := by decide
  seal_len := by intro k n p; simp [AEAD.toy, toyTag_length]
  open_seal := by
    intro k n p
    simp only [AEAD.toy]
    have hl : (p ++ toyTag n).length - 12 = p.length := by rw [List.length_append, toyTag_length]; omega
    have h1 : 12 ≤ (p ++ toyTag n).length := by rw [List.length_append, toyTag_length]; omega
    rw [hl]
    simp [toyTag_length]
  open_unique := by
    intro k n c p h
    simp only [AEAD.toy] at h ⊢
    split at h
    · rename_i hc
      simp only [Option.some.injEq] at h
      rw [← h, ← hc.2, List.take_append_drop]
    · simp at h

theorem AEAD.toy_nonceSep : AEAD.toy.NonceSep := by
  intro k n n' p hn hn' hne
  simp only [AEAD.toy]
  have hl : (p ++ toyTag n).length - 12 = p.length := by rw [List.length_append, toyTag_length]; omega
  rw [hl]
  have : ¬ (12 ≤ (p ++ toyTag n).length ∧ List.drop p.length (p ++ toyTag n) = toyTag n') := by
    intro ⟨_, h⟩
    simp at h
    exact hne (toyTag_inj n n' hn hn' h)
  rw [if_neg this]

/-- a lawful (and useless) primitive suite -/
def Prims.toy : Prims where
  aead := AEAD.toy
  hkdf := fun _ _ _ n => List.replicate n 0
  hmac := fun _ _ => List.replicate 32 0
  sha256 := fun _ => List.replicate 32 0
  x25519 := fun _ _ => some (List.replicate 32 0)
  basepoint := 9 :: List.replicate 31 0
  scrypt := fun _ _ _ => List.replicate 32 0
  oaepEnc := fun _ _ m _ => some m
  oaepDec := fun _ c _ => some c
  rsaPair := fun _ _ => True

theorem Prims.toy_correct : Prims.toy.Correct where
  aead := AEAD.toy_correct
  dh_comm := by intros; rfl
  x25519_len := by intro a b c h; simp [Prims.toy] at h; subst h; simp
  sha256_len := by intro b; simp [Prims.toy]
  hmac_len := by intro k m; simp [Prims.toy]
  oaep := by intro pub priv _ seed m l c h; simp [Prims.toy] at h ⊢; exact h.symm

/-! the same suite with a 16-byte tag, as the wrappers of the source check for (`Overhead() == 16`) -/

/-- the toy AEAD with a 16-byte tag: the first 12 bytes of the nonce (zero padded), then four zero bytes -/
def toyTag16 (n : Bytes) : Bytes := toyTag n ++ [0, 0, 0, 0]

def AEAD.toy16 : AEAD where
  T := 16
  sealF := fun _ n p => p ++ toyTag16 n
  openF := fun _ n c =>
    if 16 ≤ c.length ∧ c.drop (c.length - 16) = toyTag16 n then some (c.take (c.length - 16)) else none

theorem toyTag16_length (n : Bytes) : (toyTag16 n).length = 16 := by
  unfold toyTag16; rw [List.length_append, toyTag_length]; rfl

theorem toyTag16_inj (n n' : Bytes) (h : n.length = 12) (h' : n'.length = 12) (e : toyTag16 n = toyTag16 n') : n = n' := by
  unfold toyTag16 at e
  exact toyTag_inj n n' h h' (List.append_cancel_right e)

theorem AEAD.toy16_correct : AEAD.toy16.Correct where
  T_pos := by decide
  seal_len := by intro k n p; simp [AEAD.toy16, toyTag16_length]
  open_seal := by
    intro k n p
    simp only [AEAD.toy16]
    have hl : (p ++ toyTag16 n).length - 16 = p.length := by rw [List.length_append, toyTag16_length]; omega
    have h1 : 16 ≤ (p ++ toyTag16 n).length := by rw [List.length_append, toyTag16_length]; omega
    rw [hl]
    simp [toyTag16_length]
  open_unique := by
    intro k n c p h
    simp only [AEAD.toy16] at h ⊢
    split at h
    · rename_i hc
      simp only [Option.some.injEq] at h
      rw [← h, ← hc.2, List.take_append_drop]
    · simp at h

theorem AEAD.toy16_nonceSep : AEAD.toy16.NonceSep := by
  intro k n n' p hn hn' hne
  simp only [AEAD.toy16]
  have hl : (p ++ toyTag16 n).length - 16 = p.length := by rw [List.length_append, toyTag16_length]; omega
  rw [hl]
  have : ¬ (16 ≤ (p ++ toyTag16 n).length ∧ List.drop p.length (p ++ toyTag16 n) = toyTag16 n') := by
    intro ⟨_, h⟩
    simp at h
    exact hne (toyTag16_inj n n' hn hn' h)
  rw [if_neg this]

/-- `Prims.toy` with the 16-byte-tag AEAD -/
def Prims.toy16 : Prims := { Prims.toy with aead := AEAD.toy16 }

theorem Prims.toy16_correct : Prims.toy16.Correct where
  aead := AEAD.toy16_correct
  dh_comm := by intros; rfl
  x25519_len := by intro a b c h; simp [Prims.toy16, Prims.toy] at h; subst h; simp
  sha256_len := by intro b; simp [Prims.toy16, Prims.toy]
  hmac_len := by intro k m; simp [Prims.toy16, Prims.toy]
  oaep := by intro pub priv _ seed m l c h; simp [Prims.toy16, Prims.toy] at h ⊢; exact h.symm
theorem Prims.toy16_T : Prims.toy16.aead.T = 16 := rfl

end AgeModel
