/-
  Proofs.GoTieRunes — ranging over the runes of a string: facts about Go.runes / Go.decodeRune (no translated function involved)
  (split out of Proofs.GoTieMisc so that a rewrite of one translated function only takes down the theorems about it)
-/
import AgeModel.GoSem
import AgeModel.Stream
import AgeModel.Format
import AgeModel.Keys
import AgeModel.Extracted.Funcs
namespace AgeModel
namespace GoTie
open Extracted

/-! ## ranging over the runes of a string -/

theorem u8_lt_128 (b : UInt8) : (b < 0x80) ↔ b.toNat < 128 := UInt8.lt_iff_toNat_lt

theorem decodeRune_ascii (b : UInt8) (rest : List UInt8) (h : b.toNat < 0x80) :
    Go.decodeRune (b :: rest) = (Int.ofNat b.toNat, 1) := by
  simp only [Go.decodeRune, h, if_true]

theorem decodeRune_width (l : List UInt8) : 1 ≤ (Go.decodeRune l).2 := by
  unfold Go.decodeRune
  split
  · exact Nat.le_refl _
  · dsimp only
    repeat' split
    all_goals first | decide | (dsimp only; omega)

theorem decodeRune_nonascii (b : UInt8) (rest : List UInt8) (h : 0x80 ≤ b.toNat) :
    0x80 ≤ (Go.decodeRune (b :: rest)).1 := by
  have hb := b.toNat_lt
  simp only [Go.decodeRune]
  repeat' split
  all_goals first
    | decide
    | omega
    | (simp only [Int.ofNat_eq_natCast]; omega)

theorem runesFrom_any (P : Int → Bool) (Q : UInt8 → Bool)
    (h1 : ∀ b : UInt8, b.toNat < 128 → P (Int.ofNat b.toNat) = Q b)
    (h2 : ∀ b : UInt8, 128 ≤ b.toNat → Q b = true)
    (h3 : ∀ r : Int, 128 ≤ r → P r = true) :
    ∀ (fuel off : Nat) (s : List UInt8), s.length ≤ fuel →
      (Go.runesFrom fuel off s).any (fun p => P p.2) = s.any Q := by
  intro fuel
  induction fuel with
  | zero =>
    intro off s hs
    have : s = [] := List.eq_nil_of_length_eq_zero (Nat.le_zero.mp hs)
    subst this; rfl
  | succ fuel ih =>
    intro off s hs
    cases s with
    | nil => rfl
    | cons b rest =>
      simp only [Go.runesFrom, List.any_cons]
      by_cases hb : b.toNat < 128
      · rw [decodeRune_ascii b rest hb]
        simp only [List.drop_succ_cons, List.drop_zero]
        rw [ih (off + 1) rest (by simpa using hs), h1 b hb]
      · have hb' : 128 ≤ b.toNat := Nat.le_of_not_lt hb
        rw [h3 _ (decodeRune_nonascii b rest hb'), h2 b hb']
        simp only [Bool.true_or]

theorem runes_any (P : Int → Bool) (Q : UInt8 → Bool)
    (h1 : ∀ b : UInt8, b.toNat < 128 → P (Int.ofNat b.toNat) = Q b)
    (h2 : ∀ b : UInt8, 128 ≤ b.toNat → Q b = true)
    (h3 : ∀ r : Int, 128 ≤ r → P r = true) (s : List UInt8) :
    (Go.runes s).any (fun p => P p.2) = s.any Q :=
  runesFrom_any P Q h1 h2 h3 s.length 0 s (Nat.le_refl _)

/-- the test `c < 33 || c > 126` finds a rune iff it finds a byte -/
theorem runes_any_bad (s : Bytes) :
    (Go.runes s).any (fun p => decide (p.2 < 33) || decide (p.2 > 126)) = s.any (fun b => b < 33 || b > 126) := by
  refine runes_any (fun r => decide (r < 33) || decide (r > 126)) (fun b => b < 33 || b > 126) ?_ ?_ ?_ s
  · intro b hb
    simp only [UInt8.lt_iff_toNat_lt, gt_iff_lt, Int.ofNat_eq_natCast]
    congr 1
    · simp only [decide_eq_decide]; show _ ↔ b.toNat < 33; omega
    · simp only [decide_eq_decide]; show _ ↔ 126 < b.toNat; omega
  · intro b hb
    simp only [UInt8.lt_iff_toNat_lt, gt_iff_lt, Bool.or_eq_true, decide_eq_true_eq]
    right; show 126 < b.toNat; omega
  · intro r hr
    simp only [Bool.or_eq_true, decide_eq_true_eq]
    omega

theorem runesFrom_ascii : ∀ (fuel off : Nat) (s : List UInt8), s.length ≤ fuel → Go.isAscii s = true →
    Go.runesFrom fuel off s =
      (List.range' off s.length).zipWith (fun i b => (Int.ofNat i, Int.ofNat b.toNat)) s := by
  intro fuel
  induction fuel with
  | zero =>
    intro off s hs _
    have : s = [] := List.eq_nil_of_length_eq_zero (Nat.le_zero.mp hs)
    subst this; rfl
  | succ fuel ih =>
    intro off s hs ha
    cases s with
    | nil => rfl
    | cons b rest =>
      simp only [Go.isAscii, List.all_cons, Bool.and_eq_true, decide_eq_true_eq] at ha
      have hb : b.toNat < 128 := UInt8.lt_iff_toNat_lt.mp ha.1
      simp only [Go.runesFrom, List.length_cons, List.range'_succ, List.zipWith_cons_cons]
      rw [decodeRune_ascii b rest hb]
      simp only [List.drop_succ_cons, List.drop_zero]
      rw [ih (off + 1) rest (by simpa using hs) ha.2]

/-- on an ASCII string the runes are the bytes, at their own offsets -/
theorem runes_ascii (s : Bytes) (h : Go.isAscii s = true) :
    Go.runes s = (List.range s.length).zipWith (fun i b => (Int.ofNat i, Int.ofNat b.toNat)) s := by
  rw [List.range_eq_range']
  exact runesFrom_ascii s.length 0 s (Nat.le_refl _) h

/-- every rune that starts at a non-ASCII byte is itself ≥ 0x80 -/
theorem runes_all_ascii_iff (s : Bytes) :
    (Go.runes s).all (fun p => decide (0 ≤ p.2 ∧ p.2 < 128)) = Go.isAscii s := by
  have := runes_any (fun r => !decide (0 ≤ r ∧ r < 128)) (fun b => !decide (b < 0x80)) ?_ ?_ ?_ s
  · unfold Go.isAscii
    rw [List.all_eq_not_any_not, List.all_eq_not_any_not (l := s)]
    exact congrArg (!·) this
  · intro b hb
    show (!decide (0 ≤ Int.ofNat b.toNat ∧ Int.ofNat b.toNat < 128)) = !decide (b < 0x80)
    have e1 : decide (b < 0x80) = true := decide_eq_true ((u8_lt_128 b).mpr hb)
    have e2 : decide (0 ≤ Int.ofNat b.toNat ∧ Int.ofNat b.toNat < 128) = true :=
      decide_eq_true ⟨Int.natCast_nonneg _, by simp only [Int.ofNat_eq_natCast]; omega⟩
    rw [e1, e2]
  · intro b hb
    simp only [u8_lt_128, Bool.not_eq_true', decide_eq_false_iff_not]
    omega
  · intro r hr
    simp only [Bool.not_eq_true', decide_eq_false_iff_not]
    omega


end GoTie
end AgeModel
