/-
  Proofs.GoTieKeygen — `convert` and `generate` of cmd/age-keygen/keygen.go, as they stand in the
  source.

  Translated on every run with everything outside them as ONE explicit state (`funcSpec.world`) and
  `errorf` as an exit site. `age-keygen -y` (`convert`) returns — and only then can the tool exit 0 —
  exactly when the input parsed to at least one identity, every identity is a native one, and EVERY
  recipient line was written without error, one per identity in input order; the first failure ends
  the process with status 1. `generate` returns exactly when the key pair was generated and the key
  file text (creation time, public key, secret key: ONE write) was written without error; the copy of
  the public key to standard error, made only when the output is not a terminal, may fail without
  consequence.
-/
import AgeModel.GoSem
import AgeModel.Extracted.Funcs
namespace AgeModel
namespace GoTie
open Extracted

section convert
variable {ζ ι ρ τ : Type} (PI : Bytes → τ → Go.M (List ι × Option Go.Err × τ)) (isX : ι → Bool)
  (Rc : ι → τ → Go.M (ρ × τ)) (F : ζ → Bytes → ρ → τ → Go.M (Int × Option Go.Err × τ))

/-- the format of a recipient line: "%s\n" -/
def fmtLine : Bytes := [37, 115, 10]

/-- the lines of `age-keygen -y` were written: for each identity, in order, its recipient was obtained and one
    `Fprintf(out, "%s\n", recipient)` succeeded -/
inductive KeygenWrites (out : ζ) : List ι → τ → τ → Prop
  | nil (t : τ) : KeygenWrites out [] t t
  | cons (id : ι) (rest : List ι) (t t1 t2 t' : τ) (rc : ρ) (n : Int) :
      Rc id t = .ok (rc, t1) → F out fmtLine rc t1 = .ok (n, none, t2) → KeygenWrites out rest t2 t' →
      KeygenWrites out (id :: rest) t t'

theorem keygen_convert_loop_nil (out : ζ) (t : τ) :
    keygen_convert_loop1 isX Rc F out [] t = .ok (.next t) := rfl

theorem keygen_convert_loop_cons (out : ζ) (x : ι) (rest : List ι) (t : τ) :
    keygen_convert_loop1 isX Rc F out (x :: rest) t =
      if isX x = true then
        match Rc x t with
        | Except.error err => Except.error err
        | Except.ok v =>
          match F out fmtLine v.fst v.snd with
          | Except.error err => Except.error err
          | Except.ok w =>
            if w.2.1 = none then keygen_convert_loop1 isX Rc F out rest w.snd.snd
            else .error (.panic 1003)
      else .error (.panic 1002) := by
  show _ = if isX x = true then
        match Rc x t with
        | Except.error err => Except.error err
        | Except.ok v =>
          match F out [37, 115, 10] v.fst v.snd with
          | Except.error err => Except.error err
          | Except.ok w =>
            if w.2.1 = none then keygen_convert_loop1 isX Rc F out rest w.snd.snd
            else .error (.panic 1003)
      else .error (.panic 1002)
  cases hx : isX x
  · simp only [keygen_convert_loop1, bind, Except.bind, hx]; rfl
  · simp only [keygen_convert_loop1, bind, Except.bind, hx]
    cases hr : Rc x t with
    | error e => rfl
    | ok v =>
      cases hf : F out [37, 115, 10] v.fst v.snd with
      | error e => simp [hf]
      | ok w =>
        cases h : w.2.1 with
        | none => simp [h, hf]
        | some e => simp [h, hf]; rfl

theorem keygen_convert_loop_iff (out : ζ) (ids : List ι) : ∀ (t : τ) (r : Go.Loop τ τ),
    keygen_convert_loop1 isX Rc F out ids t = .ok r ↔
      ∃ t', r = .next t' ∧ (∀ id ∈ ids, isX id = true) ∧ KeygenWrites Rc F out ids t t' := by
  induction ids with
  | nil =>
    intro t r
    rw [keygen_convert_loop_nil]
    constructor
    · intro h
      injection h with h
      exact ⟨t, h.symm, by simp, .nil t⟩
    · rintro ⟨t', rfl, _, hw⟩
      cases hw
      rfl
  | cons x rest ih =>
    intro t r
    rw [keygen_convert_loop_cons]
    cases hx : isX x with
    | false =>
      simp only [Bool.false_eq_true, if_false]
      constructor
      · intro h; cases h
      · rintro ⟨t', _, hall, _⟩
        have := hall x (List.mem_cons_self ..)
        rw [hx] at this; cases this
    | true =>
      simp only [if_true]
      cases hr : Rc x t with
      | error e =>
        constructor
        · intro h; cases h
        · rintro ⟨t', _, _, hw⟩
          cases hw with
          | cons _ _ _ _ _ _ _ _ h1 _ _ => rw [hr] at h1; cases h1
      | ok v =>
        cases hf : F out fmtLine v.fst v.snd with
        | error e =>
          simp only []
          rw [hf]
          constructor
          · intro h; cases h
          · rintro ⟨t', _, _, hw⟩
            cases hw with
            | cons _ _ _ _ _ _ _ _ h1 h2 _ =>
              rw [hr] at h1; cases h1; rw [hf] at h2; cases h2
        | ok w =>
          simp only []
          rw [hf]
          simp only []
          obtain ⟨n, e, t2⟩ := w
          cases e with
          | some e =>
            simp only [reduceCtorEq, if_false]
            constructor
            · intro h; cases h
            · rintro ⟨t', _, _, hw⟩
              cases hw with
              | cons _ _ _ _ _ _ _ _ h1 h2 _ =>
                rw [hr] at h1; cases h1; rw [hf] at h2; cases h2
          | none =>
            simp only [if_true]
            rw [ih]
            constructor
            · rintro ⟨t', hr', hall, hw⟩
              refine ⟨t', hr', ?_, .cons x rest t v.2 t2 t' v.1 n hr hf hw⟩
              intro id hid
              cases hid with
              | head => exact hx
              | tail _ h => exact hall _ h
            · rintro ⟨t', hr', hall, hw⟩
              cases hw with
              | cons _ _ _ _ _ _ _ _ h1 h2 h3 =>
                rw [hr] at h1; cases h1; rw [hf] at h2; cases h2
                exact ⟨t', hr', fun id hid => hall id (List.mem_cons_of_mem _ hid), h3⟩

theorem keygen_convert_eq (inp : Bytes) (out : ζ) (t0 : τ) :
    keygen_convert PI isX Rc F inp out t0 =
      match PI inp t0 with
      | .error e => .error e
      | .ok p =>
        if p.2.1 = none then
          if p.1 = [] then .error (.panic 1001)
          else match keygen_convert_loop1 isX Rc F out p.1 p.2.2 with
            | .error e => .error e
            | .ok (.ret v) => .ok v
            | .ok (.next t) => .ok t
        else .error (.panic 1000) := by
  simp only [keygen_convert, bind, Except.bind, pure, Except.pure]
  cases hp : PI inp t0 with
  | error e => rfl
  | ok p =>
    obtain ⟨ids, e, t1⟩ := p
    cases e with
    | some e => simp; rfl
    | none =>
      cases ids with
      | nil => simp [Go.len]; rfl
      | cons x rest =>
        have : (Go.len (x :: rest) == (0:Int)) = false := by
          simp [Go.len]; omega
        simp [this]
        generalize keygen_convert_loop1 isX Rc F out (x :: rest) t1 = L
        cases L with
        | error e => rfl
        | ok v => cases v <;> rfl

theorem keygen_convert_returns_iff (inp : Bytes) (out : ζ) (t0 t' : τ) :
    keygen_convert PI isX Rc F inp out t0 = .ok t' ↔
      ∃ ids t1, PI inp t0 = .ok (ids, none, t1) ∧ ids ≠ [] ∧ (∀ id ∈ ids, isX id = true) ∧
        KeygenWrites Rc F out ids t1 t' := by
  rw [keygen_convert_eq]
  cases hp : PI inp t0 with
  | error e =>
    constructor
    · intro h; cases h
    · rintro ⟨_, _, h, _⟩; cases h
  | ok p =>
    obtain ⟨ids, e, t1⟩ := p
    simp only []
    cases e with
    | some e =>
      simp only [reduceCtorEq, if_false]
      constructor
      · intro h; cases h
      · rintro ⟨_, _, h, _⟩; cases h
    | none =>
      simp only [if_true]
      by_cases hids : ids = []
      · simp only [hids, if_true]
        constructor
        · intro h; cases h
        · rintro ⟨_, _, h, hne, _⟩; cases h; exact absurd rfl hne
      · simp only [hids, if_false]
        constructor
        · intro h
          cases hl : keygen_convert_loop1 isX Rc F out ids t1 with
          | error e => rw [hl] at h; cases h
          | ok r =>
            rw [hl] at h
            obtain ⟨t'', rfl, hall, hw⟩ := (keygen_convert_loop_iff isX Rc F out ids t1 r).1 hl
            cases h
            exact ⟨ids, t1, rfl, hids, hall, hw⟩
        · rintro ⟨ids', t1', h, _, hall, hw⟩
          cases h
          rw [(keygen_convert_loop_iff isX Rc F out ids t1 (.next t')).2 ⟨t', rfl, hall, hw⟩]

theorem keygen_convert_loop_exits (out : ζ)
    (hRc : ∀ i t, ∃ r, Rc i t = .ok r) (hF : ∀ o f r t, ∃ x, F o f r t = .ok x) (ids : List ι) : ∀ t : τ,
    (∃ t', keygen_convert_loop1 isX Rc F out ids t = .ok (.next t')) ∨
      keygen_convert_loop1 isX Rc F out ids t = .error (.panic 1002) ∨
      keygen_convert_loop1 isX Rc F out ids t = .error (.panic 1003) := by
  induction ids with
  | nil => intro t; exact .inl ⟨t, rfl⟩
  | cons x rest ih =>
    intro t
    rw [keygen_convert_loop_cons]
    cases hx : isX x with
    | false => exact .inr (.inl rfl)
    | true =>
      simp only [if_true]
      obtain ⟨v, hv⟩ := hRc x t
      rw [hv]
      simp only []
      obtain ⟨w, hw⟩ := hF out fmtLine v.1 v.2
      rw [hw]
      simp only []
      by_cases he : w.2.1 = none
      · rw [if_pos he]; exact ih _
      · rw [if_neg he]; exact .inr (.inr rfl)

/-- whatever happens, `convert` either returns or ends the process at one of its four exit sites (or an abstract callee
    faults): it never fails in another way -/
theorem keygen_convert_exits (inp : Bytes) (out : ζ) (t0 : τ)
    (hPI : ∀ b t, ∃ r, PI b t = .ok r) (hRc : ∀ i t, ∃ r, Rc i t = .ok r) (hF : ∀ o f r t, ∃ x, F o f r t = .ok x) :
    (∃ t', keygen_convert PI isX Rc F inp out t0 = .ok t') ∨
      ∃ k, k < 4 ∧ keygen_convert PI isX Rc F inp out t0 = .error (.panic (1000 + k)) := by
  rw [keygen_convert_eq]
  obtain ⟨p, hp⟩ := hPI inp t0
  rw [hp]
  simp only []
  by_cases he : p.2.1 = none
  · simp only [he, if_true]
    by_cases hids : p.1 = []
    · simp only [hids, if_true]; exact .inr ⟨1, by decide, rfl⟩
    · simp only [hids, if_false]
      rcases keygen_convert_loop_exits isX Rc F out hRc hF p.1 p.2.2 with ⟨t', h⟩ | h | h
      · rw [h]; exact .inl ⟨t', rfl⟩
      · rw [h]; exact .inr ⟨2, by decide, rfl⟩
      · rw [h]; exact .inr ⟨3, by decide, rfl⟩
  · simp only [he, if_false]; exact .inr ⟨0, by decide, rfl⟩
end convert

section generate
variable {ζ θ ι ρ τ : Type} (G : τ → Go.M (ι × Option Go.Err × τ)) (Fd : ζ → τ → Go.M (Int × τ))
  (IsT : Int → τ → Go.M (Bool × τ)) (stderr : ζ) (Rc : ι → τ → Go.M (ρ × τ))
  (F1 : ζ → Bytes → ρ → τ → Go.M (Int × Option Go.Err × τ)) (Fmt : θ → Bytes → τ → Go.M (Bytes × τ))
  (Now : τ → Go.M (θ × τ)) (F2 : ζ → Bytes → Bytes → ρ → ι → τ → Go.M (Int × Option Go.Err × τ))

def fmtPublic : Bytes := "Public key: %s\n".toUTF8.toList
def fmtKeyFile : Bytes := "# created: %s\n# public key: %s\n%s\n".toUTF8.toList
def fmtRFC3339 : Bytes := "2006-01-02T15:04:05Z07:00".toUTF8.toList

/-- `generate`, step by step -/
def generateModel (out : ζ) (t0 : τ) : Go.M τ := do
  let g ← G t0
  if (g.2.1 != none) = true then .error (.panic 1000)
  else do
    let fd ← Fd out g.2.2
    let it ← IsT fd.1 fd.2
    let t3 ← (if it.1 = true then pure it.2 else do
      let rc ← Rc g.1 it.2
      let w ← F1 stderr fmtPublic rc.1 rc.2
      pure w.2.2)
    let nw ← Now t3
    let ts ← Fmt nw.1 fmtRFC3339 nw.2
    let rc ← Rc g.1 ts.2
    let w ← F2 out fmtKeyFile ts.1 rc.1 g.1 rc.2
    if (w.2.1 != none) = true then .error (.panic 1001) else pure w.2.2

theorem fmtPublic_eq : fmtPublic = [80, 117, 98, 108, 105, 99, 32, 107, 101, 121, 58, 32, 37, 115, 10] := by
  decide +kernel
theorem fmtRFC3339_eq : fmtRFC3339 = [50, 48, 48, 54, 45, 48, 49, 45, 48, 50, 84, 49, 53, 58, 48, 52, 58, 48, 53, 90, 48, 55, 58, 48, 48] := by
  decide +kernel
theorem fmtKeyFile_eq : fmtKeyFile = [35, 32, 99, 114, 101, 97, 116, 101, 100, 58, 32, 37, 115, 10, 35, 32, 112, 117, 98, 108, 105, 99, 32, 107, 101, 121, 58, 32, 37, 115, 10, 37, 115, 10] := by
  decide +kernel

theorem keygen_generate_tie (out : ζ) (t0 : τ) :
    keygen_generate G Fd IsT stderr Rc F1 Fmt Now F2 out t0 = generateModel G Fd IsT stderr Rc F1 Fmt Now F2 out t0 := by
  simp only [keygen_generate, generateModel, fmtPublic_eq, fmtRFC3339_eq, fmtKeyFile_eq, bind, Except.bind, pure, Except.pure]
  cases hg : G t0 with
  | error e => rfl
  | ok g =>
    simp only []
    by_cases hc : (g.2.1 != none) = true
    · rw [if_pos hc, if_pos hc]; rfl
    · rw [if_neg hc, if_neg hc]
      cases hfd : Fd out g.2.2 with
      | error e => rfl
      | ok fd =>
        simp only []
        cases hit : IsT fd.1 fd.2 with
        | error e => rfl
        | ok it =>
          obtain ⟨b, t2⟩ := it
          cases b with
          | true => rfl
          | false =>
            simp only [Bool.not_false, if_true, Bool.false_eq_true, if_false]
            cases hrc : Rc g.1 t2 with
            | error e => rfl
            | ok rc =>
              simp only []
              cases hw : F1 stderr [80, 117, 98, 108, 105, 99, 32, 107, 101, 121, 58, 32, 37, 115, 10] rc.1 rc.2 with
              | error e => rfl
              | ok w => rfl

theorem keygen_bind_ok {α β : Type} {x : Go.M α} {f : α → Go.M β} {y : β} (h : (x >>= f) = .ok y) :
    ∃ a, x = .ok a ∧ f a = .ok y := by
  cases x with
  | error e => cases h
  | ok a => exact ⟨a, rfl, h⟩

/-- `generate` returns only if the key pair was generated and the ONE write of the key file text reported success -/
theorem keygen_generate_returns (out : ζ) (t0 t' : τ)
    (h : keygen_generate G Fd IsT stderr Rc F1 Fmt Now F2 out t0 = .ok t') :
    ∃ k t1, G t0 = .ok (k, none, t1) ∧
      ∃ (ts : Bytes) (rc : ρ) (t2 : τ) (n : Int), F2 out fmtKeyFile ts rc k t2 = .ok (n, none, t') := by
  rw [keygen_generate_tie] at h
  unfold generateModel at h
  obtain ⟨g, hg, h⟩ := keygen_bind_ok h
  obtain ⟨k, e, t1⟩ := g
  cases e with
  | some e => simp at h
  | none =>
    refine ⟨k, t1, hg, ?_⟩
    simp only [bne_self_eq_false, Bool.false_eq_true, if_false] at h
    obtain ⟨fd, _, h⟩ := keygen_bind_ok h
    obtain ⟨it, _, h⟩ := keygen_bind_ok h
    obtain ⟨t3, _, h⟩ := keygen_bind_ok h
    obtain ⟨nw, _, h⟩ := keygen_bind_ok h
    obtain ⟨ts, _, h⟩ := keygen_bind_ok h
    obtain ⟨rc, _, h⟩ := keygen_bind_ok h
    obtain ⟨w, hw, h⟩ := keygen_bind_ok h
    obtain ⟨n, e, t2⟩ := w
    cases e with
    | some e => simp at h
    | none =>
      simp only [bne_self_eq_false, Bool.false_eq_true, if_false] at h
      cases h
      exact ⟨ts.1, rc.1, rc.2, n, hw⟩
end generate
end GoTie
end AgeModel
