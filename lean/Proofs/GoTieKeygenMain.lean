/-
  Proofs.GoTieKeygenMain — how `age-keygen` opens its output and its input (`main` of
  cmd/age-keygen/keygen.go, from `out := os.Stdout` to the point where it dispatches on `-y`), as it
  stands in the source.

  Translated on every run (`funcSpec.startAt` / `stopAt`; the flag parsing before and the dispatch
  after are outside the fragment; `funcSpec.world`). The `-o` file is opened — before the input is
  even looked at — by ONE call `os.OpenFile(name, O_WRONLY|O_CREATE|O_EXCL, 0600)` (193 and 384 on
  the platform the checks run on: an existing file is never opened, a new one is readable by its
  owner only), a failure of which ends the process; without `-o` nothing is opened for writing.
-/
import AgeModel.GoSem
import AgeModel.Extracted.Funcs
namespace AgeModel
namespace GoTie
open Extracted

section
variable {ζ τ : Type} (nilZ stdout stdin : ζ)
  (OF : Bytes → Int → UInt32 → τ → Go.M (ζ × Option Go.Err × τ))
  (Arg : Int → τ → Go.M (Bytes × τ)) (Op : Bytes → τ → Go.M (ζ × Option Go.Err × τ))

/-- `O_WRONLY|O_CREATE|O_EXCL` and `0600` -/
theorem keygen_flags : (193 : Int) = 1 + 64 + 128 ∧ (384 : UInt32) = 6 * 64 := by decide

/-- the input side: `flag.Arg(0)`, opened unless empty or "-" -/
def keygenOpenIn (out : ζ) (t : τ) : Go.M (τ × Option ζ × Option ζ) := do
  let a ← Arg 0 t
  if (a.1 != ([] : Bytes) && a.1 != ([45] : Bytes)) = true then do
    let o ← Op a.1 a.2
    if (o.2.1 != none) = true then .error (.panic 1001) else pure (o.2.2, some out, some o.1)
  else pure (a.2, some out, some stdin)

theorem keygen_open_tie (convertFlag : Bool) (outFlag : Bytes) (t0 : τ) :
    keygen_main nilZ stdout OF stdin Arg Op convertFlag outFlag t0 =
      if outFlag = [] then keygenOpenIn stdin Arg Op stdout t0
      else (do
        let f ← OF outFlag 193 384 t0
        if (f.2.1 != none) = true then .error (.panic 1000)
        else keygenOpenIn stdin Arg Op f.1 f.2.2) := by
  by_cases ho : outFlag = []
  · subst ho
    simp only [keygen_main, keygenOpenIn, bind, Except.bind, pure, Except.pure, bne_self_eq_false, Bool.false_eq_true, if_false, if_true]
    cases h1 : Arg 0 t0 with
    | error f => rfl
    | ok a =>
      simp only []
      by_cases hc : (a.1 != ([] : Bytes) && a.1 != ([45] : Bytes)) = true
      · simp only [hc, if_true]
        cases h2 : Op a.1 a.2 with
        | error f => rfl
        | ok o =>
          simp only []
          by_cases he : (o.2.1 != none) = true
          · simp [he]; rfl
          · simp [he]
      · simp [hc]
  · have hb : (outFlag != ([] : Bytes)) = true := by simpa using ho
    simp only [keygen_main, keygenOpenIn, bind, Except.bind, pure, Except.pure, hb, ho, if_true, if_false]
    cases h0 : OF outFlag 193 384 t0 with
    | error f => rfl
    | ok f =>
      simp only []
      by_cases hf : (f.2.1 != none) = true
      · simp [hf]; rfl
      · simp only [hf, if_false]
        cases h1 : Arg 0 f.2.2 with
        | error g => rfl
        | ok a =>
          simp only []
          by_cases hc : (a.1 != ([] : Bytes) && a.1 != ([45] : Bytes)) = true
          · simp only [hc, if_true]
            cases h2 : Op a.1 a.2 with
            | error g => rfl
            | ok o =>
              simp only []
              by_cases he : (o.2.1 != none) = true
              · simp [he]; rfl
              · simp [he]
          · simp [hc]

/-- `os.OpenFile` is never called with other flags or another mode: replacing it by anything that agrees with it on
    `(·, O_WRONLY|O_CREATE|O_EXCL, 0600, ·)` changes nothing -/
theorem keygen_open_flags (OF' : Bytes → Int → UInt32 → τ → Go.M (ζ × Option Go.Err × τ))
    (h : ∀ n t, OF n 193 384 t = OF' n 193 384 t) (convertFlag : Bool) (outFlag : Bytes) (t0 : τ) :
    keygen_main nilZ stdout OF stdin Arg Op convertFlag outFlag t0 =
      keygen_main nilZ stdout OF' stdin Arg Op convertFlag outFlag t0 := by
  rw [keygen_open_tie, keygen_open_tie, h]

/-- without `-o` nothing is opened for writing -/
theorem keygen_no_o_no_open (convertFlag : Bool) (t0 : τ) :
    keygen_main nilZ stdout OF stdin Arg Op convertFlag [] t0 =
      keygen_main nilZ stdout (fun _ _ _ _ => .error (.panic 77)) stdin Arg Op convertFlag [] t0 := by
  rw [keygen_open_tie, keygen_open_tie]; rfl

end
end GoTie
end AgeModel
