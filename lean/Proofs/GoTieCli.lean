/-
  Proofs.GoTieCli — which parser the command line hands an argument to, as it stands in the source.

  `parseRecipient` and `parseIdentity` of cmd/age/parse.go are TRANSLATED on every run; the
  constructors they route to (`plugin.NewRecipient`, `age.ParseX25519Recipient`,
  `agessh.ParseRecipient`, `plugin.NewIdentity`, `age.ParseX25519Identity`) are parameters. The
  theorems give the routing for EVERY argument, in the shape of the model's `Keys.cliParseRecipient`
  / `cliParseIdentity`: a plugin client is constructed exactly for arguments that start with "age1"
  and contain a second "1" (resp. start with "AGE-PLUGIN-"); handed a plugin constructor that FAULTS
  when called, the translated code still returns normally for every other argument.
-/
import AgeModel.GoSem
import AgeModel.Keys
import AgeModel.Extracted.Funcs
namespace AgeModel
namespace GoTie
open Extracted Keys

theorem countFrom_byte (c : UInt8) : ∀ (s : Bytes) (fuel : Nat), s.length < fuel → Go.countFrom [c] fuel s = s.count c := by
  intro s
  induction s with
  | nil => intro fuel h; cases fuel with
    | zero => omega
    | succ f => simp [Go.countFrom]
  | cons x xs ih =>
    intro fuel h
    cases fuel with
    | zero => omega
    | succ f =>
      have hf : xs.length < f := by simp at h; omega
      by_cases hx : x = c
      · subst hx
        have hp : ([x] : Bytes).isPrefixOf (x :: xs) = true := by simp
        simp only [Go.countFrom, hp, if_true, List.length_singleton, List.drop_succ_cons, List.drop_zero, ih f hf, List.count_cons_self]
        omega
      · have hp : ([c] : Bytes).isPrefixOf (x :: xs) = false := by
          simp only [List.isPrefixOf, Bool.and_eq_false_imp]
          intro h'; simp at h'; exact absurd h'.symm hx
        simp only [Go.countFrom, hp, Bool.false_eq_true, if_false, ih f hf]
        rw [List.count_cons_of_ne hx]

theorem strings_Count_byte (s : Bytes) (c : UInt8) : Go.strings_Count s [c] = Int.ofNat (countByte s c) := by
  simp only [Go.strings_Count, List.cons_ne_nil, if_false, countByte, reduceCtorEq]
  rw [countFrom_byte c s (s.length + 1) (by omega)]

theorem cli_parseRecipient_tie {ρ υ : Type} (NR : Bytes → υ → Go.M (ρ × Option Go.Err)) (ui : υ)
    (PX PS : Bytes → Go.M (ρ × Option Go.Err)) (nilρ : ρ) (arg : Bytes) :
    main_parseRecipient NR ui PX PS nilρ arg =
      if (hasPrefix arg pfxAge1 && decide (countByte arg 0x31 > 1)) = true then NR arg ui
      else if hasPrefix arg pfxAge1 = true then PX arg
      else if hasPrefix arg pfxSsh = true then PS arg
      else if hasPrefix arg pfxGithub = true then .ok (nilρ, some ⟨"main.gitHubRecipientError", 0, []⟩)
      else .ok (nilρ, some ⟨"main.parseRecipient", 0, []⟩) := by
  have hc : decide (Go.strings_Count arg [49] > (1 : Int)) = decide (countByte arg 0x31 > 1) := by
    rw [strings_Count_byte]
    simp only [Int.ofNat_eq_natCast, gt_iff_lt, decide_eq_decide]
    constructor <;> intro h <;> omega
  unfold main_parseRecipient
  simp only [hc]
  simp only [Go.strings_HasPrefix, hasPrefix, pfxAge1, pfxSsh, pfxGithub, Go.strings_TrimPrefix, bind, Except.bind, pure, Except.pure]
  by_cases h1 : (([97, 103, 101, 49] : Bytes).isPrefixOf arg && decide (countByte arg 49 > 1)) = true
  · simp only [h1, if_true]
    cases NR arg ui <;> rfl
  · simp only [h1, Bool.false_eq_true, if_false]
    by_cases h2 : ([97, 103, 101, 49] : Bytes).isPrefixOf arg = true
    · simp only [h2, if_true]
      cases PX arg <;> rfl
    · simp only [h2, Bool.false_eq_true, if_false]
      by_cases h3 : ([115, 115, 104, 45] : Bytes).isPrefixOf arg = true
      · simp only [h3, if_true]
        cases PS arg <;> rfl
      · simp only [h3, Bool.false_eq_true, if_false]
        by_cases h4 : ([103, 105, 116, 104, 117, 98, 58] : Bytes).isPrefixOf arg = true
        · simp only [h4, if_true]
        · simp only [h4, Bool.false_eq_true, if_false]

theorem cli_parseIdentity_tie {ι υ : Type} (NI : Bytes → υ → Go.M (ι × Option Go.Err)) (ui : υ)
    (PX : Bytes → Go.M (ι × Option Go.Err)) (nilι : ι) (s : Bytes) :
    main_parseIdentity NI ui PX nilι s =
      if hasPrefix s pfxPlugin = true then NI s ui
      else if hasPrefix s pfxSecret1 = true then PX s
      else .ok (nilι, some ⟨"main.parseIdentity", 0, []⟩) := by
  unfold main_parseIdentity
  have hs : pfxSecret1 = [65, 71, 69, 45, 83, 69, 67, 82, 69, 84, 45, 75, 69, 89, 45, 49] := rfl
  simp only [Go.strings_HasPrefix, hasPrefix, pfxPlugin, hs, bind, Except.bind, pure, Except.pure]
  by_cases h1 : ([65, 71, 69, 45, 80, 76, 85, 71, 73, 78, 45] : Bytes).isPrefixOf s = true
  · simp only [h1, if_true]
    cases NI s ui <;> rfl
  · simp only [h1, Bool.false_eq_true, if_false]
    by_cases h2 : ([65, 71, 69, 45, 83, 69, 67, 82, 69, 84, 45, 75, 69, 89, 45, 49] : Bytes).isPrefixOf s = true
    · simp only [h2, if_true]
      cases PX s <;> rfl
    · simp only [h2, Bool.false_eq_true, if_false]

/-- no plugin client is constructed for an argument that is not of the plugin form: the
    constructor may fault when called, the function still returns whatever the other parser says -/
theorem cli_native_no_plugin {ρ υ : Type} (ui : υ) (PX PS : Bytes → Go.M (ρ × Option Go.Err)) (nilρ : ρ) (arg : Bytes)
    (h : (hasPrefix arg pfxAge1 && decide (countByte arg 0x31 > 1)) = false) :
    main_parseRecipient (fun _ _ => .error (.panic 99)) ui PX PS nilρ arg =
      if hasPrefix arg pfxAge1 = true then PX arg
      else if hasPrefix arg pfxSsh = true then PS arg
      else if hasPrefix arg pfxGithub = true then .ok (nilρ, some ⟨"main.gitHubRecipientError", 0, []⟩)
      else .ok (nilρ, some ⟨"main.parseRecipient", 0, []⟩) := by
  rw [cli_parseRecipient_tie, h]
  simp

end GoTie
end AgeModel
