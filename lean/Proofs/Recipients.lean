/-
  Proofs.Recipients — for each native recipient type: the identity unwraps the
  stanza its recipient wrapped; stanzas of other types are answered "incorrect";
  wrapped stanzas are well formed.
-/
import AgeModel.File
import Proofs.FormatParse
namespace AgeModel
open Format B64

/-! ### valid strings -/

theorem alpha_valid (n : Nat) (h : n < 64) : 33 ≤ (alpha n).toNat ∧ (alpha n).toNat ≤ 126 := by
  have h1 : (alpha n).toNat = alphaN n := by unfold alpha; exact u8r _ (alphaN_lt n h)
  have := alphaN_range n h
  omega

theorem encRaw_valid (b : Bytes) (hb : b ≠ []) : validString (encRaw b) = true := by
  unfold validString
  simp only [Bool.and_eq_true, Bool.not_eq_true', List.all_eq_true, decide_eq_true_eq]
  constructor
  · have := encRaw_length b
    have hpos : 0 < b.length := List.length_pos_iff.mpr hb
    cases h : encRaw b with
    | nil => rw [h] at this; simp at this; omega
    | cons x xs => rfl
  · intro c hc
    obtain ⟨n, hn, rfl⟩ := encRaw_chars b c hc
    have := alpha_valid n hn
    omega

def wfOk (n : Nat) : Bool := parseWorkFactor (natToDec n) == some n && validString (natToDec n)

theorem wfOk_all : ∀ n, n < 31 → (1 ≤ n → wfOk n = true) := by decide +kernel

theorem workFactor_roundtrip (n : Nat) (h1 : 1 ≤ n) (h30 : n ≤ 30) :
    parseWorkFactor (natToDec n) = some n ∧ validString (natToDec n) = true := by
  have := wfOk_all n (by omega) h1
  unfold wfOk at this
  simpa using this

/-! ### X25519 -/

theorem x25519_wrap_unwrap (P : Prims) (hP : P.Correct) (sk pk eph fk : Bytes) (st : Stanza)
    (hpk : P.x25519 sk P.basepoint = some pk) (hfk : fk.length = fileKeySize)
    (hw : wrapX25519 P pk eph fk = some st) :
    unwrapX25519 P sk st = .key fk := by
  unfold wrapX25519 at hw
  cases ho : P.x25519 eph P.basepoint with
  | none => simp [ho] at hw
  | some ourPub =>
  cases hs : P.x25519 eph pk with
  | none => simp [ho, hs] at hw
  | some shared =>
  simp only [ho, hs, Option.bind_eq_bind, Option.bind_some, Option.pure_def, Option.some.injEq] at hw
  subst hw
  have hlen := hP.x25519_len _ _ _ ho
  have hcomm := hP.dh_comm eph sk ourPub pk ho hpk
  rw [hs] at hcomm
  unfold unwrapX25519
  simp only [ne_eq, not_true_eq_false, if_false, decodeString_enc, hlen, ← hcomm, hpk, Option.getD_some]
  unfold aeadDecryptSized Prims.wrapSeal Prims.wrapOpen
  rw [hP.aead.seal_len, hP.aead.open_seal]
  simp [hfk]

theorem x25519_other_type (P : Prims) (sk : Bytes) (s : Stanza) (h : s.type ≠ tX25519) :
    unwrapX25519 P sk s = .incorrect := by
  unfold unwrapX25519; simp [h]

theorem wrapX25519_wf (P : Prims) (hP : P.Correct) (pk eph fk : Bytes) (st : Stanza)
    (hw : wrapX25519 P pk eph fk = some st) : st.WF := by
  unfold wrapX25519 at hw
  cases ho : P.x25519 eph P.basepoint with
  | none => simp [ho] at hw
  | some ourPub =>
  cases hs : P.x25519 eph pk with
  | none => simp [ho, hs] at hw
  | some shared =>
  simp only [ho, hs, Option.bind_eq_bind, Option.bind_some, Option.pure_def, Option.some.injEq] at hw
  subst hw
  have hlen := hP.x25519_len _ _ _ ho
  refine ⟨by simp only; decide, ?_⟩
  intro a ha
  simp only [List.mem_singleton] at ha
  subst ha
  exact encRaw_valid ourPub (by intro e; rw [e] at hlen; simp at hlen)

/-! ### scrypt -/

theorem scrypt_wrap_unwrap (P : Prims) (hP : P.Correct) (pw salt fk : Bytes) (logN maxWF : Nat)
    (h1 : 1 ≤ logN) (h30 : logN ≤ 30) (hmax : logN ≤ maxWF)
    (hsalt : salt.length = scryptSaltSize) (hfk : fk.length = fileKeySize) :
    unwrapScrypt P pw maxWF (wrapScrypt P pw logN salt fk) = (.key fk, [logN]) := by
  unfold unwrapScrypt wrapScrypt
  have hwf := (workFactor_roundtrip logN h1 h30).1
  have hnot : ¬ logN > maxWF := by omega
  simp only [ne_eq, not_true_eq_false, if_false, decodeString_enc, hsalt, hwf, hnot]
  unfold aeadDecryptSized Prims.wrapSeal Prims.wrapOpen
  rw [hP.aead.seal_len, hP.aead.open_seal]
  simp [hfk]

theorem wrapScrypt_wf (P : Prims) (pw salt fk : Bytes) (logN : Nat) (h1 : 1 ≤ logN) (h30 : logN ≤ 30)
    (hsalt : salt.length = scryptSaltSize) : (wrapScrypt P pw logN salt fk).WF := by
  unfold wrapScrypt
  refine ⟨by simp only; decide, ?_⟩
  intro a ha
  simp only [List.mem_cons, List.not_mem_nil, or_false] at ha
  rcases ha with rfl | rfl
  · exact encRaw_valid salt (by intro e; rw [e] at hsalt; simp [scryptSaltSize] at hsalt)
  · exact (workFactor_roundtrip logN h1 h30).2

/-! ### ssh-ed25519 -/

theorem sshTag_valid (P : Prims) (hP : P.Correct) (wire : Bytes) : validString (sshTag P wire) = true := by
  unfold sshTag
  apply encRaw_valid
  intro e
  have := hP.sha256_len wire
  have h2 : ((P.sha256 wire).take 4).length = 4 := by rw [List.length_take]; omega
  rw [e] at h2; simp at h2

theorem sshEd_wrap_unwrap (P : Prims) (hP : P.Correct) (wire sk pk eph fk : Bytes) (st : Stanza)
    (hpk : P.x25519 sk P.basepoint = some pk)
    (hw : wrapSshEd P wire pk eph fk = some st) :
    unwrapSshEd P wire sk st = .key fk := by
  unfold wrapSshEd at hw
  cases ho : P.x25519 eph P.basepoint with
  | none => simp [ho] at hw
  | some ourPub =>
  cases hs : P.x25519 eph pk with
  | none => simp [ho, hs] at hw
  | some shared =>
  simp only [ho, hs, Option.bind_eq_bind, Option.bind_some, Option.pure_def, Option.some.injEq] at hw
  subst hw
  have hlen := hP.x25519_len _ _ _ ho
  have hcomm := hP.dh_comm eph sk ourPub pk ho hpk
  rw [hs] at hcomm
  unfold unwrapSshEd
  simp only [ne_eq, not_true_eq_false, if_false, decodeString_enc, hlen, ← hcomm, hpk, Option.getD_some]
  unfold Prims.wrapSeal Prims.wrapOpen
  rw [hP.aead.open_seal]

theorem sshEd_other_tag (P : Prims) (wire sk : Bytes) (s : Stanza) (a : Bytes) (tag pkb : Bytes)
    (ht : s.type = tSshEd) (hargs : s.args = [tag, a]) (hd : decodeString a = some pkb) (hl : pkb.length = 32)
    (hne : tag ≠ sshTag P wire) : unwrapSshEd P wire sk s = .incorrect := by
  unfold unwrapSshEd
  simp [ht, hargs, hd, hl, hne]

theorem sshEd_other_type (P : Prims) (wire sk : Bytes) (s : Stanza) (h : s.type ≠ tSshEd) :
    unwrapSshEd P wire sk s = .incorrect := by
  unfold unwrapSshEd; simp [h]

theorem wrapSshEd_wf (P : Prims) (hP : P.Correct) (wire pk eph fk : Bytes) (st : Stanza)
    (hw : wrapSshEd P wire pk eph fk = some st) : st.WF := by
  unfold wrapSshEd at hw
  cases ho : P.x25519 eph P.basepoint with
  | none => simp [ho] at hw
  | some ourPub =>
  cases hs : P.x25519 eph pk with
  | none => simp [ho, hs] at hw
  | some shared =>
  simp only [ho, hs, Option.bind_eq_bind, Option.bind_some, Option.pure_def, Option.some.injEq] at hw
  subst hw
  have hlen := hP.x25519_len _ _ _ ho
  refine ⟨by simp only; decide, ?_⟩
  intro a ha
  simp only [List.mem_cons, List.not_mem_nil, or_false] at ha
  rcases ha with rfl | rfl
  · exact sshTag_valid P hP wire
  · exact encRaw_valid ourPub (by intro e; rw [e] at hlen; simp at hlen)

/-! ### ssh-rsa -/

theorem sshRsa_wrap_unwrap (P : Prims) (hP : P.Correct) (wire pub priv seed fk : Bytes) (st : Stanza)
    (hpair : P.rsaPair pub priv) (hw : wrapSshRsa P wire pub seed fk = some st) :
    unwrapSshRsa P wire priv st = .key fk := by
  unfold wrapSshRsa at hw
  cases hc : P.oaepEnc pub seed fk oaepLabel with
  | none => simp [hc] at hw
  | some c =>
  simp only [hc, Option.bind_eq_bind, Option.bind_some, Option.pure_def, Option.some.injEq] at hw
  subst hw
  unfold unwrapSshRsa
  simp [hP.oaep pub priv hpair seed fk oaepLabel c hc]

theorem sshRsa_other_type (P : Prims) (wire priv : Bytes) (s : Stanza) (h : s.type ≠ tSshRsa) :
    unwrapSshRsa P wire priv s = .incorrect := by
  unfold unwrapSshRsa; simp [h]

theorem sshRsa_other_tag (P : Prims) (wire priv : Bytes) (s : Stanza) (tag : Bytes)
    (ht : s.type = tSshRsa) (hargs : s.args = [tag]) (hne : tag ≠ sshTag P wire) :
    unwrapSshRsa P wire priv s = .incorrect := by
  unfold unwrapSshRsa; simp [ht, hargs, hne]

theorem wrapSshRsa_wf (P : Prims) (hP : P.Correct) (wire pub seed fk : Bytes) (st : Stanza)
    (hw : wrapSshRsa P wire pub seed fk = some st) : st.WF := by
  unfold wrapSshRsa at hw
  cases hc : P.oaepEnc pub seed fk oaepLabel with
  | none => simp [hc] at hw
  | some c =>
  simp only [hc, Option.bind_eq_bind, Option.bind_some, Option.pure_def, Option.some.injEq] at hw
  subst hw
  refine ⟨by simp only; decide, ?_⟩
  intro a ha
  simp only [List.mem_singleton] at ha
  subst ha
  exact sshTag_valid P hP wire

theorem scrypt_other_type (P : Prims) (pw : Bytes) (m : Nat) (s : Stanza) (h : s.type ≠ tScrypt) :
    unwrapScrypt P pw m s = (.incorrect, []) := by
  unfold unwrapScrypt; simp [h]

/-! ### multiUnwrap -/

/-- the identity's own stanza is found behind any stanzas it answers "incorrect" to -/
theorem multiUnwrap_skip (f : Stanza → UnwrapResult) (before after : List Stanza) (own : Stanza) (k : Bytes)
    (hb : ∀ s ∈ before, f s = .incorrect) (ho : f own = .key k) :
    multiUnwrap f (before ++ own :: after) = .key k := by
  induction before with
  | nil => simp [multiUnwrap, ho]
  | cons s ss ih =>
    simp only [List.cons_append, multiUnwrap, hb s (by simp)]
    exact ih (fun x hx => hb x (by simp [hx]))

theorem multiUnwrap_all_incorrect (f : Stanza → UnwrapResult) (ss : List Stanza)
    (h : ∀ s ∈ ss, f s = .incorrect) : multiUnwrap f ss = .incorrect := by
  induction ss with
  | nil => rfl
  | cons s ss ih =>
    simp only [multiUnwrap, h s (by simp)]
    exact ih (fun x hx => h x (by simp [hx]))

end AgeModel
