/-
  Proofs.ScryptEquiv — Decrypt depends on each identity only through its Unwrap
  function; two passphrases that the key derivation does not tell apart are the
  same identity (used by the C04 finding K1).
-/
import AgeModel.File
namespace AgeModel
open Format

/-- two identities that answer alike on every stanza list (and hand back an empty key the same way) -/
def SameUnwrap (P : Prims) (i j : Identity) : Prop := (∀ ss, i.unwrap P ss = j.unwrap P ss) ∧ i.emptyNonNil = j.emptyNonNil

/-- two identity lists that are position by position alike -/
inductive SameIds (P : Prims) : List Identity → List Identity → Prop
  | nil : SameIds P [] []
  | cons {i j is js} : SameUnwrap P i j → SameIds P is js → SameIds P (i :: is) (j :: js)

theorem identityLoop_congr (P : Prims) (ss : List Stanza) : ∀ (ids ids' : List Identity),
    SameIds P ids ids' → ∀ a c, identityLoop P ss ids a c = identityLoop P ss ids' a c := by
  intro ids ids' h
  induction h with
  | nil => intro a c; rfl
  | cons hij _ ih =>
    intro a c
    simp only [identityLoop, hij.1 ss]
    split
    · exact ih _ _
    · rfl
    · rfl

theorem countIncorrect_congr (P : Prims) (ss : List Stanza) : ∀ (ids ids' : List Identity),
    SameIds P ids ids' → countIncorrect P ss ids = countIncorrect P ss ids' := by
  intro ids ids' h
  induction h with
  | nil => rfl
  | cons hij _ ih =>
    simp only [countIncorrect, hij.1 ss]
    split
    · rw [ih]
    · rfl

theorem endsNonNil_congr (P : Prims) (ss : List Stanza) : ∀ (ids ids' : List Identity),
    SameIds P ids ids' → endsNonNil P ss ids = endsNonNil P ss ids' := by
  intro ids ids' h
  induction h with
  | nil => rfl
  | cons hij _ ih =>
    simp only [endsNonNil, hij.1 ss, hij.2]
    split
    · rw [ih]
    · rfl
    · rfl

theorem decryptInit_congr (P : Prims) (ids ids' : List Identity) (h : SameIds P ids ids') (file : Bytes) :
    decryptInit P ids file = decryptInit P ids' file := by
  unfold decryptInit
  have he : ids.isEmpty = ids'.isEmpty := by cases h <;> rfl
  rw [he]
  split
  · rfl
  · split
    · rfl
    · rename_i hdr payload _
      rw [identityLoop_congr P hdr.stanzas ids ids' h, countIncorrect_congr P hdr.stanzas ids ids' h,
        endsNonNil_congr P hdr.stanzas ids ids' h]

theorem unwrapScrypt_congr (P : Prims) (pw pw' : Bytes) (m : Nat)
    (hP : ∀ salt n, P.scrypt pw' salt n = P.scrypt pw salt n) (s : Stanza) :
    unwrapScrypt P pw' m s = unwrapScrypt P pw m s := by
  unfold unwrapScrypt
  simp only [hP]

theorem scryptIdentity_same (P : Prims) (pw pw' : Bytes) (m : Nat)
    (hP : ∀ salt n, P.scrypt pw' salt n = P.scrypt pw salt n) :
    SameUnwrap P (.scrypt pw' m) (.scrypt pw m) := by
  refine ⟨?_, rfl⟩
  intro ss
  unfold Identity.unwrap Identity.unwrapLog
  have : unwrapScrypt P pw' m = unwrapScrypt P pw m := funext (unwrapScrypt_congr P pw pw' m hP)
  simp only [this]

end AgeModel
