/-
  Proofs.ArmorWrite — the armored writer machine emits exactly `armor (concatenation)`.
-/
import Proofs.ArmorRead
import Proofs.File
namespace AgeModel
namespace Armor
open Format (nl cr sp wrap wrap_short wrap_app64)
open B64 Stream

/-! ### column wrapping -/

theorem wrapCols_snd : ∀ (c : Bytes) (w : Nat), (wrapCols w c).2 = w + c.length
  | [], w => by simp [wrapCols]
  | x :: xs, w => by
    simp only [wrapCols]
    have := wrapCols_snd xs (w + 1)
    split <;> simp only [this, List.length_cons] <;> omega

theorem wrapCols_append : ∀ (a b : Bytes) (w : Nat),
    (wrapCols w (a ++ b)).1 = (wrapCols w a).1 ++ (wrapCols (w + a.length) b).1
  | [], b, w => by simp [wrapCols]
  | x :: xs, b, w => by
    simp only [List.cons_append, wrapCols]
    have := wrapCols_append xs b (w + 1)
    have e : w + 1 + xs.length = w + (x :: xs).length := by simp only [List.length_cons]; omega
    rw [e] at this
    split <;> simp [this]

theorem wrapCols_short : ∀ (c : Bytes) (w : Nat), w % 64 + c.length < 64 → (wrapCols w c).1 = c
  | [], w, _ => by simp [wrapCols]
  | x :: xs, w, h => by
    simp only [wrapCols]
    simp only [List.length_cons] at h
    have hne : ¬ (w + 1) % 64 = 0 := by omega
    simp only [hne, if_false]
    rw [wrapCols_short xs (w + 1) (by omega)]

theorem wrapCols_fill : ∀ (c : Bytes) (w : Nat), c ≠ [] → w % 64 + c.length = 64 → (wrapCols w c).1 = c ++ [nl]
  | [], w, h, _ => absurd rfl h
  | [x], w, _, h => by
    simp only [List.length_cons, List.length_nil] at h
    have : (w + 1) % 64 = 0 := by omega
    simp [wrapCols, this]
  | x :: y :: ys, w, _, h => by
    simp only [List.length_cons] at h
    rw [wrapCols]
    have hne : ¬ (w + 1) % 64 = 0 := by omega
    simp only [hne, if_false]
    rw [wrapCols_fill (y :: ys) (w + 1) (by simp) (by simp only [List.length_cons]; omega)]
    simp

theorem wrapCols_wrap (c : Bytes) : ∀ (w : Nat), w % 64 = 0 → (wrapCols w c).1 = wrap c := by
  induction h : c.length using Nat.strongRecOn generalizing c with
  | _ n ih =>
    intro w hw
    by_cases hlt : c.length < 64
    · rw [wrap_short hlt, wrapCols_short c w (by omega)]
    · have hsplit : c = c.take 64 ++ c.drop 64 := (List.take_append_drop 64 c).symm
      have ht : (c.take 64).length = 64 := by rw [List.length_take]; omega
      conv => lhs; rw [hsplit]
      rw [wrapCols_append, wrapCols_fill (c.take 64) w (by intro e; rw [e] at ht; simp at ht) (by omega)]
      conv => rhs; rw [hsplit]
      rw [wrap_app64 ht, ih (c.drop 64).length (by rw [List.length_drop]; omega) (c.drop 64) rfl (w + (c.take 64).length) (by omega)]
      simp

/-! ### the writer invariant -/

variable {S : DstSpec}

/-- `D` = everything successfully written so far -/
def AInv (acc0 : Bytes) (a : AWriter S) (D : Bytes) : Prop :=
  a.closed = false ∧ a.encErr = false ∧
  a.pending = D.drop (D.length / 3 * 3) ∧ a.written = (encStd (D.take (D.length / 3 * 3))).length ∧
  (a.started = true → a.dst.acc = acc0 ++ header ++ [nl] ++ wrap (encStd (D.take (D.length / 3 * 3)))) ∧
  (a.started = false → D = [] ∧ a.dst.acc = acc0)

theorem AInv_new (d : Dst S) : AInv d.acc (AWriter.new d) [] := by
  simp [AInv, AWriter.new, encStd]

theorem take_split (D p : Bytes) :
    let k := D.length / 3 * 3
    let data := D.drop k ++ p
    let k2 := data.length / 3 * 3
    (D ++ p).length / 3 * 3 = k + k2 ∧
    (D ++ p).take (k + k2) = D.take k ++ data.take k2 ∧ (D ++ p).drop (k + k2) = data.drop k2 := by
  intro k data k2
  have hk : k ≤ D.length := by show D.length / 3 * 3 ≤ D.length; omega
  have hdl : data.length = D.length - k + p.length := by simp [data, List.length_drop]
  have hsplit : D ++ p = D.take k ++ data := by
    simp only [data]; rw [← List.append_assoc, List.take_append_drop]
  have htl : (D.take k).length = k := by rw [List.length_take]; omega
  refine ⟨?_, ?_, ?_⟩
  · rw [List.length_append]
    show (D.length + p.length) / 3 * 3 = D.length / 3 * 3 + data.length / 3 * 3
    rw [hdl]; omega
  · rw [hsplit, List.take_append, htl, List.take_of_length_le (by omega), Nat.add_sub_cancel_left]
  · rw [hsplit, List.drop_append, htl, List.drop_of_length_le (by omega), Nat.add_sub_cancel_left]
    simp

theorem ensureHeader_ok (a a1 : AWriter S) (h : a.ensureHeader = (a1, true)) :
    a1.started = true ∧ a1.closed = a.closed ∧ a1.encErr = a.encErr ∧ a1.pending = a.pending ∧ a1.written = a.written ∧
    (a.started = true → a1.dst.acc = a.dst.acc) ∧ (a.started = false → a1.dst.acc = a.dst.acc ++ header ++ [nl]) := by
  unfold AWriter.ensureHeader at h
  by_cases hst : a.started = true
  · simp only [hst, if_true, Prod.mk.injEq, and_true] at h
    subst h
    exact ⟨hst, rfl, rfl, rfl, rfl, fun _ => rfl, fun hf => by rw [hst] at hf; simp at hf⟩
  · have hst' : a.started = false := (Bool.not_eq_true _).mp hst
    simp only [hst', Bool.false_eq_true, if_false] at h
    generalize hw : a.dst.write (header ++ [nl]) = r at h
    obtain ⟨d', ok⟩ := r
    cases ok with
    | false => simp at h
    | true =>
      simp only [Prod.mk.injEq, and_true] at h
      subst h
      refine ⟨rfl, rfl, rfl, rfl, rfl, fun hf => by rw [hst'] at hf; simp at hf, fun _ => ?_⟩
      simp only
      rw [Dst.write_ok hw]; simp

theorem emit_ok (a a2 : AWriter S) (cs : Bytes) (segs : List Nat) (h : a.emit cs segs = (a2, true)) :
    a2.dst.acc = a.dst.acc ++ (wrapCols a.written cs).1 ∧ a2.written = a.written + cs.length ∧
    a2.started = a.started ∧ a2.closed = a.closed ∧ a2.encErr = a.encErr ∧ a2.pending = a.pending := by
  unfold AWriter.emit at h
  generalize hw : writeAll a.dst _ = r at h
  obtain ⟨d', ok⟩ := r
  cases ok with
  | false => simp at h
  | true =>
    simp only [Prod.mk.injEq, and_true] at h
    subst h
    refine ⟨?_, by simp only; rw [wrapCols_snd], rfl, rfl, rfl, rfl⟩
    simp only
    rw [writeAll_ok _ _ _ hw, segmentBy_flatten]

/-- the body text so far is `wrap` of the characters emitted so far -/
theorem wrap_extend (e1 e2 : Bytes) : wrap e1 ++ (wrapCols e1.length e2).1 = wrap (e1 ++ e2) := by
  have hw0 : (0 : Nat) % 64 = 0 := rfl
  rw [← wrapCols_wrap e1 0 hw0, ← wrapCols_wrap (e1 ++ e2) 0 hw0, wrapCols_append, Nat.zero_add]

theorem awrite_ok (acc0 : Bytes) (a a' : AWriter S) (D p : Bytes) (segs : List Nat)
    (hinv : AInv acc0 a D) (h : a.write p segs = (a', none)) : AInv acc0 a' (D ++ p) := by
  obtain ⟨hc, he, hp, hw, hs, hns⟩ := hinv
  unfold AWriter.write at h
  split at h
  · simp at h
  · rename_i a1 hh
    obtain ⟨h1s, h1c, h1e, h1p, h1w, h1a, h1b⟩ := ensureHeader_ok a a1 hh
    rw [he] at h1e
    simp only [h1e, Bool.false_eq_true, if_false] at h
    split at h
    · rename_i a2 hem
      simp only [Prod.mk.injEq, and_true] at h
      subst h
      obtain ⟨e1, e2, e3, e4, e5, e6⟩ := emit_ok a1 a2 _ segs hem
      have hts := take_split D p
      simp only at hts
      obtain ⟨hk, htake, hdrop⟩ := hts
      have hmod : (D.take (D.length / 3 * 3)).length % 3 = 0 := by rw [List.length_take]; omega
      -- the accumulated text before this call
      have hacc1 : a1.dst.acc = acc0 ++ header ++ [nl] ++ wrap (encStd (D.take (D.length / 3 * 3))) := by
        by_cases hst : a.started = true
        · rw [h1a hst, hs hst]
        · have hst' : a.started = false := (Bool.not_eq_true _).mp hst
          obtain ⟨hD, hacc⟩ := hns hst'
          rw [h1b hst', hacc, hD]; simp [encStd, wrap_short]
      rw [h1p, hp] at e1 e2 ⊢
      refine ⟨by simp only; rw [e4, h1c, hc], by simp only; rw [e5, h1e], ?_, ?_, ?_, ?_⟩
      · simp only; rw [hk, hdrop]
      · simp only; rw [e2, h1w, hw, hk, htake, encStd_append _ _ hmod]; simp [List.length_append]
      · intro _
        simp only
        rw [e1, hacc1, h1w, hw, hk, htake, encStd_append _ _ hmod, List.append_assoc, wrap_extend]
      · intro hf; simp only at hf; rw [e3, h1s] at hf; simp at hf
    · simp at h

theorem aclose_ok (acc0 : Bytes) (a a' : AWriter S) (D : Bytes)
    (hinv : AInv acc0 a D) (h : a.close = (a', none)) : a'.dst.acc = acc0 ++ armor D := by
  obtain ⟨hc, he, hp, hw, hs, hns⟩ := hinv
  unfold AWriter.close at h
  simp only [hc, Bool.false_eq_true, if_false] at h
  split at h
  · simp at h
  · rename_i a1 hh
    obtain ⟨h1s, h1c, h1e, h1p, h1w, h1a, h1b⟩ := ensureHeader_ok _ a1 hh
    simp only at h1e h1p h1w h1a h1b
    rw [he] at h1e
    simp only [h1e, Bool.false_eq_true, if_false] at h
    have hacc1 : a1.dst.acc = acc0 ++ header ++ [nl] ++ wrap (encStd (D.take (D.length / 3 * 3))) := by
      by_cases hst : a.started = true
      · rw [h1a hst, hs hst]
      · have hst' : a.started = false := (Bool.not_eq_true _).mp hst
        obtain ⟨hD, hacc⟩ := hns hst'
        rw [h1b hst', hacc, hD]; simp [encStd, wrap_short]
    have hD : D = D.take (D.length / 3 * 3) ++ a.pending := by rw [hp, List.take_append_drop]
    have hmod : (D.take (D.length / 3 * 3)).length % 3 = 0 := by rw [List.length_take]; omega
    have henc : encStd D = encStd (D.take (D.length / 3 * 3)) ++ encStd a.pending := by
      conv => lhs; rw [hD]
      exact encStd_append _ _ hmod
    split at h
    · simp at h
    · rename_i a2 hflush
      split at h
      · rename_i a3 hfoot
        simp only [Prod.mk.injEq, and_true] at h
        subst h
        unfold AWriter.writeFooter at hfoot
        generalize hwf : Dst.write _ _ = r at hfoot
        obtain ⟨d3, ok3⟩ := r
        simp only [Prod.mk.injEq] at hfoot
        obtain ⟨rfl, rfl⟩ := hfoot
        simp only at hwf ⊢
        rw [Dst.write_ok hwf]
        -- state after the flush
        have hfl : a2.dst.acc = acc0 ++ header ++ [nl] ++ wrap (encStd D) ∧ a2.written = (encStd D).length := by
          by_cases hpe : a1.pending.isEmpty = true
          · simp only [hpe, if_true, Prod.mk.injEq, and_true] at hflush
            subst hflush
            have hpn : a.pending = [] := by rw [← h1p]; exact List.isEmpty_iff.mp hpe
            rw [hpn, encStd, List.append_nil] at henc
            exact ⟨by rw [hacc1, henc], by rw [h1w, hw, henc]⟩
          · have hpe' : a1.pending.isEmpty = false := (Bool.not_eq_true _).mp hpe
            simp only [hpe', Bool.false_eq_true, if_false] at hflush
            obtain ⟨e1, e2, _⟩ := emit_ok a1 a2 _ [] hflush
            rw [h1p] at e1 e2
            exact ⟨by rw [e1, hacc1, h1w, hw, List.append_assoc, wrap_extend, ← henc],
              by rw [e2, h1w, hw, henc, List.length_append]⟩
        rw [hfl.1, hfl.2, armor]
        simp only [List.append_assoc]
      · simp at h

end Armor
end AgeModel
