/-
  Proofs.IO — `io.ReadFull` over any delivery schedule returns what depends only on
  the concatenation of the pieces and the kind of end, and leaves a source whose
  remaining bytes are the rest of that concatenation.
-/
import AgeModel.IO
namespace AgeModel
namespace IO

/-- the general statement, for a call that already holds `got` -/
theorem readFull_gen (n : Nat) (fail : Bool) : ∀ (ps : List Bytes) (got last : Bytes),
    let D := ps.flatten ++ last
    let r := readFull n fail got ps last
    r.1 = got ++ D.take (n - got.length) ∧
    r.2.1 = (if n ≤ got.length + D.length then Status.ok else if fail then .err
             else if (got ++ D).isEmpty then .eof else .unexpectedEOF) ∧
    r.2.2.flat = D.drop (n - got.length) ∧ r.2.2.fail = fail := by
  intro ps
  induction ps with
  | nil =>
    intro got last
    simp only [List.flatten_nil, List.nil_append]
    unfold readFull
    by_cases h1 : n ≤ got.length
    · simp only [h1, if_true]
      have : n - got.length = 0 := by omega
      refine ⟨by simp [this], by simp only [show n ≤ got.length + last.length by omega, if_true], by simp [this, Sched.flat], (by first | rfl | trivial)⟩
    · simp only [h1, if_false]
      by_cases h2 : n - got.length < last.length
      · simp only [h2, if_true]
        refine ⟨(by first | rfl | trivial), by simp only [show n ≤ got.length + last.length by omega, if_true], by simp [Sched.flat], (by first | rfl | trivial)⟩
      · simp only [h2, if_false]
        have htake : last.take (n - got.length) = last := List.take_of_length_le (by omega)
        have hdrop : last.drop (n - got.length) = [] := List.drop_of_length_le (by omega)
        by_cases h3 : n ≤ (got ++ last).length
        · simp only [h3, if_true]
          rw [List.length_append] at h3
          refine ⟨by rw [htake], by simp only [h3, if_true], by simp [Sched.flat, hdrop], (by first | rfl | trivial)⟩
        · simp only [h3, if_false]
          rw [List.length_append] at h3
          by_cases hf : fail = true
          · simp only [hf, if_true]
            refine ⟨by rw [htake], by simp only [h3, if_false, if_true], by simp [Sched.flat, hdrop], (by first | rfl | trivial)⟩
          · have hf' : fail = false := by cases fail <;> simp_all
            subst hf'
            simp only [Bool.false_eq_true, if_false]
            by_cases he : (got ++ last).isEmpty = true
            · rw [if_pos he]
              refine ⟨by rw [htake], by rw [if_pos he, if_neg h3], by simp [Sched.flat, hdrop], (by first | rfl | trivial)⟩
            · rw [if_neg he]
              refine ⟨by rw [htake], by rw [if_neg he, if_neg h3], by simp [Sched.flat, hdrop], (by first | rfl | trivial)⟩
  | cons p ps ih =>
    intro got last
    simp only [List.flatten_cons, List.append_assoc]
    unfold readFull
    by_cases h1 : n ≤ got.length
    · simp only [h1, if_true]
      have : n - got.length = 0 := by omega
      refine ⟨by simp [this], ?_, by simp [this, Sched.flat], (by first | rfl | trivial)⟩
      have : n ≤ got.length + (p ++ (ps.flatten ++ last)).length := by omega
      simp only [this, if_true]
    · simp only [h1, if_false]
      by_cases h2 : p.length ≤ n - got.length
      · simp only [h2, if_true]
        have := ih (got ++ p) last
        simp only at this
        obtain ⟨a, b, c, d⟩ := this
        have hlen : (got ++ p).length = got.length + p.length := List.length_append
        have hsub : n - (got ++ p).length = n - got.length - p.length := by rw [hlen]; omega
        refine ⟨?_, ?_, ?_, d⟩
        · rw [a, hsub, List.append_assoc]
          congr 1
          conv => rhs; rw [List.take_append, List.take_of_length_le h2]
        · rw [b]
          have e1 : (got ++ p).length + (ps.flatten ++ last).length = got.length + (p ++ (ps.flatten ++ last)).length := by
            rw [hlen, List.length_append (as := p)]; omega
          rw [e1, List.append_assoc]
        · rw [c, hsub]
          conv => rhs; rw [List.drop_append, List.drop_of_length_le h2, List.nil_append]
      · simp only [h2, if_false]
        have hlt : n - got.length < p.length := by omega
        refine ⟨?_, ?_, ?_, (by first | rfl | trivial)⟩
        · congr 1
          rw [List.take_append_of_le_length (by omega)]
        · have : n ≤ got.length + (p ++ (ps.flatten ++ last)).length := by rw [List.length_append]; omega
          simp only [this, if_true]
        · simp only [Sched.flat, List.flatten_cons, List.append_assoc]
          rw [List.drop_append_of_le_length (by omega)]

/-- **Delivery-schedule independence of `io.ReadFull`.** -/
theorem readFull_spec (n : Nat) (s : Sched) :
    let r := readFull n s.fail [] s.pieces s.last
    (r.1, r.2.1) = readFullSpec n s.flat s.fail ∧ r.2.2.flat = s.flat.drop n ∧ r.2.2.fail = s.fail := by
  have h := readFull_gen n s.fail s.pieces [] s.last
  simp only [List.length_nil, Nat.sub_zero, List.nil_append, Nat.zero_add] at h
  obtain ⟨a, b, c, d⟩ := h
  refine ⟨?_, c, d⟩
  unfold readFullSpec Sched.flat
  rw [a, b]
  by_cases h1 : n ≤ (s.pieces.flatten ++ s.last).length
  · simp only [h1, if_true]
  · simp only [h1, if_false]
    have : (s.pieces.flatten ++ s.last).take n = s.pieces.flatten ++ s.last := List.take_of_length_le (by omega)
    rw [this]
    by_cases hf : s.fail = true
    · simp only [hf, if_true]
    · simp only [hf, if_false]
      by_cases he : (s.pieces.flatten ++ s.last).isEmpty = true
      · rw [if_pos he, if_pos he]; simp
      · rw [if_neg he, if_neg he]; simp

/-- two schedules that deliver the same bytes and end alike are indistinguishable to `io.ReadFull`,
    and remain so afterwards -/
theorem readFull_schedule_irrelevant (n : Nat) (s t : Sched) (hd : s.flat = t.flat) (hf : s.fail = t.fail) :
    let r := readFull n s.fail [] s.pieces s.last
    let q := readFull n t.fail [] t.pieces t.last
    r.1 = q.1 ∧ r.2.1 = q.2.1 ∧ r.2.2.flat = q.2.2.flat ∧ r.2.2.fail = q.2.2.fail := by
  obtain ⟨a1, b1, c1⟩ := readFull_spec n s
  obtain ⟨a2, b2, c2⟩ := readFull_spec n t
  simp only at a1 a2 b1 b2 c1 c2 ⊢
  have e : readFullSpec n s.flat s.fail = readFullSpec n t.flat t.fail := by rw [hd, hf]
  rw [e, ← a2] at a1
  simp only [Prod.mk.injEq] at a1
  exact ⟨a1.1, a1.2, by rw [b1, b2, hd], by rw [c1, c2, hf]⟩

end IO
end AgeModel
