/-
  Proofs.GoTieKeygenModel — the translated `convert` and `generate` of age-keygen REFINE the
  command-line model of Props/C15 (AgeModel/Cli.lean): with the outside world read as the model's
  process state (`Cli.Proc`), a destination as the model's `KDest`, and `fmt.Fprintf(out, …)` as
  ONE `Cli.kwrite` of the formatted text (success iff the model's write succeeds), the translated
  `-y` loop IS `Cli.kwriteLines` over the recipient lines — same final process state, and it ends
  the process (exit site 3) exactly where the model's loop stops at a failed write — and the
  translated `generate` IS `kwriteLines` of the one key-file text. So `keygen_exit0_iff` and the
  other theorems of Props/C15 about `krun`'s writing phase speak about the loop in the source.
-/
import AgeModel.Cli
import Proofs.GoTieKeygen
namespace AgeModel
namespace GoTie
open Extracted Cli

/-- `fmt.Fprintf(out, "%s\n", line)` read in the model: one `kwrite` of the line and its newline -/
def kFprintfLine (eW : Go.Err) (out : KDest) (_fmt : Bytes) (rc : Bytes) (p : Proc) : Go.M (Int × Option Go.Err × Proc) :=
  let r := kwrite out p (rc ++ [10])
  .ok (if r.2 then Int.ofNat (rc.length + 1) else 0, if r.2 then none else some eW, r.1)

theorem keygen_convert_loop_refines {ι : Type} (eW : Go.Err) (isX : ι → Bool) (rcOf : ι → Bytes) (out : KDest) (ids : List ι)
    (hX : ∀ id ∈ ids, isX id = true) : ∀ (p : Proc),
    keygen_convert_loop1 isX (fun id t => .ok (rcOf id, t)) (kFprintfLine eW) out ids p =
      match kwriteLines out p (ids.map fun id => rcOf id ++ [10]) with
      | (p', true) => .ok (.next p')
      | (_, false) => .error (.panic 1003) := by
  induction ids with
  | nil => intro p; rfl
  | cons id rest ih =>
    intro p
    have hid : isX id = true := hX id (by simp)
    have hrest : ∀ i ∈ rest, isX i = true := fun i hi => hX i (by simp [hi])
    simp only [keygen_convert_loop1, kFprintfLine, List.map_cons, kwriteLines, bind, Except.bind, pure, Except.pure, hid]
    cases hw : kwrite out p (rcOf id ++ [10]) with
    | mk p1 ok =>
      cases ok with
      | true =>
        simp only [if_true, bne_self_eq_false, Bool.false_eq_true, if_false, Bool.not_true]
        exact ih hrest p1
      | false => simp; rfl

/-- `age-keygen -y`, writing phase: the translated `convert` against the model's `kwriteLines` -/
theorem keygen_convert_refines {ι : Type} (eW : Go.Err) (rcOf : ι → Bytes) (ids : List ι) (hne : ids ≠ [])
    (inp : Bytes) (out : KDest) (p : Proc) :
    keygen_convert (fun _ t => .ok (ids, none, t)) (fun _ => true) (fun id t => .ok (rcOf id, t)) (kFprintfLine eW) inp out p =
      match kwriteLines out p (ids.map fun id => rcOf id ++ [10]) with
      | (p', true) => .ok p'
      | (_, false) => .error (.panic 1003) := by
  have hlen : (Go.len ids == (0 : Int)) = false := by
    cases ids with
    | nil => exact absurd rfl hne
    | cons a r => simp [Go.len]; omega
  simp only [keygen_convert, bind, Except.bind, pure, Except.pure, bne_self_eq_false, Bool.false_eq_true, if_false, hlen]
  rw [keygen_convert_loop_refines eW (fun _ => true) rcOf out ids (fun _ _ => rfl) p]
  cases h : kwriteLines out p (ids.map fun id => rcOf id ++ [10]) with
  | mk p' ok => cases ok <;> rfl

/-- the one `Fprintf` of `generate`, read in the model: one `kwrite` of the key-file text -/
def kFprintfKey {ι : Type} (eW : Go.Err) (text : Bytes) (out : KDest) (_fmt _ts _rc : Bytes) (_k : ι) (p : Proc) :
    Go.M (Int × Option Go.Err × Proc) :=
  let r := kwrite out p text
  .ok (if r.2 then Int.ofNat text.length else 0, if r.2 then none else some eW, r.1)

/-- `age-keygen` without `-y`, writing phase: the translated `generate` against `kwriteLines` of the one key-file text; the
    copy of the public key to standard error (whatever becomes of it) leaves the modelled state alone -/
theorem keygen_generate_refines {ι θ : Type} (eW : Go.Err) (text : Bytes) (k : ι) (fd : Int) (isTerm : Bool) (rc ts : Bytes)
    (now : θ) (e1 : Option Go.Err) (n1 : Int) (stderr out : KDest) (p : Proc) :
    keygen_generate (fun t => .ok (k, none, t)) (fun _ t => .ok (fd, t)) (fun _ t => .ok (isTerm, t)) stderr
        (fun _ t => .ok (rc, t)) (fun _ _ _ t => .ok (n1, e1, t)) (fun _ _ t => .ok (ts, t)) (fun t => .ok (now, t))
        (kFprintfKey eW text) out p =
      match kwriteLines out p [text] with
      | (p', true) => .ok p'
      | (_, false) => .error (.panic 1001) := by
  rw [keygen_generate_tie]
  simp only [generateModel, kFprintfKey, kwriteLines, bind, Except.bind, pure, Except.pure, bne_self_eq_false,
    Bool.false_eq_true, if_false]
  cases isTerm <;>
  · simp only [Bool.false_eq_true, if_false, if_true]
    cases hw : kwrite out p text with
    | mk p1 ok => cases ok <;> simp <;> rfl

end GoTie
end AgeModel
