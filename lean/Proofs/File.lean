/-
  Proofs.File — Decrypt undoes Encrypt; the Impl-layer Encrypt writes exactly the
  Spec file; refusals write nothing; failures surface.
-/
import Proofs.Recipients
import Proofs.FormatTop
import Proofs.StreamWriterTop
import Proofs.StreamReaderTop
namespace AgeModel
open Format Stream

/-! ### the identity loop -/

theorem identityLoop_found (P : Prims) (ss : List Stanza) (pre post : List Identity) (id : Identity) (fk : Bytes)
    (hpre : ∀ i ∈ pre, i.unwrap P ss = .incorrect) (hid : id.unwrap P ss = .key fk) :
    ∀ n c, identityLoop P ss (pre ++ id :: post) n c = (.ok (some fk), c + pre.length + 1) := by
  induction pre with
  | nil => intro n c; simp [identityLoop, hid]
  | cons i pre ih =>
    intro n c
    simp only [List.cons_append, identityLoop, hpre i (by simp)]
    rw [ih (fun x hx => hpre x (by simp [hx]))]
    simp only [List.length_cons]
    congr 1; omega

theorem identityLoop_all_incorrect (P : Prims) (ss : List Stanza) (ids : List Identity)
    (h : ∀ i ∈ ids, i.unwrap P ss = .incorrect) :
    ∀ n c, identityLoop P ss ids n c = (.ok none, c + ids.length) ∧ countIncorrect P ss ids = ids.length := by
  induction ids with
  | nil => intro n c; simp [identityLoop, countIncorrect]
  | cons i ids ih =>
    intro n c
    have := ih (fun x hx => h x (by simp [hx])) (n+1) (c+1)
    simp only [identityLoop, countIncorrect, h i (by simp), this.1, this.2, List.length_cons]
    refine ⟨?_, by omega⟩
    congr 1; omega

/-! ### Decrypt ∘ specFile -/

theorem specFile_parse (P : Prims) (hP : P.Correct) (C : Nat) (fk nonce pt : Bytes) (stanzas : List Stanza)
    (hwf : ∀ s ∈ stanzas, s.WF) :
    parse (specFile P C fk stanzas nonce pt)
      = .ok ({ stanzas := stanzas, mac := headerMAC P fk stanzas },
             nonce ++ Stream.encrypt P.aead C (streamKey P fk nonce) pt) := by
  unfold specFile
  rw [List.append_assoc]
  exact parse_marshal _ ⟨hwf, hP.hmac_len _ _⟩ _

theorem decryptInit_specFile (P : Prims) (hP : P.Correct) (C : Nat) (fk nonce pt : Bytes) (stanzas : List Stanza)
    (hwf : ∀ s ∈ stanzas, s.WF) (hfk : fk ≠ []) (hn : nonce.length = streamNonceSize)
    (pre post : List Identity) (id : Identity)
    (hpre : ∀ i ∈ pre, i.unwrap P stanzas = .incorrect) (hid : id.unwrap P stanzas = .key fk) :
    decryptInit P (pre ++ id :: post) (specFile P C fk stanzas nonce pt)
      = (.ok (streamKey P fk nonce, Stream.encrypt P.aead C (streamKey P fk nonce) pt), pre.length + 1) := by
  unfold decryptInit
  have hne : (pre ++ id :: post).isEmpty = false := by cases pre <;> simp
  simp only [hne, Bool.false_eq_true, if_false, specFile_parse P hP C fk nonce pt stanzas hwf]
  rw [identityLoop_found P stanzas pre post id fk hpre hid 0 0]
  have hfe : fk.isEmpty = false := by cases fk with | nil => exact absurd rfl hfk | cons _ _ => rfl
  simp only [hfe, Bool.false_eq_true, if_false, ne_eq, not_true_eq_false]
  have hlen : ¬ (nonce ++ Stream.encrypt P.aead C (streamKey P fk nonce) pt).length < streamNonceSize := by
    rw [List.length_append]; omega
  simp only [hlen, if_false]
  have h1 : (nonce ++ Stream.encrypt P.aead C (streamKey P fk nonce) pt).take streamNonceSize = nonce := by
    rw [List.take_append_of_le_length (by omega)]; exact List.take_of_length_le (by omega)
  have h2 : (nonce ++ Stream.encrypt P.aead C (streamKey P fk nonce) pt).drop streamNonceSize
      = Stream.encrypt P.aead C (streamKey P fk nonce) pt := by
    rw [List.drop_append_of_le_length (by omega)]
    have : List.drop streamNonceSize nonce = [] := List.drop_of_length_le (by omega)
    simp [this]
  rw [h1, h2]
  simp

theorem decryptFile_specFile (P : Prims) (hP : P.Correct) (hN : P.aead.NonceSep) (C : Nat) (hC : 0 < C)
    (fk nonce pt : Bytes) (stanzas : List Stanza)
    (hwf : ∀ s ∈ stanzas, s.WF) (hfk : fk ≠ []) (hn : nonce.length = streamNonceSize)
    (pre post : List Identity) (id : Identity)
    (hpre : ∀ i ∈ pre, i.unwrap P stanzas = .incorrect) (hid : id.unwrap P stanzas = .key fk) :
    decryptFile P C (pre ++ id :: post) (specFile P C fk stanzas nonce pt) = .ok (pt, .eof) := by
  unfold decryptFile
  rw [decryptInit_specFile P hP C fk nonce pt stanzas hwf hfk hn pre post id hpre hid]
  simp only
  rw [stream_roundtrip P.aead hP.aead hN C hC]

/-! ### writing the header -/

theorem segmentBy_flatten : ∀ (ns : List Nat) (b : Bytes), (segmentBy ns b).flatten = b
  | _, [] => by simp [segmentBy]
  | [], c :: cs => by simp [segmentBy]
  | n :: ns, c :: cs => by
    unfold segmentBy
    split
    · exact segmentBy_flatten ns (c :: cs)
    · simp only [List.flatten_cons, segmentBy_flatten ns ((c :: cs).drop n), List.take_append_drop]
termination_by ns b => ns.length

theorem writeAll_ok {S : DstSpec} : ∀ (ps : List Bytes) (d d' : Dst S),
    writeAll d ps = (d', true) → d'.acc = d.acc ++ ps.flatten
  | [], d, d', h => by simp [writeAll] at h; subst h; simp
  | p :: ps, d, d', h => by
    unfold writeAll at h
    generalize hw : d.write p = r at h
    obtain ⟨d1, ok⟩ := r
    cases ok with
    | true =>
      simp only at h
      rw [writeAll_ok ps d1 d' h, Dst.write_ok hw]; simp
    | false => simp at h

theorem writeAll_neverFails {S : DstSpec} (hS : S.NeverFails) : ∀ (ps : List Bytes) (d : Dst S),
    (writeAll d ps).2 = true
  | [], d => rfl
  | p :: ps, d => by
    unfold writeAll
    have := Dst.write_neverFails hS d p
    generalize hw : d.write p = r at this
    obtain ⟨d1, ok⟩ := r
    simp only at this; subst this
    simp only
    exact writeAll_neverFails hS ps d1

/-- whatever happens, what the destination holds after `writeAll` extends what it held
    by a prefix of the data -/
theorem writeAll_prefix {S : DstSpec} : ∀ (ps : List Bytes) (d : Dst S),
    ∃ n, (writeAll d ps).1.acc = d.acc ++ ps.flatten.take n
  | [], d => ⟨0, by simp [writeAll]⟩
  | p :: ps, d => by
    unfold writeAll
    generalize hw : d.write p = r
    obtain ⟨d1, ok⟩ := r
    cases ok with
    | true =>
      simp only
      obtain ⟨n, hn⟩ := writeAll_prefix ps d1
      refine ⟨p.length + n, ?_⟩
      have ht : (p ++ ps.flatten).take (p.length + n) = p ++ ps.flatten.take n := by
        rw [List.take_append, List.take_of_length_le (Nat.le_add_right _ _), Nat.add_sub_cancel_left]
      rw [hn, Dst.write_ok hw, List.flatten_cons, ht, List.append_assoc]
    | false =>
      simp only
      obtain ⟨n, hn⟩ := Dst.write_acc_prefix d p
      rw [hw] at hn
      refine ⟨min n p.length, ?_⟩
      rw [hn]
      simp only [List.flatten_cons]
      rw [List.take_append_of_le_length (Nat.min_le_right _ _)]
      congr 1
      rw [List.take_eq_take_iff]
      simp [Nat.min_comm]

end AgeModel
