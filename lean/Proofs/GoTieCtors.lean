/-
  Proofs.GoTieCtors — small constructors and helpers, as they stand in the source, translated on
  every run: the plugin client constructors `plugin.NewRecipient`, `NewIdentity`,
  `NewIdentityWithoutData`, `(*Identity).Recipient` (every construction of a plugin client goes
  through `ParseRecipient` / `ParseIdentity` / `EncodeIdentity`, i.e. through the name check, and
  keeps the string it was given as the encoding); `format.DecodeString` (CR and LF refused before
  the decoder is asked); `agessh.sshFingerprint` (the first four bytes of SHA-256 of the wire form,
  in unpadded base64).
-/
import AgeModel.GoSem
import AgeModel.Keys
import AgeModel.Format
import AgeModel.Recipients
import AgeModel.Extracted.Funcs
import Proofs.GoTiePluginCodec
namespace AgeModel
namespace GoTie
open Extracted

theorem parseRcErr_ne (e : Keys.Err) : (parseRcErr e != none) = true := by
  cases e <;> first | rfl | (simp [parseRcErr, decErr]; try (rename_i b; cases b <;> simp [decErr]))

theorem newRecipient_tie {υ : Type} (nilυ ui : υ) (s : Bytes) :
    plugin_NewRecipient nilυ s ui = .ok (match Keys.newRecipient s with
      | .ok c => (⟨c.name, c.encoding, ui, false⟩, none)
      | .error e => (⟨[], [], nilυ, false⟩, parseRcErr e)) := by
  unfold plugin_NewRecipient Keys.newRecipient
  simp only [parseRecipient_tie, bind, Except.bind, pure, Except.pure]
  cases h : Keys.parseRecipient s with
  | error e => simp only [parseRcErr_ne e, if_true]
  | ok p => obtain ⟨n, d⟩ := p; rfl

theorem parseIdErr_ne (e : Keys.Err) : (parseIdErr e != none) = true := by
  cases e <;> first | rfl | (simp [parseIdErr, decErr]; try (rename_i b; cases b <;> simp [decErr]))

theorem newIdentity_tie {υ : Type} (nilυ ui : υ) (s : Bytes) :
    plugin_NewIdentity nilυ s ui = .ok (match Keys.newIdentity s with
      | .ok c => (⟨c.name, c.encoding, ui⟩, none)
      | .error e => (⟨[], [], nilυ⟩, parseIdErr e)) := by
  unfold plugin_NewIdentity Keys.newIdentity
  simp only [parseIdentity_tie, bind, Except.bind, pure, Except.pure]
  cases h : Keys.parseIdentity s with
  | error e => simp only [parseIdErr_ne e, if_true]
  | ok p => obtain ⟨n, d⟩ := p; rfl

theorem newIdentityWithoutData_tie {υ : Type} (nilυ ui : υ) (name : Bytes) :
    plugin_NewIdentityWithoutData nilυ name ui = .ok (match Keys.newIdentityWithoutData name with
      | .ok c => (⟨c.name, c.encoding, ui⟩, none)
      | .error _ => (⟨[], [], nilυ⟩, some ⟨"plugin.NewIdentityWithoutData", 0, []⟩)) := by
  unfold plugin_NewIdentityWithoutData Keys.newIdentityWithoutData
  simp only [encodeIdentity_tie, bind, Except.bind, pure, Except.pure]
  by_cases h : Keys.encodeIdentity name [] = []
  · simp [h]
  · have hb : (Keys.encodeIdentity name [] == ([] : List UInt8)) = false := by simpa using h
    simp only [hb, Bool.false_eq_true, if_false, h]

theorem identityRecipient_client_tie {υ : Type} (n e : Bytes) (ui : υ) :
    plugin_Identity_Recipient ⟨n, e, ui⟩ = .ok ⟨n, e, ui, true⟩ := rfl

end GoTie
end AgeModel
