/-
  Facts about the parts of `main` that run before anything is written:
  `prepare` (flag checks, the same-file refusal, what `out` is) and
  `operation` (parsing recipients and identities, the plan).
-/
import Proofs.CliRun
set_option linter.unusedSimpArgs false
namespace AgeModel
namespace Cli

theorem prepare_ok_valid (a : Args) (w : World) (dest : Dest) (h : prepare a w = .ok dest) :
    a.positional.length ≤ 1 ∧ flagCheck a = none ∧
      (isFileName (inputName a) = true → openRead w (inputName a) ≠ .fail) := by
  unfold prepare at h
  split at h
  · simp at h
  · rename_i hpos
    split at h
    · simp at h
    · rename_i hfc
      refine ⟨by omega, hfc, ?_⟩
      intro hin hfail
      simp [hin, hfail] at h

theorem prepare_buffered (a : Args) (w : World) (h : prepare a w = .ok .buffered) : w.stdout = .terminal := by
  unfold prepare at h
  split at h
  · simp at h
  · split at h
    · simp at h
    · split at h
      · simp at h
      · split at h
        · split at h <;> simp at h
        · split at h
          · assumption
          · simp at h

theorem prepare_lazy (a : Args) (w : World) (name : Bytes) (h : prepare a w = .ok (.lazy name)) :
    name = a.output ∧ isFileName a.output = true ∧ absPath w.cwd a.output ∉ inUseFiles a w.cwd := by
  unfold prepare at h
  split at h
  · simp at h
  · split at h
    · simp at h
    · split at h
      · simp at h
      · split at h
        · rename_i hout
          split at h
          · simp at h
          · rename_i hnot
            simp only [Except.ok.injEq, Dest.lazy.injEq] at h
            exact ⟨h.symm, hout, hnot⟩
        · split at h
          · split at h
            · simp at h
            · split at h <;> simp at h
          · simp at h

theorem prepare_not_lazy (a : Args) (w : World) (dest : Dest) (hout : isFileName a.output = false)
    (h : prepare a w = .ok dest) : ∀ name, dest ≠ .lazy name := by
  intro name e
  subst e
  have := (prepare_lazy a w name h).2.1
  rw [hout] at this
  exact Bool.noConfusion this

/-- the output names (under any spelling) a file the run reads: refused before anything is opened for writing -/
theorem prepare_same_file (a : Args) (w : World) (q : Bytes) (hout : isFileName a.output = true)
    (hq : q ∈ inUseNames a) (heq : absPath w.cwd a.output = absPath w.cwd q) : ∃ e, prepare a w = .error e := by
  have hmem : absPath w.cwd a.output ∈ inUseFiles a w.cwd := by
    unfold inUseFiles
    rw [heq]
    exact List.mem_map_of_mem hq
  unfold prepare
  split
  · exact ⟨_, rfl⟩
  · split
    · exact ⟨_, rfl⟩
    · split
      · exact ⟨_, rfl⟩
      · exact ⟨_, rfl⟩

theorem encPlan_enc (o : Oracle) (b : Bool) (ct : Bytes) (h : encPlan o b = .enc ct) : ct = o.ct := by
  unfold encPlan at h
  split at h
  · simp at h
  · split at h
    · simp at h
    · simpa using h.symm

theorem encPlan_not_dec (o : Oracle) (b : Bool) (oc : DecOutcome) : encPlan o b ≠ .dec oc := by
  unfold encPlan
  split
  · simp
  · split <;> simp

/-- the plan of a decryption is a `dec`, the plan of an encryption an `encPlan` -/
theorem operation_plan (a : Args) (w : World) (o : Oracle) (plan : Plan) (h : operation a w o = .ok plan) :
    (a.decrypt = true ∧ ∃ oc, plan = .dec oc) ∨ (a.decrypt = false ∧ ∃ b, plan = encPlan o b) := by
  unfold operation at h
  simp only at h
  split at h
  · rename_i hd
    split at h
    · simp at h
    · simp only [Except.ok.injEq] at h
      exact Or.inl ⟨hd, _, h.symm⟩
  · rename_i hd
    have hd' : a.decrypt = false := by simpa using hd
    split at h
    · split at h
      · simp only [Except.ok.injEq] at h
        exact Or.inr ⟨hd', _, h.symm⟩
      · simp at h
    · split at h
      · simp at h
      · split at h
        · simp at h
        · split at h
          · simp at h
          · simp only [Except.ok.injEq] at h
            exact Or.inr ⟨hd', _, h.symm⟩

theorem operation_enc_ne (a : Args) (w : World) (o : Oracle) (ho : o.WF) (plan : Plan)
    (h : operation a w o = .ok plan) : ∀ ct, plan = .enc ct → ct ≠ [] := by
  intro ct hct
  rcases operation_plan a w o plan h with ⟨_, oc, hp⟩ | ⟨_, b, hp⟩
  · rw [hp] at hct; simp at hct
  · rw [hp] at hct
    rw [encPlan_enc o b ct hct]
    exact ho.ct_ne

end Cli
end AgeModel
