/-
  Proofs.GoTieCliLazy — cmd/age's own passphrase identity, as it stands in the source.

  `(*LazyScryptIdentity).Unwrap` (cmd/age/encrypted_keys.go) is TRANSLATED on every run, down
  through `age.NewScryptIdentity` and `(*ScryptIdentity).Unwrap` (translated too; the primitives are
  the parameters of `ScryptEnv`). It is proved to be the model's `lazyUnwrap` with the default
  maximum work factor 22: a header in which a passphrase stanza is not alone is refused at once;
  the passphrase is asked for EXACTLY when the header is one passphrase stanza — handed a callback
  that FAULTS when called the translated code returns normally in every other case — and a wrong
  passphrase is a fatal error, not "incorrect identity".
-/
import AgeModel.GoSem
import AgeModel.CliIdent
import AgeModel.Extracted.Funcs
import Proofs.GoTieScrypt
import Proofs.GoTieScryptCtor
namespace AgeModel
namespace GoTie
open Extracted CliIdent

/-- the callback, scripted: a passphrase, or a failure -/
def cbOf (eCb : Go.Err) : Option Bytes → Go.M (Bytes × Option Go.Err)
  | some pw => .ok (pw, none)
  | none => .ok ([], some eCb)

def lazyErr (k : Nat) : Bytes × Option Go.Err := ([], some ⟨"main.(*LazyScryptIdentity).Unwrap", k, []⟩)

theorem resClass_lazyErr (k : Nat) : resClass (lazyErr k) = .fatal := by
  simp [resClass, lazyErr, age_ErrIncorrectIdentity]

theorem lazy_loop (stanzas : List age_Stanza) (ss : List Format.Stanza) :
    main_LazyScryptIdentity_Unwrap_loop1 stanzas (ss.map toGoStanza) =
      if (ss.any (fun s => s.type = tScrypt) && (Go.len stanzas != 1)) = true then .ok (.ret (lazyErr 0))
      else .ok (.next ()) := by
  induction ss with
  | nil => rfl
  | cons s ss ih =>
    have e : ((toGoStanza s).Type_ == [115, 99, 114, 121, 112, 116]) = decide (s.type = tScrypt) := by
      show (s.type == tScrypt) = decide (s.type = tScrypt)
      by_cases h : s.type = tScrypt <;> simp [h]
    simp only [List.map_cons, main_LazyScryptIdentity_Unwrap_loop1, ih, List.any_cons, e]
    by_cases h1 : s.type = tScrypt <;> by_cases h2 : (Go.len stanzas != 1) = true <;>
      simp [h1, h2, lazyErr] <;> rfl

/-- the part after the callback -/
def lazyAfter (P : Prims) (E : ScryptEnv P) (s : Format.Stanza) (t3 : Bytes × Option Go.Err) :
    Go.M (Bytes × Option Go.Err) :=
  if (t3.2 != none) = true then pure (lazyErr 1)
  else do
    let t4 ← age_NewScryptIdentity t3.1
    if (t4.2 != none) = true then pure ([], t4.2)
    else do
      let t5 ← age_ScryptIdentity_Unwrap errorsIsEq E.D E.K E.A t4.1 [toGoStanza s]
      if (← errorsIsEq t5.2 age_ErrIncorrectIdentity) then pure (lazyErr 2)
      else pure (t5.1, t5.2)

/-- header of one passphrase stanza: the callback is called, then `lazyAfter` -/
theorem lazy_one (P : Prims) (E : ScryptEnv P) (cb : Go.M (Bytes × Option Go.Err)) (s : Format.Stanza)
    (hs : s.type = tScrypt) :
    main_LazyScryptIdentity_Unwrap errorsIsEq E.D E.K E.A ⟨cb⟩ ([s].map toGoStanza) =
      cb >>= lazyAfter P E s := by
  have hl : (Go.len ([s].map toGoStanza) != 1) = false := by rw [len_map_ne_one]; simp
  have hi : Go.idx ([s].map toGoStanza) 0 = .ok (toGoStanza s) := rfl
  have ht : ((toGoStanza s).Type_ != [115, 99, 114, 121, 112, 116]) = false := by
    show (s.type != tScrypt) = false
    simp [hs]
  simp only [main_LazyScryptIdentity_Unwrap, lazy_loop, hl, hi, ht, Bool.and_false, Bool.false_eq_true, if_false,
    bind, Except.bind, pure, Except.pure]
  cases cb with
  | error e => rfl
  | ok t3 =>
    simp only [lazyAfter, bind, Except.bind, pure, Except.pure, lazyErr]
    rfl

/-- every other header: the answer is given without evaluating the callback -/
theorem lazy_other (P : Prims) (E : ScryptEnv P) (cb : Go.M (Bytes × Option Go.Err)) (ask : Option Bytes)
    (ss : List Format.Stanza) (h : ∀ s, ss = [s] → s.type ≠ tScrypt) :
    ∃ r, main_LazyScryptIdentity_Unwrap errorsIsEq E.D E.K E.A ⟨cb⟩ (ss.map toGoStanza) = .ok r ∧
      resClass r = (lazyUnwrap P ask 22 ss).1 ∧ (lazyUnwrap P ask 22 ss).2 = false := by
  by_cases hc : ss.any (fun s => s.type = tScrypt) = true ∧ ss.length ≠ 1
  · have hb : (ss.any (fun s => s.type = tScrypt) && (Go.len (ss.map toGoStanza) != 1)) = true := by
      rw [len_map_ne_one]
      simp only [Bool.and_eq_true, decide_eq_true_eq]; exact hc
    refine ⟨lazyErr 0, ?_, ?_, ?_⟩
    · simp only [main_LazyScryptIdentity_Unwrap, lazy_loop, hb, if_true, bind, Except.bind, pure, Except.pure]
    · rw [resClass_lazyErr]; simp only [lazyUnwrap, if_pos hc]
    · simp only [lazyUnwrap, if_pos hc]
  · have hb : (ss.any (fun s => s.type = tScrypt) && (Go.len (ss.map toGoStanza) != 1)) = false := by
      rw [len_map_ne_one]
      cases hx : (ss.any (fun s => s.type = tScrypt) && decide (ss.length ≠ 1)) with
      | false => rfl
      | true =>
        simp only [Bool.and_eq_true, decide_eq_true_eq] at hx
        exact absurd hx hc
    refine ⟨([], age_ErrIncorrectIdentity), ?_, ?_, ?_⟩
    · simp only [main_LazyScryptIdentity_Unwrap, lazy_loop, hb, Bool.false_eq_true, if_false,
        bind, Except.bind, pure, Except.pure]
      rcases ss with _ | ⟨s, _ | ⟨t, r⟩⟩
      · rfl
      · have hl : (Go.len ([s].map toGoStanza) != 1) = false := by rw [len_map_ne_one]; simp
        have hi : Go.idx ([s].map toGoStanza) 0 = .ok (toGoStanza s) := rfl
        have ht : ((toGoStanza s).Type_ != [115, 99, 114, 121, 112, 116]) = true := by
          show (s.type != tScrypt) = true
          simpa using h s rfl
        simp only [hl, hi, ht, Bool.false_eq_true, if_false, if_true]
      · have hl : (Go.len ((s :: t :: r).map toGoStanza) != 1) = true := by rw [len_map_ne_one]; simp
        simp only [hl, if_true]
    · rw [resClass_incorrect]
      simp only [lazyUnwrap, if_neg hc]
      rcases ss with _ | ⟨s, _ | ⟨t, r⟩⟩
      · rfl
      · simp only [if_pos (h s rfl)]
      · rfl
    · simp only [lazyUnwrap, if_neg hc]
      rcases ss with _ | ⟨s, _ | ⟨t, r⟩⟩
      · rfl
      · simp only [if_pos (h s rfl)]
      · rfl

theorem lazyUnwrap_one (P : Prims) (ask : Option Bytes) (s : Format.Stanza) (hs : s.type = tScrypt) :
    lazyUnwrap P ask 22 [s] =
      match ask with
      | none => (.fatal, true)
      | some pw =>
        if pw = [] then (.fatal, true)
        else match (Identity.unwrapLog P (.scrypt pw 22) [s]).1 with
          | .incorrect => (.fatal, true)
          | r => (r, true) := by
  have hc : ¬ (([s].any (fun s => s.type = tScrypt)) = true ∧ [s].length ≠ 1) := by simp
  simp only [lazyUnwrap, if_neg hc, hs, ne_eq, not_true_eq_false, if_false]
  cases ask with
  | none => rfl
  | some pw =>
    cases pw with
    | nil => rfl
    | cons a as =>
      simp only [newScryptIdentityOK, List.isEmpty_cons, Bool.not_false, Bool.not_true, Bool.false_eq_true, if_false,
        Identity.unwrap, reduceCtorEq]
      cases (Identity.unwrapLog P (Identity.scrypt (a :: as) 22) [s]).fst <;> rfl

theorem lazy_unwrap_tie (P : Prims) (E : ScryptEnv P) (eCb : Go.Err) (ask : Option Bytes) (ss : List Format.Stanza) :
    ∃ r, main_LazyScryptIdentity_Unwrap errorsIsEq E.D E.K E.A ⟨cbOf eCb ask⟩ (ss.map toGoStanza) = .ok r ∧
      resClass r = (lazyUnwrap P ask 22 ss).1 := by
  by_cases h : ∀ s, ss = [s] → s.type ≠ tScrypt
  · obtain ⟨r, hr, hc, _⟩ := lazy_other P E (cbOf eCb ask) ask ss h
    exact ⟨r, hr, hc⟩
  · have h' : ∃ s, ss = [s] ∧ s.type = tScrypt := by
      apply Classical.byContradiction
      intro hn
      apply h
      intro s hs ht
      exact hn ⟨s, hs, ht⟩
    obtain ⟨s, rfl, hs⟩ := h'
    rw [lazy_one P E _ s hs, lazyUnwrap_one P ask s hs]
    cases ask with
    | none =>
      exact ⟨lazyErr 1, rfl, resClass_lazyErr 1⟩
    | some pw =>
      simp only [cbOf, ok_bind, lazyAfter]
      have hn : ((none : Option Go.Err) != none) = false := rfl
      simp only [hn, Bool.false_eq_true, if_false, newScryptIdentity_tie, ok_bind]
      by_cases hp : pw = []
      · simp only [hp, if_true]
        exact ⟨_, rfl, by simp [resClass, age_ErrIncorrectIdentity]⟩
      · simp only [if_neg hp, hn, Bool.false_eq_true, if_false]
        obtain ⟨r, hr, hcl⟩ := scrypt_Unwrap_tie P E pw 22 [s]
        have hr' : age_ScryptIdentity_Unwrap errorsIsEq E.D E.K E.A ⟨pw, 22⟩ [toGoStanza s] = .ok r := hr
        simp only [hr', ok_bind, errorsIsEq]
        rw [← hcl]
        by_cases hi : r.2 = age_ErrIncorrectIdentity
        · have hb : (r.2 == age_ErrIncorrectIdentity) = true := by simp [hi]
          have hcc : resClass r = .incorrect := by simp [resClass, hi, age_ErrIncorrectIdentity]
          simp only [hb, if_true, hcc]
          exact ⟨_, rfl, resClass_lazyErr 2⟩
        · have hb : (r.2 == age_ErrIncorrectIdentity) = false := by simpa using hi
          simp only [hb, Bool.false_eq_true, if_false]
          refine ⟨_, rfl, ?_⟩
          have hcc : resClass r ≠ .incorrect := by
            simp only [resClass]
            by_cases h2 : r.2 = none <;> simp [h2, hi]
          have : resClass (r.1, r.2) = resClass r := rfl
          rw [this]
          cases hx : resClass r with
          | incorrect => exact absurd hx hcc
          | key k => rfl
          | fatal => rfl

/-- no prompt unless the header is exactly one passphrase stanza -/
theorem lazy_unwrap_no_prompt (P : Prims) (E : ScryptEnv P) (ss : List Format.Stanza)
    (h : (lazyUnwrap P none 22 ss).2 = false) :
    ∃ r, main_LazyScryptIdentity_Unwrap errorsIsEq E.D E.K E.A ⟨.error (.panic 99)⟩ (ss.map toGoStanza) = .ok r ∧
      resClass r = (lazyUnwrap P none 22 ss).1 := by
  have h' : ∀ s, ss = [s] → s.type ≠ tScrypt := by
    intro s hs ht
    subst hs
    rw [lazyUnwrap_one P none s ht] at h
    cases h
  obtain ⟨r, hr, hc, _⟩ := lazy_other P E (.error (.panic 99)) none ss h'
  exact ⟨r, hr, hc⟩

end GoTie
end AgeModel
