/-
  Proofs.GoTieFmtStr — internal/format: isValidString and splitArgs as translated are the model's
  (split out of Proofs.GoTieMisc so that a rewrite of one translated function only takes down the theorems about it)
-/
import AgeModel.GoSem
import AgeModel.Stream
import AgeModel.Format
import AgeModel.Keys
import AgeModel.Extracted.Funcs
import Proofs.GoTieRunes
namespace AgeModel
namespace GoTie
open Extracted

/-! ## internal/format -/
theorem isValidString_loop (rs : List (Int × Int)) :
    format_isValidString_loop1 rs =
      .ok (if rs.any (fun p => decide (p.2 < 33) || decide (p.2 > 126)) then .ret false else .next ()) := by
  induction rs with
  | nil => rfl
  | cons p rest ih =>
    simp only [format_isValidString_loop1, List.any_cons]
    by_cases hp : (decide (p.2 < 33) || decide (p.2 > 126)) = true
    · simp only [hp, if_true, Bool.true_or]; rfl
    · have hp' := Bool.eq_false_iff.mpr hp
      simp only [hp', Bool.false_or, ih, Bool.false_eq_true, if_false]

theorem isValidString_tie (s : Bytes) : format_isValidString s = .ok (Format.validString s) := by
  cases s with
  | nil => rfl
  | cons b rest =>
    have hl : (Go.len (b :: rest) == (0 : Int)) = false := by
      simp only [Go.len, List.length_cons, Int.ofNat_eq_natCast, beq_eq_false_iff_ne, ne_eq]; omega
    simp only [format_isValidString, hl, isValidString_loop, runes_any_bad, bind, Except.bind, pure,
      Except.pure, Bool.false_eq_true, if_false]
    have hv : Format.validString (b :: rest) = !(b :: rest).any (fun b => b < 33 || b > 126) := by
      simp only [Format.validString, List.isEmpty_cons, Bool.not_false, Bool.true_and,
        List.all_eq_not_any_not]
      congr 2
      funext c
      have h1 : decide (c < 33) = !decide (33 ≤ c.toNat) := by
        rw [← decide_not]; simp only [decide_eq_decide, UInt8.lt_iff_toNat_lt]; show c.toNat < 33 ↔ _; omega
      have h2 : decide (c > 126) = !decide (c.toNat ≤ 126) := by
        rw [← decide_not]; simp only [decide_eq_decide, gt_iff_lt, UInt8.lt_iff_toNat_lt]; show 126 < c.toNat ↔ _; omega
      rw [h1, h2, Bool.not_and]
    rw [hv]
    cases (b :: rest).any (fun b => b < 33 || b > 126) <;> rfl

theorem splitByte_splitSp : ∀ (l acc : Bytes),
    ∃ h t, Format.splitSp l = h :: t ∧ Go.splitByte 32 acc l = (acc.reverse ++ h) :: t
  | [], acc => ⟨[], [], rfl, by simp [Go.splitByte]⟩
  | c :: cs, acc => by
    by_cases hc : c = 32
    · obtain ⟨h, t, e1, e2⟩ := splitByte_splitSp cs []
      refine ⟨[], h :: t, ?_, ?_⟩
      · simp only [Format.splitSp, Format.sp, hc, if_true, e1]
      · simp only [Go.splitByte, hc, if_true, e2, List.reverse_nil, List.nil_append, List.append_nil]
    · obtain ⟨h, t, e1, e2⟩ := splitByte_splitSp cs (c :: acc)
      refine ⟨c :: h, t, ?_, ?_⟩
      · simp only [Format.splitSp, Format.sp, hc, if_false, e1]
      · simp only [Go.splitByte, hc, if_false, e2, List.reverse_cons, List.append_assoc,
          List.singleton_append]

/-- `splitArgs` on a line as `ReadBytes('\n')` returns it (terminator included): first token, remaining tokens -/
theorem splitArgs_tie (l : Bytes) :
    format_splitArgs (l ++ [Format.nl]) =
      .ok (match Format.splitSp l with
           | h :: t => (h, t)
           | [] => ([], [])) := by
  have ht : Go.strings_TrimSuffix (l ++ [Format.nl]) [10] = l := by
    have : ([10] : List UInt8).isSuffixOf (l ++ [Format.nl]) = true := by
      simp [Format.nl]
    simp only [Go.strings_TrimSuffix, this, if_true, List.length_append, List.length_cons,
      List.length_nil, Nat.add_sub_cancel, List.take_left']
  obtain ⟨h, t, e1, e2⟩ := splitByte_splitSp l []
  simp only [format_splitArgs, ht, Go.strings_Split1, e1, e2, List.reverse_nil, List.nil_append]
  simp only [bind, Except.bind, Go.idx, Int.lt_irrefl, ↓reduceIte, Int.toNat_zero,
    List.length_cons, Nat.zero_lt_succ, getElem?_pos, List.getElem_cons_zero, Go.slice, Int.zero_le_ofNat, Go.len,
    Int.ofNat_eq_natCast, Int.natCast_add, Int.cast_ofNat_Int, Std.le_refl, and_true, true_and, Int.toNat_one,
    Int.toNat_natCast_add_one, List.take_succ_cons, List.take_length, List.drop_succ_cons, List.drop_zero, pure,
    Except.pure]
  have : (1 : Int) ≤ ↑t.length + 1 := by omega
  rw [if_pos this]


end GoTie
end AgeModel
