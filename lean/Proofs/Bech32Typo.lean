/-
  Proofs.Bech32Typo — substitution errors in native key strings (stub, filled below).
-/
import Proofs.Bech32Keys
