/-
  Proofs.Bech32Typo — substitution errors in Bech32 strings.

  `NoLowWeight W` is the coding-theory fact in syndrome form (no non-zero
  pattern of weight ≤ W within 58 symbols has zero syndrome).  Given it,
  `decode_distance` shows that two different accepted strings with the same HRP,
  the same case, the same length and at most 58 data characters differ in more
  than W positions.  The native key strings have exactly 58 data characters.
-/
import Proofs.Bech32Keys
import Proofs.Bech32Syndrome
namespace AgeModel
namespace Bech32

/-- number of positions at which two strings differ (over their common length) -/
def hamming : Bytes → Bytes → Nat
  | x :: xs, y :: ys => (if x = y then 0 else 1) + hamming xs ys
  | _, _ => 0

def NoLowWeight (W : Nat) : Prop :=
  ∀ e : Bytes, e.length ≤ 58 → (∀ v ∈ e, v.toNat < 32) → weight e ≤ W → (∃ v ∈ e, v ≠ 0) → synSum e ≠ 0

theorem noLowWeight_of_facts (W : Nat) (hW : W ≤ 4) (F2 : Fact2) (F3 : 3 ≤ W → Fact3) (F4 : 4 ≤ W → Fact4) :
    NoLowWeight W :=
  fun e hl h32 hw hnz => synSum_ne_zero W hW F2 F3 F4 e hl h32 hw hnz

/-! ## hamming -/

theorem hamming_append_left : ∀ (p a b : Bytes), hamming (p ++ a) (p ++ b) = hamming a b
  | [], _, _ => rfl
  | x :: p, a, b => by simp [hamming, hamming_append_left p a b]

theorem hamming_map_le (f : UInt8 → UInt8) : ∀ (a b : Bytes), hamming (a.map f) (b.map f) ≤ hamming a b
  | [], _ => by simp [hamming]
  | _ :: _, [] => by simp [hamming]
  | x :: a, y :: b => by
    have ih := hamming_map_le f a b
    simp only [List.map_cons, hamming]
    by_cases h : x = y
    · simp only [h, if_true]; omega
    · simp only [h, if_false]
      split <;> omega

theorem eq_of_hamming_zero : ∀ (a b : Bytes), a.length = b.length → hamming a b = 0 → a = b
  | [], [], _, _ => rfl
  | [], _ :: _, h, _ => by simp at h
  | _ :: _, [], h, _ => by simp at h
  | x :: a, y :: b, hl, h => by
    simp only [hamming] at h
    by_cases hxy : x = y
    · simp only [hxy, if_true, Nat.zero_add] at h
      rw [hxy, eq_of_hamming_zero a b (by simpa using hl) h]
    · simp only [hxy, if_false] at h; omega

/-- characters and their symbols differ at the same positions -/
theorem hamming_syms : ∀ (A B v v' : Bytes), mapOpt charsetIdx A = some v → mapOpt charsetIdx B = some v' →
    hamming v v' = hamming A B
  | [], _, v, _, h, _ => by
    simp only [mapOpt, Option.some.injEq] at h; subst h; simp [hamming]
  | _ :: _, [], _, v', _, h => by
    simp only [mapOpt, Option.some.injEq] at h; subst h
    cases ‹Bytes› <;> simp [hamming]
  | a :: A, b :: B, v, v', h, h' => by
    simp only [mapOpt] at h h'
    cases ha : charsetIdx a with
    | none => simp [ha] at h
    | some p =>
      cases hA : mapOpt charsetIdx A with
      | none => simp [ha, hA] at h
      | some r =>
        cases hb : charsetIdx b with
        | none => simp [hb] at h'
        | some q =>
          cases hB : mapOpt charsetIdx B with
          | none => simp [hb, hB] at h'
          | some r' =>
            simp only [ha, hA, Option.some.injEq] at h
            simp only [hb, hB, Option.some.injEq] at h'
            subst h h'
            have ih := hamming_syms A B r r' hA hB
            simp only [hamming, ih]
            by_cases hab : a = b
            · subst hab
              rw [ha] at hb; cases hb
              simp
            · have hpq : p ≠ q := by
                intro e
                subst e
                have h1 := (idx_facts a p ha).2
                have h2 := (idx_facts b p hb).2
                rw [h1] at h2; cases h2
                exact hab rfl
              simp [hab, hpq]

/-! ## xor of symbol strings -/

theorem xorBytes_length (a b : Bytes) (h : a.length = b.length) : (xorBytes a b).length = a.length := by
  simp [xorBytes, h]

theorem xorBytes_lt : ∀ (a b : Bytes), (∀ x ∈ a, x.toNat < 32) → (∀ x ∈ b, x.toNat < 32) →
    ∀ x ∈ xorBytes a b, x.toNat < 32
  | [], _, _, _ => by simp [xorBytes]
  | _ :: _, [], _, _ => by simp [xorBytes]
  | x :: a, y :: b, ha, hb => by
    intro z hz
    simp only [xorBytes, List.zipWith_cons_cons, List.mem_cons] at hz
    rcases hz with rfl | hz
    · rw [UInt8.toNat_xor]
      exact Nat.xor_lt_two_pow (n := 5) (ha x (by simp)) (hb y (by simp))
    · exact xorBytes_lt a b (fun w hw => ha w (by simp [hw])) (fun w hw => hb w (by simp [hw])) z hz

theorem weight_xorBytes : ∀ (a b : Bytes), a.length = b.length → weight (xorBytes a b) = hamming a b
  | [], [], _ => rfl
  | [], _ :: _, h => by simp at h
  | _ :: _, [], h => by simp at h
  | x :: a, y :: b, h => by
    have ih := weight_xorBytes a b (by simpa using h)
    simp only [weight, xorBytes] at ih
    simp only [weight, xorBytes, List.zipWith_cons_cons, List.countP_cons, hamming, ih]
    by_cases hxy : x = y
    · subst hxy; simp
    · have : x ^^^ y ≠ 0 := fun e => hxy (UInt8.xor_eq_zero_iff.mp e)
      simp [hxy, this]; omega

theorem xorBytes_nonzero : ∀ (a b : Bytes), a.length = b.length → a ≠ b → ∃ v ∈ xorBytes a b, v ≠ 0
  | [], [], _, h => absurd rfl h
  | [], _ :: _, h, _ => by simp at h
  | _ :: _, [], h, _ => by simp at h
  | x :: a, y :: b, hl, hne => by
    by_cases hxy : x = y
    · subst hxy
      have : a ≠ b := fun e => hne (by rw [e])
      obtain ⟨v, hv, hv0⟩ := xorBytes_nonzero a b (by simpa using hl) this
      exact ⟨v, by simp only [xorBytes, List.zipWith_cons_cons, List.mem_cons]; exact Or.inr hv, hv0⟩
    · exact ⟨x ^^^ y, by simp [xorBytes], fun e => hxy (UInt8.xor_eq_zero_iff.mp e)⟩

theorem synSum_xorBytes : ∀ (a b : Bytes), a.length = b.length → synSum (xorBytes a b) = synSum a ^^^ synSum b
  | [], [], _ => rfl
  | [], _ :: _, h => by simp at h
  | _ :: _, [], h => by simp at h
  | x :: a, y :: b, h => by
    have hl : a.length = b.length := by simpa using h
    have ih := synSum_xorBytes a b hl
    have hlen := xorBytes_length a b hl
    simp only [xorBytes] at ih hlen
    simp only [xorBytes, List.zipWith_cons_cons, synSum, ih, hlen, UInt8.toNat_xor,
      Lpow_lin _ (u8_lt30 x) (u8_lt30 y), ← hl]
    ac_rfl

/-! ## two valid symbol strings are far apart -/

theorem symbols_distance (W : Nat) (hN : NoLowWeight W) (P v v' : Bytes) (hl : v.length = v'.length) (hn : v.length ≤ 58)
    (h32 : ∀ x ∈ v, x.toNat < 32) (h32' : ∀ x ∈ v', x.toNat < 32)
    (hv : polymod (P ++ v) = 1) (hv' : polymod (P ++ v') = 1) (hne : v ≠ v') : W < hamming v v' := by
  have hS : List.foldl polymodStep 1 P < 2 ^ 30 := foldl_polymodStep_lt (by decide) P
  simp only [polymod, List.foldl_append] at hv hv'
  rw [foldl_eq_synSum v hS] at hv
  rw [foldl_eq_synSum v' hS, ← hl] at hv'
  have hsyn : synSum v ^^^ synSum v' = 0 := by
    have h1 : synSum v = synSum v' := by
      have := congrArg (fun t => Lpow v.length (List.foldl polymodStep 1 P) ^^^ t) (hv.trans hv'.symm)
      simp only [← Nat.xor_assoc, Nat.xor_self, Nat.zero_xor] at this
      exact this
    rw [h1, Nat.xor_self]
  apply Nat.lt_of_not_le
  intro hw
  have := hN (xorBytes v v') (by rw [xorBytes_length v v' hl]; exact hn) (xorBytes_lt v v' h32 h32')
    (by rw [weight_xorBytes v v' hl]; exact hw) (xorBytes_nonzero v v' hl hne)
  exact this (by rw [synSum_xorBytes v v' hl]; exact hsyn)

/-- two different accepted strings of the same kind, case and length differ in more than W places -/
theorem decode_distance (W : Nat) (hN : NoLowWeight W) {s s' hrp data data' : Bytes}
    (h : decode s = .ok (hrp, data)) (h' : decode s' = .ok (hrp, data'))
    (hlen : s.length = s'.length) (hshort : s.length ≤ hrp.length + 59)
    (hcase : (toLower s = s ∧ toLower s' = s') ∨ (toUpper s = s ∧ toUpper s' = s')) (hne : s ≠ s') :
    W < hamming s s' := by
  obtain ⟨D, d5, d1, _, _, _, _, d6, d7, _⟩ := decode_ok h
  obtain ⟨D', d5', e1, _, _, _, _, e6, e7, _⟩ := decode_ok h'
  have hDl : D.length = D'.length := by
    rw [d1, e1] at hlen
    simpa using hlen
  have hvl := mapOpt_length _ _ _ d7
  have hvl' := mapOpt_length _ _ _ e7
  simp only [toLower_length] at hvl hvl'
  have hn : (d5 ++ createChecksum hrp d5).length ≤ 58 := by
    rw [hvl]
    rw [d1] at hshort
    simp only [List.length_append, List.length_cons] at hshort
    omega
  have h32 : ∀ x ∈ d5 ++ createChecksum hrp d5, x.toNat < 32 := (syms_of_chars _ _ d7).1
  have h32' : ∀ x ∈ d5' ++ createChecksum hrp d5', x.toNat < 32 := (syms_of_chars _ _ e7).1
  have hv := verify_createChecksum hrp d5
  have hv' := verify_createChecksum hrp d5'
  simp only [verifyChecksum, beq_iff_eq] at hv hv'
  -- the symbol strings differ
  have hDne : D ≠ D' := by
    intro e
    apply hne
    rw [d1, e1, e]
  have hsne : d5 ++ createChecksum hrp d5 ≠ d5' ++ createChecksum hrp d5' := by
    intro e
    rw [e] at d7
    have hc1 := (syms_of_chars _ _ d7).2
    have hc2 := (syms_of_chars _ _ e7).2
    rw [hc1] at hc2
    have hlow : toLower D = toLower D' := Option.some.inj hc2
    apply hDne
    rcases hcase with ⟨c1, c2⟩ | ⟨c1, c2⟩
    · rw [d1] at c1; rw [e1] at c2
      have a1 := lower_right c1
      have a2 := lower_right c2
      rw [toLower_cons] at a1 a2
      rw [← (List.cons.inj a1).2, ← (List.cons.inj a2).2, hlow]
    · rw [d1] at c1; rw [e1] at c2
      have a1 := upper_right c1
      have a2 := upper_right c2
      rw [toUpper_cons] at a1 a2
      rw [← (List.cons.inj a1).2, ← (List.cons.inj a2).2, ← toUpper_toLower D, ← toUpper_toLower D', hlow]
  have hdist := symbols_distance W hN (hrpExpand hrp) _ _ (by rw [hvl, hvl', hDl]) hn h32 h32' hv hv' hsne
  have h1 : hamming (d5 ++ createChecksum hrp d5) (d5' ++ createChecksum hrp d5') = hamming (toLower D) (toLower D') :=
    hamming_syms _ _ _ _ d7 e7
  have h2 : hamming (toLower D) (toLower D') ≤ hamming D D' := hamming_map_le lowerByte D D'
  have h3 : hamming s s' = hamming D D' := by
    rw [d1, e1, hamming_append_left]
    simp [hamming]
  omega

end Bech32

namespace Keys
open Bech32

/-- a native recipient string that differs from a printed one in 1..W places is rejected -/
theorem recipient_typo (W : Nat) (hN : NoLowWeight W) (k s' : Bytes) (hk : k.length = 32)
    (hlen : s'.length = (recipientString k).length) (hne : s' ≠ recipientString k)
    (hd : hamming (recipientString k) s' ≤ W) : ∃ e, parseX25519Recipient s' = .error e := by
  apply error_of_not_ok
  intro k' hp
  obtain ⟨s, _, hs, hdec⟩ := decode_recipientString k
  rw [hs] at hlen hne hd
  obtain ⟨hdec', hk'⟩ := parseX25519Recipient_ok hp
  have hl := decoded_length_32 hdec hk
  have hlo : toLower s = s := decoded_lower hdec (c := 0x61) (by decide) (by decide)
  have hlo' : toLower s' = s' := decoded_lower hdec' (c := 0x61) (by decide) (by decide)
  have := decode_distance W hN hdec hdec' hlen.symm (by omega) (Or.inl ⟨hlo, hlo'⟩) (fun e => hne e.symm)
  omega

theorem identity_typo (W : Nat) (hN : NoLowWeight W) (k s' : Bytes) (hk : k.length = 32)
    (hlen : s'.length = (identityString k).length) (hne : s' ≠ identityString k)
    (hd : hamming (identityString k) s' ≤ W) : ∃ e, parseX25519Identity s' = .error e := by
  apply error_of_not_ok
  intro k' hp
  obtain ⟨s, _, hs, hdec⟩ := decode_identityString k
  rw [hs] at hlen hne hd
  obtain ⟨hdec', hk'⟩ := parseX25519Identity_ok hp
  have hl := decoded_length_32 hdec hk
  have hup : toUpper s = s := decoded_upper hdec (c := 0x41) (by decide) (by decide)
  have hup' : toUpper s' = s' := decoded_upper hdec' (c := 0x41) (by decide) (by decide)
  have := decode_distance W hN hdec hdec' hlen.symm (by omega) (Or.inr ⟨hup, hup'⟩) (fun e => hne e.symm)
  omega

end Keys
end AgeModel
