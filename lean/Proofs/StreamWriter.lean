/-
  Proofs.StreamWriter — the Writer machine refines the Spec for every write
  segmentation and every destination behaviour.
-/
import Proofs.StreamSpec
namespace AgeModel
namespace Stream

variable {S : DstSpec}

theorem Dst.write_ok {d d' : Dst S} {b : Bytes} (h : d.write b = (d', true)) : d'.acc = d.acc ++ b := by
  unfold Dst.write at h
  split at h
  · simp only [Prod.mk.injEq, and_true] at h; subst h; rfl
  · simp at h

theorem Dst.write_acc_prefix (d : Dst S) (b : Bytes) : ∃ n, (d.write b).1.acc = d.acc ++ b.take n := by
  unfold Dst.write
  split
  · exact ⟨b.length, by simp⟩
  · rename_i n _; exact ⟨n, rfl⟩

/-- what a successful flush did -/
theorem flush_ok (A : AEAD) (C L : Nat) (k : Bytes) (w w' : Writer S) (last : Bool)
    (h : w.flush A C L k last = (w', none)) :
    w'.buf = [] ∧ w'.ctr = w.ctr + 1 ∧ w'.err = w.err ∧ w.ctr + 1 < L ∧
    w'.dst.acc = w.dst.acc ++ A.sealF k (nonce w.ctr last) w.buf := by
  unfold Writer.flush at h
  split at h
  · simp at h
  · generalize hw : w.dst.write (A.sealF k (nonce w.ctr last) w.buf) = r at h
    obtain ⟨d', ok⟩ := r
    simp only at h
    split at h
    · simp at h
    · rename_i hL
      simp only [Prod.mk.injEq] at h
      obtain ⟨hw', hok⟩ := h
      have hok' : ok = true := by
        cases ok with
        | true => rfl
        | false => simp at hok
      subst hok'
      subst hw'
      exact ⟨rfl, rfl, rfl, by omega, Dst.write_ok hw⟩

/-- which errors a flush can report -/
theorem flush_err (A : AEAD) (C L : Nat) (k : Bytes) (w w' : Writer S) (last : Bool) (e : Outcome)
    (hpre : last = true ∨ w.buf.length = C)
    (h : w.flush A C L k last = (w', some e)) :
    e = .dstErr ∨ (e = .panic 3 ∧ L ≤ w.ctr + 1) := by
  unfold Writer.flush at h
  split at h
  · rename_i hp
    cases hpre with
    | inl hl => simp [hl] at hp
    | inr hc => simp [hc] at hp
  · generalize hw : w.dst.write (A.sealF k (nonce w.ctr last) w.buf) = r at h
    obtain ⟨d', ok⟩ := r
    simp only at h
    split at h
    · rename_i hL
      simp only [Prod.mk.injEq, Option.some.injEq] at h
      exact Or.inr ⟨h.2.symm, by omega⟩
    · simp only [Prod.mk.injEq] at h
      cases ok with
      | true => simp at h
      | false => simp at h; exact Or.inl h.2.symm

/-- a destination that never reports a failure -/
def DstSpec.NeverFails (S : DstSpec) : Prop := ∀ s a l, (S.step s a l).2 = none

theorem DstSpec.perfect_neverFails : DstSpec.perfect.NeverFails := by
  intro s a l; rfl

theorem Dst.write_neverFails (hS : S.NeverFails) (d : Dst S) (b : Bytes) : (d.write b).2 = true := by
  unfold Dst.write
  have := hS d.st d.acc.length b
  split
  · rfl
  · rename_i s' n heq; rw [heq] at this; simp at this

theorem flush_no_dstErr (hS : S.NeverFails) (A : AEAD) (C L : Nat) (k : Bytes) (w w' : Writer S) (last : Bool) :
    w.flush A C L k last ≠ (w', some .dstErr) := by
  intro h
  unfold Writer.flush at h
  split at h
  · simp at h
  · have hok := Dst.write_neverFails hS w.dst (A.sealF k (nonce w.ctr last) w.buf)
    generalize hw : w.dst.write (A.sealF k (nonce w.ctr last) w.buf) = r at h hok
    obtain ⟨d', ok⟩ := r
    simp only at hok; subst hok
    simp only at h
    split at h <;> simp at h

theorem fill_no_dstErr (hS : S.NeverFails) (A : AEAD) (C L : Nat) (k : Bytes) :
    ∀ (fuel : Nat) (w : Writer S) (p : Bytes) (w' : Writer S), w.fill A C L k p fuel ≠ (w', some .dstErr) := by
  intro fuel
  induction fuel with
  | zero => intro w p w'; simp [Writer.fill]
  | succ fuel ih =>
    intro w p w' h
    unfold Writer.fill at h
    split at h
    · simp at h
    · simp only at h
      split at h
      · split at h
        · rename_i w2 e2 hfl
          simp only [Prod.mk.injEq, Option.some.injEq] at h
          obtain ⟨_, he2⟩ := h
          subst he2
          exact flush_no_dstErr hS A C L k _ _ _ hfl
        · exact ih _ _ _ h
      · exact ih _ _ _ h

/-- loop invariant of `Write`: `tot` is the constant `acc0 ++ enc 0 (PT ++ q)` family -/
def FillInv (A : AEAD) (C : Nat) (k : Bytes) (w : Writer S) (p : Bytes) (n : Nat) (tot : Bytes → Bytes) : Prop :=
  w.buf.length ≤ C ∧ w.ctr * C + w.buf.length + p.length = n ∧
  ∀ q, w.dst.acc ++ enc A C k w.ctr (w.buf ++ (p ++ q)) = tot q

theorem fill_ok (A : AEAD) (C L : Nat) (hC : 0 < C) (k : Bytes) (n : Nat) (tot : Bytes → Bytes) :
    ∀ (fuel : Nat) (w : Writer S) (p : Bytes) (w' : Writer S),
      FillInv A C k w p n tot → w.fill A C L k p fuel = (w', none) →
      FillInv A C k w' [] n tot ∧ w'.err = w.err := by
  intro fuel
  induction fuel with
  | zero => intro w p w' _ h; simp [Writer.fill] at h
  | succ fuel ih =>
    intro w p w' hinv h
    unfold Writer.fill at h
    split at h
    · rename_i hp0
      simp only [Prod.mk.injEq, and_true] at h
      subst h
      have : p = [] := List.eq_nil_of_length_eq_zero hp0
      subst this
      exact ⟨hinv, rfl⟩
    · rename_i hp0
      simp only at h
      obtain ⟨hb, hn, hq⟩ := hinv
      split at h
      · rename_i hfull
        obtain ⟨hfullC, hp1⟩ := hfull
        simp only [List.length_append, List.length_take] at hfullC
        split at h
        · simp at h
        · rename_i w2 hfl
          obtain ⟨f1, f2, f3, f4, f5⟩ := flush_ok A C L k _ w2 false hfl
          simp only at f1 f2 f3 f5
          have hp1ne : p.drop (min (C - w.buf.length) p.length) ≠ [] := by
            intro hnil; rw [hnil] at hp1; simp at hp1
          refine (fun ⟨a, b⟩ => ⟨a, b.trans f3⟩) (ih w2 _ w' ?_ h)
          refine ⟨by rw [f1]; simp, ?_, ?_⟩
          · rw [f1, f2]
            have := List.length_drop (i := min (C - w.buf.length) p.length) (l := p)
            simp only [List.length_nil]
            rw [this]
            have hmin : min (C - w.buf.length) p.length ≤ p.length := Nat.min_le_right _ _
            rw [Nat.add_mul]; omega
          · intro q
            rw [f5, f1, f2, ← hq q, List.nil_append, List.append_assoc]
            congr 1
            have hsplit : w.buf ++ (p ++ q)
                = (w.buf ++ p.take (min (C - w.buf.length) p.length)) ++ (p.drop (min (C - w.buf.length) p.length) ++ q) := by
              rw [List.append_assoc, ← List.append_assoc (p.take _), List.take_append_drop]
            rw [hsplit]
            rw [enc_cons_chunk A C hC k w.ctr _ _ (by simp only [List.length_append, List.length_take]; exact hfullC)
              (by intro hnil; exact hp1ne (List.append_eq_nil_iff.mp hnil).1)]
      · rename_i hnf
        refine ih { w with buf := w.buf ++ p.take (min (C - w.buf.length) p.length) } _ w' ?_ h
        refine ⟨?_, ?_, ?_⟩
        · simp only [List.length_append, List.length_take]; omega
        · simp only [List.length_append, List.length_take, List.length_drop]
          have hmin : min (C - w.buf.length) p.length ≤ p.length := Nat.min_le_right _ _
          omega
        · intro q
          rw [← hq q]
          congr 2
          simp only
          rw [List.append_assoc, ← List.append_assoc (p.take _), List.take_append_drop]

/-- fuel needed by the loop: one iteration per consumed piece, one more when the
    buffer is already full on entry, one to see the empty rest -/
def fillMeasure (C : Nat) (w : Writer S) (p : Bytes) : Nat :=
  p.length + 1 + (if w.buf.length = C ∧ p.length ≠ 0 then 1 else 0)

theorem fill_err (A : AEAD) (C L : Nat) (hC : 0 < C) (k : Bytes) :
    ∀ (fuel : Nat) (w : Writer S) (p : Bytes) (w' : Writer S) (e : Outcome),
      w.buf.length ≤ C → fillMeasure C w p ≤ fuel →
      w.fill A C L k p fuel = (w', some e) →
      e = .dstErr ∨ (e = .panic 3 ∧ ∃ c, L ≤ c + 1 ∧ w.ctr ≤ c ∧ c * C ≤ w.ctr * C + w.buf.length + p.length) := by
  intro fuel
  induction fuel with
  | zero =>
    intro w p w' e hb hf h
    unfold fillMeasure at hf; omega
  | succ fuel ih =>
    intro w p w' e hb hf h
    unfold Writer.fill at h
    split at h
    · simp at h
    · rename_i hp0
      simp only at h
      have hmin : min (C - w.buf.length) p.length ≤ p.length := Nat.min_le_right _ _
      have hdl := List.length_drop (i := min (C - w.buf.length) p.length) (l := p)
      split at h
      · rename_i hfull
        obtain ⟨hfullC, hp1⟩ := hfull
        simp only [List.length_append, List.length_take] at hfullC
        split at h
        · rename_i w2 e2 hfl
          simp only [Prod.mk.injEq, Option.some.injEq] at h
          obtain ⟨_, he⟩ := h
          subst he
          cases flush_err A C L k _ w2 false e2 (Or.inr (by simp only [List.length_append, List.length_take]; exact hfullC)) hfl with
          | inl h1 => exact Or.inl h1
          | inr h1 =>
            have h12 := h1.2
            simp only at h12
            exact Or.inr ⟨h1.1, w.ctr, h12, Nat.le_refl _, by omega⟩
        · rename_i w2 hfl
          obtain ⟨f1, f2, f3, f4, f5⟩ := flush_ok A C L k _ w2 false hfl
          simp only at f1 f2
          have hstep := ih w2 _ w' e (by rw [f1]; simp) ?_ h
          · cases hstep with
            | inl h1 => exact Or.inl h1
            | inr h1 =>
              obtain ⟨he, c, hc1, hc2, hc3⟩ := h1
              refine Or.inr ⟨he, c, hc1, by omega, ?_⟩
              rw [f1, f2, hdl, Nat.add_mul] at hc3
              simp only [List.length_nil] at hc3
              omega
          · unfold fillMeasure at hf ⊢
            rw [f1, hdl]
            simp only [List.length_nil]
            have h0C : ¬ (0 = C ∧ p.length - min (C - w.buf.length) p.length ≠ 0) := by omega
            rw [if_neg h0C]
            by_cases hbf : w.buf.length = C ∧ p.length ≠ 0
            · rw [if_pos hbf] at hf; omega
            · rw [if_neg hbf] at hf
              have : 1 ≤ min (C - w.buf.length) p.length := by
                rw [Nat.le_min]; omega
              omega
      · rename_i hnf
        simp only [List.length_append, List.length_take, hdl] at hnf
        have hstep := ih { w with buf := w.buf ++ p.take (min (C - w.buf.length) p.length) } _ w' e
          (by simp only [List.length_append, List.length_take]; omega) ?_ h
        · cases hstep with
          | inl h1 => exact Or.inl h1
          | inr h1 =>
            obtain ⟨he, c, hc1, hc2, hc3⟩ := h1
            simp only [List.length_append, List.length_take, hdl] at hc2 hc3
            exact Or.inr ⟨he, c, hc1, hc2, by omega⟩
        · unfold fillMeasure at hf ⊢
          simp only [List.length_append, List.length_take, hdl]
          rw [if_neg (by omega)]
          by_cases hbf : w.buf.length = C ∧ p.length ≠ 0
          · exfalso; apply hnf; omega
          · rw [if_neg hbf] at hf
            have : 1 ≤ min (C - w.buf.length) p.length := by
              rw [Nat.le_min]; omega
            omega

end Stream
end AgeModel
