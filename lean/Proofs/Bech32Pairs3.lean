/- chunk 3 of the weight-4 computation (see Proofs/Bech32Pairs.lean) -/
import Proofs.Bech32Pairs
namespace AgeModel
namespace Bech32
theorem pairs_chunk_3 : chunk 3 = true := by decide +kernel
end Bech32
end AgeModel
