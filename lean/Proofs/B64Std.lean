/-
  Proofs.B64Std — padded strict base64 (armor): both directions, lengths, alphabet.
-/
import Proofs.B64
namespace AgeModel
namespace B64

theorem pad_not_alpha (n : Nat) (h : n < 64) : alpha n ≠ pad := by
  apply alpha_ne n h pad; right; right; right; left; rfl

theorem unalpha_pad : unalpha pad = none := by decide

/-- characters of a padded encoding: alphabet or `=` -/
theorem encStd_chars : ∀ (b : Bytes) (c : UInt8), c ∈ encStd b → (∃ n, n < 64 ∧ c = alpha n) ∨ c = pad
  | a :: b :: d :: rest, c, h => by
    have ha := u8 a; have hb := u8 b; have hd := u8 d
    simp only [encStd, List.mem_cons] at h
    rcases h with h | h | h | h | h
    · exact Or.inl ⟨_, by omega, h⟩
    · exact Or.inl ⟨_, by omega, h⟩
    · exact Or.inl ⟨_, by omega, h⟩
    · exact Or.inl ⟨_, by omega, h⟩
    · exact encStd_chars rest c h
  | [a, b], c, h => by
    have ha := u8 a; have hb := u8 b
    simp only [encStd, List.mem_cons, List.not_mem_nil, or_false] at h
    rcases h with h | h | h | h
    · exact Or.inl ⟨_, by omega, h⟩
    · exact Or.inl ⟨_, by omega, h⟩
    · exact Or.inl ⟨_, by omega, h⟩
    · exact Or.inr h
  | [a], c, h => by
    have ha := u8 a
    simp only [encStd, List.mem_cons, List.not_mem_nil, or_false] at h
    rcases h with h | h | h | h
    · exact Or.inl ⟨_, by omega, h⟩
    · exact Or.inl ⟨_, by omega, h⟩
    · exact Or.inr h
    · exact Or.inr h
  | [], c, h => by simp [encStd] at h

theorem encStd_not_mem (b : Bytes) (c : UInt8) (hc : c.toNat = 10 ∨ c.toNat = 13 ∨ c.toNat = 32 ∨ c.toNat = 45) :
    c ∉ encStd b := by
  intro h
  rcases encStd_chars b c h with ⟨n, hn, he⟩ | he
  · apply alpha_ne n hn c _ he.symm
    rcases hc with h | h | h | h
    · exact Or.inl h
    · exact Or.inr (Or.inl h)
    · exact Or.inr (Or.inr (Or.inl h))
    · exact Or.inr (Or.inr (Or.inr (Or.inr h)))
  · subst he
    simp [pad] at hc

theorem encStd_length : ∀ b : Bytes, (encStd b).length = (b.length + 2) / 3 * 4
  | a :: b :: c :: rest => by simp only [encStd, List.length_cons, encStd_length rest]; omega
  | [a, b] => by simp [encStd]
  | [a] => by simp [encStd]
  | [] => by simp [encStd]

theorem encStd_append : ∀ (a b : Bytes), a.length % 3 = 0 → encStd (a ++ b) = encStd a ++ encStd b
  | x :: y :: z :: rest, b, h => by
    simp only [List.cons_append, encStd]
    rw [encStd_append rest b (by simp only [List.length_cons] at h; omega)]
  | [x, y], b, h => by simp at h
  | [x], b, h => by simp at h
  | [], b, h => by simp [encStd]

/-! ### decode ∘ encode -/

theorem decStd_encStd : ∀ b : Bytes, decStd (encStd b) = some b
  | a :: b :: c :: d :: rest => by
    have ha := u8 a; have hb := u8 b; have hc := u8 c
    have ih := decStd_encStd (d :: rest)
    -- the encoding of d :: rest is non-empty, so the five-or-more pattern applies
    have hne : encStd (d :: rest) ≠ [] := by
      intro e; have := congrArg List.length e; rw [encStd_length] at this; simp at this; omega
    cases he : encStd (d :: rest) with
    | nil => exact absurd he hne
    | cons q qs =>
      rw [encStd, he, decStd]
      rw [unalpha_alpha _ (by omega), unalpha_alpha _ (by omega), unalpha_alpha _ (by omega), unalpha_alpha _ (by omega)]
      simp only [Option.bind_eq_bind, Option.bind_some, Option.pure_def]
      rw [← he, ih]
      simp only [Option.bind_some, Option.some.injEq, List.cons.injEq, and_true]
      exact ⟨u8eq a _ (by omega), u8eq b _ (by omega), u8eq c _ (by omega)⟩
  | [a, b, c] => by
    have ha := u8 a; have hb := u8 b; have hc := u8 c
    simp only [encStd, decStd]
    have h3 : alpha ((a.toNat * 65536 + b.toNat * 256 + c.toNat) / 64 % 64) ≠ pad := pad_not_alpha _ (by omega)
    have h4 : alpha ((a.toNat * 65536 + b.toNat * 256 + c.toNat) % 64) ≠ pad := pad_not_alpha _ (by omega)
    simp only [h3, h4, false_and, if_false]
    rw [unalpha_alpha _ (by omega), unalpha_alpha _ (by omega), unalpha_alpha _ (by omega), unalpha_alpha _ (by omega)]
    simp only [Option.bind_eq_bind, Option.bind_some, Option.pure_def, Option.some.injEq, List.cons.injEq, and_true]
    exact ⟨u8eq a _ (by omega), u8eq b _ (by omega), u8eq c _ (by omega)⟩
  | [a, b] => by
    have ha := u8 a; have hb := u8 b
    simp only [encStd, decStd]
    have h3 : alpha ((a.toNat * 1024 + b.toNat * 4) % 64) ≠ pad := pad_not_alpha _ (by omega)
    simp only [h3, false_and, if_false, if_true]
    rw [unalpha_alpha _ (by omega), unalpha_alpha _ (by omega), unalpha_alpha _ (by omega)]
    simp only [Option.bind_eq_bind, Option.bind_some, Option.pure_def]
    rw [if_neg (by omega)]
    congr 2
    · exact u8eq a _ (by omega)
    · congr 1; exact u8eq b _ (by omega)
  | [a] => by
    have ha := u8 a
    simp only [encStd, decStd, and_self, if_true]
    rw [unalpha_alpha _ (by omega), unalpha_alpha _ (by omega)]
    simp only [Option.bind_eq_bind, Option.bind_some, Option.pure_def]
    rw [if_neg (by omega)]
    congr 2
    exact u8eq a _ (by omega)
  | [] => by simp [encStd, decStd]

end B64
end AgeModel

namespace AgeModel
namespace B64

/-- the last quantum, spelled as a function (used to split the cases of `decStd`) -/
theorem decStd_last (w x y z : UInt8) (b : Bytes) (h : decStd [w, x, y, z] = some b) : [w, x, y, z] = encStd b := by
  simp only [decStd] at h
  split at h
  · -- "xx=="
    rename_i hp
    obtain ⟨hy, hz⟩ := hp
    cases hw : unalpha w with
    | none => simp [hw] at h
    | some wv =>
    cases hx : unalpha x with
    | none => simp [hw, hx] at h
    | some xv =>
    simp only [hw, hx, Option.bind_eq_bind, Option.bind_some, Option.pure_def] at h
    split at h
    · simp at h
    · rename_i hmod
      simp only [Option.some.injEq] at h
      subst h
      have ⟨aw, lw⟩ := alpha_unalpha hw
      have ⟨ax, lx⟩ := alpha_unalpha hx
      simp only [encStd]
      rw [u8r _ (by omega)]
      have e1 : (wv * 64 + xv) / 16 * 16 = wv * 64 + xv := by omega
      have f1 : (wv * 64 + xv) / 64 = wv := by omega
      have f2 : (wv * 64 + xv) % 64 = xv := by omega
      rw [e1, f1, f2, aw, ax, hy, hz]
  · rename_i hnot
    split at h
    · -- "xxx="
      rename_i hz
      cases hw : unalpha w with
      | none => simp [hw] at h
      | some wv =>
      cases hx : unalpha x with
      | none => simp [hw, hx] at h
      | some xv =>
      cases hy : unalpha y with
      | none => simp [hw, hx, hy] at h
      | some yv =>
      simp only [hw, hx, hy, Option.bind_eq_bind, Option.bind_some, Option.pure_def] at h
      split at h
      · simp at h
      · rename_i hmod
        simp only [Option.some.injEq] at h
        subst h
        have ⟨aw, lw⟩ := alpha_unalpha hw
        have ⟨ax, lx⟩ := alpha_unalpha hx
        have ⟨ay, ly⟩ := alpha_unalpha hy
        simp only [encStd]
        rw [u8r _ (by omega), u8r _ (by omega)]
        have e1 : (wv * 4096 + xv * 64 + yv) / 1024 * 1024 + (wv * 4096 + xv * 64 + yv) / 4 % 256 * 4 = wv * 4096 + xv * 64 + yv := by omega
        have f1 : (wv * 4096 + xv * 64 + yv) / 4096 = wv := by omega
        have f2 : (wv * 4096 + xv * 64 + yv) / 64 % 64 = xv := by omega
        have f3 : (wv * 4096 + xv * 64 + yv) % 64 = yv := by omega
        rw [e1, f1, f2, f3, aw, ax, ay, hz]
    · -- no padding
      cases hw : unalpha w with
      | none => simp [hw] at h
      | some wv =>
      cases hx : unalpha x with
      | none => simp [hw, hx] at h
      | some xv =>
      cases hy : unalpha y with
      | none => simp [hw, hx, hy] at h
      | some yv =>
      cases hz : unalpha z with
      | none => simp [hw, hx, hy, hz] at h
      | some zv =>
      simp only [hw, hx, hy, hz, Option.bind_eq_bind, Option.bind_some, Option.pure_def, Option.some.injEq] at h
      subst h
      have ⟨aw, lw⟩ := alpha_unalpha hw
      have ⟨ax, lx⟩ := alpha_unalpha hx
      have ⟨ay, ly⟩ := alpha_unalpha hy
      have ⟨az, lz⟩ := alpha_unalpha hz
      simp only [encStd]
      rw [u8r _ (by omega), u8r _ (by omega), u8r _ (by omega)]
      have e1 : ((wv * 262144 + xv * 4096 + yv * 64 + zv) / 65536 * 65536 + (wv * 262144 + xv * 4096 + yv * 64 + zv) / 256 % 256 * 256 + (wv * 262144 + xv * 4096 + yv * 64 + zv) % 256) = wv * 262144 + xv * 4096 + yv * 64 + zv := by omega
      have f1 : (wv * 262144 + xv * 4096 + yv * 64 + zv) / 262144 = wv := by omega
      have f2 : (wv * 262144 + xv * 4096 + yv * 64 + zv) / 4096 % 64 = xv := by omega
      have f3 : (wv * 262144 + xv * 4096 + yv * 64 + zv) / 64 % 64 = yv := by omega
      have f4 : (wv * 262144 + xv * 4096 + yv * 64 + zv) % 64 = zv := by omega
      rw [e1, f1, f2, f3, f4, aw, ax, ay, az]

/-- whatever decodes is the canonical padded encoding of the result -/
theorem encStd_decStd : ∀ (s b : Bytes), decStd s = some b → s = encStd b
  | [], b, h => by simp [decStd] at h; subst h; rfl
  | [_], b, h => by simp [decStd] at h
  | [_, _], b, h => by simp [decStd] at h
  | [_, _, _], b, h => by simp [decStd] at h
  | [w, x, y, z], b, h => decStd_last w x y z b h
  | w :: x :: y :: z :: r :: rest, b, h => by
    rw [decStd] at h
    simp only [Option.bind_eq_bind, Option.pure_def] at h
    cases hw : unalpha w with
    | none => simp [hw] at h
    | some wv =>
    cases hx : unalpha x with
    | none => simp [hw, hx] at h
    | some xv =>
    cases hy : unalpha y with
    | none => simp [hw, hx, hy] at h
    | some yv =>
    cases hz : unalpha z with
    | none => simp [hw, hx, hy, hz] at h
    | some zv =>
    cases hr : decStd (r :: rest) with
    | none => simp [hw, hx, hy, hz, hr] at h
    | some r' =>
    simp only [hw, hx, hy, hz, hr, Option.bind_some, Option.some.injEq] at h
    subst h
    have ⟨aw, lw⟩ := alpha_unalpha hw
    have ⟨ax, lx⟩ := alpha_unalpha hx
    have ⟨ay, ly⟩ := alpha_unalpha hy
    have ⟨az, lz⟩ := alpha_unalpha hz
    have ih := encStd_decStd (r :: rest) r' hr
    -- r' is non-empty because its encoding is
    have hr'ne : r' ≠ [] := by
      intro e; subst e; simp [encStd] at ih
    cases hr'c : r' with
    | nil => exact absurd hr'c hr'ne
    | cons q qs =>
      rw [encStd]
      rw [u8r _ (by omega), u8r _ (by omega), u8r _ (by omega)]
      have e1 : ((wv * 262144 + xv * 4096 + yv * 64 + zv) / 65536 * 65536 + (wv * 262144 + xv * 4096 + yv * 64 + zv) / 256 % 256 * 256 + (wv * 262144 + xv * 4096 + yv * 64 + zv) % 256) = wv * 262144 + xv * 4096 + yv * 64 + zv := by omega
      have f1 : (wv * 262144 + xv * 4096 + yv * 64 + zv) / 262144 = wv := by omega
      have f2 : (wv * 262144 + xv * 4096 + yv * 64 + zv) / 4096 % 64 = xv := by omega
      have f3 : (wv * 262144 + xv * 4096 + yv * 64 + zv) / 64 % 64 = yv := by omega
      have f4 : (wv * 262144 + xv * 4096 + yv * 64 + zv) % 64 = zv := by omega
      rw [e1, f1, f2, f3, f4, aw, ax, ay, az, ← hr'c, ← ih]

end B64
end AgeModel
