/-
  Proofs.GoTieWitnessA — the assumption structures of the "translated code = model" theorems about the
  cryptographic glue are SATISFIABLE: each is inhabited (for a lawful toy primitive suite whose AEAD
  has the 16-byte tag the wrappers check for), so no theorem that assumes one of them is vacuous.
-/
import Proofs.ToyPrims
import Proofs.GoTieAead
import Proofs.GoTieStreamR
import Proofs.GoTieStreamW
import Proofs.GoTieScrypt
import Proofs.GoTieNative
import Proofs.GoTieSsh
import Proofs.GoTieSshRsa
import Proofs.GoTiePrims
import Proofs.GoTieDecrypt
import Proofs.GoTieEncrypt
namespace AgeModel

namespace GoTie
set_option linter.ambiguousOpen false
open Extracted Stream

def WrapAeadEnv.witness : WrapAeadEnv Bytes Prims.toy16 := WrapAeadEnv.canonical Prims.toy16 rfl

def AeadEnv.witness (k : Bytes) : AeadEnv Unit AEAD.toy16 k where
  over _ := .ok 16
  open_ _ n c _ := .ok (match AEAD.toy16.openF k n c with
                        | some p => (p, none)
                        | none => ([], some ⟨"chacha20poly1305: message authentication failed", 0, []⟩))
  seal_ _ n p _ := .ok (AEAD.toy16.sealF k n p)
  eAuth := ⟨"chacha20poly1305: message authentication failed", 0, []⟩
  hT := rfl
  hOver _ := rfl
  hOpen _ _ _ := rfl
  hSeal _ _ _ := rfl
  hOpenLen n c p h := by
    have := AEAD.toy16_correct.open_unique k n c p h
    rw [this, AEAD.toy16_correct.seal_len]; rfl
  hSealLen n p := AEAD.toy16_correct.seal_len k n p

def DstEnv.witness (S : DstSpec) : DstEnv (Dst S) S where
  write d b := .ok ((b.length : Int), (if (d.write b).2 then none else some ⟨"dst: write failed", 0, []⟩), (d.write b).1)
  absD := id
  eW := ⟨"dst: write failed", 0, []⟩
  hWrite _ _ := ⟨_, _, rfl, rfl⟩
/-- the inverse field-by-field copies -/
def fromGoStanza (s : age_Stanza) : Format.Stanza := ⟨s.Type_, s.Args, s.Body⟩
def fromGoFStanza (s : format_Stanza) : Format.Stanza := ⟨s.Type_, s.Args, s.Body⟩
def fromGoHeader (h : format_Header) : Format.Header := ⟨h.Recipients.map fromGoFStanza, h.MAC⟩

theorem fromGoStanza_toGoStanza (s : Format.Stanza) : fromGoStanza (toGoStanza s) = s := rfl
theorem fromGoFStanza_toGoFStanza (s : Format.Stanza) : fromGoFStanza (toGoFStanza s) = s := rfl

theorem map_fromGoStanza (ss : List Format.Stanza) : (ss.map toGoStanza).map fromGoStanza = ss := by
  induction ss with
  | nil => rfl
  | cons s ss ih => simp only [List.map_cons, ih, fromGoStanza_toGoStanza]

theorem map_fromGoFStanza (ss : List Format.Stanza) : (ss.map toGoFStanza).map fromGoFStanza = ss := by
  induction ss with
  | nil => rfl
  | cons s ss ih => simp only [List.map_cons, ih, fromGoFStanza_toGoFStanza]

theorem fromGoHeader_toGoHeader (h : Format.Header) : fromGoHeader (toGoHeader h) = h := by
  cases h with
  | mk ss m => simp only [fromGoHeader, toGoHeader, map_fromGoFStanza]

theorem toGoStanza_injective : ∀ a b, toGoStanza a = toGoStanza b → a = b := by
  intro a b h
  rw [← fromGoStanza_toGoStanza a, h, fromGoStanza_toGoStanza]

theorem toGoFStanza_injective : ∀ a b, toGoFStanza a = toGoFStanza b → a = b := by
  intro a b h
  rw [← fromGoFStanza_toGoFStanza a, h, fromGoFStanza_toGoFStanza]

theorem toGoHeader_injective : ∀ a b, toGoHeader a = toGoHeader b → a = b := by
  intro a b h
  rw [← fromGoHeader_toGoHeader a, h, fromGoHeader_toGoHeader]

theorem toNat_two_pow (n : Nat) : ((2 : Int) ^ n).toNat = 2 ^ n := by
  have : ((2 : Int) ^ n) = ((2 ^ n : Nat) : Int) := by simp
  rw [this, Int.toNat_natCast]

/-- `scrypt.Key` recovers the work factor from `N = 2^logN`; `aeadDecrypt` is the model's sized decryption -/
def ScryptEnv.witness : ScryptEnv Prims.toy16 where
  D a := .ok (match Format.decodeString a with
              | some b => (b, none)
              | none => ([], some ⟨"format.DecodeString", 0, []⟩))
  K pw salt N _ _ _ := .ok (Prims.toy16.scrypt pw salt (Nat.log2 N.toNat), none)
  A k size body := .ok (match aeadDecryptSized Prims.toy16 k size.toNat body with
                        | .key fk => (fk, none)
                        | .fatal => ([], age_errIncorrectCiphertextSize)
                        | .incorrect => ([], some ⟨"chacha20poly1305: message authentication failed", 0, []⟩))
  eD := ⟨"format.DecodeString", 0, []⟩
  eA := ⟨"chacha20poly1305: message authentication failed", 0, []⟩
  hD _ := rfl
  hK pw salt logN := by rw [toNat_two_pow, Nat.log2_two_pow]
  hA _ _ := rfl
  hne := by decide

/-- the HKDF reader is the 32 bytes it will deliver -/
def NativeEnv.witness : NativeEnv Prims.toy16 Bytes where
  toScryptEnv := ScryptEnv.witness
  X a b := .ok (match Prims.toy16.x25519 a b with
                | some c => (c, none)
                | none => ([], some ⟨"curve25519.X25519", 0, []⟩))
  eX := ⟨"curve25519.X25519", 0, []⟩
  hX _ _ := rfl
  Enc b := .ok (B64.encRaw b)
  hEnc _ := rfl
  H s salt info := .ok (Prims.toy16.hkdf s salt info 32)
  R k _ := .ok (k, none, k)
  hHR s salt info := ⟨_, _, rfl, rfl⟩
  hLen s salt info := by simp [Prims.toy16, Prims.toy]
  Seal k pt := .ok (Prims.toy16.wrapSeal k pt, none)
  hSeal _ _ := rfl
  eRand := ⟨"crypto/rand", 0, []⟩

/-- an SSH public key is its wire form -/
def SshEnv.witness : SshEnv Prims.toy16 Bytes Bytes where
  toNativeEnv := NativeEnv.witness
  wire := id
  Mar k := .ok k
  hMar _ := rfl
  Fp k := .ok (sshTag Prims.toy16 k)
  hFp _ := rfl
  OpenS k ct := .ok (match Prims.toy16.wrapOpen k ct with
                     | some fk => (fk, none)
                     | none => ([], some ⟨"chacha20poly1305: message authentication failed", 0, []⟩))
  eO := ⟨"chacha20poly1305: message authentication failed", 0, []⟩
  hOpen _ _ := rfl

/-- RSA keys are their byte forms -/
def RsaEnv.witness : RsaEnv Prims.toy16 Bytes Bytes Bytes where
  wire := id
  Fp k := .ok (sshTag Prims.toy16 k)
  hFp _ := rfl
  pubOf := id
  privOf := id
  eRand := ⟨"crypto/rand", 0, []⟩
  eEnc := ⟨"rsa.EncryptOAEP", 0, []⟩
  eDec := ⟨"rsa.DecryptOAEP", 0, []⟩
  EncO tape k m l := .ok (match draw 32 tape with
    | none => ([], some ⟨"crypto/rand", 0, []⟩, tape)
    | some (seed, t) => match Prims.toy16.oaepEnc k seed m l with
      | some c => (c, none, t)
      | none => ([], some ⟨"rsa.EncryptOAEP", 0, []⟩, t))
  hEncO _ _ _ _ := rfl
  DecO k c l := .ok (match Prims.toy16.oaepDec k c l with
    | some m => (m, none)
    | none => ([], some ⟨"rsa.DecryptOAEP", 0, []⟩))
  hDecO _ _ _ := rfl

/-- the HKDF reader is the 32 bytes it will deliver; the running HMAC is (key, bytes written so far) -/
def MacEnv.witness : MacEnv Prims.toy16 Bytes (Bytes × Bytes) where
  H s salt info := .ok (Prims.toy16.hkdf s salt info 32)
  R k _ := .ok (k, none, k)
  hHR s salt info := ⟨_, _, rfl, rfl⟩
  hLen s salt info := by simp [Prims.toy16, Prims.toy]
  absH := id
  N key := .ok (key, [])
  hN key := ⟨_, rfl, rfl⟩
  M gh h := .ok (none, (h.1, h.2 ++ Format.marshalNoMAC (fromGoHeader gh)))
  hM hdr h := ⟨_, rfl, by
    have := fromGoHeader_toGoHeader hdr
    simp only [toGoHeader] at this
    simp only [id, this]⟩
  S h _ := .ok (Prims.toy16.hmac h.1 h.2)
  hS _ := rfl

/-- an identity whose (impossible in Go) answer "a key, and it is empty" is read as another error -/
def sanitize (P : Prims) (i : Identity) : Identity :=
  .custom fun ss => match i.unwrap P ss with
    | .key [] => .fatal
    | r => r

theorem sanitize_unwrap (P : Prims) (i : Identity) (ss : List Format.Stanza) (h : i.unwrap P ss ≠ .key []) :
    (sanitize P i).unwrap P ss = i.unwrap P ss := by
  show (match i.unwrap P ss with | .key [] => UnwrapResult.fatal | r => r) = _
  split
  · rename_i h'; exact absurd h' h
  · rfl

theorem sanitize_ne (P : Prims) (i : Identity) (ss : List Format.Stanza) : (sanitize P i).unwrap P ss ≠ .key [] := by
  show (match i.unwrap P ss with | .key [] => UnwrapResult.fatal | r => r) ≠ _
  split
  · intro h; cases h
  · rename_i h; exact fun h' => h h'

/-- a Go identity value is a model identity; `idOf` reads the answer "an empty key" as another error
    (`sanitize`; it is the identity on every identity that never gives that answer: `sanitize_unwrap`) -/
def DecryptEnv.witness : DecryptEnv Prims.toy16 Identity where
  D a := .ok (match Format.decodeString a with
              | some b => (b, none)
              | none => ([], some ⟨"format.DecodeString", 0, []⟩))
  eD := ⟨"format.DecodeString", 0, []⟩
  hD _ := rfl
  U i gs := .ok (match (sanitize Prims.toy16 i).unwrap Prims.toy16 (gs.map fromGoStanza) with
                 | .key fk => (fk, none)
                 | .incorrect => ([], age_ErrIncorrectIdentity)
                 | .fatal => ([], some ⟨"age.Identity.Unwrap", 0, []⟩))
  idOf := sanitize Prims.toy16
  hU i ss := by
    refine ⟨_, rfl, ?_⟩
    rw [map_fromGoStanza]
    have hne := sanitize_ne Prims.toy16 i ss
    cases h : (sanitize Prims.toy16 i).unwrap Prims.toy16 ss with
    | key fk =>
      rw [h] at hne
      refine ⟨by simp [resClass], fun _ hfk => hne (by simp only at hfk; rw [hfk]), fun h' => by simp [age_ErrIncorrectIdentity] at h'⟩
    | incorrect => exact ⟨by simp [resClass, age_ErrIncorrectIdentity], fun h' => by simp [age_ErrIncorrectIdentity] at h', fun _ => rfl⟩
    | fatal => exact ⟨by simp [resClass, age_ErrIncorrectIdentity], fun h' => by simp at h', fun _ => rfl⟩
  mac fk gh := .ok (headerMAC Prims.toy16 fk (fromGoHeader gh).stanzas, none)
  hMac fk h := by rw [fromGoHeader_toGoHeader]
  key fk n := .ok (streamKey Prims.toy16 fk n)
  hKey _ _ := rfl
  newReader k p := .ok (k ++ p, none)
  hNew _ _ := rfl

/-- the destination is the model's; `Header.Marshal` writes the header in one piece; for ANY writer-handle type and
    constructor (the handle `stream.NewWriter` returns is a parameter of the structure) -/
def EncryptEnv.witnessW (S : DstSpec) {ω : Type} (nilW : ω) (mkW : Bytes → Dst S → ω) : EncryptEnv Prims.toy16 S Recipient (Dst S) ω where
  eRand := ⟨"crypto/rand", 0, []⟩
  eWrap := ⟨"age.Recipient.Wrap", 0, []⟩
  eW := ⟨"dst: write failed", 0, []⟩
  nilW := nilW
  recOf := id
  W r fk tape := .ok (match wrapOne Prims.toy16 r fk tape with
        | .error () => ([], [], some ⟨"crypto/rand", 0, []⟩, tape)
        | .ok (none, t) => ([], [], some ⟨"age.Recipient.Wrap", 0, []⟩, t)
        | .ok (some (ss, l), t) => (ss.map toGoStanza, l, none, t))
  hW _ _ _ := rfl
  mac fk gh := .ok (headerMAC Prims.toy16 fk (gh.Recipients.map fromGoFStanza), none)
  hMac fk ss m := by simp only [map_fromGoFStanza]
  absD := id
  hdrSegs := []
  marshalF gh d := .ok ((if (writeAll d (segmentBy [] (Format.marshal (fromGoHeader gh)))).2 then none
                          else some ⟨"dst: write failed", 0, []⟩),
                        (writeAll d (segmentBy [] (Format.marshal (fromGoHeader gh)))).1)
  hMarshal h d := ⟨_, by rw [fromGoHeader_toGoHeader]; rfl, rfl⟩
  write d b := .ok ((b.length : Int), (if (d.write b).2 then none else some ⟨"dst: write failed", 0, []⟩), (d.write b).1)
  hWrite _ _ := ⟨_, _, rfl, rfl⟩
  key fk n := .ok (streamKey Prims.toy16 fk n)
  hKey _ _ := rfl
  mkW := mkW
  newWriter k d := .ok (mkW k d, none)
  hNew _ _ := rfl

/-- the writer is (key, destination), `none` the nil `*stream.Writer` returned with an error (ω is an `Option`: for a
    `DstSpec` whose state type is empty `Bytes × Dst S` has no element to serve as `nilW`) -/
def EncryptEnv.witness (S : DstSpec) : EncryptEnv Prims.toy16 S Recipient (Dst S) (Option (Bytes × Dst S)) :=
  EncryptEnv.witnessW S none (fun k d => some (k, d))

end GoTie
end AgeModel
