/-
  Helper lemmas for the key-file model: the line loop, for an arbitrary
  line verdict function `cls`.
-/
import Proofs.KeyFile
namespace AgeModel
namespace KeyFile

variable {Key : Type}

theorem finish_ok_iff (se : Bool) (ids ks : List Key) :
    finish se ids = .ok ks ↔ se = false ∧ ks = ids ∧ ks ≠ [] := by
  unfold finish
  cases se with
  | true => simp
  | false =>
    cases ids with
    | nil => simp
    | cons a as =>
      simp only [Bool.false_eq_true, if_false, List.isEmpty_cons, Except.ok.injEq, true_and]
      constructor
      · intro h; subst h; simp
      · intro h; exact h.1.symm

theorem finish_err_iff (se : Bool) (ids : List Key) (e : KeyFileErr) :
    finish se ids = .error e ↔ (se = true ∧ e = .scanErr) ∨ (se = false ∧ ids = [] ∧ e = .noKeys) := by
  unfold finish
  cases se with
  | true => simp; exact eq_comm
  | false =>
    cases ids with
    | nil => simp; exact eq_comm
    | cons a as => simp

/-- success: no scanner error, no fatal line, the keys of all lines in order, at least one -/
theorem loop_ok_iff (cls : Bytes → LineRes Key) (se : Bool) :
    ∀ (ls : List Bytes) (n : Nat) (ids : List Key) (log : List Nat) (ks : List Key),
    (loop cls se n ls ids log).res = .ok ks ↔
      se = false ∧ (∀ l ∈ ls, fatal (cls l) = false) ∧
      ks = ids ++ ls.filterMap (fun l => keyOf (cls l)) ∧ ks ≠ [] := by
  intro ls
  induction ls with
  | nil =>
    intro n ids log ks
    simp [loop, finish_ok_iff]
  | cons l ls ih =>
    intro n ids log ks
    cases h : cls l <;> simp [loop, h, ih, fatal, keyOf]

/-- failure: either the first fatal line, by number, or the end-of-loop checks -/
theorem loop_err_iff (cls : Bytes → LineRes Key) (se : Bool) :
    ∀ (ls : List Bytes) (n : Nat) (ids : List Key) (log : List Nat) (e : KeyFileErr),
    (loop cls se n ls ids log).res = .error e ↔
      (∃ pre l post, ls = pre ++ l :: post ∧ (∀ l' ∈ pre, fatal (cls l') = false) ∧
        ((cls l = .bad ∧ e = .atLine (n + pre.length + 1)) ∨
         (cls l = .tooLong ∧ e = .lineTooLong (n + pre.length + 1)))) ∨
      ((∀ l ∈ ls, fatal (cls l) = false) ∧
        finish se (ids ++ ls.filterMap (fun l => keyOf (cls l))) = .error e) := by
  intro ls
  induction ls with
  | nil =>
    intro n ids log e
    simp [loop]
  | cons l ls ih =>
    intro n ids log e
    -- shifting a decomposition of `ls` to one of `l :: ls` when `l` is not fatal
    have shift : fatal (cls l) = false → ∀ m : Nat,
        ((∃ pre x post, ls = pre ++ x :: post ∧ (∀ l' ∈ pre, fatal (cls l') = false) ∧
          ((cls x = .bad ∧ e = .atLine (m + 1 + pre.length + 1)) ∨
           (cls x = .tooLong ∧ e = .lineTooLong (m + 1 + pre.length + 1)))) ↔
         (∃ pre x post, l :: ls = pre ++ x :: post ∧ (∀ l' ∈ pre, fatal (cls l') = false) ∧
          ((cls x = .bad ∧ e = .atLine (m + pre.length + 1)) ∨
           (cls x = .tooLong ∧ e = .lineTooLong (m + pre.length + 1))))) := by
      intro hnf m
      constructor
      · rintro ⟨pre, x, post, hls, hpre, hx⟩
        refine ⟨l :: pre, x, post, by simp [hls], ?_, ?_⟩
        · intro l' hl'
          rcases List.mem_cons.mp hl' with h | h
          · subst h; exact hnf
          · exact hpre l' h
        · simp only [List.length_cons]
          have : m + (pre.length + 1) + 1 = m + 1 + pre.length + 1 := by omega
          rw [this]; exact hx
      · rintro ⟨pre, x, post, hls, hpre, hx⟩
        cases pre with
        | nil =>
          simp only [List.nil_append, List.cons.injEq] at hls
          obtain ⟨hlx, _⟩ := hls
          subst hlx
          rcases hx with ⟨hb, _⟩ | ⟨hb, _⟩ <;> simp [hb, fatal] at hnf
        | cons p pre =>
          simp only [List.cons_append, List.cons.injEq] at hls
          obtain ⟨hlp, hls⟩ := hls
          refine ⟨pre, x, post, hls, fun l' hl' => hpre l' (by simp [hl']), ?_⟩
          simp only [List.length_cons] at hx
          have : m + (pre.length + 1) + 1 = m + 1 + pre.length + 1 := by omega
          rw [this] at hx; exact hx
    cases h : cls l with
    | blank =>
      have hnf : fatal (cls l) = false := by simp [h, fatal]
      simp only [loop, h]
      rw [ih, shift hnf n]
      simp [h, fatal, keyOf]
    | key k =>
      have hnf : fatal (cls l) = false := by simp [h, fatal]
      simp only [loop, h]
      rw [ih, shift hnf n]
      simp [h, fatal, keyOf]
    | ignored =>
      have hnf : fatal (cls l) = false := by simp [h, fatal]
      simp only [loop, h]
      rw [ih, shift hnf n]
      simp [h, fatal, keyOf]
    | bad =>
      simp only [loop, h]
      constructor
      · intro he
        simp only [Except.error.injEq] at he
        exact Or.inl ⟨[], l, ls, rfl, by simp, Or.inl ⟨h, by simp [he]⟩⟩
      · rintro (⟨pre, x, post, hls, hpre, hx⟩ | ⟨hall, _⟩)
        · cases pre with
          | nil =>
            simp only [List.nil_append, List.cons.injEq] at hls
            obtain ⟨hlx, _⟩ := hls
            subst hlx
            rcases hx with ⟨_, he⟩ | ⟨hb, _⟩
            · simp [he]
            · rw [h] at hb; cases hb
          | cons p pre =>
            simp only [List.cons_append, List.cons.injEq] at hls
            have := hpre p (by simp)
            rw [← hls.1, h] at this
            simp [fatal] at this
        · have := hall l (by simp)
          rw [h] at this
          simp [fatal] at this
    | tooLong =>
      simp only [loop, h]
      constructor
      · intro he
        simp only [Except.error.injEq] at he
        exact Or.inl ⟨[], l, ls, rfl, by simp, Or.inr ⟨h, by simp [he]⟩⟩
      · rintro (⟨pre, x, post, hls, hpre, hx⟩ | ⟨hall, _⟩)
        · cases pre with
          | nil =>
            simp only [List.nil_append, List.cons.injEq] at hls
            obtain ⟨hlx, _⟩ := hls
            subst hlx
            rcases hx with ⟨hb, _⟩ | ⟨_, he⟩
            · rw [h] at hb; cases hb
            · simp [he]
          | cons p pre =>
            simp only [List.cons_append, List.cons.injEq] at hls
            have := hpre p (by simp)
            rw [← hls.1, h] at this
            simp [fatal] at this
        · have := hall l (by simp)
          rw [h] at this
          simp [fatal] at this

/-- the warnings: exactly the `ignored` lines before the first fatal one -/
theorem loop_skipped (cls : Bytes → LineRes Key) (se : Bool) :
    ∀ (ls : List Bytes) (n : Nat) (ids : List Key) (log : List Nat),
    (loop cls se n ls ids log).skipped =
      log ++ ignoredNums cls n (ls.takeWhile (fun l => !fatal (cls l))) := by
  intro ls
  induction ls with
  | nil => intro n ids log; simp [loop, ignoredNums]
  | cons l ls ih =>
    intro n ids log
    cases h : cls l <;> simp [loop, h, ih, fatal, ignoredNums, List.takeWhile]

theorem mem_ignoredNums (cls : Bytes → LineRes Key) :
    ∀ (ls : List Bytes) (n m : Nat),
    m ∈ ignoredNums cls n ls ↔ ∃ i l, ls[i]? = some l ∧ cls l = .ignored ∧ m = n + i + 1 := by
  intro ls
  induction ls with
  | nil => intro n m; simp [ignoredNums]
  | cons l ls ih =>
    intro n m
    have tail : (∃ i x, ls[i]? = some x ∧ cls x = .ignored ∧ m = n + 1 + i + 1) ↔
        (∃ i x, (l :: ls)[i + 1]? = some x ∧ cls x = .ignored ∧ m = n + (i + 1) + 1) := by
      constructor
      · rintro ⟨i, x, h1, h2, h3⟩; exact ⟨i, x, by simpa using h1, h2, by omega⟩
      · rintro ⟨i, x, h1, h2, h3⟩; exact ⟨i, x, by simpa using h1, h2, by omega⟩
    have split : (∃ i x, (l :: ls)[i]? = some x ∧ cls x = .ignored ∧ m = n + i + 1) ↔
        ((cls l = .ignored ∧ m = n + 1) ∨
         (∃ i x, (l :: ls)[i + 1]? = some x ∧ cls x = .ignored ∧ m = n + (i + 1) + 1)) := by
      constructor
      · rintro ⟨i, x, h1, h2, h3⟩
        cases i with
        | zero =>
          simp only [List.getElem?_cons_zero, Option.some.injEq] at h1
          subst h1; exact Or.inl ⟨h2, by omega⟩
        | succ i => exact Or.inr ⟨i, x, h1, h2, h3⟩
      · rintro (⟨h2, h3⟩ | ⟨i, x, h1, h2, h3⟩)
        · exact ⟨0, l, by simp, h2, by omega⟩
        · exact ⟨i + 1, x, h1, h2, h3⟩
    rw [split, ← tail, ← ih]
    cases h : cls l <;> simp [ignoredNums, h]

theorem takeWhile_all {α : Type} (p : α → Bool) (l : List α) (h : ∀ x ∈ l, p x = true) :
    l.takeWhile p = l := by
  induction l with
  | nil => rfl
  | cons a l ih =>
    simp only [List.takeWhile, h a (by simp)]
    rw [ih (fun x hx => h x (by simp [hx]))]

/-- once a fatal line is reached nothing else matters: not its content (only its
    kind), not what follows, not the scanner's final state -/
theorem loop_swap_fatal (cls : Bytes → LineRes Key) (se se' : Bool) (l l' : Bytes) (post post' : List Bytes)
    (h : cls l = cls l') (hf : fatal (cls l) = true) :
    ∀ (pre : List Bytes) (n : Nat) (ids : List Key) (log : List Nat),
    loop cls se n (pre ++ l :: post) ids log = loop cls se' n (pre ++ l' :: post') ids log := by
  intro pre
  induction pre with
  | nil =>
    intro n ids log
    simp only [List.nil_append, loop]
    rw [← h]
    cases hc : cls l <;> simp [hc, fatal] at hf ⊢
  | cons p pre ih =>
    intro n ids log
    simp only [List.cons_append, loop]
    cases cls p <;> simp only [ih]

theorem scanFrom_append (maxTok : Nat) (pre rs : List Bytes) (h : ∀ r ∈ pre, r.length < maxTok) :
    scanFrom maxTok (pre ++ rs) =
      ⟨pre.map dropCR ++ (scanFrom maxTok rs).lines, (scanFrom maxTok rs).err⟩ := by
  induction pre with
  | nil => simp
  | cons p pre ih =>
    have h1 : ¬ maxTok ≤ p.length := by have := h p (by simp); omega
    have h2 := ih (fun r' hr' => h r' (by simp [hr']))
    simp [scanFrom, h1, h2]

end KeyFile
end AgeModel
