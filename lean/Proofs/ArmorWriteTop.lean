/-
  Proofs.ArmorWriteTop — whole-run statements about the armored writer.
-/
import Proofs.ArmorWrite
import Proofs.StreamWriter
namespace AgeModel
namespace Armor
open Stream

variable {S : DstSpec}

def aopsOf (segs : List (Bytes × List Nat)) : List AOp := segs.map (fun x => AOp.write x.1 x.2) ++ [AOp.close]

theorem arun_ok (acc0 : Bytes) : ∀ (segs : List (Bytes × List Nat)) (a : AWriter S) (D : Bytes), AInv acc0 a D →
    (∀ r ∈ (a.run (aopsOf segs)).2, r = none) →
    (a.run (aopsOf segs)).1.dst.acc = acc0 ++ armor (D ++ (segs.map (·.1)).flatten) := by
  intro segs
  induction segs with
  | nil =>
    intro a D hinv hall
    simp only [aopsOf, List.map_nil, List.nil_append, AWriter.run, AWriter.step] at hall ⊢
    generalize hc : a.close = rc at hall
    obtain ⟨a', e⟩ := rc
    simp only [List.mem_singleton, forall_eq] at hall
    subst hall
    simp [aclose_ok acc0 a a' D hinv hc]
  | cons x segs ih =>
    intro a D hinv hall
    simp only [aopsOf, List.map_cons, List.cons_append, AWriter.run, AWriter.step] at hall ⊢
    generalize hw : a.write x.1 x.2 = rw at hall
    obtain ⟨a1, e⟩ := rw
    simp only [List.mem_cons, forall_eq_or_imp] at hall
    obtain ⟨he, hrest⟩ := hall
    subst he
    have hinv1 := awrite_ok acc0 a a1 D x.1 x.2 hinv hw
    have := ih a1 (D ++ x.1) hinv1 (by simpa [aopsOf] using hrest)
    simp only [aopsOf] at this
    rw [this]; simp

theorem ensureHeader_neverFails (hS : S.NeverFails) (a : AWriter S) : (a.ensureHeader).2 = true := by
  unfold AWriter.ensureHeader
  split
  · rfl
  · have := Dst.write_neverFails hS a.dst (header ++ [Format.nl])
    generalize hw : a.dst.write (header ++ [Format.nl]) = r at this
    obtain ⟨d', ok⟩ := r
    simp only at this; subst this; rfl

theorem emit_neverFails (hS : S.NeverFails) (a : AWriter S) (cs : Bytes) (segs : List Nat) : (a.emit cs segs).2 = true := by
  unfold AWriter.emit
  have := writeAll_neverFails hS (segmentBy segs (wrapCols a.written cs).1) a.dst
  generalize hw : writeAll a.dst _ = r at this
  obtain ⟨d', ok⟩ := r
  simp only at this; subst this; rfl

theorem awrite_neverFails (hS : S.NeverFails) (acc0 : Bytes) (a : AWriter S) (D p : Bytes) (segs : List Nat)
    (hinv : AInv acc0 a D) : (a.write p segs).2 = none := by
  unfold AWriter.write
  have h1 := ensureHeader_neverFails hS a
  generalize hh : a.ensureHeader = r at h1
  obtain ⟨a1, ok⟩ := r
  simp only at h1; subst h1
  simp only
  obtain ⟨_, _, h1e, _⟩ := ensureHeader_ok a a1 hh
  rw [hinv.2.1] at h1e
  simp only [h1e, Bool.false_eq_true, if_false]
  have h2 := emit_neverFails hS a1 (B64.encStd ((a1.pending ++ p).take ((a1.pending ++ p).length / 3 * 3))) segs
  generalize he : a1.emit _ segs = r2 at h2
  obtain ⟨a2, ok2⟩ := r2
  simp only at h2; subst h2
  rfl

theorem aclose_neverFails (hS : S.NeverFails) (acc0 : Bytes) (a : AWriter S) (D : Bytes)
    (hinv : AInv acc0 a D) : (a.close).2 = none := by
  unfold AWriter.close
  simp only [hinv.1, Bool.false_eq_true, if_false]
  have h1 := ensureHeader_neverFails hS ({ a with closed := true } : AWriter S)
  generalize hh : AWriter.ensureHeader _ = r at h1
  obtain ⟨a1, ok⟩ := r
  simp only at h1; subst h1
  simp only
  obtain ⟨_, _, h1e, _⟩ := ensureHeader_ok _ a1 hh
  simp only at h1e
  rw [hinv.2.1] at h1e
  simp only [h1e, Bool.false_eq_true, if_false]
  have h2 : (if a1.pending.isEmpty then (a1, true) else a1.emit (B64.encStd a1.pending) []).2 = true := by
    split
    · rfl
    · exact emit_neverFails hS a1 _ []
  generalize he : (if a1.pending.isEmpty then (a1, true) else a1.emit (B64.encStd a1.pending) []) = r2 at h2
  obtain ⟨a2, ok2⟩ := r2
  simp only at h2; subst h2
  simp only
  unfold AWriter.writeFooter
  have h3 := Dst.write_neverFails hS ({ a2 with pending := [] } : AWriter S).dst
    ((if ({ a2 with pending := [] } : AWriter S).written % 64 = 0 then [] else [Format.nl]) ++ footer ++ [Format.nl])
  generalize hw : Dst.write _ _ = r3 at h3
  obtain ⟨d3, ok3⟩ := r3
  simp only at h3; subst h3
  rfl

theorem arun_neverFails (hS : S.NeverFails) (acc0 : Bytes) : ∀ (segs : List (Bytes × List Nat)) (a : AWriter S) (D : Bytes),
    AInv acc0 a D → ∀ r ∈ (a.run (aopsOf segs)).2, r = none := by
  intro segs
  induction segs with
  | nil =>
    intro a D hinv r hr
    simp only [aopsOf, List.map_nil, List.nil_append, AWriter.run, AWriter.step] at hr
    have := aclose_neverFails hS acc0 a D hinv
    generalize hc : a.close = rc at hr this
    obtain ⟨a', e⟩ := rc
    simp only [List.mem_singleton] at hr
    subst hr; exact this
  | cons x segs ih =>
    intro a D hinv r hr
    simp only [aopsOf, List.map_cons, List.cons_append, AWriter.run, AWriter.step] at hr
    have hw0 := awrite_neverFails hS acc0 a D x.1 x.2 hinv
    generalize hw : a.write x.1 x.2 = rw at hr hw0
    obtain ⟨a1, e⟩ := rw
    simp only at hw0; subst hw0
    simp only [List.mem_cons] at hr
    rcases hr with rfl | hr
    · rfl
    · exact ih a1 (D ++ x.1) (awrite_ok acc0 a a1 D x.1 x.2 hinv hw) r (by simpa [aopsOf] using hr)

end Armor
end AgeModel
