/-
  Proofs.GoTieCliMain — `main` of cmd/age/age.go from the flag-conflict `switch` to its end, as it
  stands in the source.

  Translated on every run (`funcSpec.startAt`: flag parsing, `-version` and the "too many arguments"
  hints are outside the fragment; one explicit outside state; `errorf` / `errorWithHint` are exit
  sites; the three `defer`s that stand inside branches run at the end exactly when their branch was
  taken). The theorems tie it to the model of Props/C15 (`Cli.flagCheck`, `Cli.prepare`):
  * every flag conflict the model names ends the process at the corresponding site, before anything
    is looked at, opened or started (`main_flagCheck`);
  * an output whose absolute path is that of an `-i` file, an `-R` file or the input is refused
    BEFORE the output is opened: `newLazyOpener` is never reached (`main_sameFile`);
  * otherwise exactly one of the four mode functions is called, chosen as the model says, on an
    output that is the lazy opener when `-o` names a file (`main_dispatch`), and `main` returns only
    if that opener's `Close` reports success (`main_close_checked`).
-/
import AgeModel.Cli
import AgeModel.Extracted.Funcs
namespace AgeModel
namespace GoTie
open Extracted Cli

/-- everything `main` calls -/
structure MainEnv (ζ τ : Type) where
  nilZ : ζ
  AP : Bytes → τ → Go.M (Bytes × τ)
  stdin : ζ
  stdout : ζ
  Arg : Int → τ → Go.M (Bytes × τ)
  Open : Bytes → τ → Go.M (ζ × Option Go.Err × τ)
  SetStdin : Bool → τ → Go.M τ
  Fd : ζ → τ → Go.M (Int × τ)
  IsT : Int → τ → Go.M (Bool × τ)
  BufIn : ζ → τ → Go.M (ζ × Option Go.Err × τ)
  NL : Bytes → τ → Go.M (ζ × τ)
  same : ζ → ζ → Bool
  bufV : ζ
  DP : ζ → ζ → τ → Go.M τ
  DNP : List main_identityFlag → ζ → ζ → τ → Go.M τ
  EP : ζ → ζ → Bool → τ → Go.M τ
  ENP : List Bytes → List Bytes → List main_identityFlag → ζ → ζ → Bool → τ → Go.M τ
  Cp : ζ → ζ → τ → Go.M (Int × Option Go.Err × τ)
  WCl : ζ → τ → Go.M (Option Go.Err × τ)
  FCl : ζ → τ → Go.M (Option Go.Err × τ)

/-- the translated `main` under an environment -/
def MainEnv.run {ζ τ : Type} (E : MainEnv ζ τ) (outFlag : Bytes) (d e p a : Bool) (rs rfs : List Bytes)
    (ids : List main_identityFlag) (t0 : τ) : Go.M τ :=
  main_main E.nilZ E.AP E.stdin E.stdout E.Arg E.Open E.SetStdin E.Fd E.IsT E.BufIn E.NL E.same E.bufV E.DP E.DNP E.EP E.ENP
    E.Cp E.WCl E.FCl outFlag d e p a rs rfs ids t0

/-- a `-i` / `-j` flag as `flag.Func` recorded it -/
def main_toFlag : IdKind × Bytes → main_identityFlag
  | (.i, v) => ⟨[105], v⟩
  | (.j, v) => ⟨[106], v⟩

/-- the exit site of each flag conflict -/
def main_flagSite : ErrClass → Nat
  | .encDec => 0 | .armorDec => 1 | .passDec => 2 | .recDec => 3 | .recFileDec => 4
  | .idNoEncrypt => 5 | .missingRecipients => 6 | .passRec => 7 | .passRecFile => 8 | .passId => 9
  | _ => 99

/-- the flags `main` still reads after the flag switch -/
structure MainFlags where
  out : Bytes
  d : Bool
  p : Bool
  a : Bool
  rs : List Bytes
  rfs : List Bytes
  ids : List main_identityFlag

section
variable {ζ τ : Type} (E : MainEnv ζ τ) (F : MainFlags)

/-- the deferred `f.Close()` of the input -/
def mainEnd1 (d1 : Bool) (f : ζ) (t : τ) : Go.M τ :=
  if d1 then do
    let c ← E.FCl f t
    pure c.2
  else pure t

/-- the deferred, checked `Close` of the lazy opener -/
def mainEnd2 (d1 : Bool) (f : ζ) (d2 : Bool) (f2 : ζ) (t : τ) : Go.M τ :=
  if d2 then do
    let c ← E.WCl f2 t
    if c.1 != none then throw (Go.Fault.panic 1014) else mainEnd1 E d1 f c.2
  else mainEnd1 E d1 f t

/-- the deferred copy of the buffered output -/
def mainEnd3 (d1 : Bool) (f : ζ) (d2 : Bool) (f2 : ζ) (d3 : Bool) (buf : ζ) (t : τ) : Go.M τ :=
  if d3 then do
    let c ← E.Cp E.stdout buf t
    mainEnd2 E d1 f d2 f2 c.2.2
  else mainEnd2 E d1 f d2 f2 t

/-- the final `switch` -/
def mainMode (d1 : Bool) (f : ζ) (d2 : Bool) (f2 : ζ) (d3 : Bool) (buf : ζ) (inp out : ζ) (t : τ) : Go.M τ :=
  if (F.d && (Go.len F.ids == (0 : Int))) then do
    let t' ← E.DP inp out t
    mainEnd3 E d1 f d2 f2 d3 buf t'
  else if F.d then do
    let t' ← E.DNP F.ids inp out t
    mainEnd3 E d1 f d2 f2 d3 buf t'
  else if F.p then do
    let t' ← E.EP inp out F.a t
    mainEnd3 E d1 f d2 f2 d3 buf t'
  else do
    let t' ← E.ENP F.rs F.rfs F.ids inp out F.a t
    mainEnd3 E d1 f d2 f2 d3 buf t'

/-- standard output is a terminal: is the input one too? -/
def mainOutT (d1 : Bool) (f : ζ) (inp : ζ) (t : τ) : Go.M τ := do
  let t19 ← E.Fd E.stdin t
  let t20 ← E.IsT t19.1 t19.2
  let l ← (if E.same inp E.stdin then pure t20.1 else pure false : Go.M Bool)
  if l then mainMode E F d1 f false E.nilZ true E.bufV inp E.bufV t20.2
  else mainMode E F d1 f false E.nilZ false E.nilZ inp E.stdout t20.2

/-- the output side -/
def mainOut (d1 : Bool) (f : ζ) (iu : List Bytes) (inp : ζ) (t : τ) : Go.M τ :=
  if (F.out != ([] : List UInt8)) && (F.out != ([45] : List UInt8)) then do
    let r ← main_main_loop3 E.AP F.out iu t
    match r with
    | .ret v => pure v
    | .next t' => do
      let o ← E.NL F.out t'
      mainMode E F d1 f true o.1 false E.nilZ inp o.1 o.2
  else do
    let t17 ← E.Fd E.stdout t
    let t18 ← E.IsT t17.1 t17.2
    if t18.1 then
      if F.out != ([45] : List UInt8) then
        if F.d then mainOutT E F d1 f inp t18.2
        else if !F.a then throw (Go.Fault.panic 1013)
        else mainOutT E F d1 f inp t18.2
      else mainOutT E F d1 f inp t18.2
    else mainMode E F d1 f false E.nilZ false E.nilZ inp E.stdout t18.2

/-- the input side -/
def mainIn (iu : List Bytes) (t : τ) : Go.M τ := do
  let t7 ← E.Arg 0 t
  if (t7.1 != ([] : List UInt8)) && (t7.1 != ([45] : List UInt8)) then do
    let t8 ← E.AP t7.1 t7.2
    let t9 ← E.Open t7.1 t8.2
    if t9.2.1 != none then throw (Go.Fault.panic 1010)
    else mainOut E F true t9.1 (iu ++ [t8.1]) t9.1 t9.2.2
  else do
    let t' ← E.SetStdin true t7.2
    let t10 ← E.Fd E.stdin t'
    let t11 ← E.IsT t10.1 t10.2
    let l ← (if F.d then pure t11.1 else pure false : Go.M Bool)
    if l then do
      let t12 ← E.BufIn E.stdin t11.2
      if t12.2.1 != none then throw (Go.Fault.panic 1011)
      else mainOut E F false E.nilZ iu t12.1 t12.2.2
    else mainOut E F false E.nilZ iu E.stdin t11.2

/-- everything after the flag switch -/
def mainRest (t : τ) : Go.M τ := do
  let r1 ← main_main_loop1 E.AP F.ids t []
  match r1 with
  | .ret v => pure v
  | .next (t', iu) => do
    let r2 ← main_main_loop2 E.AP F.rfs t' iu
    match r2 with
    | .ret v => pure v
    | .next (t'', iu') => mainIn E F iu' t''
end

theorem main_run_eq {ζ τ : Type} (E : MainEnv ζ τ) (outFlag : Bytes) (d e p a : Bool)
    (rs rfs : List Bytes) (ids : List main_identityFlag) (t0 : τ) :
    E.run outFlag d e p a rs rfs ids t0 =
      if d then
        if e then .error (.panic 1000)
        else if a then .error (.panic 1001)
        else if p then .error (.panic 1002)
        else if decide (Go.len rs > 0) then .error (.panic 1003)
        else if decide (Go.len rfs > 0) then .error (.panic 1004)
        else mainRest E ⟨outFlag, d, p, a, rs, rfs, ids⟩ t0
      else
        if (decide (Go.len ids > 0) && !e) then .error (.panic 1005)
        else if (Go.len rs + Go.len rfs + Go.len ids == 0 && !p) then .error (.panic 1006)
        else if (decide (Go.len rs > 0) && p) then .error (.panic 1007)
        else if (decide (Go.len rfs > 0) && p) then .error (.panic 1008)
        else if (decide (Go.len ids > 0) && p) then .error (.panic 1009)
        else mainRest E ⟨outFlag, d, p, a, rs, rfs, ids⟩ t0 := by
  rfl


theorem main_len_pos_eq {α : Type} (l : List α) : decide (Go.len l > 0) = !l.isEmpty := by
  cases l with
  | nil => rfl
  | cons x xs => simp [Go.len] <;> omega

theorem main_len_sum_eq {α β γ : Type} (l1 : List α) (l2 : List β) (l3 : List γ) :
    (Go.len l1 + Go.len l2 + Go.len l3 == 0) = (l1.isEmpty && l2.isEmpty && l3.isEmpty) := by
  cases l1 <;> cases l2 <;> cases l3 <;> simp [Go.len] <;> omega

theorem main_len_zero_eq {α : Type} (l : List α) : (Go.len l == 0) = l.isEmpty := by
  cases l <;> simp [Go.len] <;> omega

/-- the model's flag check, on the source: whatever the environment, a conflict the model names ends the process at its
    site -/
theorem main_flagCheck {ζ τ : Type} (E : MainEnv ζ τ) (a : Args) (err : ErrClass) (h : flagCheck a = some err) (t0 : τ) :
    E.run a.output a.decrypt a.encrypt a.passphrase a.armor a.recipients a.recipientsFiles (a.identities.map main_toFlag) t0 =
      .error (.panic (1000 + main_flagSite err)) := by
  rw [main_run_eq]
  simp only [main_len_pos_eq, main_len_sum_eq, List.isEmpty_map]
  unfold flagCheck at h
  repeat' split at h
  all_goals first | cases h | skip
  all_goals simp [*, main_flagSite]

/-- `absPath` as a function (it does not touch the outside state) -/
def main_pureAP {τ : Type} (ap : Bytes → Bytes) : Bytes → τ → Go.M (Bytes × τ) := fun b t => .ok (ap b, t)

/-- the names whose files the run reads, as `main` collects them -/
def main_inUse (ap : Bytes → Bytes) (ids : List (IdKind × Bytes)) (rfs : List Bytes) (inputName : Bytes) : List Bytes :=
  ((ids.filter fun f => f.1 = .i).map fun f => ap f.2) ++ rfs.map ap ++
    (if inputName ≠ [] ∧ inputName ≠ [45] then [ap inputName] else [])

/-- without a flag conflict `main` is what follows the flag switch -/
theorem main_prefix {ζ τ : Type} (E : MainEnv ζ τ) (a : Args) (h : flagCheck a = none) (t0 : τ) :
    E.run a.output a.decrypt a.encrypt a.passphrase a.armor a.recipients a.recipientsFiles (a.identities.map main_toFlag) t0 =
      mainRest E ⟨a.output, a.decrypt, a.passphrase, a.armor, a.recipients, a.recipientsFiles, a.identities.map main_toFlag⟩ t0 := by
  rw [main_run_eq]
  simp only [main_len_pos_eq, main_len_sum_eq, List.isEmpty_map]
  unfold flagCheck at h
  repeat' split at h
  all_goals first | cases h | skip
  all_goals simp [*]

theorem main_loop1_eq {τ : Type} (ap : Bytes → Bytes) (ids : List (IdKind × Bytes)) (t : τ) (acc : List Bytes) :
    main_main_loop1 (main_pureAP ap) (ids.map main_toFlag) t acc =
      .ok (.next (t, acc ++ ((ids.filter fun f => f.1 = .i).map fun f => ap f.2))) := by
  induction ids generalizing acc with
  | nil => simp [main_main_loop1, pure, Except.pure]
  | cons x xs ih =>
    obtain ⟨k, v⟩ := x
    cases k
    · simp [main_main_loop1, main_toFlag, main_pureAP, bind, Except.bind, ih]
    · simp [main_main_loop1, main_toFlag, ih]

theorem main_loop2_eq {τ : Type} (ap : Bytes → Bytes) (rfs : List Bytes) (t : τ) (acc : List Bytes) :
    main_main_loop2 (main_pureAP ap) rfs t acc = .ok (.next (t, acc ++ rfs.map ap)) := by
  induction rfs generalizing acc with
  | nil => simp [main_main_loop2, pure, Except.pure]
  | cons x xs ih => simp [main_main_loop2, main_pureAP, bind, Except.bind, ih]

theorem main_loop3_hit {τ : Type} (ap : Bytes → Bytes) (name : Bytes) (files : List Bytes) (t : τ) (h : ap name ∈ files) :
    main_main_loop3 (main_pureAP ap) name files t = .error (.panic 1012) := by
  induction files with
  | nil => cases h
  | cons x xs ih =>
    by_cases hx : x = ap name
    · simp [main_main_loop3, main_pureAP, bind, Except.bind, hx, throw, throwThe, MonadExceptOf.throw]
    · have h' : ap name ∈ xs := by
        rcases List.mem_cons.mp h with h | h
        · exact absurd h.symm hx
        · exact h
      simp [main_main_loop3, main_pureAP, bind, Except.bind, hx, ih h']

theorem main_loop3_pass {τ : Type} (ap : Bytes → Bytes) (name : Bytes) (files : List Bytes) (t : τ) (h : ap name ∉ files) :
    main_main_loop3 (main_pureAP ap) name files t = .ok (.next t) := by
  induction files with
  | nil => simp [main_main_loop3, pure, Except.pure]
  | cons x xs ih =>
    have hx : ¬ x = ap name := fun e => h (by simp [e])
    have h' : ap name ∉ xs := fun e => h (List.mem_cons_of_mem _ e)
    simp [main_main_loop3, main_pureAP, bind, Except.bind, hx, ih h']

theorem main_isFile_eq (n : Bytes) : ((n != ([] : List UInt8)) && (n != ([45] : List UInt8))) = decide (n ≠ [] ∧ n ≠ [45]) := by
  by_cases h1 : n = [] <;> by_cases h2 : n = [45] <;> simp [h1, h2]

/-- the same-file refusal: no flag conflict, the input (if any) opens, `-o` names a file whose absolute path is in use —
    the process ends at site 12 and `newLazyOpener` (here: a function that faults) is never reached -/
theorem main_sameFile {ζ τ : Type} (E : MainEnv ζ τ) (ap : Bytes → Bytes) (a : Args) (hfc : flagCheck a = none)
    (inputName : Bytes) (hArg : ∀ t, E.Arg 0 t = .ok (inputName, t))
    (hOpen : ∀ n t, ∃ f t', E.Open n t = .ok (f, none, t'))
    (hSet : ∀ b t, ∃ t', E.SetStdin b t = .ok t') (hFd : ∀ z t, ∃ n t', E.Fd z t = .ok (n, t'))
    (hIsT : ∀ n t, ∃ t', E.IsT n t = .ok (false, t'))
    (hAP : E.AP = main_pureAP ap) (hNL : E.NL = fun _ _ => .error (.panic 77))
    (hout : a.output ≠ [] ∧ a.output ≠ [45]) (hin : ap a.output ∈ main_inUse ap a.identities a.recipientsFiles inputName) (t0 : τ) :
    E.run a.output a.decrypt a.encrypt a.passphrase a.armor a.recipients a.recipientsFiles (a.identities.map main_toFlag) t0 =
      .error (.panic 1012) := by
  have _ := hNL
  rw [main_prefix E a hfc]
  have hob : decide (a.output ≠ [] ∧ a.output ≠ [45]) = true := decide_eq_true hout
  simp only [mainRest, hAP, main_loop1_eq, main_loop2_eq, bind, Except.bind, mainIn, hArg, List.nil_append, main_isFile_eq]
  unfold main_inUse at hin
  by_cases hf : inputName ≠ [] ∧ inputName ≠ [45]
  · obtain ⟨f, t', hO⟩ := hOpen inputName t0
    rw [if_pos hf] at hin
    simp only [decide_eq_true hf, if_true, main_pureAP, hO, bne_self_eq_false, Bool.false_eq_true, if_false,
      mainOut, main_isFile_eq, hob, hAP, bind, Except.bind]
    rw [main_loop3_hit ap _ _ _ hin]
  · obtain ⟨t1, h1⟩ := hSet true t0
    obtain ⟨n, t2, h2⟩ := hFd E.stdin t1
    obtain ⟨t3, h3⟩ := hIsT n t2
    rw [if_neg hf, List.append_nil] at hin
    have hl : (if a.decrypt = true then (pure false : Go.M Bool) else pure false) = .ok false := by
      cases a.decrypt <;> rfl
    simp only [decide_eq_false hf, if_false, Bool.false_eq_true, h1, h2, h3, hl, mainOut, main_isFile_eq, hob, if_true, hAP, bind, Except.bind]
    rw [main_loop3_hit ap _ _ _ hin]

/-- which mode function `main` calls -/
def MainEnv.mode {ζ τ : Type} (E : MainEnv ζ τ) (a : Args) (inp out : ζ) (t : τ) : Go.M τ :=
  if a.decrypt && a.identities.isEmpty then E.DP inp out t
  else if a.decrypt then E.DNP (a.identities.map main_toFlag) inp out t
  else if a.passphrase then E.EP inp out a.armor t
  else E.ENP a.recipients a.recipientsFiles (a.identities.map main_toFlag) inp out a.armor t

theorem mainEnd_file {ζ τ : Type} (E : MainEnv ζ τ) (o : ζ) (r : Go.M τ) :
    (do let t' ← r
        mainEnd3 E false E.nilZ true o false E.nilZ t') =
      (do let t2 ← r
          let c ← E.WCl o t2
          if (c.1 != none) = true then .error (.panic 1014) else pure c.2) := by
  cases r with
  | error e => rfl
  | ok t =>
    simp only [bind, Except.bind, mainEnd3, mainEnd2, mainEnd1, Bool.false_eq_true, if_false, if_true]
    cases E.WCl o t with
    | error e => rfl
    | ok c =>
      simp only []
      split <;> rfl

/-- no flag conflict, input from a standard input that is not a terminal, `-o` names a file that is not in use: the output
    handed to the mode function IS the lazy opener for that name, exactly one mode function is called — the one the model's
    dispatch names — and `main` returns only if the opener's `Close` reports success (site 14 otherwise) -/
theorem main_dispatch_file {ζ τ : Type} (E : MainEnv ζ τ) (ap : Bytes → Bytes) (a : Args) (hfc : flagCheck a = none)
    (hArg : ∀ t, E.Arg 0 t = .ok ([], t)) (hSet : ∀ b t, E.SetStdin b t = .ok t) (hFd : ∀ z t, E.Fd z t = .ok (0, t))
    (hIsT : ∀ n t, E.IsT n t = .ok (false, t)) (hAP : E.AP = main_pureAP ap)
    (hout : a.output ≠ [] ∧ a.output ≠ [45]) (hnot : ap a.output ∉ main_inUse ap a.identities a.recipientsFiles []) (t0 : τ) :
    E.run a.output a.decrypt a.encrypt a.passphrase a.armor a.recipients a.recipientsFiles (a.identities.map main_toFlag) t0 =
      (do let o ← E.NL a.output t0
          let t2 ← E.mode a E.stdin o.1 o.2
          let c ← E.WCl o.1 t2
          if (c.1 != none) = true then .error (.panic 1014) else pure c.2) := by
  rw [main_prefix E a hfc]
  have hob : decide (a.output ≠ [] ∧ a.output ≠ [45]) = true := decide_eq_true hout
  have hl : (if a.decrypt = true then (pure false : Go.M Bool) else pure false) = .ok false := by
    cases a.decrypt <;> rfl
  have hnot' : ap a.output ∉ (List.map (fun f => ap f.snd) (List.filter (fun f => decide (f.fst = IdKind.i)) a.identities) ++
        List.map ap a.recipientsFiles) := by
    simpa [main_inUse] using hnot
  simp only [mainRest, hAP, main_loop1_eq, main_loop2_eq, bind, Except.bind, mainIn, hArg, List.nil_append, main_isFile_eq,
    hSet, hFd, hIsT, hl, Bool.false_eq_true, if_false, mainOut, hob, if_true,
    show decide (([] : List UInt8) ≠ [] ∧ ([] : List UInt8) ≠ [45]) = false from by decide,
    main_loop3_pass ap _ _ _ hnot']
  cases hN : E.NL a.output t0 with
  | error e => rfl
  | ok o =>
    simp only []
    have := mainEnd_file E o.1
    simp only [bind, Except.bind] at this
    simp only [mainMode, MainEnv.mode, main_len_zero_eq, List.isEmpty_map]
    split
    · exact this _
    split
    · exact this _
    split
    · exact this _
    · exact this _

/-- binary output is not sent to a terminal: encrypting without `-a` and without `-o`, with standard output a terminal, ends
    the process (site 13) before any mode function is called — whatever they would do -/
theorem main_binaryToTerminal {ζ τ : Type} (E : MainEnv ζ τ) (ap : Bytes → Bytes) (a : Args) (hfc : flagCheck a = none)
    (hArg : ∀ t, E.Arg 0 t = .ok ([], t)) (hSet : ∀ b t, E.SetStdin b t = .ok t) (hFd : ∀ z t, E.Fd z t = .ok (0, t))
    (hIsT : ∀ n t, E.IsT n t = .ok (true, t)) (hAP : E.AP = main_pureAP ap)
    (hout : a.output = []) (hd : a.decrypt = false) (harm : a.armor = false) (t0 : τ) :
    E.run a.output a.decrypt a.encrypt a.passphrase a.armor a.recipients a.recipientsFiles (a.identities.map main_toFlag) t0 =
      .error (.panic 1013) := by
  rw [main_prefix E a hfc t0]
  simp only [mainRest, hAP, main_loop1_eq, main_loop2_eq, bind, Except.bind, pure, Except.pure]
  simp [mainIn, mainOut, hArg, hSet, hFd, hIsT, hout, hd, harm, bind, Except.bind, pure, Except.pure, throw, throwThe,
    MonadExceptOf.throw]

/-- an input file that cannot be opened ends the process (site 10) before the output is even looked at: `newLazyOpener` and
    the terminal tests are not reached (here they fault when called) -/
theorem main_openInput {ζ τ : Type} (E : MainEnv ζ τ) (ap : Bytes → Bytes) (a : Args) (hfc : flagCheck a = none)
    (inputName : Bytes) (hname : inputName ≠ [] ∧ inputName ≠ [45]) (hArg : ∀ t, E.Arg 0 t = .ok (inputName, t))
    (f : ζ) (e : Go.Err) (hOpen : ∀ n t, E.Open n t = .ok (f, some e, t)) (hAP : E.AP = main_pureAP ap)
    (hNL : E.NL = fun _ _ => .error (.panic 77)) (hFd : E.Fd = fun _ _ => .error (.panic 78)) (t0 : τ) :
    E.run a.output a.decrypt a.encrypt a.passphrase a.armor a.recipients a.recipientsFiles (a.identities.map main_toFlag) t0 =
      .error (.panic 1010) := by
  rw [main_prefix E a hfc t0]
  have h1 : ((inputName != ([] : List UInt8)) && (inputName != ([45] : List UInt8))) = true := by
    rw [main_isFile_eq]; simpa using hname
  have _ := hNL
  have _ := hFd
  simp only [mainRest, hAP, main_loop1_eq, main_loop2_eq, bind, Except.bind, pure, Except.pure]
  simp [mainIn, hArg, h1, hOpen, hAP, main_pureAP, bind, Except.bind, pure, Except.pure, throw, throwThe, MonadExceptOf.throw]

/-- no `-o` (or `-o -`), nothing is a terminal: the mode function writes to standard output itself and nothing is closed or
    copied afterwards -/
theorem main_dispatch_stdout {ζ τ : Type} (E : MainEnv ζ τ) (ap : Bytes → Bytes) (a : Args) (hfc : flagCheck a = none)
    (hArg : ∀ t, E.Arg 0 t = .ok ([], t)) (hSet : ∀ b t, E.SetStdin b t = .ok t) (hFd : ∀ z t, E.Fd z t = .ok (0, t))
    (hIsT : ∀ n t, E.IsT n t = .ok (false, t)) (hAP : E.AP = main_pureAP ap)
    (hout : a.output = [] ∨ a.output = [45]) (t0 : τ) :
    E.run a.output a.decrypt a.encrypt a.passphrase a.armor a.recipients a.recipientsFiles (a.identities.map main_toFlag) t0 =
      E.mode a E.stdin E.stdout t0 := by
  rw [main_prefix E a hfc t0]
  have ho : ((a.output != ([] : List UInt8)) && (a.output != ([45] : List UInt8))) = false := by
    rcases hout with h | h <;> simp [h]
  simp only [mainRest, hAP, main_loop1_eq, main_loop2_eq, bind, Except.bind, pure, Except.pure]
  simp only [mainIn, mainOut, hArg, hSet, hFd, hIsT, ho, bind, Except.bind, pure, Except.pure, bne_self_eq_false,
    Bool.false_and, Bool.false_eq_true, if_false, Bool.and_false, ite_self]
  simp only [mainMode, MainEnv.mode, mainEnd3, mainEnd2, mainEnd1, main_len_zero_eq, List.isEmpty_map, bind, Except.bind, pure,
    Except.pure, Bool.false_eq_true, if_false]
  by_cases h1 : (a.decrypt && a.identities.isEmpty) = true
  · simp only [h1, if_true]; cases E.DP E.stdin E.stdout t0 <;> rfl
  · simp only [h1, if_false, Bool.false_eq_true]
    by_cases h2 : a.decrypt = true
    · simp only [h2, if_true]; cases E.DNP (a.identities.map main_toFlag) E.stdin E.stdout t0 <;> rfl
    · simp only [h2, if_false, Bool.false_eq_true]
      by_cases h3 : a.passphrase = true
      · simp only [h3, if_true]; cases E.EP E.stdin E.stdout a.armor t0 <;> rfl
      · simp only [h3, if_false, Bool.false_eq_true]
        cases E.ENP a.recipients a.recipientsFiles (a.identities.map main_toFlag) E.stdin E.stdout a.armor t0 <;> rfl

/-- armored encryption from a terminal to a terminal: the mode function writes into a buffer, which is copied to standard
    output when `main` returns — after everything else, and whatever that copy reports -/
theorem main_dispatch_buffered {ζ τ : Type} (E : MainEnv ζ τ) (ap : Bytes → Bytes) (a : Args) (hfc : flagCheck a = none)
    (hArg : ∀ t, E.Arg 0 t = .ok ([], t)) (hSet : ∀ b t, E.SetStdin b t = .ok t) (hFd : ∀ z t, E.Fd z t = .ok (0, t))
    (hIsT : ∀ n t, E.IsT n t = .ok (true, t)) (hAP : E.AP = main_pureAP ap) (hsame : E.same E.stdin E.stdin = true)
    (hout : a.output = []) (hd : a.decrypt = false) (harm : a.armor = true) (t0 : τ) :
    E.run a.output a.decrypt a.encrypt a.passphrase a.armor a.recipients a.recipientsFiles (a.identities.map main_toFlag) t0 =
      (do let t2 ← E.mode a E.stdin E.bufV t0
          let c ← E.Cp E.stdout E.bufV t2
          pure c.2.2) := by
  rw [main_prefix E a hfc t0]
  simp only [mainRest, hAP, main_loop1_eq, main_loop2_eq, bind, Except.bind, pure, Except.pure]
  simp only [mainIn, mainOut, mainOutT, hArg, hSet, hFd, hIsT, hout, hd, harm, hsame, bind, Except.bind, pure, Except.pure,
    bne_self_eq_false, Bool.false_and, Bool.false_eq_true, if_false, if_true, Bool.and_false, ite_self, Bool.not_true]
  simp only [mainMode, MainEnv.mode, mainEnd3, mainEnd2, mainEnd1, hd, harm, Bool.false_and, bind, Except.bind, pure,
    Except.pure, Bool.false_eq_true, if_false, if_true]
  by_cases h3 : a.passphrase = true
  · simp only [h3, if_true]
    first
      | done
      | (cases E.EP E.stdin E.bufV true t0 with
         | error e => rfl
         | ok t2 => simp only []; first | rfl | (cases E.Cp E.stdout E.bufV t2 <;> rfl))
  · simp only [h3, if_false, Bool.false_eq_true]
    first
      | done
      | (cases E.ENP a.recipients a.recipientsFiles (a.identities.map main_toFlag) E.stdin E.bufV true t0 with
         | error e => rfl
         | ok t2 => simp only []; first | rfl | (cases E.Cp E.stdout E.bufV t2 <;> rfl))

end GoTie
end AgeModel
