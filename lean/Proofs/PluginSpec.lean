/-
  What a successful run returned (the positive half of C16): the stanzas /
  labels / file key are exactly those the plugin sent before `done`.
-/
import Proofs.PluginStep
namespace AgeModel
namespace Plugin

variable {σ : Type}

theorem beforeDone_cons_done (m : Stanza) (rest : List Stanza) (h : m.type = "done") :
    beforeDone (m :: rest) = [] := by
  simp [beforeDone, h]

theorem beforeDone_cons_other (m : Stanza) (rest : List Stanza) (h : m.type ≠ "done") :
    beforeDone (m :: rest) = m :: beforeDone rest := by
  simp [beforeDone, h]

theorem asWrapped_other (m : Stanza) (h : m.type ≠ "recipient-stanza") : asWrapped m = none := by
  simp [asWrapped, h]

theorem asWrapped_rs (m : Stanza) (h : m.type = "recipient-stanza") (idx ty : String) (as : List String)
    (ha : m.args = idx :: ty :: as) : asWrapped m = some ⟨ty, as, m.body⟩ := by
  simp [asWrapped, h, ha]

/-- a successful wrap returns exactly the stanzas and labels the plugin sent -/
theorem recipient_ok_spec (ui : UI σ) (dec : String → Option Bytes) (s : RState σ) (msgs : List Stanza)
    (e : End) (sts : List Stanza) (l : Option (List String))
    (h : (run (recipientStep ui dec) s msgs e).result = .ok (sts, l)) :
    sts ≠ [] ∧ sts = s.stanzas ++ wrappedOf msgs ∧ l = s.labels.or (labelsOf msgs) := by
  induction msgs generalizing s with
  | nil => simp [run] at h
  | cons m rest ih =>
    by_cases hd : m.type = "done"
    · rw [run_cons_halt (recipientStep_done ui dec s m hd)] at h
      simp only at h
      split at h
      · cases h
      · rename_i hne
        cases h
        simp [wrappedOf, labelsOf, beforeDone_cons_done m rest hd, hne]
    · cases hs : recipientStep ui dec s m with
      | halt rs res =>
        rw [run_cons_halt hs] at h
        exact absurd h ((recipientStep_hardHalt ui dec s m rs res hd hs).not_ok _)
      | next s' r =>
        rw [run_cons_next hs] at h
        obtain ⟨h1, h2, h3⟩ := ih s' h
        refine ⟨h1, ?_, ?_⟩
        · by_cases hr : m.type = "recipient-stanza"
          · obtain ⟨idx, ty, as, ha, _, hs', _⟩ := recipientStep_rs_next ui dec s s' m r hr hs
            rw [h2, hs']
            simp [wrappedOf, beforeDone_cons_other m rest hd, asWrapped_rs m hr idx ty as ha]
          · rw [h2, recipientStep_stanzas_other ui dec s s' m r hr hs]
            simp [wrappedOf, beforeDone_cons_other m rest hd, asWrapped_other m hr]
        · by_cases hl : m.type = "labels"
          · obtain ⟨hnone, hs', _⟩ := recipientStep_labels_next ui dec s s' m r hl hs
            rw [h3, hs', hnone]
            simp [labelsOf, beforeDone_cons_other m rest hd, hl]
          · rw [h3, recipientStep_labels_other ui dec s s' m r hl hs]
            simp [labelsOf, beforeDone_cons_other m rest hd, hl]

/-- a successful unwrap returns exactly the (non-empty) file key the plugin sent -/
theorem identity_ok_spec (ui : UI σ) (dec : String → Option Bytes) (s : IState σ) (msgs : List Stanza)
    (e : End) (k : Bytes) (hinv : s.got = false → s.fileKey = [])
    (h : (run (identityStep ui dec) s msgs e).result = .ok k) :
    k ≠ [] ∧ (if s.got then k = s.fileKey else fileKeyOf msgs = some k) := by
  induction msgs generalizing s with
  | nil => simp [run] at h
  | cons m rest ih =>
    by_cases hd : m.type = "done"
    · rw [run_cons_halt (identityStep_done ui dec s m hd)] at h
      simp only at h
      split at h
      · cases h
      · rename_i hne
        cases h
        refine ⟨hne, ?_⟩
        cases hg : s.got with
        | true => simp
        | false => exact absurd (hinv hg) hne
    · cases hs : identityStep ui dec s m with
      | halt rs res =>
        rw [run_cons_halt hs] at h
        exact absurd h ((identityStep_hardHalt ui dec s m rs res hd hs).not_ok _)
      | next s' r =>
        rw [run_cons_next hs] at h
        by_cases hf : m.type = "file-key"
        · obtain ⟨hg, hg', hk', _, _⟩ := identityStep_filekey_next ui dec s s' m r hf hs
          obtain ⟨h1, h2⟩ := ih s' (by rw [hg']; intro hc; cases hc) h
          refine ⟨h1, ?_⟩
          rw [hg'] at h2
          simp only [if_true] at h2
          rw [hg]
          simp [fileKeyOf, beforeDone_cons_other m rest hd, hf, h2, hk']
        · obtain ⟨hg', hk'⟩ := identityStep_key_other ui dec s s' m r hf hs
          obtain ⟨h1, h2⟩ := ih s' (by rw [hg', hk']; exact hinv) h
          refine ⟨h1, ?_⟩
          rw [hg', hk'] at h2
          cases hg : s.got with
          | true => simpa [hg] using h2
          | false =>
            rw [hg] at h2
            simp only [Bool.false_eq_true, if_false] at h2 ⊢
            simpa [fileKeyOf, beforeDone_cons_other m rest hd, hf] using h2

end Plugin
end AgeModel
