/-
  Proofs.GoTieStreamW — stream.Writer as it stands in the source.

  `(*Writer).Write`, `(*Writer).Close` and `(*Writer).flushChunk` (internal/stream/stream.go)
  are TRANSLATED on every run. `unwritten` is a VIEW into the struct's own `buf`, `freeBuf` a
  local view, `copy` writes through, `Seal(w.buf[:0], …)` appends INTO `buf` (if the sealed
  chunk did not fit, Go would allocate: that is `Go.Fault.alias`, shown unreachable here). The
  AEAD and the destination are abstract. The theorem is a SIMULATION between the translated
  code and the model's Writer machine (AgeModel/Stream.lean): related states, one `Write(p)` /
  `Close()` on each side ⇒ the same reported count, corresponding errors, related states —
  so the theorems of Props/C12, C13, C14 about `Writer.write` / `Writer.close` / `Writer.run`
  speak about the source text (C = 65536, tag 16, fewer than 2^88 chunks).
-/
import AgeModel.GoSem
import AgeModel.Stream
import AgeModel.Extracted.Funcs
import Proofs.GoTieNonce
import Proofs.GoTieStreamR
namespace AgeModel
namespace GoTie
open Extracted Stream

def wrErrRel (g : Option Go.Err) (eW : Go.Err) : Option Outcome → Prop
  | none => g = none
  | some .dstErr => g = some eW
  | some .closed => g = some ⟨"stream.(*Writer).Close", 0, []⟩
  | some _ => False

/-- what is assumed of the abstract destination: it behaves as the model's `Dst S` seen through `absD` -/
structure DstEnv (δ : Type) (S : DstSpec) where
  write : δ → Bytes → Go.M (Int × Option Go.Err × δ)
  absD : δ → Dst S
  eW : Go.Err
  hWrite : ∀ d b, ∃ n d', write d b = .ok (n, (if ((absD d).write b).2 then none else some eW), d') ∧
                    absD d' = ((absD d).write b).1

structure WRel {α δ : Type} {S : DstSpec} (D : DstEnv δ S) (w : stream_Writer α δ) (m : Writer S) : Prop where
  buflen : w.buf.length = 65552
  lo : w.unwritten_lo = 0
  hi : 0 ≤ w.unwritten_hi ∧ w.unwritten_hi ≤ 65536
  buf : m.buf = w.buf.take w.unwritten_hi.toNat
  dst : D.absD w.dst = m.dst
  err : wrErrRel w.err D.eW m.err
  nonce : m.err = none → w.nonce = Stream.nonce m.ctr false

/-! ## helper lemmas (in their own namespace: the Reader file may define lemmas of the same names) -/
namespace WriterTie

theorem reslice_ok (lo cap a b : Int) (h : 0 ≤ a ∧ a ≤ b ∧ lo + b ≤ cap) :
    Go.reslice lo cap a b = .ok (lo + a, lo + b) := by
  unfold Go.reslice; rw [if_pos h]

theorem reslice00 (b : Bytes) : Go.reslice 0 (Go.len b) 0 0 = .ok (0, 0) := by
  rw [reslice_ok]; rfl
  simp only [Go.len, Int.ofNat_eq_natCast]; omega

theorem slice00 (b : Bytes) : Go.slice b 0 0 = .ok [] := by
  unfold Go.slice
  rw [if_pos (by simp only [Int.ofNat_eq_natCast]; omega)]; rfl

theorem slice0_ok (b : Bytes) (hi : Int) (h0 : 0 ≤ hi) (h1 : hi ≤ Int.ofNat b.length) :
    Go.slice b 0 hi = .ok (b.take hi.toNat) := by
  unfold Go.slice; rw [if_pos ⟨Int.le_refl 0, h0, h1⟩]; rfl

theorem writeAt_length (b : Bytes) (lo : Int) (d : Bytes) (h : lo.toNat + d.length ≤ b.length) :
    (Go.writeAt b lo d).length = b.length := by
  unfold Go.writeAt
  simp only [List.length_append, List.length_take, List.length_drop]
  omega

theorem writeAt_take (b : Bytes) (lo : Int) (d : Bytes) (h : lo.toNat + d.length ≤ b.length) :
    (Go.writeAt b lo d).take (lo.toNat + d.length) = b.take lo.toNat ++ d := by
  unfold Go.writeAt
  apply List.take_left'
  simp only [List.length_append, List.length_take]
  omega

theorem slice_writeAt0 (b t : Bytes) (h : t.length ≤ b.length) :
    Go.slice (Go.writeAt b 0 t) 0 (0 + Go.len t) = .ok t := by
  have hl := writeAt_length b 0 t (by simpa using h)
  have ht := writeAt_take b 0 t (by simpa using h)
  rw [slice0_ok _ _ (by simp only [Go.len, Int.ofNat_eq_natCast]; omega)
    (by simp only [Go.len, Int.ofNat_eq_natCast, hl]; omega)]
  have e : (0 + Go.len t).toNat = (0:Int).toNat + t.length := by
    simp only [Go.len, Int.ofNat_eq_natCast]; omega
  rw [e, ht]; rfl

theorem flush_go {α δ : Type} {S : DstSpec} (A : AEAD) (k : Bytes) (E : AeadEnv α A k) (D : DstEnv δ S)
    (w : stream_Writer α δ) (m : Writer S) (h : WRel D w m) (hme : m.err = none) (last : Bool)
    (hl : last = true ∨ w.unwritten_hi = 65536) (hctr : m.ctr + 1 < 2 ^ 88) :
    ∃ w', stream_Writer_flushChunk E.seal_ D.write w last =
        .ok ((if (m.dst.write (A.sealF k (nonce m.ctr last) m.buf)).2 then none else some D.eW), w') ∧
      w'.buf.length = 65552 ∧ w'.unwritten_lo = 0 ∧ w'.unwritten_hi = 0 ∧
      D.absD w'.dst = (m.dst.write (A.sealF k (nonce m.ctr last) m.buf)).1 ∧
      w'.nonce = nonce (m.ctr + 1) last ∧ w'.err = w.err := by
  obtain ⟨hbl, hlo, hhi, hbuf, hdst, herr, hn⟩ := h
  have hn := hn hme
  have hc : (!last && (w.unwritten_hi - w.unwritten_lo != 65536)) = false := by
    rcases hl with h | h
    · simp [h]
    · simp [h, hlo]
  have hsl : Go.slice w.buf w.unwritten_lo w.unwritten_hi = .ok m.buf := by
    rw [hlo, hbuf]; exact slice0_ok _ _ hhi.1 (by rw [hbl]; simp only [Int.ofNat_eq_natCast]; omega)
  have hmlen : m.buf.length = w.unwritten_hi.toNat := by
    rw [hbuf, List.length_take, hbl]; omega
  generalize hcdef : A.sealF k (nonce m.ctr last) m.buf = c
  have hclen : c.length = w.unwritten_hi.toNat + 16 := by rw [← hcdef, E.hSealLen, hmlen]
  have hfit : c.length ≤ w.buf.length := by rw [hclen, hbl]; omega
  have hal : decide (0 + Go.len c > Go.len w.buf) = false := by
    apply decide_eq_false
    simp only [Go.len, Int.ofNat_eq_natCast]; omega
  obtain ⟨n, d', hw, hd'⟩ := D.hWrite w.dst c
  rw [hdst] at hw hd'
  have hinc := incNonce_tie m.ctr last hctr
  have hwl := writeAt_length w.buf 0 c (by simpa using hfit)
  refine ⟨{ a := w.a, dst := d', unwritten_lo := 0, unwritten_hi := 0, buf := Go.writeAt w.buf 0 c,
            nonce := nonce (m.ctr + 1) last, err := w.err }, ?_, by rw [hwl, hbl], rfl, rfl, hd', rfl, rfl⟩
  cases last with
  | false =>
    simp only [stream_Writer_flushChunk, bind, Except.bind, pure, Except.pure, hc, reslice00, slice00, hsl,
        E.hSeal, hn, hcdef, List.nil_append, hal, slice_writeAt0 _ _ hfit, hw, hinc, Bool.false_eq_true, if_false]
  | true =>
    have hs := setLastChunkFlag_tie m.ctr false
    simp only [stream_Writer_flushChunk, bind, Except.bind, pure, Except.pure, hc, reslice00, slice00, hsl,
        E.hSeal, hn, hs, hcdef, List.nil_append, hal, slice_writeAt0 _ _ hfit, hw, hinc, Bool.false_eq_true, if_false, if_true]

theorem flush_model {S : DstSpec} (A : AEAD) (k : Bytes) (m : Writer S) (last : Bool)
    (hl : last = true ∨ m.buf.length = 65536) (hctr : m.ctr + 1 < 2 ^ 88) :
    m.flush A 65536 (2 ^ 88) k last =
      ({ m with buf := [], ctr := m.ctr + 1, dst := (m.dst.write (A.sealF k (nonce m.ctr last) m.buf)).1 },
       if (m.dst.write (A.sealF k (nonce m.ctr last) m.buf)).2 then none else some .dstErr) := by
  unfold Writer.flush
  have h1 : ¬ ((!last && decide (m.buf.length ≠ 65536)) = true) := by
    rcases hl with h | h
    · simp [h]
    · simp [h]
  have h2 : ¬ (m.ctr + 1 ≥ 2 ^ 88) := by omega
  rw [if_neg h1]
  simp only [h2, if_false]
theorem slice_tail (p : Bytes) (n : Int) (h0 : 0 ≤ n) (h1 : n ≤ Go.len p) :
    Go.slice p n (Go.len p) = .ok (p.drop n.toNat) := by
  unfold Go.slice Go.len; rw [if_pos ⟨h0, h1, Int.le_refl _⟩]
  simp only [Int.ofNat_eq_natCast, Int.toNat_natCast, List.take_length]

/-- the Go state after `copy(freeBuf, p)` and the re-slicing of `unwritten` -/
def wCopy {α δ : Type} (w : stream_Writer α δ) (p : Bytes) (n : Nat) : stream_Writer α δ :=
  { a := w.a, dst := w.dst, unwritten_lo := 0, unwritten_hi := w.unwritten_hi + (n : Int),
    buf := Go.writeAt w.buf w.unwritten_hi (p.take n), nonce := w.nonce, err := w.err }

theorem loop_step {α δ : Type} (sl : α → Bytes → Bytes → Bytes → Go.M Bytes) (wr : δ → Bytes → Go.M (Int × Option Go.Err × δ))
    (w : stream_Writer α δ) (p : Bytes) (f : Nat)
    (hbl : w.buf.length = 65552) (hlo : w.unwritten_lo = 0)
    (hhi : 0 ≤ w.unwritten_hi ∧ w.unwritten_hi ≤ 65536) (hp : p.length ≠ 0)
    (n : Nat) (hn : n = min (65536 - w.unwritten_hi.toNat) p.length) :
    stream_Writer_Write_loop1 sl wr (f+1) w p =
      if (w.unwritten_hi + (n : Int) == 65536 && decide (Go.len (p.drop n) > 0)) = true then
        match stream_Writer_flushChunk sl wr (wCopy w p n) false with
        | .error err => .error err
        | .ok v =>
          if (v.fst != none) = true then .ok (.ret (0, v.1, { v.2 with err := v.1 }))
          else stream_Writer_Write_loop1 sl wr f v.2 (p.drop n)
      else stream_Writer_Write_loop1 sl wr f (wCopy w p n) (p.drop n) := by
  have h0 : (!decide (Go.len p > 0)) = false := by
    rw [Bool.not_eq_false']; apply decide_eq_true
    simp only [Go.len, Int.ofNat_eq_natCast]; omega
  have h1 : Go.reslice 0 (Go.len w.buf) (w.unwritten_hi - w.unwritten_lo) 65536 = .ok (w.unwritten_hi, 65536) := by
    rw [reslice_ok _ _ _ _ (by simp only [Go.len, Int.ofNat_eq_natCast, hbl, hlo]; omega), hlo]
    simp only [Int.sub_zero, Int.zero_add]
  have hmin : min (65536 - w.unwritten_hi) (Go.len p) = (n : Int) := by
    simp only [Go.len, Int.ofNat_eq_natCast]; omega
  have h2 : Go.slice p (n : Int) (Go.len p) = .ok (p.drop n) := by
    rw [slice_tail _ _ (by omega) (by simp only [Go.len, Int.ofNat_eq_natCast]; omega), Int.toNat_natCast]
  have hwl : (Go.writeAt w.buf w.unwritten_hi (List.take n p)).length = 65552 := by
    rw [writeAt_length _ _ _ (by rw [List.length_take, hbl]; omega), hbl]
  have h3 : Go.reslice w.unwritten_lo (Go.len (Go.writeAt w.buf w.unwritten_hi (List.take n p))) 0
      (w.unwritten_hi - w.unwritten_lo + (n : Int)) = .ok (0, w.unwritten_hi + (n : Int)) := by
    rw [reslice_ok _ _ _ _ (by simp only [Go.len, Int.ofNat_eq_natCast, hwl, hlo]; omega), hlo]
    simp only [Int.sub_zero, Int.zero_add, Int.add_zero]
  simp only [stream_Writer_Write_loop1, bind, Except.bind, pure, Except.pure, h0, h1, hmin, h2, h3,
    Int.toNat_natCast, Int.sub_zero, Bool.false_eq_true, if_false, wCopy]
  split
  · generalize stream_Writer_flushChunk _ _ _ _ = x
    cases x <;> rfl
  · rfl

theorem fill_step {S : DstSpec} (A : AEAD) (k : Bytes) (m : Writer S) (p : Bytes) (g : Nat)
    (hp : p.length ≠ 0) (n : Nat) (hn : n = min (65536 - m.buf.length) p.length) :
    m.fill A 65536 (2 ^ 88) k p (g + 1) =
      if (m.buf ++ p.take n).length = 65536 ∧ (p.drop n).length > 0 then
        match ({ m with buf := m.buf ++ p.take n } : Writer S).flush A 65536 (2 ^ 88) k false with
        | (w2, some e) => (w2, some e)
        | (w2, none) => w2.fill A 65536 (2 ^ 88) k (p.drop n) g
      else ({ m with buf := m.buf ++ p.take n } : Writer S).fill A 65536 (2 ^ 88) k (p.drop n) g := by
  subst hn
  rw [Writer.fill, if_neg hp]
  rfl

theorem wrel_copy {α δ : Type} {S : DstSpec} (D : DstEnv δ S) (w : stream_Writer α δ) (m : Writer S)
    (h : WRel D w m) (p : Bytes) (n : Nat) (hn : n = min (65536 - w.unwritten_hi.toNat) p.length) :
    WRel D (wCopy w p n) { m with buf := m.buf ++ p.take n } := by
  obtain ⟨hbl, hlo, hhi, hbuf, hdst, herr, hnon⟩ := h
  have htl : (p.take n).length = n := by rw [List.length_take]; omega
  have hfit : w.unwritten_hi.toNat + (p.take n).length ≤ w.buf.length := by rw [htl, hbl]; omega
  refine ⟨?_, rfl, ?_, ?_, hdst, herr, hnon⟩
  · show (Go.writeAt w.buf w.unwritten_hi (p.take n)).length = 65552
    rw [writeAt_length _ _ _ hfit, hbl]
  · show 0 ≤ w.unwritten_hi + (n : Int) ∧ w.unwritten_hi + (n : Int) ≤ 65536
    omega
  · show m.buf ++ p.take n = (Go.writeAt w.buf w.unwritten_hi (p.take n)).take (w.unwritten_hi + (n : Int)).toNat
    have e : (w.unwritten_hi + (n : Int)).toNat = w.unwritten_hi.toNat + (p.take n).length := by rw [htl]; omega
    rw [e, writeAt_take _ _ _ hfit, hbuf]

/-- fuel `f` suffices for the loop started with `n` bytes to write and the view ending at `hi` -/
def Enough (hi : Int) (n f : Nat) : Prop :=
  1 ≤ f ∧ (n ≠ 0 → n + 1 ≤ f) ∧ (n ≠ 0 → hi = 65536 → n + 2 ≤ f)

def LoopRes {α δ : Type} {S : DstSpec} (D : DstEnv δ S)
    (r : Go.Loop (stream_Writer α δ × Bytes) (Int × Option Go.Err × stream_Writer α δ))
    (mr : Writer S × Option Outcome) : Prop :=
  match r with
  | .next s => mr.2 = none ∧ WRel D s.1 mr.1
  | .ret v => v.1 = 0 ∧ ∃ eo, mr.2 = some eo ∧ wrErrRel v.2.1 D.eW (some eo) ∧
      WRel D v.2.2 { mr.1 with err := some eo }

theorem loop_tie {α δ : Type} {S : DstSpec} (A : AEAD) (k : Bytes) (E : AeadEnv α A k) (D : DstEnv δ S) :
    ∀ (f g : Nat) (w : stream_Writer α δ) (m : Writer S) (p : Bytes), WRel D w m → m.err = none →
      Enough w.unwritten_hi p.length f → Enough w.unwritten_hi p.length g →
      m.ctr + (w.unwritten_hi.toNat + p.length) / 65536 + 1 < 2 ^ 88 →
      ∃ r, stream_Writer_Write_loop1 E.seal_ D.write f w p = .ok r ∧
        LoopRes D r (m.fill A 65536 (2 ^ 88) k p g) := by
  intro f
  induction f with
  | zero => intro g w m p _ _ hf; exact absurd hf.1 (by omega)
  | succ f ih =>
    intro g w m p h hme hf hg hctr
    cases g with
    | zero => exact absurd hg.1 (by omega)
    | succ g =>
      by_cases hp : p.length = 0
      · have h0 : (!decide (Go.len p > 0)) = true := by
          rw [Bool.not_eq_true']; apply decide_eq_false
          simp only [Go.len, Int.ofNat_eq_natCast]; omega
        refine ⟨.next (w, p), ?_, ?_⟩
        · simp only [stream_Writer_Write_loop1, h0, if_true, pure, Except.pure]
        · rw [Writer.fill, if_pos hp]; exact ⟨rfl, h⟩
      · obtain ⟨hbl, hlo, hhi, hbuf, hdst, herr, hnon⟩ := id h
        have hmlen : m.buf.length = w.unwritten_hi.toNat := by rw [hbuf, List.length_take, hbl]; omega
        generalize hn : min (65536 - w.unwritten_hi.toNat) p.length = n
        have h1 := wrel_copy D w m h p n hn.symm
        have hdl : (p.drop n).length = p.length - n := List.length_drop ..
        have hm1len : (m.buf ++ p.take n).length = w.unwritten_hi.toNat + n := by
          rw [List.length_append, List.length_take, hmlen]; omega
        rw [loop_step _ _ w p f hbl hlo hhi hp n hn.symm,
          fill_step A k m p g hp n (by rw [hmlen]; exact hn.symm)]
        by_cases hc : w.unwritten_hi + (n : Int) = 65536 ∧ (p.drop n).length > 0
        · have hcG : (w.unwritten_hi + (n : Int) == 65536 && decide (Go.len (p.drop n) > 0)) = true := by
            rw [Bool.and_eq_true, beq_iff_eq, decide_eq_true_eq]
            refine ⟨hc.1, ?_⟩
            simp only [Go.len, Int.ofNat_eq_natCast]; omega
          have hcM : (m.buf ++ p.take n).length = 65536 ∧ (p.drop n).length > 0 :=
            ⟨by rw [hm1len]; omega, hc.2⟩
          rw [if_pos hcG, if_pos hcM]
          obtain ⟨w2, hfl, hb2, hlo2, hhi2, hd2, hn2, he2⟩ :=
            flush_go A k E D (wCopy w p n) _ h1 hme false (Or.inr hc.1) (by show m.ctr + 1 < 2 ^ 88; omega)
          rw [hfl, flush_model A k _ false (Or.inr hcM.1) (by show m.ctr + 1 < 2 ^ 88; omega)]
          dsimp only at hd2 hn2 ⊢
          have he2' : w2.err = w.err := he2
          generalize m.dst.write (A.sealF k (nonce m.ctr false) (m.buf ++ p.take n)) = dw at hd2 ⊢
          rcases dw with ⟨d2, ok⟩
          cases ok with
          | true =>
            simp only [if_true, bne_self_eq_false, Bool.false_eq_true, if_false]
            have h2 : WRel D w2 { buf := [], ctr := m.ctr + 1, err := m.err, dst := d2 } :=
              ⟨hb2, hlo2, by omega, by rw [hhi2]; rfl, hd2, by rw [he2']; exact herr, fun _ => hn2⟩
            refine ih g w2 _ (p.drop n) h2 hme ?_ ?_ ?_
            · unfold Enough at hf ⊢; rw [hhi2, hdl]; omega
            · unfold Enough at hg ⊢; rw [hhi2, hdl]; omega
            · rw [hhi2, hdl]; show m.ctr + 1 + _ + 1 < _; omega
          | false =>
            simp only [Bool.false_eq_true, if_false]
            have hne : (some D.eW != none) = true := rfl
            rw [if_pos hne]
            refine ⟨_, rfl, rfl, .dstErr, rfl, rfl, ?_⟩
            exact ⟨hb2, hlo2, by show 0 ≤ w2.unwritten_hi ∧ w2.unwritten_hi ≤ 65536; omega,
              by show [] = w2.buf.take w2.unwritten_hi.toNat; rw [hhi2]; rfl, hd2, rfl, fun h => by cases h⟩
        · have hcG : (w.unwritten_hi + (n : Int) == 65536 && decide (Go.len (p.drop n) > 0)) = false := by
            apply Bool.eq_false_iff.mpr
            intro hh
            rw [Bool.and_eq_true, beq_iff_eq, decide_eq_true_eq] at hh
            apply hc
            refine ⟨hh.1, ?_⟩
            have h2 := hh.2
            simp only [Go.len, Int.ofNat_eq_natCast] at h2; omega
          have hcM : ¬ ((m.buf ++ p.take n).length = 65536 ∧ (p.drop n).length > 0) := by
            rw [hm1len]; omega
          rw [if_neg hcM]
          simp only [hcG, Bool.false_eq_true, if_false]
          refine ih g (wCopy w p n) _ (p.drop n) h1 hme ?_ ?_ ?_
          · show Enough (w.unwritten_hi + (n : Int)) _ _
            unfold Enough at hf ⊢; rw [hdl]; omega
          · show Enough (w.unwritten_hi + (n : Int)) _ _
            unfold Enough at hg ⊢; rw [hdl]; omega
          · show m.ctr + ((w.unwritten_hi + (n : Int)).toNat + (p.drop n).length) / 65536 + 1 < 2 ^ 88
            rw [hdl]; omega

theorem wrErr_some_ne {g : Option Go.Err} {eW : Go.Err} {e : Outcome} (h : wrErrRel g eW (some e)) :
    (g != none) = true := by
  rw [bne_iff_ne]
  intro h0; rw [h0] at h
  cases e <;> simp [wrErrRel] at h

end WriterTie
open WriterTie

/-! ## the two calls -/

theorem writer_write_tie {α δ : Type} {S : DstSpec} (A : AEAD) (k : Bytes) (E : AeadEnv α A k) (D : DstEnv δ S)
    (w : stream_Writer α δ) (m : Writer S) (h : WRel D w m) (p : Bytes)
    (hctr : m.ctr + p.length / 65536 + 2 < 2 ^ 88) :
    ∃ res, stream_Writer_Write E.seal_ D.write w p = .ok res ∧
      let mw := m.write A 65536 (2 ^ 88) k p
      res.1 = Int.ofNat mw.2.1 ∧ wrErrRel res.2.1 D.eW mw.2.2 ∧ WRel D res.2.2 mw.1 := by
  cases hme : m.err with
  | some e =>
    have he := h.err; rw [hme] at he
    have hwe := wrErr_some_ne he
    refine ⟨(0, w.err, w), ?_, ?_⟩
    · simp only [stream_Writer_Write, hwe, if_true, pure, Except.pure]
    · simp only [Writer.write, hme]; exact ⟨rfl, he, h⟩
  | none =>
    have hwe : w.err = none := by have := h.err; rw [hme] at this; exact this
    have hwe' : (w.err != none) = false := by rw [hwe]; rfl
    by_cases hp : p.length = 0
    · have hl : (Go.len p == (0 : Int)) = true := by
        rw [beq_iff_eq]; simp only [Go.len, Int.ofNat_eq_natCast]; omega
      refine ⟨(0, none, w), ?_, ?_⟩
      · simp only [stream_Writer_Write, hwe', hl, if_true, Bool.false_eq_true, if_false, pure, Except.pure]
      · simp only [Writer.write, hme, hp, if_true]; exact ⟨rfl, rfl, h⟩
    · have hl : (Go.len p == (0 : Int)) = false := by
        apply Bool.eq_false_iff.mpr; intro hh; rw [beq_iff_eq] at hh
        simp only [Go.len, Int.ofNat_eq_natCast] at hh; omega
      have hlen : (Go.len p).toNat = p.length := by simp only [Go.len, Int.ofNat_eq_natCast, Int.toNat_natCast]
      have hhi := h.hi
      obtain ⟨r, hr, hres⟩ := loop_tie A k E D (2 * (Go.len p).toNat + 2) (p.length + 2) w m p h hme
        (by unfold Enough; rw [hlen]; omega) (by unfold Enough; omega) (by omega)
      simp only [stream_Writer_Write, hwe', hl, Bool.false_eq_true, if_false, bind, Except.bind, hr,
        Writer.write, hme, hp]
      generalize Writer.fill A 65536 (2 ^ 88) k m p (p.length + 2) = mr at hres
      rcases mr with ⟨m', eo⟩
      cases r with
      | next s =>
        obtain ⟨h1, h2⟩ := hres
        dsimp only at h1 h2
        subst h1
        exact ⟨(Go.len p, none, s.1), rfl, rfl, rfl, h2⟩
      | ret v =>
        obtain ⟨h1, eo', h2, h3, h4⟩ := hres
        dsimp only at h1 h2 h3 h4
        subst h2
        exact ⟨v, rfl, h1, h3, h4⟩

theorem writer_close_tie {α δ : Type} {S : DstSpec} (A : AEAD) (k : Bytes) (E : AeadEnv α A k) (D : DstEnv δ S)
    (w : stream_Writer α δ) (m : Writer S) (h : WRel D w m) (hctr : m.ctr + 2 < 2 ^ 88) :
    ∃ res, stream_Writer_Close E.seal_ D.write w = .ok res ∧
      let mc := m.close A 65536 (2 ^ 88) k
      wrErrRel res.1 D.eW mc.2 ∧ WRel D res.2 mc.1 ∧
      (mc.2 = none → D.absD res.2.dst = mc.1.dst) ∧
      wrErrRel res.2.err D.eW mc.1.err := by
  cases hme : m.err with
  | some e =>
    have he := h.err; rw [hme] at he
    have hwe := wrErr_some_ne he
    refine ⟨(w.err, w), ?_, ?_⟩
    · simp only [stream_Writer_Close, hwe, if_true, pure, Except.pure]
    · simp only [Writer.close, hme]; exact ⟨he, h, (fun h0 => by cases h0), he⟩
  | none =>
    have hwe : w.err = none := by have := h.err; rw [hme] at this; exact this
    have hwe' : (w.err != none) = false := by rw [hwe]; rfl
    obtain ⟨w2, hfl, hb2, hlo2, hhi2, hd2, hn2, he2⟩ :=
      flush_go A k E D w m h hme true (Or.inl rfl) (by omega)
    simp only [stream_Writer_Close, hwe', Bool.false_eq_true, if_false, bind, Except.bind, hfl,
      Writer.close, hme, flush_model A k m true (Or.inl rfl) (by omega)]
    generalize m.dst.write (A.sealF k (nonce m.ctr true) m.buf) = dw at hd2 ⊢
    rcases dw with ⟨d2, ok⟩
    cases ok with
    | true =>
      simp only [if_true, bne_self_eq_false, Bool.false_eq_true, if_false, pure, Except.pure]
      refine ⟨_, rfl, rfl, ?_, fun _ => hd2, rfl⟩
      exact ⟨hb2, hlo2, by show 0 ≤ w2.unwritten_hi ∧ w2.unwritten_hi ≤ 65536; omega,
        by show [] = w2.buf.take w2.unwritten_hi.toNat; rw [hhi2]; rfl, hd2, rfl, fun h0 => by cases h0⟩
    | false =>
      simp only [Bool.false_eq_true, if_false, pure, Except.pure]
      have hne : (some D.eW != none) = true := rfl
      rw [if_pos hne]
      refine ⟨_, rfl, rfl, ?_, (fun h0 => by cases h0), rfl⟩
      exact ⟨hb2, hlo2, by show 0 ≤ w2.unwritten_hi ∧ w2.unwritten_hi ≤ 65536; omega,
        by show [] = w2.buf.take w2.unwritten_hi.toNat; rw [hhi2]; rfl, hd2, rfl, fun h0 => by cases h0⟩

/-- after `Close` — successful or not — every further `Write` and `Close` is refused and touches
    nothing: the translated writer is stuck exactly as the model's is (`Props.C13.writer_sticky`).
    Stated for any state related to a model state with a sticky error (which is what
    `writer_close_tie` leaves: see `writer_close_err_some` below): the translated `Write` returns count 0,
    the stored error and the UNCHANGED struct, the translated `Close` the stored error and the
    unchanged struct; the stored error is not `nil` and corresponds to the model's; and the model
    does the same (`m.write … = (m, 0, some e)`, `m.close … = (m, some e)`). -/
theorem writer_after_close_stuck {α δ : Type} {S : DstSpec} (A : AEAD) (k : Bytes) (E : AeadEnv α A k)
    (D : DstEnv δ S) (w : stream_Writer α δ) (m : Writer S) (h : WRel D w m) (e : Outcome)
    (hme : m.err = some e) :
    w.err ≠ none ∧ wrErrRel w.err D.eW (some e) ∧
    (∀ p, stream_Writer_Write E.seal_ D.write w p = .ok (0, w.err, w) ∧
          m.write A 65536 (2 ^ 88) k p = (m, 0, some e)) ∧
    stream_Writer_Close E.seal_ D.write w = .ok (w.err, w) ∧
    m.close A 65536 (2 ^ 88) k = (m, some e) := by
  have he := h.err; rw [hme] at he
  have hwe := wrErr_some_ne he
  refine ⟨by rw [bne_iff_ne] at hwe; exact hwe, he, fun p => ⟨?_, ?_⟩, ?_, ?_⟩
  · simp only [stream_Writer_Write, hwe, if_true, pure, Except.pure]
  · simp only [Writer.write, hme]
  · simp only [stream_Writer_Close, hwe, if_true, pure, Except.pure]
  · simp only [Writer.close, hme]

/-- the model's writer has a sticky error after ANY `Close` (so `writer_after_close_stuck` applies
    to the pair of states `writer_close_tie` returns) -/
theorem writer_close_err_some {S : DstSpec} (A : AEAD) (C L : Nat) (k : Bytes) (m : Writer S) :
    ∃ e, (m.close A C L k).1.err = some e := by
  unfold Writer.close
  cases hme : m.err with
  | some e => exact ⟨e, hme⟩
  | none =>
    dsimp only
    generalize m.flush A C L k true = r
    rcases r with ⟨w', _ | e⟩
    · exact ⟨_, rfl⟩
    · exact ⟨_, rfl⟩

end GoTie
end AgeModel
