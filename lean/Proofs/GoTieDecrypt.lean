/-
  Proofs.GoTieDecrypt — age.Decrypt as it stands in the source.

  `age.Decrypt` (age.go) is TRANSLATED on every run (AgeModel/Extracted/Funcs.lean): the
  "no identities" test, `format.Parse` (itself translated), the conversion of the header's
  stanzas, the IDENTITY LOOP (each identity's `Unwrap`, `errors.Is(err, ErrIncorrectIdentity)`
  ⇒ collect the cause and go on, any other error ⇒ return it, a key ⇒ stop), the nil-key test
  that produces `NoIdentityMatchError` (identified here by its type and the NUMBER of causes it
  carries), the header MAC comparison, the 16-byte nonce, and only then the payload reader.
  `Identity.Unwrap`, `headerMAC`, `streamKey`, `stream.NewReader`, `format.DecodeString` are
  abstract (parameters); `DecryptEnv` says what is assumed of them: they are the model's.
  The theorem: for EVERY file and identity list the translated `Decrypt` returns what the
  model's `decryptInit` (AgeModel/File.lean) returns — the same error class, with the same
  number of collected causes, or — when an identity fails — no reader and the very error that identity's
  `Unwrap` returned (the identity being the one at the index the model names), or the reader made from
  the same stream key and the same payload bytes. So `Props.C03.mac_gate`, `Props.C04.no_match_structure`, `reader_requires_key` and the
  "identities are consulted in order and none after the first that opens the file" clause of C01
  are about the source text.
-/
import AgeModel.GoSem
import AgeModel.File
import AgeModel.Extracted.Funcs
import Proofs.GoTieFormat
import Proofs.GoTieUnwrap
namespace AgeModel
namespace GoTie
open Extracted

/-- the Go error value `Decrypt` returns for each error class of the model -/
def decryptErr : DecErr → Option Go.Err → Option Go.Err
  | .noIdentities, _ => some ⟨"age.Decrypt", 0, []⟩
  | .header, _ => some ⟨"age.Decrypt", 1, []⟩
  | .noMatch n, _ => some ⟨"age.NoIdentityMatchError", 0, [Int.ofNat n]⟩
  | .fatal _, e => e          -- the identity's own error, returned as it is
  | .badMAC, _ => some ⟨"age.Decrypt", 3, []⟩
  | .nonce, _ => some ⟨"age.Decrypt", 4, []⟩

/-- what is assumed of the abstract callees: they are the model's, for primitives `P` -/
structure DecryptEnv (P : Prims) (ι : Type) where
  D : Bytes → Go.M (Bytes × Option Go.Err)
  eD : Go.Err
  hD : DecodeIsModel D eD
  U : ι → List age_Stanza → Go.M (Bytes × Option Go.Err)
  /-- which model identity a Go identity value is -/
  idOf : ι → Identity
  /-- an identity answers as the model's does: a non-empty key, "incorrect identity", or another error;
      and an identity that answers 'incorrect identity' returns a nil key, as every identity of the
      module does — Decrypt relies on it: see `decrypt_tie_of_nil` -/
  hU : ∀ i ss, ∃ r, U i (ss.map toGoStanza) = .ok r ∧ resClass r = (idOf i).unwrap P ss ∧
        (r.2 = none → r.1 ≠ []) ∧ (r.2 = age_ErrIncorrectIdentity → r.1 = [])
  mac : Bytes → format_Header → Go.M (Bytes × Option Go.Err)
  hMac : ∀ fk (h : Format.Header), mac fk (toGoHeader h) = .ok (headerMAC P fk h.stanzas, none)
  key : Bytes → Bytes → Go.M Bytes
  hKey : ∀ fk n, key fk n = .ok (streamKey P fk n)
  /-- `stream.NewReader(key, payload)`: the reader is identified with (key, payload) -/
  newReader : Bytes → Bytes → Go.M (Bytes × Option Go.Err)
  hNew : ∀ k p, newReader k p = .ok (k ++ p, none)

/-! ### helper lemmas -/

def convStanza (s : format_Stanza) : age_Stanza := ⟨s.Type_, s.Args, s.Body⟩

theorem decrypt_loop1_eq : ∀ (fs : List format_Stanza) (acc : List age_Stanza),
    age_Decrypt_loop1 fs acc = .ok (.next (acc ++ fs.map convStanza))
  | [], acc => by simp only [age_Decrypt_loop1, List.map_nil, List.append_nil]; rfl
  | f :: fs, acc => by
    simp only [age_Decrypt_loop1, decrypt_loop1_eq fs, List.map_cons, List.append_assoc,
      List.singleton_append, convStanza]

theorem toGoHeader_stanzas (h : Format.Header) :
    (toGoHeader h).Recipients.map convStanza = h.stanzas.map toGoStanza := by
  simp only [toGoHeader, List.map_map]
  rfl

theorem loop2_step {ι : Type} (U : ι → List age_Stanza → Go.M (Bytes × Option Go.Err))
    (st : List age_Stanza) (x : ι) (rest : List ι) (err : Option Go.Err)
    (enm : age_NoIdentityMatchError) (fk : Bytes) (r : Bytes × Option Go.Err) (hr : U x st = .ok r) :
    age_Decrypt_loop2 U errorsIsEq st (x :: rest) err enm fk =
      if r.2 == age_ErrIncorrectIdentity then
        age_Decrypt_loop2 U errorsIsEq st rest r.2 ⟨enm.Errors ++ [r.2]⟩ r.1
      else if r.2 != none then .ok (.ret ([], r.2)) else .ok (.next (r.2, enm, r.1)) := by
  simp only [age_Decrypt_loop2, hr, errorsIsEq, bind, Except.bind, pure, Except.pure]

theorem loop2_step_err {ι : Type} (U : ι → List age_Stanza → Go.M (Bytes × Option Go.Err))
    (st : List age_Stanza) (x : ι) (rest : List ι) (err : Option Go.Err)
    (enm : age_NoIdentityMatchError) (fk : Bytes) (e : Go.Fault) (hr : U x st = .error e) :
    age_Decrypt_loop2 U errorsIsEq st (x :: rest) err enm fk = .error e := by
  simp only [age_Decrypt_loop2, hr, bind, Except.bind]

theorem resClass_of_isInc (r : Bytes × Option Go.Err) (h : (r.2 == age_ErrIncorrectIdentity) = true) :
    resClass r = .incorrect := by
  have h' : r.2 = age_ErrIncorrectIdentity := by simpa using h
  simp [resClass, h', age_ErrIncorrectIdentity]

theorem resClass_of_notInc_err (r : Bytes × Option Go.Err) (h : (r.2 == age_ErrIncorrectIdentity) = false)
    (h2 : (r.2 != none) = true) : resClass r = .fatal := by
  have h' : ¬ r.2 = age_ErrIncorrectIdentity := by simpa using h
  have h2' : ¬ r.2 = none := by simpa using h2
  simp [resClass, h', h2']

theorem resClass_of_nil (r : Bytes × Option Go.Err) (h2 : (r.2 != none) = false) : resClass r = .key r.1 := by
  have h2' : r.2 = none := by simpa using h2
  simp [resClass, h2']

theorem isInc_of_resClass_ne (r : Bytes × Option Go.Err) (h : resClass r ≠ .incorrect) :
    (r.2 == age_ErrIncorrectIdentity) = false := by
  cases hb : (r.2 == age_ErrIncorrectIdentity)
  · rfl
  · exact absurd (resClass_of_isInc r hb) h

theorem loop2_prefix {P : Prims} {ι : Type} (E : DecryptEnv P ι) (ss : List Format.Stanza) (i : ι) (post : List ι)
    (hi : (E.idOf i).unwrap P ss ≠ .incorrect)
    (U' : ι → List age_Stanza → Go.M (Bytes × Option Go.Err)) :
    ∀ (pre : List ι), (∀ j, j ∈ pre ++ [i] → U' j = E.U j) → ∀ err enm fk,
      age_Decrypt_loop2 U' errorsIsEq (ss.map toGoStanza) (pre ++ i :: post) err enm fk =
      age_Decrypt_loop2 E.U errorsIsEq (ss.map toGoStanza) (pre ++ [i]) err enm fk
  | [], hU', err, enm, fk => by
    obtain ⟨r, hr, hc, _⟩ := E.hU i ss
    have hr' : U' i (ss.map toGoStanza) = .ok r := by rw [hU' i (by simp)]; exact hr
    have hb := isInc_of_resClass_ne r (by rw [hc]; exact hi)
    simp only [List.nil_append]
    rw [loop2_step U' _ i post err enm fk r hr', loop2_step E.U _ i [] err enm fk r hr]
    simp only [hb, Bool.false_eq_true, if_false]
  | j :: pre, hU', err, enm, fk => by
    have hj : U' j = E.U j := hU' j (by simp)
    have ih := loop2_prefix E ss i post hi U' pre (fun k hk => hU' k (by
      simp only [List.cons_append, List.mem_cons]; exact Or.inr hk))
    simp only [List.cons_append]
    cases hr : E.U j (ss.map toGoStanza) with
    | error e =>
      rw [loop2_step_err U' _ j _ err enm fk e (by rw [hj]; exact hr), loop2_step_err E.U _ j _ err enm fk e hr]
    | ok r =>
      rw [loop2_step U' _ j _ err enm fk r (by rw [hj]; exact hr), loop2_step E.U _ j _ err enm fk r hr, ih]

theorem len_beq_zero {α : Type} (l : List α) (h : l ≠ []) : (Go.len l == (0 : Int)) = false := by
  cases l with
  | nil => exact absurd rfl h
  | cons a l => simp only [Go.len, List.length_cons]; rfl

theorem makeList_zero {α : Type} (z : α) : Go.makeList z (0 : Int) = .ok [] := rfl
theorem makeList_16 : Go.makeList (0 : UInt8) (16 : Int) = .ok (List.replicate 16 0) := rfl

abbrev DecLoopRes := Go.Loop (Option Go.Err × age_NoIdentityMatchError × Bytes) (Bytes × Option Go.Err)

/-- what the identity loop of the source leaves, for each outcome of the model's loop
    (`n`: the number of causes collected if nobody opened the file; `U j`: what identity `j`'s `Unwrap` answers on
    the header's stanzas; `ids`: the identities still to consult, the first of them being number `c` of the whole
    list). A fatal outcome `.fatal idx`: the loop RETURNED, with no reader, the very error identity number `idx`
    answered — which is neither nil nor "incorrect identity" -/
def loopSpec {ι : Type} (U : ι → Go.M (Bytes × Option Go.Err)) (ids : List ι) (c n : Nat) (l : DecLoopRes) :
    Except DecErr (Option Bytes) → Prop
  | .error (.fatal idx) => ∃ j r, c ≤ idx ∧ ids[idx - c]? = some j ∧ U j = .ok r ∧ r.2 ≠ none ∧
      r.2 ≠ age_ErrIncorrectIdentity ∧ l = .ret ([], r.2)
  | .error _ => False
  | .ok none => ∃ e enm', l = .next (e, enm', []) ∧ enm'.Errors.length = n
  | .ok (some k) => ∃ e enm', l = .next (e, enm', k) ∧ k ≠ []

theorem loopSpec_cons {ι : Type} (U : ι → Go.M (Bytes × Option Go.Err)) (i : ι) (ids : List ι) (c n : Nat)
    (l : DecLoopRes) (x : Except DecErr (Option Bytes)) (h : loopSpec U ids (c + 1) n l x) :
    loopSpec U (i :: ids) c n l x := by
  cases x with
  | error e =>
    cases e <;> simp only [loopSpec] at h ⊢
    obtain ⟨j, r, hc, hj, hrest⟩ := h
    refine ⟨j, r, by omega, ?_, hrest⟩
    rename_i idx
    have : idx - c = (idx - (c + 1)) + 1 := by omega
    rw [this, List.getElem?_cons_succ]
    exact hj
  | ok o => cases o <;> exact h

theorem loop2_spec {P : Prims} {ι : Type} (E : DecryptEnv P ι)
    (hNil : ∀ i (ss : List Format.Stanza) r, E.U i (ss.map toGoStanza) = .ok r → r.2 = age_ErrIncorrectIdentity → r.1 = [])
    (ss : List Format.Stanza) :
    ∀ (ids : List ι) (err : Option Go.Err) (enm : age_NoIdentityMatchError) (nInc c : Nat),
      ∃ l, age_Decrypt_loop2 E.U errorsIsEq (ss.map toGoStanza) ids err enm [] = .ok l ∧
        loopSpec (fun j => E.U j (ss.map toGoStanza)) ids c
          (enm.Errors.length + countIncorrect P ss (ids.map E.idOf)) l
          (identityLoop P ss (ids.map E.idOf) nInc c).1
  | [], err, enm, nInc, c => ⟨.next (err, enm, []), rfl, err, enm, rfl, rfl⟩
  | i :: ids, err, enm, nInc, c => by
    obtain ⟨r, hr, hc, hne, _⟩ := E.hU i ss
    rw [loop2_step E.U _ i ids err enm [] r hr]
    simp only [List.map_cons, identityLoop, countIncorrect, ← hc]
    cases hb : (r.2 == age_ErrIncorrectIdentity)
    · simp only [Bool.false_eq_true, if_false]
      cases hb2 : (r.2 != none)
      · simp only [Bool.false_eq_true, if_false, resClass_of_nil r hb2]
        exact ⟨_, rfl, r.2, enm, rfl, hne (by simpa using hb2)⟩
      · simp only [if_true, resClass_of_notInc_err r hb hb2]
        exact ⟨_, rfl, i, r, Nat.le_refl c, by rw [Nat.sub_self]; rfl, hr, by simpa using hb2, by simpa using hb, rfl⟩
    · simp only [if_true, resClass_of_isInc r hb]
      rw [hNil i ss r hr (by simpa using hb)]
      obtain ⟨l, hl, hs⟩ := loop2_spec E hNil ss ids r.2 ⟨enm.Errors ++ [r.2]⟩ (nInc + 1) (c + 1)
      refine ⟨l, hl, ?_⟩
      have hn : enm.Errors.length + (1 + countIncorrect P ss (ids.map E.idOf)) =
          (enm.Errors ++ [r.2]).length + countIncorrect P ss (ids.map E.idOf) := by
        rw [List.length_append, List.length_singleton]; omega
      rw [hn]; exact loopSpec_cons _ i ids c _ l _ hs

theorem len_replicate16 : Go.len (List.replicate 16 (0 : UInt8)) = (16 : Int) := rfl

theorem dec_readFull_short (p : Bytes) (h : p.length < 16) :
    ((Go.io_ReadFullB p (16 : Int)).2.1 != none) = true := by
  have h16 : (16 : Int).toNat = 16 := rfl
  have hl : (p.take 16).length = p.length := by rw [List.length_take]; omega
  simp only [Go.io_ReadFullB, h16, hl]
  rw [if_neg (by omega)]
  split <;> rfl

theorem readFull_ok (p : Bytes) (h : ¬ p.length < 16) :
    Go.io_ReadFullB p (16 : Int) = (p.take 16, none, p.drop 16) := by
  have h16 : (16 : Int).toNat = 16 := rfl
  have hl : (p.take 16).length = 16 := by rw [List.length_take]; omega
  simp only [Go.io_ReadFullB, h16, hl, if_true]

theorem writeAt_nonce (d : Bytes) (h : d.length = 16) :
    Go.writeAt (List.replicate 16 (0 : UInt8)) (0 : Int) d = d := by
  have h0 : (0 : Int).toNat = 0 := rfl
  simp only [Go.writeAt, h0, List.take_zero, List.nil_append, h, Nat.zero_add]
  rw [List.drop_of_length_le (by simp), List.append_nil]

theorem decrypt_tie_of_nil (P : Prims) {ι : Type} (E : DecryptEnv P ι)
    (hNil : ∀ i (ss : List Format.Stanza) r, E.U i (ss.map toGoStanza) = .ok r → r.2 = age_ErrIncorrectIdentity → r.1 = [])
    (file : Bytes) (ids : List ι) :
    ∃ res, age_Decrypt E.D E.U errorsIsEq E.mac E.newReader E.key file ids = .ok res ∧
      match (decryptInit P (ids.map E.idOf) file).1 with
      | .ok (k, payload) => res = (k ++ payload, none)
      | .error (.fatal idx) => ∃ hdr payload j r, Format.parse file = .ok (hdr, payload) ∧ ids[idx]? = some j ∧
          E.U j (hdr.stanzas.map toGoStanza) = .ok r ∧ r.2 ≠ none ∧ r.2 ≠ age_ErrIncorrectIdentity ∧ res = ([], r.2)
      | .error e => res = ([], decryptErr e none) := by
  cases ids with
  | nil => exact ⟨_, rfl, rfl⟩
  | cons i0 ids0 =>
    obtain ⟨res, hres, hm⟩ := parse_tie E.D E.eD E.hD file
    have h1 : i0 :: ids0 ≠ [] := by simp
    cases hp : Format.parse file with
    | error e =>
      rw [hp] at hm
      simp only at hm
      have hb : (res.2.2 != none) = true := by simpa using hm
      simp only [age_Decrypt, len_beq_zero _ h1, hres, hb, bind, Except.bind, pure, Except.pure,
        decryptInit, hp, List.map_cons, List.isEmpty_cons, Bool.false_eq_true, if_false, if_true]
      exact ⟨_, rfl, rfl⟩
    | ok p =>
      obtain ⟨hdr, payload⟩ := p
      rw [hp] at hm
      simp only at hm
      subst hm
      obtain ⟨l, hl, hs⟩ := loop2_spec E hNil hdr.stanzas (i0 :: ids0) none ⟨[]⟩ 0 0
      have he : (List.map E.idOf (i0 :: ids0)).isEmpty = false := rfl
      simp only [age_Decrypt, len_beq_zero _ h1, hres, bind, Except.bind, pure, Except.pure,
        makeList_zero, decrypt_loop1_eq, List.nil_append, toGoHeader_stanzas, hl,
        decryptInit, hp, he, none_bne_none, Bool.false_eq_true, if_false]
      generalize identityLoop P hdr.stanzas (List.map E.idOf (i0 :: ids0)) 0 0 = L at hs ⊢
      obtain ⟨a, c⟩ := L
      simp only [List.length_nil, Nat.zero_add] at hs
      cases a with
      | error e =>
        cases e <;> simp only [loopSpec] at hs
        obtain ⟨j, r, _, hj, hr, h1, h2, rfl⟩ := hs
        rw [Nat.sub_zero] at hj
        exact ⟨([], r.2), rfl, hdr, payload, j, r, rfl, hj, hr, h1, h2, rfl⟩
      | ok o =>
        cases o with
        | none =>
          obtain ⟨e, enm', rfl, hlen⟩ := hs
          simp only [beq_self_eq_true, if_true, Go.len, hlen]
          exact ⟨_, rfl, rfl⟩
        | some k =>
          obtain ⟨e, enm', rfl, hk⟩ := hs
          have hk1 : (k == []) = false := by cases k with | nil => exact absurd rfl hk | cons _ _ => rfl
          have hk2 : k.isEmpty = false := by cases k with | nil => exact absurd rfl hk | cons _ _ => rfl
          have hM : (toGoHeader hdr).MAC = hdr.mac := rfl
          simp only [hk1, hk2, E.hMac, hM, makeList_16, len_replicate16, none_bne_none, Go.bytes_Equal,
            Bool.false_eq_true, if_false, streamNonceSize]
          by_cases hmac : headerMAC P k hdr.stanzas = hdr.mac
          · simp only [hmac, beq_self_eq_true, ne_eq, not_true_eq_false, Bool.not_true, Bool.false_eq_true, if_false]
            by_cases hlen : payload.length < 16
            · simp only [dec_readFull_short payload hlen, hlen, if_true]
              exact ⟨_, rfl, rfl⟩
            · have hw := writeAt_nonce (payload.take 16) (by rw [List.length_take]; omega)
              simp only [readFull_ok payload hlen, hw, E.hKey, E.hNew, hlen, none_bne_none,
                Bool.false_eq_true, if_false]
              exact ⟨_, rfl, rfl⟩
          · have hb : (headerMAC P k hdr.stanzas == hdr.mac) = false := by simpa using hmac
            simp only [hb, hmac, ne_eq, not_false_eq_true, Bool.not_false, if_true]
            exact ⟨_, rfl, rfl⟩

theorem decrypt_tie (P : Prims) {ι : Type} (E : DecryptEnv P ι) (file : Bytes) (ids : List ι) :
    ∃ res, age_Decrypt E.D E.U errorsIsEq E.mac E.newReader E.key file ids = .ok res ∧
      match (decryptInit P (ids.map E.idOf) file).1 with
      | .ok (k, payload) => res = (k ++ payload, none)
      | .error (.fatal idx) => ∃ hdr payload j r, Format.parse file = .ok (hdr, payload) ∧ ids[idx]? = some j ∧
          E.U j (hdr.stanzas.map toGoStanza) = .ok r ∧ r.2 ≠ none ∧ r.2 ≠ age_ErrIncorrectIdentity ∧ res = ([], r.2)
      | .error e => res = ([], decryptErr e none) := by
  refine decrypt_tie_of_nil P E (fun i ss r hr he => ?_) file ids
  obtain ⟨r', hr', _, _, hnil⟩ := E.hU i ss
  rw [hr'] at hr
  cases hr
  exact hnil he

/-- the identities are consulted in order and none after the first that does not answer
    "incorrect identity": whatever the LATER identities would do — fault included — is never
    asked for (`U'` is arbitrary outside `pre ++ [i]`) -/
theorem decrypt_consults_prefix (P : Prims) {ι : Type} (E : DecryptEnv P ι) (file : Bytes)
    (pre : List ι) (i : ι) (post : List ι) (hdr : Format.Header) (rest : Bytes)
    (hp : Format.parse file = .ok (hdr, rest))
    (hi : (E.idOf i).unwrap P hdr.stanzas ≠ .incorrect)
    (U' : ι → List age_Stanza → Go.M (Bytes × Option Go.Err))
    (hU' : ∀ j, j ∈ pre ++ [i] → U' j = E.U j) :
    age_Decrypt E.D U' errorsIsEq E.mac E.newReader E.key file (pre ++ i :: post) =
    age_Decrypt E.D E.U errorsIsEq E.mac E.newReader E.key file (pre ++ [i]) := by
  obtain ⟨res, hres, hm⟩ := parse_tie E.D E.eD E.hD file
  rw [hp] at hm
  simp only at hm
  subst hm
  have h1 : pre ++ i :: post ≠ [] := by simp
  have h2 : pre ++ [i] ≠ [] := by simp
  simp only [age_Decrypt, len_beq_zero _ h1, len_beq_zero _ h2, hres, bind, Except.bind, pure, Except.pure]
  simp only [makeList_zero, decrypt_loop1_eq, List.nil_append, toGoHeader_stanzas]
  rw [loop2_prefix E hdr.stanzas i post hi U' pre hU']

end GoTie
end AgeModel
