/-
  Proofs.GoTieKeys — the native key strings, as they stand in the source.

  `age.ParseX25519Recipient`, `(*X25519Recipient).String`, `age.ParseX25519Identity`,
  `(*X25519Identity).String`, `.Recipient` and the two constructors behind them are TRANSLATED from
  x25519.go on every run, on top of the translated `bech32.Decode` / `Encode` (nothing abstract but
  the scalar multiplication that derives the public key). They are proved to compute, for EVERY
  byte string, the model's `Keys.parseX25519Recipient/Identity`, `recipientString`,
  `identityString` — the functions `Props.C09`'s round-trip, canonicity and rejection theorems are
  about.
-/
import AgeModel.GoSem
import AgeModel.Keys
import AgeModel.Extracted.Funcs
import Proofs.GoTieCodec
import Proofs.Bech32Keys
namespace AgeModel
namespace GoTie
open Extracted


theorem keys_writeAt32 (b : Bytes) (h : b.length = 32) :
    Go.writeAt (List.replicate 32 0) 0 b = b := by
  simp [Go.writeAt, h]

theorem keys_lenTest (k : Bytes) : (Go.len k != (32 : Int)) = decide (k.length ≠ 32) := by
  by_cases h : k.length = 32
  · simp [Go.len, h]
  · have : ¬ ((k.length : Int) = 32) := by omega
    simp [Go.len, h, this]

theorem keys_copy32 (k : Bytes) (h : k.length = 32) :
    Go.writeAt (List.replicate 32 (0 : UInt8)) 0
      (k.take (min (Go.len (List.replicate 32 (0 : UInt8))) (Go.len k)).toNat) = k := by
  have e : (min (Go.len (List.replicate 32 (0 : UInt8))) (Go.len k)).toNat = 32 := by
    simp only [Go.len, List.length_replicate, h, Int.ofNat_eq_natCast]
    omega
  rw [e, List.take_of_length_le (by omega)]
  exact keys_writeAt32 k h

theorem keys_newRecipient (k : Bytes) :
    age_newX25519RecipientFromPoint k = .ok (if k.length ≠ 32
      then (⟨[]⟩, some ⟨"age.newX25519RecipientFromPoint", 0, []⟩) else (⟨k⟩, none)) := by
  unfold age_newX25519RecipientFromPoint
  have hmk : Go.makeList (0 : UInt8) 32 = .ok (List.replicate 32 0) := rfl
  simp only [bind, Except.bind, pure, Except.pure, keys_lenTest, hmk]
  by_cases h : k.length = 32
  · simp only [h, ne_eq, not_true_eq_false, decide_false, Bool.false_eq_true, if_false,
      keys_copy32 k h]
  · simp only [h, ne_eq, not_false_eq_true, decide_true, if_true]

theorem keys_newIdentity (X : Bytes → Bytes → Go.M (Bytes × Option Go.Err)) (bp k : Bytes) :
    age_newX25519IdentityFromScalar X bp k = (if k.length ≠ 32
      then .ok (⟨[], []⟩, some ⟨"age.newX25519IdentityFromScalar", 0, []⟩)
      else match X k bp with
        | .ok r => .ok (⟨k, r.1⟩, none)
        | .error e => .error e) := by
  unfold age_newX25519IdentityFromScalar
  have hmk : Go.makeList (0 : UInt8) 32 = .ok (List.replicate 32 0) := rfl
  simp only [bind, Except.bind, pure, Except.pure, keys_lenTest, hmk]
  by_cases h : k.length = 32
  · simp only [h, ne_eq, not_true_eq_false, decide_false, Bool.false_eq_true, if_false,
      keys_copy32 k h]
    cases X k bp <;> rfl
  · simp only [h, ne_eq, not_false_eq_true, decide_true, if_true]

theorem keys_encode_ascii (hrp data : Bytes) : Go.isAscii (Keys.encodeOrEmpty hrp data) = true := by
  unfold Keys.encodeOrEmpty
  cases h : Bech32.encode hrp data with
  | error e => rfl
  | ok s =>
    obtain ⟨_, _, _, _, hb, _⟩ := Bech32.decode_ok (Bech32.decode_encode h)
    exact isAscii_of_noBad s hb

theorem parseX25519Recipient_tie (s : Bytes) :
    ∃ res, age_ParseX25519Recipient s = .ok res ∧
      match Keys.parseX25519Recipient s with
      | .ok k => res = (⟨k⟩, none)
      | .error _ => res.1 = ⟨[]⟩ ∧ res.2 ≠ none := by
  unfold age_ParseX25519Recipient Keys.parseX25519Recipient
  simp only [bind, Except.bind, pure, Except.pure]
  rw [decode_tie]
  cases hd : Bech32.decode s with
  | error e =>
    simp only []
    rw [if_pos (decErr_ne_none e)]
    exact ⟨_, rfl, rfl, by simp⟩
  | ok r =>
    obtain ⟨t, k⟩ := r
    simp only []
    rw [if_neg (by decide)]
    by_cases h1 : t = Keys.hrpAge
    · subst h1
      rw [if_neg (by decide), if_neg (by simp)]
      rw [keys_newRecipient]
      by_cases h2 : k.length = 32
      · simp only [h2, ne_eq, not_true_eq_false, if_false]
        exact ⟨_, rfl, rfl⟩
      · simp only [h2, ne_eq, not_false_eq_true, if_true]
        exact ⟨_, rfl, rfl, by simp⟩
    · have h1' : (t != ([97, 103, 101] : List UInt8)) = true := by
        simpa [Keys.hrpAge] using h1
      rw [if_pos h1', if_pos h1]
      exact ⟨_, rfl, rfl, by simp⟩

theorem recipientString_tie (k : Bytes) :
    age_X25519Recipient_String ⟨k⟩ = .ok (Keys.recipientString k) := by
  unfold age_X25519Recipient_String Keys.recipientString
  simp only [bind, Except.bind, pure, Except.pure]
  rw [encode_tie]
  simp only []
  rw [encode_fst]
  rfl

theorem parseX25519Identity_tie (X : Bytes → Bytes → Go.M (Bytes × Option Go.Err)) (bp : Bytes)
    (hX : ∀ a b, ∃ r, X a b = .ok r) (s : Bytes) :
    ∃ res, age_ParseX25519Identity X bp s = .ok res ∧
      match Keys.parseX25519Identity s with
      | .ok k => res.2 = none ∧ res.1.secretKey = k ∧ ∃ e, X k bp = .ok (res.1.ourPublicKey, e)
      | .error _ => res.1 = ⟨[], []⟩ ∧ res.2 ≠ none := by
  unfold age_ParseX25519Identity Keys.parseX25519Identity
  simp only [bind, Except.bind, pure, Except.pure]
  rw [decode_tie]
  cases hd : Bech32.decode s with
  | error e =>
    simp only []
    rw [if_pos (decErr_ne_none e)]
    exact ⟨_, rfl, rfl, by simp⟩
  | ok r =>
    obtain ⟨t, k⟩ := r
    simp only []
    rw [if_neg (by decide)]
    by_cases h1 : t = Keys.hrpSecret
    · subst h1
      rw [if_neg (by decide), if_neg (by simp)]
      rw [keys_newIdentity]
      by_cases h2 : k.length = 32
      · simp only [h2, ne_eq, not_true_eq_false, if_false]
        obtain ⟨r, hr⟩ := hX k bp
        rw [hr]
        simp only []
        rw [if_neg (by decide)]
        exact ⟨_, rfl, rfl, rfl, r.2, rfl⟩
      · simp only [h2, ne_eq, not_false_eq_true, if_true]
        exact ⟨_, rfl, rfl, by simp⟩
    · have h1' : (t != ([65, 71, 69, 45, 83, 69, 67, 82, 69, 84, 45, 75, 69, 89, 45] : List UInt8)) = true := by
        simpa [Keys.hrpSecret] using h1
      rw [if_pos h1', if_pos h1]
      exact ⟨_, rfl, rfl, by simp⟩

theorem identityString_tie (k pub : Bytes) :
    age_X25519Identity_String ⟨k, pub⟩ = .ok (Keys.identityString k) := by
  unfold age_X25519Identity_String Keys.identityString
  simp only [bind, Except.bind, pure, Except.pure]
  rw [encode_tie]
  simp only []
  rw [encode_fst]
  show Except.ok (Go.strings_ToUpper (Keys.encodeOrEmpty Keys.hrpSecret k)) = _
  rw [toUpper_ascii _ (keys_encode_ascii _ _)]

theorem identityRecipient_tie (k pub : Bytes) :
    age_X25519Identity_Recipient ⟨k, pub⟩ = .ok ⟨pub⟩ := by
  rfl

end GoTie
end AgeModel
