/-
  Proofs.GoTieSmall — `format.DecodeString` (CR and LF refused before the decoder is asked) and
  `agessh.sshFingerprint` (first four bytes of SHA-256 of the wire form, unpadded base64), translated
  on every run (kept apart from the plugin constructors, whose proofs rest on the bech32 ties).
-/
import AgeModel.GoSem
import AgeModel.Format
import AgeModel.Recipients
import AgeModel.Extracted.Funcs
namespace AgeModel
namespace GoTie
open Extracted

/-- CR and LF are refused before the decoder is asked; otherwise the answer is the decoder's -/
theorem decodeString_tie {ε : Type} (Dec : ε → Bytes → Go.M (Bytes × Option Go.Err)) (b64 : ε) (s : Bytes) :
    format_DecodeString Dec b64 s =
      if s.any (fun c => c = Format.nl || c = Format.cr) = true then .ok ([], some ⟨"format.DecodeString", 0, []⟩)
      else Dec b64 s := by
  unfold format_DecodeString
  have hc : Go.bytes_ContainsAny s [10, 13] = s.any (fun c => c = Format.nl || c = Format.cr) := by
    simp only [Go.bytes_ContainsAny, Format.nl, Format.cr]
    congr 1
    funext c
    simp only [List.contains, List.elem]
    by_cases h1 : c = 10
    · subst h1; rfl
    · by_cases h2 : c = 13
      · subst h2; rfl
      · have e1 : (c == 10) = false := by simp [h1]
        have e2 : (c == 13) = false := by simp [h2]
        simp [e1, e2, h1, h2]
  simp only [hc, bind, Except.bind, pure, Except.pure]
  split
  · rfl
  · cases Dec b64 s <;> rfl

/-- with a decoder that is the model's strict unpadded base64, `format.DecodeString` is the model's `decodeString` -/
theorem decodeString_model {ε : Type} (Dec : ε → Bytes → Go.M (Bytes × Option Go.Err)) (b64 : ε) (eD : Go.Err)
    (hDec : ∀ s, Dec b64 s = .ok (match B64.decRaw s with | some b => (b, none) | none => ([], some eD))) (s : Bytes) :
    ∃ r, format_DecodeString Dec b64 s = .ok r ∧
      match Format.decodeString s with
      | some b => r = (b, none)
      | none => r.1 = [] ∧ r.2 ≠ none := by
  rw [decodeString_tie, hDec]
  unfold Format.decodeString
  split
  · exact ⟨_, rfl, rfl, by simp⟩
  · cases B64.decRaw s with
    | some b => exact ⟨_, rfl, rfl⟩
    | none => exact ⟨_, rfl, rfl, by simp⟩

/-- the tag of an SSH key: SHA-256 of its wire form, first four bytes, unpadded base64 -/
theorem sshFingerprint_tie {π : Type} (P : Prims) (wire : π → Bytes)
    (Sum : Bytes → Go.M Bytes) (hSum : ∀ b, Sum b = .ok (P.sha256 b)) (hLen : ∀ b, (P.sha256 b).length = 32)
    (Mar : π → Go.M Bytes) (hMar : ∀ k, Mar k = .ok (wire k))
    (Enc : Bytes → Go.M Bytes) (hEnc : ∀ b, Enc b = .ok (B64.encRaw b)) (k : π) :
    agessh_sshFingerprint Sum Mar Enc k = .ok (sshTag P (wire k)) := by
  unfold agessh_sshFingerprint sshTag
  have hs : Go.slice (P.sha256 (wire k)) 0 4 = .ok ((P.sha256 (wire k)).take 4) := by
    have := hLen (wire k)
    simp [Go.slice, Go.len, this]
  simp only [hMar, hSum, bind, Except.bind, pure, Except.pure, hs, hEnc]

end GoTie
end AgeModel
