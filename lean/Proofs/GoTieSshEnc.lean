/-
  Proofs.GoTieSshEnc — when the passphrase-protected SSH identity asks for its passphrase, as it
  stands in the source.

  The FIRST PART of `(*EncryptedSSHIdentity).Unwrap` (agessh/encrypted_keys.go) — the cached-key
  shortcut, the match loop over the stanzas, the "no match" return and the call of the passphrase
  callback — is TRANSLATED on every run (`funcSpec.stopAt`: the fragment ends right after the
  callback returns; parsing the key file and the type switch over `crypto` key types are outside
  it). `ssh.PublicKey.Type`, `sshFingerprint`, the cached identity's `Unwrap` and the callback are
  parameters. `encssh_prompt_tie`: with nothing cached, the callback is invoked EXACTLY when the
  model's `SshEnc.scanStanzas` finds a stanza of the key's type carrying its tag before any
  malformed stanza of that type — handed a callback that FAULTS when called, the translated code
  still returns normally in every other case — and with a cached key it is never invoked and the
  call is delegated; the identity value is handed back unchanged in all these cases.
-/
import AgeModel.GoSem
import AgeModel.SshEnc
import AgeModel.Extracted.Funcs
namespace AgeModel
namespace GoTie
open Extracted

def toGoSshStanza (s : SshEnc.Stanza) : age_Stanza := ⟨s.type, s.args, s.body⟩

theorem encssh_loop {R π ρ ι : Type} (cfg : SshEnc.Config R) (i : agessh_EncryptedSSHIdentity π ρ ι)
    (Ty : π → Go.M Bytes) (hTy : Ty i.pubKey = .ok cfg.keyType)
    (Fp : π → Go.M Bytes) (hFp : Fp i.pubKey = .ok cfg.tag) :
    ∀ (ss : List SshEnc.Stanza) (m : Bool),
      agessh_EncryptedSSHIdentity_Unwrap_loop1 Ty Fp i (ss.map toGoSshStanza) m =
        .ok (match SshEnc.scanStanzas cfg ss with
          | .matched => .next true
          | .noMatch => .next m
          | .malformed => .ret ([], some ⟨"agessh.(*EncryptedSSHIdentity).Unwrap", 0, []⟩, i)) := by
  intro ss
  induction ss with
  | nil => intro m; rfl
  | cons s ss ih =>
    intro m
    obtain ⟨ty, args, body⟩ := s
    simp only [List.map_cons, toGoSshStanza, agessh_EncryptedSSHIdentity_Unwrap_loop1, hTy, hFp, bind, Except.bind, pure, Except.pure, SshEnc.scanStanzas]
    by_cases ht : ty = cfg.keyType
    · subst ht
      simp only [bne_self_eq_false, Bool.false_eq_true, if_false, ne_eq, not_true_eq_false]
      cases args with
      | nil => simp [Go.len]
      | cons a as =>
        have hl : decide (Go.len (a :: as) < (1 : Int)) = false := by
          have h0 : (0 : Int) ≤ Int.ofNat as.length := Int.natCast_nonneg _
          have : ¬ (Go.len (a :: as) < (1 : Int)) := by
            simp only [Go.len, List.length_cons, Int.natCast_add, Int.ofNat_eq_natCast] at *
            omega
          exact decide_eq_false this
        have hi : Go.idx (a :: as) (0 : Int) = .ok a := rfl
        simp only [hl, Bool.false_eq_true, if_false, hi]
        by_cases ha : a = cfg.tag
        · subst ha
          simp only [bne_self_eq_false, Bool.false_eq_true, if_false, not_true_eq_false]
        · have hb : (a != cfg.tag) = true := by simp [ha]
          simp only [hb, if_true, ha, not_false_eq_true, ih m]
    · have hb : (ty != cfg.keyType) = true := by simp [ht]
      simp only [hb, if_true, ne_eq, ht, not_false_eq_true, ih m]

/-- what follows once the passphrase is there: the key file is decrypted and turned into an identity (the region, which may
    make `Unwrap` return); the key's public half is compared with the DECLARED public key; only if they are equal is the
    decrypted identity remembered, and then it answers the header -/
def encsshAfterPrompt {π ρ ι κ ξ : Type} (U : ι → List age_Stanza → Go.M (Bytes × Option Go.Err))
    (Rg : agessh_EncryptedSSHIdentity π ρ ι → Option Go.Err → Bytes → Go.M (Go.Loop (ξ × ι) (Bytes × Option Go.Err)))
    (CPK : π → Go.M κ) (impl : π → Bool) (Eq : ξ → κ → Go.M Bool)
    (i : agessh_EncryptedSSHIdentity π ρ ι) (stanzas : List age_Stanza) (pw : Bytes × Option Go.Err) :
    Go.M (Bytes × Option Go.Err × agessh_EncryptedSSHIdentity π ρ ι) :=
  if (pw.2 != none) = true then .ok ([], some ⟨"agessh.(*EncryptedSSHIdentity).Unwrap", 1, []⟩, i)
  else do
    let r ← Rg i pw.2 pw.1
    match r with
    | .ret v => pure (v.1, v.2, i)                          -- any failure: NOTHING is remembered
    | .next (pk, d) =>
      if impl i.pubKey = false then .error (.panic 9998)
      else do
        let exp ← CPK i.pubKey
        let same ← Eq pk exp
        if same = false then pure ([], some ⟨"agessh.(*EncryptedSSHIdentity).Unwrap", 2, []⟩, i)   -- mismatch: nothing remembered
        else do
          let u ← U d stanzas
          pure (u.1, u.2, { i with decrypted := d })

theorem encssh_prompt_tie {R π ρ ι κ ξ : Type} (cfg : SshEnc.Config R) (key : π)
    (Ty : π → Go.M Bytes) (hTy : Ty key = .ok cfg.keyType)
    (Fp : π → Go.M Bytes) (hFp : Fp key = .ok cfg.tag)
    (isNil : ι → Bool) (U : ι → List age_Stanza → Go.M (Bytes × Option Go.Err))
    (Rg : agessh_EncryptedSSHIdentity π ρ ι → Option Go.Err → Bytes → Go.M (Go.Loop (ξ × ι) (Bytes × Option Go.Err)))
    (nilX : ξ) (nilI : ι) (CPK : π → Go.M κ) (impl : π → Bool) (Eq : ξ → κ → Go.M Bool)
    (cb : Go.M (Bytes × Option Go.Err)) (rcp : ρ) (pem : Bytes) (dec : ι) (stanzas : List SshEnc.Stanza) :
    agessh_EncryptedSSHIdentity_Unwrap isNil U Ty Fp Rg nilX nilI CPK impl Eq ⟨key, rcp, pem, cb, dec⟩ (stanzas.map toGoSshStanza) =
      if isNil dec = false then
        (U dec (stanzas.map toGoSshStanza)).map (fun r => (r.1, r.2, ⟨key, rcp, pem, cb, dec⟩))
      else match SshEnc.scanStanzas cfg stanzas with
        | .malformed => .ok ([], some ⟨"agessh.(*EncryptedSSHIdentity).Unwrap", 0, []⟩, ⟨key, rcp, pem, cb, dec⟩)
        | .noMatch => .ok ([], age_ErrIncorrectIdentity, ⟨key, rcp, pem, cb, dec⟩)
        | .matched => cb >>= encsshAfterPrompt U Rg CPK impl Eq ⟨key, rcp, pem, cb, dec⟩ (stanzas.map toGoSshStanza) := by
  have hl := encssh_loop cfg (⟨key, rcp, pem, cb, dec⟩ : agessh_EncryptedSSHIdentity π ρ ι) Ty hTy Fp hFp stanzas false
  simp only [agessh_EncryptedSSHIdentity_Unwrap, hl, bind, Except.bind, pure, Except.pure]
  cases hn : isNil dec with
  | false =>
    simp only [Bool.not_false, if_true]
    cases U dec (stanzas.map toGoSshStanza) <;> rfl
  | true =>
    simp only [Bool.not_true, Bool.false_eq_true, if_false]
    cases SshEnc.scanStanzas cfg stanzas with
    | malformed => rfl
    | noMatch => rfl
    | matched =>
      simp only [Bool.not_true, Bool.false_eq_true, if_false]
      cases cb with
      | error e => rfl
      | ok pw =>
        simp only [encsshAfterPrompt, bind, Except.bind, pure, Except.pure]
        by_cases he : (pw.2 != none) = true
        · simp [he]
        · simp only [he, if_false]
          cases Rg ⟨key, rcp, pem, .ok pw, dec⟩ pw.2 pw.1 with
          | error e => rfl
          | ok r =>
            cases r with
            | ret v => rfl
            | next pd =>
              obtain ⟨pk, d⟩ := pd
              simp only []
              cases hi : impl key with
              | false => simp [hi, throw, throwThe, MonadExceptOf.throw]
              | true =>
                simp only [hi, if_true, Bool.true_eq_false, if_false]
                cases CPK key with
                | error e => rfl
                | ok exp =>
                  simp only []
                  cases Eq pk exp with
                  | error e => rfl
                  | ok same =>
                    cases same with
                    | false => simp
                    | true =>
                      simp only [Bool.not_true, Bool.false_eq_true, if_false, Bool.true_eq_false]
                      first
                        | done
                        | (cases U d (stanzas.map toGoSshStanza) <;> rfl)

/-- no prompt without a match: a callback that faults when called is never reached (nor is the key file touched) -/
theorem encssh_no_prompt {R π ρ ι κ ξ : Type} (cfg : SshEnc.Config R) (key : π)
    (Ty : π → Go.M Bytes) (hTy : Ty key = .ok cfg.keyType)
    (Fp : π → Go.M Bytes) (hFp : Fp key = .ok cfg.tag)
    (isNil : ι → Bool) (U : ι → List age_Stanza → Go.M (Bytes × Option Go.Err)) (nilX : ξ) (nilI : ι)
    (CPK : π → Go.M κ) (impl : π → Bool) (Eq : ξ → κ → Go.M Bool)
    (rcp : ρ) (pem : Bytes) (dec : ι) (hdec : isNil dec = true) (stanzas : List SshEnc.Stanza)
    (h : SshEnc.scanStanzas cfg stanzas ≠ .matched) :
    ∃ res, agessh_EncryptedSSHIdentity_Unwrap isNil U Ty Fp (fun _ _ _ => .error (.panic 98)) nilX nilI CPK impl Eq
        ⟨key, rcp, pem, .error (.panic 99), dec⟩ (stanzas.map toGoSshStanza) = .ok res ∧
      res.2.1 ≠ none ∧ res.2.2 = ⟨key, rcp, pem, .error (.panic 99), dec⟩ := by
  rw [encssh_prompt_tie cfg key Ty hTy Fp hFp isNil U _ nilX nilI CPK impl Eq _ rcp pem dec stanzas]
  simp only [hdec, Bool.true_eq_false, if_false]
  cases hs : SshEnc.scanStanzas cfg stanzas with
  | malformed => exact ⟨_, rfl, by simp, rfl⟩
  | noMatch => exact ⟨_, rfl, by simp [age_ErrIncorrectIdentity], rfl⟩
  | matched => exact absurd hs h

/-- NO HISTORY unless the key was validated: whenever the identity handed back differs from the one handed in, the prompt
    succeeded, the key file was turned into an identity `d` with public half `pk`, `pk` was found EQUAL to the declared public
    key, and the only change is that `d` is remembered — the identity that answered the header -/
theorem encssh_no_history {R π ρ ι κ ξ : Type} (cfg : SshEnc.Config R) (key : π)
    (Ty : π → Go.M Bytes) (hTy : Ty key = .ok cfg.keyType)
    (Fp : π → Go.M Bytes) (hFp : Fp key = .ok cfg.tag)
    (isNil : ι → Bool) (U : ι → List age_Stanza → Go.M (Bytes × Option Go.Err))
    (Rg : agessh_EncryptedSSHIdentity π ρ ι → Option Go.Err → Bytes → Go.M (Go.Loop (ξ × ι) (Bytes × Option Go.Err)))
    (nilX : ξ) (nilI : ι) (CPK : π → Go.M κ) (impl : π → Bool) (Eq : ξ → κ → Go.M Bool)
    (cb : Go.M (Bytes × Option Go.Err)) (rcp : ρ) (pem : Bytes) (dec : ι) (hdec : isNil dec = true) (stanzas : List SshEnc.Stanza)
    (res : Bytes × Option Go.Err × agessh_EncryptedSSHIdentity π ρ ι)
    (hres : agessh_EncryptedSSHIdentity_Unwrap isNil U Ty Fp Rg nilX nilI CPK impl Eq ⟨key, rcp, pem, cb, dec⟩ (stanzas.map toGoSshStanza) = .ok res)
    (hchg : res.2.2 ≠ ⟨key, rcp, pem, cb, dec⟩) :
    ∃ pw pk d exp, cb = .ok (pw, none) ∧ Rg ⟨key, rcp, pem, cb, dec⟩ none pw = .ok (.next (pk, d)) ∧
      CPK key = .ok exp ∧ Eq pk exp = .ok true ∧
      res.2.2 = ⟨key, rcp, pem, cb, d⟩ ∧ U d (stanzas.map toGoSshStanza) = .ok (res.1, res.2.1) := by
  rw [encssh_prompt_tie cfg key Ty hTy Fp hFp isNil U Rg nilX nilI CPK impl Eq cb rcp pem dec stanzas] at hres
  simp only [hdec, Bool.true_eq_false, if_false] at hres
  cases hs : SshEnc.scanStanzas cfg stanzas with
  | malformed => rw [hs] at hres; cases hres; exact absurd rfl hchg
  | noMatch => rw [hs] at hres; cases hres; exact absurd rfl hchg
  | matched =>
    rw [hs] at hres
    cases hcb : cb with
    | error e => rw [hcb] at hres; cases hres
    | ok pw =>
      rw [hcb] at hres
      simp only [bind, Except.bind, encsshAfterPrompt] at hres
      obtain ⟨p, pe⟩ := pw
      cases pe with
      | some x => simp at hres; subst hres; rw [hcb] at hchg; exact absurd rfl hchg
      | none =>
        simp only [bne_self_eq_false, Bool.false_eq_true, if_false] at hres
        cases hr : Rg ⟨key, rcp, pem, .ok (p, none), dec⟩ none p with
        | error e => rw [hr] at hres; cases hres
        | ok r =>
          rw [hr] at hres
          cases r with
          | ret v => simp [pure, Except.pure] at hres; subst hres; rw [hcb] at hchg; exact absurd rfl hchg
          | next pd =>
            obtain ⟨pk, d⟩ := pd
            simp only [] at hres
            cases hi : impl key with
            | false => simp [hi] at hres
            | true =>
              simp only [hi, Bool.true_eq_false, if_false] at hres
              cases hc : CPK key with
              | error e => rw [hc] at hres; cases hres
              | ok exp =>
                rw [hc] at hres
                simp only [] at hres
                cases he : Eq pk exp with
                | error e => rw [he] at hres; cases hres
                | ok same =>
                  rw [he] at hres
                  cases same with
                  | false => simp [pure, Except.pure] at hres; subst hres; rw [hcb] at hchg; exact absurd rfl hchg
                  | true =>
                    simp only [Bool.true_eq_false, if_false] at hres
                    cases hu : U d (stanzas.map toGoSshStanza) with
                    | error e => rw [hu] at hres; cases hres
                    | ok u =>
                      rw [hu] at hres
                      simp [pure, Except.pure] at hres
                      subst hres
                      exact ⟨p, pk, d, exp, rfl, hr, rfl, he, rfl, hu⟩

end GoTie
end AgeModel
