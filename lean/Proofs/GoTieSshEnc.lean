/-
  Proofs.GoTieSshEnc — when the passphrase-protected SSH identity asks for its passphrase, as it
  stands in the source.

  The FIRST PART of `(*EncryptedSSHIdentity).Unwrap` (agessh/encrypted_keys.go) — the cached-key
  shortcut, the match loop over the stanzas, the "no match" return and the call of the passphrase
  callback — is TRANSLATED on every run (`funcSpec.stopAt`: the fragment ends right after the
  callback returns; parsing the key file and the type switch over `crypto` key types are outside
  it). `ssh.PublicKey.Type`, `sshFingerprint`, the cached identity's `Unwrap` and the callback are
  parameters. `encssh_prompt_tie`: with nothing cached, the callback is invoked EXACTLY when the
  model's `SshEnc.scanStanzas` finds a stanza of the key's type carrying its tag before any
  malformed stanza of that type — handed a callback that FAULTS when called, the translated code
  still returns normally in every other case — and with a cached key it is never invoked and the
  call is delegated; the identity value is handed back unchanged in all these cases.
-/
import AgeModel.GoSem
import AgeModel.SshEnc
import AgeModel.Extracted.Funcs
namespace AgeModel
namespace GoTie
open Extracted

def toGoSshStanza (s : SshEnc.Stanza) : age_Stanza := ⟨s.type, s.args, s.body⟩

theorem encssh_loop {R π ρ ι : Type} (cfg : SshEnc.Config R) (i : agessh_EncryptedSSHIdentity π ρ ι)
    (Ty : π → Go.M Bytes) (hTy : Ty i.pubKey = .ok cfg.keyType)
    (Fp : π → Go.M Bytes) (hFp : Fp i.pubKey = .ok cfg.tag) :
    ∀ (ss : List SshEnc.Stanza) (m : Bool),
      agessh_EncryptedSSHIdentity_Unwrap_loop1 Ty Fp i (ss.map toGoSshStanza) m =
        .ok (match SshEnc.scanStanzas cfg ss with
          | .matched => .next true
          | .noMatch => .next m
          | .malformed => .ret ([], some ⟨"agessh.(*EncryptedSSHIdentity).Unwrap", 0, []⟩, i)) := by
  intro ss
  induction ss with
  | nil => intro m; rfl
  | cons s ss ih =>
    intro m
    obtain ⟨ty, args, body⟩ := s
    simp only [List.map_cons, toGoSshStanza, agessh_EncryptedSSHIdentity_Unwrap_loop1, hTy, hFp, bind, Except.bind, pure, Except.pure, SshEnc.scanStanzas]
    by_cases ht : ty = cfg.keyType
    · subst ht
      simp only [bne_self_eq_false, Bool.false_eq_true, if_false, ne_eq, not_true_eq_false]
      cases args with
      | nil => simp [Go.len]
      | cons a as =>
        have hl : decide (Go.len (a :: as) < (1 : Int)) = false := by
          have h0 : (0 : Int) ≤ Int.ofNat as.length := Int.natCast_nonneg _
          have : ¬ (Go.len (a :: as) < (1 : Int)) := by
            simp only [Go.len, List.length_cons, Int.natCast_add, Int.ofNat_eq_natCast] at *
            omega
          exact decide_eq_false this
        have hi : Go.idx (a :: as) (0 : Int) = .ok a := rfl
        simp only [hl, Bool.false_eq_true, if_false, hi]
        by_cases ha : a = cfg.tag
        · subst ha
          simp only [bne_self_eq_false, Bool.false_eq_true, if_false, not_true_eq_false]
        · have hb : (a != cfg.tag) = true := by simp [ha]
          simp only [hb, if_true, ha, not_false_eq_true, ih m]
    · have hb : (ty != cfg.keyType) = true := by simp [ht]
      simp only [hb, if_true, ne_eq, ht, not_false_eq_true, ih m]

theorem encssh_prompt_tie {R π ρ ι : Type} (cfg : SshEnc.Config R) (key : π)
    (Ty : π → Go.M Bytes) (hTy : Ty key = .ok cfg.keyType)
    (Fp : π → Go.M Bytes) (hFp : Fp key = .ok cfg.tag)
    (isNil : ι → Bool) (U : ι → List age_Stanza → Go.M (Bytes × Option Go.Err))
    (cb : Go.M (Bytes × Option Go.Err)) (rcp : ρ) (pem : Bytes) (dec : ι) (stanzas : List SshEnc.Stanza) :
    agessh_EncryptedSSHIdentity_Unwrap isNil U Ty Fp ⟨key, rcp, pem, cb, dec⟩ (stanzas.map toGoSshStanza) =
      if isNil dec = false then
        (U dec (stanzas.map toGoSshStanza)).map (fun r => (r.1, r.2, ⟨key, rcp, pem, cb, dec⟩))
      else match SshEnc.scanStanzas cfg stanzas with
        | .malformed => .ok ([], some ⟨"agessh.(*EncryptedSSHIdentity).Unwrap", 0, []⟩, ⟨key, rcp, pem, cb, dec⟩)
        | .noMatch => .ok ([], age_ErrIncorrectIdentity, ⟨key, rcp, pem, cb, dec⟩)
        | .matched => cb.map (fun r => (r.1, r.2, ⟨key, rcp, pem, cb, dec⟩)) := by
  have hl := encssh_loop cfg (⟨key, rcp, pem, cb, dec⟩ : agessh_EncryptedSSHIdentity π ρ ι) Ty hTy Fp hFp stanzas false
  simp only [agessh_EncryptedSSHIdentity_Unwrap, hl, bind, Except.bind, pure, Except.pure]
  cases hn : isNil dec with
  | false =>
    simp only [Bool.not_false, if_true]
    cases U dec (stanzas.map toGoSshStanza) <;> rfl
  | true =>
    simp only [Bool.not_true, Bool.false_eq_true, if_false]
    cases SshEnc.scanStanzas cfg stanzas with
    | malformed => rfl
    | noMatch => rfl
    | matched =>
      simp only [Bool.not_true, Bool.false_eq_true, if_false]
      cases cb <;> rfl

/-- no prompt without a match: a callback that faults when called is never reached -/
theorem encssh_no_prompt {R π ρ ι : Type} (cfg : SshEnc.Config R) (key : π)
    (Ty : π → Go.M Bytes) (hTy : Ty key = .ok cfg.keyType)
    (Fp : π → Go.M Bytes) (hFp : Fp key = .ok cfg.tag)
    (isNil : ι → Bool) (U : ι → List age_Stanza → Go.M (Bytes × Option Go.Err))
    (rcp : ρ) (pem : Bytes) (dec : ι) (hdec : isNil dec = true) (stanzas : List SshEnc.Stanza)
    (h : SshEnc.scanStanzas cfg stanzas ≠ .matched) :
    ∃ res, agessh_EncryptedSSHIdentity_Unwrap isNil U Ty Fp ⟨key, rcp, pem, .error (.panic 99), dec⟩ (stanzas.map toGoSshStanza) = .ok res ∧
      res.2.1 ≠ none := by
  rw [encssh_prompt_tie cfg key Ty hTy Fp hFp isNil U _ rcp pem dec stanzas]
  simp only [hdec, Bool.true_eq_false, if_false]
  cases hs : SshEnc.scanStanzas cfg stanzas with
  | malformed => exact ⟨_, rfl, by simp⟩
  | noMatch => exact ⟨_, rfl, by simp [age_ErrIncorrectIdentity]⟩
  | matched => exact absurd hs h

end GoTie
end AgeModel
