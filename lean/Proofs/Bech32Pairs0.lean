/- chunk 0 of the weight-4 computation (see Proofs/Bech32Pairs.lean) -/
import Proofs.Bech32Pairs
namespace AgeModel
namespace Bech32
theorem pairs_chunk_0 : chunk 0 = true := by decide +kernel
end Bech32
end AgeModel
