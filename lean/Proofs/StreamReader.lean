/-
  Proofs.StreamReader — the Reader machine refines `decFrom` for every sequence
  of read sizes (and for failing sources).
-/
import Proofs.StreamCanon
namespace AgeModel
namespace Stream

theorem decFrom_fuel (A : AEAD) (C : Nat) (hE : 0 < C + A.T) (k : Bytes) (sf : Bool) :
    ∀ (f : Nat) (i : Nat) (c : Bytes) (f' : Nat), c.length < f → c.length < f' →
      decFrom A C k sf i c f = decFrom A C k sf i c f' := by
  intro f
  induction f with
  | zero => intro i c f' h; omega
  | succ f ih =>
    intro i c f' h h'
    match f' with
    | 0 => omega
    | f'+1 =>
      unfold decFrom
      simp only
      split
      · rfl
      · rename_i hfull
        have h1 : (c.drop (C + A.T)).length < f := by rw [List.length_drop]; omega
        have h2 : (c.drop (C + A.T)).length < f' := by rw [List.length_drop]; omega
        rw [ih (i+1) (c.drop (C + A.T)) f' h1 h2]

/-- fuel-free decryption from chunk index `i` -/
def dec (A : AEAD) (C : Nat) (k : Bytes) (sf : Bool) (i : Nat) (c : Bytes) : Bytes × Outcome :=
  decFrom A C k sf i c (c.length + 1)

theorem decrypt_eq_dec (A : AEAD) (C : Nat) (k c : Bytes) : decrypt A C k c = dec A C k false 0 c := rfl

/-- one unfolding of `dec` with the recursive call again in fuel-free form -/
theorem dec_unfold (A : AEAD) (C : Nat) (hE : 0 < C + A.T) (k : Bytes) (sf : Bool) (i : Nat) (c : Bytes) :
    dec A C k sf i c =
      (if c.length < C + A.T then
        if sf then ([], .srcErr)
        else if c.length = 0 then ([], .truncated)
        else if i ≠ 0 ∧ c.length = A.T then ([], .emptyLast)
        else match A.openF k (nonce i true) c with
          | some p => (p, .eof)
          | none => ([], .authFail)
      else
        match A.openF k (nonce i false) (c.take (C + A.T)) with
        | some p => (p ++ (dec A C k sf (i+1) (c.drop (C + A.T))).1, (dec A C k sf (i+1) (c.drop (C + A.T))).2)
        | none =>
          match A.openF k (nonce i true) (c.take (C + A.T)) with
          | some p =>
            if (c.drop (C + A.T)).length = 0 then (p, if sf then .srcErr else .eof) else (p, .trailing)
          | none => ([], .authFail)) := by
  unfold dec
  rw [decFrom]
  simp only
  split
  · rfl
  · rename_i hfull
    have h1 : (c.drop (C + A.T)).length < c.length := by rw [List.length_drop]; omega
    rw [decFrom_fuel A C hE k sf c.length (i+1) (c.drop (C + A.T)) ((c.drop (C + A.T)).length + 1) h1 (by omega)]
    rfl

/-- what a reader state still owes its caller -/
def Reader.denote (A : AEAD) (C : Nat) (k : Bytes) (r : Reader) : Bytes × Outcome :=
  match r.err with
  | some e => (r.unread, e)
  | none =>
    (r.unread ++ (dec A C k r.src.fail r.ctr r.src.data).1, (dec A C k r.src.fail r.ctr r.src.data).2)

/-- no counter wrap can happen while this holds -/
def Reader.Bounded (L : Nat) (r : Reader) : Prop := r.ctr + r.src.data.length < L

theorem readChunk_spec (A : AEAD) (C L : Nat) (hE : 0 < C + A.T) (k : Bytes) (r : Reader)
    (hu : r.unread = []) (hb : r.Bounded L) :
    match r.readChunk A C L k with
    | (r1, .error e) => dec A C k r.src.fail r.ctr r.src.data = ([], e) ∧ e ≠ .eof ∧ r1.unread = []
    | (r1, .ok last) =>
        r1.src.fail = r.src.fail ∧ r1.err = r.err ∧ r1.Bounded L ∧
        r1.src.data.length < r.src.data.length ∧
        (last = false →
          dec A C k r.src.fail r.ctr r.src.data
            = (r1.unread ++ (dec A C k r1.src.fail r1.ctr r1.src.data).1, (dec A C k r1.src.fail r1.ctr r1.src.data).2)) ∧
        (last = true →
          dec A C k r.src.fail r.ctr r.src.data
            = (r1.unread, if r1.src.data.length = 0 then (if r.src.fail then .srcErr else .eof) else .trailing)) := by
  unfold Reader.readChunk
  simp only [hu, List.length_nil, ne_eq, not_true_eq_false, if_false]
  rw [dec_unfold A C hE k]
  have htl : (r.src.data.take (C + A.T)).length = min (C + A.T) r.src.data.length := List.length_take
  by_cases hshort : r.src.data.length < C + A.T
  · have htk : r.src.data.take (C + A.T) = r.src.data := List.take_of_length_le (by omega)
    have hdr : r.src.data.drop (C + A.T) = [] := List.drop_of_length_le (by omega)
    simp only [hshort, if_true, htk]
    by_cases hf : r.src.fail
    · simp [hf]
    · simp only [hf, and_false, Bool.false_eq_true, if_false]
      by_cases h0 : r.src.data.length = 0
      · simp [h0]
      · simp only [h0, if_false]
        by_cases hemp : r.ctr ≠ 0 ∧ r.src.data.length = A.T
        · have : (¬ r.ctr = 0) ∧ r.src.data.length = A.T := hemp
          simp [this]
        · have hemp' : ¬ (True ∧ ¬ r.ctr = 0 ∧ r.src.data.length = A.T) := by
            intro h; exact hemp h.2
          simp only [true_and] at hemp'
          simp only [hemp, hemp', if_false, decide_true, true_and]
          cases hop : A.openF k (nonce r.ctr true) r.src.data with
          | none => simp
          | some out =>
            simp only [if_true]
            unfold Reader.Bounded at hb
            have hL : ¬ (r.ctr + 1 ≥ L) := by omega
            simp only [hL, if_false, hdr, List.length_nil, if_true]
            refine ⟨by simp, by simp, ?_, by omega, by simp, ?_⟩
            · unfold Reader.Bounded; simp only [List.length_nil]; omega
            · intro _; simp [hf]
  · have hfull : (r.src.data.take (C + A.T)).length = C + A.T := by rw [htl]; omega
    have hnl : ¬ ((r.src.data.take (C + A.T)).length < C + A.T) := by omega
    have hn0 : ¬ ((r.src.data.take (C + A.T)).length = 0) := by omega
    simp only [hshort, hnl, hn0, if_false, false_and, decide_false]
    have hdl : (r.src.data.drop (C + A.T)).length < r.src.data.length := by rw [List.length_drop]; omega
    have hdl' : (r.src.data.drop (C + A.T)).length + 1 ≤ r.src.data.length := by omega
    unfold Reader.Bounded at hb
    have hL : ¬ (r.ctr + 1 ≥ L) := by omega
    cases hop : A.openF k (nonce r.ctr false) (r.src.data.take (C + A.T)) with
    | some out =>
      simp only [hL, if_false]
      refine ⟨by simp, by simp, ?_, hdl, ?_, by simp⟩
      · unfold Reader.Bounded; simp only; omega
      · intro _; simp
    | none =>
      simp only [Bool.false_eq_true, if_false]
      cases hop2 : A.openF k (nonce r.ctr true) (r.src.data.take (C + A.T)) with
      | none => simp
      | some out =>
        simp only [hL, if_false]
        refine ⟨by simp, by simp, ?_, hdl, by simp, ?_⟩
        · unfold Reader.Bounded; simp only; omega
        · intro _
          simp only [List.length_drop] at *
          split <;> rfl

end Stream
end AgeModel
