/-
  Proofs.GoTieEncrypt — age.Encrypt as it stands in the source.

  `age.Encrypt` (age.go) is TRANSLATED on every run (AgeModel/Extracted/Funcs.lean) with
  `crypto/rand` made an EXPLICIT TAPE (an extra parameter, handed back: `rand.Read(buf)` draws
  `len(buf)` bytes from it) and the destination an explicit state. The recipient's
  `Wrap`/`WrapWithLabels` (through `wrapWithLabels`), `headerMAC`, `Header.Marshal`,
  `dst.Write`, `streamKey`, `stream.NewWriter` are abstract parameters; `EncryptEnv` says
  what is assumed of them: they are the model's (each recipient's wrap draws from the tape as
  the model's `wrapOne` does; `Marshal` performs the model's header writes on the destination).
  The theorem: for EVERY recipient list, tape and destination the translated `Encrypt` does
  what the model's `encryptInit` (AgeModel/File.lean) does — the same tape left over (so the
  SAME draws in the same order: 16 bytes of file key, each recipient's draws in list order, 16
  bytes of nonce: `Props.C06.tape_linear` is about the source text), the same destination
  state (so `Props.C11.refusal_writes_nothing` and `Props.C13.encrypt_failure_no_writer` are),
  the same refusals (label comparison on the sorted lists, first recipient's set as the
  reference, failing wrap with its index), the writer made from the same key over the same
  destination.
-/
import AgeModel.GoSem
import AgeModel.File
import AgeModel.Extracted.Funcs
import Proofs.GoTieSlicesEq
import Proofs.GoTieTape
import Proofs.GoTieFormat
import Proofs.GoTieUnwrap
namespace AgeModel
namespace GoTie
open Extracted Stream

/-- which Go errors Encrypt may return for each error class of the model -/
def encErrRel (eRand : Go.Err) : EncErr → Option Go.Err → Prop
  | .noRecipients, g => g = some ⟨"age.Encrypt", 0, []⟩
  | .rand, g => g = some eRand ∨ ∃ i, g = some ⟨"age.Encrypt", 1, [i]⟩
  | .wrap i, g => g = some ⟨"age.Encrypt", 1, [Int.ofNat i]⟩
  | .incompatible, g => g = some ⟨"age.Encrypt", 2, []⟩
  | .dst, g => g = some ⟨"age.Encrypt", 4, []⟩ ∨ g = some ⟨"age.Encrypt", 5, []⟩

structure EncryptEnv (P : Prims) (S : DstSpec) (ρ δ ω : Type) where
  eRand : Go.Err
  eWrap : Go.Err
  eW : Go.Err
  nilW : ω
  recOf : ρ → Recipient
  W : ρ → Bytes → Bytes → Go.M (List age_Stanza × List Bytes × Option Go.Err × Bytes)
  /-- a recipient's wrap: the model's `wrapOne` — the stanzas, the labels, the tape left over -/
  hW : ∀ r fk tape, W r fk tape = .ok (match wrapOne P (recOf r) fk tape with
        | .error () => ([], [], some eRand, tape)
        | .ok (none, t) => ([], [], some eWrap, t)
        | .ok (some (ss, l), t) => (ss.map toGoStanza, l, none, t))
  mac : Bytes → format_Header → Go.M (Bytes × Option Go.Err)
  hMac : ∀ fk (ss : List Format.Stanza) m, mac fk ⟨ss.map toGoFStanza, m⟩ = .ok (headerMAC P fk ss, none)
  absD : δ → Dst S
  hdrSegs : List Nat
  marshalF : format_Header → δ → Go.M (Option Go.Err × δ)
  /-- `Header.Marshal(dst)`: the model's header bytes written to the destination in some split -/
  hMarshal : ∀ (h : Format.Header) d, ∃ d', marshalF (toGoHeader h) d =
        .ok ((if (writeAll (absD d) (segmentBy hdrSegs (Format.marshal h))).2 then none else some eW), d') ∧
      absD d' = (writeAll (absD d) (segmentBy hdrSegs (Format.marshal h))).1
  write : δ → Bytes → Go.M (Int × Option Go.Err × δ)
  hWrite : ∀ d b, ∃ n d', write d b = .ok (n, (if ((absD d).write b).2 then none else some eW), d') ∧
      absD d' = ((absD d).write b).1
  key : Bytes → Bytes → Go.M Bytes
  hKey : ∀ fk n, key fk n = .ok (streamKey P fk n)
  mkW : Bytes → δ → ω
  newWriter : Bytes → δ → Go.M (ω × Option Go.Err)
  hNew : ∀ k d, newWriter k d = .ok (mkW k d, none)

theorem bytesLe_eq : ∀ a b, Go.bytesLe a b = bytesLe a b
  | [], _ => rfl
  | _ :: _, [] => rfl
  | a :: as, b :: bs => by
    simp only [Go.bytesLe, bytesLe, bytesLe_eq as bs]

theorem insertSorted_eq (x : Bytes) : ∀ l, Go.insertSorted x l = insertLabel x l
  | [] => rfl
  | y :: ys => by
    simp only [Go.insertSorted, insertLabel, bytesLe_eq, insertSorted_eq x ys]

theorem sort_Strings_eq : ∀ l, Go.sort_Strings l = sortLabels l
  | [] => rfl
  | x :: xs => by
    simp only [Go.sort_Strings, sortLabels, insertSorted_eq, sort_Strings_eq xs]

theorem encrypt_loop2_eq {δ τ ω : Type} (tape : τ) (dst : δ) :
    ∀ (ss : List Format.Stanza) (hdr : format_Header),
      age_Encrypt_loop2 (ω := ω) tape dst (ss.map toGoStanza) hdr =
        .ok (.next { hdr with Recipients := hdr.Recipients ++ ss.map toGoFStanza })
  | [], hdr => by
    simp only [List.map, age_Encrypt_loop2, List.append_nil]; rfl
  | s :: ss, hdr => by
    simp only [List.map, age_Encrypt_loop2]
    rw [encrypt_loop2_eq tape dst ss]
    simp only [toGoStanza, toGoFStanza, List.append_assoc, List.singleton_append]

section steps
variable {δ ρ ω : Type} (nilW : ω)
  (W : ρ → Bytes → Bytes → Go.M (List age_Stanza × List Bytes × Option Go.Err × Bytes))
  (d : δ) (fk : Bytes) (r : ρ) (rs : List ρ) (k : Int) (tape : Bytes) (hdr : format_Header)
  (labels : List Bytes)

theorem loop1_step_err {ss : List age_Stanza} {l : List Bytes} {e : Go.Err} {t : Bytes}
    (hW : W r fk tape = .ok (ss, l, some e, t)) :
    age_Encrypt_loop1 nilW W d fk (r :: rs) k tape hdr labels =
      .ok (.ret (nilW, some ⟨"age.Encrypt", 1, [k]⟩, d, t)) := by
  simp only [age_Encrypt_loop1, hW, bind, Except.bind]
  rfl

theorem loop1_step_first {ss : List Format.Stanza} {l : List Bytes} {t : Bytes}
    (hW : W r fk tape = .ok (ss.map toGoStanza, l, none, t)) :
    age_Encrypt_loop1 nilW W d fk (r :: rs) 0 tape hdr labels =
      age_Encrypt_loop1 nilW W d fk rs 1 t
        { hdr with Recipients := hdr.Recipients ++ ss.map toGoFStanza } (sortLabels l) := by
  simp only [age_Encrypt_loop1, hW, bind, Except.bind, encrypt_loop2_eq, sort_Strings_eq]
  rfl

theorem loop1_step_same {ss : List Format.Stanza} {l : List Bytes} {t : Bytes}
    (hW : W r fk tape = .ok (ss.map toGoStanza, l, none, t)) (hk : k ≠ 0)
    (hl : labels = sortLabels l) :
    age_Encrypt_loop1 nilW W d fk (r :: rs) k tape hdr labels =
      age_Encrypt_loop1 nilW W d fk rs (k + 1) t
        { hdr with Recipients := hdr.Recipients ++ ss.map toGoFStanza } labels := by
  have hk' : (k == 0) = false := by simpa using hk
  simp only [age_Encrypt_loop1, hW, bind, Except.bind, encrypt_loop2_eq, sort_Strings_eq,
    slicesEqual_tie, hk', hl]
  simp

theorem loop1_step_diff {ss : List Format.Stanza} {l : List Bytes} {t : Bytes}
    (hW : W r fk tape = .ok (ss.map toGoStanza, l, none, t)) (hk : k ≠ 0)
    (hl : labels ≠ sortLabels l) :
    age_Encrypt_loop1 nilW W d fk (r :: rs) k tape hdr labels =
      .ok (.ret (nilW, some ⟨"age.Encrypt", 2, []⟩, d, t)) := by
  have hk' : (k == 0) = false := by simpa using hk
  simp only [age_Encrypt_loop1, hW, bind, Except.bind, encrypt_loop2_eq, sort_Strings_eq,
    slicesEqual_tie, hk']
  simp [hl]
  rfl
end steps

/-- how the outcome of the translated recipient loop relates to the model's `wrapAll` -/
def loopRel {δ ω : Type} (eRand : Go.Err) (nilW : ω) (d : δ) :
    Except EncErr (List Format.Stanza × Bytes) →
    Go.Loop (Bytes × format_Header × List Bytes) (ω × Option Go.Err × δ × Bytes) → Prop
  | .ok (stanzas, t'), .next (t, hdr, _) => t = t' ∧ hdr = ⟨stanzas.map toGoFStanza, []⟩
  | .error e, .ret (w, g, d', _) => w = nilW ∧ d' = d ∧ encErrRel eRand e g
  | _, _ => False

theorem encrypt_loop1_eq (P : Prims) {S : DstSpec} {ρ δ ω : Type} (E : EncryptEnv P S ρ δ ω)
    (d : δ) (fk : Bytes) :
    ∀ (rs : List ρ) (i : Nat) (tape : Bytes) (acc : List Format.Stanza) (labels : List Bytes)
      (lo : Option (List Bytes)), (lo = none ↔ i = 0) → (∀ l0, lo = some l0 → labels = l0) →
      ∃ out, age_Encrypt_loop1 E.nilW E.W d fk rs (Int.ofNat i) tape ⟨acc.map toGoFStanza, []⟩ labels
          = .ok out ∧
        loopRel E.eRand E.nilW d (wrapAll P fk (rs.map E.recOf) i tape acc lo) out
  | [], i, tape, acc, labels, lo, _, _ => ⟨_, rfl, rfl, rfl⟩
  | r :: rs, i, tape, acc, labels, lo, h1, h2 => by
    have hW := E.hW r fk tape
    simp only [List.map, wrapAll]
    cases hw : wrapOne P (E.recOf r) fk tape with
    | error u =>
      cases u
      rw [hw] at hW
      exact ⟨_, loop1_step_err _ _ _ _ _ _ _ _ _ _ hW, rfl, rfl, Or.inr ⟨_, rfl⟩⟩
    | ok v =>
      obtain ⟨o, t⟩ := v
      rw [hw] at hW
      cases o with
      | none => exact ⟨_, loop1_step_err _ _ _ _ _ _ _ _ _ _ hW, rfl, rfl, rfl⟩
      | some sl =>
        obtain ⟨ss, l⟩ := sl
        have hi : Int.ofNat (i + 1) = Int.ofNat i + 1 := rfl
        cases lo with
        | none =>
          have i0 : i = 0 := h1.1 rfl
          subst i0
          have ih := encrypt_loop1_eq P E d fk rs 1 t (acc ++ ss) (sortLabels l) (some (sortLabels l))
            (by simp) (by intro l0 h; cases h; rfl)
          rw [List.map_append] at ih
          exact (loop1_step_first _ _ _ _ _ _ _ _ _ hW) ▸ ih
        | some l0 =>
          have hl := h2 l0 rfl
          subst hl
          have i0 : i ≠ 0 := fun h => by simpa using h1.2 h
          have i0' : Int.ofNat i ≠ 0 := by simpa using i0
          by_cases hl : labels = sortLabels l
          · have ih := encrypt_loop1_eq P E d fk rs (i + 1) t (acc ++ ss) labels (some labels)
              (by simp) (by intro l0 h; cases h; rfl)
            rw [List.map_append, hi] at ih
            rw [loop1_step_same _ _ _ _ _ _ _ _ _ _ hW i0' hl]
            simpa only [if_pos hl] using ih
          · rw [loop1_step_diff _ _ _ _ _ _ _ _ _ _ hW i0' hl]
            simp only [if_neg hl]
            exact ⟨_, rfl, rfl, rfl, rfl⟩

theorem encrypt_tie (P : Prims) {S : DstSpec} {ρ δ ω : Type} (E : EncryptEnv P S ρ δ ω)
    (d : δ) (rs : List ρ) (tape : Bytes) :
    ∃ res, age_Encrypt E.nilW (tapeRead E.eRand) E.W E.mac E.marshalF E.write E.newWriter E.key d rs tape = .ok res ∧
      match encryptInit P tape (rs.map E.recOf) E.hdrSegs (E.absD d) with
      | (.ok (w, k, t'), d2) =>
          res.1 = E.mkW k res.2.2.1 ∧ res.2.1 = none ∧ E.absD res.2.2.1 = d2 ∧ res.2.2.2 = t' ∧ w = Stream.Writer.new d2
      | (.error e, d2) => res.1 = E.nilW ∧ encErrRel E.eRand e res.2.1 ∧ E.absD res.2.2.1 = d2 := by
  cases rs with
  | nil => exact ⟨_, rfl, rfl, rfl, rfl⟩
  | cons r rs' =>
    generalize hrs : r :: rs' = rs
    have hne : (Go.len rs == (0:Int)) = false := by subst hrs; simp [Go.len]; omega
    have hemp : (rs.map E.recOf).isEmpty = false := by subst hrs; rfl
    have hmk : Go.makeList (0 : UInt8) 16 = .ok (List.replicate 16 0) := rfl
    have hlen : Go.len (List.replicate 16 (0 : UInt8)) = Int.ofNat 16 := by simp [Go.len]
    have h16 : fileKeySize = 16 := rfl
    have h16' : streamNonceSize = 16 := rfl
    unfold age_Encrypt encryptInit encryptHeader
    simp only [hne, hemp, hmk, hlen, h16, h16', bind, Except.bind, pure, Except.pure]
    cases hd : draw 16 tape with
    | none =>
      simp only [tapeRead_none E.eRand hd]
      exact ⟨_, rfl, rfl, Or.inl rfl, rfl⟩
    | some bt =>
      obtain ⟨fk, t⟩ := bt
      simp only [tapeRead_some E.eRand hd, writeAt16 fk (draw_length hd)]
      obtain ⟨out, hout, hrel⟩ := encrypt_loop1_eq P E d fk rs 0 t [] [] none (by simp) (by intro l0 h; cases h)
      simp only [List.map_nil] at hout
      rw [show (Int.ofNat 0) = (0 : Int) from rfl] at hout
      simp only [hout]
      cases hwa : wrapAll P fk (rs.map E.recOf) 0 t [] none with
      | error e =>
        rw [hwa] at hrel
        cases out with
        | next s => exact hrel.elim
        | ret v =>
          obtain ⟨w, g, d', t2⟩ := v
          obtain ⟨rfl, rfl, hg⟩ := hrel
          exact ⟨_, rfl, rfl, hg, rfl⟩
      | ok st =>
        obtain ⟨stanzas, t'⟩ := st
        rw [hwa] at hrel
        cases out with
        | ret v => exact hrel.elim
        | next s =>
          obtain ⟨t2, hdr, labels'⟩ := s
          obtain ⟨rfl, rfl⟩ := hrel
          simp only [E.hMac]
          obtain ⟨d', hM, hd'⟩ := E.hMarshal ⟨stanzas, headerMAC P fk stanzas⟩ d
          simp only [toGoHeader] at hM
          simp only [hM, Bool.false_eq_true, ↓reduceIte]
          cases hwr : writeAll (E.absD d) (segmentBy E.hdrSegs
              (Format.marshal { stanzas := stanzas, mac := headerMAC P fk stanzas })) with
          | mk d1 b =>
          rw [hwr] at hd'
          simp only at hd'
          cases b with
          | false => exact ⟨_, rfl, rfl, Or.inl rfl, hd'⟩
          | true =>
            cases hn : draw 16 t2 with
            | none =>
              simp only [tapeRead_none E.eRand hn]
              exact ⟨_, rfl, rfl, Or.inl rfl, hd'⟩
            | some nt =>
              obtain ⟨nonce, t3⟩ := nt
              simp only [tapeRead_some E.eRand hn, writeAt16 nonce (draw_length hn), E.hKey, E.hNew]
              obtain ⟨n, d'', hWr, hd''⟩ := E.hWrite d' nonce
              simp only [hWr, hd']
              rw [hd'] at hd''
              cases hw2 : d1.write nonce with
              | mk d2 b2 =>
              rw [hw2] at hd''
              simp only at hd''
              cases b2 with
              | false => exact ⟨_, rfl, rfl, Or.inr rfl, hd''⟩
              | true => exact ⟨_, rfl, rfl, rfl, hd'', rfl, hd'' ▸ rfl⟩

end GoTie
end AgeModel
