/-
  Proofs.ArmorCanon — whatever text the de-armoring reader accepts through to a
  clean end consists, line for line (a line = up to LF, minus one CR), of optional
  whitespace-only lines, then exactly the lines of the canonical armor of the
  decoded bytes, then only whitespace.
-/
import Proofs.ArmorRead
namespace AgeModel
namespace Armor
open Format (nl cr sp takeLine takeLine_len)
open B64

/-- the line view of a text: what successive `getLine` calls return -/
def linesOf : Nat → Bytes → List Bytes
  | 0, _ => []
  | fuel+1, t =>
    match getLine false t with
    | none => []
    | some (l, r) => l :: linesOf fuel r

theorem getLine_len {t l r : Bytes} (h : getLine false t = some (l, r)) : r.length < t.length := by
  unfold getLine at h
  cases t with
  | nil => simp at h
  | cons x xs =>
    simp only at h
    cases htl : takeLine (x :: xs) with
    | some p =>
      obtain ⟨l', r'⟩ := p
      simp only [htl, Option.some.injEq, Prod.mk.injEq] at h
      rw [← h.2]; exact takeLine_len htl
    | none =>
      simp only [htl, Bool.false_eq_true, if_false, Option.some.injEq, Prod.mk.injEq] at h
      rw [← h.2]; simp

theorem linesOf_fuel : ∀ (f : Nat) (t : Bytes) (f' : Nat), t.length < f → t.length < f' → linesOf f t = linesOf f' t := by
  intro f
  induction f with
  | zero => intro t f' h; omega
  | succ f ih =>
    intro t f' h h'
    match f' with
    | 0 => omega
    | f'+1 =>
      unfold linesOf
      cases hg : getLine false t with
      | none => rfl
      | some p =>
        obtain ⟨l, r⟩ := p
        simp only
        have := getLine_len hg
        rw [ih r f' (by omega) (by omega)]

/-- all lines of a text -/
def lines (t : Bytes) : List Bytes := linesOf (t.length + 1) t

theorem lines_cons {t l r : Bytes} (h : getLine false t = some (l, r)) : lines t = l :: lines r := by
  unfold lines
  rw [linesOf, h]
  simp only
  have := getLine_len h
  rw [linesOf_fuel t.length r (r.length + 1) this (by omega)]

/-- the 48-byte pieces of `b` (the last one shorter, none for the empty string) -/
def chunks48 : Nat → Bytes → List Bytes
  | 0, _ => []
  | fuel+1, b => if b = [] then [] else b.take 48 :: chunks48 fuel (b.drop 48)

/-- the body lines of the canonical armor -/
def bodyLines (b : Bytes) : List Bytes := (chunks48 (b.length + 1) b).map encStd

theorem chunks48_fuel : ∀ (f : Nat) (b : Bytes) (f' : Nat), b.length < f → b.length < f' → chunks48 f b = chunks48 f' b := by
  intro f
  induction f with
  | zero => intro b f' h; omega
  | succ f ih =>
    intro b f' h h'
    match f' with
    | 0 => omega
    | f'+1 =>
      unfold chunks48
      split
      · rfl
      · rename_i hne
        have hpos : 0 < b.length := List.length_pos_iff.mpr hne
        rw [ih (b.drop 48) f' (by rw [List.length_drop]; omega) (by rw [List.length_drop]; omega)]

theorem bodyLines_cons (d rest : Bytes) (h48 : d.length = 48) : bodyLines (d ++ rest) = encStd d :: bodyLines rest := by
  unfold bodyLines
  rw [chunks48]
  have hne : d ++ rest ≠ [] := by
    intro e
    have := congrArg List.length e
    rw [List.length_append, h48] at this
    simp at this
  simp only [hne, if_false, List.map_cons]
  have h1 : (d ++ rest).take 48 = d := by
    rw [List.take_append_of_le_length (by omega)]; exact List.take_of_length_le (by omega)
  have h2 : (d ++ rest).drop 48 = rest := by
    rw [List.drop_append_of_le_length (by omega)]
    have : List.drop 48 d = [] := List.drop_of_length_le (by omega)
    simp [this]
  rw [h1, h2, chunks48_fuel _ rest (rest.length + 1) (by rw [List.length_append]; omega) (by omega)]

theorem bodyLines_short (d : Bytes) (h0 : d ≠ []) (h48 : d.length ≤ 48) : bodyLines d = [encStd d] := by
  unfold bodyLines
  rw [chunks48]
  simp only [h0, if_false, List.map_cons]
  rw [List.take_of_length_le h48, List.drop_of_length_le h48]
  cases hd : d.length with
  | zero => simp [chunks48]
  | succ n => simp [chunks48]

theorem bodyLines_nil : bodyLines [] = [] := by simp [bodyLines, chunks48]

theorem classify_data {line b : Bytes} (h : classifyLine line = .data b) : line = encStd b ∧ b ≠ [] ∧ b.length ≤ 48 := by
  unfold classifyLine at h
  split at h
  · simp at h
  · split at h
    · simp at h
    · rename_i hlen
      split at h
      · simp at h
      · rename_i h0
        split at h
        · simp at h
        · split at h
          · rename_i b' hd
            simp only [LineRes.data.injEq] at h
            subst h
            have he := encStd_decStd line b' hd
            refine ⟨he, ?_, ?_⟩
            · intro e; subst e; simp [encStd] at he; exact h0 (by rw [he]; rfl)
            · have := encStd_length b'
              rw [← he] at this
              omega
          · simp at h

theorem classify_footer {line : Bytes} (h : classifyLine line = .footer) : line = footer := by
  unfold classifyLine at h
  split at h
  · assumption
  · split at h
    · simp at h
    · split at h
      · simp at h
      · split at h
        · simp at h
        · split at h <;> simp at h

/-- the part of the text after the END line may hold only white space, fewer than `W` bytes -/
def TrailOK (W : Nat) (rest : Bytes) : Prop := rest.length < W ∧ allSpace rest = true

theorem drainOK_spec {W : Nat} {rest : Bytes} (h : drainOK W false rest = true) : TrailOK W rest := by
  unfold drainOK at h
  simp only [Bool.false_eq_true, false_and, if_false, Bool.and_eq_true, decide_eq_true_eq] at h
  have hlen : rest.length < W := by
    apply Nat.lt_of_not_le
    intro hge
    have : (rest.take W).length = W := by rw [List.length_take]; omega
    exact h.2 this
  exact ⟨hlen, by rw [List.take_of_length_le (by omega)] at h; exact h.1⟩

/-- **Body canonicity.** If the body reader accepts (clean end), the lines from
    here on are exactly the canonical body lines of the decoded bytes, then the END
    line, and what follows it is only white space. -/
theorem readBody_canon (W : Nat) : ∀ (fuel : Nat) (t b : Bytes), readBody W false fuel t = (b, .eof) →
    ∃ rest, lines t = bodyLines b ++ footer :: lines rest ∧ TrailOK W rest := by
  intro fuel
  induction fuel with
  | zero => intro t b h; simp [readBody] at h
  | succ fuel ih =>
    intro t b h
    unfold readBody at h
    cases hg : getLine false t with
    | none => simp [hg] at h
    | some p =>
      obtain ⟨line, rest⟩ := p
      simp only [hg] at h
      cases hc : classifyLine line with
      | bad => simp [hc] at h
      | footer =>
        simp only [hc] at h
        split at h
        · rename_i hd
          simp only [Prod.mk.injEq, and_true] at h
          subst h
          exact ⟨rest, by rw [lines_cons hg, classify_footer hc, bodyLines_nil]; rfl, drainOK_spec hd⟩
        · simp at h
      | data d =>
        simp only [hc] at h
        obtain ⟨hline, hdne, hd48⟩ := classify_data hc
        split at h
        · rename_i hshort
          cases hg2 : getLine false rest with
          | none => simp [hg2] at h
          | some p2 =>
            obtain ⟨l2, rest2⟩ := p2
            simp only [hg2] at h
            split at h
            · rename_i hf
              split at h
              · rename_i hd
                simp only [Prod.mk.injEq, and_true] at h
                subst h
                refine ⟨rest2, ?_, drainOK_spec hd⟩
                rw [lines_cons hg, lines_cons hg2, hline, hf, bodyLines_short d hdne hd48]
                rfl
              · simp at h
            · simp at h
        · rename_i hnshort
          have hd48' : d.length = 48 := by omega
          generalize hr : readBody W false fuel rest = r at h
          obtain ⟨b2, o2⟩ := r
          simp only [Prod.mk.injEq] at h
          obtain ⟨hb, ho⟩ := h
          subst ho
          obtain ⟨rest', hl, htr⟩ := ih rest b2 hr
          refine ⟨rest', ?_, htr⟩
          rw [lines_cons hg, hl, ← hb, bodyLines_cons d b2 hd48', hline]
          rfl

/-- **Leading tolerance.** The lines consumed before the body are whitespace-only
    lines followed by the BEGIN line. -/
theorem readLeading_canon (W : Nat) : ∀ (fuel : Nat) (t : Bytes) (removed : Nat) (rest : Bytes),
    readLeading W false fuel t removed = some rest →
    ∃ pre, (∀ l ∈ pre, allSpace l = true) ∧ lines t = pre ++ header :: lines rest := by
  intro fuel
  induction fuel with
  | zero => intro t removed rest h; simp [readLeading] at h
  | succ fuel ih =>
    intro t removed rest h
    unfold readLeading at h
    cases hg : getLine false t with
    | none => simp [hg] at h
    | some p =>
      obtain ⟨line, r⟩ := p
      simp only [hg] at h
      split at h
      · rename_i hsp
        split at h
        · simp at h
        · obtain ⟨pre, hpre, hl⟩ := ih r _ rest h
          refine ⟨line :: pre, ?_, by rw [lines_cons hg, hl]; rfl⟩
          intro l hl'
          simp only [List.mem_cons] at hl'
          rcases hl' with rfl | hl'
          · exact hsp
          · exact hpre l hl'
      · split at h
        · rename_i hh
          simp only [Option.some.injEq] at h
          subst h
          exact ⟨[], by simp, by rw [lines_cons hg, hh]; rfl⟩
        · simp at h

/-- **Armor canonicity.** -/
theorem read_canon (W : Nat) (t b : Bytes) (h : read W false t = (b, .eof)) :
    ∃ pre rest, (∀ l ∈ pre, allSpace l = true) ∧ TrailOK W rest ∧
      lines t = pre ++ header :: (bodyLines b ++ footer :: lines rest) := by
  unfold read at h
  cases hl : readLeading W false (t.length + 1) t 0 with
  | none => simp [hl] at h
  | some r =>
    simp only [hl] at h
    obtain ⟨pre, hpre, hlines⟩ := readLeading_canon W _ t 0 r hl
    obtain ⟨rest, hb, htr⟩ := readBody_canon W _ r b h
    exact ⟨pre, rest, hpre, htr, by rw [hlines, hb]⟩

end Armor
end AgeModel
