/-
  Proofs.GoTieCliDecrypt — the order of effects of `age -d`, as it stands in the source.

  `decrypt` of cmd/age/age.go is TRANSLATED on every run; `armor.NewReader`, `age.Decrypt`,
  `out.Write` and `io.Copy` are parameters, and `errorf` / `errorWithHint` — which end the process
  with status 1 — are exit sites (faults 1000 … 1003 of the translation). `cli_decrypt_tie` gives the
  whole function as a chain: PowerShell-mangled intro → exit; armor detected by the exact BEGIN
  line → the de-armoring reader; `age.Decrypt`; ONLY IF it returned no error: the empty write that
  makes the lazy opener create the file, then the copy. `cli_decrypt_refused`: when `age.Decrypt`
  refuses (no matching identity, wrong passphrase, malformed or altered header), the process exits
  with status 1 WITHOUT ANY WRITE to the output — `out.Write` and `io.Copy` may fault when called,
  they are not reached — which, with `Tie.C15.lazy_*` (the file is created by the first `Write`
  only), is "the -o file is neither created nor modified" on the source text.
-/
import AgeModel.GoSem
import AgeModel.Extracted.Funcs
namespace AgeModel
namespace GoTie
open Extracted

def crlfIntro : Bytes := [97, 103, 101, 45, 101, 110, 99, 114, 121, 112, 116, 105, 111, 110, 46, 111, 114, 103, 47, 118, 49, 13]
def utf16Intro : Bytes := [255, 254, 97, 0, 103, 0, 101, 0, 45, 0, 101, 0, 110, 0, 99, 0, 114, 0, 121, 0, 112, 0]
def armorBegin : Bytes := [45, 45, 45, 45, 45, 66, 69, 71, 73, 78, 32, 65, 71, 69, 32, 69, 78, 67, 82, 89, 80, 84, 69, 68, 32, 70, 73, 76, 69, 45, 45, 45, 45, 45]

/-- the input starts with an intro line mangled by PowerShell redirection -/
def mangled (inp : Bytes) : Bool := (Go.bufio_Peek inp 22).1 == crlfIntro || (Go.bufio_Peek inp 22).1 == utf16Intro
/-- the input starts with the exact armor BEGIN line -/
def armored (inp : Bytes) : Bool := (Go.bufio_Peek inp 34).1 == armorBegin

theorem cli_decrypt_tie {δ ι : Type} (NR : Bytes → Go.M Bytes) (D : Bytes → List ι → Go.M (Bytes × Option Go.Err))
    (W : δ → Bytes → Go.M (Int × Option Go.Err × δ)) (Cp : δ → Bytes → Go.M (Int × Option Go.Err × δ))
    (ids : List ι) (inp : Bytes) (out : δ) :
    main_decrypt NR D W Cp ids inp out =
      if mangled inp = true then .error (.panic 1000)
      else (do
        let in' ← (if armored inp = true then NR inp else pure inp)
        let t ← D in' ids
        if (t.2 != none) = true then .error (.panic 1001)
        else do
          let w ← W out []
          if (w.2.1 != none) = true then .error (.panic 1002)
          else do
            let c ← Cp w.2.2 t.1
            if (c.2.1 != none) = true then .error (.panic 1003) else pure c.2.2) := by
  unfold main_decrypt mangled armored crlfIntro utf16Intro armorBegin
  simp only [bind, Except.bind, pure, Except.pure, throw, throwThe, MonadExceptOf.throw]
  generalize ((Go.bufio_Peek inp 22).1 == ([97, 103, 101, 45, 101, 110, 99, 114, 121, 112, 116, 105, 111, 110, 46, 111, 114, 103, 47, 118, 49, 13] : Bytes) ||
    (Go.bufio_Peek inp 22).1 == ([255, 254, 97, 0, 103, 0, 101, 0, 45, 0, 101, 0, 110, 0, 99, 0, 114, 0, 121, 0, 112, 0] : Bytes)) = m
  generalize ((Go.bufio_Peek inp 34).1 == ([45, 45, 45, 45, 45, 66, 69, 71, 73, 78, 32, 65, 71, 69, 32, 69, 78, 67, 82, 89, 80, 84, 69, 68, 32, 70, 73, 76, 69, 45, 45, 45, 45, 45] : Bytes)) = a
  cases m <;> cases a <;> first | rfl | simp only [Bool.false_eq_true, if_false, if_true]

/-- a refused decryption writes nothing: the process exits with status 1 before the output is touched -/
theorem cli_decrypt_refused {δ ι : Type} (NR : Bytes → Go.M Bytes) (D : Bytes → List ι → Go.M (Bytes × Option Go.Err))
    (ids : List ι) (inp : Bytes) (out : δ) (in' : Bytes)
    (hin : (if armored inp = true then NR inp else pure inp) = .ok in')
    (r : Bytes) (e : Go.Err) (hD : D in' ids = .ok (r, some e)) :
    main_decrypt NR D (fun _ _ => .error (.panic 77)) (fun _ _ => .error (.panic 78)) ids inp out =
      .error (.panic (if mangled inp = true then 1000 else 1001)) := by
  rw [cli_decrypt_tie]
  split
  · rfl
  · simp only [hin, hD, bind, Except.bind]
    rfl

end GoTie
end AgeModel
