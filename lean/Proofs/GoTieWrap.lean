/-
  Proofs.GoTieWrap — the 64-column line wrapper, as it stands in the source.

  `(*WrappedBase64Encoder).writeWrapped` and `.LastLineIsEmpty` (internal/format/format.go) are
  TRANSLATED on every run; the `bytes.Buffer` is its unread bytes, `Buffer.WriteTo` is
  `Go.buffer_WriteTo` (one `Write` of everything, none when empty), the destination is abstract
  state with an abstract `Write`. `writeWrapped_tie`: on an encoder whose buffer is empty (the
  invariant its own panic guards) the characters `p` reach the destination, in ONE write, as
  `wrapCols written p` — a newline after every character that completes a 64-column line, counted
  from `written` — and `written` advances by `len(p)`; the function's own count is 0 and its error
  is the destination's. `wrapCols` is what the armor writer model (`Armor.AWriter.emit`) uses;
  started at a multiple of 64 it is `Format.wrap`, the body layout of header stanzas and of armor.
-/
import AgeModel.GoSem
import AgeModel.Armor
import AgeModel.Extracted.Funcs
import Proofs.ArmorWrite
namespace AgeModel
namespace GoTie
open Extracted

theorem wrap_slice_take (p : Bytes) (k : Nat) (h : k ≤ p.length) :
    Go.slice p 0 (k : Int) = .ok (p.take k) := by
  unfold Go.slice
  rw [if_pos ⟨Int.le_refl 0, by omega, by simp only [Int.ofNat_eq_natCast]; omega⟩]
  rfl

theorem wrap_slice_drop (p : Bytes) (k : Nat) (h : k ≤ p.length) :
    Go.slice p (k : Int) (Go.len p) = .ok (p.drop k) := by
  unfold Go.slice Go.len
  rw [if_pos ⟨by omega, by simp only [Int.ofNat_eq_natCast]; omega, Int.le_refl _⟩]
  simp

theorem wrap_tmod (n : Nat) : Int.tmod (n : Int) 64 = ((n % 64 : Nat) : Int) := rfl

theorem wrap_beq0 : ∀ (m : Nat), ((m : Int) == 0) = decide (m = 0)
  | 0 => rfl
  | m + 1 => by
    have h : ¬ (m + 1 = 0) := by omega
    simp only [h, decide_false]
    apply Bool.eq_false_iff.mpr
    intro hh; exact h (by have := eq_of_beq hh; omega)

theorem wrap_step {δ ω : Type} (fuel : Nat) (enc : ω) (dst : δ) (n : Nat) (buf p : Bytes) (hp : p ≠ []) :
    format_WrappedBase64Encoder_writeWrapped_loop1 (fuel + 1) ⟨enc, dst, (n : Int), buf⟩ p =
    format_WrappedBase64Encoder_writeWrapped_loop1 fuel
      ⟨enc, dst, ((n + min (64 - n % 64) p.length : Nat) : Int),
        buf ++ p.take (min (64 - n % 64) p.length) ++ (if (n + min (64 - n % 64) p.length) % 64 = 0 then [10] else [])⟩
      (p.drop (min (64 - n % 64) p.length)) := by
  have hlen : 0 < p.length := List.length_pos_iff.mpr hp
  have hgt : decide (Go.len p > 0) = true := by
    apply decide_eq_true; simp only [Go.len, Int.ofNat_eq_natCast]; omega
  rw [format_WrappedBase64Encoder_writeWrapped_loop1]
  simp only [hgt, wrap_tmod]
  generalize hk : min (64 - n % 64) p.length = k
  have hkle : k ≤ p.length := by omega
  have e3 : Go.len (p.take k) = (k : Int) := by
    simp only [Go.len, List.length_take, Int.ofNat_eq_natCast]; congr 1; omega
  have e4 : ((n : Int) + (k : Int)).tmod 64 = (((n + k) % 64 : Nat) : Int) := rfl
  have e5 : (n : Int) + (k : Int) = ((n + k : Nat) : Int) := rfl
  have e6 : ((((n : Int) + (k : Int)).tmod 64) == 0) = decide ((n + k) % 64 = 0) := by
    rw [e4]; exact wrap_beq0 _
  by_cases hc : (64 : Int) - ((n % 64 : Nat) : Int) > Go.len p
  · have e1 : Go.slice p 0 (Go.len p) = .ok (p.take k) := by
      have : Go.len p = (k : Int) := by
        simp only [Go.len, Int.ofNat_eq_natCast] at hc ⊢; congr 1; omega
      rw [this]; exact wrap_slice_take p k hkle
    simp only [hc, decide_true, e1, bind, Except.bind, e3, wrap_slice_drop p k hkle, e6]
    by_cases h : (n + k) % 64 = 0 <;> simp only [h, decide_true, decide_false, if_true, if_false, Bool.false_eq_true, List.append_nil] <;> rfl
  · have e1 : Go.slice p 0 ((64 : Int) - ((n % 64 : Nat) : Int)) = .ok (p.take k) := by
      have : (64 : Int) - ((n % 64 : Nat) : Int) = (k : Int) := by
        simp only [Go.len, Int.ofNat_eq_natCast] at hc; omega
      rw [this]; exact wrap_slice_take p k hkle
    simp only [hc, decide_false, e1, bind, Except.bind, e3, wrap_slice_drop p k hkle, e6]
    by_cases h : (n + k) % 64 = 0 <;> simp only [h, decide_true, decide_false, if_true, if_false, Bool.false_eq_true, List.append_nil] <;> rfl
theorem wrap_chunk (n : Nat) (p : Bytes) (hp : p ≠ []) :
    (Armor.wrapCols n (p.take (min (64 - n % 64) p.length))).1 =
      p.take (min (64 - n % 64) p.length) ++ (if (n + min (64 - n % 64) p.length) % 64 = 0 then [10] else []) := by
  have hlen : 0 < p.length := List.length_pos_iff.mpr hp
  generalize hk : min (64 - n % 64) p.length = k
  have hkl : (p.take k).length = k := by rw [List.length_take]; omega
  by_cases hc : 64 - n % 64 ≤ p.length
  · have h0 : (n + k) % 64 = 0 := by omega
    rw [if_pos h0]
    exact Armor.wrapCols_fill _ _ (by intro e; rw [e] at hkl; simp at hkl; omega) (by omega)
  · have h0 : ¬ (n + k) % 64 = 0 := by omega
    rw [if_neg h0, List.append_nil]
    exact Armor.wrapCols_short _ _ (by omega)

theorem wrap_loop {δ ω : Type} (enc : ω) (dst : δ) : ∀ (fuel : Nat) (p : Bytes) (n : Nat) (buf : Bytes),
    p.length < fuel →
    format_WrappedBase64Encoder_writeWrapped_loop1 fuel ⟨enc, dst, (n : Int), buf⟩ p =
      .ok (.next (⟨enc, dst, ((n + p.length : Nat) : Int), buf ++ (Armor.wrapCols n p).1⟩, []))
  | 0, _, _, _, h => absurd h (Nat.not_lt_zero _)
  | fuel + 1, p, n, buf, h => by
    by_cases hp : p = []
    · subst hp
      rw [format_WrappedBase64Encoder_writeWrapped_loop1]
      simp [Go.len, Armor.wrapCols]
      rfl
    · have hlen : 0 < p.length := List.length_pos_iff.mpr hp
      rw [wrap_step fuel enc dst n buf p hp,
        wrap_loop enc dst fuel _ _ _ (by rw [List.length_drop]; omega)]
      have hsplit : (Armor.wrapCols n p).1 = (Armor.wrapCols n (p.take (min (64 - n % 64) p.length) ++ p.drop (min (64 - n % 64) p.length))).1 := by
        rw [List.take_append_drop]
      rw [hsplit, Armor.wrapCols_append, wrap_chunk n p hp]
      generalize hk : min (64 - n % 64) p.length = k
      have hkl : (p.take k).length = k := by rw [List.length_take]; omega
      have e : n + k + (p.drop k).length = n + p.length := by rw [List.length_drop]; omega
      rw [hkl, e]
      simp only [List.append_assoc]

theorem writeWrapped_tie {δ ω : Type} (write : δ → Bytes → Go.M (Int × Option Go.Err × δ))
    (w : format_WrappedBase64Encoder ω δ) (p : Bytes) (hbuf : w.buf = []) (hw : 0 ≤ w.written) :
    format_WrappedBase64Encoder_writeWrapped write w p = (do
      let t ← Go.buffer_WriteTo write (Armor.wrapCols w.written.toNat p).1 w.dst
      pure (0, t.2.1, { w with written := w.written + Int.ofNat p.length, buf := t.2.2.1, dst := t.2.2.2 })) := by
  obtain ⟨enc, dst, written, buf⟩ := w
  simp only at hbuf hw
  subst hbuf
  obtain ⟨n, rfl⟩ := Int.eq_ofNat_of_zero_le hw
  unfold format_WrappedBase64Encoder_writeWrapped
  have hl : (((([] : Bytes).length : Nat) : Int) != 0) = false := rfl
  simp only [Go.len, hl, List.nil_append, Bool.false_eq_true, if_false, Int.toNat_natCast, Int.ofNat_eq_natCast, wrap_loop enc dst _ p n [] (Nat.lt_succ_self _), bind, Except.bind, pure, Except.pure]
  cases Go.buffer_WriteTo write (Armor.wrapCols n p).fst dst with
  | error e => rfl
  | ok v =>
    obtain ⟨a, e, b, d⟩ := v
    cases e with
    | none => rfl
    | some e => rfl

/-- the explicit panic of `writeWrapped` is reached exactly when the buffer invariant is broken -/
theorem writeWrapped_panic {δ ω : Type} (write : δ → Bytes → Go.M (Int × Option Go.Err × δ))
    (w : format_WrappedBase64Encoder ω δ) (p : Bytes) (hbuf : w.buf ≠ []) :
    format_WrappedBase64Encoder_writeWrapped write w p = .error (.panic 0) := by
  unfold format_WrappedBase64Encoder_writeWrapped
  have hl : (Go.len w.buf != 0) = true := by
    cases h : w.buf with
    | nil => exact absurd h hbuf
    | cons x xs => rfl
  simp only [hl, if_true, bind, Except.bind]
  rfl

/-- on a fresh line the characters come out as `Format.wrap` lays them out -/
theorem writeWrapped_fresh {δ ω : Type} (write : δ → Bytes → Go.M (Int × Option Go.Err × δ))
    (w : format_WrappedBase64Encoder ω δ) (p : Bytes) (hbuf : w.buf = []) (hw : 0 ≤ w.written)
    (h64 : w.written.toNat % 64 = 0) :
    format_WrappedBase64Encoder_writeWrapped write w p = (do
      let t ← Go.buffer_WriteTo write (Format.wrap p) w.dst
      pure (0, t.2.1, { w with written := w.written + Int.ofNat p.length, buf := t.2.2.1, dst := t.2.2.2 })) := by
  rw [writeWrapped_tie write w p hbuf hw, Armor.wrapCols_wrap p _ h64]

theorem lastLineIsEmpty_tie {δ ω : Type} (w : format_WrappedBase64Encoder ω δ) (hw : 0 ≤ w.written) :
    format_WrappedBase64Encoder_LastLineIsEmpty w = .ok (decide (w.written.toNat % 64 = 0)) := by
  obtain ⟨n, hn⟩ := Int.eq_ofNat_of_zero_le hw
  unfold format_WrappedBase64Encoder_LastLineIsEmpty
  rw [hn]
  show Except.ok _ = _
  congr 1
  simp only [Int.toNat_natCast, wrap_tmod]
  exact wrap_beq0 _

end GoTie
end AgeModel
