/-
  Proofs.StreamWriterTop — per-call and whole-run statements about the Writer.
-/
import Proofs.StreamWriter
namespace AgeModel
namespace Stream

variable {S : DstSpec}

/-- invariant between calls of a writer that has reported no error:
    `pt` is everything successfully written so far -/
def WInv (A : AEAD) (C : Nat) (k : Bytes) (acc0 : Bytes) (w : Writer S) (pt : Bytes) : Prop :=
  w.err = none ∧ w.buf.length ≤ C ∧ w.ctr * C + w.buf.length = pt.length ∧
  ∀ q, w.dst.acc ++ enc A C k w.ctr (w.buf ++ q) = acc0 ++ enc A C k 0 (pt ++ q)

theorem WInv_new (A : AEAD) (C : Nat) (k : Bytes) (d : Dst S) :
    WInv A C k d.acc (Writer.new d) [] := by
  refine ⟨rfl, by simp [Writer.new], by simp [Writer.new], ?_⟩
  intro q; simp [Writer.new]

theorem write_ok (A : AEAD) (C L : Nat) (hC : 0 < C) (k acc0 : Bytes) (w w' : Writer S) (pt p : Bytes) (n : Nat)
    (hinv : WInv A C k acc0 w pt) (h : w.write A C L k p = (w', n, none)) :
    WInv A C k acc0 w' (pt ++ p) ∧ n = p.length := by
  obtain ⟨he, hb, hn, hq⟩ := hinv
  unfold Writer.write at h
  rw [he] at h
  simp only at h
  split at h
  · rename_i hp0
    have : p = [] := List.eq_nil_of_length_eq_zero hp0
    subst this
    simp only [Prod.mk.injEq, and_true] at h
    obtain ⟨h1, h2⟩ := h
    subst h1
    exact ⟨⟨he, hb, by simpa using hn, by simpa using hq⟩, by simp [← h2]⟩
  · split at h
    · simp at h
    · rename_i w1 hfill
      simp only [Prod.mk.injEq, and_true] at h
      obtain ⟨h1, h2⟩ := h
      subst h1
      have hfi : FillInv A C k w p (pt.length + p.length) (fun q => acc0 ++ enc A C k 0 ((pt ++ p) ++ q)) := by
        refine ⟨hb, by omega, ?_⟩
        intro q
        show _ = acc0 ++ enc A C k 0 (pt ++ p ++ q)
        rw [hq (p ++ q), List.append_assoc]
      obtain ⟨⟨g1, g2, g3⟩, g4⟩ := fill_ok A C L hC k _ _ _ w p w1 hfi hfill
      refine ⟨⟨g4.trans he, g1, by simp only [List.length_nil, Nat.add_zero] at g2; rw [List.length_append]; exact g2, ?_⟩, h2.symm⟩
      intro q
      have := g3 q
      simpa using this

theorem write_err (A : AEAD) (C L : Nat) (hC : 0 < C) (k acc0 : Bytes) (w w' : Writer S) (pt p : Bytes) (n : Nat) (e : Outcome)
    (hinv : WInv A C k acc0 w pt) (h : w.write A C L k p = (w', n, some e)) :
    w'.err = some e ∧ n = 0 ∧ (e = .dstErr ∨ (e = .panic 3 ∧ (L - 1) * C ≤ pt.length + p.length)) := by
  obtain ⟨he, hb, hn, hq⟩ := hinv
  unfold Writer.write at h
  rw [he] at h
  simp only at h
  split at h
  · simp at h
  · split at h
    · rename_i w1 e1 hfill
      simp only [Prod.mk.injEq, Option.some.injEq] at h
      obtain ⟨h1, h2, h3⟩ := h
      subst h1 h3
      refine ⟨rfl, h2.symm, ?_⟩
      have hm : fillMeasure C w p ≤ p.length + 2 := by
        unfold fillMeasure; split <;> omega
      cases fill_err A C L hC k _ w p w1 e1 hb hm hfill with
      | inl h => exact Or.inl h
      | inr h =>
        obtain ⟨h1, c, hc1, hc2, hc3⟩ := h
        refine Or.inr ⟨h1, ?_⟩
        have : (L - 1) * C ≤ c * C := Nat.mul_le_mul_right C (by omega)
        omega
    · simp at h

theorem close_ok (A : AEAD) (C L : Nat) (k acc0 : Bytes) (w w' : Writer S) (pt : Bytes)
    (hinv : WInv A C k acc0 w pt) (h : w.close A C L k = (w', none)) :
    w'.dst.acc = acc0 ++ encrypt A C k pt ∧ w'.err = some .closed := by
  obtain ⟨he, hb, hn, hq⟩ := hinv
  unfold Writer.close at h
  rw [he] at h
  simp only at h
  split at h
  · simp at h
  · rename_i w1 hfl
    simp only [Prod.mk.injEq, and_true] at h
    subst h
    obtain ⟨f1, f2, f3, f4, f5⟩ := flush_ok A C L k w w1 true hfl
    refine ⟨?_, rfl⟩
    show w1.dst.acc = _
    rw [f5, ← enc_short A C k w.ctr w.buf hb]
    have := hq []
    simpa [encrypt_eq_enc] using this

theorem close_err (A : AEAD) (C L : Nat) (k acc0 : Bytes) (w w' : Writer S) (pt : Bytes) (e : Outcome)
    (hinv : WInv A C k acc0 w pt) (h : w.close A C L k = (w', some e)) :
    w'.err = some e ∧ (e = .dstErr ∨ (e = .panic 3 ∧ (L - 1) * C ≤ pt.length)) := by
  obtain ⟨he, hb, hn, hq⟩ := hinv
  unfold Writer.close at h
  rw [he] at h
  simp only at h
  split at h
  · rename_i w1 e1 hfl
    simp only [Prod.mk.injEq, Option.some.injEq] at h
    obtain ⟨h1, h2⟩ := h
    subst h1 h2
    refine ⟨rfl, ?_⟩
    cases flush_err A C L k w w1 true e1 (Or.inl rfl) hfl with
    | inl h => exact Or.inl h
    | inr h =>
      refine Or.inr ⟨h.1, ?_⟩
      have : (L - 1) * C ≤ w.ctr * C := Nat.mul_le_mul_right C (by omega)
      omega
  · simp at h

/-- a writer whose sticky error is set fails every call and changes nothing -/
theorem step_sticky (A : AEAD) (C L : Nat) (k : Bytes) (w : Writer S) (e : Outcome) (he : w.err = some e)
    (op : WOp) : w.step A C L k op = (w, (0, some e)) := by
  cases op with
  | write p => simp [Writer.step, Writer.write, he]
  | close => simp [Writer.step, Writer.close, he]

theorem run_sticky (A : AEAD) (C L : Nat) (k : Bytes) (w : Writer S) (e : Outcome) (he : w.err = some e) :
    ∀ ops : List WOp, w.run A C L k ops = (w, ops.map fun _ => (0, some e)) := by
  intro ops
  induction ops with
  | nil => rfl
  | cons op ops ih =>
    unfold Writer.run
    rw [step_sticky A C L k w e he op]
    simp only [ih, List.map_cons]

end Stream
end AgeModel
