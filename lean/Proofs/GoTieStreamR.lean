/-
  Proofs.GoTieStreamR — stream.Reader as it stands in the source.

  `(*Reader).Read` and `(*Reader).readChunk` (internal/stream/stream.go) are TRANSLATED on
  every run (AgeModel/Extracted/Funcs.lean). The struct's `unread` is a VIEW into its own
  `buf` (two indices; extract/funcs_views.go), `in` is a local view, `io.ReadFull` and `copy`
  write through to `buf`; the source is a `Go.Src` (bytes, then a clean end or an error); the
  AEAD is abstract (`aead_Open`, `aead_Overhead` are parameters). The theorem is a SIMULATION:
  whenever the Go state and the state of the model's Reader machine (AgeModel/Stream.lean)
  are related by `RRel`, one `Read(p)` of the translated code and one `Reader.read` of the
  model return the same count, the same bytes (in the caller's buffer), corresponding errors,
  and related states again. By induction over calls, every theorem of Props/C02, C12, C13, C14
  about `Reader.read` / `Reader.trace` is a theorem about the source text (for a source that
  ends cleanly or with an error after its bytes; C = 65536, tag 16, fewer than 2^88 chunks).
-/
import AgeModel.GoSem
import AgeModel.Stream
import AgeModel.Extracted.Funcs
import Proofs.GoTieNonce
namespace AgeModel
namespace GoTie
open Extracted Stream

/-- the Go error value the translated Reader reports for each outcome class of the model -/
def rdErr : Outcome → Option Go.Err
  | .eof => Go.io_EOF
  | .truncated => Go.io_ErrUnexpectedEOF
  | .emptyLast => some ⟨"stream.(*Reader).readChunk", 0, []⟩
  | .authFail => some ⟨"stream.(*Reader).readChunk", 1, []⟩
  | .trailing => some ⟨"stream.(*Reader).Read", 0, []⟩
  | .srcErr => Go.io_srcErr
  | _ => some ⟨"unreachable", 0, []⟩

/-- the two ways a source error reaches the caller: as it is (from readChunk) or wrapped (the probe after the end) -/
def rdErrRel (g : Option Go.Err) : Option Outcome → Prop
  | none => g = none
  | some .srcErr => g = Go.io_srcErr ∨ g = some ⟨"stream.(*Reader).Read", 1, []⟩
  | some o => g = rdErr o

/-- what is assumed of the abstract AEAD: it is the model's `A` under key `k`, with a 16-byte tag -/
structure AeadEnv (α : Type) (A : AEAD) (k : Bytes) where
  over : α → Go.M Int
  open_ : α → Bytes → Bytes → Bytes → Go.M (Bytes × Option Go.Err)
  seal_ : α → Bytes → Bytes → Bytes → Go.M Bytes
  eAuth : Go.Err
  hT : A.T = 16
  hOver : ∀ a, over a = .ok 16
  hOpen : ∀ a n c, open_ a n c [] = .ok (match A.openF k n c with
                                          | some p => (p, none)
                                          | none => ([], some eAuth))
  hSeal : ∀ a n p, seal_ a n p [] = .ok (A.sealF k n p)
  /-- length law of the AEAD (a consequence of `AEAD.Correct`) -/
  hOpenLen : ∀ n c p, A.openF k n c = some p → p.length + 16 = c.length
  hSealLen : ∀ n p, (A.sealF k n p).length = p.length + 16

/-- Go state ↔ model state -/
structure RRel {α : Type} (r : stream_Reader α) (m : Reader) : Prop where
  buflen : r.buf.length = 65552
  bounds : 0 ≤ r.unread_lo ∧ r.unread_lo ≤ r.unread_hi ∧ r.unread_hi ≤ 65552
  unread : m.unread = (r.buf.take r.unread_hi.toNat).drop r.unread_lo.toNat
  srcData : r.src.data = m.src.data
  srcFail : r.src.fail = m.src.fail
  err : rdErrRel r.err m.err
  /-- while no error has been recorded the nonce is that of the next chunk, flag clear -/
  nonce : m.err = none → r.nonce = Stream.nonce m.ctr false

set_option linter.ambiguousOpen false
set_option linter.unusedSimpArgs false
set_option linter.unusedVariables false

/-! ## views, copies, `io.ReadFull` -/

theorem reslice_zero (c n : Int) (h0 : 0 ≤ n) (hc : n ≤ c) : Go.reslice 0 c 0 n = .ok (0, n) := by
  have : (0:Int) ≤ 0 ∧ 0 ≤ n ∧ 0 + n ≤ c := by omega
  unfold Go.reslice
  rw [if_pos this, Int.zero_add, Int.zero_add]

theorem writeAt_zero (b d : Bytes) : Go.writeAt b 0 d = d ++ b.drop d.length := by
  simp [Go.writeAt]

theorem wz_length (b d : Bytes) (h : d.length ≤ b.length) : (d ++ b.drop d.length).length = b.length := by
  rw [List.length_append, List.length_drop]; omega

theorem wz_take (b d : Bytes) : (d ++ b.drop d.length).take d.length = d := by
  simp

theorem readFull_full (data : Bytes) (fail : Bool) (h : (data.take 65552).length = 65552) :
    Go.io_ReadFull ⟨data, fail⟩ 65552 = (data.take 65552, none, ⟨data.drop 65552, fail⟩) := by
  simp only [Go.io_ReadFull, Int.reduceToNat, h, if_true]

theorem readFull_fail (data : Bytes) (h : (data.take 65552).length < 65552) :
    Go.io_ReadFull ⟨data, true⟩ 65552 = (data.take 65552, Go.io_srcErr, ⟨data.drop 65552, true⟩) := by
  have : (data.take 65552).length ≠ 65552 := by omega
  simp only [Go.io_ReadFull, Int.reduceToNat, this, if_false, if_true]

theorem readFull_eof (data : Bytes) (h : (data.take 65552).length = 0) :
    Go.io_ReadFull ⟨data, false⟩ 65552 = (data.take 65552, Go.io_EOF, ⟨data.drop 65552, false⟩) := by
  have : (data.take 65552).length ≠ 65552 := by omega
  simp [Go.io_ReadFull, h]

theorem readFull_short (data : Bytes) (h : (data.take 65552).length < 65552) (h0 : (data.take 65552).length ≠ 0) :
    Go.io_ReadFull ⟨data, false⟩ 65552 = (data.take 65552, Go.io_ErrUnexpectedEOF, ⟨data.drop 65552, false⟩) := by
  have : (data.take 65552).length ≠ 65552 := by omega
  simp only [Go.io_ReadFull, Int.reduceToNat, this, h0, if_false, Bool.false_eq_true]


theorem len_wz (b d : Bytes) (h : d.length ≤ b.length) : Go.len (d ++ b.drop d.length) = Go.len b := by
  unfold Go.len; rw [wz_length b d h]

theorem slice_wz (b d : Bytes) (n : Int) (hn : n = Int.ofNat d.length) (h : d.length ≤ b.length) :
    Go.slice (d ++ b.drop d.length) 0 n = .ok d := by
  subst hn
  have : (0:Int) ≤ 0 ∧ 0 ≤ Int.ofNat d.length ∧ Int.ofNat d.length ≤ Int.ofNat (d ++ b.drop d.length).length := by
    rw [wz_length b d h]; simp only [Int.ofNat_eq_natCast]; omega
  unfold Go.slice
  rw [if_pos this]
  simp

theorem min_len (out : Bytes) (h : out.length ≤ 65552) : min (65552 : Int) (Go.len out) = Int.ofNat out.length := by
  simp only [Go.len, Int.ofNat_eq_natCast]; omega

theorem take_ofNat (out : Bytes) : out.take (Int.ofNat out.length).toNat = out := by
  simp

theorem nonceIsZero' (ctr : Nat) (h : ctr + 1 < 2 ^ 88) :
    stream_nonceIsZero (nonce ctr false) = .ok (decide (ctr = 0)) := by
  rw [nonceIsZero_tie ctr false (by omega)]; simp

variable {α : Type} {A : AEAD} {k : Bytes}

local macro "rc_simp" "[" ts:Lean.Parser.Tactic.simpLemma,* "]" : tactic =>
  `(tactic| simp only [stream_Reader_readChunk, Int.sub_self, bne_self_eq_false, Bool.false_eq_true, if_false,
    bind, Except.bind, Int.sub_zero, writeAt_zero, Bool.false_and, List.nil_append, beq_self_eq_true, if_true,
    take_ofNat, pure, Except.pure, $ts,*])

/-- the facts every case starts from -/
theorem rc_pre (data buf : Bytes) (hbuf : buf.length = 65552) :
    Go.len buf = 65552 ∧ Go.reslice 0 65552 0 65552 = .ok (0, 65552) ∧
      (data.take 65552).length ≤ buf.length ∧ Go.makeList (0 : UInt8) 0 = .ok [] := by
  refine ⟨by simp only [Go.len, hbuf]; rfl, reslice_zero _ _ (by omega) (by omega), ?_, rfl⟩
  rw [List.length_take]; omega

/-- the facts of the tail of a successful chunk -/
theorem rc_post (X p : Bytes) (hX : X.length = 65552) (hp : p.length + 16 ≤ 65552) :
    Go.len X = 65552 ∧ min (65552 : Int) (Go.len p) = Int.ofNat p.length ∧
      Go.len (p ++ X.drop p.length) = 65552 ∧
      Go.reslice 0 65552 0 (Int.ofNat p.length) = .ok (0, Int.ofNat p.length) := by
  have hl : Go.len X = 65552 := by simp only [Go.len, hX]; rfl
  refine ⟨hl, min_len p (by omega), by rw [len_wz X p (by omega), hl], ?_⟩
  exact reslice_zero _ _ (by simp only [Int.ofNat_eq_natCast]; omega) (by simp only [Int.ofNat_eq_natCast]; omega)

theorem rc_A1 (E : AeadEnv α A k) (a : α) (data : Bytes) (fail : Bool) (lo : Int) (buf : Bytes)
    (err : Option Go.Err) (ctr : Nat) (p : Bytes) (hbuf : buf.length = 65552)
    (hn : (data.take 65552).length = 65552) (hctr : ctr + 1 < 2 ^ 88)
    (ho : A.openF k (nonce ctr false) (data.take 65552) = some p) :
    stream_Reader_readChunk E.over E.open_ ⟨a, ⟨data, fail⟩, lo, lo, buf, err, nonce ctr false⟩ =
      .ok (false, none, ⟨a, ⟨data.drop 65552, fail⟩, 0, Int.ofNat p.length,
        p ++ (data.take 65552 ++ buf.drop (data.take 65552).length).drop p.length, err, nonce (ctr + 1) false⟩) := by
  obtain ⟨hlen, h1, hgb, e3⟩ := rc_pre data buf hbuf
  have hpl := E.hOpenLen _ _ _ ho
  obtain ⟨q1, q2, q3, q4⟩ := rc_post (data.take 65552 ++ buf.drop (data.take 65552).length) p
    (by rw [wz_length _ _ hgb]; exact hbuf) (by omega)
  have e1 : (none == Go.io_EOF) = false := rfl
  have e2 : (none == Go.io_ErrUnexpectedEOF) = false := rfl
  rc_simp [hlen, h1, readFull_full data fail hn, e1, e2, e3,
    slice_wz buf _ 65552 (by rw [hn]; rfl) hgb, E.hOpen, ho, incNonce_tie ctr false hctr, q1, q2, q3, q4]

theorem rc_A2 (E : AeadEnv α A k) (a : α) (data : Bytes) (fail : Bool) (lo : Int) (buf : Bytes)
    (err : Option Go.Err) (ctr : Nat) (p : Bytes) (hbuf : buf.length = 65552)
    (hn : (data.take 65552).length = 65552) (hctr : ctr + 1 < 2 ^ 88)
    (ho : A.openF k (nonce ctr false) (data.take 65552) = none)
    (ho2 : A.openF k (nonce ctr true) (data.take 65552) = some p) :
    stream_Reader_readChunk E.over E.open_ ⟨a, ⟨data, fail⟩, lo, lo, buf, err, nonce ctr false⟩ =
      .ok (true, none, ⟨a, ⟨data.drop 65552, fail⟩, 0, Int.ofNat p.length,
        p ++ (data.take 65552 ++ buf.drop (data.take 65552).length).drop p.length, err, nonce (ctr + 1) true⟩) := by
  obtain ⟨hlen, h1, hgb, e3⟩ := rc_pre data buf hbuf
  have hpl := E.hOpenLen _ _ _ ho2
  obtain ⟨q1, q2, q3, q4⟩ := rc_post (data.take 65552 ++ buf.drop (data.take 65552).length) p
    (by rw [wz_length _ _ hgb]; exact hbuf) (by omega)
  have e1 : (none == Go.io_EOF) = false := rfl
  have e2 : (none == Go.io_ErrUnexpectedEOF) = false := rfl
  have e4 : (some E.eAuth != none) = true := rfl
  rc_simp [hlen, h1, readFull_full data fail hn, e1, e2, e3, e4, Bool.not_false, Bool.and_self,
    slice_wz buf _ 65552 (by rw [hn]; rfl) hgb, E.hOpen, ho, ho2, setLastChunkFlag_tie,
    incNonce_tie ctr true hctr, q1, q2, q3, q4]

theorem rc_A3 (E : AeadEnv α A k) (a : α) (data : Bytes) (fail : Bool) (lo : Int) (buf : Bytes)
    (err : Option Go.Err) (ctr : Nat) (hbuf : buf.length = 65552)
    (hn : (data.take 65552).length = 65552)
    (ho : A.openF k (nonce ctr false) (data.take 65552) = none)
    (ho2 : A.openF k (nonce ctr true) (data.take 65552) = none) :
    stream_Reader_readChunk E.over E.open_ ⟨a, ⟨data, fail⟩, lo, lo, buf, err, nonce ctr false⟩ =
      .ok (false, some ⟨"stream.(*Reader).readChunk", 1, []⟩, ⟨a, ⟨data.drop 65552, fail⟩, lo, lo,
        data.take 65552 ++ buf.drop (data.take 65552).length, err, nonce ctr true⟩) := by
  obtain ⟨hlen, h1, hgb, e3⟩ := rc_pre data buf hbuf
  have e1 : (none == Go.io_EOF) = false := rfl
  have e2 : (none == Go.io_ErrUnexpectedEOF) = false := rfl
  have e4 : (some E.eAuth != none) = true := rfl
  rc_simp [hlen, h1, readFull_full data fail hn, e1, e2, e3, e4, Bool.not_false, Bool.and_self,
    slice_wz buf _ 65552 (by rw [hn]; rfl) hgb, E.hOpen, ho, ho2, setLastChunkFlag_tie]

theorem rc_B (E : AeadEnv α A k) (a : α) (data : Bytes) (lo : Int) (buf : Bytes)
    (err : Option Go.Err) (nc : Bytes) (hbuf : buf.length = 65552)
    (hn : (data.take 65552).length < 65552) :
    stream_Reader_readChunk E.over E.open_ ⟨a, ⟨data, true⟩, lo, lo, buf, err, nc⟩ =
      .ok (false, Go.io_srcErr, ⟨a, ⟨data.drop 65552, true⟩, lo, lo,
        data.take 65552 ++ buf.drop (data.take 65552).length, err, nc⟩) := by
  obtain ⟨hlen, h1, hgb, e3⟩ := rc_pre data buf hbuf
  have e1 : (Go.io_srcErr == Go.io_EOF) = false := by decide
  have e2 : (Go.io_srcErr == Go.io_ErrUnexpectedEOF) = false := by decide
  have e4 : (Go.io_srcErr != none) = true := by decide
  rc_simp [hlen, h1, readFull_fail data hn, e1, e2, e4]

theorem rc_C (E : AeadEnv α A k) (a : α) (data : Bytes) (lo : Int) (buf : Bytes)
    (err : Option Go.Err) (nc : Bytes) (hbuf : buf.length = 65552)
    (hn : (data.take 65552).length = 0) :
    stream_Reader_readChunk E.over E.open_ ⟨a, ⟨data, false⟩, lo, lo, buf, err, nc⟩ =
      .ok (false, Go.io_ErrUnexpectedEOF, ⟨a, ⟨data.drop 65552, false⟩, lo, lo,
        data.take 65552 ++ buf.drop (data.take 65552).length, err, nc⟩) := by
  obtain ⟨hlen, h1, hgb, e3⟩ := rc_pre data buf hbuf
  rc_simp [hlen, h1, readFull_eof data hn]


theorem rc_D1 (E : AeadEnv α A k) (a : α) (data : Bytes) (lo : Int) (buf : Bytes)
    (err : Option Go.Err) (ctr : Nat) (hbuf : buf.length = 65552) (hctr : ctr + 1 < 2 ^ 88)
    (hn : (data.take 65552).length < 65552) (hn0 : (data.take 65552).length ≠ 0)
    (hc : ctr ≠ 0) (h16 : (data.take 65552).length = 16) :
    stream_Reader_readChunk E.over E.open_ ⟨a, ⟨data, false⟩, lo, lo, buf, err, nonce ctr false⟩ =
      .ok (false, some ⟨"stream.(*Reader).readChunk", 0, []⟩, ⟨a, ⟨data.drop 65552, false⟩, lo, lo,
        data.take 65552 ++ buf.drop (data.take 65552).length, err, nonce ctr false⟩) := by
  obtain ⟨hlen, h1, hgb, e3⟩ := rc_pre data buf hbuf
  have e1 : (Go.io_ErrUnexpectedEOF == Go.io_EOF) = false := by decide
  have e5 : (Go.len (data.take 65552) == 16) = true := by simp only [Go.len, h16]; rfl
  rc_simp [hlen, h1, readFull_short data hn hn0, e1, e5, nonceIsZero' ctr hctr, decide_eq_false hc,
    Bool.not_false, E.hOver]

/-- the check for an empty last chunk, when it does not fire -/
theorem rc_chk (ctr : Nat) (l : Bytes) (h : ¬ (ctr ≠ 0 ∧ l.length = 16)) :
    decide (ctr = 0) = true ∨ (decide (ctr = 0) = false ∧ (Go.len l == (16 : Int)) = false) := by
  by_cases hc : ctr = 0
  · exact .inl (decide_eq_true hc)
  · refine .inr ⟨decide_eq_false hc, ?_⟩
    have : l.length ≠ 16 := fun h' => h ⟨hc, h'⟩
    simp only [Go.len, Int.ofNat_eq_natCast, beq_eq_false_iff_ne, ne_eq]; omega

theorem rc_D2 (E : AeadEnv α A k) (a : α) (data : Bytes) (lo : Int) (buf : Bytes)
    (err : Option Go.Err) (ctr : Nat) (p : Bytes) (hbuf : buf.length = 65552) (hctr : ctr + 1 < 2 ^ 88)
    (hn : (data.take 65552).length < 65552) (hn0 : (data.take 65552).length ≠ 0)
    (hc : ¬ (ctr ≠ 0 ∧ (data.take 65552).length = 16))
    (ho : A.openF k (nonce ctr true) (data.take 65552) = some p) :
    stream_Reader_readChunk E.over E.open_ ⟨a, ⟨data, false⟩, lo, lo, buf, err, nonce ctr false⟩ =
      .ok (true, none, ⟨a, ⟨data.drop 65552, false⟩, 0, Int.ofNat p.length,
        p ++ (data.take 65552 ++ buf.drop (data.take 65552).length).drop p.length, err, nonce (ctr + 1) true⟩) := by
  obtain ⟨hlen, h1, hgb, e3⟩ := rc_pre data buf hbuf
  have hpl := E.hOpenLen _ _ _ ho
  obtain ⟨q1, q2, q3, q4⟩ := rc_post (data.take 65552 ++ buf.drop (data.take 65552).length) p
    (by rw [wz_length _ _ hgb]; exact hbuf) (by omega)
  have e1 : (Go.io_ErrUnexpectedEOF == Go.io_EOF) = false := by decide
  have h2 : Go.reslice 0 65552 0 (Go.len (data.take 65552)) = .ok (0, Go.len (data.take 65552)) :=
    reslice_zero _ _ (by simp only [Go.len, Int.ofNat_eq_natCast]; omega)
      (by simp only [Go.len, Int.ofNat_eq_natCast]; omega)
  rcases rc_chk ctr _ hc with hz | ⟨hz, h16⟩
  · rc_simp [hlen, h1, readFull_short data hn hn0, e1, nonceIsZero' ctr hctr, hz, Bool.not_true, q1, h2,
      setLastChunkFlag_tie, e3, slice_wz buf (data.take 65552) (Go.len (data.take 65552)) rfl hgb, E.hOpen, ho, incNonce_tie ctr true hctr, q2, q3, q4]
  · rc_simp [hlen, h1, readFull_short data hn hn0, e1, nonceIsZero' ctr hctr, hz, Bool.not_false, E.hOver, Bool.not_true,
      h16, q1, h2,
      setLastChunkFlag_tie, e3, slice_wz buf (data.take 65552) (Go.len (data.take 65552)) rfl hgb, E.hOpen, ho, incNonce_tie ctr true hctr, q2, q3, q4]

theorem rc_D3 (E : AeadEnv α A k) (a : α) (data : Bytes) (lo : Int) (buf : Bytes)
    (err : Option Go.Err) (ctr : Nat) (hbuf : buf.length = 65552) (hctr : ctr + 1 < 2 ^ 88)
    (hn : (data.take 65552).length < 65552) (hn0 : (data.take 65552).length ≠ 0)
    (hc : ¬ (ctr ≠ 0 ∧ (data.take 65552).length = 16))
    (ho : A.openF k (nonce ctr true) (data.take 65552) = none) :
    stream_Reader_readChunk E.over E.open_ ⟨a, ⟨data, false⟩, lo, lo, buf, err, nonce ctr false⟩ =
      .ok (false, some ⟨"stream.(*Reader).readChunk", 1, []⟩, ⟨a, ⟨data.drop 65552, false⟩, lo, lo,
        data.take 65552 ++ buf.drop (data.take 65552).length, err, nonce ctr true⟩) := by
  obtain ⟨hlen, h1, hgb, e3⟩ := rc_pre data buf hbuf
  have e1 : (Go.io_ErrUnexpectedEOF == Go.io_EOF) = false := by decide
  have e4 : (some E.eAuth != none) = true := rfl
  have h2 : Go.reslice 0 65552 0 (Go.len (data.take 65552)) = .ok (0, Go.len (data.take 65552)) :=
    reslice_zero _ _ (by simp only [Go.len, Int.ofNat_eq_natCast]; omega)
      (by simp only [Go.len, Int.ofNat_eq_natCast]; omega)
  have q1 : Go.len (data.take 65552 ++ buf.drop (data.take 65552).length) = 65552 := by
    rw [len_wz _ _ hgb, hlen]
  rcases rc_chk ctr _ hc with hz | ⟨hz, h16⟩
  · rc_simp [hlen, h1, readFull_short data hn hn0, e1, nonceIsZero' ctr hctr, hz, Bool.not_true, q1, h2,
      setLastChunkFlag_tie, e3, e4, slice_wz buf (data.take 65552) (Go.len (data.take 65552)) rfl hgb, E.hOpen, ho, Bool.and_false]
  · rc_simp [hlen, h1, readFull_short data hn hn0, e1, nonceIsZero' ctr hctr, hz, Bool.not_false, E.hOver, Bool.not_true,
      h16, q1, h2,
      setLastChunkFlag_tie, e3, e4, slice_wz buf (data.take 65552) (Go.len (data.take 65552)) rfl hgb, E.hOpen, ho, Bool.and_false]


/-! ## the model's readChunk, case by case -/

local macro "m_simp" "[" ts:Lean.Parser.Tactic.simpLemma,* "]" : tactic =>
  `(tactic| simp only [Reader.readChunk, Nat.reduceAdd, List.length_nil, ne_eq, not_true, if_false, if_true,
    Nat.lt_irrefl, false_and, true_and, and_true, and_false, decide_false, decide_true, not_false_eq_true,
    Bool.false_eq_true, $ts,*])

theorem m_A1 (hT : A.T = 16) (data : Bytes) (fail : Bool) (ctr taken : Nat) (p : Bytes)
    (hn : (data.take 65552).length = 65552) (hctr : ctr + 1 < 2 ^ 88)
    (ho : A.openF k (nonce ctr false) (data.take 65552) = some p) :
    Reader.readChunk A 65536 (2 ^ 88) k ⟨[], none, ctr, ⟨data, fail⟩, taken⟩ =
      (⟨p, none, ctr + 1, ⟨data.drop 65552, fail⟩, taken + 65552⟩, .ok false) := by
  have hL : ¬ (ctr + 1 ≥ 2 ^ 88) := by omega
  have h0 : ¬ ((65552 : Nat) = 0) := by decide
  m_simp [hT, hn, ho, hL, h0]

theorem m_A2 (hT : A.T = 16) (data : Bytes) (fail : Bool) (ctr taken : Nat) (p : Bytes)
    (hn : (data.take 65552).length = 65552) (hctr : ctr + 1 < 2 ^ 88)
    (ho : A.openF k (nonce ctr false) (data.take 65552) = none)
    (ho2 : A.openF k (nonce ctr true) (data.take 65552) = some p) :
    Reader.readChunk A 65536 (2 ^ 88) k ⟨[], none, ctr, ⟨data, fail⟩, taken⟩ =
      (⟨p, none, ctr + 1, ⟨data.drop 65552, fail⟩, taken + 65552⟩, .ok true) := by
  have hL : ¬ (ctr + 1 ≥ 2 ^ 88) := by omega
  have h0 : ¬ ((65552 : Nat) = 0) := by decide
  m_simp [hT, hn, ho, ho2, hL, h0]

theorem m_A3 (hT : A.T = 16) (data : Bytes) (fail : Bool) (ctr taken : Nat)
    (hn : (data.take 65552).length = 65552)
    (ho : A.openF k (nonce ctr false) (data.take 65552) = none)
    (ho2 : A.openF k (nonce ctr true) (data.take 65552) = none) :
    Reader.readChunk A 65536 (2 ^ 88) k ⟨[], none, ctr, ⟨data, fail⟩, taken⟩ =
      (⟨[], none, ctr, ⟨data.drop 65552, fail⟩, taken + 65552⟩, .error .authFail) := by
  have h0 : ¬ ((65552 : Nat) = 0) := by decide
  m_simp [hT, hn, ho, ho2, h0]

theorem m_B (hT : A.T = 16) (data : Bytes) (ctr taken : Nat)
    (hn : (data.take 65552).length < 65552) :
    Reader.readChunk A 65536 (2 ^ 88) k ⟨[], none, ctr, ⟨data, true⟩, taken⟩ =
      (⟨[], none, ctr, ⟨data.drop 65552, true⟩, taken + 65552⟩, .error .srcErr) := by
  m_simp [hT, hn]

theorem m_C (hT : A.T = 16) (data : Bytes) (ctr taken : Nat)
    (hn : (data.take 65552).length = 0) :
    Reader.readChunk A 65536 (2 ^ 88) k ⟨[], none, ctr, ⟨data, false⟩, taken⟩ =
      (⟨[], none, ctr, ⟨data.drop 65552, false⟩, taken + 65552⟩, .error .truncated) := by
  m_simp [hT, hn]

theorem m_D1 (hT : A.T = 16) (data : Bytes) (ctr taken : Nat)
    (hn : (data.take 65552).length < 65552) (hn0 : (data.take 65552).length ≠ 0)
    (hc : ctr ≠ 0) (h16 : (data.take 65552).length = 16) :
    Reader.readChunk A 65536 (2 ^ 88) k ⟨[], none, ctr, ⟨data, false⟩, taken⟩ =
      (⟨[], none, ctr, ⟨data.drop 65552, false⟩, taken + 65552⟩, .error .emptyLast) := by
  have hc' : ¬ (ctr = 0) := hc
  have a1 : ¬ ((16 : Nat) = 0) := by decide
  have a2 : (16 : Nat) < 65552 := by decide
  m_simp [hT, hc', h16, a1, a2]

theorem m_D2 (hT : A.T = 16) (data : Bytes) (ctr taken : Nat) (p : Bytes)
    (hn : (data.take 65552).length < 65552) (hn0 : (data.take 65552).length ≠ 0) (hctr : ctr + 1 < 2 ^ 88)
    (hc : ¬ (ctr ≠ 0 ∧ (data.take 65552).length = 16))
    (ho : A.openF k (nonce ctr true) (data.take 65552) = some p) :
    Reader.readChunk A 65536 (2 ^ 88) k ⟨[], none, ctr, ⟨data, false⟩, taken⟩ =
      (⟨p, none, ctr + 1, ⟨data.drop 65552, false⟩, taken + 65552⟩, .ok true) := by
  have hL : ¬ (ctr + 1 ≥ 2 ^ 88) := by omega
  have hc' : ¬ (¬ (ctr = 0) ∧ (data.take 65552).length = 16) := hc
  m_simp [hT, hn, hn0, hc', ho, hL]

theorem m_D3 (hT : A.T = 16) (data : Bytes) (ctr taken : Nat)
    (hn : (data.take 65552).length < 65552) (hn0 : (data.take 65552).length ≠ 0)
    (hc : ¬ (ctr ≠ 0 ∧ (data.take 65552).length = 16))
    (ho : A.openF k (nonce ctr true) (data.take 65552) = none) :
    Reader.readChunk A 65536 (2 ^ 88) k ⟨[], none, ctr, ⟨data, false⟩, taken⟩ =
      (⟨[], none, ctr, ⟨data.drop 65552, false⟩, taken + 65552⟩, .error .authFail) := by
  have hc' : ¬ (¬ (ctr = 0) ∧ (data.take 65552).length = 16) := hc
  m_simp [hT, hn, hn0, hc', ho]

theorem view_len (buf : Bytes) (lo hi : Int) (hb : 0 ≤ lo ∧ lo ≤ hi ∧ hi ≤ Int.ofNat buf.length) :
    Int.ofNat ((buf.take hi.toNat).drop lo.toNat).length = hi - lo := by
  simp only [Int.ofNat_eq_natCast] at hb
  simp only [List.length_drop, List.length_take, Int.ofNat_eq_natCast]
  omega

/-- copying out of the view and moving its lower end -/
theorem consume (buf u p : Bytes) (lo hi : Int) (hbuf : buf.length = 65552)
    (hb : 0 ≤ lo ∧ lo ≤ hi ∧ hi ≤ 65552) (hu : u = (buf.take hi.toNat).drop lo.toNat) :
    Go.slice buf lo hi = .ok u ∧ Int.ofNat u.length = hi - lo ∧
    min (Go.len p) (Go.len u) = Int.ofNat (u.take p.length).length ∧
    ∃ lo' hi', Go.reslice lo (Go.len buf) (Int.ofNat (u.take p.length).length) (hi - lo) = .ok (lo', hi') ∧
      (0 ≤ lo' ∧ lo' ≤ hi' ∧ hi' ≤ 65552) ∧ u.drop p.length = (buf.take hi'.toNat).drop lo'.toNat := by
  have hb' : 0 ≤ lo ∧ lo ≤ hi ∧ hi ≤ Int.ofNat buf.length := by rw [hbuf]; exact hb
  have hl : Int.ofNat u.length = hi - lo := by rw [hu]; exact view_len buf lo hi hb'
  refine ⟨?_, hl, ?_, ?_⟩
  · unfold Go.slice; rw [if_pos hb', hu]
  · simp only [Go.len, List.length_take, Int.ofNat_eq_natCast]; omega
  · have hn : (u.take p.length).length = min p.length u.length := List.length_take
    simp only [Int.ofNat_eq_natCast] at hl
    have hc : 0 ≤ Int.ofNat (u.take p.length).length ∧ Int.ofNat (u.take p.length).length ≤ hi - lo ∧
        lo + (hi - lo) ≤ Go.len buf := by
      simp only [Go.len, hbuf, hn, Int.ofNat_eq_natCast]; omega
    refine ⟨_, _, by unfold Go.reslice; rw [if_pos hc], ?_, ?_⟩
    · simp only [hn, Int.ofNat_eq_natCast]; omega
    · have e1 : (lo + (hi - lo)).toNat = hi.toNat := by congr 1; omega
      have e2 : (lo + Int.ofNat (u.take p.length).length).toNat = lo.toNat + min p.length u.length := by
        simp only [hn, Int.ofNat_eq_natCast]; omega
      rw [e1, e2]
      obtain ⟨kk, hk⟩ : ∃ kk, kk = min p.length u.length := ⟨_, rfl⟩
      rw [← hk, hu, List.drop_drop]
      by_cases hle : p.length ≤ u.length
      · rw [hk, Nat.min_eq_left hle]
      · have h1 : (buf.take hi.toNat).length ≤ lo.toNat + p.length := by
          rw [List.length_take]; omega
        have h2 : (buf.take hi.toNat).length ≤ lo.toNat + kk := by
          rw [List.length_take]; omega
        rw [List.drop_of_length_le h1, List.drop_of_length_le h2]


/-! ## one readChunk of the translated code against one readChunk of the model -/

/-- what `readChunk` leaves behind, against the model's `readChunk` (started with nothing unread, no error) -/
def RCPost {α : Type} (res : Bool × Option Go.Err × stream_Reader α) :
    Reader × Except Outcome Bool → Prop
  | (m1, .error o) => res.2.1 ≠ none ∧ rdErrRel res.2.1 (some o) ∧
      RRel { res.2.2 with err := res.2.1 } { m1 with err := some o }
  | (m1, .ok l) => res.1 = l ∧ res.2.1 = none ∧ m1.err = none ∧ m1.unread.length ≤ 65552 ∧
      ∃ a src buf, buf.length = 65552 ∧ buf.take m1.unread.length = m1.unread ∧
        src.data = m1.src.data ∧ src.fail = m1.src.fail ∧
        res.2.2 = ⟨a, src, 0, Int.ofNat m1.unread.length, buf, none, nonce m1.ctr l⟩

theorem post_ok (a : α) (src : Go.Src) (X p : Bytes) (ctr taken : Nat) (l : Bool)
    (hX : X.length = 65552) (hp : p.length + 16 ≤ 65552) :
    RCPost (l, none, (⟨a, src, 0, Int.ofNat p.length, p ++ X.drop p.length, none, nonce (ctr + 1) l⟩ : stream_Reader α))
      (⟨p, none, ctr + 1, ⟨src.data, src.fail⟩, taken⟩, .ok l) := by
  refine ⟨rfl, rfl, rfl, ?_, a, src, _, ?_, ?_, rfl, rfl, rfl⟩
  · show p.length ≤ 65552; omega
  · rw [wz_length X p (by omega), hX]
  · exact wz_take X p

theorem post_err (a : α) (src : Go.Src) (lo : Int) (X : Bytes) (e : Option Go.Err) (nc : Bytes) (o : Outcome)
    (ctr taken : Nat) (hX : X.length = 65552) (hlo : 0 ≤ lo ∧ lo ≤ 65552) (hne : e ≠ none)
    (he : rdErrRel e (some o)) :
    RCPost (false, e, (⟨a, src, lo, lo, X, none, nc⟩ : stream_Reader α))
      (⟨[], none, ctr, ⟨src.data, src.fail⟩, taken⟩, .error o) := by
  refine ⟨hne, he, hX, ⟨hlo.1, Int.le_refl _, hlo.2⟩, ?_, rfl, rfl, he, ?_⟩
  · show [] = (X.take lo.toNat).drop lo.toNat
    rw [List.drop_of_length_le]
    rw [List.length_take]; omega
  · intro h; cases h

theorem readChunk_tie (E : AeadEnv α A k) (a : α) (data : Bytes) (fail : Bool) (lo : Int) (buf : Bytes)
    (ctr taken : Nat) (hbuf : buf.length = 65552) (hlo : 0 ≤ lo ∧ lo ≤ 65552) (hctr : ctr + 1 < 2 ^ 88) :
    ∃ res, stream_Reader_readChunk E.over E.open_ ⟨a, ⟨data, fail⟩, lo, lo, buf, none, nonce ctr false⟩ = .ok res ∧
      RCPost res (Reader.readChunk A 65536 (2 ^ 88) k ⟨[], none, ctr, ⟨data, fail⟩, taken⟩) := by
  have hle : (data.take 65552).length ≤ 65552 := by rw [List.length_take]; omega
  have hX : (data.take 65552 ++ buf.drop (data.take 65552).length).length = 65552 := by
    rw [wz_length buf _ (by omega)]; exact hbuf
  by_cases hn : (data.take 65552).length = 65552
  · cases ho : A.openF k (nonce ctr false) (data.take 65552) with
    | some p =>
      refine ⟨_, rc_A1 E a data fail lo buf none ctr p hbuf hn hctr ho, ?_⟩
      rw [m_A1 E.hT data fail ctr taken p hn hctr ho]
      exact post_ok a ⟨data.drop 65552, fail⟩ _ p ctr _ false hX (by have := E.hOpenLen _ _ _ ho; omega)
    | none =>
      cases ho2 : A.openF k (nonce ctr true) (data.take 65552) with
      | some p =>
        refine ⟨_, rc_A2 E a data fail lo buf none ctr p hbuf hn hctr ho ho2, ?_⟩
        rw [m_A2 E.hT data fail ctr taken p hn hctr ho ho2]
        exact post_ok a ⟨data.drop 65552, fail⟩ _ p ctr _ true hX (by have := E.hOpenLen _ _ _ ho2; omega)
      | none =>
        refine ⟨_, rc_A3 E a data fail lo buf none ctr hbuf hn ho ho2, ?_⟩
        rw [m_A3 E.hT data fail ctr taken hn ho ho2]
        exact post_err a ⟨data.drop 65552, fail⟩ lo _ _ _ _ ctr _ hX hlo (by decide) rfl
  · have hlt : (data.take 65552).length < 65552 := by omega
    cases fail with
    | true =>
      refine ⟨_, rc_B E a data lo buf none _ hbuf hlt, ?_⟩
      rw [m_B E.hT data ctr taken hlt]
      exact post_err a ⟨data.drop 65552, true⟩ lo _ _ _ _ ctr _ hX hlo (by decide) (.inl rfl)
    | false =>
      by_cases hn0 : (data.take 65552).length = 0
      · refine ⟨_, rc_C E a data lo buf none _ hbuf hn0, ?_⟩
        rw [m_C E.hT data ctr taken hn0]
        exact post_err a ⟨data.drop 65552, false⟩ lo _ _ _ _ ctr _ hX hlo (by decide) rfl
      · by_cases hc : ctr ≠ 0 ∧ (data.take 65552).length = 16
        · refine ⟨_, rc_D1 E a data lo buf none ctr hbuf hctr hlt hn0 hc.1 hc.2, ?_⟩
          rw [m_D1 E.hT data ctr taken hlt hn0 hc.1 hc.2]
          exact post_err a ⟨data.drop 65552, false⟩ lo _ _ _ _ ctr _ hX hlo (by decide) rfl
        · cases ho : A.openF k (nonce ctr true) (data.take 65552) with
          | some p =>
            refine ⟨_, rc_D2 E a data lo buf none ctr p hbuf hctr hlt hn0 hc ho, ?_⟩
            rw [m_D2 E.hT data ctr taken p hlt hn0 hctr hc ho]
            exact post_ok a ⟨data.drop 65552, false⟩ _ p ctr _ true hX (by have := E.hOpenLen _ _ _ ho; omega)
          | none =>
            refine ⟨_, rc_D3 E a data lo buf none ctr hbuf hctr hlt hn0 hc ho, ?_⟩
            rw [m_D3 E.hT data ctr taken hlt hn0 hc ho]
            exact post_err a ⟨data.drop 65552, false⟩ lo _ _ _ _ ctr _ hX hlo (by decide) rfl

/-! ## one `Read`, branch by branch -/

theorem take_len_take (u : Bytes) (n : Nat) : u.take (Int.ofNat (u.take n).length).toNat = u.take n := by
  simp only [Int.ofNat_eq_natCast, Int.toNat_natCast, List.length_take]
  by_cases h : n ≤ u.length
  · rw [Nat.min_eq_left h]
  · rw [Nat.min_eq_right (by omega), List.take_length, List.take_of_length_le (by omega)]

/-- `Read` while bytes are unread -/
theorem read_unread (E : AeadEnv α A k) (a : α) (data : Bytes) (fail : Bool) (lo hi : Int) (buf : Bytes)
    (err : Option Go.Err) (nc u : Bytes) (merr : Option Outcome) (ctr taken : Nat) (p : Bytes)
    (h : RRel (⟨a, ⟨data, fail⟩, lo, hi, buf, err, nc⟩ : stream_Reader α) ⟨u, merr, ctr, ⟨data, fail⟩, taken⟩)
    (hpos : u.length > 0) :
    ∃ res, stream_Reader_Read E.over E.open_ ⟨a, ⟨data, fail⟩, lo, hi, buf, err, nc⟩ p = .ok res ∧
      let mr := Reader.read A 65536 (2 ^ 88) k ⟨u, merr, ctr, ⟨data, fail⟩, taken⟩ p.length
      res.1 = Int.ofNat mr.2.1.length ∧ rdErrRel res.2.1 mr.2.2 ∧ RRel res.2.2.1 mr.1 ∧
      res.2.2.2 = mr.2.1 ++ p.drop mr.2.1.length := by
  obtain ⟨hbl, hb, hu, hsd, hsf, herr, hnc⟩ := h
  dsimp only at hbl hb hu hsd hsf herr hnc
  obtain ⟨c1, c2, c3, lo', hi', c4, c5, c6⟩ := consume buf u p lo hi hbl hb hu
  have hgt : decide (hi - lo > 0) = true := by
    apply decide_eq_true; simp only [Int.ofNat_eq_natCast] at c2; omega
  refine ⟨_, by
    simp only [stream_Reader_Read, hgt, if_true, c1, bind, Except.bind, c3, take_len_take, writeAt_zero, c4,
      pure, Except.pure]
    exact rfl, ?_⟩
  simp only [Reader.read, hpos, if_true]
  exact ⟨trivial, rfl, ⟨hbl, c5, c6, rfl, rfl, herr, hnc⟩, trivial⟩


theorem rdErrRel_ne (g : Option Go.Err) (o : Outcome) (h : rdErrRel g (some o)) : (g != none) = true := by
  cases o <;> first
    | (rcases h with h | h <;> (rw [h]; decide))
    | (rw [show g = _ from h]; rfl)

/-- nothing unread: the view is empty -/
theorem view_empty (buf u : Bytes) (lo hi : Int) (hbuf : buf.length = 65552)
    (hb : 0 ≤ lo ∧ lo ≤ hi ∧ hi ≤ 65552) (hu : u = (buf.take hi.toNat).drop lo.toNat) (h0 : ¬ u.length > 0) :
    hi = lo ∧ u = [] := by
  have hl := view_len buf lo hi (by rw [hbuf]; exact hb)
  rw [← hu] at hl
  simp only [Int.ofNat_eq_natCast] at hl
  exact ⟨by omega, List.eq_nil_of_length_eq_zero (by omega)⟩

/-- `Read` after an error was recorded -/
theorem read_err (E : AeadEnv α A k) (a : α) (data : Bytes) (fail : Bool) (lo hi : Int) (buf : Bytes)
    (err : Option Go.Err) (nc u : Bytes) (o : Outcome) (ctr taken : Nat) (p : Bytes)
    (h : RRel (⟨a, ⟨data, fail⟩, lo, hi, buf, err, nc⟩ : stream_Reader α) ⟨u, some o, ctr, ⟨data, fail⟩, taken⟩)
    (hpos : ¬ u.length > 0) :
    ∃ res, stream_Reader_Read E.over E.open_ ⟨a, ⟨data, fail⟩, lo, hi, buf, err, nc⟩ p = .ok res ∧
      let mr := Reader.read A 65536 (2 ^ 88) k ⟨u, some o, ctr, ⟨data, fail⟩, taken⟩ p.length
      res.1 = Int.ofNat mr.2.1.length ∧ rdErrRel res.2.1 mr.2.2 ∧ RRel res.2.2.1 mr.1 ∧
      res.2.2.2 = mr.2.1 ++ p.drop mr.2.1.length := by
  have h' := h
  obtain ⟨hbl, hb, hu, hsd, hsf, herr, hnc⟩ := h'
  dsimp only at hbl hb hu hsd hsf herr hnc
  obtain ⟨e1, e2⟩ := view_empty buf u lo hi hbl hb hu hpos
  subst e1
  have hgt : decide (hi - hi > 0) = false := by
    apply decide_eq_false; omega
  have hne := rdErrRel_ne err o herr
  refine ⟨_, by
    simp only [stream_Reader_Read, hgt, Bool.false_eq_true, if_false, hne, if_true, pure, Except.pure]
    exact rfl, ?_⟩
  simp only [Reader.read, hpos, if_false]
  exact ⟨rfl, herr, h, rfl⟩

/-- `Read` into an empty buffer -/
theorem read_empty (E : AeadEnv α A k) (a : α) (data : Bytes) (fail : Bool) (lo hi : Int) (buf : Bytes)
    (err : Option Go.Err) (nc u : Bytes) (ctr taken : Nat) (p : Bytes)
    (h : RRel (⟨a, ⟨data, fail⟩, lo, hi, buf, err, nc⟩ : stream_Reader α) ⟨u, none, ctr, ⟨data, fail⟩, taken⟩)
    (hpos : ¬ u.length > 0) (hp : p.length = 0) :
    ∃ res, stream_Reader_Read E.over E.open_ ⟨a, ⟨data, fail⟩, lo, hi, buf, err, nc⟩ p = .ok res ∧
      let mr := Reader.read A 65536 (2 ^ 88) k ⟨u, none, ctr, ⟨data, fail⟩, taken⟩ p.length
      res.1 = Int.ofNat mr.2.1.length ∧ rdErrRel res.2.1 mr.2.2 ∧ RRel res.2.2.1 mr.1 ∧
      res.2.2.2 = mr.2.1 ++ p.drop mr.2.1.length := by
  have h' := h
  obtain ⟨hbl, hb, hu, hsd, hsf, herr, hnc⟩ := h'
  dsimp only at hbl hb hu hsd hsf herr hnc
  obtain ⟨e1, e2⟩ := view_empty buf u lo hi hbl hb hu hpos
  subst e1
  have hgt : decide (hi - hi > 0) = false := by
    apply decide_eq_false; omega
  have herr' : err = none := herr
  subst herr'
  have hp' : (Go.len p == 0) = true := by simp only [Go.len, hp]; rfl
  refine ⟨_, by
    simp only [stream_Reader_Read, hgt, Bool.false_eq_true, if_false, bne_self_eq_false, hp', if_true, pure,
      Except.pure]
    exact rfl, ?_⟩
  simp only [Reader.read, hpos, if_false, hp, if_true]
  exact ⟨rfl, rfl, h, rfl⟩

theorem read_chunk_ok (E : AeadEnv α A k) (r : stream_Reader α) (p : Bytes) (l : Bool) (a' : α) (sd : Bytes)
    (sf : Bool) (buf' mu : Bytes) (mc mt : Nat)
    (hr1 : decide (r.unread_hi - r.unread_lo > 0) = false) (hr2 : r.err = none) (hp : (Go.len p == 0) = false)
    (hgo : stream_Reader_readChunk E.over E.open_ r =
      .ok (l, none, ⟨a', ⟨sd, sf⟩, 0, Int.ofNat mu.length, buf', none, nonce mc l⟩))
    (hbl : buf'.length = 65552) (hmu : buf'.take mu.length = mu) (hmul : mu.length ≤ 65552) :
    ∃ res, stream_Reader_Read E.over E.open_ r p = .ok res ∧
      let m2 : Reader := ⟨mu.drop p.length, none, mc, ⟨sd, sf⟩, mt⟩
      res.1 = Int.ofNat (mu.take p.length).length ∧ res.2.1 = none ∧
      RRel res.2.2.1 (if l then m2.probe else m2) ∧
      res.2.2.2 = mu.take p.length ++ p.drop (mu.take p.length).length := by
  have hb : (0 : Int) ≤ 0 ∧ 0 ≤ Int.ofNat mu.length ∧ Int.ofNat mu.length ≤ 65552 := by
    simp only [Int.ofNat_eq_natCast]; omega
  have hu : mu = (buf'.take (Int.ofNat mu.length).toNat).drop (0 : Int).toNat := by
    simp only [Int.ofNat_eq_natCast, Int.toNat_natCast, Int.toNat_zero, List.drop_zero, hmu]
  obtain ⟨c1, c2, c3, lo', hi', c4, c5, c6⟩ := consume buf' mu p 0 (Int.ofNat mu.length) hbl hb hu
  cases l with
  | false =>
    refine ⟨_, by
      simp only [stream_Reader_Read, hr1, Bool.false_eq_true, if_false, hr2, bne_self_eq_false, hp, hgo,
        bind, Except.bind, c1, c3, take_len_take, writeAt_zero, c4, pure, Except.pure]
      exact rfl, ?_⟩
    exact ⟨rfl, rfl, ⟨hbl, c5, c6, rfl, rfl, rfl, fun _ => rfl⟩, rfl⟩
  | true =>
    have hmk : Go.makeList (0 : UInt8) (1 : Int) = .ok [0] := rfl
    cases sd with
    | nil =>
      cases sf with
      | true =>
        have hrf : Go.io_ReadFull ⟨[], true⟩ (Go.len ([0] : Bytes)) = ([], Go.io_srcErr, ⟨[], true⟩) := by simp [Go.io_ReadFull, Go.len]
        have q1 : decide (Go.len ([] : Bytes) > 0) = false := by decide
        have q3 : (Go.io_srcErr != Go.io_EOF) = true := by decide
        refine ⟨_, by
          simp only [stream_Reader_Read, hr1, Bool.false_eq_true, if_false, hr2, bne_self_eq_false, hp, hgo,
            bind, Except.bind, c1, c3, take_len_take, writeAt_zero, c4, pure, Except.pure, if_true, hmk, hrf,
            q1, q3]
          exact rfl, ?_⟩
        exact ⟨rfl, rfl, ⟨hbl, c5, c6, rfl, rfl, .inr rfl, fun h => by cases h⟩, rfl⟩
      | false =>
        have hrf : Go.io_ReadFull ⟨[], false⟩ (Go.len ([0] : Bytes)) = ([], Go.io_EOF, ⟨[], false⟩) := by simp [Go.io_ReadFull, Go.len]
        have q1 : decide (Go.len ([] : Bytes) > 0) = false := by decide
        have q2 : (Go.io_EOF != Go.io_EOF) = false := by decide
        refine ⟨_, by
          simp only [stream_Reader_Read, hr1, Bool.false_eq_true, if_false, hr2, bne_self_eq_false, hp, hgo,
            bind, Except.bind, c1, c3, take_len_take, writeAt_zero, c4, pure, Except.pure, if_true, hmk, hrf,
            q1, q2]
          exact rfl, ?_⟩
        exact ⟨rfl, rfl, ⟨hbl, c5, c6, rfl, rfl, rfl, fun h => by cases h⟩, rfl⟩
    | cons x rest =>
      have hrf : Go.io_ReadFull ⟨x :: rest, sf⟩ (Go.len ([0] : Bytes)) = ([x], none, ⟨rest, sf⟩) := by
        simp [Go.io_ReadFull, Go.len]
      have q4 : decide (Go.len ([x] : Bytes) > 0) = true := by simp [Go.len]
      refine ⟨_, by
        simp only [stream_Reader_Read, hr1, Bool.false_eq_true, if_false, hr2, bne_self_eq_false, hp, hgo,
          bind, Except.bind, c1, c3, take_len_take, writeAt_zero, c4, pure, Except.pure, if_true, hmk, hrf,
          q4]
        exact rfl, ?_⟩
      exact ⟨rfl, rfl, ⟨hbl, c5, c6, rfl, rfl, rfl, fun h => by cases h⟩, rfl⟩


theorem read_chunk_err (E : AeadEnv α A k) (r r' : stream_Reader α) (p : Bytes) (l : Bool) (e : Option Go.Err)
    (hr1 : decide (r.unread_hi - r.unread_lo > 0) = false) (hr2 : r.err = none) (hp : (Go.len p == 0) = false)
    (hgo : stream_Reader_readChunk E.over E.open_ r = .ok (l, e, r')) (he : e ≠ none) :
    stream_Reader_Read E.over E.open_ r p = .ok (0, e, { r' with err := e }, p) := by
  have he' : (e != none) = true := by
    cases e with
    | none => exact absurd rfl he
    | some _ => rfl
  simp only [stream_Reader_Read, hr1, Bool.false_eq_true, if_false, hr2, bne_self_eq_false, hp, hgo,
    bind, Except.bind, he', if_true, pure, Except.pure]

/-- the model's `Read` when a chunk has to be read -/
theorem m_read_chunk (m : Reader) (n : Nat) (hu : m.unread = []) (he : m.err = none) (hn : n ≠ 0) :
    m.read A 65536 (2 ^ 88) k n =
      match m.readChunk A 65536 (2 ^ 88) k with
      | (r1, .error e) => ({ r1 with err := some e }, [], some e)
      | (r1, .ok last) =>
        (if last then ({ r1 with unread := r1.unread.drop n } : Reader).probe
          else { r1 with unread := r1.unread.drop n }, r1.unread.take n, none) := by
  unfold Reader.read
  rw [hu, he]
  simp only [List.length_nil, Nat.lt_irrefl, gt_iff_lt, if_false, hn]
  rfl

/-- `Read` when a chunk has to be read -/
theorem read_chunk (E : AeadEnv α A k) (a : α) (data : Bytes) (fail : Bool) (lo hi : Int) (buf : Bytes)
    (err : Option Go.Err) (nc u : Bytes) (ctr taken : Nat) (p : Bytes)
    (h : RRel (⟨a, ⟨data, fail⟩, lo, hi, buf, err, nc⟩ : stream_Reader α) ⟨u, none, ctr, ⟨data, fail⟩, taken⟩)
    (hctr : ctr + 1 < 2 ^ 88) (hpos : ¬ u.length > 0) (hp : p.length ≠ 0) :
    ∃ res, stream_Reader_Read E.over E.open_ ⟨a, ⟨data, fail⟩, lo, hi, buf, err, nc⟩ p = .ok res ∧
      let mr := Reader.read A 65536 (2 ^ 88) k ⟨u, none, ctr, ⟨data, fail⟩, taken⟩ p.length
      res.1 = Int.ofNat mr.2.1.length ∧ rdErrRel res.2.1 mr.2.2 ∧ RRel res.2.2.1 mr.1 ∧
      res.2.2.2 = mr.2.1 ++ p.drop mr.2.1.length := by
  obtain ⟨hbl, hb, hu, hsd, hsf, herr, hnc⟩ := h
  dsimp only at hbl hb hu hsd hsf herr hnc
  obtain ⟨e1, e2⟩ := view_empty buf u lo hi hbl hb hu hpos
  have herr' : err = none := herr
  have hnc' := hnc rfl
  subst e1 e2 herr' hnc'
  have hr1 : decide (hi - hi > 0) = false := by apply decide_eq_false; omega
  have hp' : (Go.len p == 0) = false := by
    simp only [Go.len, Int.ofNat_eq_natCast, beq_eq_false_iff_ne, ne_eq]; omega
  obtain ⟨⟨l, e, r'⟩, hgo, hpost⟩ := readChunk_tie (A := A) (k := k) E a data fail hi buf ctr taken hbl
    ⟨hb.1, hb.2.2⟩ hctr
  rw [m_read_chunk _ _ rfl rfl hp]
  generalize Reader.readChunk A 65536 (2 ^ 88) k ⟨[], none, ctr, ⟨data, fail⟩, taken⟩ = mr at hpost
  obtain ⟨m1, x⟩ := mr
  cases x with
  | error o =>
    obtain ⟨h1, h2, h3⟩ := hpost
    exact ⟨_, read_chunk_err E _ r' p l e hr1 rfl hp' hgo h1, rfl, h2, h3, rfl⟩
  | ok l' =>
    obtain ⟨h1, h2, h3, h4, a', ⟨sd, sf⟩, buf', h5, h6, h7, h8, h9⟩ := hpost
    obtain ⟨mu, me, mc, ⟨md, mf⟩, mt⟩ := m1
    dsimp only at h1 h2 h3 h4 h5 h6 h7 h8 h9
    subst h1 h2 h3 h7 h8 h9
    obtain ⟨res, g1, g2, g3, g4, g5⟩ := read_chunk_ok E _ p l a' sd sf buf' mu mc mt hr1 rfl hp' hgo h5 h6 h4
    refine ⟨res, g1, g2, ?_, ?_, g5⟩
    · rw [g3]; rfl
    · cases l <;> exact g4

theorem reader_new_rel {α : Type} (a : α) (data : Bytes) (fail : Bool) :
    RRel (⟨a, ⟨data, fail⟩, 0, 0, List.replicate 65552 0, none, List.replicate 12 0⟩ : stream_Reader α)
      (Reader.new ⟨data, fail⟩) := by
  refine ⟨List.length_replicate, ⟨Int.le_refl 0, Int.le_refl 0, (by decide : (0 : Int) ≤ 65552)⟩, ?_, rfl, rfl, rfl, fun _ => ?_⟩
  rotate_left
  · show List.replicate 12 (0 : UInt8) = nonce 0 false
    decide
  show [] = ((List.replicate 65552 (0 : UInt8)).take (0 : Int).toNat).drop (0 : Int).toNat
  rw [Int.toNat_zero, List.take_zero, List.drop_zero]

/-- ONE Read: same count, same bytes in the caller's buffer, corresponding error, related states -/
theorem reader_read_tie {α : Type} (A : AEAD) (k : Bytes) (E : AeadEnv α A k)
    (r : stream_Reader α) (m : Reader) (h : RRel r m) (hctr : m.ctr + 1 < 2 ^ 88) (p : Bytes) :
    ∃ res, stream_Reader_Read E.over E.open_ r p = .ok res ∧
      let mr := m.read A 65536 (2 ^ 88) k p.length
      res.1 = Int.ofNat mr.2.1.length ∧
      rdErrRel res.2.1 mr.2.2 ∧
      RRel res.2.2.1 mr.1 ∧
      res.2.2.2 = mr.2.1 ++ p.drop mr.2.1.length := by
  obtain ⟨a, ⟨data, fail⟩, lo, hi, buf, err, nc⟩ := r
  obtain ⟨u, merr, ctr, ⟨md, mf⟩, taken⟩ := m
  have hsd : data = md := h.srcData
  have hsf : fail = mf := h.srcFail
  subst hsd hsf
  by_cases hpos : u.length > 0
  · exact read_unread E a data fail lo hi buf err nc u merr ctr taken p h hpos
  · cases merr with
    | some o => exact read_err E a data fail lo hi buf err nc u o ctr taken p h hpos
    | none =>
      by_cases hp : p.length = 0
      · exact read_empty E a data fail lo hi buf err nc u ctr taken p h hpos hp
      · exact read_chunk E a data fail lo hi buf err nc u ctr taken p h hctr hpos hp

end GoTie
end AgeModel
