/-
  Helper lemmas for the key-file model: the two concrete loop bodies
  (`libLine`, `cliRecipientLine`) in terms of the line parser.
-/
import Proofs.KeyFileLoop
namespace AgeModel
namespace KeyFile

variable {Key : Type}

/-! ## libLine -/

theorem libLine_bad_iff (p : Bytes → Option Key) (l : Bytes) :
    libLine p l = .bad ↔ content l = true ∧ p l = none := by
  unfold libLine content
  cases hi : ignorable l <;> cases hp : p l <;> simp

theorem libLine_key_iff (p : Bytes → Option Key) (l : Bytes) (k : Key) :
    libLine p l = .key k ↔ content l = true ∧ p l = some k := by
  unfold libLine content
  cases hi : ignorable l <;> cases hp : p l <;> simp

theorem libLine_blank_iff (p : Bytes → Option Key) (l : Bytes) :
    libLine p l = .blank ↔ content l = false := by
  unfold libLine content
  cases hi : ignorable l <;> cases hp : p l <;> simp

theorem libLine_ne_tooLong (p : Bytes → Option Key) (l : Bytes) : libLine p l ≠ .tooLong := by
  unfold libLine
  cases hi : ignorable l <;> cases hp : p l <;> simp

theorem libLine_ne_ignored (p : Bytes → Option Key) (l : Bytes) : libLine p l ≠ .ignored := by
  unfold libLine
  cases hi : ignorable l <;> cases hp : p l <;> simp

theorem libLine_fatal_iff (p : Bytes → Option Key) (l : Bytes) :
    fatal (libLine p l) = true ↔ content l = true ∧ p l = none := by
  unfold libLine content
  cases hi : ignorable l <;> cases hp : p l <;> simp [fatal]

theorem libLine_keyOf (p : Bytes → Option Key) (l : Bytes) :
    keyOf (libLine p l) = if content l then p l else none := by
  unfold libLine content
  cases hi : ignorable l <;> cases hp : p l <;> simp [keyOf]

/-- no fatal line and `ks` the collected keys ⇔ the parse results of the content
    lines are exactly `some` of the keys, in order -/
theorem lib_keys_iff (p : Bytes → Option Key) :
    ∀ (ls : List Bytes) (ks : List Key),
    ((∀ l ∈ ls, fatal (libLine p l) = false) ∧ ks = ls.filterMap (fun l => keyOf (libLine p l))) ↔
      (ls.filter content).map p = ks.map some := by
  intro ls
  induction ls with
  | nil =>
    intro ks
    cases ks <;> simp
  | cons l ls ih =>
    intro ks
    cases hc : content l with
    | false =>
      have hnf : fatal (libLine p l) = false := by
        cases hf : fatal (libLine p l) with
        | false => rfl
        | true => have := (libLine_fatal_iff p l).mp hf; simp [hc] at this
      have hk : keyOf (libLine p l) = none := by simp [libLine_keyOf, hc]
      simp only [List.mem_cons, forall_eq_or_imp, hnf, true_and, List.filterMap_cons, hk,
        List.filter_cons, hc]
      exact ih ks
    | true =>
      cases hp : p l with
      | none =>
        have hf : fatal (libLine p l) = true := (libLine_fatal_iff p l).mpr ⟨hc, hp⟩
        simp only [List.mem_cons, forall_eq_or_imp, hf, List.filter_cons, hc, if_true, List.map_cons, hp]
        constructor
        · intro h; exact absurd h.1.1 (by simp)
        · intro h
          cases ks with
          | nil => simp at h
          | cons k ks => simp at h
      | some k =>
        have hnf : fatal (libLine p l) = false := by
          cases hf : fatal (libLine p l) with
          | false => rfl
          | true => have := (libLine_fatal_iff p l).mp hf; simp [hp] at this
        have hk : keyOf (libLine p l) = some k := by simp [libLine_keyOf, hc, hp]
        simp only [List.mem_cons, forall_eq_or_imp, hnf, true_and, List.filterMap_cons, hk,
          List.filter_cons, hc, if_true, List.map_cons, hp]
        cases ks with
        | nil => simp
        | cons k' ks' =>
          simp only [List.cons.injEq, List.map_cons, Option.some.injEq]
          constructor
          · rintro ⟨hall, hk', hks'⟩
            exact ⟨hk'.symm, (ih ks').mp ⟨hall, hks'⟩⟩
          · rintro ⟨hk', h⟩
            have := (ih ks').mpr h
            exact ⟨this.1, hk'.symm, this.2⟩

theorem lib_allfine_iff (p : Bytes → Option Key) (ls : List Bytes) :
    (∀ l ∈ ls, fatal (libLine p l) = false) ↔ (∀ l ∈ ls, content l = true → (p l).isSome = true) := by
  constructor
  · intro h l hl hc
    have := h l hl
    cases hp : p l with
    | some k => rfl
    | none => rw [(libLine_fatal_iff p l).mpr ⟨hc, hp⟩] at this; cases this
  · intro h l hl
    cases hf : fatal (libLine p l) with
    | false => rfl
    | true =>
      obtain ⟨hc, hp⟩ := (libLine_fatal_iff p l).mp hf
      have := h l hl hc
      simp [hp] at this

theorem lib_nokeys_iff (p : Bytes → Option Key) (ls : List Bytes)
    (hfine : ∀ l ∈ ls, fatal (libLine p l) = false) :
    ls.filterMap (fun l => keyOf (libLine p l)) = [] ↔ ∀ l ∈ ls, content l = false := by
  have := (lib_keys_iff p ls (ls.filterMap (fun l => keyOf (libLine p l)))).mp ⟨hfine, rfl⟩
  constructor
  · intro h l hl
    rw [h] at this
    simp only [List.map_nil, List.map_eq_nil_iff, List.filter_eq_nil_iff] at this
    cases hc : content l with
    | false => rfl
    | true => exact absurd hc (this l hl)
  · intro h
    have hf : ls.filter content = [] := by
      simp only [List.filter_eq_nil_iff]
      intro l hl; simp [h l hl]
    rw [hf] at this
    simpa using this.symm

/-! ## cliRecipientLine -/

section cli
variable (p : Bytes → Option Key) (sn : Bytes → Option Bytes) (sv : Bytes → Bool) (lim : Nat)

theorem cli_blank_iff (l : Bytes) : cliRecipientLine p sn sv lim l = .blank ↔ content l = false := by
  unfold cliRecipientLine content
  cases hi : ignorable l <;> by_cases hl : lim < l.length <;> cases hp : p l <;>
    cases hs : skipCond sn sv l <;> simp [hl]

theorem cli_tooLong_iff (l : Bytes) :
    cliRecipientLine p sn sv lim l = .tooLong ↔ content l = true ∧ lim < l.length := by
  unfold cliRecipientLine content
  cases hi : ignorable l <;> by_cases hl : lim < l.length <;> cases hp : p l <;>
    cases hs : skipCond sn sv l <;> simp [hl]

theorem cli_key_iff (l : Bytes) (k : Key) :
    cliRecipientLine p sn sv lim l = .key k ↔ content l = true ∧ l.length ≤ lim ∧ p l = some k := by
  unfold cliRecipientLine content
  cases hi : ignorable l <;> by_cases hl : lim < l.length <;> cases hp : p l <;>
    cases hs : skipCond sn sv l <;> simp [hl] <;> omega

theorem cli_ignored_iff (l : Bytes) :
    cliRecipientLine p sn sv lim l = .ignored ↔
      content l = true ∧ l.length ≤ lim ∧ p l = none ∧ skipCond sn sv l = true := by
  unfold cliRecipientLine content
  cases hi : ignorable l <;> by_cases hl : lim < l.length <;> cases hp : p l <;>
    cases hs : skipCond sn sv l <;> simp [hl] <;> omega

theorem cli_bad_iff (l : Bytes) :
    cliRecipientLine p sn sv lim l = .bad ↔
      content l = true ∧ l.length ≤ lim ∧ p l = none ∧ skipCond sn sv l = false := by
  unfold cliRecipientLine content
  cases hi : ignorable l <;> by_cases hl : lim < l.length <;> cases hp : p l <;>
    cases hs : skipCond sn sv l <;> simp [hl] <;> omega

theorem cli_fatal_false_iff (l : Bytes) :
    fatal (cliRecipientLine p sn sv lim l) = false ↔
      (content l = true → l.length ≤ lim ∧ (p l = none → skipCond sn sv l = true)) := by
  unfold cliRecipientLine content
  cases hi : ignorable l <;> by_cases hl : lim < l.length <;> cases hp : p l <;>
    cases hs : skipCond sn sv l <;> simp [hl, fatal] <;> omega

theorem cli_keyOf (l : Bytes) (h : fatal (cliRecipientLine p sn sv lim l) = false) :
    keyOf (cliRecipientLine p sn sv lim l) = if content l then p l else none := by
  revert h
  unfold cliRecipientLine content
  cases hi : ignorable l <;> by_cases hl : lim < l.length <;> cases hp : p l <;>
    cases hs : skipCond sn sv l <;> simp [hl, fatal, keyOf]

theorem cli_keys (ls : List Bytes) (h : ∀ l ∈ ls, fatal (cliRecipientLine p sn sv lim l) = false) :
    ls.filterMap (fun l => keyOf (cliRecipientLine p sn sv lim l)) = (ls.filter content).filterMap p := by
  induction ls with
  | nil => rfl
  | cons l ls ih =>
    have h1 := cli_keyOf p sn sv lim l (h l (by simp))
    have h2 := ih (fun l' hl' => h l' (by simp [hl']))
    simp only [List.filterMap_cons, h1, h2, List.filter_cons]
    cases hc : content l with
    | false => simp
    | true => cases hp : p l <;> simp [List.filterMap_cons, hp]

end cli

end KeyFile
end AgeModel
