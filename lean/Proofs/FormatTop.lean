/-
  Proofs.FormatTop — the stanza loop and `parse` as a whole.
-/
import Proofs.FormatParse
namespace AgeModel
namespace Format
open B64

/-- the closing line for a MAC -/
def footerLine (mac : Bytes) : Bytes := footerPrefix ++ [sp] ++ encRaw mac ++ [nl]

theorem marshal_eq (h : Header) : marshal h = intro ++ marshalStanzas h.stanzas ++ footerLine h.mac := by
  simp [marshal, marshalNoMAC, footerLine]

theorem marshalStanzas_append : ∀ (a b : List Stanza), marshalStanzas (a ++ b) = marshalStanzas a ++ marshalStanzas b
  | [], b => by simp [marshalStanzas]
  | s :: a, b => by simp [marshalStanzas, marshalStanzas_append a b]

theorem readStanzas_canon : ∀ (fuel : Nat) (r : Bytes) (acc : List Stanza) (h : Header) (rest : Bytes),
    readStanzas fuel r acc = .ok (h, rest) →
    ∃ ss, h.stanzas = acc.reverse ++ ss ∧ (∀ s ∈ ss, s.WF) ∧ h.mac.length = 32 ∧
      r = marshalStanzas ss ++ footerLine h.mac ++ rest := by
  intro fuel
  induction fuel with
  | zero => intro r acc h rest hh; simp [readStanzas] at hh
  | succ fuel ih =>
    intro r acc h rest hh
    unfold readStanzas at hh
    split at hh
    · simp at hh
    · split at hh
      · split at hh
        · simp at hh
        · rename_i mac r' hf
          simp only [Except.ok.injEq, Prod.mk.injEq] at hh
          obtain ⟨rfl, rfl⟩ := hh
          obtain ⟨hr, hm⟩ := readFooter_canon hf
          exact ⟨[], by simp, by simp, hm, by simp [marshalStanzas, footerLine, hr]⟩
      · split at hh
        · simp at hh
        · rename_i s r' hs
          obtain ⟨hr, hwf⟩ := readStanza_canon hs
          obtain ⟨ss, h1, h2, h3, h4⟩ := ih r' (s :: acc) h rest hh
          refine ⟨s :: ss, by simp [h1], ?_, h3, ?_⟩
          · intro x hx
            simp only [List.mem_cons] at hx
            rcases hx with hx | hx
            · subst hx; exact hwf
            · exact h2 x hx
          · rw [hr, h4]; simp [marshalStanzas]

theorem footerLine_take3 (mac rest : Bytes) : (footerLine mac ++ rest).take 3 = footerPrefix ∧ 3 ≤ (footerLine mac ++ rest).length := by
  simp [footerLine, footerPrefix]

theorem readStanzas_marshal : ∀ (ss : List Stanza), (∀ s ∈ ss, s.WF) → ∀ (mac rest : Bytes), mac.length = 32 →
    ∀ (acc : List Stanza) (fuel : Nat), ss.length < fuel →
    readStanzas fuel (marshalStanzas ss ++ footerLine mac ++ rest) acc
      = .ok ({ stanzas := acc.reverse ++ ss, mac := mac }, rest) := by
  intro ss
  induction ss with
  | nil =>
    intro _ mac rest hm acc fuel hf
    match fuel with
    | 0 => omega
    | fuel+1 =>
      unfold readStanzas
      simp only [marshalStanzas, List.nil_append]
      have ⟨h3, hl⟩ := footerLine_take3 mac rest
      have hl' : ¬ (footerLine mac ++ rest).length < 3 := by omega
      simp only [hl', if_false, h3, if_true]
      have : footerLine mac ++ rest = footerPrefix ++ [sp] ++ encRaw mac ++ [nl] ++ rest := by simp [footerLine]
      rw [this, readFooter_marshal mac rest hm]
      simp
  | cons s ss ih =>
    intro hwf mac rest hm acc fuel hf
    match fuel with
    | 0 => simp at hf
    | fuel+1 =>
      unfold readStanzas
      have e : marshalStanzas (s :: ss) ++ footerLine mac ++ rest
          = marshalStanza s ++ (marshalStanzas ss ++ footerLine mac ++ rest) := by simp [marshalStanzas]
      rw [e]
      have ⟨h3, hl⟩ := marshalStanza_take3 s (marshalStanzas ss ++ footerLine mac ++ rest)
      have hl' : ¬ (marshalStanza s ++ (marshalStanzas ss ++ footerLine mac ++ rest)).length < 3 := by omega
      simp only [hl', if_false, h3]
      rw [readStanza_marshal s (hwf s (by simp))]
      simp only
      rw [ih (fun x hx => hwf x (by simp [hx])) mac rest hm (s :: acc) fuel (by simp at hf; omega)]
      simp

theorem marshalStanza_length_pos (s : Stanza) : 0 < (marshalStanza s).length := by
  simp [marshalStanza, stanzaPrefix]

theorem marshalStanzas_length : ∀ ss : List Stanza, ss.length ≤ (marshalStanzas ss).length
  | [] => by simp [marshalStanzas]
  | s :: ss => by
    have := marshalStanzas_length ss
    have := marshalStanza_length_pos s
    simp only [marshalStanzas, List.length_cons, List.length_append]; omega

/-- every accepted byte string is the canonical serialisation of the header it
    denotes, followed by exactly the unread remainder -/
theorem parse_canon {b rest : Bytes} {h : Header} (hp : parse b = .ok (h, rest)) :
    b = marshal h ++ rest ∧ h.WF := by
  unfold parse at hp
  split at hp
  · simp at hp
  · rename_i l r htl
    have ⟨hb, _⟩ := takeLine_eq htl
    split at hp
    · rename_i hi
      obtain ⟨ss, h1, h2, h3, h4⟩ := readStanzas_canon _ _ _ _ _ hp
      simp only [List.reverse_nil, List.nil_append] at h1
      refine ⟨?_, ?_, h3⟩
      · rw [marshal_eq, h1, hb, h4, ← hi]; simp
      · rw [h1]; exact h2
    · simp at hp

theorem intro_split : takeLine intro = some (intro.dropLast, []) := by decide

/-- every well-formed header serialises to bytes that parse back to it, leaving
    exactly what follows as the payload -/
theorem parse_marshal (h : Header) (hwf : h.WF) (rest : Bytes) :
    parse (marshal h ++ rest) = .ok (h, rest) := by
  obtain ⟨hs, hm⟩ := hwf
  unfold parse
  rw [marshal_eq]
  have hi : intro = intro.dropLast ++ [nl] := by decide
  have hnl : nl ∉ intro.dropLast := by decide
  have e : intro ++ marshalStanzas h.stanzas ++ footerLine h.mac ++ rest
      = intro.dropLast ++ nl :: (marshalStanzas h.stanzas ++ footerLine h.mac ++ rest) := by
    conv => lhs; rw [hi]
    simp
  rw [e, takeLine_app _ _ hnl]
  simp only [← hi, if_true]
  have hfuel : h.stanzas.length < (marshalStanzas h.stanzas ++ footerLine h.mac ++ rest).length + 1 := by
    have := marshalStanzas_length h.stanzas
    simp only [List.length_append]; omega
  rw [readStanzas_marshal h.stanzas hs h.mac rest hm [] _ hfuel]
  simp

end Format
end AgeModel
