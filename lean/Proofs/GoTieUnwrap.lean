/-
  Proofs.GoTieUnwrap — `age.multiUnwrap` (age.go), TRANSLATED from the source on every run,
  is the model's `multiUnwrap`: stanzas answering "incorrect identity" are skipped, the first
  other answer decides, nothing left ⇒ exactly `ErrIncorrectIdentity`. (Split from
  GoTieScrypt so that a rewrite of scrypt.go does not touch what rests only on this.)
-/
import AgeModel.GoSem
import AgeModel.Recipients
import AgeModel.Extracted.Funcs
namespace AgeModel
namespace GoTie
open Extracted

/-- a header stanza of the model as the Go value -/
def toGoStanza (s : Format.Stanza) : age_Stanza := ⟨s.type, s.args, s.body⟩

/-- what a Go `(fileKey, err)` pair means to `Decrypt`'s identity loop -/
def resClass (r : Bytes × Option Go.Err) : UnwrapResult :=
  if r.2 = none then .key r.1
  else if r.2 = age_ErrIncorrectIdentity then .incorrect
  else .fatal

/-- `errors.Is` on error values that wrap nothing is equality -/
def errorsIsEq (e t : Option Go.Err) : Go.M Bool := .ok (e == t)


/-! ## multiUnwrap -/

/-- how `multiUnwrap` reads one answer of the per-stanza function -/
def stanzaClass (u : age_Stanza → Go.M (Bytes × Option Go.Err)) (s : age_Stanza) : UnwrapResult :=
  match u s with
  | .ok r => resClass r
  | .error _ => .fatal

theorem multiUnwrap_loop (u : age_Stanza → Go.M (Bytes × Option Go.Err)) (hU : ∀ s, ∃ r, u s = .ok r)
    (ss : List Format.Stanza) :
    ∃ l, age_multiUnwrap_loop1 errorsIsEq u (ss.map toGoStanza) = .ok l ∧
      match l with
      | .next _ => multiUnwrap (fun s => stanzaClass u (toGoStanza s)) ss = .incorrect
      | .ret r => resClass r = multiUnwrap (fun s => stanzaClass u (toGoStanza s)) ss := by
  induction ss with
  | nil => exact ⟨.next (), rfl, rfl⟩
  | cons s ss ih =>
    obtain ⟨r, hr⟩ := hU (toGoStanza s)
    obtain ⟨l, hl, hl'⟩ := ih
    simp only [List.map_cons, age_multiUnwrap_loop1, hr, errorsIsEq, bind, Except.bind, pure, Except.pure, multiUnwrap, stanzaClass]
    by_cases h1 : r.2 = age_ErrIncorrectIdentity
    · have hc : resClass r = .incorrect := by
        simp [resClass, h1, age_ErrIncorrectIdentity]
      simp only [h1, beq_self_eq_true, if_true, hl, hc]
      exact ⟨l, rfl, hl'⟩
    · have hb : (r.2 == age_ErrIncorrectIdentity) = false := by simpa using h1
      simp only [hb, Bool.false_eq_true, if_false]
      by_cases h2 : r.2 = none
      · have hc : resClass r = .key r.1 := by simp [resClass, h2]
        simp only [h2, bne_self_eq_false, Bool.false_eq_true, if_false, hc]
        exact ⟨_, rfl, by simp [resClass]⟩
      · have hc : resClass r = .fatal := by simp [resClass, h1, h2]
        have hb2 : (r.2 != none) = true := by simpa using h2
        simp only [hb2, if_true, hc]
        exact ⟨_, rfl, by simp [resClass, h1, h2]⟩

theorem multiUnwrap_tie (u : age_Stanza → Go.M (Bytes × Option Go.Err)) (hU : ∀ s, ∃ r, u s = .ok r)
    (ss : List Format.Stanza) :
    ∃ r, age_multiUnwrap errorsIsEq u (ss.map toGoStanza) = .ok r ∧
      resClass r = multiUnwrap (fun s => stanzaClass u (toGoStanza s)) ss := by
  obtain ⟨l, hl, hl'⟩ := multiUnwrap_loop u hU ss
  simp only [age_multiUnwrap, hl, bind, Except.bind, pure, Except.pure]
  cases l with
  | next x => cases x; exact ⟨_, rfl, by rw [hl']; simp [resClass, age_ErrIncorrectIdentity]⟩
  | ret r => exact ⟨_, rfl, hl'⟩


end GoTie
end AgeModel
