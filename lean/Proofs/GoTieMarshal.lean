/-
  Proofs.GoTieMarshal — the header serialiser, as it stands in the source.

  `(*Stanza).Marshal`, `(*Header).MarshalWithoutMAC` and `(*Header).Marshal` of
  internal/format/format.go are TRANSLATED on every run. The destination is abstract state with an
  abstract `Write`; the wrapped base64 encoder (`NewWrappedBase64Encoder`, its `Write` and `Close`:
  encoding/base64's streaming encoder calling back into `writeWrapped`, which is translated and tied
  separately in `GoTieWrap`) is an abstract handle whose operations work on the destination it was
  given. `MarshalEnv` says what is assumed: the destination takes every write; creating the
  encoder writes nothing, and writing a body to it and closing it appends the unpadded base64 of the
  body in 64-column lines (`Format.wrap (B64.encRaw body)`). The theorems: what reaches the
  destination is the model's `marshalStanza` / `marshalNoMAC` / `marshal`, byte for byte — the
  functions the canonicity and round-trip theorems of `Props.C07` and the layout theorems of
  `Props.C05` are about.
-/
import AgeModel.GoSem
import AgeModel.Format
import AgeModel.Extracted.Funcs
import Proofs.GoTieLines
namespace AgeModel
namespace GoTie
open Extracted

structure MarshalEnv (δ ε ω : Type) where
  /-- everything written to the destination so far -/
  absD : δ → Bytes
  W : δ → Bytes → Go.M (Int × Option Go.Err × δ)
  hW : ∀ d b, ∃ d', W d b = .ok (Int.ofNat b.length, none, d') ∧ absD d' = absD d ++ b
  b64 : ε
  New : ε → δ → Go.M (ω × δ)
  Wr : ω → Bytes → δ → Go.M (Int × Option Go.Err × ω × δ)
  Cl : ω → δ → Go.M (Option Go.Err × ω × δ)
  hEnc : ∀ d body, ∃ ww0 d0, New b64 d = .ok (ww0, d0) ∧ absD d0 = absD d ∧
          ∃ n ww1 d1, Wr ww0 body d0 = .ok (n, none, ww1, d1) ∧
          ∃ ww2 d2, Cl ww1 d1 = .ok (none, ww2, d2) ∧ absD d2 = absD d ++ Format.wrap (B64.encRaw body)
  Enc : ε → Bytes → Go.M Bytes
  hE : ∀ m, Enc b64 m = .ok (B64.encRaw m)


theorem stanza_marshal_loop1_eq {δ ε ω : Type} (E : MarshalEnv δ ε ω) : ∀ (l : List Bytes) (d : δ),
    ∃ d', format_Stanza_Marshal_loop1 E.W l d = .ok (.next d') ∧
      E.absD d' = E.absD d ++ Format.spaced l
  | [], d => ⟨d, rfl, by simp [Format.spaced]⟩
  | a :: l, d => by
    obtain ⟨d1, h1, ha1⟩ := E.hW d (([32] : List UInt8) ++ a)
    obtain ⟨d2, h2, ha2⟩ := stanza_marshal_loop1_eq E l d1
    refine ⟨d2, ?_, ?_⟩
    · simp only [format_Stanza_Marshal_loop1, h1, bind, Except.bind, none_bne_none,
        Bool.false_eq_true, if_false]
      exact h2
    · rw [ha2, ha1]
      simp [Format.spaced, Format.sp]

theorem stanza_marshal_tie {δ ε ω : Type} (E : MarshalEnv δ ε ω) (s : Format.Stanza) (d : δ) :
    ∃ d', format_Stanza_Marshal E.W E.b64 E.New E.Wr E.Cl (toGoFStanza s) d = .ok (none, d') ∧
      E.absD d' = E.absD d ++ Format.marshalStanza s := by
  obtain ⟨d1, h1, ha1⟩ := E.hW d format_stanzaPrefix
  obtain ⟨d2, h2, ha2⟩ := stanza_marshal_loop1_eq E (s.type :: s.args) d1
  obtain ⟨d3, h3, ha3⟩ := E.hW d2 ([10] : List UInt8)
  obtain ⟨ww0, d4, h4, ha4, n, ww1, d5, h5, ww2, d6, h6, ha6⟩ := E.hEnc d3 s.body
  obtain ⟨d7, h7, ha7⟩ := E.hW d6 ([10] : List UInt8)
  refine ⟨d7, ?_, ?_⟩
  · simp only [format_Stanza_Marshal, toGoFStanza, List.singleton_append, h1, h2, h3, h4, h5, h6, h7,
      bind, Except.bind, pure, Except.pure, none_bne_none, Bool.false_eq_true, if_false]
  · rw [ha7, ha6, ha3, ha2, ha1]
    simp [Format.marshalStanza, Format.stanzaPrefix, format_stanzaPrefix, Format.nl]


theorem header_marshal_loop1_eq {δ ε ω : Type} (E : MarshalEnv δ ε ω) : ∀ (ss : List Format.Stanza) (d : δ),
    ∃ d', format_Header_MarshalWithoutMAC_loop1 E.W E.b64 E.New E.Wr E.Cl (ss.map toGoFStanza) d
        = .ok (.next d') ∧
      E.absD d' = E.absD d ++ Format.marshalStanzas ss
  | [], d => ⟨d, rfl, by simp [Format.marshalStanzas]⟩
  | s :: ss, d => by
    obtain ⟨d1, h1, ha1⟩ := stanza_marshal_tie E s d
    obtain ⟨d2, h2, ha2⟩ := header_marshal_loop1_eq E ss d1
    refine ⟨d2, ?_, ?_⟩
    · simp only [List.map_cons, format_Header_MarshalWithoutMAC_loop1, h1, bind, Except.bind,
        none_bne_none, Bool.false_eq_true, if_false]
      exact h2
    · rw [ha2, ha1]
      simp [Format.marshalStanzas]

theorem header_marshalNoMAC_tie {δ ε ω : Type} (E : MarshalEnv δ ε ω) (h : Format.Header) (d : δ) :
    ∃ d', format_Header_MarshalWithoutMAC E.W E.b64 E.New E.Wr E.Cl ⟨h.stanzas.map toGoFStanza, h.mac⟩ d = .ok (none, d') ∧
      E.absD d' = E.absD d ++ Format.marshalNoMAC h := by
  obtain ⟨d1, h1, ha1⟩ := E.hW d Format.intro
  obtain ⟨d2, h2, ha2⟩ := header_marshal_loop1_eq E h.stanzas d1
  obtain ⟨d3, h3, ha3⟩ := E.hW d2 format_footerPrefix
  refine ⟨d3, ?_, ?_⟩
  · simp only [Format.intro] at h1
    simp only [format_Header_MarshalWithoutMAC, h1, h2, h3,
      bind, Except.bind, pure, Except.pure, none_bne_none, Bool.false_eq_true, if_false]
  · rw [ha3, ha2, ha1]
    simp [Format.marshalNoMAC, Format.footerPrefix, format_footerPrefix]

theorem header_marshal_tie {δ ε ω : Type} (E : MarshalEnv δ ε ω) (h : Format.Header) (d : δ) :
    ∃ d', format_Header_Marshal E.W E.b64 E.New E.Wr E.Cl E.Enc ⟨h.stanzas.map toGoFStanza, h.mac⟩ d = .ok (none, d') ∧
      E.absD d' = E.absD d ++ Format.marshal h := by
  obtain ⟨d1, h1, ha1⟩ := header_marshalNoMAC_tie E h d
  obtain ⟨d2, h2, ha2⟩ := E.hW d1 (([32] : List UInt8) ++ B64.encRaw h.mac ++ ([10] : List UInt8))
  refine ⟨d2, ?_, ?_⟩
  · simp only [format_Header_Marshal, h1, h2, E.hE,
      bind, Except.bind, pure, Except.pure, none_bne_none, Bool.false_eq_true, if_false]
  · rw [ha2, ha1]
    simp [Format.marshal, Format.sp, Format.nl]

end GoTie
end AgeModel
