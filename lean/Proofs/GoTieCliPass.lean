/-
  Proofs.GoTieCliPass — `randomWord` (cmd/age/wordlist.go) and `passphrasePromptForEncryption`
  (cmd/age/age.go), as they stand in the source.

  Translated on every run with crypto/rand as a tape and the terminal (`readSecret`,
  `printfToTerminal`) as abstract state; the word list is a parameter (a table of 2048 entries).
  What the theorems fix: a suggested passphrase is built from EXACTLY the next 20 bytes of the
  random source — ten words, each selected by two fresh bytes (big end first, modulo 2048) —
  joined by `-`, and it is shown on the terminal before it is used; a failing random source is a
  panic, never a weaker passphrase; a typed passphrase is used only when the confirmation equals
  it. `testOnlyFixedRandomWord` is a package-level variable never assigned in non-test code (the
  translator checks this) and so is its zero value.
-/
import AgeModel.GoSem
import AgeModel.File
import AgeModel.Extracted.Funcs
import Proofs.GoTieTape
namespace AgeModel
namespace GoTie
open Extracted

/-- the index two random bytes select: a 16-bit big-endian number modulo 2048 (its low 11 bits) -/
def wordIndex (b0 b1 : UInt8) : Nat := (b0.toNat * 256 + b1.toNat) % 2048

/-- the words selected by a string of random bytes, two bytes a word -/
def wordsOf (W : List Bytes) : Bytes → List Bytes
  | b0 :: b1 :: rest => W.getD (wordIndex b0 b1) [] :: wordsOf W rest
  | _ => []

/-- the suggested passphrase for 20 random bytes -/
def autogen (W : List Bytes) (rnd : Bytes) : Bytes := Go.strings_Join (wordsOf W rnd) [45]

theorem pass_u16_be (b0 b1 : UInt8) :
    ((b0.toUInt16 <<< 8) ||| b1.toUInt16).toNat = b0.toNat * 256 + b1.toNat := by
  rw [UInt16.toNat_or, UInt16.toNat_shiftLeft, UInt8.toNat_toUInt16, UInt8.toNat_toUInt16]
  have h0 := b0.toNat_lt
  have h1 := b1.toNat_lt
  have h8 : (8 : UInt16).toNat % 16 = 8 := by decide
  rw [h8, Nat.shiftLeft_eq, Nat.mod_eq_of_lt (by omega), ← Nat.shiftLeft_eq,
    ← Nat.shiftLeft_add_eq_or_of_lt (by omega), Nat.shiftLeft_eq]

theorem pass_idx_word (W : List Bytes) (hW : W.length = 2048) (b0 b1 : UInt8) :
    Go.idx W (Int.tmod (Int.ofNat ((b0.toUInt16 <<< 8) ||| b1.toUInt16).toNat) (2048 : Int)) =
      .ok (W.getD (wordIndex b0 b1) []) := by
  rw [pass_u16_be]
  have hlt : wordIndex b0 b1 < W.length := by rw [hW]; unfold wordIndex; omega
  have e : Int.tmod (Int.ofNat (b0.toNat * 256 + b1.toNat)) (2048 : Int) = Int.ofNat (wordIndex b0 b1) := by
    unfold wordIndex
    show Int.tmod (Int.ofNat _) (Int.ofNat 2048) = _
    rfl
  rw [e]
  unfold Go.idx
  have : ¬ (Int.ofNat (wordIndex b0 b1) < 0) := Int.not_lt.mpr (Int.natCast_nonneg _)
  rw [if_neg this]
  have e2 : (Int.ofNat (wordIndex b0 b1)).toNat = wordIndex b0 b1 := rfl
  rw [e2, List.getD_eq_getElem?_getD, List.getElem?_eq_getElem hlt]
  rfl

theorem randomWord_ok {τ : Type} (R : τ → Int → Go.M (Bytes × Option Go.Err × τ)) (W : List Bytes)
    (hW : W.length = 2048) (st st' : τ) (b0 b1 : UInt8) (h : R st 2 = .ok ([b0, b1], none, st')) :
    main_randomWord R W st = .ok (W.getD (wordIndex b0 b1) [], st') := by
  have hi := pass_idx_word W hW b0 b1
  unfold main_randomWord
  have h' : R st (Go.len ([0, 0] : List UInt8)) = .ok ([b0, b1], none, st') := h
  have hw : Go.writeAt [0, 0] 0 [b0, b1] = [b0, b1] := rfl
  have hb : Go.binary_BigEndian_Uint16 [b0, b1] = .ok ((b0.toUInt16 <<< 8) ||| b1.toUInt16) := rfl
  have hm : Go.makeList (0 : UInt8) 2 = .ok [0, 0] := rfl
  simp only [main_testOnlyFixedRandomWord, hm, bind, Except.bind, pure, Except.pure]
  simp only [h', hw, hb, hi, bne_self_eq_false, Bool.false_eq_true, if_false]

theorem randomWord_err {τ : Type} (R : τ → Int → Go.M (Bytes × Option Go.Err × τ)) (W : List Bytes)
    (st st' : τ) (b : Bytes) (e : Go.Err) (h : R st 2 = .ok (b, some e, st')) :
    main_randomWord R W st = .error (Go.Fault.panic 0) := by
  unfold main_randomWord
  have h' : R st (Go.len ([0, 0] : List UInt8)) = .ok (b, some e, st') := h
  have hm : Go.makeList (0 : UInt8) 2 = .ok [0, 0] := rfl
  simp only [main_testOnlyFixedRandomWord, hm, bind, Except.bind, pure, Except.pure]
  simp [h', throw, throwThe, MonadExceptOf.throw]

theorem pass_draw2_cons (b0 b1 : UInt8) (t : Bytes) : draw 2 (b0 :: b1 :: t) = some ([b0, b1], t) := by
  simp [draw]

theorem pass_draw2_short (tape : Bytes) (h : tape.length < 2) : draw 2 tape = none := by
  unfold draw; rw [if_neg (by omega)]

/-- `randomWord`: the word selected by the next two bytes of the tape; an exhausted tape is a panic -/
theorem randomWord_tie (eRand : Go.Err) (W : List Bytes) (hW : W.length = 2048) (tape : Bytes) :
    main_randomWord (tapeRead eRand) W tape =
      match draw 2 tape with
      | none => .error (Go.Fault.panic 0)
      | some (b, t) => .ok ((wordsOf W b).headD [], t) := by
  match tape with
  | [] =>
    rw [pass_draw2_short [] (by decide)]
    exact randomWord_err _ W _ _ _ eRand (tapeRead_none eRand (n := 2) (pass_draw2_short [] (by decide)))
  | [x] =>
    rw [pass_draw2_short [x] (by simp)]
    exact randomWord_err _ W _ _ _ eRand (tapeRead_none eRand (n := 2) (pass_draw2_short [x] (by simp)))
  | b0 :: b1 :: t =>
    rw [pass_draw2_cons]
    exact randomWord_ok _ W hW _ _ b0 b1 (tapeRead_some eRand (n := 2) (pass_draw2_cons b0 b1 t))

/-- the state the prompt works on: the random tape and the terminal -/
abbrev PromptSt (σ : Type) := Bytes × σ

def liftRead {σ : Type} (eRand : Go.Err) : PromptSt σ → Int → Go.M (Bytes × Option Go.Err × PromptSt σ) :=
  fun st n => match tapeRead eRand st.1 n with
    | .ok (b, e, t) => .ok (b, e, (t, st.2))
    | .error f => .error f

def liftSecret {σ : Type} (S : Bytes → σ → Go.M (Bytes × Option Go.Err × σ)) :
    Bytes → PromptSt σ → Go.M (Bytes × Option Go.Err × PromptSt σ) :=
  fun p st => match S p st.2 with
    | .ok (b, e, s) => .ok (b, e, (st.1, s))
    | .error f => .error f

def liftPrint {σ : Type} (Pr : Bytes → Bytes → σ → Go.M (Option Go.Err × σ)) :
    Bytes → Bytes → PromptSt σ → Go.M (Option Go.Err × PromptSt σ) :=
  fun f a st => match Pr f a st.2 with
    | .ok (e, s) => .ok (e, (st.1, s))
    | .error f => .error f

def promptEnter : Bytes := "Enter passphrase (leave empty to autogenerate a secure one):".toUTF8.toList
def promptConfirm : Bytes := "Confirm passphrase:".toUTF8.toList
def promptUsing : Bytes := "using autogenerated passphrase %q".toUTF8.toList

def promptErr (k : Nat) : Option Go.Err := some ⟨"main.passphrasePromptForEncryption", k, []⟩

/-- the whole prompt, as a function of what the terminal answers -/
def promptModel {σ : Type} (S : Bytes → σ → Go.M (Bytes × Option Go.Err × σ))
    (Pr : Bytes → Bytes → σ → Go.M (Option Go.Err × σ)) (W : List Bytes) (tape : Bytes) (s0 : σ) :
    Go.M (Bytes × Option Go.Err × PromptSt σ) :=
  match S promptEnter s0 with
  | .error f => .error f
  | .ok (_, some _, s1) => .ok ([], promptErr 0, (tape, s1))
  | .ok (pass, none, s1) =>
    if pass = [] then
      match draw 20 tape with
      | none => .error (Go.Fault.panic 0)
      | some (rnd, t) =>
        match Pr promptUsing (autogen W rnd) s1 with
        | .error f => .error f
        | .ok (some _, s2) => .ok ([], promptErr 1, (t, s2))
        | .ok (none, s2) => .ok (autogen W rnd, none, (t, s2))
    else
      match S promptConfirm s1 with
      | .error f => .error f
      | .ok (_, some _, s2) => .ok ([], promptErr 2, (tape, s2))
      | .ok (confirm, none, s2) =>
        if confirm = pass then .ok (pass, none, (tape, s2)) else .ok ([], promptErr 3, (tape, s2))

theorem pass_liftRead_cons {σ : Type} (eRand : Go.Err) (b0 b1 : UInt8) (t : Bytes) (s : σ) :
    liftRead eRand (b0 :: b1 :: t, s) 2 = .ok ([b0, b1], none, (t, s)) := by
  have h := tapeRead_some eRand (n := 2) (pass_draw2_cons b0 b1 t)
  show (match tapeRead eRand (b0 :: b1 :: t) (Int.ofNat 2) with
    | .ok (b, e, t) => Except.ok (b, e, (t, s))
    | .error f => .error f) = _
  rw [h]

theorem pass_liftRead_short {σ : Type} (eRand : Go.Err) (tape : Bytes) (h : tape.length < 2) (s : σ) :
    liftRead eRand (tape, s) 2 = .ok ([], some eRand, (tape, s)) := by
  have h := tapeRead_none eRand (n := 2) (pass_draw2_short tape h)
  show (match tapeRead eRand tape (Int.ofNat 2) with
    | .ok (b, e, t) => Except.ok (b, e, (t, s))
    | .error f => .error f) = _
  rw [h]

theorem pass_draw_step (n : Nat) (b0 b1 : UInt8) (t : Bytes) :
    draw (2 * (n + 1)) (b0 :: b1 :: t) =
      match draw (2 * n) t with
      | none => none
      | some (r, t') => some (b0 :: b1 :: r, t') := by
  unfold draw
  rw [Nat.mul_succ]
  simp only [List.length_cons, List.take_succ_cons, List.drop_succ_cons]
  by_cases h : 2 * n ≤ t.length
  · rw [if_pos h, if_pos (by omega)]
  · rw [if_neg h, if_neg (by omega)]

theorem pass_draw_step_short (n : Nat) (tape : Bytes) (h : tape.length < 2) :
    draw (2 * (n + 1)) tape = none := by
  unfold draw; rw [if_neg (by omega)]

theorem pass_loop1_eq {σ : Type} (eRand : Go.Err) (W : List Bytes) (hW : W.length = 2048) (s : σ) :
    ∀ (is : List Int) (tape : Bytes) (words : List Bytes),
    main_passphrasePromptForEncryption_loop1 (liftRead eRand) W is (tape, s) words =
      match draw (2 * is.length) tape with
      | none => .error (Go.Fault.panic 0)
      | some (rnd, t) => .ok (.next ((t, s), words ++ wordsOf W rnd)) := by
  intro is
  induction is with
  | nil =>
    intro tape words
    have : draw (2 * ([] : List Int).length) tape = some ([], tape) := by simp [draw]
    rw [this]
    simp [main_passphrasePromptForEncryption_loop1, wordsOf, pure, Except.pure]
  | cons i rest ih =>
    intro tape words
    unfold main_passphrasePromptForEncryption_loop1
    rw [List.length_cons]
    simp only [bind, Except.bind]
    match tape with
    | [] =>
      rw [pass_draw_step_short _ [] (by decide),
        randomWord_err _ W _ _ _ eRand (pass_liftRead_short eRand [] (by decide) s)]
    | [x] =>
      rw [pass_draw_step_short _ [x] (by simp),
        randomWord_err _ W _ _ _ eRand (pass_liftRead_short eRand [x] (by simp) s)]
    | b0 :: b1 :: t =>
      rw [pass_draw_step, randomWord_ok _ W hW _ _ b0 b1 (pass_liftRead_cons eRand b0 b1 t s)]
      simp only []
      rw [ih]
      cases draw (2 * rest.length) t with
      | none => rfl
      | some p =>
        obtain ⟨r, t'⟩ := p
        simp [wordsOf]

theorem pass_lit_enter : ([69, 110, 116, 101, 114, 32, 112, 97, 115, 115, 112, 104, 114, 97, 115, 101, 32, 40, 108, 101, 97, 118, 101, 32, 101, 109, 112, 116, 121, 32, 116, 111, 32, 97, 117, 116, 111, 103, 101, 110, 101, 114, 97, 116, 101, 32, 97, 32, 115, 101, 99, 117, 114, 101, 32, 111, 110, 101, 41, 58] : List UInt8) = promptEnter := by
  decide +kernel
theorem pass_lit_confirm : ([67, 111, 110, 102, 105, 114, 109, 32, 112, 97, 115, 115, 112, 104, 114, 97, 115, 101, 58] : List UInt8) = promptConfirm := by
  decide +kernel
theorem pass_lit_using : ([117, 115, 105, 110, 103, 32, 97, 117, 116, 111, 103, 101, 110, 101, 114, 97, 116, 101, 100, 32, 112, 97, 115, 115, 112, 104, 114, 97, 115, 101, 32, 37, 113] : List UInt8) = promptUsing := by
  decide +kernel

theorem pass_range10 : Go.rangeUp 0 10 = [0, 1, 2, 3, 4, 5, 6, 7, 8, 9] := by decide

theorem prompt_tie {σ : Type} (eRand : Go.Err) (S : Bytes → σ → Go.M (Bytes × Option Go.Err × σ))
    (Pr : Bytes → Bytes → σ → Go.M (Option Go.Err × σ)) (W : List Bytes) (hW : W.length = 2048)
    (tape : Bytes) (s0 : σ) :
    main_passphrasePromptForEncryption (liftSecret S) (liftRead eRand) W (liftPrint Pr) (tape, s0) =
      promptModel S Pr W tape s0 := by
  unfold main_passphrasePromptForEncryption promptModel
  rw [pass_lit_enter, pass_lit_confirm, pass_lit_using, pass_range10]
  simp only [bind, Except.bind, pure, Except.pure, liftSecret]
  cases hS : S promptEnter s0 with
  | error f => rfl
  | ok v =>
    obtain ⟨pass, e, s1⟩ := v
    cases e with
    | some e => simp [promptErr]
    | none =>
      simp only []
      by_cases hp : pass = []
      · subst hp
        simp only [pass_loop1_eq eRand W hW, List.length_cons, List.length_nil]
        have h20 : 2 * (0 + 1 + 1 + 1 + 1 + 1 + 1 + 1 + 1 + 1 + 1) = 20 := rfl
        rw [h20]
        simp only [bne_self_eq_false, Bool.false_eq_true, if_false, BEq.rfl, if_true, List.nil_append]
        cases draw 20 tape with
        | none => rfl
        | some p =>
          obtain ⟨rnd, t⟩ := p
          simp only [liftPrint, autogen]
          cases Pr promptUsing (Go.strings_Join (wordsOf W rnd) [45]) s1 with
          | error f => rfl
          | ok v =>
            obtain ⟨e, s2⟩ := v
            cases e with
            | none => rfl
            | some e => rfl
      · simp [hp]
        cases S promptConfirm s1 with
        | error f => rfl
        | ok v =>
          obtain ⟨c, e, s2⟩ := v
          cases e with
          | none => simp [promptErr]
          | some e => simp [promptErr]

theorem pass_split_dash : ∀ (a a' x y : Bytes), (45 : UInt8) ∉ a → (45 : UInt8) ∉ a' →
    a ++ 45 :: x = a' ++ 45 :: y → a = a' ∧ x = y
  | [], [], x, y, _, _, h => by
    simp only [List.nil_append, List.cons.injEq, true_and] at h
    exact ⟨rfl, h⟩
  | [], c :: a', x, y, _, h2, h => by
    simp only [List.nil_append, List.cons_append, List.cons.injEq] at h
    exact absurd (h.1 ▸ List.mem_cons_self) h2
  | c :: a, [], x, y, h1, _, h => by
    simp only [List.nil_append, List.cons_append, List.cons.injEq] at h
    exact absurd (h.1 ▸ List.mem_cons_self) h1
  | c :: a, c' :: a', x, y, h1, h2, h => by
    simp only [List.cons_append, List.cons.injEq] at h
    have := pass_split_dash a a' x y (fun m => h1 (List.mem_cons_of_mem _ m))
      (fun m => h2 (List.mem_cons_of_mem _ m)) h.2
    exact ⟨by rw [h.1, this.1], this.2⟩

theorem pass_join_cons2 (a b : Bytes) (r : List Bytes) :
    Go.strings_Join (a :: b :: r) [45] = a ++ 45 :: Go.strings_Join (b :: r) [45] := by
  simp [Go.strings_Join]

theorem pass_join_inj : ∀ (ws ws' : List Bytes), ws.length = ws'.length →
    (∀ w ∈ ws, (45 : UInt8) ∉ w) → (∀ w ∈ ws', (45 : UInt8) ∉ w) →
    Go.strings_Join ws [45] = Go.strings_Join ws' [45] → ws = ws'
  | [], [], _, _, _, _ => rfl
  | [], _ :: _, hl, _, _, _ => by simp at hl
  | _ :: _, [], hl, _, _, _ => by simp at hl
  | [a], [a'], _, _, _, h => by
    simp only [Go.strings_Join] at h
    rw [h]
  | [a], _ :: _ :: _, hl, _, _, _ => by simp at hl
  | _ :: _ :: _, [a'], hl, _, _, _ => by simp at hl
  | a :: b :: r, a' :: b' :: r', hl, h1, h2, h => by
    rw [pass_join_cons2, pass_join_cons2] at h
    have hs := pass_split_dash a a' _ _ (h1 a List.mem_cons_self) (h2 a' List.mem_cons_self) h
    have := pass_join_inj (b :: r) (b' :: r') (by simpa using hl)
      (fun w m => h1 w (List.mem_cons_of_mem _ m)) (fun w m => h2 w (List.mem_cons_of_mem _ m)) hs.2
    rw [hs.1, this]

theorem pass_getD_mem (W : List Bytes) (hW : W.length = 2048) (b0 b1 : UInt8) :
    W.getD (wordIndex b0 b1) [] ∈ W := by
  have hlt : wordIndex b0 b1 < W.length := by rw [hW]; unfold wordIndex; omega
  rw [List.getD_eq_getElem?_getD, List.getElem?_eq_getElem hlt]
  exact List.getElem_mem hlt

theorem wordsOf_mem (W : List Bytes) (hW : W.length = 2048) :
    ∀ (r : Bytes) (w : Bytes), w ∈ wordsOf W r → w ∈ W
  | [], _, h => by simp [wordsOf] at h
  | [_], _, h => by simp [wordsOf] at h
  | b0 :: b1 :: rest, w, h => by
    simp only [wordsOf, List.mem_cons] at h
    rcases h with h | h
    · rw [h]; exact pass_getD_mem W hW b0 b1
    · exact wordsOf_mem W hW rest w h

theorem wordsOf_length (W : List Bytes) : ∀ (r : Bytes), (wordsOf W r).length = r.length / 2
  | [] => rfl
  | [_] => by simp [wordsOf]
  | b0 :: b1 :: rest => by
    simp only [wordsOf, List.length_cons, wordsOf_length W rest]
    omega

/-- nothing of the passphrase is lost between the random bytes and the text: when the table has no
    repeated word and no word contains `-`, the suggested passphrase determines the ten indices (110 bits) -/
theorem autogen_injective (W : List Bytes) (hW : W.length = 2048) (hnd : W.Nodup) (hdash : ∀ w ∈ W, (45 : UInt8) ∉ w)
    (r1 r2 : Bytes) (h1 : r1.length = 20) (h2 : r2.length = 20) (h : autogen W r1 = autogen W r2) :
    (wordsOf W r1) = (wordsOf W r2) := by
  have _ := hnd
  apply pass_join_inj
  · rw [wordsOf_length, wordsOf_length, h1, h2]
  · exact fun w m => hdash w (wordsOf_mem W hW r1 w m)
  · exact fun w m => hdash w (wordsOf_mem W hW r2 w m)
  · exact h

end GoTie
end AgeModel
