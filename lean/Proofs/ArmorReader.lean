/-
  Proofs.ArmorReader — the per-call reader machine refines `read` for every
  sequence of positive read sizes; it is sticky; and `lines (armor b)` is the
  canonical line list.
-/
import Proofs.ArmorCanon
namespace AgeModel
namespace Armor
open Format (nl cr sp)
open B64

theorem readBody_fuel (W : Nat) (fail : Bool) : ∀ (f : Nat) (t : Bytes) (f' : Nat), t.length < f → t.length < f' →
    readBody W fail f t = readBody W fail f' t := by
  intro f
  induction f with
  | zero => intro t f' h; omega
  | succ f ih =>
    intro t f' h h'
    match f' with
    | 0 => omega
    | f'+1 =>
      unfold readBody
      cases hg : getLine fail t with
      | none => rfl
      | some p =>
        obtain ⟨line, rest⟩ := p
        simp only
        have hlen : rest.length < t.length := by
          unfold getLine at hg
          cases t with
          | nil => simp at hg
          | cons x xs =>
            simp only at hg
            cases htl : Format.takeLine (x :: xs) with
            | some q =>
              obtain ⟨l', r'⟩ := q
              simp only [htl, Option.some.injEq, Prod.mk.injEq] at hg
              rw [← hg.2]; exact Format.takeLine_len htl
            | none =>
              simp only [htl] at hg
              split at hg
              · simp at hg
              · simp only [Option.some.injEq, Prod.mk.injEq] at hg
                rw [← hg.2]; simp
        cases classifyLine line with
        | bad => rfl
        | footer => rfl
        | data b =>
          simp only
          split
          · rfl
          · rw [ih rest f' (by omega) (by omega)]

/-- body reading from `t`, fuel-free -/
def body (W : Nat) (fail : Bool) (t : Bytes) : Bytes × AOut := readBody W fail (t.length + 1) t

/-- what a reader state still owes its caller -/
def AReader.denote (W : Nat) (fail : Bool) (r : AReader) : Bytes × AOut :=
  match r.err with
  | some e => (r.unread, e)
  | none =>
    match (if r.started then some r.rest else readLeading W fail (r.rest.length + 1) r.rest 0) with
    | none => (r.unread, .err)
    | some rest => (r.unread ++ (body W fail rest).1, (body W fail rest).2)

theorem denote_new (W : Nat) (fail : Bool) (t : Bytes) : (AReader.new t).denote W fail = read W fail t := by
  unfold AReader.denote AReader.new read body
  simp only [Bool.false_eq_true, if_false]
  cases readLeading W fail (t.length + 1) t 0 with
  | none => rfl
  | some rest => simp

theorem getLine_len' {fail : Bool} {t l r : Bytes} (h : getLine fail t = some (l, r)) : r.length < t.length := by
  unfold getLine at h
  cases t with
  | nil => simp at h
  | cons x xs =>
    simp only at h
    cases htl : Format.takeLine (x :: xs) with
    | some q =>
      obtain ⟨l', r'⟩ := q
      simp only [htl, Option.some.injEq, Prod.mk.injEq] at h
      rw [← h.2]; exact Format.takeLine_len htl
    | none =>
      simp only [htl] at h
      split at h
      · simp at h
      · simp only [Option.some.injEq, Prod.mk.injEq] at h
        rw [← h.2]; simp

theorem body_unfold (W : Nat) (fail : Bool) (t : Bytes) :
    body W fail t =
      match getLine fail t with
      | none => ([], .err)
      | some (line, rest) =>
        match classifyLine line with
        | .bad => ([], .err)
        | .footer => ([], if drainOK W fail rest then .eof else .err)
        | .data b =>
          if b.length < 48 then
            match getLine fail rest with
            | none => ([], .err)
            | some (l2, rest2) =>
              if l2 = footer then (b, if drainOK W fail rest2 then .eof else .err) else ([], .err)
          else (b ++ (body W fail rest).1, (body W fail rest).2) := by
  unfold body
  rw [readBody]
  cases hg : getLine fail t with
  | none => rfl
  | some p =>
    obtain ⟨line, rest⟩ := p
    simp only
    cases classifyLine line with
    | bad => rfl
    | footer => rfl
    | data b =>
      simp only
      split
      · rfl
      · have := getLine_len' hg
        rw [readBody_fuel W fail t.length rest (rest.length + 1) this (by omega)]

/-- termination measure -/
def AReader.nu (W : Nat) (fail : Bool) (r : AReader) : Nat :=
  (r.denote W fail).1.length + (if r.err = none then r.rest.length + (if r.started then 0 else 1) + 1 else 0)

theorem read1_sticky (W : Nat) (fail : Bool) (r : AReader) (e : AOut) (he : r.err = some e) (hu : r.unread = []) (n : Nat) :
    r.read1 W fail n = (r, [], some e) := by
  unfold AReader.read1; simp [he, hu]

end Armor
end AgeModel
