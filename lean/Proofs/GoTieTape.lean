/-
  Proofs.GoTieTape — crypto/rand as a tape of bytes: `tapeRead`, and two small facts used wherever a
  freshly made buffer is filled from it (no translated function involved).
-/
import AgeModel.GoSem
import AgeModel.File
namespace AgeModel
namespace GoTie

/-- `rand.Read` on a tape of bytes: the next `n` bytes, or an error when the tape is exhausted -/
def tapeRead (eRand : Go.Err) (tape : Bytes) (n : Int) : Go.M (Bytes × Option Go.Err × Bytes) :=
  match draw n.toNat tape with
  | some (b, t) => .ok (b, none, t)
  | none => .ok ([], some eRand, tape)

theorem writeAt16 (b : Bytes) (h : b.length = 16) : Go.writeAt (List.replicate 16 0) 0 b = b := by
  simp [Go.writeAt, h]

theorem draw_length {n : Nat} {t b t' : Bytes} (h : draw n t = some (b, t')) : b.length = n := by
  unfold draw at h
  split at h
  · cases h; simp only [List.length_take]; omega
  · cases h

theorem tapeRead_none (eRand : Go.Err) {tape : Bytes} {n : Nat} (h : draw n tape = none) :
    tapeRead eRand tape (Int.ofNat n) = .ok ([], some eRand, tape) := by
  show (match draw n tape with
    | some (b, t) => Except.ok (b, none, t)
    | none => Except.ok ([], some eRand, tape)) = _
  simp only [h]

theorem tapeRead_some (eRand : Go.Err) {tape b t : Bytes} {n : Nat} (h : draw n tape = some (b, t)) :
    tapeRead eRand tape (Int.ofNat n) = .ok (b, none, t) := by
  show (match draw n tape with
    | some (b, t) => Except.ok (b, none, t)
    | none => Except.ok ([], some eRand, tape)) = _
  simp only [h]


end GoTie
end AgeModel
