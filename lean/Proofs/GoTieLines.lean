/-
  Proofs.GoTieLines — lines and stanza values: `bufio.Reader.ReadBytes('\n')` as GoSem has it is the
  model's `Format.takeLine`; the Go stanza value of a model stanza; what is assumed of
  `format.DecodeString` (no translated function involved, so that a rewrite of the header parser
  does not take down the ties of the armor reader or of the serialiser).
-/
import AgeModel.GoSem
import AgeModel.Format
import AgeModel.Extracted.Funcs
namespace AgeModel
namespace GoTie
open Extracted

def toGoFStanza (s : Format.Stanza) : format_Stanza := ⟨s.type, s.args, s.body⟩

/-- what is assumed of `format.DecodeString` -/
def DecodeIsModel (D : Bytes → Go.M (Bytes × Option Go.Err)) (eD : Go.Err) : Prop :=
  ∀ a, D a = .ok (match Format.decodeString a with
                   | some b => (b, none)
                   | none => ([], some eD))

/-! ### helper lemmas -/

theorem cutAfter_takeLine : ∀ rd : Bytes,
    Go.cutAfter 10 rd = (Format.takeLine rd).map (fun p => (p.1 ++ [10], p.2))
  | [] => rfl
  | c :: cs => by
    have ih := cutAfter_takeLine cs
    by_cases hc : c = 10
    · subst hc; rfl
    · simp only [Go.cutAfter, Format.takeLine, Format.nl, hc, if_false, ih]
      cases Format.takeLine cs with
      | none => rfl
      | some p => rfl

theorem readBytes_some (rd l rest : Bytes) (h : Format.takeLine rd = some (l, rest)) :
    Go.bufio_ReadBytes rd 10 = (l ++ [Format.nl], none, rest) := by
  simp only [Go.bufio_ReadBytes, cutAfter_takeLine, h, Option.map]; rfl

theorem readBytes_none (rd : Bytes) (h : Format.takeLine rd = none) :
    Go.bufio_ReadBytes rd 10 = (rd, Go.ioEOF, []) := by
  simp only [Go.bufio_ReadBytes, cutAfter_takeLine, h, Option.map]

theorem takeLine_length : ∀ (rd l rest : Bytes), Format.takeLine rd = some (l, rest) → rest.length < rd.length
  | [], _, _, h => by simp [Format.takeLine] at h
  | c :: cs, l, rest, h => by
    by_cases hc : c = Format.nl
    · simp only [Format.takeLine, hc, if_true, Option.some.injEq, Prod.mk.injEq] at h
      rw [← h.2, List.length_cons]; omega
    · simp only [Format.takeLine, hc, if_false] at h
      cases h' : Format.takeLine cs with
      | none => rw [h'] at h; cases h
      | some p =>
        obtain ⟨l', r'⟩ := p
        rw [h'] at h
        simp only [Option.some.injEq, Prod.mk.injEq] at h
        have := takeLine_length cs l' r' h'
        rw [← h.2, List.length_cons]; omega


theorem none_bne_none : ((none : Option Go.Err) != none) = false := by
  simp

theorem trimSuffix_nl (l : Bytes) : Go.strings_TrimSuffix (l ++ [Format.nl]) [10] = l := by
  have : ([10] : List UInt8).isSuffixOf (l ++ [Format.nl]) = true := by
    simp [Format.nl]
  simp only [Go.strings_TrimSuffix, this, if_true, List.length_append, List.length_cons,
    List.length_nil, Nat.add_sub_cancel, List.take_left']

theorem some_bne_none (e : Go.Err) : ((some e : Option Go.Err) != none) = true := by
  simp

end GoTie
end AgeModel
