/-
  Proofs.FileLabels — what the label check in Encrypt's recipient loop enforces.
-/
import Proofs.FileEncrypt
namespace AgeModel
open Format Stream

/-- once a label list has been fixed by the first recipient, every further
    recipient must have wrapped successfully and declared the same sorted labels -/
theorem wrapAll_labels_some (P : Prims) (fk : Bytes) :
    ∀ (rs : List Recipient) (i : Nat) (tape : Bytes) (acc : List Stanza) (l0 : List Bytes)
      (st : List Stanza) (t' : Bytes), wrapAll P fk rs i tape acc (some l0) = .ok (st, t') →
      ∀ r ∈ rs, ∃ tp ss l t, wrapOne P r fk tp = .ok (some (ss, l), t) ∧ sortLabels l = l0 := by
  intro rs
  induction rs with
  | nil => intro i tape acc l0 st t' _ r hr; simp at hr
  | cons r rs ih =>
    intro i tape acc l0 st t' h r' hr'
    unfold wrapAll at h
    split at h
    · simp at h
    · simp at h
    · rename_i ss l tape' hw
      simp only at h
      split at h
      · rename_i heq
        simp only [List.mem_cons] at hr'
        rcases hr' with rfl | hr'
        · exact ⟨tape, ss, l, tape', hw, heq.symm⟩
        · exact ih _ _ _ _ _ _ h r' hr'
      · simp at h

/-- the whole loop: all recipients wrapped successfully and all sorted label lists are equal -/
theorem wrapAll_labels_none (P : Prims) (fk : Bytes) (r : Recipient) (rs : List Recipient) (i : Nat) (tape : Bytes)
    (acc st : List Stanza) (t' : Bytes)
    (h : wrapAll P fk (r :: rs) i tape acc none = .ok (st, t')) :
    ∃ ss l t1, wrapOne P r fk tape = .ok (some (ss, l), t1) ∧
      ∀ r' ∈ rs, ∃ tp ss' l' t, wrapOne P r' fk tp = .ok (some (ss', l'), t) ∧ sortLabels l' = sortLabels l := by
  unfold wrapAll at h
  split at h
  · simp at h
  · simp at h
  · rename_i ss l tape' hw
    simp only at h
    exact ⟨ss, l, tape', hw, wrapAll_labels_some P fk rs _ _ _ _ _ _ h⟩

/-- labels of the native recipients -/
theorem wrapOne_labels_x25519 (P : Prims) (pub fk tape : Bytes) (ss : List Stanza) (l : List Bytes) (t : Bytes)
    (h : wrapOne P (.x25519 pub) fk tape = .ok (some (ss, l), t)) : l = [] := by
  unfold wrapOne at h
  simp only at h
  split at h
  · simp at h
  · simp only [Except.ok.injEq, Prod.mk.injEq] at h
    obtain ⟨h1, _⟩ := h
    simp at h1
    obtain ⟨a, _, _, hl⟩ := h1
    exact hl

theorem wrapOne_labels_sshEd (P : Prims) (w m fk tape : Bytes) (ss : List Stanza) (l : List Bytes) (t : Bytes)
    (h : wrapOne P (.sshEd w m) fk tape = .ok (some (ss, l), t)) : l = [] := by
  unfold wrapOne at h
  simp only at h
  split at h
  · simp at h
  · simp only [Except.ok.injEq, Prod.mk.injEq] at h
    obtain ⟨h1, _⟩ := h
    simp at h1
    obtain ⟨a, _, _, hl⟩ := h1
    exact hl

theorem wrapOne_labels_sshRsa (P : Prims) (w p fk tape : Bytes) (ss : List Stanza) (l : List Bytes) (t : Bytes)
    (h : wrapOne P (.sshRsa w p) fk tape = .ok (some (ss, l), t)) : l = [] := by
  unfold wrapOne at h
  simp only at h
  split at h
  · simp at h
  · simp only [Except.ok.injEq, Prod.mk.injEq] at h
    obtain ⟨h1, _⟩ := h
    simp at h1
    obtain ⟨a, _, _, hl⟩ := h1
    exact hl

/-- a passphrase recipient declares exactly one label: the hex of 16 freshly drawn bytes -/
theorem wrapOne_labels_scrypt (P : Prims) (pw : Bytes) (n : Nat) (fk tape : Bytes) (ss : List Stanza) (l : List Bytes) (t : Bytes)
    (h : wrapOne P (.scrypt pw n) fk tape = .ok (some (ss, l), t)) :
    ∃ salt lab, tape = salt ++ lab ++ t ∧ salt.length = 16 ∧ lab.length = 16 ∧ l = [hexLower lab] := by
  unfold wrapOne at h
  simp only at h
  split at h
  · simp at h
  · rename_i salt t1 hd
    split at h
    · simp at h
    · rename_i lab t2 hd2
      simp only [Except.ok.injEq, Prod.mk.injEq, Option.some.injEq] at h
      obtain ⟨⟨_, rfl⟩, rfl⟩ := h
      have h1 := draw_spec hd
      have h2 := draw_spec hd2
      exact ⟨salt, lab, by rw [h1.2, h2.2]; simp, h1.1, h2.1, rfl⟩

theorem sortLabels_singleton (x : Bytes) : sortLabels [x] = [x] := rfl
theorem sortLabels_nil : sortLabels [] = [] := rfl

theorem hexLower_length (b : Bytes) : (hexLower b).length = 2 * b.length := by
  induction b with
  | nil => rfl
  | cons x xs ih => simp only [hexLower, List.flatMap_cons, List.length_append, List.length_cons, List.length_nil] at ih ⊢; omega

end AgeModel
