/-
  Proofs.StreamFault — a failing source never yields a clean end of stream, and what
  is released before the failure is a prefix of what the complete input yields.
-/
import Proofs.StreamReaderTop
namespace AgeModel
namespace Stream

theorem decFrom_fail_ne_eof (A : AEAD) (C : Nat) (k : Bytes) :
    ∀ (fuel i : Nat) (c : Bytes), (decFrom A C k true i c fuel).2 ≠ .eof := by
  intro fuel
  induction fuel with
  | zero => intro i c; simp [decFrom]
  | succ fuel ih =>
    intro i c
    unfold decFrom
    simp only [if_true]
    split
    · simp
    · split
      · exact ih _ _
      · split
        · split <;> simp
        · simp

theorem decFrom_fail_prefix (A : AEAD) (C : Nat) (hE : 0 < C + A.T) (k : Bytes) :
    ∀ (fuel i : Nat) (c : Bytes) (L : Nat), c.length < fuel →
      (decFrom A C k true i (c.take L) fuel).1 <+: (decFrom A C k false i c fuel).1 := by
  intro fuel
  induction fuel with
  | zero => intro i c L h; omega
  | succ fuel ih =>
    intro i c L hf
    rw [decFrom]
    simp only [if_true]
    by_cases hshort : (c.take L).length < C + A.T
    · simp only [hshort, if_true]
      exact List.nil_prefix
    · simp only [hshort, if_false]
      have hL : C + A.T ≤ L := by
        rw [List.length_take] at hshort; omega
      have hcl : C + A.T ≤ c.length := by
        rw [List.length_take] at hshort; omega
      have htake : (c.take L).take (C + A.T) = c.take (C + A.T) := by
        rw [List.take_take]; congr 1; omega
      have hdrop : (c.take L).drop (C + A.T) = (c.drop (C + A.T)).take (L - (C + A.T)) := by
        rw [List.drop_take]
      rw [htake, hdrop]
      conv => rhs; rw [decFrom]
      have hns : ¬ c.length < C + A.T := by omega
      simp only [hns, if_false]
      cases hop : A.openF k (nonce i false) (c.take (C + A.T)) with
      | some p =>
        simp only
        have := ih (i+1) (c.drop (C + A.T)) (L - (C + A.T)) (by rw [List.length_drop]; omega)
        exact List.prefix_append_right_inj p |>.mpr this
      | none =>
        simp only
        cases hop2 : A.openF k (nonce i true) (c.take (C + A.T)) with
        | none => simp
        | some p =>
          simp only
          split <;> split <;> simp

theorem dec_fail_ne_eof (A : AEAD) (C : Nat) (k : Bytes) (i : Nat) (c : Bytes) : (dec A C k true i c).2 ≠ .eof :=
  decFrom_fail_ne_eof A C k _ i c

theorem dec_fail_prefix (A : AEAD) (C : Nat) (hE : 0 < C + A.T) (k : Bytes) (i : Nat) (c : Bytes) (L : Nat) :
    (dec A C k true i (c.take L)).1 <+: (dec A C k false i c).1 := by
  unfold dec
  have h1 := decFrom_fail_prefix A C hE k (c.length + 1) i c L (by omega)
  have hl : (c.take L).length ≤ c.length := by rw [List.length_take]; omega
  rw [decFrom_fuel A C hE k true ((c.take L).length + 1) i (c.take L) (c.length + 1) (by omega) (by omega)]
  exact h1

end Stream
end AgeModel
