/-
  Proofs.ArmorReaderTop — per-call refinement of the armored reader machine.
-/
import Proofs.ArmorReader
namespace AgeModel
namespace Armor
open Format (nl cr sp)

theorem readLeading_len (W : Nat) (fail : Bool) : ∀ (fuel : Nat) (t : Bytes) (removed : Nat) (rest : Bytes),
    readLeading W fail fuel t removed = some rest → rest.length < t.length := by
  intro fuel
  induction fuel with
  | zero => intro t removed rest h; simp [readLeading] at h
  | succ fuel ih =>
    intro t removed rest h
    unfold readLeading at h
    cases hg : getLine fail t with
    | none => simp [hg] at h
    | some p =>
      obtain ⟨line, r⟩ := p
      simp only [hg] at h
      have hl := getLine_len' hg
      split at h
      · split at h
        · simp at h
        · have := ih r _ rest h; omega
      · split at h
        · simp only [Option.some.injEq] at h; subst h; exact hl
        · simp at h

theorem read1_spec (W : Nat) (fail : Bool) (r : AReader) (n : Nat) (hn : 0 < n) :
    match r.read1 W fail n with
    | (r', out, none) =>
        r.denote W fail = (out ++ (r'.denote W fail).1, (r'.denote W fail).2) ∧ r'.nu W fail < r.nu W fail
    | (r', out, some e) => out = [] ∧ r.denote W fail = ([], e) ∧ r'.err = some e ∧ r'.unread = [] := by
  unfold AReader.read1
  by_cases hu : r.unread.length > 0
  · simp only [hu, if_true]
    have hdl : (r.unread.drop n).length < r.unread.length := by rw [List.length_drop]; omega
    constructor
    · unfold AReader.denote
      simp only
      cases r.err with
      | some e => simp
      | none =>
        simp only
        cases (if r.started = true then some r.rest else readLeading W fail (r.rest.length + 1) r.rest 0) with
        | none => simp
        | some rest => simp only; rw [← List.append_assoc, List.take_append_drop]
    · unfold AReader.nu AReader.denote
      simp only
      cases r.err with
      | some e => simp only; simpa using hdl
      | none =>
        simp only [if_true]
        cases (if r.started = true then some r.rest else readLeading W fail (r.rest.length + 1) r.rest 0) with
        | none => simp only; omega
        | some rest => simp only [List.length_append]; omega
  · have hu0 : r.unread = [] := List.eq_nil_of_length_eq_zero (by omega)
    simp only [hu, if_false]
    cases he : r.err with
    | some e =>
      simp only
      exact ⟨by first | rfl | trivial, by unfold AReader.denote; simp [he, hu0], he, hu0⟩
    | none =>
      simp only
      cases hlead : (if r.started = true then some r.rest else readLeading W fail (r.rest.length + 1) r.rest 0) with
      | none =>
        simp only
        refine ⟨by first | rfl | trivial, ?_, by first | rfl | trivial, hu0⟩
        unfold AReader.denote; simp only [he, hlead, hu0]
      | some rest =>
        simp only
        have hden : r.denote W fail = ((body W fail rest).1, (body W fail rest).2) := by
          unfold AReader.denote; simp only [he, hlead, hu0, List.nil_append]
        have hrestlen : rest.length + (if r.started then 0 else 1) ≤ r.rest.length := by
          by_cases hs : r.started = true
          · simp only [hs, if_true, Option.some.injEq] at hlead; subst hlead; simp [hs]
          · have hs' : r.started = false := (Bool.not_eq_true _).mp hs
            simp only [hs', Bool.false_eq_true, if_false] at hlead
            have := readLeading_len W fail _ _ _ _ hlead
            simp [hs']; omega
        rw [hden, body_unfold]
        cases hg : getLine fail rest with
        | none =>
          simp only
          exact ⟨by first | rfl | trivial, by first | rfl | trivial, by first | rfl | trivial, hu0⟩
        | some p =>
          obtain ⟨line, rest1⟩ := p
          simp only
          have hl1 := getLine_len' hg
          cases hc : classifyLine line with
          | bad =>
            simp only
            exact ⟨by first | rfl | trivial, by first | rfl | trivial, by first | rfl | trivial, hu0⟩
          | footer =>
            simp only
            exact ⟨by first | rfl | trivial, by first | rfl | trivial, by first | rfl | trivial, hu0⟩
          | data b =>
            simp only
            by_cases hshort : b.length < 48
            · simp only [hshort, if_true]
              cases hg2 : getLine fail rest1 with
              | none =>
                simp only
                exact ⟨by first | rfl | trivial, by first | rfl | trivial, by first | rfl | trivial, hu0⟩
              | some p2 =>
                obtain ⟨l2, rest2⟩ := p2
                simp only
                by_cases hf : l2 = footer
                · simp only [hf, if_true]
                  constructor
                  · unfold AReader.denote; simp
                  · unfold AReader.nu AReader.denote
                    simp only [he, hlead, hu0, List.nil_append, if_true]
                    rw [body_unfold, hg]
                    simp only [hc, hshort, if_true, hg2, hf]
                    simp only [List.length_drop, reduceCtorEq, if_false]
                    omega
                · simp only [hf, if_false]
                  exact ⟨by first | rfl | trivial, by first | rfl | trivial, by first | rfl | trivial, hu0⟩
            · simp only [hshort, if_false]
              constructor
              · unfold AReader.denote
                simp only [if_true]
                rw [← List.append_assoc, List.take_append_drop]
              · unfold AReader.nu AReader.denote
                simp only [he, hlead, hu0, List.nil_append, if_true]
                rw [body_unfold W fail rest, hg]
                simp only [hc, hshort, if_false, List.length_append, List.length_drop]
                omega

theorem adrain_spec (W : Nat) (fail : Bool) : ∀ (sizes : List Nat) (r : AReader), (∀ s ∈ sizes, 0 < s) →
    match r.drain W fail sizes with
    | (r', out, none) =>
        r.denote W fail = (out ++ (r'.denote W fail).1, (r'.denote W fail).2) ∧ r'.nu W fail + sizes.length ≤ r.nu W fail
    | (r', out, some e) => r.denote W fail = (out, e) ∧ r'.err = some e ∧ r'.unread = [] := by
  intro sizes
  induction sizes with
  | nil => intro r _; simp [AReader.drain]
  | cons n ns ih =>
    intro r hpos
    unfold AReader.drain
    have hrs := read1_spec W fail r n (hpos n (by simp))
    generalize hrd : r.read1 W fail n = res at hrs
    obtain ⟨r1, out, e⟩ := res
    cases e with
    | some e =>
      simp only at hrs ⊢
      obtain ⟨h1, h2, h3, h4⟩ := hrs
      subst h1
      exact ⟨h2, h3, h4⟩
    | none =>
      simp only at hrs ⊢
      obtain ⟨h1, h3⟩ := hrs
      have ih' := ih r1 (fun s hs => hpos s (by simp [hs]))
      generalize hdr : r1.drain W fail ns = res2 at ih'
      obtain ⟨r2, out2, e2⟩ := res2
      cases e2 with
      | some e2 =>
        simp only at ih' ⊢
        obtain ⟨g1, g2, g3⟩ := ih'
        exact ⟨by rw [h1, g1], g2, g3⟩
      | none =>
        simp only at ih' ⊢
        obtain ⟨g1, g2⟩ := ih'
        exact ⟨by rw [h1, g1]; simp, by simp only [List.length_cons]; omega⟩

end Armor
end AgeModel
