/-
  Helper lemmas for the key-file model: the scanner.
-/
import AgeModel.KeyFile
namespace AgeModel
namespace KeyFile

/-! ## rawLines -/

theorem rawLinesAux_noNL (l : Bytes) : ∀ cur : Bytes, 10 ∉ l →
    rawLinesAux cur l = if cur.reverse ++ l = [] then [] else [cur.reverse ++ l] := by
  induction l with
  | nil => intro cur _; simp [rawLinesAux]
  | cons c cs ih =>
    intro cur h
    have hc : c ≠ 10 := fun e => h (by simp [e])
    have hcs : 10 ∉ cs := fun e => h (by simp [e])
    simp only [rawLinesAux, hc, if_false]
    rw [ih _ hcs]
    simp

theorem rawLinesAux_line (l : Bytes) : ∀ (cur rest : Bytes), 10 ∉ l →
    rawLinesAux cur (l ++ 10 :: rest) = (cur.reverse ++ l) :: rawLinesAux [] rest := by
  induction l with
  | nil => intro cur rest _; simp [rawLinesAux]
  | cons c cs ih =>
    intro cur rest h
    have hc : c ≠ 10 := fun e => h (by simp [e])
    have hcs : 10 ∉ cs := fun e => h (by simp [e])
    simp only [List.cons_append, rawLinesAux, hc, if_false]
    rw [ih _ _ hcs]
    simp

theorem rawLines_line (l rest : Bytes) (h : 10 ∉ l) :
    rawLines (l ++ 10 :: rest) = l :: rawLines rest := by
  simpa [rawLines] using rawLinesAux_line l [] rest h

theorem rawLines_noNL (l : Bytes) (h : 10 ∉ l) : rawLines l = if l = [] then [] else [l] := by
  unfold rawLines
  rw [rawLinesAux_noNL l [] h]
  by_cases hl : l = [] <;> simp [hl]

theorem rawLines_joinLF (ls : List Bytes) (tail : Bytes) (h : ∀ l ∈ ls, 10 ∉ l) :
    rawLines (joinLF ls ++ tail) = ls ++ rawLines tail := by
  induction ls with
  | nil => simp [joinLF]
  | cons l ls ih =>
    have h1 : 10 ∉ l := h l (by simp)
    have h2 : ∀ l' ∈ ls, 10 ∉ l' := fun l' hl' => h l' (by simp [hl'])
    have : joinLF (l :: ls) ++ tail = l ++ 10 :: (joinLF ls ++ tail) := by simp [joinLF]
    rw [this, rawLines_line _ _ h1, ih h2]
    simp

theorem rawLines_joinCRLF (ls : List Bytes) (tail : Bytes) (h : ∀ l ∈ ls, 10 ∉ l) :
    rawLines (joinCRLF ls ++ tail) = ls.map (· ++ [13]) ++ rawLines tail := by
  induction ls with
  | nil => simp [joinCRLF]
  | cons l ls ih =>
    have h1 : 10 ∉ l ++ [13] := by
      intro hm
      rcases List.mem_append.mp hm with hm | hm
      · exact h l (by simp) hm
      · simp at hm
    have h2 : ∀ l' ∈ ls, 10 ∉ l' := fun l' hl' => h l' (by simp [hl'])
    have : joinCRLF (l :: ls) ++ tail = (l ++ [13]) ++ 10 :: (joinCRLF ls ++ tail) := by simp [joinCRLF]
    rw [this, rawLines_line _ _ h1, ih h2]
    simp

/-! ## dropCR -/

theorem dropCR_snoc (l : Bytes) : dropCR (l ++ [13]) = l := by
  simp [dropCR]

theorem dropCR_id (l : Bytes) (h : l.getLast? ≠ some 13) : dropCR l = l := by
  simp [dropCR, h]

/-! ## scanFrom -/

theorem scanFrom_short (maxTok : Nat) (rs : List Bytes) (h : ∀ r ∈ rs, r.length < maxTok) :
    scanFrom maxTok rs = ⟨rs.map dropCR, false⟩ := by
  induction rs with
  | nil => rfl
  | cons r rs ih =>
    have h1 : ¬ maxTok ≤ r.length := by have := h r (by simp); omega
    have h2 := ih (fun r' hr' => h r' (by simp [hr']))
    simp [scanFrom, h1, h2]

theorem scanFrom_long (maxTok : Nat) (pre : List Bytes) (r : Bytes) (post : List Bytes)
    (h : ∀ r ∈ pre, r.length < maxTok) (hr : maxTok ≤ r.length) :
    scanFrom maxTok (pre ++ r :: post) = ⟨pre.map dropCR, true⟩ := by
  induction pre with
  | nil => simp [scanFrom, hr]
  | cons p pre ih =>
    have h1 : ¬ maxTok ≤ p.length := by have := h p (by simp); omega
    have h2 := ih (fun r' hr' => h r' (by simp [hr']))
    simp [scanFrom, h1, h2]

theorem map_dropCR_id (ls : List Bytes) (h : ∀ l ∈ ls, l.getLast? ≠ some 13) : ls.map dropCR = ls := by
  induction ls with
  | nil => rfl
  | cons l ls ih =>
    simp only [List.map_cons]
    rw [dropCR_id l (h l (by simp)), ih (fun l' hl' => h l' (by simp [hl']))]

theorem map_dropCR_snoc (ls : List Bytes) : (ls.map (· ++ [13])).map dropCR = ls := by
  induction ls with
  | nil => rfl
  | cons l ls ih => simp only [List.map_cons, dropCR_snoc, ih]

end KeyFile
end AgeModel
