/-
  Proofs.FormatParse — the header parser accepts exactly the canonical
  serialisations: `parse b = ok (h, rest) → b = marshal h ++ rest` and, for
  well-formed `h`, `parse (marshal h ++ rest) = ok (h, rest)`.
-/
import Proofs.FormatLines
namespace AgeModel
namespace Format
open B64

theorem nl_toNat : nl.toNat = 10 := rfl
theorem cr_toNat : cr.toNat = 13 := rfl
theorem sp_toNat : sp.toNat = 32 := rfl

theorem decodeString_enc (b : Bytes) : decodeString (encRaw b) = some b := by
  unfold decodeString
  have h1 : nl ∉ encRaw b := encRaw_not_mem b nl (Or.inl nl_toNat)
  have h2 : cr ∉ encRaw b := encRaw_not_mem b cr (Or.inr (Or.inl cr_toNat))
  have : (encRaw b).any (fun c => c = nl || c = cr) = false := by
    rw [List.any_eq_false]
    intro x hx
    simp only [Bool.or_eq_true, decide_eq_true_eq, not_or]
    exact ⟨fun e => h1 (e ▸ hx), fun e => h2 (e ▸ hx)⟩
  rw [this]
  simp [decRaw_encRaw]

theorem decodeString_canon {s b : Bytes} (h : decodeString s = some b) : s = encRaw b := by
  unfold decodeString at h
  split at h
  · simp at h
  · exact encRaw_decRaw s b h

theorem enc48 {d : Bytes} (h : d.length = 48) : (encRaw d).length = 64 := by
  rw [encRaw_length, h]

theorem encShort {d : Bytes} (h : d.length < 48) : (encRaw d).length < 64 := by
  rw [encRaw_length]; omega

theorem enc_nl (d : Bytes) : nl ∉ encRaw d := encRaw_not_mem d nl (Or.inl nl_toNat)
theorem enc_sp (d : Bytes) : sp ∉ encRaw d := encRaw_not_mem d sp (Or.inr (Or.inr (Or.inl sp_toNat)))

/-! ### body lines -/

theorem readBody_canon : ∀ (fuel : Nat) (r acc body r' : Bytes),
    readBody fuel r acc = .ok (body, r') →
    ∃ d, body = acc ++ d ∧ r = wrap (encRaw d) ++ nl :: r' := by
  intro fuel
  induction fuel with
  | zero => intro r acc body r' h; simp [readBody] at h
  | succ fuel ih =>
    intro r acc body r' h
    unfold readBody at h
    split at h
    · simp at h
    · rename_i l r1 htl
      have ⟨hr, _⟩ := takeLine_eq htl
      split at h
      · simp at h
      · rename_i d hd
        have hl := decodeString_canon hd
        split at h
        · simp at h
        · split at h
          · rename_i hnot hlt
            simp only [Except.ok.injEq, Prod.mk.injEq] at h
            obtain ⟨rfl, rfl⟩ := h
            refine ⟨d, rfl, ?_⟩
            rw [wrap_short (encShort hlt), ← hl, hr]
          · rename_i hnot hnlt
            have h48 : d.length = 48 := by omega
            obtain ⟨d', hb, hr1⟩ := ih r1 (acc ++ d) body r' h
            refine ⟨d ++ d', by rw [hb, List.append_assoc], ?_⟩
            rw [encRaw_append d d' (by omega), wrap_app64 (enc48 h48), ← hl, hr, hr1]
            simp

theorem readBody_wrap : ∀ (n : Nat) (d : Bytes), d.length < 48 * (n + 1) → ∀ (fuel : Nat) (acc r' : Bytes),
    n < fuel → readBody fuel (wrap (encRaw d) ++ nl :: r') acc = .ok (acc ++ d, r') := by
  intro n
  induction n with
  | zero =>
    intro d hd fuel acc r' hf
    match fuel with
    | 0 => omega
    | fuel+1 =>
    have hd' : d.length < 48 := by omega
    unfold readBody
    rw [wrap_short (encShort hd'), takeLine_app _ _ (enc_nl d)]
    simp only [decodeString_enc]
    have : ¬ d.length > 48 := by omega
    simp [this, hd']
  | succ n ih =>
    intro d hd fuel acc r' hf
    match fuel with
    | 0 => omega
    | fuel+1 =>
    by_cases hlt : d.length < 48
    · unfold readBody
      rw [wrap_short (encShort hlt), takeLine_app _ _ (enc_nl d)]
      simp only [decodeString_enc]
      have : ¬ d.length > 48 := by omega
      simp [this, hlt]
    · have hsplit : d = d.take 48 ++ d.drop 48 := (List.take_append_drop 48 d).symm
      have ht : (d.take 48).length = 48 := by rw [List.length_take]; omega
      have hdl : (d.drop 48).length < 48 * (n + 1) := by rw [List.length_drop]; omega
      rw [hsplit, encRaw_append _ _ (by omega), wrap_app64 (enc48 ht)]
      unfold readBody
      rw [List.append_assoc, List.cons_append, takeLine_app _ _ (enc_nl _)]
      simp only [decodeString_enc]
      have h1 : ¬ (d.take 48).length > 48 := by omega
      have h2 : ¬ (d.take 48).length < 48 := by omega
      simp only [h1, h2, if_false]
      rw [ih (d.drop 48) hdl fuel (acc ++ d.take 48) r' (by omega)]
      simp

theorem wrap_length_ge (cs : Bytes) : cs.length ≤ (wrap cs).length := by
  induction h : cs.length using Nat.strongRecOn generalizing cs with
  | _ n ih =>
    by_cases hlt : cs.length < 64
    · rw [wrap_short hlt]; omega
    · rw [wrap]; simp only [hlt, dite_false, List.length_append, List.length_cons, List.length_take]
      have := ih (cs.drop 64).length (by rw [List.length_drop]; omega) (cs.drop 64) rfl
      rw [List.length_drop] at this
      omega

/-! ### one stanza -/

theorem readStanza_canon {r r' : Bytes} {s : Stanza} (h : readStanza r = .ok (s, r')) :
    r = marshalStanza s ++ r' ∧ s.WF := by
  unfold readStanza at h
  split at h
  · simp at h
  · rename_i l r1 htl
    have ⟨hr, hnl⟩ := takeLine_eq htl
    split at h
    · rename_i pre t args hsp
      split at h
      · rename_i hcond
        obtain ⟨hpre, hall⟩ := hcond
        split at h
        · simp at h
        · rename_i body r2 hbody
          simp only [Except.ok.injEq, Prod.mk.injEq] at h
          obtain ⟨rfl, rfl⟩ := h
          obtain ⟨d, hd, hr1⟩ := readBody_canon _ _ _ _ _ hbody
          simp only [List.nil_append] at hd
          subst hd
          have hjoin := joinSp_splitSp l
          rw [hsp, hpre, ← prefix_spaced] at hjoin
          simp only [List.all_cons, Bool.and_eq_true, List.all_eq_true] at hall
          refine ⟨?_, hall.1, hall.2⟩
          unfold marshalStanza
          simp only
          rw [hr, hr1, hjoin]
          simp
      · simp at h
    · simp at h

theorem readStanza_marshal (s : Stanza) (hs : s.WF) (r' : Bytes) :
    readStanza (marshalStanza s ++ r') = .ok (s, r') := by
  obtain ⟨ht, ha⟩ := hs
  unfold readStanza marshalStanza
  have hparts : ∀ p ∈ (stanzaPrefix :: s.type :: s.args), sp ∉ p ∧ nl ∉ p := by
    intro p hp
    simp only [List.mem_cons] at hp
    rcases hp with hp | hp | hp
    · subst hp; decide
    · subst hp; exact ⟨(validString_props ht).2.1, (validString_props ht).2.2⟩
    · exact ⟨(validString_props (ha p hp)).2.1, (validString_props (ha p hp)).2.2⟩
  have hline : nl ∉ stanzaPrefix ++ spaced (s.type :: s.args) := by
    rw [prefix_spaced]
    exact joinSp_no_nl _ (fun p hp => (hparts p hp).2)
  have e : stanzaPrefix ++ spaced (s.type :: s.args) ++ [nl] ++ wrap (encRaw s.body) ++ [nl] ++ r'
      = (stanzaPrefix ++ spaced (s.type :: s.args)) ++ nl :: (wrap (encRaw s.body) ++ nl :: r') := by simp
  rw [e, takeLine_app _ _ hline]
  simp only
  rw [prefix_spaced, splitSp_joinSp _ (by simp) (fun p hp => (hparts p hp).1)]
  simp only
  have hall : (s.type :: s.args).all validString = true := by
    simp only [List.all_cons, Bool.and_eq_true, List.all_eq_true]
    exact ⟨ht, ha⟩
  simp only [hall, and_self, if_true]
  have hfuel : s.body.length / 48 < (wrap (encRaw s.body) ++ nl :: r').length + 1 := by
    have h1 := wrap_length_ge (encRaw s.body)
    have h2 := encRaw_length s.body
    simp only [List.length_append, List.length_cons]
    omega
  rw [readBody_wrap (s.body.length / 48) s.body (by omega) _ [] r' hfuel]
  simp

/-- the first three bytes of a marshalled stanza are `"-> "`, never `"---"` -/
theorem marshalStanza_take3 (s : Stanza) (r' : Bytes) :
    (marshalStanza s ++ r').take 3 ≠ footerPrefix ∧ 3 ≤ (marshalStanza s ++ r').length := by
  unfold marshalStanza
  simp only [spaced, stanzaPrefix]
  constructor
  · intro h
    have := congrArg (fun l => l[1]?) h
    simp [footerPrefix] at this
  · simp only [List.length_append, List.length_cons]
    omega

/-! ### the closing line -/

theorem readFooter_canon {r r' mac : Bytes} (h : readFooter r = .ok (mac, r')) :
    r = footerPrefix ++ [sp] ++ encRaw mac ++ [nl] ++ r' ∧ mac.length = 32 := by
  unfold readFooter at h
  split at h
  · simp at h
  · rename_i l r1 htl
    have ⟨hr, _⟩ := takeLine_eq htl
    split at h
    · rename_i pre m hsp
      split at h
      · rename_i hpre
        split at h
        · rename_i mac' hdec
          split at h
          · rename_i hlen
            simp only [Except.ok.injEq, Prod.mk.injEq] at h
            obtain ⟨rfl, rfl⟩ := h
            have hm := decodeString_canon hdec
            have hjoin := joinSp_splitSp l
            rw [hsp, hpre, hm] at hjoin
            simp only [joinSp] at hjoin
            refine ⟨?_, hlen⟩
            rw [hr, ← hjoin]; simp
          · simp at h
        · simp at h
      · simp at h
    · simp at h

theorem readFooter_marshal (mac r' : Bytes) (hm : mac.length = 32) :
    readFooter (footerPrefix ++ [sp] ++ encRaw mac ++ [nl] ++ r') = .ok (mac, r') := by
  unfold readFooter
  have hfp : sp ∉ footerPrefix ∧ nl ∉ footerPrefix := by decide
  have hline : nl ∉ footerPrefix ++ sp :: encRaw mac := by
    simp only [List.mem_append, List.mem_cons, not_or]
    exact ⟨hfp.2, by decide, enc_nl mac⟩
  have e : footerPrefix ++ [sp] ++ encRaw mac ++ [nl] ++ r' = (footerPrefix ++ sp :: encRaw mac) ++ nl :: r' := by simp
  rw [e, takeLine_app _ _ hline]
  simp only
  rw [splitSp_app _ _ hfp.1, splitSp_nosp _ (enc_sp mac)]
  simp only [if_true, decodeString_enc, hm]

end Format
end AgeModel
