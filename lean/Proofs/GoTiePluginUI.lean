/-
  Proofs.GoTiePluginUI — `(*ClientUI).handle` (plugin/client.go), as it stands in the source.

  Translated on every run: the `switch` on the command (`msg`, `request-secret` / `request-public`,
  `confirm`, anything else), the nil tests of the three callbacks (fields that may be nil: `Option`
  in the translation; calling a nil callback would panic and the theorem shows it is not reached),
  the argument-count and base64 checks of `confirm`, and which reply is written for which outcome.
  `writeStanza` / `writeStanzaWithBody` append one stanza to the transcript (as in `PluginEnv`),
  `format.DecodeString` is the model's `dec`. For callbacks WITHOUT hidden state — given as pure
  functions — `handle_tie` says the translated `handle` is the model's `UI.handle`: same reply
  (`ok` / `fail` / `ok` with the value / `ok yes|no`), same fatal cases, `(false, nil)` with nothing
  written for an unknown command. (Callbacks with state are what the abstract `Hd` of `PluginEnv`
  stands for in the client ties; their sequencing is exercised by the correspondence.)
-/
import Proofs.GoTiePluginBase
namespace AgeModel
namespace GoTie
open Extracted Plugin

/-- the callbacks, as pure functions: shown? / the value or failure / the choice or failure -/
structure PureUI where
  display : Option (Bytes → Bool)
  request : Option (Bytes → Bool → Option Bytes)
  confirm : Option (Bytes → Bytes → Bytes → Option Bool)

def PureUI.model (u : PureUI) : UI Unit where
  display := u.display.map fun f _ b => ((), f b)
  request := u.request.map fun f _ b s => ((), f b s)
  confirm := u.confirm.map fun f _ b y n => ((), f b y n)

def PureUI.go (u : PureUI) (eU : Go.Err) : plugin_ClientUI where
  DisplayMessage := u.display.map fun f _ m => .ok (if f m then none else some eU)
  RequestValue := u.request.map fun f _ m s => .ok (match f m s with | some v => (v, none) | none => ([], some eU))
  Confirm := u.confirm.map fun f _ m y n => .ok (match f m y n with | some c => (c, none) | none => (false, some eU))
  WaitTimer := none

structure UIEnv (χ : Type) where
  absC : χ → List Plugin.Stanza
  W : χ → Bytes → List Bytes → Go.M (Option Go.Err × χ)
  hW : ∀ c (t : String) (args : List String), ∃ c', W c (bs t) (args.map bs) = .ok (none, c') ∧ absC c' = absC c ++ [⟨t, args, []⟩]
  WB : χ → Bytes → Bytes → Go.M (Option Go.Err × χ)
  hWB : ∀ c (t : String) (body : Bytes), ∃ c', WB c (bs t) body = .ok (none, c') ∧ absC c' = absC c ++ [⟨t, [], body⟩]
  dec : String → Option Bytes
  D : Bytes → Go.M (Bytes × Option Go.Err)
  eD : Go.Err
  hD : ∀ y, D (bs y) = .ok (match dec y with | some b => (b, none) | none => ([], some eD))


/-! helper lemmas (own namespace, as in the sibling files) -/
namespace PluginUI

variable {χ : Type}

theorem lit_msg : ([109, 115, 103] : List UInt8) = bs "msg" := by decide +kernel
theorem lit_rsec : ([114, 101, 113, 117, 101, 115, 116, 45, 115, 101, 99, 114, 101, 116] : List UInt8) = bs "request-secret" := by decide +kernel
theorem lit_rpub : ([114, 101, 113, 117, 101, 115, 116, 45, 112, 117, 98, 108, 105, 99] : List UInt8) = bs "request-public" := by decide +kernel
theorem lit_confirm : ([99, 111, 110, 102, 105, 114, 109] : List UInt8) = bs "confirm" := by decide +kernel
theorem lit_fail : ([102, 97, 105, 108] : List UInt8) = bs "fail" := by decide +kernel
theorem lit_ok : ([111, 107] : List UInt8) = bs "ok" := by decide +kernel
theorem lit_yes : ([121, 101, 115] : List UInt8) = bs "yes" := by decide +kernel
theorem lit_no : ([110, 111] : List UInt8) = bs "no" := by decide +kernel

theorem bs_beq_true {a b : String} (h : a = b) : (bs a == bs b) = true := by
  subst h; simp
theorem bs_beq_false {a b : String} (h : a ≠ b) : (bs a == bs b) = false := by
  have : bs a ≠ bs b := fun h' => h (bs_inj.mp h')
  simp [this]
theorem bs_beq_decide (a b : String) : (bs a == bs b) = decide (a = b) := by
  by_cases h : a = b
  · rw [bs_beq_true h]; simp [h]
  · rw [bs_beq_false h]; simp [h]

theorem len_eq {α} (l : List α) : Go.len l = (l.length : Int) := rfl
theorem idx0 {α} (a : α) (l : List α) : Go.idx (a :: l) 0 = .ok a := rfl
theorem idx1 {α} (a b : α) (l : List α) : Go.idx (a :: b :: l) 1 = .ok b := rfl

abbrev uSite (k : Nat) : Go.Err := ⟨"plugin.(*ClientUI).handle", k, []⟩

section go
variable (E : UIEnv χ) (c : plugin_ClientUI) (name : Bytes) (conn c' : χ) (m : Plugin.Stanza)

/-! ### `msg` -/

theorem go_msg_nil
    (h1 : (bs m.type == bs "msg") = true) (hc : c.DisplayMessage = none)
    (hW : E.W conn (bs "fail") [] = .ok (none, c')) :
    plugin_ClientUI_handle E.W E.WB E.D c name conn (goFS m) = .ok (true, none, c') := by
  simp only [plugin_ClientUI_handle, goFS, lit_msg, lit_fail, h1, hc, hW, bind, Except.bind, pure, Except.pure]
  simp

theorem go_msg_fail (g) (e : Go.Err)
    (h1 : (bs m.type == bs "msg") = true) (hc : c.DisplayMessage = some g)
    (hg : g name m.body = .ok (some e))
    (hW : E.W conn (bs "fail") [] = .ok (none, c')) :
    plugin_ClientUI_handle E.W E.WB E.D c name conn (goFS m) = .ok (true, none, c') := by
  simp only [plugin_ClientUI_handle, goFS, lit_msg, lit_fail, h1, hc, hg, hW, bind, Except.bind, pure, Except.pure]
  simp

theorem go_msg_ok (g)
    (h1 : (bs m.type == bs "msg") = true) (hc : c.DisplayMessage = some g)
    (hg : g name m.body = .ok none)
    (hW : E.W conn (bs "ok") [] = .ok (none, c')) :
    plugin_ClientUI_handle E.W E.WB E.D c name conn (goFS m) = .ok (true, none, c') := by
  simp only [plugin_ClientUI_handle, goFS, lit_msg, lit_ok, h1, hc, hg, hW, bind, Except.bind, pure, Except.pure]
  simp

/-! ### `request-secret` / `request-public` -/

theorem go_req_nil
    (h1 : (bs m.type == bs "msg") = false)
    (h2 : (bs m.type == bs "request-secret" || bs m.type == bs "request-public") = true)
    (hc : c.RequestValue = none)
    (hW : E.W conn (bs "fail") [] = .ok (none, c')) :
    plugin_ClientUI_handle E.W E.WB E.D c name conn (goFS m) = .ok (true, none, c') := by
  simp only [plugin_ClientUI_handle, goFS, lit_msg, lit_rsec, lit_rpub, lit_fail, h1, h2, hc, hW, bind, Except.bind,
    pure, Except.pure]
  simp

theorem go_req_fail (g) (v : Bytes) (e : Go.Err)
    (h1 : (bs m.type == bs "msg") = false)
    (h2 : (bs m.type == bs "request-secret" || bs m.type == bs "request-public") = true)
    (hc : c.RequestValue = some g)
    (hg : g name m.body (bs m.type == bs "request-secret") = .ok (v, some e))
    (hW : E.W conn (bs "fail") [] = .ok (none, c')) :
    plugin_ClientUI_handle E.W E.WB E.D c name conn (goFS m) = .ok (true, none, c') := by
  simp only [plugin_ClientUI_handle, goFS, lit_msg, lit_rsec, lit_rpub, lit_fail, h1, h2, hc, hg, hW, bind, Except.bind,
    pure, Except.pure]
  simp

theorem go_req_ok (g) (v : Bytes)
    (h1 : (bs m.type == bs "msg") = false)
    (h2 : (bs m.type == bs "request-secret" || bs m.type == bs "request-public") = true)
    (hc : c.RequestValue = some g)
    (hg : g name m.body (bs m.type == bs "request-secret") = .ok (v, none))
    (hW : E.WB conn (bs "ok") v = .ok (none, c')) :
    plugin_ClientUI_handle E.W E.WB E.D c name conn (goFS m) = .ok (true, none, c') := by
  simp only [plugin_ClientUI_handle, goFS, lit_msg, lit_rsec, lit_rpub, lit_ok, h1, h2, hc, hg, hW, bind, Except.bind,
    pure, Except.pure]
  simp

/-! ### `confirm` -/

theorem go_conf_count
    (h1 : (bs m.type == bs "msg") = false)
    (h2 : (bs m.type == bs "request-secret" || bs m.type == bs "request-public") = false)
    (h3 : (bs m.type == bs "confirm") = true)
    (hl : m.args.length ≠ 1 ∧ m.args.length ≠ 2) :
    plugin_ClientUI_handle E.W E.WB E.D c name conn (goFS m) = .ok (true, some (uSite 0), conn) := by
  have hl' : ((Go.len (m.args.map bs) != (1 : Int)) && (Go.len (m.args.map bs) != (2 : Int))) = true := by
    rw [len_eq, List.length_map]
    simp only [Bool.and_eq_true, bne_iff_ne, ne_eq]
    omega
  simp only [plugin_ClientUI_handle, goFS, lit_msg, lit_rsec, lit_rpub, lit_confirm, h1, h2, h3, hl', bind, Except.bind,
    pure, Except.pure]
  simp

theorem go_conf_nil
    (h1 : (bs m.type == bs "msg") = false)
    (h2 : (bs m.type == bs "request-secret" || bs m.type == bs "request-public") = false)
    (h3 : (bs m.type == bs "confirm") = true)
    (hl : m.args.length = 1 ∨ m.args.length = 2)
    (hc : c.Confirm = none)
    (hW : E.W conn (bs "fail") [] = .ok (none, c')) :
    plugin_ClientUI_handle E.W E.WB E.D c name conn (goFS m) = .ok (true, none, c') := by
  have hl' : ((Go.len (m.args.map bs) != (1 : Int)) && (Go.len (m.args.map bs) != (2 : Int))) = false := by
    rw [len_eq, List.length_map]
    rcases hl with h | h <;> rw [h] <;> rfl
  simp only [plugin_ClientUI_handle, goFS, lit_msg, lit_rsec, lit_rpub, lit_confirm, lit_fail, h1, h2, h3, hl', hc, hW,
    bind, Except.bind, pure, Except.pure]
  simp

theorem go_conf1_bady (g) (y : String) (b : Bytes) (e : Go.Err)
    (h1 : (bs m.type == bs "msg") = false)
    (h2 : (bs m.type == bs "request-secret" || bs m.type == bs "request-public") = false)
    (h3 : (bs m.type == bs "confirm") = true)
    (ha : m.args = [y]) (hc : c.Confirm = some g)
    (hD : E.D (bs y) = .ok (b, some e)) :
    plugin_ClientUI_handle E.W E.WB E.D c name conn (goFS m) = .ok (true, some (uSite 1), conn) := by
  simp only [plugin_ClientUI_handle, goFS, lit_msg, lit_rsec, lit_rpub, lit_confirm, h1, h2, h3, ha, hc, hD,
    List.map_cons, List.map_nil, len_eq, List.length_cons, List.length_nil, idx0, bind, Except.bind, pure, Except.pure]
  simp

theorem go_conf1_fail (g) (y : String) (yes : Bytes) (ch : Bool) (e : Go.Err)
    (h1 : (bs m.type == bs "msg") = false)
    (h2 : (bs m.type == bs "request-secret" || bs m.type == bs "request-public") = false)
    (h3 : (bs m.type == bs "confirm") = true)
    (ha : m.args = [y]) (hc : c.Confirm = some g)
    (hD : E.D (bs y) = .ok (yes, none))
    (hg : g name m.body yes [] = .ok (ch, some e))
    (hW : E.W conn (bs "fail") [] = .ok (none, c')) :
    plugin_ClientUI_handle E.W E.WB E.D c name conn (goFS m) = .ok (true, none, c') := by
  simp only [plugin_ClientUI_handle, goFS, lit_msg, lit_rsec, lit_rpub, lit_confirm, lit_fail, h1, h2, h3, ha, hc, hD,
    List.map_cons, List.map_nil, len_eq, List.length_cons, List.length_nil, idx0, bind, Except.bind, pure, Except.pure]
  simp [hg, hW]

theorem go_conf1_ok (g) (y : String) (yes : Bytes) (ch : Bool)
    (h1 : (bs m.type == bs "msg") = false)
    (h2 : (bs m.type == bs "request-secret" || bs m.type == bs "request-public") = false)
    (h3 : (bs m.type == bs "confirm") = true)
    (ha : m.args = [y]) (hc : c.Confirm = some g)
    (hD : E.D (bs y) = .ok (yes, none))
    (hg : g name m.body yes [] = .ok (ch, none))
    (hW : E.W conn (bs "ok") [bs (if ch then "yes" else "no")] = .ok (none, c')) :
    plugin_ClientUI_handle E.W E.WB E.D c name conn (goFS m) = .ok (true, none, c') := by
  simp only [plugin_ClientUI_handle, goFS, lit_msg, lit_rsec, lit_rpub, lit_confirm, lit_ok, lit_yes, lit_no, h1, h2, h3,
    ha, hc, hD, List.map_cons, List.map_nil, len_eq, List.length_cons, List.length_nil, idx0, bind, Except.bind, pure,
    Except.pure]
  cases ch <;> simp [hg] <;> simp at hW <;> simp [hW]

theorem go_conf2_bady (g) (y n : String) (b : Bytes) (e : Go.Err)
    (h1 : (bs m.type == bs "msg") = false)
    (h2 : (bs m.type == bs "request-secret" || bs m.type == bs "request-public") = false)
    (h3 : (bs m.type == bs "confirm") = true)
    (ha : m.args = [y, n]) (hc : c.Confirm = some g)
    (hD : E.D (bs y) = .ok (b, some e)) :
    plugin_ClientUI_handle E.W E.WB E.D c name conn (goFS m) = .ok (true, some (uSite 1), conn) := by
  simp only [plugin_ClientUI_handle, goFS, lit_msg, lit_rsec, lit_rpub, lit_confirm, h1, h2, h3, ha, hc, hD,
    List.map_cons, List.map_nil, len_eq, List.length_cons, List.length_nil, idx0, bind, Except.bind, pure, Except.pure]
  simp

theorem go_conf2_badn (g) (y n : String) (yes b : Bytes) (e : Go.Err)
    (h1 : (bs m.type == bs "msg") = false)
    (h2 : (bs m.type == bs "request-secret" || bs m.type == bs "request-public") = false)
    (h3 : (bs m.type == bs "confirm") = true)
    (ha : m.args = [y, n]) (hc : c.Confirm = some g)
    (hD : E.D (bs y) = .ok (yes, none))
    (hDn : E.D (bs n) = .ok (b, some e)) :
    plugin_ClientUI_handle E.W E.WB E.D c name conn (goFS m) = .ok (true, some (uSite 2), conn) := by
  simp only [plugin_ClientUI_handle, goFS, lit_msg, lit_rsec, lit_rpub, lit_confirm, h1, h2, h3, ha, hc, hD,
    List.map_cons, List.map_nil, len_eq, List.length_cons, List.length_nil, idx0, idx1, bind, Except.bind, pure,
    Except.pure]
  simp [hDn]

theorem go_conf2_fail (g) (y n : String) (yes no : Bytes) (ch : Bool) (e : Go.Err)
    (h1 : (bs m.type == bs "msg") = false)
    (h2 : (bs m.type == bs "request-secret" || bs m.type == bs "request-public") = false)
    (h3 : (bs m.type == bs "confirm") = true)
    (ha : m.args = [y, n]) (hc : c.Confirm = some g)
    (hD : E.D (bs y) = .ok (yes, none))
    (hDn : E.D (bs n) = .ok (no, none))
    (hg : g name m.body yes no = .ok (ch, some e))
    (hW : E.W conn (bs "fail") [] = .ok (none, c')) :
    plugin_ClientUI_handle E.W E.WB E.D c name conn (goFS m) = .ok (true, none, c') := by
  simp only [plugin_ClientUI_handle, goFS, lit_msg, lit_rsec, lit_rpub, lit_confirm, lit_fail, h1, h2, h3, ha, hc, hD,
    List.map_cons, List.map_nil, len_eq, List.length_cons, List.length_nil, idx0, idx1, bind, Except.bind, pure,
    Except.pure]
  simp [hDn, hg, hW]

theorem go_conf2_ok (g) (y n : String) (yes no : Bytes) (ch : Bool)
    (h1 : (bs m.type == bs "msg") = false)
    (h2 : (bs m.type == bs "request-secret" || bs m.type == bs "request-public") = false)
    (h3 : (bs m.type == bs "confirm") = true)
    (ha : m.args = [y, n]) (hc : c.Confirm = some g)
    (hD : E.D (bs y) = .ok (yes, none))
    (hDn : E.D (bs n) = .ok (no, none))
    (hg : g name m.body yes no = .ok (ch, none))
    (hW : E.W conn (bs "ok") [bs (if ch then "yes" else "no")] = .ok (none, c')) :
    plugin_ClientUI_handle E.W E.WB E.D c name conn (goFS m) = .ok (true, none, c') := by
  simp only [plugin_ClientUI_handle, goFS, lit_msg, lit_rsec, lit_rpub, lit_confirm, lit_ok, lit_yes, lit_no, h1, h2, h3,
    ha, hc, hD, List.map_cons, List.map_nil, len_eq, List.length_cons, List.length_nil, idx0, idx1, bind, Except.bind,
    pure, Except.pure]
  cases ch <;> simp [hDn, hg] <;> simp at hW <;> simp [hW]

/-! ### anything else -/

theorem go_unknown
    (h1 : (bs m.type == bs "msg") = false)
    (h2 : (bs m.type == bs "request-secret" || bs m.type == bs "request-public") = false)
    (h3 : (bs m.type == bs "confirm") = false) :
    plugin_ClientUI_handle E.W E.WB E.D c name conn (goFS m) = .ok (false, none, conn) := by
  simp only [plugin_ClientUI_handle, goFS, lit_msg, lit_rsec, lit_rpub, lit_confirm, h1, h2, h3, bind, Except.bind,
    pure, Except.pure]
  simp

end go
end PluginUI

theorem handle_tie {χ : Type} (E : UIEnv χ) (u : PureUI) (eU : Go.Err) (name : Bytes) (conn : χ) (m : Plugin.Stanza) :
    ∃ out, plugin_ClientUI_handle E.W E.WB E.D (u.go eU) name conn (goFS m) = .ok out ∧
      match u.model.handle E.dec () m with
      | .reply _ r => out.1 = true ∧ out.2.1 = none ∧ E.absC out.2.2 = E.absC conn ++ [r]
      | .fatal => out.1 = true ∧ out.2.1 ≠ none ∧ E.absC out.2.2 = E.absC conn
      | .unknown => out.1 = false ∧ out.2.1 = none ∧ E.absC out.2.2 = E.absC conn := by
  open PluginUI in
  by_cases t1 : m.type = "msg"
  · -- `msg`
    have h1 := bs_beq_true t1
    cases hd : u.display with
    | none =>
      obtain ⟨c', hW, hA⟩ := E.hW conn "fail" []
      refine ⟨_, go_msg_nil E (u.go eU) name conn c' m h1 (by simp [PureUI.go, hd]) hW, ?_⟩
      simp [UI.handle, PureUI.model, t1, hd, hA, failS]
    | some f =>
      have hdg : (u.go eU).DisplayMessage = some (fun _ m => .ok (if f m then none else some eU)) := by
        simp only [PureUI.go, hd, Option.map_some]
      cases hf : f m.body with
      | false =>
        obtain ⟨c', hW, hA⟩ := E.hW conn "fail" []
        refine ⟨_, go_msg_fail E (u.go eU) name conn c' m _ eU h1 hdg (by simp [hf]) hW, ?_⟩
        simp [UI.handle, PureUI.model, t1, hd, hf, hA, failS]
      | true =>
        obtain ⟨c', hW, hA⟩ := E.hW conn "ok" []
        refine ⟨_, go_msg_ok E (u.go eU) name conn c' m _ h1 hdg (by simp [hf]) hW, ?_⟩
        simp [UI.handle, PureUI.model, t1, hd, hf, hA, okS]
  · have h1 := bs_beq_false t1
    by_cases t2 : m.type = "request-secret" ∨ m.type = "request-public"
    · -- `request-secret` / `request-public`
      have h2 : (bs m.type == bs "request-secret" || bs m.type == bs "request-public") = true := by
        rw [bs_beq_decide, bs_beq_decide]; simpa using t2
      cases hr : u.request with
      | none =>
        obtain ⟨c', hW, hA⟩ := E.hW conn "fail" []
        refine ⟨_, go_req_nil E (u.go eU) name conn c' m h1 h2 (by simp [PureUI.go, hr]) hW, ?_⟩
        simp [UI.handle, PureUI.model, t1, t2, hr, hA, failS]
      | some f =>
        have hrg : (u.go eU).RequestValue = some (fun _ m s => .ok (match f m s with | some v => (v, none) | none => ([], some eU))) := by
          simp only [PureUI.go, hr, Option.map_some]
        cases hf : f m.body (decide (m.type = "request-secret")) with
        | none =>
          obtain ⟨c', hW, hA⟩ := E.hW conn "fail" []
          refine ⟨_, go_req_fail E (u.go eU) name conn c' m _ [] eU h1 h2 hrg
            (by simp only [bs_beq_decide, hf]) hW, ?_⟩
          simp [UI.handle, PureUI.model, t1, t2, hr, hf, hA, failS]
        | some v =>
          obtain ⟨c', hW, hA⟩ := E.hWB conn "ok" v
          refine ⟨_, go_req_ok E (u.go eU) name conn c' m _ v h1 h2 hrg
            (by simp only [bs_beq_decide, hf]) hW, ?_⟩
          simp [UI.handle, PureUI.model, t1, t2, hr, hf, hA, okBody]
    · have h2 : (bs m.type == bs "request-secret" || bs m.type == bs "request-public") = false := by
        rw [bs_beq_decide, bs_beq_decide]; simpa using t2
      by_cases t3 : m.type = "confirm"
      · -- `confirm`
        have h3 := bs_beq_true t3
        by_cases hl : m.args.length ≠ 1 ∧ m.args.length ≠ 2
        · refine ⟨_, go_conf_count E (u.go eU) name conn m h1 h2 h3 hl, ?_⟩
          simp [UI.handle, t3, hl]
        · have hl' : m.args.length = 1 ∨ m.args.length = 2 := by omega
          cases hc : u.confirm with
          | none =>
            obtain ⟨c', hW, hA⟩ := E.hW conn "fail" []
            refine ⟨_, go_conf_nil E (u.go eU) name conn c' m h1 h2 h3 hl' (by simp [PureUI.go, hc]) hW, ?_⟩
            simp [UI.handle, PureUI.model, t3, hl, hc, hA, failS]
          | some f =>
            have hcg : (u.go eU).Confirm = some (fun _ m y n => .ok (match f m y n with | some c => (c, none) | none => (false, some eU))) := by
              simp only [PureUI.go, hc, Option.map_some]
            match ha : m.args, hl' with
            | [y], _ =>
              cases hy : E.dec y with
              | none =>
                refine ⟨_, go_conf1_bady E (u.go eU) name conn m _ y [] E.eD h1 h2 h3 ha hcg (by rw [E.hD, hy]), ?_⟩
                simp [UI.handle, PureUI.model, t3, hc, ha, hy]
              | some yes =>
                have hDy : E.D (bs y) = .ok (yes, none) := by rw [E.hD, hy]
                cases hf : f m.body yes [] with
                | none =>
                  obtain ⟨c', hW, hA⟩ := E.hW conn "fail" []
                  refine ⟨_, go_conf1_fail E (u.go eU) name conn c' m _ y yes false eU h1 h2 h3 ha hcg hDy (by simp [hf]) hW, ?_⟩
                  simp [UI.handle, PureUI.model, t3, hc, ha, hy, hf, hA, failS]
                | some ch =>
                  obtain ⟨c', hW, hA⟩ := E.hW conn "ok" [if ch then "yes" else "no"]
                  refine ⟨_, go_conf1_ok E (u.go eU) name conn c' m _ y yes ch h1 h2 h3 ha hcg hDy (by simp [hf]) hW, ?_⟩
                  simp [UI.handle, PureUI.model, t3, hc, ha, hy, hf, hA, okChoice]
            | [y, n], _ =>
              cases hy : E.dec y with
              | none =>
                refine ⟨_, go_conf2_bady E (u.go eU) name conn m _ y n [] E.eD h1 h2 h3 ha hcg (by rw [E.hD, hy]), ?_⟩
                simp [UI.handle, PureUI.model, t3, hc, ha, hy]
              | some yes =>
                have hDy : E.D (bs y) = .ok (yes, none) := by rw [E.hD, hy]
                cases hn : E.dec n with
                | none =>
                  refine ⟨_, go_conf2_badn E (u.go eU) name conn m _ y n yes [] E.eD h1 h2 h3 ha hcg hDy (by rw [E.hD, hn]), ?_⟩
                  simp [UI.handle, PureUI.model, t3, hc, ha, hy, hn]
                | some no =>
                  have hDn : E.D (bs n) = .ok (no, none) := by rw [E.hD, hn]
                  cases hf : f m.body yes no with
                  | none =>
                    obtain ⟨c', hW, hA⟩ := E.hW conn "fail" []
                    refine ⟨_, go_conf2_fail E (u.go eU) name conn c' m _ y n yes no false eU h1 h2 h3 ha hcg hDy hDn (by simp [hf]) hW, ?_⟩
                    simp [UI.handle, PureUI.model, t3, hc, ha, hy, hn, hf, hA, failS]
                  | some ch =>
                    obtain ⟨c', hW, hA⟩ := E.hW conn "ok" [if ch then "yes" else "no"]
                    refine ⟨_, go_conf2_ok E (u.go eU) name conn c' m _ y n yes no ch h1 h2 h3 ha hcg hDy hDn (by simp [hf]) hW, ?_⟩
                    simp [UI.handle, PureUI.model, t3, hc, ha, hy, hn, hf, hA, okChoice]
            | [], h => simp at h
            | _ :: _ :: _ :: _, h => simp at h
      · -- anything else
        have h3 := bs_beq_false t3
        refine ⟨_, go_unknown E (u.go eU) name conn m h1 h2 h3, ?_⟩
        simp [UI.handle, t1, t2, t3]

end GoTie
end AgeModel
