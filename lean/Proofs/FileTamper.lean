/-
  Proofs.FileTamper — what Decrypt does with a file whose header is intact and whose
  remaining bytes (payload nonce and payload) are arbitrary.
-/
import Proofs.File
namespace AgeModel
open Format Stream

/-- the header of an honest file, as bytes -/
def headerBytes (P : Prims) (fk : Bytes) (stanzas : List Stanza) : Bytes :=
  marshal { stanzas := stanzas, mac := headerMAC P fk stanzas }

theorem specFile_eq_header (P : Prims) (C : Nat) (fk nonce pt : Bytes) (stanzas : List Stanza) :
    specFile P C fk stanzas nonce pt = headerBytes P fk stanzas ++ (nonce ++ Stream.encrypt P.aead C (streamKey P fk nonce) pt) := by
  simp [specFile, headerBytes]

/-- header intact, anything after it: the identities open the file key as before, the MAC
    verifies, and the payload reader is created over the presented bytes under the key
    derived from the PRESENTED nonce — or there are fewer than 16 bytes and no reader -/
theorem decryptInit_header_rest (P : Prims) (hP : P.Correct) (fk : Bytes) (stanzas : List Stanza) (rest : Bytes)
    (hwf : ∀ s ∈ stanzas, s.WF) (hfk : fk ≠ [])
    (pre post : List Identity) (id : Identity)
    (hpre : ∀ i ∈ pre, i.unwrap P stanzas = .incorrect) (hid : id.unwrap P stanzas = .key fk) :
    decryptInit P (pre ++ id :: post) (headerBytes P fk stanzas ++ rest) =
      if rest.length < streamNonceSize then (.error .nonce, pre.length + 1)
      else (.ok (streamKey P fk (rest.take streamNonceSize), rest.drop streamNonceSize), pre.length + 1) := by
  unfold decryptInit headerBytes
  have hne : (pre ++ id :: post).isEmpty = false := by cases pre <;> simp
  have hparse := parse_marshal { stanzas := stanzas, mac := headerMAC P fk stanzas } ⟨hwf, hP.hmac_len _ _⟩ rest
  simp only [hne, Bool.false_eq_true, if_false, hparse]
  rw [identityLoop_found P stanzas pre post id fk hpre hid 0 0]
  have hfe : fk.isEmpty = false := by cases fk with | nil => exact absurd rfl hfk | cons _ _ => rfl
  simp only [hfe, Bool.false_and, Bool.false_eq_true, if_false, ne_eq, not_true_eq_false, Nat.zero_add]

end AgeModel
