/-
  Proofs.GoTieCliModes — how cmd/age turns its flags into identities and recipients
  (`decryptNotPass`, `encryptPass`, `(rejectScryptIdentity).Unwrap` of cmd/age/age.go), as they stand
  in the source. Translated on every run (one explicit outside state; `errorf` / `errorWithHint` are
  exit sites).

  `age -d -i … -j …`: the list of identities handed to `decrypt` ALWAYS starts with
  `rejectScryptIdentity{}` — which answers a header that is exactly one passphrase stanza by ending
  the process (site 1000) and everything else with "incorrect identity" — followed by the identities
  of the `-i` files and the `-j` plugins in the order of the flags; the ONLY thing done with a `-j`
  value is `plugin.NewIdentityWithoutData(value, ui)`; a failure to read a file or to initialise a
  plugin ends the process before `decrypt` is called. `age -p`: the passphrase the prompt returned,
  and only it, becomes the one recipient.
-/
import AgeModel.GoSem
import AgeModel.Extracted.Funcs
namespace AgeModel
namespace GoTie
open Extracted

theorem rejectScrypt_unwrap_tie (stanzas : List age_Stanza) :
    main_rejectScryptIdentity_Unwrap ⟨⟩ stanzas =
      match stanzas with
      | [s] => if s.Type_ = "scrypt".toUTF8.toList then .error (.panic 1000) else .ok ([], age_ErrIncorrectIdentity)
      | _ => .ok ([], age_ErrIncorrectIdentity) := by
  have hlit : ("scrypt".toUTF8.toList : List UInt8) = [115, 99, 114, 121, 112, 116] := by decide +kernel
  match stanzas with
  | [] => rfl
  | [s] =>
    simp only [main_rejectScryptIdentity_Unwrap, hlit, Go.len, Go.idx, bind, Except.bind, pure, Except.pure]
    by_cases h : s.Type_ = [115, 99, 114, 121, 112, 116]
    · simp [h]; rfl
    · simp [h]
  | a :: b :: rest =>
    simp only [main_rejectScryptIdentity_Unwrap, Go.len, bind, Except.bind, pure, Except.pure, List.length_cons]
    have : ¬ ((rest.length : Int) + 1 + 1 = 1) := by omega
    simp [this]

section
variable {ζ ι τ υ : Type} (reject : ι) (PIF : Bytes → τ → Go.M (List ι × Option Go.Err × τ)) (ui : υ)
  (NI : Bytes → υ → τ → Go.M (ι × Option Go.Err × τ)) (D : List ι → Bytes → ζ → τ → Go.M τ)

/-- the identities of the flags, in order, appended to `acc` -/
def collectIds : List main_identityFlag → τ → List ι → Go.M (τ × List ι)
  | [], t, acc => pure (t, acc)
  | f :: rest, t, acc =>
    if f.Type_ = [105] then do          -- "i"
      let r ← PIF f.Value t
      if (r.2.1 != none) = true then .error (.panic 1000) else collectIds rest r.2.2 (acc ++ r.1)
    else if f.Type_ = [106] then do     -- "j"
      let r ← NI f.Value ui t
      if (r.2.1 != none) = true then .error (.panic 1001) else collectIds rest r.2.2 (acc ++ [r.1])
    else collectIds rest t acc

theorem decryptNotPass_loop (flags : List main_identityFlag) : ∀ (t : τ) (acc : List ι),
    main_decryptNotPass_loop1 PIF ui NI flags t acc =
      (collectIds PIF ui NI flags t acc).map fun r => (.next r : Go.Loop (τ × List ι) τ) := by
  induction flags with
  | nil => intro t acc; rfl
  | cons f rest ih =>
    intro t acc
    simp only [main_decryptNotPass_loop1, collectIds, bind, Except.bind, pure, Except.pure]
    by_cases hi : f.Type_ = [105]
    · simp only [hi, beq_self_eq_true, if_true]
      cases h1 : PIF f.Value t with
      | error e => rfl
      | ok r =>
        simp only []
        by_cases he : (r.2.1 != none) = true
        · simp [he]; rfl
        · simp only [he, if_false]; exact ih _ _
    · have hi' : (f.Type_ == ([105] : List UInt8)) = false := by simpa using hi
      simp only [hi, hi', if_false, Bool.false_eq_true]
      by_cases hj : f.Type_ = [106]
      · simp only [hj, beq_self_eq_true, if_true]
        cases h1 : NI f.Value ui t with
        | error e => rfl
        | ok r =>
          simp only []
          by_cases he : (r.2.1 != none) = true
          · simp [he]; rfl
          · simp only [he, if_false]; exact ih _ _
      · have hj' : (f.Type_ == ([106] : List UInt8)) = false := by simpa using hj
        simp only [hj, hj', if_false, Bool.false_eq_true]
        exact ih _ _

theorem decryptNotPass_tie (flags : List main_identityFlag) (inp : Bytes) (out : ζ) (t0 : τ) :
    main_decryptNotPass reject PIF ui NI D flags inp out t0 =
      (do let r ← collectIds PIF ui NI flags t0 [reject]
          D r.2 inp out r.1) := by
  simp only [main_decryptNotPass, decryptNotPass_loop, bind, Except.bind, pure, Except.pure, Except.map]
  cases h : collectIds PIF ui NI flags t0 [reject] with
  | error e => rfl
  | ok r =>
    simp only []
    cases D r.2 inp out r.1 <;> rfl

/-- whatever the flags, the identities collected extend the starting list: `rejectScryptIdentity{}` stays first -/
theorem collectIds_prefix (flags : List main_identityFlag) : ∀ (t : τ) (acc : List ι) (r : τ × List ι),
    collectIds PIF ui NI flags t acc = .ok r → ∃ more, r.2 = acc ++ more := by
  induction flags with
  | nil => intro t acc r h; cases h; exact ⟨[], by simp⟩
  | cons f rest ih =>
    intro t acc r h
    simp only [collectIds, bind, Except.bind] at h
    by_cases hi : f.Type_ = [105]
    · simp only [hi, if_true] at h
      cases h1 : PIF f.Value t with
      | error e => simp [h1] at h
      | ok x =>
        simp only [h1] at h
        by_cases he : (x.2.1 != none) = true
        · simp [he] at h
        · simp only [he, if_false] at h
          obtain ⟨m, hm⟩ := ih _ _ _ h
          exact ⟨x.1 ++ m, by rw [hm, List.append_assoc]⟩
    · simp only [hi, if_false] at h
      by_cases hj : f.Type_ = [106]
      · simp only [hj, if_true] at h
        cases h1 : NI f.Value ui t with
        | error e => simp [h1] at h
        | ok x =>
          simp only [h1] at h
          by_cases he : (x.2.1 != none) = true
          · simp [he] at h
          · simp only [he, if_false] at h
            obtain ⟨m, hm⟩ := ih _ _ _ h
            exact ⟨[x.1] ++ m, by rw [hm, List.append_assoc]⟩
      · simp only [hj, if_false] at h
        exact ih _ _ _ h

/-- `decrypt` is only ever called with a list that starts with `rejectScryptIdentity{}` -/
theorem decryptNotPass_reject_first (flags : List main_identityFlag) (t0 : τ) (r : τ × List ι)
    (h : collectIds PIF ui NI flags t0 [reject] = .ok r) : ∃ more, r.2 = reject :: more := by
  obtain ⟨m, hm⟩ := collectIds_prefix PIF ui NI flags t0 [reject] r h
  exact ⟨m, by simpa using hm⟩

end

section
variable {ζ ρ τ : Type} (Pr : τ → Go.M (Bytes × Option Go.Err × τ)) (NS : Bytes → τ → Go.M (ρ × Option Go.Err × τ))
  (Cfg : ρ → Go.M Unit) (E : List ρ → Bytes → ζ → Bool → τ → Go.M τ)

theorem encryptPass_tie (inp : Bytes) (out : ζ) (armor : Bool) (t0 : τ) :
    main_encryptPass Pr NS Cfg E inp out armor t0 =
      (do let p ← Pr t0
          if (p.2.1 != none) = true then .error (.panic 1000)
          else do
            let r ← NS p.1 p.2.2
            if (r.2.1 != none) = true then .error (.panic 1001)
            else do
              Cfg r.1
              E [r.1] inp out armor r.2.2) := by
  simp only [main_encryptPass, bind, Except.bind, pure, Except.pure]
  cases h1 : Pr t0 with
  | error e => rfl
  | ok p =>
    simp only []
    by_cases hp : (p.2.1 != none) = true
    · simp [hp]; rfl
    · simp only [hp, if_false]
      cases h2 : NS p.1 p.2.2 with
      | error e => rfl
      | ok r =>
        simp only []
        by_cases hr : (r.2.1 != none) = true
        · simp [hr]; rfl
        · simp only [hr, if_false]
          cases Cfg r.1 with
          | error e => rfl
          | ok u =>
            simp only []
            cases E [r.1] inp out armor r.2.2 <;> rfl
end

end GoTie
end AgeModel
