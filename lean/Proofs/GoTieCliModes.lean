/-
  Proofs.GoTieCliModes — how cmd/age turns its flags into identities and recipients
  (`decryptNotPass`, `encryptPass`, `(rejectScryptIdentity).Unwrap` of cmd/age/age.go), as they stand
  in the source. Translated on every run (one explicit outside state; `errorf` / `errorWithHint` are
  exit sites).

  `age -d -i … -j …`: the list of identities handed to `decrypt` ALWAYS starts with
  `rejectScryptIdentity{}` — which answers a header that is exactly one passphrase stanza by ending
  the process (site 1000) and everything else with "incorrect identity" — followed by the identities
  of the `-i` files and the `-j` plugins in the order of the flags; the ONLY thing done with a `-j`
  value is `plugin.NewIdentityWithoutData(value, ui)`; a failure to read a file or to initialise a
  plugin ends the process before `decrypt` is called. `age -p`: the passphrase the prompt returned,
  and only it, becomes the one recipient.
-/
import AgeModel.GoSem
import AgeModel.Extracted.Funcs
namespace AgeModel
namespace GoTie
open Extracted

theorem rejectScrypt_unwrap_tie (stanzas : List age_Stanza) :
    main_rejectScryptIdentity_Unwrap ⟨⟩ stanzas =
      match stanzas with
      | [s] => if s.Type_ = "scrypt".toUTF8.toList then .error (.panic 1000) else .ok ([], age_ErrIncorrectIdentity)
      | _ => .ok ([], age_ErrIncorrectIdentity) := by
  have hlit : ("scrypt".toUTF8.toList : List UInt8) = [115, 99, 114, 121, 112, 116] := by decide +kernel
  match stanzas with
  | [] => rfl
  | [s] =>
    simp only [main_rejectScryptIdentity_Unwrap, hlit, Go.len, Go.idx, bind, Except.bind, pure, Except.pure]
    by_cases h : s.Type_ = [115, 99, 114, 121, 112, 116]
    · simp [h]; rfl
    · simp [h]
  | a :: b :: rest =>
    simp only [main_rejectScryptIdentity_Unwrap, Go.len, bind, Except.bind, pure, Except.pure, List.length_cons]
    have : ¬ ((rest.length : Int) + 1 + 1 = 1) := by omega
    simp [this]

section
variable {ζ ι τ υ : Type} (reject : ι) (PIF : Bytes → τ → Go.M (List ι × Option Go.Err × τ)) (ui : υ)
  (NI : Bytes → υ → τ → Go.M (ι × Option Go.Err × τ)) (D : List ι → Bytes → ζ → τ → Go.M τ)

/-- the identities of the flags, in order, appended to `acc` -/
def collectIds : List main_identityFlag → τ → List ι → Go.M (τ × List ι)
  | [], t, acc => pure (t, acc)
  | f :: rest, t, acc =>
    if f.Type_ = [105] then do          -- "i"
      let r ← PIF f.Value t
      if (r.2.1 != none) = true then .error (.panic 1000) else collectIds rest r.2.2 (acc ++ r.1)
    else if f.Type_ = [106] then do     -- "j"
      let r ← NI f.Value ui t
      if (r.2.1 != none) = true then .error (.panic 1001) else collectIds rest r.2.2 (acc ++ [r.1])
    else collectIds rest t acc

theorem decryptNotPass_loop (flags : List main_identityFlag) : ∀ (t : τ) (acc : List ι),
    main_decryptNotPass_loop1 PIF ui NI flags t acc =
      (collectIds PIF ui NI flags t acc).map fun r => (.next r : Go.Loop (τ × List ι) τ) := by
  induction flags with
  | nil => intro t acc; rfl
  | cons f rest ih =>
    intro t acc
    simp only [main_decryptNotPass_loop1, collectIds, bind, Except.bind, pure, Except.pure]
    by_cases hi : f.Type_ = [105]
    · simp only [hi, beq_self_eq_true, if_true]
      cases h1 : PIF f.Value t with
      | error e => rfl
      | ok r =>
        simp only []
        by_cases he : (r.2.1 != none) = true
        · simp [he]; rfl
        · simp only [he, if_false]; exact ih _ _
    · have hi' : (f.Type_ == ([105] : List UInt8)) = false := by simpa using hi
      simp only [hi, hi', if_false, Bool.false_eq_true]
      by_cases hj : f.Type_ = [106]
      · simp only [hj, beq_self_eq_true, if_true]
        cases h1 : NI f.Value ui t with
        | error e => rfl
        | ok r =>
          simp only []
          by_cases he : (r.2.1 != none) = true
          · simp [he]; rfl
          · simp only [he, if_false]; exact ih _ _
      · have hj' : (f.Type_ == ([106] : List UInt8)) = false := by simpa using hj
        simp only [hj, hj', if_false, Bool.false_eq_true]
        exact ih _ _

theorem decryptNotPass_tie (flags : List main_identityFlag) (inp : Bytes) (out : ζ) (t0 : τ) :
    main_decryptNotPass reject PIF ui NI D flags inp out t0 =
      (do let r ← collectIds PIF ui NI flags t0 [reject]
          D r.2 inp out r.1) := by
  simp only [main_decryptNotPass, decryptNotPass_loop, bind, Except.bind, pure, Except.pure, Except.map]
  cases h : collectIds PIF ui NI flags t0 [reject] with
  | error e => rfl
  | ok r =>
    simp only []
    cases D r.2 inp out r.1 <;> rfl

/-- whatever the flags, the identities collected extend the starting list: `rejectScryptIdentity{}` stays first -/
theorem collectIds_prefix (flags : List main_identityFlag) : ∀ (t : τ) (acc : List ι) (r : τ × List ι),
    collectIds PIF ui NI flags t acc = .ok r → ∃ more, r.2 = acc ++ more := by
  induction flags with
  | nil => intro t acc r h; cases h; exact ⟨[], by simp⟩
  | cons f rest ih =>
    intro t acc r h
    simp only [collectIds, bind, Except.bind] at h
    by_cases hi : f.Type_ = [105]
    · simp only [hi, if_true] at h
      cases h1 : PIF f.Value t with
      | error e => simp [h1] at h
      | ok x =>
        simp only [h1] at h
        by_cases he : (x.2.1 != none) = true
        · simp [he] at h
        · simp only [he, if_false] at h
          obtain ⟨m, hm⟩ := ih _ _ _ h
          exact ⟨x.1 ++ m, by rw [hm, List.append_assoc]⟩
    · simp only [hi, if_false] at h
      by_cases hj : f.Type_ = [106]
      · simp only [hj, if_true] at h
        cases h1 : NI f.Value ui t with
        | error e => simp [h1] at h
        | ok x =>
          simp only [h1] at h
          by_cases he : (x.2.1 != none) = true
          · simp [he] at h
          · simp only [he, if_false] at h
            obtain ⟨m, hm⟩ := ih _ _ _ h
            exact ⟨[x.1] ++ m, by rw [hm, List.append_assoc]⟩
      · simp only [hj, if_false] at h
        exact ih _ _ _ h

/-- `decrypt` is only ever called with a list that starts with `rejectScryptIdentity{}` -/
theorem decryptNotPass_reject_first (flags : List main_identityFlag) (t0 : τ) (r : τ × List ι)
    (h : collectIds PIF ui NI flags t0 [reject] = .ok r) : ∃ more, r.2 = reject :: more := by
  obtain ⟨m, hm⟩ := collectIds_prefix PIF ui NI flags t0 [reject] r h
  exact ⟨m, by simpa using hm⟩

end

section
variable {ζ ρ τ : Type} (Pr : τ → Go.M (Bytes × Option Go.Err × τ)) (NS : Bytes → τ → Go.M (ρ × Option Go.Err × τ))
  (Cfg : ρ → Go.M Unit) (E : List ρ → Bytes → ζ → Bool → τ → Go.M τ)

theorem encryptPass_tie (inp : Bytes) (out : ζ) (armor : Bool) (t0 : τ) :
    main_encryptPass Pr NS Cfg E inp out armor t0 =
      (do let p ← Pr t0
          if (p.2.1 != none) = true then .error (.panic 1000)
          else do
            let r ← NS p.1 p.2.2
            if (r.2.1 != none) = true then .error (.panic 1001)
            else do
              Cfg r.1
              E [r.1] inp out armor r.2.2) := by
  simp only [main_encryptPass, bind, Except.bind, pure, Except.pure]
  cases h1 : Pr t0 with
  | error e => rfl
  | ok p =>
    simp only []
    by_cases hp : (p.2.1 != none) = true
    · simp [hp]; rfl
    · simp only [hp, if_false]
      cases h2 : NS p.1 p.2.2 with
      | error e => rfl
      | ok r =>
        simp only []
        by_cases hr : (r.2.1 != none) = true
        · simp [hr]; rfl
        · simp only [hr, if_false]
          cases Cfg r.1 with
          | error e => rfl
          | ok u =>
            simp only []
            cases E [r.1] inp out armor r.2.2 <;> rfl
end

/-! ## `encryptNotPass`: recipients from `-r`, `-R`, `-i`, `-j`, in that order -/

section
variable {ζ ι ρ τ υ : Type} (PR : Bytes → τ → Go.M (ρ × Option Go.Err × τ)) (PRF : Bytes → τ → Go.M (List ρ × Option Go.Err × τ))
  (PIF : Bytes → τ → Go.M (List ι × Option Go.Err × τ)) (I2R : List ι → τ → Go.M (List ρ × Option Go.Err × τ)) (ui : υ)
  (NI : Bytes → υ → τ → Go.M (ι × Option Go.Err × τ)) (IR : ι → τ → Go.M (ρ × τ)) (E : List ρ → Bytes → ζ → Bool → τ → Go.M τ)

/-- the `-r` arguments: each parsed; a `github:` recipient ends the process with a hint (site 1000), any other failure with
    the error (site 1001) -/
def collectR : List Bytes → τ → List ρ → Go.M (τ × List ρ)
  | [], t, acc => pure (t, acc)
  | a :: rest, t, acc => do
    let r ← PR a t
    if Go.errIsType r.2.1 "main.gitHubRecipientError" = true then .error (.panic 1000)
    else if (r.2.1 != none) = true then .error (.panic 1001)
    else collectR rest r.2.2 (acc ++ [r.1])

/-- the `-R` files -/
def collectRF : List Bytes → τ → List ρ → Go.M (τ × List ρ)
  | [], t, acc => pure (t, acc)
  | f :: rest, t, acc => do
    let r ← PRF f t
    if (r.2.1 != none) = true then .error (.panic 1002) else collectRF rest r.2.2 (acc ++ r.1)

/-- the `-i` / `-j` flags, turned into recipients -/
def collectIR : List main_identityFlag → τ → List ρ → Go.M (τ × List ρ)
  | [], t, acc => pure (t, acc)
  | f :: rest, t, acc =>
    if f.Type_ = [105] then do
      let r ← PIF f.Value t
      if (r.2.1 != none) = true then .error (.panic 1003)
      else do
        let q ← I2R r.1 r.2.2
        if (q.2.1 != none) = true then .error (.panic 1004) else collectIR rest q.2.2 (acc ++ q.1)
    else if f.Type_ = [106] then do
      let r ← NI f.Value ui t
      if (r.2.1 != none) = true then .error (.panic 1005)
      else do
        let q ← IR r.1 r.2.2
        collectIR rest q.2 (acc ++ [q.1])
    else collectIR rest t acc

theorem encryptNotPass_loop1 (recs : List Bytes) : ∀ (t : τ) (acc : List ρ),
    main_encryptNotPass_loop1 PR recs t acc = (collectR PR recs t acc).map fun r => (.next r : Go.Loop (τ × List ρ) τ) := by
  induction recs with
  | nil => intro t acc; rfl
  | cons a rest ih =>
    intro t acc
    simp only [main_encryptNotPass_loop1, collectR, bind, Except.bind, pure, Except.pure]
    cases h1 : PR a t with
    | error e => rfl
    | ok r =>
      simp only []
      by_cases hg : Go.errIsType r.2.1 "main.gitHubRecipientError" = true
      · simp [hg]; rfl
      · simp only [hg, if_false, Bool.false_eq_true]
        by_cases he : (r.2.1 != none) = true
        · simp [he]; rfl
        · simp only [he, if_false]; exact ih _ _

theorem encryptNotPass_loop2 (files : List Bytes) : ∀ (t : τ) (acc : List ρ),
    main_encryptNotPass_loop2 PRF files t acc = (collectRF PRF files t acc).map fun r => (.next r : Go.Loop (τ × List ρ) τ) := by
  induction files with
  | nil => intro t acc; rfl
  | cons f rest ih =>
    intro t acc
    simp only [main_encryptNotPass_loop2, collectRF, bind, Except.bind, pure, Except.pure]
    cases h1 : PRF f t with
    | error e => rfl
    | ok r =>
      simp only []
      by_cases he : (r.2.1 != none) = true
      · simp [he]; rfl
      · simp only [he, if_false]; exact ih _ _

theorem encryptNotPass_loop3 (flags : List main_identityFlag) : ∀ (t : τ) (acc : List ρ),
    main_encryptNotPass_loop3 PIF I2R ui NI IR flags t acc =
      (collectIR PIF I2R ui NI IR flags t acc).map fun r => (.next r : Go.Loop (τ × List ρ) τ) := by
  induction flags with
  | nil => intro t acc; rfl
  | cons f rest ih =>
    intro t acc
    simp only [main_encryptNotPass_loop3, collectIR, bind, Except.bind, pure, Except.pure]
    by_cases hi : f.Type_ = [105]
    · simp only [hi, beq_self_eq_true, if_true]
      cases h1 : PIF f.Value t with
      | error e => rfl
      | ok r =>
        simp only []
        by_cases he : (r.2.1 != none) = true
        · simp [he]; rfl
        · simp only [he, if_false]
          cases h2 : I2R r.1 r.2.2 with
          | error e => rfl
          | ok q =>
            simp only []
            by_cases hq : (q.2.1 != none) = true
            · simp [hq]; rfl
            · simp only [hq, if_false]; exact ih _ _
    · have hi' : (f.Type_ == ([105] : List UInt8)) = false := by simpa using hi
      simp only [hi, hi', if_false, Bool.false_eq_true]
      by_cases hj : f.Type_ = [106]
      · simp only [hj, beq_self_eq_true, if_true]
        cases h1 : NI f.Value ui t with
        | error e => rfl
        | ok r =>
          simp only []
          by_cases he : (r.2.1 != none) = true
          · simp [he]; rfl
          · simp only [he, if_false]
            cases h2 : IR r.1 r.2.2 with
            | error e => rfl
            | ok q => simp only []; exact ih _ _
      · have hj' : (f.Type_ == ([106] : List UInt8)) = false := by simpa using hj
        simp only [hj, hj', if_false, Bool.false_eq_true]
        exact ih _ _

/-- `age -e -r … -R … -i … -j …`: the recipients handed to `encrypt` are those of the `-r` arguments, then those of the `-R`
    files, then those derived from the `-i` files and `-j` plugins — each group in the order given —; any failure ends the
    process before `encrypt` is called -/
theorem encryptNotPass_tie (recs files : List Bytes) (flags : List main_identityFlag) (inp : Bytes) (out : ζ) (armor : Bool) (t0 : τ) :
    main_encryptNotPass PR PRF PIF I2R ui NI IR E recs files flags inp out armor t0 =
      (do let a ← collectR PR recs t0 []
          let b ← collectRF PRF files a.1 a.2
          let c ← collectIR PIF I2R ui NI IR flags b.1 b.2
          E c.2 inp out armor c.1) := by
  simp only [main_encryptNotPass, encryptNotPass_loop1, encryptNotPass_loop2, encryptNotPass_loop3, bind, Except.bind, pure,
    Except.pure, Except.map]
  cases h1 : collectR PR recs t0 [] with
  | error e => rfl
  | ok a =>
    simp only []
    cases h2 : collectRF PRF files a.1 a.2 with
    | error e => rfl
    | ok b =>
      simp only []
      cases h3 : collectIR PIF I2R ui NI IR flags b.1 b.2 with
      | error e => rfl
      | ok c =>
        simp only []
        cases E c.2 inp out armor c.1 <;> rfl

end

end GoTie
end AgeModel
