/-
  Proofs.GoTieSshRsa — the ssh-rsa recipient and identity, as they stand in the source.

  `(*RSARecipient).Wrap` and `(*RSAIdentity).unwrap` are TRANSLATED from agessh/agessh.go on
  every run; `rsa.EncryptOAEP(sha256.New(), rand.Reader, …)` and `rsa.DecryptOAEP` are parameters
  (`RsaEnv`: encryption consumes a 32-byte seed from the random source and is the model's `oaepEnc`,
  decryption is `oaepDec`), `sshFingerprint` as in `SshEnv`. The theorems: the stanza is the model's
  `wrapSshRsa` (type, the key's tag as the only argument, OAEP under the label as body); `unwrap`
  answers what `unwrapSshRsa` answers (another tag: "incorrect identity"; a decryption failure under
  the right tag: fatal).
-/
import AgeModel.GoSem
import AgeModel.Recipients
import AgeModel.File
import AgeModel.Extracted.Funcs
import Proofs.GoTieTape
import Proofs.GoTieUnwrap
import Proofs.GoTieSsh
namespace AgeModel
namespace GoTie
open Extracted

structure RsaEnv (P : Prims) (π β γ : Type) where
  wire : π → Bytes
  Fp : π → Go.M Bytes
  hFp : ∀ k, Fp k = .ok (sshTag P (wire k))
  pubOf : β → Bytes
  privOf : γ → Bytes
  eRand : Go.Err
  eEnc : Go.Err
  eDec : Go.Err
  EncO : Bytes → β → Bytes → Bytes → Go.M (Bytes × Option Go.Err × Bytes)
  hEncO : ∀ tape k m l, EncO tape k m l = .ok (match draw 32 tape with
    | none => ([], some eRand, tape)
    | some (seed, t) => match P.oaepEnc (pubOf k) seed m l with
      | some c => (c, none, t)
      | none => ([], some eEnc, t))
  DecO : γ → Bytes → Bytes → Go.M (Bytes × Option Go.Err)
  hDecO : ∀ k c l, DecO k c l = .ok (match P.oaepDec (privOf k) c l with
    | some m => (m, none)
    | none => ([], some eDec))

theorem sshRsa_wrap_tie (P : Prims) {π β γ : Type} (E : RsaEnv P π β γ) (key : π) (pub : β) (fk tape : Bytes) :
    ∃ res, agessh_RSARecipient_Wrap E.Fp E.EncO ⟨key, pub⟩ fk tape = .ok res ∧
      match wrapOne P (.sshRsa (E.wire key) (E.pubOf pub)) fk tape with
      | .error () => res = ([], some E.eRand, tape)
      | .ok (some (ss, ls), t) => res = (ss.map toGoStanza, none, t) ∧ ls = []
      | .ok (none, t) => res = ([], some E.eEnc, t) := by
  simp only [agessh_RSARecipient_Wrap, E.hFp, E.hEncO, bind, Except.bind, pure, Except.pure, wrapOne]
  cases hd : draw 32 tape with
  | none => exact ⟨_, rfl, rfl⟩
  | some st =>
    obtain ⟨seed, t⟩ := st
    simp only [wrapSshRsa]
    cases he : P.oaepEnc (E.pubOf pub) seed fk oaepLabel with
    | none =>
      have he' : P.oaepEnc (E.pubOf pub) seed fk [97, 103, 101, 45, 101, 110, 99, 114, 121, 112, 116, 105, 111, 110, 46, 111, 114, 103, 47, 118, 49, 47, 115, 115, 104, 45, 114, 115, 97] = none := he
      simp only [he']
      exact ⟨_, rfl, rfl⟩
    | some c =>
      have he' : P.oaepEnc (E.pubOf pub) seed fk [97, 103, 101, 45, 101, 110, 99, 114, 121, 112, 116, 105, 111, 110, 46, 111, 114, 103, 47, 118, 49, 47, 115, 115, 104, 45, 114, 115, 97] = some c := he
      simp only [he']
      exact ⟨_, rfl, rfl, rfl⟩

theorem sshRsa_unwrap_tie (P : Prims) {π β γ : Type} (E : RsaEnv P π β γ) (key : π) (priv : γ) (s : Format.Stanza) :
    ∃ r, agessh_RSAIdentity_unwrap E.Fp E.DecO ⟨priv, key⟩ (toGoStanza s) = .ok r ∧
      resClass r = unwrapSshRsa P (E.wire key) (E.privOf priv) s := by
  obtain ⟨ty, args, body⟩ := s
  simp only [agessh_RSAIdentity_unwrap, toGoStanza, unwrapSshRsa, bind, Except.bind, pure, Except.pure, tSshRsa, oaepLabel]
  by_cases hty : ty = [115, 115, 104, 45, 114, 115, 97]
  · subst hty
    simp only [bne_self_eq_false, Bool.false_eq_true, if_false, ne_eq, not_true_eq_false]
    match args with
    | [] => exact ⟨_, rfl, by simp [resClass, age_ErrIncorrectIdentity]⟩
    | [tag] =>
      have hidx : Go.idx [tag] (0 : Int) = .ok tag := rfl
      have hlen : (Go.len [tag] != (1 : Int)) = false := by simp [Go.len]
      simp only [hlen, Bool.false_eq_true, if_false, hidx, E.hFp]
      by_cases htag : tag = sshTag P (E.wire key)
      · subst htag
        simp only [bne_self_eq_false, Bool.false_eq_true, if_false, not_true_eq_false, E.hDecO]
        cases hd : P.oaepDec (E.privOf priv) body [97, 103, 101, 45, 101, 110, 99, 114, 121, 112, 116, 105, 111, 110, 46, 111, 114, 103, 47, 118, 49, 47, 115, 115, 104, 45, 114, 115, 97] with
        | none => exact ⟨_, rfl, by simp [resClass, age_ErrIncorrectIdentity]⟩
        | some m => exact ⟨_, rfl, by simp [resClass]⟩
      · have hb : (tag != sshTag P (E.wire key)) = true := by simp [htag]
        simp only [hb, if_true, htag, not_false_eq_true]
        exact ⟨_, rfl, by simp [resClass, age_ErrIncorrectIdentity]⟩
    | _ :: _ :: _ =>
      exact ⟨_, rfl, by simp [resClass, age_ErrIncorrectIdentity]⟩
  · have hb : (ty != [115, 115, 104, 45, 114, 115, 97]) = true := by simp [hty]
    simp only [hb, if_true]
    exact ⟨_, rfl, by simp [resClass, age_ErrIncorrectIdentity, hty]⟩

theorem sshRsa_Unwrap_tie (P : Prims) {π β γ : Type} (E : RsaEnv P π β γ) (key : π) (priv : γ) (ss : List Format.Stanza) :
    ∃ r, agessh_RSAIdentity_Unwrap errorsIsEq E.Fp E.DecO ⟨priv, key⟩ (ss.map toGoStanza) = .ok r ∧
      resClass r = (Identity.unwrapLog P (.sshRsa (E.wire key) (E.privOf priv)) ss).1 := by
  have hU : ∀ s, ∃ r, agessh_RSAIdentity_unwrap E.Fp E.DecO ⟨priv, key⟩ s = .ok r := by
    intro s
    obtain ⟨r, hr, _⟩ := sshRsa_unwrap_tie P E key priv ⟨s.Type_, s.Args, s.Body⟩
    exact ⟨r, hr⟩
  obtain ⟨r, hr, hcl⟩ := ssh_multiUnwrap_tie _ hU ss
  refine ⟨r, ?_, ?_⟩
  · simp only [agessh_RSAIdentity_Unwrap, bind, Except.bind, pure, Except.pure, hr]
  · rw [hcl]
    simp only [Identity.unwrapLog]
    congr 1
    funext s
    obtain ⟨r', hr', hc'⟩ := sshRsa_unwrap_tie P E key priv s
    simp only [stanzaClass, hr', hc']

end GoTie
end AgeModel
