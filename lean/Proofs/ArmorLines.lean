/-
  Proofs.ArmorLines — the line view of the canonical armor.
-/
import Proofs.ArmorReaderTop
namespace AgeModel
namespace Armor
open Format (nl cr sp wrap wrap_short wrap_app64)
open B64

theorem lines_nil : lines [] = [] := by simp [lines, linesOf, getLine]

theorem lines_body (b : Bytes) : ∀ (n : Nat), b.length < 48 * (n + 1) →
    lines (wrap (encStd b) ++ tailOf (encStd b)) = bodyLines b ++ [footer] := by
  intro n
  induction n generalizing b with
  | zero =>
    intro hb
    by_cases h0 : b = []
    · subst h0
      simp only [encStd, tailOf, List.length_nil, Nat.zero_mod, if_true, List.nil_append]
      rw [wrap_short (by simp), List.nil_append,
        lines_cons (getLine_line false footer [] footer_props.1 footer_props.2), lines_nil, bodyLines_nil]
      rfl
    · have hl := encStd_length b
      have hpos : 0 < b.length := List.length_pos_iff.mpr h0
      have hshape : wrap (encStd b) ++ tailOf (encStd b) = encStd b ++ nl :: (footer ++ [nl]) := by
        by_cases hlt : (encStd b).length < 64
        · have hmod : ¬ (encStd b).length % 64 = 0 := by omega
          rw [wrap_short hlt]
          simp [tailOf, hmod]
        · have h64 : (encStd b).length = 64 := by omega
          have := wrap_app64 (x := encStd b) (y := []) h64
          rw [List.append_nil] at this
          rw [this, wrap_short (by simp)]
          simp [tailOf, h64]
      rw [hshape, lines_cons (getLine_line false _ _ (nl_not_mem_encStd b) (cr_not_mem_encStd b))]
      have e2 : footer ++ [nl] = footer ++ nl :: [] := by simp
      rw [e2, lines_cons (getLine_line false footer [] footer_props.1 footer_props.2), lines_nil,
        bodyLines_short b h0 (by omega)]
      rfl
  | succ n ih =>
    intro hb
    by_cases hlt : b.length < 48 * (n + 1)
    · exact ih b hlt
    · have hsplit : b = b.take 48 ++ b.drop 48 := (List.take_append_drop 48 b).symm
      have ht : (b.take 48).length = 48 := by rw [List.length_take]; omega
      have hdl : (b.drop 48).length < 48 * (n + 1) := by rw [List.length_drop]; omega
      have henc : encStd b = encStd (b.take 48) ++ encStd (b.drop 48) := by
        conv => lhs; rw [hsplit]
        exact encStd_append _ _ (by omega)
      have hl48 : (encStd (b.take 48)).length = 64 := by rw [encStd_length, ht]
      have htail : tailOf (encStd b) = tailOf (encStd (b.drop 48)) := by
        unfold tailOf; rw [henc, List.length_append, hl48]; simp
      rw [htail, henc, wrap_app64 hl48, List.append_assoc, List.cons_append,
        lines_cons (getLine_line false _ _ (nl_not_mem_encStd _) (cr_not_mem_encStd _)), ih (b.drop 48) hdl]
      conv => rhs; rw [hsplit, bodyLines_cons _ _ ht]
      rfl

/-- the canonical armor, line by line: BEGIN, the body lines, END -/
theorem lines_armor (b : Bytes) : lines (armor b) = header :: (bodyLines b ++ [footer]) := by
  unfold armor
  have e : header ++ [nl] ++ wrap (encStd b) ++ (if (encStd b).length % 64 = 0 then [] else [nl]) ++ footer ++ [nl]
      = header ++ nl :: (wrap (encStd b) ++ tailOf (encStd b)) := by simp [tailOf]
  rw [e, lines_cons (getLine_line false header _ header_props.1 header_props.2.1), lines_body b (b.length / 48) (by omega)]

end Armor
end AgeModel
