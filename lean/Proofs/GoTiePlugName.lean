/-
  Proofs.GoTiePlugName — plugin.validPluginName as translated is the model's
  (split out of Proofs.GoTieMisc so that a rewrite of one translated function only takes down the theorems about it)
-/
import AgeModel.GoSem
import AgeModel.Stream
import AgeModel.Format
import AgeModel.Keys
import AgeModel.Extracted.Funcs
import Proofs.GoTieRunes
namespace AgeModel
namespace GoTie
open Extracted

/-! ## plugin.validPluginName, age.slicesEqual -/

theorem findIdxInt_nonneg {α : Type} (p : α → Bool) : ∀ l : List α, (0 ≤ Go.findIdxInt p l) ↔ l.any p = true
  | [] => by simp [Go.findIdxInt]
  | x :: xs => by
    have ih := findIdxInt_nonneg p xs
    simp only [Go.findIdxInt, List.any_cons, Bool.or_eq_true]
    by_cases hx : p x = true
    · simp [hx]
    · simp only [hx, Bool.false_eq_true, if_false, false_or, ← ih]
      split <;> omega

theorem containsRune_ascii (a : List UInt8) (b : UInt8) (hb : b.toNat < 128) :
    Go.strings_ContainsRune a (Int.ofNat b.toNat) = a.contains b := by
  have hr : (0 : Int) ≤ Int.ofNat b.toNat ∧ Int.ofNat b.toNat < 0x80 := by
    simp only [Int.ofNat_eq_natCast]; omega
  simp only [Go.strings_ContainsRune, Go.strings_IndexRune, hr, and_self, if_true, ge_iff_le]
  rw [Bool.eq_iff_iff, decide_eq_true_iff, findIdxInt_nonneg, List.any_eq_true, List.contains_iff_mem]
  constructor
  · rintro ⟨c, hc, e⟩
    have : c = b := by
      apply UInt8.toNat_inj.mp
      have e' : (c.toNat : Int) = (b.toNat : Int) := by simpa using e
      omega
    exact this ▸ hc
  · intro h
    exact ⟨b, h, by simp⟩

theorem containsRune_nonascii (a : List UInt8) (ha : Go.isAscii a = true) (r : Int) (hr : 128 ≤ r) :
    Go.strings_ContainsRune a r = false := by
  have : ¬ (0 ≤ r ∧ r < 0x80) := by omega
  simp only [Go.strings_ContainsRune, Go.strings_IndexRune, this, if_false, ha, if_true]
  decide

theorem validPluginName_loop (allowed : List UInt8) (rs : List (Int × Int)) :
    plugin_validPluginName_loop1 allowed rs =
      .ok (if rs.any (fun p => !Go.strings_ContainsRune allowed p.2) then .ret false else .next ()) := by
  induction rs with
  | nil => rfl
  | cons p rest ih =>
    simp only [plugin_validPluginName_loop1, List.any_cons]
    by_cases hp : (!Go.strings_ContainsRune allowed p.2) = true
    · simp only [hp, if_true, Bool.true_or]; rfl
    · have hp' := Bool.eq_false_iff.mpr hp
      simp only [hp', Bool.false_or, ih, Bool.false_eq_true, if_false]

theorem allowed_ascii : Go.isAscii Keys.allowed = true := by decide

theorem allowed_lt : ∀ b : UInt8, 128 ≤ b.toNat → Keys.allowed.contains b = false := by
  intro b hb
  rw [Bool.eq_false_iff]
  intro h
  have hm := List.contains_iff_mem.mp h
  have := List.all_eq_true.mp allowed_ascii b hm
  have := (u8_lt_128 b).mp (of_decide_eq_true this)
  omega

theorem validPluginName_tie (n : Bytes) : plugin_validPluginName n = .ok (Keys.validPluginName n) := by
  cases n with
  | nil => rfl
  | cons b rest =>
    have hl : ((b :: rest) == ([] : List UInt8)) = false := rfl
    have hany := runes_any (fun r => !Go.strings_ContainsRune Keys.allowed r)
      (fun b => !Keys.allowed.contains b)
      (fun b hb => by simp only [containsRune_ascii Keys.allowed b hb])
      (fun b hb => by simp only [allowed_lt b hb, Bool.not_false])
      (fun r hr => by simp only [containsRune_nonascii Keys.allowed allowed_ascii r hr, Bool.not_false])
      (b :: rest)
    have hv : Keys.validPluginName (b :: rest) = !(b :: rest).any (fun b => !Keys.allowed.contains b) := by
      simp only [Keys.validPluginName, reduceCtorEq, if_false, List.all_eq_not_any_not]
    rw [hv, ← hany]
    simp only [plugin_validPluginName, hl, validPluginName_loop, bind, Except.bind, pure,
      Except.pure, Bool.false_eq_true, if_false]
    unfold Keys.allowed
    generalize List.any _ _ = x
    cases x <;> rfl


end GoTie
end AgeModel
