/-
  Proofs.GoTiePipeline — C01's whole pipeline about the translated code, in one statement.

  `age.Encrypt` (translated) on an empty destination that takes every write; the writer it returns is
  the translated stream writer over that destination; any input in any split into writes goes
  through the translated `Write`, then `Close`; the translated `age.Decrypt` over what the
  destination then holds — with any identity list whose first identity not answering "incorrect
  identity" opens the file key — returns a reader under the SAME stream key over the payload; and the
  translated stream reader over that payload under that key, called with any sequence of positive
  buffer sizes long enough to reach the end, returns exactly the input followed by io.EOF.
  Composition of `code_file_roundtrip`, `streamWrites_tie` / `streamClose_tie` and
  `code_stream_read_back`; what joins the two halves is stated as hypotheses: the writer handle
  `Encrypt` returns IS the stream writer's initial state over the destination (`hmk`: what
  `stream.NewWriter` builds, `Tie/C12.newWriter_tie`), and the two destination views coincide (`hD`).
-/
import Proofs.GoTieFileRT
import Proofs.GoTieStreamRT
import Proofs.GoTieStreamNew
namespace AgeModel
namespace GoTie
open Extracted Format Stream

set_option linter.unusedVariables false in
theorem code_pipeline (P : Prims) (hP : P.Correct) (hN : P.aead.NonceSep) {ρ δ α ι : Type}
    (EE : EncryptEnv P DstSpec.perfect ρ δ (stream_Writer α δ)) (DE : DecryptEnv P ι)
    (d : δ) (hd : (EE.absD d).acc = []) (rs : List ρ) (tape : Bytes)
    (hrs : ∀ r ∈ rs.map EE.recOf, r.ProducesWF P)
    (fk : Bytes) (stanzas : List Stanza) (t nonce t' : Bytes)
    (hh : encryptHeader P tape (rs.map EE.recOf) = .ok (fk, stanzas, t))
    (hn : draw streamNonceSize t = some (nonce, t'))
    (pre post : List ι) (id : ι)
    (hpre : ∀ i ∈ pre, (DE.idOf i).unwrap P stanzas = .incorrect) (hid : (DE.idOf id).unwrap P stanzas = .key fk)
    (a : α)
    (hmk : ∀ d', EE.mkW (streamKey P fk nonce) d' = ⟨a, d', 0, 0, List.replicate 65552 0, List.replicate 12 0, none⟩)
    (SE : AeadEnv α P.aead (streamKey P fk nonce)) (D : DstEnv δ DstSpec.perfect) (hD : D.absD = EE.absD)
    (ps : List Bytes) (hlen : ps.flatten.length < 2 ^ 64) (sizes : List Nat) (hpos : ∀ s ∈ sizes, 0 < s)
    (hlong : ps.flatten.length + (encrypt P.aead 65536 (streamKey P fk nonce) ps.flatten).length + 1 < sizes.length) :
    ∃ res w1 w2 r',
      age_Encrypt EE.nilW (tapeRead EE.eRand) EE.W EE.mac EE.marshalF EE.write EE.newWriter EE.key d rs tape = .ok res ∧
      res.2.1 = none ∧
      streamWrites SE D res.1 ps = .ok (none, w1) ∧
      stream_Writer_Close SE.seal_ D.write w1 = .ok (none, w2) ∧
      (EE.absD w2.dst).acc = headerBytes P fk stanzas ++ nonce ++ encrypt P.aead 65536 (streamKey P fk nonce) ps.flatten ∧
      age_Decrypt DE.D DE.U errorsIsEq DE.mac DE.newReader DE.key (EE.absD w2.dst).acc (pre ++ id :: post) =
        .ok (streamKey P fk nonce ++ encrypt P.aead 65536 (streamKey P fk nonce) ps.flatten, none) ∧
      streamReads SE ⟨a, ⟨encrypt P.aead 65536 (streamKey P fk nonce) ps.flatten, false⟩, 0, 0, List.replicate 65552 0, none,
          List.replicate 12 0⟩ sizes = .ok (r', ps.flatten, Go.io_EOF) := by
  obtain ⟨res, hrun, hnone, hw, _, hacc, hdecr⟩ := code_file_roundtrip P hP EE DE d hd rs tape hrs fk stanzas t nonce t' hh hn
    pre post id hpre hid
  rw [hmk] at hw
  have hrel : WRel D res.1 (Writer.new (D.absD res.2.2.1)) := by rw [hw]; exact newWriter_rel D a res.2.2.1
  have hinv := WInv_new P.aead 65536 (streamKey P fk nonce) (D.absD res.2.2.1)
  obtain ⟨w1, m1, hws, hr1, hi1⟩ := streamWrites_tie DstSpec.perfect_neverFails P.aead (streamKey P fk nonce) SE D
    (D.absD res.2.2.1).acc ps res.1 _ [] hrel hinv (by simpa using hlen)
  rw [List.nil_append] at hi1
  obtain ⟨w2, hcl, hacc2⟩ := streamClose_tie DstSpec.perfect_neverFails P.aead (streamKey P fk nonce) SE D
    (D.absD res.2.2.1).acc w1 m1 ps.flatten hr1 hi1 hlen
  rw [hD] at hacc2
  rw [hacc] at hacc2
  obtain ⟨r', hrd⟩ := code_stream_read_back P.aead hP.aead hN (streamKey P fk nonce) SE a ps.flatten hlen sizes hpos hlong
  refine ⟨res, w1, w2, r', hrun, hnone, hws, hcl, hacc2, ?_, hrd⟩
  rw [hacc2, ← hacc]
  exact hdecr _

end GoTie
end AgeModel
