/- chunk 1 of the weight-4 computation (see Proofs/Bech32Pairs.lean) -/
import Proofs.Bech32Pairs
namespace AgeModel
namespace Bech32
theorem pairs_chunk_1 : chunk 1 = true := by decide +kernel
end Bech32
end AgeModel
