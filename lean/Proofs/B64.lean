/-
  Proofs.B64 — strict base64: both directions of the round trip, lengths,
  concatenation at 3-byte boundaries, alphabet facts.
-/
import AgeModel.B64
namespace AgeModel
namespace B64

theorem unalphaN_alphaN : ∀ n, n < 64 → unalphaN (alphaN n) = some n := by decide

theorem alphaN_lt : ∀ n, n < 64 → alphaN n < 256 := by decide

def okc (c : Nat) : Bool :=
  match unalphaN c with
  | some n => alphaN n == c && decide (n < 64)
  | none => true

theorem okc_all : ∀ c, c < 256 → okc c = true := by decide +kernel

theorem alphaN_unalphaN_aux (c : Nat) (hc : c < 256) {n : Nat} (h : unalphaN c = some n) :
    alphaN n = c ∧ n < 64 := by
  have := okc_all c hc
  unfold okc at this
  rw [h] at this
  simpa using this

theorem u8 (a : UInt8) : a.toNat < 256 := by have := a.toNat_lt; omega

theorem u8r (n : Nat) (h : n < 256) : n.toUInt8.toNat = n := by
  simp [Nat.toUInt8, UInt8.ofNat, UInt8.toNat]; omega

theorem u8eq (a : UInt8) (n : Nat) (h : n = a.toNat) : n.toUInt8 = a := by
  subst h; simp

theorem unalpha_alpha (n : Nat) (h : n < 64) : unalpha (alpha n) = some n := by
  unfold unalpha alpha
  rw [u8r _ (alphaN_lt n h)]
  exact unalphaN_alphaN n h

theorem alpha_unalpha {c : UInt8} {n : Nat} (h : unalpha c = some n) : alpha n = c ∧ n < 64 := by
  unfold unalpha at h
  have := alphaN_unalphaN_aux c.toNat (u8 c) h
  exact ⟨by unfold alpha; exact u8eq c _ this.1, this.2⟩

/-- characters of the alphabet are letters, digits, `+` or `/` -/
theorem alphaN_range : ∀ n, n < 64 →
    (65 ≤ alphaN n ∧ alphaN n ≤ 90) ∨ (97 ≤ alphaN n ∧ alphaN n ≤ 122) ∨ (47 ≤ alphaN n ∧ alphaN n ≤ 57) ∨ alphaN n = 43 := by
  decide

theorem alpha_ne (n : Nat) (h : n < 64) (c : UInt8) (hc : c.toNat = 10 ∨ c.toNat = 13 ∨ c.toNat = 32 ∨ c.toNat = 61 ∨ c.toNat = 45) :
    alpha n ≠ c := by
  intro he
  have h1 : (alpha n).toNat = alphaN n := by unfold alpha; exact u8r _ (alphaN_lt n h)
  rw [he] at h1
  have := alphaN_range n h
  omega

/-! ### decode ∘ encode -/

theorem decRaw_encRaw : ∀ b : Bytes, decRaw (encRaw b) = some b
  | a :: b :: c :: rest => by
    have ha := u8 a; have hb := u8 b; have hc := u8 c
    have ih := decRaw_encRaw rest
    simp only [encRaw, decRaw]
    rw [unalpha_alpha _ (by omega), unalpha_alpha _ (by omega), unalpha_alpha _ (by omega), unalpha_alpha _ (by omega)]
    simp only [Option.bind_eq_bind, Option.bind_some, ih, Option.pure_def]
    simp only [Option.some.injEq, List.cons.injEq, and_true]
    exact ⟨u8eq a _ (by omega), u8eq b _ (by omega), u8eq c _ (by omega)⟩
  | [a, b] => by
    have ha := u8 a; have hb := u8 b
    simp only [encRaw, decRaw]
    rw [unalpha_alpha _ (by omega), unalpha_alpha _ (by omega), unalpha_alpha _ (by omega)]
    simp only [Option.bind_eq_bind, Option.bind_some, Option.pure_def]
    rw [if_neg (by omega)]
    congr 2
    · exact u8eq a _ (by omega)
    · congr 1; exact u8eq b _ (by omega)
  | [a] => by
    have ha := u8 a
    simp only [encRaw, decRaw]
    rw [unalpha_alpha _ (by omega), unalpha_alpha _ (by omega)]
    simp only [Option.bind_eq_bind, Option.bind_some, Option.pure_def]
    rw [if_neg (by omega)]
    congr 2
    exact u8eq a _ (by omega)
  | [] => by simp [encRaw, decRaw]

/-! ### encode ∘ decode: whatever decodes is the canonical encoding of the result -/

theorem encRaw_decRaw : ∀ (s b : Bytes), decRaw s = some b → s = encRaw b
  | w :: x :: y :: z :: rest, b, h => by
    simp only [decRaw, Option.bind_eq_bind, Option.pure_def] at h
    cases hw : unalpha w with
    | none => simp [hw] at h
    | some wv =>
    cases hx : unalpha x with
    | none => simp [hw, hx] at h
    | some xv =>
    cases hy : unalpha y with
    | none => simp [hw, hx, hy] at h
    | some yv =>
    cases hz : unalpha z with
    | none => simp [hw, hx, hy, hz] at h
    | some zv =>
    cases hr : decRaw rest with
    | none => simp [hw, hx, hy, hz, hr] at h
    | some r =>
    simp only [hw, hx, hy, hz, hr, Option.bind_some, Option.some.injEq] at h
    subst h
    have ⟨aw, lw⟩ := alpha_unalpha hw
    have ⟨ax, lx⟩ := alpha_unalpha hx
    have ⟨ay, ly⟩ := alpha_unalpha hy
    have ⟨az, lz⟩ := alpha_unalpha hz
    have ih := encRaw_decRaw rest r hr
    simp only [encRaw]
    rw [u8r _ (by omega), u8r _ (by omega), u8r _ (by omega)]
    have e1 : ((wv * 262144 + xv * 4096 + yv * 64 + zv) / 65536 * 65536 + (wv * 262144 + xv * 4096 + yv * 64 + zv) / 256 % 256 * 256 + (wv * 262144 + xv * 4096 + yv * 64 + zv) % 256) = wv * 262144 + xv * 4096 + yv * 64 + zv := by omega
    rw [e1]
    have f1 : (wv * 262144 + xv * 4096 + yv * 64 + zv) / 262144 = wv := by omega
    have f2 : (wv * 262144 + xv * 4096 + yv * 64 + zv) / 4096 % 64 = xv := by omega
    have f3 : (wv * 262144 + xv * 4096 + yv * 64 + zv) / 64 % 64 = yv := by omega
    have f4 : (wv * 262144 + xv * 4096 + yv * 64 + zv) % 64 = zv := by omega
    rw [f1, f2, f3, f4, aw, ax, ay, az, ← ih]
  | [w, x, y], b, h => by
    simp only [decRaw, Option.bind_eq_bind, Option.pure_def] at h
    cases hw : unalpha w with
    | none => simp [hw] at h
    | some wv =>
    cases hx : unalpha x with
    | none => simp [hw, hx] at h
    | some xv =>
    cases hy : unalpha y with
    | none => simp [hw, hx, hy] at h
    | some yv =>
    simp only [hw, hx, hy, Option.bind_some] at h
    split at h
    · simp at h
    · rename_i hmod
      simp only [Option.some.injEq] at h
      subst h
      have ⟨aw, lw⟩ := alpha_unalpha hw
      have ⟨ax, lx⟩ := alpha_unalpha hx
      have ⟨ay, ly⟩ := alpha_unalpha hy
      simp only [encRaw]
      rw [u8r _ (by omega), u8r _ (by omega)]
      have e1 : (wv * 4096 + xv * 64 + yv) / 1024 * 1024 + (wv * 4096 + xv * 64 + yv) / 4 % 256 * 4 = wv * 4096 + xv * 64 + yv := by omega
      rw [e1]
      have f1 : (wv * 4096 + xv * 64 + yv) / 4096 = wv := by omega
      have f2 : (wv * 4096 + xv * 64 + yv) / 64 % 64 = xv := by omega
      have f3 : (wv * 4096 + xv * 64 + yv) % 64 = yv := by omega
      rw [f1, f2, f3, aw, ax, ay]
  | [w, x], b, h => by
    simp only [decRaw, Option.bind_eq_bind, Option.pure_def] at h
    cases hw : unalpha w with
    | none => simp [hw] at h
    | some wv =>
    cases hx : unalpha x with
    | none => simp [hw, hx] at h
    | some xv =>
    simp only [hw, hx, Option.bind_some] at h
    split at h
    · simp at h
    · rename_i hmod
      simp only [Option.some.injEq] at h
      subst h
      have ⟨aw, lw⟩ := alpha_unalpha hw
      have ⟨ax, lx⟩ := alpha_unalpha hx
      simp only [encRaw]
      rw [u8r _ (by omega)]
      have e1 : (wv * 64 + xv) / 16 * 16 = wv * 64 + xv := by omega
      rw [e1]
      have f1 : (wv * 64 + xv) / 64 = wv := by omega
      have f2 : (wv * 64 + xv) % 64 = xv := by omega
      rw [f1, f2, aw, ax]
  | [_], b, h => by simp [decRaw] at h
  | [], b, h => by simp [decRaw] at h; subst h; rfl

/-! ### lengths and concatenation -/

theorem encRaw_length : ∀ b : Bytes, (encRaw b).length = (b.length * 4 + 2) / 3
  | a :: b :: c :: rest => by
    simp only [encRaw, List.length_cons, encRaw_length rest]; omega
  | [a, b] => by simp [encRaw]
  | [a] => by simp [encRaw]
  | [] => by simp [encRaw]

theorem encRaw_append : ∀ (a b : Bytes), a.length % 3 = 0 → encRaw (a ++ b) = encRaw a ++ encRaw b
  | x :: y :: z :: rest, b, h => by
    simp only [List.cons_append, encRaw]
    rw [encRaw_append rest b (by simp only [List.length_cons] at h; omega)]
  | [x, y], b, h => by simp at h
  | [x], b, h => by simp at h
  | [], b, h => by simp [encRaw]

/-- every character of an encoding is an alphabet character, hence none of LF, CR, SP, `=`, `-` -/
theorem encRaw_chars : ∀ (b : Bytes) (c : UInt8), c ∈ encRaw b → ∃ n, n < 64 ∧ c = alpha n
  | a :: b :: d :: rest, c, h => by
    have ha := u8 a; have hb := u8 b; have hd := u8 d
    simp only [encRaw, List.mem_cons] at h
    rcases h with h | h | h | h | h
    · exact ⟨_, by omega, h⟩
    · exact ⟨_, by omega, h⟩
    · exact ⟨_, by omega, h⟩
    · exact ⟨_, by omega, h⟩
    · exact encRaw_chars rest c h
  | [a, b], c, h => by
    have ha := u8 a; have hb := u8 b
    simp only [encRaw, List.mem_cons, List.not_mem_nil, or_false] at h
    rcases h with h | h | h
    · exact ⟨_, by omega, h⟩
    · exact ⟨_, by omega, h⟩
    · exact ⟨_, by omega, h⟩
  | [a], c, h => by
    have ha := u8 a
    simp only [encRaw, List.mem_cons, List.not_mem_nil, or_false] at h
    rcases h with h | h
    · exact ⟨_, by omega, h⟩
    · exact ⟨_, by omega, h⟩
  | [], c, h => by simp [encRaw] at h

theorem encRaw_not_mem (b : Bytes) (c : UInt8)
    (hc : c.toNat = 10 ∨ c.toNat = 13 ∨ c.toNat = 32 ∨ c.toNat = 61 ∨ c.toNat = 45) : c ∉ encRaw b := by
  intro h
  obtain ⟨n, hn, he⟩ := encRaw_chars b c h
  exact alpha_ne n hn c hc he.symm

end B64
end AgeModel
