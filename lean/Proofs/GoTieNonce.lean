/-
  Proofs.GoTieNonce — internal/stream: incNonce, setLastChunkFlag, nonceIsZero as translated are the model's nonce arithmetic
  (split out of Proofs.GoTieMisc so that a rewrite of one translated function only takes down the theorems about it)
-/
import AgeModel.GoSem
import AgeModel.Stream
import AgeModel.Format
import AgeModel.Keys
import AgeModel.Extracted.Funcs
import Proofs.Nonce
namespace AgeModel
namespace GoTie
open Extracted

/-! ## internal/stream: the nonce is an 88-bit big-endian counter and a flag byte -/

/-- `[n-1, n-2, …, 0]` -/
def downFrom : Nat → List Int
  | 0 => []
  | n + 1 => Int.ofNat n :: downFrom n

theorem idx_append_mid {α : Type} (p : List α) (x : α) (q : List α) (n : Nat) (hn : p.length = n) :
    Go.idx (p ++ x :: q) (Int.ofNat n) = .ok x := by
  subst hn
  simp [Go.idx]

theorem set_append_mid {α : Type} (p : List α) (x y : α) (q : List α) (n : Nat) (hn : p.length = n) :
    Go.set (p ++ x :: q) (Int.ofNat n) y = .ok (p ++ y :: q) := by
  subst hn
  simp [Go.set]

theorem toUInt8_succ (m : Nat) : m.toUInt8 + 1 = (m + 1).toUInt8 := by
  apply UInt8.toNat_inj.mp
  simp [Nat.toUInt8]

theorem incNonce_loop : ∀ (n i : Nat) (suffix : Bytes), i + 1 < 256 ^ n →
    stream_incNonce_loop1 (downFrom n) (be n i ++ suffix) = .ok (.next (be n (i + 1) ++ suffix))
  | 0, i, suffix, h => by simp at h
  | n + 1, i, suffix, h => by
    have hlen := be_length n (i / 256)
    simp only [downFrom, be, stream_incNonce_loop1, List.append_assoc, List.singleton_append,
      idx_append_mid _ _ _ n hlen, set_append_mid _ _ _ _ n hlen, bind, Except.bind, pure, Except.pure]
    rw [toUInt8_succ]
    by_cases hc : i % 256 = 255
    · have h0 : (i % 256 + 1).toUInt8 = 0 := by rw [hc]; rfl
      have hq : i / 256 + 1 < 256 ^ n := by rw [Nat.pow_succ] at h; omega
      have hn : n ≠ 0 := by intro h0; subst h0; simp at hq
      have e1 : (i + 1) / 256 = i / 256 + 1 := by omega
      have e2 : (i + 1) % 256 = 0 := by omega
      rw [h0, e1, e2]
      have hn' : (Int.ofNat n == 0) = false := by
        simp only [Int.ofNat_eq_natCast, beq_eq_false_iff_ne, ne_eq]; omega
      simp only [bne_self_eq_false, Bool.false_eq_true, if_false, hn']
      exact incNonce_loop n (i / 256) _ hq
    · have h0 : ((i % 256 + 1).toUInt8 != 0) = true := by
        simp only [bne_iff_ne, ne_eq]
        intro hh
        have := congrArg UInt8.toNat hh
        simp [Nat.toUInt8] at this
        omega
      have e1 : (i + 1) / 256 = i / 256 := by omega
      have e2 : (i + 1) % 256 = i % 256 + 1 := by omega
      rw [e1, e2]
      simp only [h0, if_true]

theorem rangeDown_10_0 : Go.rangeDown 10 0 = downFrom 11 := by decide

theorem incNonce_tie (i : Nat) (last : Bool) (h : i + 1 < 2 ^ 88) :
    stream_incNonce (Stream.nonce i last) = .ok (Stream.nonce (i + 1) last) := by
  have h' : i + 1 < 256 ^ 11 := by
    have e : (256 : Nat) ^ 11 = 2 ^ 88 := by decide
    rw [e]; exact h
  simp only [stream_incNonce, rangeDown_10_0, Stream.nonce, incNonce_loop 11 i _ h', bind, Except.bind,
    pure, Except.pure]

/-- the explicit panic of `incNonce` is exactly the wrap of the 88-bit counter -/
theorem incNonce_wrap (last : Bool) :
    stream_incNonce (Stream.nonce (2 ^ 88 - 1) last) = .error (.panic 0) := by
  cases last <;> rfl

theorem setLastChunkFlag_tie (i : Nat) (last : Bool) :
    stream_setLastChunkFlag (Stream.nonce i last) = .ok (Stream.nonce i true) := by
  show (Go.set (be 11 i ++ [if last then 1 else 0]) (Int.ofNat 11) 1 >>= fun n => pure n) = _
  rw [set_append_mid _ _ _ _ 11 (be_length 11 i)]
  rfl

theorem nonceIsZero_tie (i : Nat) (last : Bool) (h : i < 2 ^ 88) :
    stream_nonceIsZero (Stream.nonce i last) = .ok (decide (i = 0 ∧ last = false)) := by
  have e : List.replicate 12 (0 : UInt8) = Stream.nonce 0 false := by decide
  simp only [stream_nonceIsZero, pure, Except.pure, e]
  congr 1
  by_cases hz : i = 0 ∧ last = false
  · rw [hz.1, hz.2]; simp
  · rw [decide_eq_false hz]
    apply beq_eq_false_iff_ne.mpr
    intro hh
    exact hz (Stream.nonce_inj i 0 last false h (by decide) hh)


end GoTie
end AgeModel
