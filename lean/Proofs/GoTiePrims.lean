/-
  Proofs.GoTiePrims — the two key derivations of primitives.go, as they stand in the source.

  `age.headerMAC` and `age.streamKey` are TRANSLATED on every run; HKDF-SHA256 (`hkdf.New` and the
  `io.ReadFull` from it), HMAC-SHA256 (`hmac.New`, writing to it, `Sum`) and
  `(*Header).MarshalWithoutMAC` are PARAMETERS with stated assumptions (`MacEnv`). The theorems:
  the header MAC the source computes is HMAC, keyed with HKDF(file key, NO salt, "header"), of the
  header serialised without its MAC; the payload key is HKDF(file key, salt = the 16-byte nonce,
  "payload"); `streamKey` does not reach its panic.
-/
import AgeModel.GoSem
import AgeModel.File
import AgeModel.Extracted.Funcs
import Proofs.GoTieLines
namespace AgeModel
namespace GoTie
open Extracted

/-- what is assumed of the HKDF and HMAC objects and of `MarshalWithoutMAC`;
    `κ` is the HKDF reader, `η` the running HMAC -/
structure MacEnv (P : Prims) (κ η : Type) where
  H : Bytes → Bytes → Bytes → Go.M κ
  R : κ → Int → Go.M (Bytes × Option Go.Err × κ)
  hHR : ∀ s salt info, ∃ k k', H s salt info = .ok k ∧ R k 32 = .ok (P.hkdf s salt info 32, none, k')
  hLen : ∀ s salt info, (P.hkdf s salt info 32).length = 32
  /-- the running HMAC: its key and the bytes written so far -/
  absH : η → Bytes × Bytes
  N : Bytes → Go.M η
  hN : ∀ key, ∃ h, N key = .ok h ∧ absH h = (key, [])
  M : format_Header → η → Go.M (Option Go.Err × η)
  /-- writing to a hash never fails: the header without its MAC is appended -/
  hM : ∀ (hdr : Format.Header) (h : η), ∃ h', M ⟨hdr.stanzas.map toGoFStanza, hdr.mac⟩ h = .ok (none, h') ∧
        absH h' = ((absH h).1, (absH h).2 ++ Format.marshalNoMAC hdr)
  S : η → Bytes → Go.M Bytes
  hS : ∀ h, S h [] = .ok (P.hmac (absH h).1 (absH h).2)

theorem writeAt32' (b : Bytes) (h : b.length = 32) : Go.writeAt (List.replicate 32 0) 0 b = b := by
  simp [Go.writeAt, h]

theorem headerMAC_tie (P : Prims) {κ η : Type} (E : MacEnv P κ η) (fk : Bytes) (hdr : Format.Header) :
    age_headerMAC E.H E.R E.N E.M E.S fk ⟨hdr.stanzas.map toGoFStanza, hdr.mac⟩ =
      .ok (P.hmac (P.hkdf fk [] headerInfo 32) (Format.marshalNoMAC hdr), none) := by
  obtain ⟨k, k', hH, hR⟩ := E.hHR fk [] headerInfo
  obtain ⟨h0, hN, hA0⟩ := E.hN (P.hkdf fk [] headerInfo 32)
  obtain ⟨h1, hM, hA1⟩ := E.hM hdr h0
  have hmk : Go.makeList (0 : UInt8) 32 = .ok (List.replicate 32 0) := rfl
  have hlen : Go.len (List.replicate 32 (0 : UInt8)) = (32 : Int) := by simp [Go.len]
  have hH' : E.H fk [] [104, 101, 97, 100, 101, 114] = .ok k := hH
  simp only [age_headerMAC, hH', hmk, hlen, hR, bind, Except.bind, pure, Except.pure, writeAt32' _ (E.hLen _ _ _), hN, hM, E.hS, hA1, hA0]
  rfl

theorem streamKey_tie (P : Prims) {κ η : Type} (E : MacEnv P κ η) (fk nonce : Bytes) :
    age_streamKey E.H E.R fk nonce = .ok (streamKey P fk nonce) := by
  obtain ⟨k, k', hH, hR⟩ := E.hHR fk nonce payloadInfo
  have hmk : Go.makeList (0 : UInt8) 32 = .ok (List.replicate 32 0) := rfl
  have hlen : Go.len (List.replicate 32 (0 : UInt8)) = (32 : Int) := by simp [Go.len]
  have hH' : E.H fk nonce [112, 97, 121, 108, 111, 97, 100] = .ok k := hH
  simp only [age_streamKey, hH', hmk, hlen, hR, bind, Except.bind, pure, Except.pure, writeAt32' _ (E.hLen _ _ _)]
  rfl

/-- with the stanzas of `hdr`, this is the model's `headerMAC` -/
theorem headerMAC_model (P : Prims) {κ η : Type} (E : MacEnv P κ η) (fk : Bytes) (ss : List Format.Stanza) :
    age_headerMAC E.H E.R E.N E.M E.S fk ⟨ss.map toGoFStanza, []⟩ = .ok (headerMAC P fk ss, none) :=
  headerMAC_tie P E fk { stanzas := ss, mac := [] }

end GoTie
end AgeModel
