/-
  Lemmas about the World of AgeModel.Cli: the finite map, `accept`, the
  permission bits of created files, and what a single open or write does.
-/
import AgeModel.Cli
namespace AgeModel
namespace Cli

namespace World

@[simp] theorem get_set_same (w : World) (t : Path) (n : Node) : (w.set t n).get t = n := by
  simp [get, set, lookup]

@[simp] theorem get_set_other (w : World) (t u : Path) (n : Node) (h : t ≠ u) : (w.set t n).get u = w.get u := by
  simp [get, set, lookup, h]

@[simp] theorem set_cwd (w : World) (t : Path) (n : Node) : (w.set t n).cwd = w.cwd := rfl
@[simp] theorem set_fsize (w : World) (t : Path) (n : Node) : (w.set t n).fsize = w.fsize := rfl
@[simp] theorem set_umask (w : World) (t : Path) (n : Node) : (w.set t n).umask = w.umask := rfl
@[simp] theorem set_stdout (w : World) (t : Path) (n : Node) : (w.set t n).stdout = w.stdout := rfl
@[simp] theorem set_closeFails (w : World) (t : Path) (n : Node) : (w.set t n).closeFails = w.closeFails := rfl
@[simp] theorem set_stdinTerminal (w : World) (t : Path) (n : Node) : (w.set t n).stdinTerminal = w.stdinTerminal := rfl

/-- a write to `t` leaves every other path alone -/
theorem get_set (w : World) (t u : Path) (n : Node) : (w.set t n).get u = if t = u then n else w.get u := by
  by_cases h : t = u
  · subst h; simp
  · simp [h]

end World

/-! ### accept -/

@[simp] theorem accept_nil (cap : Option Nat) : accept cap 0 [] = ([], true) := by
  cases cap <;> simp [accept]

theorem accept_ok (cap : Option Nat) (n : Nat) (d : Bytes) (h : (accept cap n d).2 = true) :
    (accept cap n d).1 = d := by
  unfold accept at *
  cases cap with
  | none => rfl
  | some c =>
    simp only at h ⊢
    split
    · rfl
    · rename_i hc; simp [hc] at h

theorem accept_prefix (cap : Option Nat) (n : Nat) (d : Bytes) : (accept cap n d).1 <+: d := by
  unfold accept
  cases cap with
  | none => exact List.prefix_refl d
  | some c =>
    simp only
    split
    · exact List.prefix_refl d
    · exact List.take_prefix _ d

theorem accept_fail_length (cap : Option Nat) (n : Nat) (d : Bytes) (hn : ∀ c, cap = some c → n ≤ c)
    (h : (accept cap n d).2 = false) : (accept cap n d).1.length < d.length := by
  unfold accept at *
  cases cap with
  | none => simp at h
  | some c =>
    simp only at h ⊢
    split
    · rename_i hc; simp [hc] at h
    · rename_i hc
      have := hn c rfl
      simp only [List.length_take]
      omega

theorem accept_fail_ne (cap : Option Nat) (n : Nat) (d : Bytes) (hn : ∀ c, cap = some c → n ≤ c)
    (h : (accept cap n d).2 = false) : (accept cap n d).1 ≠ d := by
  intro e
  have := accept_fail_length cap n d hn h
  rw [e] at this
  exact Nat.lt_irrefl _ this

/-- capacity `c` from empty: everything iff it fits -/
theorem accept_zero_some (c : Nat) (d : Bytes) :
    accept (some c) 0 d = if d.length ≤ c then (d, true) else (d.take c, false) := by
  simp [accept]

/-! ### permission bits -/

theorem and_and_zero (a b c : Nat) (h : a &&& c = 0) : (a &&& b) &&& c = 0 := by
  rw [Nat.and_assoc, Nat.and_comm b c, ← Nat.and_assoc, h, Nat.zero_and]

/-- a key file is never readable by group or others, whatever the umask -/
theorem applyUmask_600_private (u : Nat) : applyUmask 0o600 u &&& 0o077 = 0 := by
  unfold applyUmask
  exact and_and_zero _ _ _ (by decide)

/-- with a umask that leaves the owner's bits alone the mode is exactly 0600 -/
theorem applyUmask_600_exact (u : Nat) (h : u &&& 0o600 = 0) : applyUmask 0o600 u = 0o600 := by
  unfold applyUmask
  apply Nat.eq_of_testBit_eq
  intro i
  have hb := congrArg (fun x => x.testBit i) h
  simp only [Nat.testBit_and, Nat.testBit_xor, Nat.zero_testBit] at hb ⊢
  by_cases h6 : Nat.testBit 0o600 i = true
  · have hu : u.testBit i = false := by simpa [h6] using hb
    have h7 : Nat.testBit 0o777 i = true := by
      have : ∀ j, Nat.testBit 0o600 j = true → Nat.testBit 0o777 j = true := by
        intro j hj
        have hj9 : j < 9 := by
          apply Classical.byContradiction
          intro hge
          have : (0o600 : Nat) < 2 ^ j := by
            have : 2 ^ 9 ≤ 2 ^ j := Nat.pow_le_pow_right (by decide) (by omega)
            omega
          rw [Nat.testBit_lt_two_pow this] at hj
          exact Bool.noConfusion hj
        have : j = 0 ∨ j = 1 ∨ j = 2 ∨ j = 3 ∨ j = 4 ∨ j = 5 ∨ j = 6 ∨ j = 7 ∨ j = 8 := by omega
        rcases this with h | h | h | h | h | h | h | h | h <;> subst h <;> revert hj <;> decide
      exact this i h6
    simp [h6, hu, h7]
  · simp at h6
    simp [h6]

/-! ### opening -/

theorem create_some (w w' : World) (p : Bytes) (t : Path) (h : create w p = some (w', t)) :
    resolve w p = some t ∧
    ((w.get t = .absent ∧ w' = w.set t (.file [] (applyUmask 0o666 w.umask))) ∨
     (∃ c m, w.get t = .file c m ∧ w' = w.set t (.file [] m)) ∨
     (w.get t = .devFull ∧ w' = w)) := by
  unfold create at h
  cases hr : resolve w p with
  | none => simp [hr] at h
  | some u =>
    simp only [hr] at h
    cases hg : w.get u with
    | absent =>
      simp only [hg, Option.some.injEq, Prod.mk.injEq] at h
      obtain ⟨h1, h2⟩ := h
      subst h2
      exact ⟨rfl, Or.inl ⟨hg, h1.symm⟩⟩
    | file c m =>
      simp only [hg, Option.some.injEq, Prod.mk.injEq] at h
      obtain ⟨h1, h2⟩ := h
      subst h2
      exact ⟨rfl, Or.inr (Or.inl ⟨c, m, hg, h1.symm⟩)⟩
    | dir => simp [hg] at h
    | devFull =>
      simp only [hg, Option.some.injEq, Prod.mk.injEq] at h
      obtain ⟨h1, h2⟩ := h
      subst h2
      exact ⟨rfl, Or.inr (Or.inr ⟨hg, h1.symm⟩)⟩

theorem create_none (w : World) (p : Bytes) (h : create w p = none) :
    resolve w p = none ∨ ∃ t, resolve w p = some t ∧ w.get t = .dir := by
  unfold create at h
  cases hr : resolve w p with
  | none => exact Or.inl rfl
  | some u =>
    simp only [hr] at h
    cases hg : w.get u with
    | absent => simp [hg] at h
    | file c m => simp [hg] at h
    | dir => exact Or.inr ⟨u, rfl, hg⟩
    | devFull => simp [hg] at h

theorem createExcl_some (w w' : World) (p : Bytes) (t : Path) (h : createExcl w p = some (w', t)) :
    resolve w p = some t ∧ w.get t = .absent ∧ w' = w.set t (.file [] (applyUmask 0o600 w.umask)) := by
  unfold createExcl at h
  cases hr : resolve w p with
  | none => simp [hr] at h
  | some u =>
    simp only [hr] at h
    cases hg : w.get u with
    | absent =>
      simp only [hg, Option.some.injEq, Prod.mk.injEq] at h
      obtain ⟨h1, h2⟩ := h
      subst h2
      exact ⟨rfl, hg, h1.symm⟩
    | file c m => simp [hg] at h
    | dir => simp [hg] at h
    | devFull => simp [hg] at h

/-- `O_EXCL`: an existing node of any kind makes the open fail -/
theorem createExcl_exists (w : World) (p : Bytes) (t : Path) (hr : resolve w p = some t)
    (hg : w.get t ≠ .absent) : createExcl w p = none := by
  unfold createExcl
  cases hn : w.get t with
  | absent => exact absurd hn hg
  | file c m => simp [hr, hn]
  | dir => simp [hr, hn]
  | devFull => simp [hr, hn]

end Cli
end AgeModel
