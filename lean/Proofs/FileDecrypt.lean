/-
  Proofs.FileDecrypt — what a successful `decryptInit` implies.
-/
import Proofs.FileLabels
namespace AgeModel
open Format Stream

theorem identityLoop_key (P : Prims) (ss : List Stanza) :
    ∀ (ids : List Identity) (n c : Nat) (fk : Bytes) (c' : Nat),
      identityLoop P ss ids n c = (.ok (some fk), c') → ∃ i ∈ ids, i.unwrap P ss = .key fk := by
  intro ids
  induction ids with
  | nil => intro n c fk c' h; simp [identityLoop] at h
  | cons i ids ih =>
    intro n c fk c' h
    unfold identityLoop at h
    cases hu : i.unwrap P ss with
    | incorrect =>
      simp only [hu] at h
      obtain ⟨j, hj, hk⟩ := ih _ _ _ _ h
      exact ⟨j, by simp [hj], hk⟩
    | fatal => simp [hu] at h
    | key k' =>
      simp only [hu, Prod.mk.injEq, Except.ok.injEq, Option.some.injEq] at h
      exact ⟨i, by simp, by rw [hu, h.1]⟩

/-- everything a successful Decrypt (up to the creation of the payload reader) establishes -/
theorem decryptInit_ok (P : Prims) (ids : List Identity) (file k payload : Bytes) (c : Nat)
    (h : decryptInit P ids file = (.ok (k, payload), c)) :
    ∃ hdr rest fk, parse file = .ok (hdr, rest) ∧ (∃ i ∈ ids, i.unwrap P hdr.stanzas = .key fk) ∧
      (fk ≠ [] ∨ endsNonNil P hdr.stanzas ids = true) ∧ headerMAC P fk hdr.stanzas = hdr.mac ∧ 16 ≤ rest.length ∧
      k = streamKey P fk (rest.take 16) ∧ payload = rest.drop 16 := by
  unfold decryptInit at h
  split at h
  · simp at h
  · split at h
    · simp at h
    · rename_i hdr rest hp
      split at h
      · simp at h
      · simp at h
      · rename_i fk c0 hl
        split at h
        · simp at h
        · rename_i hfe
          split at h
          · simp at h
          · rename_i hmac
            split at h
            · simp at h
            · rename_i hlen
              simp only [Prod.mk.injEq, Except.ok.injEq] at h
              obtain ⟨⟨hk, hpl⟩, _⟩ := h
              refine ⟨hdr, rest, fk, hp, identityLoop_key P hdr.stanzas ids 0 0 fk c0 hl, ?_, by simpa using hmac,
                by simp only [streamNonceSize] at hlen; omega, hk.symm, hpl.symm⟩
              cases hnn : endsNonNil P hdr.stanzas ids with
              | true => exact Or.inr rfl
              | false => left; intro e; subst e; simp [hnn] at hfe

/-- an error result carries no reader: by the type of `decryptInit` (an `Except`) -/
theorem decryptInit_error_no_reader (P : Prims) (ids : List Identity) (file : Bytes) (e : DecErr) (c : Nat)
    (h : decryptInit P ids file = (.error e, c)) : ∀ k payload, (decryptInit P ids file).1 ≠ .ok (k, payload) := by
  intro k payload; rw [h]; simp

end AgeModel
