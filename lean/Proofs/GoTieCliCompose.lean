/-
  Proofs.GoTieCliCompose — the translated pieces of cmd/age fit together: the abstract callee of one
  translated function, instantiated with the TRANSLATED definition of the function it stands for,
  gives the behaviour the separate ties predict. (`decryptNotPass` calls `decrypt`; `encryptPass` and
  `encryptNotPass` call `encrypt`.) No assumption about `decrypt` / `encrypt` is left in these
  statements — only about what they in turn call.
-/
import Proofs.GoTieCliModes
import Proofs.GoTieCliDecrypt
import Proofs.GoTieCliEncrypt
namespace AgeModel
namespace GoTie
open Extracted

/-- `age -d -i … -j …`: collect the identities (the rejecting identity first), then `decrypt` as translated: refuse a mangled
    intro, de-armor if the input starts with the armor header, `age.Decrypt`, the empty write that opens the output, the copy -/
theorem decryptNotPass_decrypt {ι τ υ ζ : Type} (reject : ι) (PIF : Bytes → τ → Go.M (List ι × Option Go.Err × τ)) (ui : υ)
    (NI : Bytes → υ → τ → Go.M (ι × Option Go.Err × τ))
    (NR : Bytes → Go.M Bytes) (Dec : Bytes → List ι → Go.M (Bytes × Option Go.Err))
    (W : τ → Bytes → Go.M (Int × Option Go.Err × τ)) (Cp : τ → Bytes → Go.M (Int × Option Go.Err × τ))
    (flags : List main_identityFlag) (inp : Bytes) (out : ζ) (t0 : τ) :
    main_decryptNotPass reject PIF ui NI (fun ids i (_ : ζ) t => main_decrypt NR Dec W Cp ids i t) flags inp out t0 =
      (do let r ← collectIds PIF ui NI flags t0 [reject]
          if mangled inp = true then .error (.panic 1000)
          else (do
            let in' ← (if armored inp = true then NR inp else pure inp)
            let d ← Dec in' r.2
            if (d.2 != none) = true then .error (.panic 1001)
            else do
              let w ← W r.1 []
              if (w.2.1 != none) = true then .error (.panic 1002)
              else do
                let c ← Cp w.2.2 d.1
                if (c.2.1 != none) = true then .error (.panic 1003) else pure c.2.2)) := by
  rw [decryptNotPass_tie]
  simp only [cli_decrypt_tie]

/-- `age -p`: the prompt, the passphrase recipient, then `encrypt` as translated -/
theorem encryptPass_encrypt {ζ ρ τ : Type} (Pr : τ → Go.M (Bytes × Option Go.Err × τ)) (NS : Bytes → τ → Go.M (ρ × Option Go.Err × τ))
    (Cfg : ρ → Go.M Unit) (nilZ : ζ) (NW : ζ → τ → Go.M (ζ × τ)) (Enc : ζ → List ρ → τ → Go.M (ζ × Option Go.Err × τ))
    (Cp : ζ → Bytes → τ → Go.M (Int × Option Go.Err × τ)) (Cl : ζ → τ → Go.M (Option Go.Err × τ))
    (inp : Bytes) (out : ζ) (armor : Bool) (t0 : τ) :
    main_encryptPass Pr NS Cfg (main_encrypt nilZ NW Enc Cp Cl) inp out armor t0 =
      (do let p ← Pr t0
          if (p.2.1 != none) = true then .error (.panic 1000)
          else do
            let r ← NS p.1 p.2.2
            if (r.2.1 != none) = true then .error (.panic 1001)
            else do
              Cfg r.1
              if armor = true then (do
                let a ← NW out r.2.2
                encryptTail Enc Cp Cl [r.1] inp a.1 (some a.1) a.2)
              else encryptTail Enc Cp Cl [r.1] inp out none r.2.2) := by
  rw [encryptPass_tie]
  simp only [cli_encrypt_tie]

/-- `age -e -r … -R … -i … -j …`: the recipients in the order `-r`, `-R`, `-i`/`-j`, then `encrypt` as translated -/
theorem encryptNotPass_encrypt {ζ ι ρ τ υ : Type} (PR : Bytes → τ → Go.M (ρ × Option Go.Err × τ))
    (PRF : Bytes → τ → Go.M (List ρ × Option Go.Err × τ)) (PIF : Bytes → τ → Go.M (List ι × Option Go.Err × τ))
    (I2R : List ι → τ → Go.M (List ρ × Option Go.Err × τ)) (ui : υ) (NI : Bytes → υ → τ → Go.M (ι × Option Go.Err × τ))
    (IR : ι → τ → Go.M (ρ × τ)) (nilZ : ζ) (NW : ζ → τ → Go.M (ζ × τ)) (Enc : ζ → List ρ → τ → Go.M (ζ × Option Go.Err × τ))
    (Cp : ζ → Bytes → τ → Go.M (Int × Option Go.Err × τ)) (Cl : ζ → τ → Go.M (Option Go.Err × τ))
    (recs files : List Bytes) (flags : List main_identityFlag) (inp : Bytes) (out : ζ) (armor : Bool) (t0 : τ) :
    main_encryptNotPass PR PRF PIF I2R ui NI IR (main_encrypt nilZ NW Enc Cp Cl) recs files flags inp out armor t0 =
      (do let a ← collectR PR recs t0 []
          let b ← collectRF PRF files a.1 a.2
          let c ← collectIR PIF I2R ui NI IR flags b.1 b.2
          if armor = true then (do
            let w ← NW out c.1
            encryptTail Enc Cp Cl c.2 inp w.1 (some w.1) w.2)
          else encryptTail Enc Cp Cl c.2 inp out none c.1) := by
  rw [encryptNotPass_tie]
  simp only [cli_encrypt_tie]

end GoTie
end AgeModel
