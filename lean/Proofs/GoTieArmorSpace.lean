/-
  Proofs.GoTieArmorSpace — `len(bytes.TrimSpace(b)) == 0` as GoSem has it (every rune, decoded
  left to right, is a Unicode space) is the model's `Armor.allSpace` (a pattern match on the
  UTF-8 encodings of the 25 White_Space code points), for every byte string.
-/
import AgeModel.GoSem
import AgeModel.Armor
namespace AgeModel
namespace GoTie

namespace ArmorSpace
open Go

def spN (n : Nat) : Prop :=
  n = 9 ∨ n = 10 ∨ n = 11 ∨ n = 12 ∨ n = 13 ∨ n = 32 ∨ n = 0x85 ∨ n = 0xA0 ∨ n = 0x1680 ∨
  (0x2000 ≤ n ∧ n ≤ 0x200A) ∨ n = 0x2028 ∨ n = 0x2029 ∨ n = 0x202F ∨ n = 0x205F ∨ n = 0x3000

theorem spN_1 (n : Nat) (h : spN n) (hn : n < 128) :
    n = 9 ∨ n = 10 ∨ n = 11 ∨ n = 12 ∨ n = 13 ∨ n = 32 := by
  unfold spN at h
  rcases h with h|h|h|h|h|h|h|h|h|h|h|h|h|h|h <;> omega

theorem spN_2 (hi lo : Nat) (h : spN (hi * 64 + lo)) (hlo : lo < 64) (h1 : 2 ≤ hi) (h2 : hi < 32) :
    hi = 2 ∧ (lo = 5 ∨ lo = 32) := by
  unfold spN at h
  rcases h with h|h|h|h|h|h|h|h|h|h|h|h|h|h|h <;> omega

theorem spN_3 (hi mid lo : Nat) (h : spN (hi * 4096 + mid * 64 + lo)) (hmid : mid < 64) (hlo : lo < 64)
    (h1 : hi < 16) (h2 : hi = 0 → 32 ≤ mid) :
    (hi = 1 ∧ mid = 26 ∧ lo = 0) ∨ (hi = 2 ∧ mid = 0 ∧ (lo ≤ 10 ∨ lo = 40 ∨ lo = 41 ∨ lo = 47)) ∨
    (hi = 2 ∧ mid = 1 ∧ lo = 31) ∨ (hi = 3 ∧ mid = 0 ∧ lo = 0) := by
  unfold spN at h
  rcases h with h|h|h|h|h|h|h|h|h|h|h|h|h|h|h <;> omega

theorem spN_4 (n : Nat) (h : spN n) (hn : 0x10000 ≤ n) : False := by
  unfold spN at h
  omega

theorem isSpace_nat (n : Nat) : unicode_IsSpace (Int.ofNat n) = true ↔ spN n := by
  simp only [unicode_IsSpace, spN, Bool.or_eq_true, Bool.and_eq_true, beq_iff_eq, decide_eq_true_eq,
    Int.ofNat_eq_natCast]
  omega

theorem isSpace_fffd : unicode_IsSpace 0xFFFD = false := by decide

theorem isCont_iff (b : UInt8) : isCont b = true ↔ 0x80 ≤ b.toNat ∧ b.toNat ≤ 0xBF := by
  simp only [isCont, Bool.and_eq_true, decide_eq_true_eq, UInt8.le_iff_toNat_le]
  rfl

theorem ite_fst_space {p : Prop} [Decidable p] {n w : Nat}
    (h : unicode_IsSpace (if p then (Int.ofNat n, w) else ((0xFFFD : Int), 1)).fst = true) : p ∧ spN n := by
  by_cases hp : p
  · rw [if_pos hp] at h
    exact ⟨hp, (isSpace_nat n).mp h⟩
  · rw [if_neg hp] at h
    have : unicode_IsSpace 0xFFFD = true := h
    rw [isSpace_fffd] at this; cases this

theorem fffd_absurd {P : Prop} (h : unicode_IsSpace ((0xFFFD : Int), 1).fst = true) : P := by
  have : unicode_IsSpace 0xFFFD = true := h
  rw [isSpace_fffd] at this; cases this

theorem shape (c : UInt8) (r : List UInt8) (h : unicode_IsSpace (decodeRune (c :: r)).1 = true) :
    (c.toNat = 9 ∨ c.toNat = 10 ∨ c.toNat = 11 ∨ c.toNat = 12 ∨ c.toNat = 13 ∨ c.toNat = 32) ∨
    (c.toNat = 194 ∧ ∃ c1 r1, r = c1 :: r1) ∨
    (c.toNat = 225 ∧ ∃ b1 b2 r1, r = b1 :: b2 :: r1 ∧ b1.toNat = 154 ∧ b2.toNat = 128) ∨
    (c.toNat = 226 ∧ ∃ b1 b2 r1, r = b1 :: b2 :: r1 ∧ b1.toNat = 128) ∨
    (c.toNat = 226 ∧ ∃ b1 b2 r1, r = b1 :: b2 :: r1 ∧ b1.toNat = 129 ∧ b2.toNat = 159) ∨
    (c.toNat = 227 ∧ ∃ b1 b2 r1, r = b1 :: b2 :: r1 ∧ b1.toNat = 128 ∧ b2.toNat = 128) := by
  unfold decodeRune at h
  simp only at h
  by_cases h1 : c.toNat < 128
  · rw [if_pos h1, isSpace_nat] at h
    exact Or.inl (spN_1 _ h h1)
  rw [if_neg h1] at h
  by_cases h2 : c.toNat < 194
  · rw [if_pos h2] at h; exact fffd_absurd h
  rw [if_neg h2] at h
  by_cases h3 : c.toNat < 224
  · rw [if_pos h3] at h
    match r, h with
    | [], h => exact fffd_absurd h
    | b1 :: r1, h =>
      have ⟨hc, h⟩ := ite_fst_space h
      rw [isCont_iff] at hc
      have := spN_2 _ _ h (Nat.mod_lt _ (by decide)) (by omega) (Nat.mod_lt _ (by decide))
      exact Or.inr (Or.inl ⟨by omega, b1, r1, rfl⟩)
  rw [if_neg h3] at h
  by_cases h4 : c.toNat < 240
  · rw [if_pos h4] at h
    match r, h with
    | [], h => exact fffd_absurd h
    | [_], h => exact fffd_absurd h
    | b1 :: b2 :: r1, h =>
      have ⟨hc, h⟩ := ite_fst_space h
      rw [isCont_iff] at hc
      have hb1 : 128 ≤ b1.toNat ∧ b1.toNat ≤ 191 := by
        split at hc <;> split at hc <;> omega
      have := spN_3 _ _ _ h (Nat.mod_lt _ (by decide)) (Nat.mod_lt _ (by decide))
        (Nat.mod_lt _ (by decide)) (by intro h0; split at hc <;> omega)
      have : (c.toNat = 225 ∧ b1.toNat = 154 ∧ b2.toNat = 128) ∨ (c.toNat = 226 ∧ b1.toNat = 128) ∨
          (c.toNat = 226 ∧ b1.toNat = 129 ∧ b2.toNat = 159) ∨
          (c.toNat = 227 ∧ b1.toNat = 128 ∧ b2.toNat = 128) := by
        omega
      rcases this with ⟨h0, h1, h2⟩ | ⟨h0, h1⟩ | ⟨h0, h1, h2⟩ | ⟨h0, h1, h2⟩
      · exact Or.inr (Or.inr (Or.inl ⟨h0, b1, b2, r1, rfl, h1, h2⟩))
      · exact Or.inr (Or.inr (Or.inr (Or.inl ⟨h0, b1, b2, r1, rfl, h1⟩)))
      · exact Or.inr (Or.inr (Or.inr (Or.inr (Or.inl ⟨h0, b1, b2, r1, rfl, h1, h2⟩))))
      · exact Or.inr (Or.inr (Or.inr (Or.inr (Or.inr ⟨h0, b1, b2, r1, rfl, h1, h2⟩))))
  rw [if_neg h4] at h
  by_cases h5 : c.toNat < 245
  · rw [if_pos h5] at h
    match r, h with
    | [], h => exact fffd_absurd h
    | [_], h => exact fffd_absurd h
    | [_, _], h => exact fffd_absurd h
    | b1 :: b2 :: b3 :: r1, h =>
      have ⟨hc, h⟩ := ite_fst_space h
      exfalso
      refine spN_4 _ h ?_
      split at hc <;> split at hc <;> omega
  · rw [if_neg h5] at h; exact fffd_absurd h

abbrev F : Int × Int → Bool := fun p => unicode_IsSpace p.2

theorem all_step (fuel off : Nat) (b : UInt8) (rest : List UInt8) :
    (runesFrom (fuel + 1) off (b :: rest)).all F =
      (unicode_IsSpace (decodeRune (b :: rest)).1 &&
        (runesFrom fuel (off + (decodeRune (b :: rest)).2) ((b :: rest).drop (decodeRune (b :: rest)).2)).all F) := rfl

theorem dr_e1 (r : List UInt8) : decodeRune (225 :: 154 :: 128 :: r) = (0x1680, 3) := rfl
theorem dr_e2b (r : List UInt8) : decodeRune (226 :: 129 :: 159 :: r) = (0x205F, 3) := rfl
theorem dr_e3 (r : List UInt8) : decodeRune (227 :: 128 :: 128 :: r) = (0x3000, 3) := rfl

theorem dr_e2 (c : UInt8) (r : List UInt8) : decodeRune (226 :: 128 :: c :: r) =
    if isCont c then (Int.ofNat (0x2000 + c.toNat % 64), 3) else (0xFFFD, 1) := by
  unfold decodeRune
  simp only
  rw [if_neg (by decide), if_neg (by decide), if_neg (by decide), if_pos (by decide)]
  by_cases hc : isCont c = true
  · rw [if_pos ⟨by decide, by decide, hc⟩, if_pos hc]; rfl
  · rw [if_neg (fun h => hc h.2.2), if_neg hc]

theorem dr_c2 (c : UInt8) (r : List UInt8) : decodeRune (194 :: c :: r) =
    if isCont c then (Int.ofNat (0x80 + c.toNat % 64), 2) else (0xFFFD, 1) := by
  unfold decodeRune
  simp only
  rw [if_neg (by decide), if_neg (by decide), if_pos (by decide)]
  rfl

theorem dr_ascii (c : UInt8) (r : List UInt8) (h : c.toNat < 128) :
    decodeRune (c :: r) = (Int.ofNat c.toNat, 1) := by
  unfold decodeRune
  simp only
  rw [if_pos h]

theorem sp_e2 (c : UInt8) (r : List UInt8) :
    unicode_IsSpace (decodeRune (226 :: 128 :: c :: r)).1 = true ↔
      ((0x80 ≤ c.toNat ∧ c.toNat ≤ 0x8A) ∨ c = 0xA8 ∨ c = 0xA9 ∨ c = 0xAF) := by
  rw [dr_e2]
  simp only [← UInt8.toNat_inj, UInt8.toNat_ofNat]
  by_cases hc : isCont c = true
  · rw [if_pos hc, isSpace_nat]
    rw [isCont_iff] at hc
    unfold spN
    omega
  · rw [if_neg hc]
    rw [isCont_iff] at hc
    constructor
    · intro h; exact fffd_absurd h
    · intro h; omega

theorem w_e2 (c : UInt8) (r : List UInt8)
    (h : (0x80 ≤ c.toNat ∧ c.toNat ≤ 0x8A) ∨ c = 0xA8 ∨ c = 0xA9 ∨ c = 0xAF) :
    (decodeRune (226 :: 128 :: c :: r)).2 = 3 := by
  rw [dr_e2]
  simp only [← UInt8.toNat_inj, UInt8.toNat_ofNat] at h
  rw [if_pos ((isCont_iff c).mpr (by omega))]

theorem sp_c2 (c : UInt8) (r : List UInt8) :
    unicode_IsSpace (decodeRune (194 :: c :: r)).1 = true ↔ (c = 0x85 ∨ c = 0xA0) := by
  rw [dr_c2]
  simp only [← UInt8.toNat_inj, UInt8.toNat_ofNat]
  by_cases hc : isCont c = true
  · rw [if_pos hc, isSpace_nat]
    rw [isCont_iff] at hc
    unfold spN
    omega
  · rw [if_neg hc]
    rw [isCont_iff] at hc
    constructor
    · intro h; exact fffd_absurd h
    · intro h; omega

theorem w_c2 (c : UInt8) (r : List UInt8) (h : c = 0x85 ∨ c = 0xA0) :
    (decodeRune (194 :: c :: r)).2 = 2 := by
  rw [dr_c2]
  simp only [← UInt8.toNat_inj, UInt8.toNat_ofNat] at h
  rw [if_pos ((isCont_iff c).mpr (by omega))]

theorem sp_ascii (c : UInt8) (r : List UInt8) (h : c = 9 ∨ c = 10 ∨ c = 11 ∨ c = 12 ∨ c = 13 ∨ c = 32) :
    decodeRune (c :: r) = (Int.ofNat c.toNat, 1) ∧ unicode_IsSpace (Int.ofNat c.toNat) = true := by
  simp only [← UInt8.toNat_inj, UInt8.toNat_ofNat] at h
  refine ⟨dr_ascii c r (by omega), ?_⟩
  rw [isSpace_nat]; unfold spN; omega

theorem main (s : Bytes) : ∀ fuel off, s.length ≤ fuel →
    (runesFrom fuel off s).all F = Armor.allSpace s := by
  fun_induction Armor.allSpace s
  case case1 => intro fuel off _; cases fuel <;> rfl
  case case2 r ih =>
    intro fuel off hl
    cases fuel with
    | zero => simp at hl
    | succ fuel =>
      rw [all_step, dr_e1]
      exact ih fuel _ (by simp only [List.length_cons] at hl; omega)
  case case3 c r hc ih =>
    intro fuel off hl
    cases fuel with
    | zero => simp at hl
    | succ fuel =>
      rw [all_step, (sp_e2 c r).mpr hc, w_e2 c r hc]
      exact ih fuel _ (by simp only [List.length_cons] at hl; omega)
  case case4 c r hc =>
    intro fuel off hl
    cases fuel with
    | zero => simp at hl
    | succ fuel =>
      rw [all_step]
      have : unicode_IsSpace (decodeRune (226 :: 128 :: c :: r)).1 = false := by
        cases h : unicode_IsSpace (decodeRune (226 :: 128 :: c :: r)).1
        · rfl
        · exact absurd ((sp_e2 c r).mp h) hc
      rw [this]; rfl
  case case5 r ih =>
    intro fuel off hl
    cases fuel with
    | zero => simp at hl
    | succ fuel =>
      rw [all_step, dr_e2b]
      exact ih fuel _ (by simp only [List.length_cons] at hl; omega)
  case case6 r ih =>
    intro fuel off hl
    cases fuel with
    | zero => simp at hl
    | succ fuel =>
      rw [all_step, dr_e3]
      exact ih fuel _ (by simp only [List.length_cons] at hl; omega)
  case case7 c r hc ih =>
    intro fuel off hl
    cases fuel with
    | zero => simp at hl
    | succ fuel =>
      rw [all_step, (sp_c2 c r).mpr hc, w_c2 c r hc]
      exact ih fuel _ (by simp only [List.length_cons] at hl; omega)
  case case8 c r hc =>
    intro fuel off hl
    cases fuel with
    | zero => simp at hl
    | succ fuel =>
      rw [all_step]
      have : unicode_IsSpace (decodeRune (194 :: c :: r)).1 = false := by
        cases h : unicode_IsSpace (decodeRune (194 :: c :: r)).1
        · rfl
        · exact absurd ((sp_c2 c r).mp h) hc
      rw [this]; rfl
  case case9 c r _ _ _ _ _ hc ih =>
    intro fuel off hl
    cases fuel with
    | zero => simp at hl
    | succ fuel =>
      have ⟨h1, h2⟩ := sp_ascii c r hc
      rw [all_step, h1]
      show (unicode_IsSpace (Int.ofNat c.toNat) && _) = _
      rw [h2]
      exact ih fuel _ (by simp only [List.length_cons] at hl; omega)
  case case10 c r x1 x2 x3 x4 x5 hc =>
    intro fuel off hl
    cases fuel with
    | zero => simp at hl
    | succ fuel =>
      rw [all_step]
      have : unicode_IsSpace (decodeRune (c :: r)).1 = false := by
        cases h : unicode_IsSpace (decodeRune (c :: r)).1
        · rfl
        · exfalso
          rcases shape c r h with h | ⟨h0, c1, r1, hr⟩ | ⟨h0, b1, b2, r1, hr, h1, h2⟩ | ⟨h0, b1, b2, r1, hr, h1⟩
            | ⟨h0, b1, b2, r1, hr, h1, h2⟩ | ⟨h0, b1, b2, r1, hr, h1, h2⟩
          · apply hc
            simp only [← UInt8.toNat_inj, UInt8.toNat_ofNat]
            exact h
          · exact x5 c1 r1 (UInt8.toNat_inj.mp h0) hr
          · have e1 : b1 = 154 := UInt8.toNat_inj.mp h1
            have e2 : b2 = 128 := UInt8.toNat_inj.mp h2
            subst e1 e2
            exact x1 r1 (UInt8.toNat_inj.mp h0) hr
          · have e1 : b1 = 128 := UInt8.toNat_inj.mp h1
            subst e1
            exact x2 b2 r1 (UInt8.toNat_inj.mp h0) hr
          · have e1 : b1 = 129 := UInt8.toNat_inj.mp h1
            have e2 : b2 = 159 := UInt8.toNat_inj.mp h2
            subst e1 e2
            exact x3 r1 (UInt8.toNat_inj.mp h0) hr
          · have e1 : b1 = 128 := UInt8.toNat_inj.mp h1
            have e2 : b2 = 128 := UInt8.toNat_inj.mp h2
            subst e1 e2
            exact x4 r1 (UInt8.toNat_inj.mp h0) hr
      rw [this]; rfl

end ArmorSpace

/-- `len(bytes.TrimSpace(b)) == 0` as the model has it -/
theorem allSpace_eq (b : Bytes) : Go.bytes_allSpace b = Armor.allSpace b :=
  ArmorSpace.main b b.length 0 (Nat.le_refl _)

end GoTie
end AgeModel
