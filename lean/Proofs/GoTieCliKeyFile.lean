/-
  Proofs.GoTieCliKeyFile — the key-file parsers of cmd/age (cmd/age/parse.go), as they stand in the
  source.

  `parseIdentities` (an identity file, plugin identities included) and the line loop of
  `parseRecipientsFile` (`-R`) are TRANSLATED on every run. `parseRecipientsFile` is translated from
  the statement after the file has been opened (`funcSpec.startAt`: the `-`/stdin bookkeeping,
  `os.Open` and the deferred `Close` are outside the fragment; the open file is the bytes it
  delivers); `parseRecipient`, `sshKeyType` and `ssh.ParseAuthorizedKey` are parameters, and
  `warningf` appends to an explicit log (the state `τ`). For EVERY file content they compute the
  file-level model of AgeModel/KeyFile.lean: the keys in file order; or the error naming the
  1-based number of the FIRST offending line; a line that fails to parse is skipped — with exactly
  one warning naming its number — only under `KeyFile.skipCond` (an SSH key of a type age does not
  support, or a well-formed `ssh-rsa` key age refuses), never silently and never when it is a
  corrupted `ssh-rsa` / `ssh-ed25519` line.
-/
import Proofs.GoTieKeyFile
namespace AgeModel
namespace GoTie
open Extracted

theorem cli_ids_loop {κ : Type} (P : Bytes → Go.M (κ × Option Go.Err))
    (hP : ∀ l, ∃ r, P l = .ok r) (sc : Bytes) (se : Bool) (ts : List Bytes) :
    ∀ (ids : List κ) (n : Nat) (log : List Nat),
    ∃ r, main_parseIdentities_loop1 P sc ts ids (Int.ofNat n) = .ok r ∧
      post "main.parseIdentities" se r =
        modelOut "main.parseIdentities" (KeyFile.loop (KeyFile.libLine (lineKey P)) se n ts ids log).res := by
  induction ts with
  | nil =>
    intro ids n log
    refine ⟨_, rfl, ?_⟩
    simp only [post, KeyFile.loop, KeyFile.finish]
    cases se
    · cases ids <;> rfl
    · rfl
  | cons t ts ih =>
    intro ids n log
    have hn : Int.ofNat n + 1 = Int.ofNat (n + 1) := rfl
    simp only [main_parseIdentities_loop1, ignorable_eq, KeyFile.loop, KeyFile.libLine, hn]
    cases hi : KeyFile.ignorable t
    · obtain ⟨⟨k, e⟩, hr⟩ := hP t
      simp only [lineKey, hr, bind, Except.bind, pure, Except.pure]
      cases e with
      | none =>
        simp
        exact ih _ _ _
      | some e =>
        simp
        rfl
    · simp
      exact ih _ _ _

/-- cmd/age `parseIdentities`: the library's loop with `parseIdentity` as the single-line parser -/
theorem cli_parseIdentities_tie {ι : Type} (P : Bytes → Go.M (ι × Option Go.Err))
    (hP : ∀ l, ∃ r, P l = .ok r) (f : Bytes) :
    main_parseIdentities P f =
      .ok (modelOut "main.parseIdentities" (KeyFile.parseIdentities (lineKey P) 65536 16777216 f)) := by
  have hse := scanner_err_eq (Go.io_LimitReader f (16777216 : Int))
  obtain ⟨r, hr, hpost⟩ := cli_ids_loop P hP (Go.io_LimitReader f (16777216 : Int))
    (KeyFile.scan 65536 (Go.io_LimitReader f (16777216 : Int))).err
    (Go.scanner_Tokens (Go.io_LimitReader f (16777216 : Int))) [] 0 []
  have hr' : main_parseIdentities_loop1 P (Go.io_LimitReader f 16777216)
      (Go.scanner_Tokens (Go.io_LimitReader f 16777216)) [] 0 = Except.ok r := hr
  have hmodel : KeyFile.parseIdentities (lineKey P) 65536 16777216 f =
      (KeyFile.loop (KeyFile.libLine (lineKey P)) (KeyFile.scan 65536 (Go.io_LimitReader f 16777216)).err 0
          (Go.scanner_Tokens (Go.io_LimitReader f 16777216)) [] []).res := by
    rw [scanner_tokens_eq]
    rfl
  simp only [main_parseIdentities, hr', bind, Except.bind, pure, Except.pure, hmodel, ← hpost, hse]
  cases r with
  | ret v => rfl
  | next s =>
    obtain ⟨ids', n'⟩ := s
    simp only [post]
    cases (KeyFile.scan 65536 (Go.io_LimitReader f 16777216)).err
    · cases ids' with
      | nil => simp [Go.len]
      | cons a as => simp [Go.len]; omega
    · rfl

/-- what `parseRecipientsFile` calls, and what is assumed of it -/
structure RecFileEnv (ρ π τ : Type) where
  /-- `parseRecipient`: returns -/
  P : Bytes → Go.M (ρ × Option Go.Err)
  hP : ∀ l, ∃ r, P l = .ok r
  /-- `sshKeyType`: the key type the line names, if it is shaped like an SSH public key -/
  K : Bytes → Go.M (Bytes × Bool)
  sniff : Bytes → Option Bytes
  hK : ∀ l, K l = .ok (match sniff l with
                        | some t => (t, true)
                        | none => ([], false))
  /-- `ssh.ParseAuthorizedKey`: only whether it fails is looked at -/
  A : Bytes → Go.M (π × Bytes × List Bytes × Bytes × Option Go.Err)
  valid : Bytes → Bool
  hA : ∀ l, ∃ r, A l = .ok r ∧ (r.2.2.2.2 == none) = valid l
  /-- `warningf`: one more line in the log -/
  W : τ → Nat → List Int → Go.M τ
  absT : τ → List Nat
  hW : ∀ t (n : Nat), ∃ t', W t 0 [Int.ofNat n] = .ok t' ∧ absT t' = absT t ++ [n]

def recFileErr : KeyFile.KeyFileErr → Option Go.Err
  | .lineTooLong n => some ⟨"main.parseRecipientsFile", 0, [Int.ofNat n]⟩
  | .atLine n => some ⟨"main.parseRecipientsFile", 1, [Int.ofNat n]⟩
  | .scanErr => some ⟨"main.parseRecipientsFile", 2, []⟩
  | .noKeys => some ⟨"main.parseRecipientsFile", 3, []⟩

def postR {ρ τ : Type} (se : Bool) :
    Go.Loop (τ × List ρ × Int) (List ρ × Option Go.Err × τ) → (List ρ × Option Go.Err) × τ
  | .ret (ks, e, t) => ((ks, e), t)
  | .next (t, recs, _) =>
    (if se then ([], some ⟨"main.parseRecipientsFile", 2, []⟩)
     else if recs.isEmpty then ([], some ⟨"main.parseRecipientsFile", 3, []⟩)
     else (recs, none), t)

def modelOutR {ρ : Type} : Except KeyFile.KeyFileErr (List ρ) → List ρ × Option Go.Err
  | .ok ks => (ks, none)
  | .error e => ([], recFileErr e)

theorem len_gt_eq (l : Bytes) : decide (Go.len l > (8192 : Int)) = decide (8192 < l.length) := by
  apply decide_eq_decide.mpr
  show ((l.length : Int) > 8192) ↔ _
  omega

theorem cli_recs_loop {ρ π τ : Type} (E : RecFileEnv ρ π τ) (name sc : Bytes) (se : Bool)
    (ts : List Bytes) :
    ∀ (t : τ) (recs : List ρ) (n : Nat) (log : List Nat),
    ∃ r, main_parseRecipientsFile_loop1 E.P E.K E.A E.W name sc ts t recs (Int.ofNat n) = .ok r ∧
      (postR se r).1 = modelOutR
        (KeyFile.loop (KeyFile.cliRecipientLine (lineKey E.P) E.sniff E.valid 8192) se n ts recs log).res ∧
      ∃ suf, (KeyFile.loop (KeyFile.cliRecipientLine (lineKey E.P) E.sniff E.valid 8192) se n ts recs log).skipped
          = log ++ suf ∧ E.absT (postR se r).2 = E.absT t ++ suf := by
  induction ts with
  | nil =>
    intro t recs n log
    refine ⟨_, rfl, ?_, [], ?_, ?_⟩
    · simp only [postR, KeyFile.loop, KeyFile.finish]
      cases se
      · cases recs <;> rfl
      · rfl
    · simp [KeyFile.loop]
    · simp [postR]
  | cons l ts ih =>
    intro t recs n log
    have hn : Int.ofNat n + 1 = Int.ofNat (n + 1) := rfl
    simp only [main_parseRecipientsFile_loop1, ignorable_eq, KeyFile.loop, KeyFile.cliRecipientLine, hn,
      len_gt_eq]
    cases hi : KeyFile.ignorable l
    · by_cases hlen : 8192 < l.length
      · simp only [hlen, decide_true, if_true]
        exact ⟨_, rfl, rfl, [], by simp, by simp [postR]⟩
      · simp only [hlen, decide_false, Bool.false_eq_true, if_false]
        obtain ⟨⟨k, e⟩, hr⟩ := E.hP l
        simp only [lineKey, hr, bind, Except.bind, pure, Except.pure]
        cases e with
        | none =>
          simp
          exact ih _ _ _ _
        | some e =>
          have hne : ((some e : Option Go.Err) != none) = true := rfl
          have hk := E.hK l
          have hsk : KeyFile.skipCond E.sniff E.valid l = (match E.sniff l with
            | some t => (t != KeyFile.sshRsa && t != KeyFile.sshEd25519) || (t == KeyFile.sshRsa && E.valid l)
            | none => false) := rfl
          rcases hs : E.sniff l with _ | ty
          · rw [hs] at hk hsk
            simp only [hne, if_true, hk, hsk, Bool.false_eq_true, if_false]
            exact ⟨_, rfl, rfl, [], by simp, by simp [postR]⟩
          · rw [hs] at hk hsk
            obtain ⟨ra, hra, hv⟩ := E.hA l
            simp only [hne, if_true, hk, hsk, hra, hv]
            simp only [KeyFile.sshRsa, KeyFile.sshEd25519]
            rcases Bool.eq_false_or_eq_true (ty != [115, 115, 104, 45, 114, 115, 97] && ty != [115, 115, 104, 45, 101, 100, 50, 53, 53, 49, 57] ||
                ty == [115, 115, 104, 45, 114, 115, 97] && E.valid l) with hc | hc
            rotate_left
            all_goals simp only [hc]
            · simp only [Bool.false_eq_true, if_false]
              exact ⟨_, rfl, rfl, [], by simp, by simp [postR]⟩
            · obtain ⟨t', ht', habs⟩ := E.hW t (n + 1)
              simp only [if_true, ht']
              obtain ⟨r, h1, h2, suf, h3, h4⟩ := ih t' recs (n + 1) (log ++ [n + 1])
              refine ⟨r, h1, h2, [n + 1] ++ suf, ?_, ?_⟩
              · rw [h3, List.append_assoc]
              · rw [h4, habs, List.append_assoc]
    · simp
      exact ih _ _ _ _

/-- cmd/age `parseRecipientsFile`, from the opened file on: the model's result AND the model's warnings -/
theorem cli_parseRecipientsFile_tie {ρ π τ : Type} (E : RecFileEnv ρ π τ) (name f : Bytes) (t0 : τ) :
    ∃ (res : List ρ × Option Go.Err) (t' : τ),
      main_parseRecipientsFile E.P E.K E.A E.W name f t0 = .ok (res.1, res.2, t') ∧
      let o := KeyFile.cliParseRecipientsFile (lineKey E.P) E.sniff E.valid 8192 65536 16777216 f
      E.absT t' = E.absT t0 ++ o.skipped ∧
      res = match o.res with
            | .ok ks => (ks, none)
            | .error e => ([], recFileErr e) := by
  have hse := scanner_err_eq (Go.io_LimitReader f (16777216 : Int))
  obtain ⟨r, hr, hpost, suf, hsk, habs⟩ := cli_recs_loop E name (Go.io_LimitReader f (16777216 : Int))
    (KeyFile.scan 65536 (Go.io_LimitReader f (16777216 : Int))).err
    (Go.scanner_Tokens (Go.io_LimitReader f (16777216 : Int))) t0 [] 0 []
  have hr' : main_parseRecipientsFile_loop1 E.P E.K E.A E.W name (Go.io_LimitReader f 16777216)
      (Go.scanner_Tokens (Go.io_LimitReader f 16777216)) t0 [] 0 = Except.ok r := hr
  have hmodel : KeyFile.cliParseRecipientsFile (lineKey E.P) E.sniff E.valid 8192 65536 16777216 f =
      KeyFile.loop (KeyFile.cliRecipientLine (lineKey E.P) E.sniff E.valid 8192)
          (KeyFile.scan 65536 (Go.io_LimitReader f 16777216)).err 0
          (Go.scanner_Tokens (Go.io_LimitReader f 16777216)) [] [] := by
    rw [scanner_tokens_eq]
    rfl
  have hm : ∀ x : Except KeyFile.KeyFileErr (List ρ),
      (match x with
        | .ok ks => (ks, none)
        | .error e => ([], recFileErr e)) = modelOutR x := by
    intro x
    cases x <;> rfl
  refine ⟨(postR (KeyFile.scan 65536 (Go.io_LimitReader f (16777216 : Int))).err r).1,
    (postR (KeyFile.scan 65536 (Go.io_LimitReader f (16777216 : Int))).err r).2, ?_, ?_, ?_⟩
  · simp only [main_parseRecipientsFile, hr', bind, Except.bind, pure, Except.pure, hse]
    cases r with
    | ret v => rfl
    | next s =>
      obtain ⟨t', recs', n'⟩ := s
      simp only [postR]
      cases (KeyFile.scan 65536 (Go.io_LimitReader f 16777216)).err
      · cases recs' with
        | nil => simp [Go.len]
        | cons a as => simp [Go.len]; omega
      · rfl
  · rw [hmodel, hsk, habs, List.nil_append]
  · rw [hmodel, hm, hpost]

end GoTie
end AgeModel
