import AgeModel.Basic
import AgeModel.Stream
