/-
  AgeModel.Concrete — instantiates the model's parameters with the concrete
  (unverified, tested) primitives for *execution* by the driver. No theorem
  depends on this file.
-/
import AgeModel.Stream
import AgeModel.Crypto.All
namespace AgeModel

def chacha : AEAD where
  T := 16
  sealF := Crypto.aeadSeal
  openF := Crypto.aeadOpen

/-- age's parameters -/
def chunkSize : Nat := 65536
def ctrLimit : Nat := 2 ^ 88

end AgeModel
