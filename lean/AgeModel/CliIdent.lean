/-
  AgeModel.CliIdent — the two identity wrappers of cmd/age
  (cmd/age/encrypted_keys.go):

  * `LazyScryptIdentity`: asks for the passphrase only when the header is a lone
    passphrase stanza, delegates to the library's passphrase identity, and turns
    "incorrect identity" (a wrong passphrase) into a fatal error;
  * `EncryptedIdentity`: a passphrase-protected identities file, decrypted (and
    the passphrase asked for) on first use only, the parsed identities cached.

  The terminal is a parameter: `ask` is what the passphrase callback returns
  (`none` = it failed: no terminal, read error).
-/
import AgeModel.Recipients
namespace AgeModel
namespace CliIdent
open Format

/-- the library constructor `NewScryptIdentity` refuses the empty passphrase -/
def newScryptIdentityOK (pw : Bytes) : Bool := !pw.isEmpty

/-- `(*LazyScryptIdentity).Unwrap(stanzas)`: the result and whether the passphrase was asked for.
    `maxWF` is the library's default maximum work factor (the CLI never changes it). -/
def lazyUnwrap (P : Prims) (ask : Option Bytes) (maxWF : Nat) (ss : List Stanza) : UnwrapResult × Bool :=
  if ss.any (fun s => s.type = tScrypt) ∧ ss.length ≠ 1 then (.fatal, false)   -- "an scrypt recipient must be the only one"
  else match ss with
    | [s] =>
      if s.type ≠ tScrypt then (.incorrect, false)
      else match ask with
        | none => (.fatal, true)                                 -- "could not read passphrase"
        | some pw =>
          if !newScryptIdentityOK pw then (.fatal, true)
          else match (Identity.scrypt pw maxWF).unwrap P [s] with
            | .incorrect => (.fatal, true)                       -- "incorrect passphrase"
            | r => (r, true)
    | _ => (.incorrect, false)

/-! ### EncryptedIdentity -/

/-- what decrypting and parsing the protected identities file gives, as a function of the
    passphrase callback's answer: an error, or the identities inside -/
structure Protected where
  /-- `age.Decrypt(contents, LazyScryptIdentity)` followed by `parseIdentities`;
      the Bool says whether the passphrase was asked for -/
  open_ : Option Bytes → Option (List Identity) × Bool

structure EncId where
  cached : Option (List Identity)      -- `i.identities`

def EncId.new : EncId := { cached := none }

/-- the inner loop over the decrypted identities -/
def tryAll (P : Prims) (ss : List Stanza) : List Identity → UnwrapResult
  | [] => .incorrect
  | id :: ids =>
    match id.unwrap P ss with
    | .incorrect => tryAll P ss ids
    | r => r

/-- `(*EncryptedIdentity).Unwrap`: new state, result, whether the passphrase was asked for,
    whether the "no match" warning was printed -/
def EncId.unwrap (P : Prims) (F : Protected) (ask : Option Bytes) (e : EncId) (ss : List Stanza) :
    EncId × UnwrapResult × Bool × Bool :=
  match e.cached with
  | some ids =>
    let r := tryAll P ss ids
    (e, r, false, r = .incorrect)
  | none =>
    match F.open_ ask with
    | (none, asked) => (e, .fatal, asked, false)
    | (some ids, asked) =>
      let r := tryAll P ss ids
      ({ cached := some ids }, r, asked, r = .incorrect)

end CliIdent
end AgeModel
