/-
  AgeModel.Basic — byte strings and small helpers shared by every model file.
  Core Lean only (no Mathlib): this file is linked into the `agemodel` driver.
-/
namespace AgeModel

abbrev Bytes := List UInt8

/-- big-endian encoding of `n` on `w` bytes (wraps modulo 2^(8w)) -/
def be : Nat → Nat → Bytes
  | 0, _ => []
  | w+1, n => be w (n / 256) ++ [(n % 256).toUInt8]

/-- inverse of `be` -/
def ofBe : Bytes → Nat
  | [] => 0
  | x :: xs => x.toNat * 256 ^ xs.length + ofBe xs

def str (s : String) : Bytes := s.toUTF8.toList

def hexDigit (n : Nat) : Char :=
  if n < 10 then Char.ofNat (48 + n) else Char.ofNat (87 + n)

def hex (b : Bytes) : String :=
  String.ofList (b.flatMap fun x => [hexDigit (x.toNat / 16), hexDigit (x.toNat % 16)])

def unhexDigit (c : Char) : Option Nat :=
  let n := c.toNat
  if 48 ≤ n ∧ n ≤ 57 then some (n - 48)
  else if 97 ≤ n ∧ n ≤ 102 then some (n - 87)
  else if 65 ≤ n ∧ n ≤ 70 then some (n - 55)
  else none

def unhexAux : List Char → Option Bytes
  | [] => some []
  | [_] => none
  | a :: b :: rest => do
    let x ← unhexDigit a
    let y ← unhexDigit b
    let r ← unhexAux rest
    pure ((x * 16 + y).toUInt8 :: r)

/-- `-` denotes the empty string on the wire -/
def unhex (s : String) : Option Bytes :=
  if s = "-" then some [] else unhexAux s.toList

def hexOrDash (b : Bytes) : String := if b.isEmpty then "-" else hex b

theorem be_length : ∀ (w n : Nat), (be w n).length = w
  | 0, _ => rfl
  | w+1, n => by simp [be, be_length w]

end AgeModel
