import AgeModel.Crypto.Util
/-
  ChaCha20-Poly1305 AEAD (RFC 8439) with empty AAD. Execution only.
  ChaCha20 on sixteen unboxed UInt32; Poly1305 on five 26-bit limbs in UInt64
  (the classic "donna-32" layout), final reduction done on Nat.
-/
namespace AgeModel.Crypto.Impl

@[inline] def chachaQR (a b c d : UInt32) : UInt32 × UInt32 × UInt32 × UInt32 :=
  let a := a + b; let d := rotl32 (d ^^^ a) 16
  let c := c + d; let b := rotl32 (b ^^^ c) 12
  let a := a + b; let d := rotl32 (d ^^^ a) 8
  let c := c + d; let b := rotl32 (b ^^^ c) 7
  (a, b, c, d)

def chachaDouble (s : St16) : St16 :=
  -- column round
  let (x0, x4, x8, x12) := chachaQR s.x0 s.x4 s.x8 s.x12
  let (x1, x5, x9, x13) := chachaQR s.x1 s.x5 s.x9 s.x13
  let (x2, x6, x10, x14) := chachaQR s.x2 s.x6 s.x10 s.x14
  let (x3, x7, x11, x15) := chachaQR s.x3 s.x7 s.x11 s.x15
  -- diagonal round
  let (x0, x5, x10, x15) := chachaQR x0 x5 x10 x15
  let (x1, x6, x11, x12) := chachaQR x1 x6 x11 x12
  let (x2, x7, x8, x13) := chachaQR x2 x7 x8 x13
  let (x3, x4, x9, x14) := chachaQR x3 x4 x9 x14
  ⟨x0, x1, x2, x3, x4, x5, x6, x7, x8, x9, x10, x11, x12, x13, x14, x15⟩

/-- key: 32 bytes, nonce: 12 bytes -/
def chachaInit (key nonce : ByteArray) (ctr : UInt32) : St16 :=
  ⟨0x61707865, 0x3320646e, 0x79622d32, 0x6b206574,
   le32At key 0, le32At key 4, le32At key 8, le32At key 12,
   le32At key 16, le32At key 20, le32At key 24, le32At key 28,
   ctr, le32At nonce 0, le32At nonce 4, le32At nonce 8⟩

def chachaBlock (init : St16) : St16 := Id.run do
  let mut s := init
  for _ in [0:10] do
    s := chachaDouble s
  return s.add init

def St16.toBytes (s : St16) : ByteArray :=
  let o := ByteArray.emptyWithCapacity 64
  let o := pushLe32 o s.x0; let o := pushLe32 o s.x1; let o := pushLe32 o s.x2; let o := pushLe32 o s.x3
  let o := pushLe32 o s.x4; let o := pushLe32 o s.x5; let o := pushLe32 o s.x6; let o := pushLe32 o s.x7
  let o := pushLe32 o s.x8; let o := pushLe32 o s.x9; let o := pushLe32 o s.x10; let o := pushLe32 o s.x11
  let o := pushLe32 o s.x12; let o := pushLe32 o s.x13; let o := pushLe32 o s.x14; let o := pushLe32 o s.x15
  o

/-- xor one full 32-bit keystream word into four data bytes at offset `i` (all in range) -/
@[inline] def xorWord (out : ByteArray) (data : ByteArray) (i : Nat) (w : UInt32) : ByteArray :=
  pushLe32 out (le32At data i ^^^ w)

def chachaXorFull (out data : ByteArray) (off : Nat) (k : St16) : ByteArray :=
  let o := xorWord out data off k.x0
  let o := xorWord o data (off+4) k.x1
  let o := xorWord o data (off+8) k.x2
  let o := xorWord o data (off+12) k.x3
  let o := xorWord o data (off+16) k.x4
  let o := xorWord o data (off+20) k.x5
  let o := xorWord o data (off+24) k.x6
  let o := xorWord o data (off+28) k.x7
  let o := xorWord o data (off+32) k.x8
  let o := xorWord o data (off+36) k.x9
  let o := xorWord o data (off+40) k.x10
  let o := xorWord o data (off+44) k.x11
  let o := xorWord o data (off+48) k.x12
  let o := xorWord o data (off+52) k.x13
  let o := xorWord o data (off+56) k.x14
  xorWord o data (off+60) k.x15

/-- ChaCha20 encryption of `data` starting at block counter `ctr0` -/
def chachaXor (key nonce : ByteArray) (ctr0 : UInt32) (data : ByteArray) : ByteArray := Id.run do
  let mut out := ByteArray.emptyWithCapacity (data.size + 4)
  let nfull := data.size / 64
  for b in [0:nfull] do
    let ks := chachaBlock (chachaInit key nonce (ctr0 + b.toUInt32))
    out := chachaXorFull out data (b * 64) ks
  let rem := data.size - nfull * 64
  if rem > 0 then
    let ks := (chachaBlock (chachaInit key nonce (ctr0 + nfull.toUInt32))).toBytes
    for j in [0:rem] do
      out := out.push (data[nfull * 64 + j]! ^^^ ks[j]!)
  return out

/-! ### Poly1305 -/

structure P5 where
  h0 : UInt64
  h1 : UInt64
  h2 : UInt64
  h3 : UInt64
  h4 : UInt64

def m26 : UInt64 := 0x3ffffff

/-- absorb one 16-byte block at `off`; `hibit` is `1 <<< 24` for full blocks, 0 for the padded last one -/
def polyBlock (r : P5) (h : P5) (m : ByteArray) (off : Nat) (hibit : UInt64) : P5 :=
  let t0 := (le32At m off).toUInt64
  let t1 := (le32At m (off+4)).toUInt64
  let t2 := (le32At m (off+8)).toUInt64
  let t3 := (le32At m (off+12)).toUInt64
  let h0 := h.h0 + (t0 &&& m26)
  let h1 := h.h1 + ((((t1 <<< 32) ||| t0) >>> 26) &&& m26)
  let h2 := h.h2 + ((((t2 <<< 32) ||| t1) >>> 20) &&& m26)
  let h3 := h.h3 + ((((t3 <<< 32) ||| t2) >>> 14) &&& m26)
  let h4 := h.h4 + ((t3 >>> 8) ||| hibit)
  let r0 := r.h0; let r1 := r.h1; let r2 := r.h2; let r3 := r.h3; let r4 := r.h4
  let s1 := r1 * 5; let s2 := r2 * 5; let s3 := r3 * 5; let s4 := r4 * 5
  let d0 := h0*r0 + h1*s4 + h2*s3 + h3*s2 + h4*s1
  let d1 := h0*r1 + h1*r0 + h2*s4 + h3*s3 + h4*s2
  let d2 := h0*r2 + h1*r1 + h2*r0 + h3*s4 + h4*s3
  let d3 := h0*r3 + h1*r2 + h2*r1 + h3*r0 + h4*s4
  let d4 := h0*r4 + h1*r3 + h2*r2 + h3*r1 + h4*r0
  let c := d0 >>> 26; let h0 := d0 &&& m26
  let d1 := d1 + c; let c := d1 >>> 26; let h1 := d1 &&& m26
  let d2 := d2 + c; let c := d2 >>> 26; let h2 := d2 &&& m26
  let d3 := d3 + c; let c := d3 >>> 26; let h3 := d3 &&& m26
  let d4 := d4 + c; let c := d4 >>> 26; let h4 := d4 &&& m26
  let h0 := h0 + c * 5; let c := h0 >>> 26; let h0 := h0 &&& m26
  let h1 := h1 + c
  ⟨h0, h1, h2, h3, h4⟩

/-- Poly1305 MAC; key is 32 bytes (r ‖ s) -/
def poly1305 (key msg : ByteArray) : ByteArray := Id.run do
  let rN := leToNat (key.extract 0 16) &&& 0x0ffffffc0ffffffc0ffffffc0fffffff
  let sN := leToNat (key.extract 16 32)
  let limb (i : Nat) : UInt64 := ((rN >>> (26 * i)) &&& 0x3ffffff).toUInt64
  let r : P5 := ⟨limb 0, limb 1, limb 2, limb 3, limb 4⟩
  let mut h : P5 := ⟨0, 0, 0, 0, 0⟩
  let nfull := msg.size / 16
  for b in [0:nfull] do
    h := polyBlock r h msg (b * 16) 0x1000000
  let rem := msg.size - nfull * 16
  if rem > 0 then
    let last := ((msg.extract (nfull * 16) msg.size).push 1) ++ zeros (15 - rem)
    h := polyBlock r h last 0 0
  let acc := h.h0.toNat + (h.h1.toNat <<< 26) + (h.h2.toNat <<< 52) + (h.h3.toNat <<< 78) + (h.h4.toNat <<< 104)
  let acc := acc % (2^130 - 5)
  return natToLe ((acc + sN) % 2^128) 16

def aeadMacData (ct : ByteArray) : ByteArray :=
  -- AAD is empty: no AAD bytes, no AAD padding
  let padded := ct ++ zeros ((16 - ct.size % 16) % 16)
  pushLe64 (pushLe64 padded 0) ct.size.toUInt64

/-- key 32 bytes, nonce 12 bytes (caller checks) -/
def aeadSealBA (key nonce pt : ByteArray) : ByteArray :=
  let otk := (chachaBlock (chachaInit key nonce 0)).toBytes.extract 0 32
  let ct := chachaXor key nonce 1 pt
  ct ++ poly1305 otk (aeadMacData ct)

def aeadOpenBA (key nonce c : ByteArray) : Option ByteArray :=
  if c.size < 16 then none else
  let ct := c.extract 0 (c.size - 16)
  let tag := c.extract (c.size - 16) c.size
  let otk := (chachaBlock (chachaInit key nonce 0)).toBytes.extract 0 32
  if baEq (poly1305 otk (aeadMacData ct)) tag then some (chachaXor key nonce 1 ct) else none

end AgeModel.Crypto.Impl
